/-
The ENTRY PHASE of the push-pull protocol (subscribe exchange), on top of `Proofs/Protocol.lean`.

`Protocol.lean` models clients that are subscribed from the start.  Here a client may be *not yet
subscribed* (`joined = false`, model: `DtState.dueToSubscribe`): it sends SUBSCRIBE requests, the server
answers with a SUBSCRIBE response carrying the whole log and a checkpoint, and on receipt the client
resets itself (`WDt.applyPack`: buffer emptied, sequence number restarts, checkpoint from the response)
and applies the log.  The network is adversarial as before: every request ever sent is served any number
of times at any later time, every response ever produced is delivered any number of times at any time.

What server and client do for a subscribe exchange is read off `processPack` (Model/Server.lean, normal
form in Proofs/ServerLog.lean) and `WDt.applyPack` / `WDt.createPack` (Model/Wired.lean):

* `createPack` of a `dueToSubscribe` datatype: `subscribe = true`, `cp.sseq` = the client's sseq, the
  pending operations ARE carried along.
* `processPack`, dispatch `.subscribe` (taken for a subscribe request of a client that is not recorded
  yet — `allMatchedNotSubscribed` — AND for one that is recorded already and whose request names
  another datatype id than the stored one — `allMatchedSubscribed`, `sameDuid = false`; see
  `PJ.dsp_subscribe`): `inOps = []`, i.e. the carried operations are NOT pushed; `cp0` = the STORED
  record of the client (⟨0,0⟩ only if there is none); `cp1 = ⟨end of log, cp0.cseq⟩`; `pushOps … [] =
  (cp1, [])`; pulled = the log after the request's sseq; recorded and returned checkpoint
  `cp3 = ⟨end of log, cp0.cseq⟩`; the response has `subscribe = true`.  So serving a subscribe request
  is serving a normal request that pushes nothing (`PJ.subscribe_path`).
* `applyPack` on a response with `subscribe = true`: ignored unless the datatype is due to subscribe
  (the D33 repair); otherwise, if the first operation is a snapshot operation, the reset described
  above, then ALL operations of the response are applied (own ones included) and the checkpoint
  becomes the response's; if the first operation is no snapshot operation the response is refused and
  nothing changes.

Main results: `join_inv`, `join_inv_client`, `join_checkpoint_monotone`, `join_server_monotone`,
`join_never_refused`, `join_log_is_exactly_issued`, `join_as_if_once`, `join_quiescent_converged`,
`stale_sub_response_harmless`, the D33 witness `old_behaviour_breaks_invariant`, and a non-vacuity scenario.
Core Lean only.
-/
import Orda.Proofs.Protocol
namespace Orda
open PR

/-! ## The extended LTS -/

inductive JMsgKind where
  | sub | normal
deriving DecidableEq, Repr

structure JClient where
  base : PClient            -- cuid, buf, cp, applied as in Protocol.lean
  joined : Bool             -- false: due to subscribe

structure JReq where
  kind : JMsgKind
  i : Nat                   -- index of the sending client
  s : Nat                   -- the sseq of the client's checkpoint when the request was made
  ops : List Op             -- the operations it carries (`createPack`: the pending ones, whatever the kind)

structure JResp where
  kind : JMsgKind
  i : Nat
  ops : List Op             -- pulled operations (a `sub` response: the log it was produced from, after `s`)
  cp : CheckPoint

structure JSys where
  clients : List JClient
  log : List Op
  cps : List (String × CheckPoint)
  reqs : List JReq          -- requests ever sent
  resps : List JResp        -- responses ever produced

def JSys.recOf (S : JSys) (u : String) : CheckPoint := (alFind u S.cps).getD ⟨0, 0⟩

/-- the reset of `WDt.applyPack` for a subscribe response whose first operation is a snapshot operation,
    with the very arithmetic of the model: buffer emptied (the sequence number restarts), checkpoint set
    to `⟨p.cp.sseq - #ops, p.cp.cseq⟩`, then the last `k` operations of the response are applied — ALL of
    them, own ones included — and the checkpoint is merged with `max` -/
def JClient.join (cl : JClient) (p : JResp) : JClient :=
  let cp0 : CheckPoint := ⟨p.cp.sseq - p.ops.length, p.cp.cseq⟩
  let k : Nat := (((p.cp.sseq : Int) - cp0.sseq) - ((p.cp.cseq : Int) - cp0.cseq)).toNat
  { base := { cuid := cl.base.cuid, buf := [],
              cp := ⟨max cp0.sseq p.cp.sseq, max cp0.cseq p.cp.cseq⟩,
              applied := p.ops.drop (p.ops.length - k) },
    joined := true }

/-- `isSnapshotFirst`: the check `applyPack` makes on a subscribe response -/
def snapFirst : List Op → Bool
  | ⟨_, .snapshot _⟩ :: _ => true
  | _ => false

/-- what a client does with a SUBSCRIBE response (`WDt.applyPack`, repaired): a subscribed client ignores
    it; a client due to subscribe joins if the first operation is a snapshot operation and refuses the
    response (no change) otherwise -/
def JClient.deliverSub (cl : JClient) (p : JResp) : JClient :=
  if cl.joined then cl else if snapFirst p.ops then cl.join p else cl

/-- the behaviour BEFORE the D33 repair: no look at the state of the datatype -/
def JClient.deliverSubOld (cl : JClient) (p : JResp) : JClient :=
  if snapFirst p.ops then cl.join p else cl

inductive JStep : JSys → JSys → Prop
  /-- (1) any client, joined or not, issues an operation: its id, next seq -/
  | localOp (S : JSys) (i : Nat) (cl : JClient) (o : Op) :
      S.clients[i]? = some cl → o.id.cuid = cl.base.cuid → o.id.seq = cl.base.buf.length + 1 →
      JStep S { S with clients := S.clients.set i { cl with base := { cl.base with buf := cl.base.buf ++ [o] } } }
  /-- (2) client `i` sends its current request (`createPack`): a subscribe request while it is not joined,
      a normal one afterwards; the pending operations are carried in both -/
  | send (S : JSys) (i : Nat) (cl : JClient) :
      S.clients[i]? = some cl →
      JStep S { S with reqs := S.reqs ++ [⟨if cl.joined then .normal else .sub, i, cl.base.cp.sseq,
                                           cl.base.buf.drop cl.base.cp.cseq⟩] }
  /-- the server serves any NORMAL request ever sent, as in `PStep.serve` -/
  | serve (S : JSys) (r : JReq) (cl : JClient) (cp2 : CheckPoint) (docs : List OpDoc) :
      r ∈ S.reqs → r.kind = .normal → S.clients[r.i]? = some cl →
      pushOps pDuid pCol ⟨S.log.length, (S.recOf cl.base.cuid).cseq⟩ r.ops [] = .ok (cp2, docs) →
      JStep S { S with log := S.log ++ docs.map (·.op),
                       cps := alSet cl.base.cuid cp2 S.cps,
                       resps := S.resps ++ [⟨.normal, r.i, S.log.drop r.s, cp2⟩] }
  | refuse (S : JSys) (r : JReq) (cl : JClient) (code : Nat) :
      r ∈ S.reqs → r.kind = .normal → S.clients[r.i]? = some cl →
      pushOps pDuid pCol ⟨S.log.length, (S.recOf cl.base.cuid).cseq⟩ r.ops [] = .error code →
      JStep S S
  /-- (3) the server serves ANY subscribe request ever sent, any number of times, at any later time —
      also when its client is recorded already, has joined and has pushed operations (`processPack`,
      dispatch `.subscribe`): nothing is pushed, the log is unchanged, the record keeps its cseq and moves
      its sseq to the end of the log, the answer carries the log after the request's sseq -/
  | serveSub (S : JSys) (r : JReq) (cl : JClient) :
      r ∈ S.reqs → r.kind = .sub → S.clients[r.i]? = some cl →
      JStep S { S with cps := alSet cl.base.cuid ⟨S.log.length, (S.recOf cl.base.cuid).cseq⟩ S.cps,
                       resps := S.resps ++ [⟨.sub, r.i, S.log.drop r.s,
                                             ⟨S.log.length, (S.recOf cl.base.cuid).cseq⟩⟩] }
  /-- a normal response is delivered to its (joined) client, as in `PStep.deliver`; an unjoined client
      never has a normal response (`no_normal_resp_for_unjoined`), so the guard excludes nothing -/
  | deliver (S : JSys) (p : JResp) (cl : JClient) :
      p ∈ S.resps → p.kind = .normal → S.clients[p.i]? = some cl → cl.joined = true →
      JStep S { S with clients := S.clients.set p.i { cl with base := cl.base.receive ⟨p.i, p.ops, p.cp⟩ } }
  /-- (4) ANY subscribe response ever produced is delivered to its client, any number of times, at any time -/
  | deliverSub (S : JSys) (p : JResp) (cl : JClient) :
      p ∈ S.resps → p.kind = .sub → S.clients[p.i]? = some cl →
      JStep S { S with clients := S.clients.set p.i (cl.deliverSub p) }

/-- clients flagged `true` start subscribed on the empty log (the creator — or, as in `Protocol.lean`,
    any client subscribed from the start); clients flagged `false` start due to subscribe -/
def JSys.init (cs : List (String × Bool)) : JSys :=
  { clients := cs.map (fun c => ⟨⟨c.1, [], ⟨0, 0⟩, []⟩, c.2⟩), log := [], cps := [], reqs := [], resps := [] }

inductive JReach (cs : List (String × Bool)) : JSys → Prop
  | init : (cs.map (·.1)).Nodup → JReach cs (JSys.init cs)
  | step {S S' : JSys} : JReach cs S → JStep S S' → JReach cs S'

/-! ## Projection onto the system of `Protocol.lean` -/

/-- the operations the server pushes for a request (`inOps` of `processPack`): none for a subscribe request -/
def JReq.pushed (r : JReq) : List Op := match r.kind with | .sub => [] | .normal => r.ops

def JReq.toP (r : JReq) : PReq := ⟨r.i, r.s, r.pushed⟩
def JResp.toP (p : JResp) : PResp := ⟨p.i, p.ops, p.cp⟩
def JSys.toP (S : JSys) : PSys :=
  ⟨S.clients.map (·.base), S.log, S.cps, S.reqs.map (·.toP), S.resps.map (·.toP)⟩

/-- the invariant: the projection satisfies the invariant of `Protocol.lean` (J1–J3 for EVERY client,
    request and response facts), and a client that has not joined is untouched: checkpoint ⟨0,0⟩, nothing
    applied, nothing of it recorded as pushed, only subscribe requests and subscribe responses -/
structure JInv (S : JSys) : Prop where
  p : PInv S.toP
  unj : ∀ (i : Nat) (cl : JClient), S.clients[i]? = some cl → cl.joined = false →
    cl.base.cp = ⟨0, 0⟩ ∧ cl.base.applied = [] ∧ (S.recOf cl.base.cuid).cseq = 0 ∧
    (∀ r ∈ S.reqs, r.i = i → r.kind = .sub) ∧ (∀ q ∈ S.resps, q.i = i → q.kind = .sub)

namespace PJ

/-! ## Helpers -/

theorem toP_recOf (S : JSys) (u : String) : S.toP.recOf u = S.recOf u := rfl

theorem toP_client {S : JSys} {i : Nat} {cl : JClient} (h : S.clients[i]? = some cl) :
    S.toP.clients[i]? = some cl.base := by
  simp [JSys.toP, List.getElem?_map, h]

theorem set_self {α : Type} {l : List α} {i : Nat} {a : α} (h : l[i]? = some a) : l.set i a = l := by
  apply List.ext_getElem?
  intro j
  rw [List.getElem?_set]
  split
  · next hij => subst hij; split <;> simp_all
  · rfl

theorem jset_lookup {l : List JClient} {i j : Nat} {a b : JClient} (h : (l.set i a)[j]? = some b) :
    (j = i ∧ b = a) ∨ (j ≠ i ∧ l[j]? = some b) := by
  rw [List.getElem?_set] at h
  split at h
  · next hij =>
    split at h
    · simp at h; exact Or.inl ⟨hij.symm, h.symm⟩
    · cases h
  · next hij => exact Or.inr ⟨fun h' => hij h'.symm, h⟩

theorem pushOps_nil (cp : CheckPoint) : pushOps pDuid pCol cp [] [] = .ok (cp, []) := by simp [pushOps]

/-- the reset in closed form: for a response that does not carry more operations than its checkpoint counts
    (every response of a reachable state) the joined client holds exactly the response's checkpoint and
    has applied exactly the response's operations -/
theorem join_simp (cl : JClient) (p : JResp) (h : p.ops.length ≤ p.cp.sseq) :
    cl.join p = ⟨⟨cl.base.cuid, [], p.cp, p.ops⟩, true⟩ := by
  unfold JClient.join
  have hk : ((((p.cp.sseq : Int) - ((p.cp.sseq - p.ops.length : Nat) : Int)) - ((p.cp.cseq : Int) - p.cp.cseq)).toNat)
      = p.ops.length := by omega
  simp only [hk, Nat.sub_self, List.drop_zero, Nat.max_self]
  have : max (p.cp.sseq - p.ops.length) p.cp.sseq = p.cp.sseq := by omega
  rw [this]

/-! ## Preservation at the level of `PSys`: a request is added, a client joins -/

theorem pinv_addReq {P : PSys} (h : PInv P) {cl : PClient} (r : PReq) (hi : P.clients[r.i]? = some cl)
    (hr : ReqInv (P.recOf cl.cuid).cseq cl r) : PInv { P with reqs := P.reqs ++ [r] } := by
  refine ⟨h.nodup, h.cli, h.logCuid, h.recS, ?_, h.resp⟩
  intro r' hr' b hj
  show ReqInv (P.recOf b.cuid).cseq b r'
  rcases List.mem_append.1 hr' with hr' | hr'
  · exact h.req r' hr' b hj
  · simp only [List.mem_singleton] at hr'
    subst hr'
    have hj' : P.clients[r'.i]? = some b := hj
    rw [hi] at hj'; cases hj'
    exact hr

/-- the join step: a client that is untouched so far (checkpoint ⟨0,0⟩, nothing recorded as pushed, its
    requests push nothing) takes over checkpoint and operations of a response produced for it -/
theorem pinv_join {P : PSys} (h : PInv P) {i : Nat} {cl : PClient} {p : PResp} (hi : P.clients[i]? = some cl)
    (hcp : cl.cp = ⟨0, 0⟩) (hrc : (P.recOf cl.cuid).cseq = 0)
    (hreq : ∀ r ∈ P.reqs, r.i = i → r.ops = []) (hp : p ∈ P.resps) (hpi : p.i = i) :
    PInv { P with clients := P.clients.set i ⟨cl.cuid, [], p.cp, p.ops⟩ } := by
  have hlt : i < P.clients.length := (List.getElem?_eq_some_iff.1 hi).1
  have hc := h.cli i cl hi
  have hrp := h.resp p hp cl (by rw [hpi]; exact hi)
  have hown : own cl.cuid P.log = [] := by rw [hc.j1, hrc]; simp
  refine ⟨?_, ?_, ?_, h.recS, ?_, ?_⟩
  · show ((P.clients.set i _).map (·.cuid)).Nodup
    rw [map_cuid_set (b := ⟨cl.cuid, [], p.cp, p.ops⟩) hi rfl]; exact h.nodup
  · intro j b hj
    show CInv P.log (P.recOf b.cuid).cseq b
    rcases set_lookup hj with ⟨_, hb'⟩ | ⟨_, hj'⟩
    · subst hb'
      show CInv P.log (P.recOf cl.cuid).cseq ⟨cl.cuid, [], p.cp, p.ops⟩
      rw [hrc]
      obtain ⟨e, sr, h1, h2, h3, h4, h5, h6⟩ := hrp
      have hsr : sr = 0 := by rw [hcp] at h2; simpa using h2
      -- no operation of this client is in the log, so nothing lies between `e` and the checkpoint
      have hnil : (P.log.take p.cp.sseq).drop e = [] := by
        apply List.eq_nil_iff_forall_not_mem.2
        intro o ho
        have hou := h5 o ho
        have : o ∈ own cl.cuid P.log :=
          List.mem_filter.2 ⟨List.mem_of_mem_take (List.mem_of_mem_drop ho), by simp [hou]⟩
        rw [hown] at this; simp at this
      have hee : e = p.cp.sseq := by
        have := congrArg List.length hnil
        simp only [List.length_drop, List.length_take, List.length_nil] at this
        omega
      have hown' : own cl.cuid (P.log.take p.cp.sseq) = [] := by
        apply own_of_all_frn
        intro o ho hou
        have : o ∈ own cl.cuid P.log := List.mem_filter.2 ⟨List.mem_of_mem_take ho, by simp [hou]⟩
        rw [hown] at this; simp at this
      refine ⟨by intro k hk; simp at hk, by simpa using hown, Nat.zero_le _, h4, ?_, ?_⟩
      · show (own cl.cuid (P.log.take p.cp.sseq)).length = p.cp.cseq
        rw [h6]
      · show p.ops = frn cl.cuid (P.log.take p.cp.sseq)
        rw [h1, hsr, hee, List.drop_zero]
        have := own_frn_length cl.cuid (P.log.take p.cp.sseq)
        rw [hown'] at this
        unfold frn
        symm
        apply List.filter_eq_self.2
        intro o ho
        by_cases hne : o.id.cuid = cl.cuid
        · have : o ∈ own cl.cuid (P.log.take p.cp.sseq) := List.mem_filter.2 ⟨ho, by simp [hne]⟩
          rw [hown'] at this; simp at this
        · simp [hne]
    · exact h.cli j b hj'
  · intro o ho
    obtain ⟨j, b, hj, hbo⟩ := h.logCuid o ho
    by_cases hji : j = i
    · subst hji
      rw [hi] at hj; cases hj
      exact ⟨j, _, List.getElem?_set_self hlt, hbo⟩
    · exact ⟨j, b, by show (P.clients.set i _)[j]? = some b; rw [List.getElem?_set_ne (Ne.symm hji)]; exact hj, hbo⟩
  · intro r hr b hj
    show ReqInv (P.recOf b.cuid).cseq b r
    rcases set_lookup hj with ⟨hri, hb'⟩ | ⟨_, hj'⟩
    · subst hb'
      obtain ⟨n, c0, _, _, _, g4⟩ := h.req r hr cl (by rw [hri]; exact hi)
      rw [hcp] at g4
      refine ⟨0, 0, Nat.zero_le _, Nat.zero_le _, by simp [hreq r hr hri], ?_⟩
      show r.s ≤ p.cp.sseq
      have : r.s = 0 := by simpa using g4
      omega
    · exact h.req r hr b hj'
  · intro q hq b hj
    show RespInv P.log b q
    rcases set_lookup hj with ⟨hqi, hb'⟩ | ⟨_, hj'⟩
    · subst hb'
      exact (h.resp q hq cl (by rw [hqi]; exact hi)).mono rfl (by rw [hcp]; exact Nat.zero_le _)
    · exact h.resp q hq b hj'

/-! ## Preservation at the level of `JSys` -/

theorem toP_setClient (S : JSys) (i : Nat) (cl' : JClient) :
    ({ S with clients := S.clients.set i cl' } : JSys).toP =
      { S.toP with clients := S.toP.clients.set i cl'.base } := by
  simp [JSys.toP, List.map_set]

theorem toP_serve (S : JSys) (u : String) (cp2 : CheckPoint) (acc : List Op) (q : JResp) :
    ({ S with log := S.log ++ acc, cps := alSet u cp2 S.cps, resps := S.resps ++ [q] } : JSys).toP =
      { S.toP with log := S.toP.log ++ acc, cps := alSet u cp2 S.toP.cps, resps := S.toP.resps ++ [q.toP] } := by
  simp [JSys.toP, List.map_append]

theorem toP_serveSub (S : JSys) (u : String) (cp2 : CheckPoint) (q : JResp) :
    ({ S with cps := alSet u cp2 S.cps, resps := S.resps ++ [q] } : JSys).toP =
      { S.toP with log := S.toP.log ++ ([] : List OpDoc).map (·.op), cps := alSet u cp2 S.toP.cps,
                   resps := S.toP.resps ++ [q.toP] } := by
  simp [JSys.toP, List.map_append]

/-- the `unj` clause when one client is replaced by one with the same id that either is joined or is
    the old, unjoined one up to its buffer -/
theorem unj_update {S : JSys} (h : JInv S) {i : Nat} {cl cl' : JClient} (hi : S.clients[i]? = some cl)
    (hu : cl'.base.cuid = cl.base.cuid)
    (hk : cl'.joined = false → cl.joined = false ∧ cl'.base.cp = cl.base.cp ∧ cl'.base.applied = cl.base.applied) :
    ∀ (j : Nat) (b : JClient), (S.clients.set i cl')[j]? = some b → b.joined = false →
      b.base.cp = ⟨0, 0⟩ ∧ b.base.applied = [] ∧ (S.recOf b.base.cuid).cseq = 0 ∧
      (∀ r ∈ S.reqs, r.i = j → r.kind = .sub) ∧ (∀ q ∈ S.resps, q.i = j → q.kind = .sub) := by
  intro j b hj hb
  rcases jset_lookup hj with ⟨hji, hb'⟩ | ⟨_, hj'⟩
  · subst hb'; subst hji
    obtain ⟨k1, k2, k3⟩ := hk hb
    obtain ⟨u1, u2, u3, u4, u5⟩ := h.unj j cl hi k1
    exact ⟨by rw [k2]; exact u1, by rw [k3]; exact u2, by rw [hu]; exact u3, u4, u5⟩
  · exact h.unj j b hj' hb

theorem jinv_localOp {S : JSys} (h : JInv S) {i : Nat} {cl : JClient} {o : Op} (hi : S.clients[i]? = some cl)
    (hu : o.id.cuid = cl.base.cuid) (hs : o.id.seq = cl.base.buf.length + 1) :
    JInv { S with clients := S.clients.set i { cl with base := { cl.base with buf := cl.base.buf ++ [o] } } } := by
  refine ⟨?_, ?_⟩
  · rw [toP_setClient]
    exact pinv_localOp h.p (toP_client hi) hu hs
  · exact unj_update h hi rfl (fun hb => ⟨hb, rfl, rfl⟩)

theorem jinv_send {S : JSys} (h : JInv S) {i : Nat} {cl : JClient} (hi : S.clients[i]? = some cl) :
    JInv { S with reqs := S.reqs ++ [⟨if cl.joined then .normal else .sub, i, cl.base.cp.sseq,
                                      cl.base.buf.drop cl.base.cp.cseq⟩] } := by
  refine ⟨?_, ?_⟩
  · have hP : ({ S with reqs := S.reqs ++ [⟨if cl.joined then .normal else .sub, i, cl.base.cp.sseq,
          cl.base.buf.drop cl.base.cp.cseq⟩] } : JSys).toP =
        { S.toP with reqs := S.toP.reqs ++ [(⟨if cl.joined then .normal else .sub, i, cl.base.cp.sseq,
          cl.base.buf.drop cl.base.cp.cseq⟩ : JReq).toP] } := by
      simp [JSys.toP, List.map_append]
    rw [hP]
    apply pinv_addReq h.p _ (cl := cl.base) (toP_client hi)
    cases hj : cl.joined with
    | true =>
      exact ⟨cl.base.buf.length, cl.base.cp.cseq, Nat.le_refl _, (h.p.cli i cl.base (toP_client hi)).cLe,
        by simp [JReq.toP, JReq.pushed], Nat.le_refl _⟩
    | false =>
      exact ⟨0, 0, Nat.zero_le _, Nat.zero_le _, by simp [JReq.toP, JReq.pushed], Nat.le_refl _⟩
  · intro j b hj hb
    obtain ⟨u1, u2, u3, u4, u5⟩ := h.unj j b hj hb
    refine ⟨u1, u2, u3, ?_, u5⟩
    intro r hr hrj
    rcases List.mem_append.1 hr with hr | hr
    · exact u4 r hr hrj
    · simp only [List.mem_singleton] at hr
      subst hr
      have hij : i = j := hrj
      subst hij
      have hj' : S.clients[i]? = some b := hj
      rw [hi] at hj'; cases hj'
      simp [hb]

theorem jinv_serve {S : JSys} (h : JInv S) {r : JReq} {cl : JClient} {cp2 : CheckPoint} {docs : List OpDoc}
    (hr : r ∈ S.reqs) (hk : r.kind = .normal) (hi : S.clients[r.i]? = some cl)
    (hp : pushOps pDuid pCol ⟨S.log.length, (S.recOf cl.base.cuid).cseq⟩ r.ops [] = .ok (cp2, docs)) :
    JInv { S with log := S.log ++ docs.map (·.op), cps := alSet cl.base.cuid cp2 S.cps,
                  resps := S.resps ++ [⟨.normal, r.i, S.log.drop r.s, cp2⟩] } := by
  have hjoined : cl.joined = true := by
    cases hj : cl.joined with
    | true => rfl
    | false =>
      have := (h.unj r.i cl hi hj).2.2.2.1 r hr rfl
      rw [hk] at this; cases this
  have hrP : r.toP ∈ S.toP.reqs := List.mem_map.2 ⟨r, hr, rfl⟩
  have hops : r.toP.ops = r.ops := by simp [JReq.toP, JReq.pushed, hk]
  refine ⟨?_, ?_⟩
  · have := pinv_serve h.p hrP (cl := cl.base) (toP_client hi) (cp2 := cp2) (docs := docs) (by rw [hops]; exact hp)
    rw [toP_serve]; exact this
  · intro j b hj hb
    have hj' : S.clients[j]? = some b := hj
    obtain ⟨u1, u2, u3, u4, u5⟩ := h.unj j b hj' hb
    have hne : b.base.cuid ≠ cl.base.cuid := by
      intro he
      have := idx_unique h.p.nodup (toP_client hj') (toP_client hi) he
      subst this
      rw [hi] at hj'; cases hj'
      rw [hjoined] at hb; cases hb
    refine ⟨u1, u2, ?_, u4, ?_⟩
    · show ((alFind b.base.cuid (alSet cl.base.cuid cp2 S.cps)).getD ⟨0, 0⟩).cseq = 0
      rw [alFind_alSet_ne _ _ hne]; exact u3
    · intro q hq hqj
      rcases List.mem_append.1 hq with hq | hq
      · exact u5 q hq hqj
      · simp only [List.mem_singleton] at hq
        subst hq
        have hrj : r.i = j := hqj
        subst hrj
        rw [hi] at hj'; cases hj'
        rw [hjoined] at hb; cases hb

theorem jinv_serveSub {S : JSys} (h : JInv S) {r : JReq} {cl : JClient}
    (hr : r ∈ S.reqs) (hk : r.kind = .sub) (hi : S.clients[r.i]? = some cl) :
    JInv { S with cps := alSet cl.base.cuid ⟨S.log.length, (S.recOf cl.base.cuid).cseq⟩ S.cps,
                  resps := S.resps ++ [⟨.sub, r.i, S.log.drop r.s, ⟨S.log.length, (S.recOf cl.base.cuid).cseq⟩⟩] } := by
  have hrP : r.toP ∈ S.toP.reqs := List.mem_map.2 ⟨r, hr, rfl⟩
  have hops : r.toP.ops = [] := by simp [JReq.toP, JReq.pushed, hk]
  refine ⟨?_, ?_⟩
  · have := pinv_serve h.p hrP (cl := cl.base) (toP_client hi)
      (cp2 := ⟨S.log.length, (S.recOf cl.base.cuid).cseq⟩) (docs := []) (by rw [hops]; exact pushOps_nil _)
    rw [toP_serveSub]; exact this
  · intro j b hj hb
    have hj' : S.clients[j]? = some b := hj
    obtain ⟨u1, u2, u3, u4, u5⟩ := h.unj j b hj' hb
    refine ⟨u1, u2, ?_, u4, ?_⟩
    · show ((alFind b.base.cuid (alSet cl.base.cuid _ S.cps)).getD ⟨0, 0⟩).cseq = 0
      by_cases he : b.base.cuid = cl.base.cuid
      · rw [he, SL.alFind_alSet]
        show (S.recOf cl.base.cuid).cseq = 0
        rw [← he]; exact u3
      · rw [alFind_alSet_ne _ _ he]; exact u3
    · intro q hq hqj
      rcases List.mem_append.1 hq with hq | hq
      · exact u5 q hq hqj
      · simp only [List.mem_singleton] at hq
        subst hq; rfl

theorem jinv_deliver {S : JSys} (h : JInv S) {p : JResp} {cl : JClient} (hp : p ∈ S.resps)
    (hi : S.clients[p.i]? = some cl) (hj : cl.joined = true) :
    JInv { S with clients := S.clients.set p.i { cl with base := cl.base.receive ⟨p.i, p.ops, p.cp⟩ } } := by
  refine ⟨?_, ?_⟩
  · rw [toP_setClient]
    have hpP : p.toP ∈ S.toP.resps := List.mem_map.2 ⟨p, hp, rfl⟩
    exact pinv_deliver h.p hpP (cl := cl.base) (toP_client hi)
  · exact unj_update h hi rfl (fun hb => by rw [hj] at hb; cases hb)

/-- every response of a client (under the invariant) carries no more operations than its checkpoint counts -/
theorem resp_len {S : JSys} (h : JInv S) {p : JResp} {cl : JClient} (hp : p ∈ S.resps)
    (hi : S.clients[p.i]? = some cl) : p.ops.length ≤ p.cp.sseq := by
  have hpP : p.toP ∈ S.toP.resps := List.mem_map.2 ⟨p, hp, rfl⟩
  obtain ⟨e, sr, h1, _, h3, _, _, _⟩ := h.p.resp p.toP hpP cl.base (toP_client hi)
  have h1' : p.ops = (S.log.take e).drop sr := h1
  have h3' : e ≤ p.cp.sseq := h3
  rw [h1']
  simp only [List.length_drop, List.length_take]
  omega

theorem jinv_deliverSub {S : JSys} (h : JInv S) {p : JResp} {cl : JClient} (hp : p ∈ S.resps)
    (hi : S.clients[p.i]? = some cl) :
    JInv { S with clients := S.clients.set p.i (cl.deliverSub p) } := by
  unfold JClient.deliverSub
  cases hj : cl.joined with
  | true => simp only [if_true]; rw [set_self hi]; exact h
  | false =>
    simp only [Bool.false_eq_true, if_false]
    cases hsn : snapFirst p.ops with
    | false => simp only [Bool.false_eq_true, if_false]; rw [set_self hi]; exact h
    | true =>
      simp only [if_true]
      rw [join_simp cl p (resp_len h hp hi)]
      obtain ⟨u1, u2, u3, u4, u5⟩ := h.unj p.i cl hi hj
      refine ⟨?_, ?_⟩
      · rw [toP_setClient]
        have hpP : p.toP ∈ S.toP.resps := List.mem_map.2 ⟨p, hp, rfl⟩
        apply pinv_join h.p (toP_client hi) u1 u3 _ hpP rfl
        intro r hr hri
        obtain ⟨r0, hr0, rfl⟩ := List.mem_map.1 hr
        have := u4 r0 hr0 hri
        simp [JReq.toP, JReq.pushed, this]
      · exact unj_update h hi rfl (fun hb => by cases hb)

theorem jinv_step {S S' : JSys} (h : JInv S) (st : JStep S S') : JInv S' := by
  cases st with
  | localOp i cl o hi hu hs => exact jinv_localOp h hi hu hs
  | send i cl hi => exact jinv_send h hi
  | serve r cl cp2 docs hr hk hi hp => exact jinv_serve h hr hk hi hp
  | refuse r cl code hr hk hi hp => exact h
  | serveSub r cl hr hk hi => exact jinv_serveSub h hr hk hi
  | deliver p cl hp hk hi hj => exact jinv_deliver h hp hi hj
  | deliverSub p cl hp hk hi => exact jinv_deliverSub h hp hi

theorem jinv_init {cs : List (String × Bool)} (hnd : (cs.map (·.1)).Nodup) : JInv (JSys.init cs) := by
  refine ⟨?_, ?_⟩
  · have : (JSys.init cs).toP = PSys.init (cs.map (·.1)) := by
      simp [JSys.init, JSys.toP, PSys.init, List.map_map, Function.comp_def]
    rw [this]; exact pinv_init hnd
  · intro i cl hi _
    simp only [JSys.init, List.getElem?_map] at hi
    cases hq : cs[i]? with
    | none => simp [hq] at hi
    | some u =>
      simp [hq] at hi; subst hi
      exact ⟨rfl, rfl, by simp [JSys.init, JSys.recOf, alFind], by simp [JSys.init], by simp [JSys.init]⟩

end PJ
open PJ

/-! ## A. The invariant is inductive -/

/-- **The protocol invariant with the entry phase** holds in every reachable state, under any
    interleaving, duplication, loss and delay of subscribe and normal requests and responses. -/
theorem join_inv {cuids : List (String × Bool)} {S : JSys} (h : JReach cuids S) : JInv S := by
  induction h with
  | init hnd => exact jinv_init hnd
  | step _ st ih => exact jinv_step ih st

theorem JReach.mem_idx {S : JSys} {cl : JClient} (h : cl ∈ S.clients) : ∃ i : Nat, S.clients[i]? = some cl :=
  List.mem_iff_getElem?.1 h

/-- J1–J3 spelled out for EVERY client of a reachable state.  For a joined client `buf` holds exactly the
    operations it issued since its join (the join empties the buffer), `cp` is the checkpoint it took
    over at its join merged with everything it received since, and `applied` — which starts as the
    operations of the subscribe response — is the foreign part of the log prefix up to `cp.sseq`,
    the prefix received at join time included.  A client that has not joined has nothing in the log. -/
theorem join_inv_client {cuids : List (String × Bool)} {S : JSys} (h : JReach cuids S) : ∀ cl ∈ S.clients,
    -- J1: the own operations in the log are the acknowledged prefix of the buffer, once each, in order
    S.log.filter (fun o => o.id.cuid = cl.base.cuid) = cl.base.buf.take (S.recOf cl.base.cuid).cseq ∧
    -- J2
    cl.base.cp.sseq ≤ S.log.length ∧
    ((S.log.take cl.base.cp.sseq).filter (fun o => o.id.cuid = cl.base.cuid)).length = cl.base.cp.cseq ∧
    cl.base.cp.cseq ≤ (S.recOf cl.base.cuid).cseq ∧ (S.recOf cl.base.cuid).cseq ≤ cl.base.buf.length ∧
    -- J3: exactly once, in log order
    cl.base.applied = (S.log.take cl.base.cp.sseq).filter (fun o => o.id.cuid ≠ cl.base.cuid) ∧
    -- not joined: untouched, and nothing of it in the log
    (cl.joined = false → cl.base.cp = ⟨0, 0⟩ ∧ cl.base.applied = [] ∧
      S.log.filter (fun o => o.id.cuid = cl.base.cuid) = []) := by
  intro cl hcl
  obtain ⟨i, hi⟩ := JReach.mem_idx hcl
  have inv := join_inv h
  have c := inv.p.cli i cl.base (toP_client hi)
  refine ⟨c.j1, c.sLe, c.j2, c.cLe, c.rcLe, c.j3, ?_⟩
  intro hj
  obtain ⟨u1, u2, u3, _, _⟩ := inv.unj i cl hi hj
  refine ⟨u1, u2, ?_⟩
  have := c.j1
  have h0 : S.toP.log = S.log := rfl
  rw [toP_recOf, u3, h0] at this
  simpa [own] using this

/-- the guard of `JStep.deliver` excludes nothing: a client that has not joined has no normal response -/
theorem no_normal_resp_for_unjoined {cuids : List (String × Bool)} {S : JSys} (h : JReach cuids S)
    {p : JResp} {cl : JClient} (hp : p ∈ S.resps) (hi : S.clients[p.i]? = some cl) (hj : cl.joined = false) :
    p.kind = .sub :=
  ((join_inv h).unj p.i cl hi hj).2.2.2.2 p hp rfl

/-- every subscribe response a not-yet-joined client can receive stands for a whole log prefix without
    operations of that client: `ops` is the log up to `cp.sseq`, and `cp.cseq = 0` — so the joined
    client starts with `pending = buf.drop 0 = buf`, as the real client does -/
theorem sub_resp_for_unjoined {cuids : List (String × Bool)} {S : JSys} (h : JReach cuids S)
    {p : JResp} {cl : JClient} (hp : p ∈ S.resps) (hi : S.clients[p.i]? = some cl) (hj : cl.joined = false) :
    p.ops = S.log.take p.cp.sseq ∧ p.cp.cseq = 0 ∧ p.cp.sseq ≤ S.log.length ∧
      ∀ o ∈ p.ops, o.id.cuid ≠ cl.base.cuid := by
  have inv := join_inv h
  obtain ⟨u1, _, u3, u4, _⟩ := inv.unj p.i cl hi hj
  have hpP : p.toP ∈ S.toP.resps := List.mem_map.2 ⟨p, hp, rfl⟩
  have hJ := pinv_join inv.p (toP_client hi) u1 u3 (by
      intro r hr hri
      obtain ⟨r0, hr0, rfl⟩ := List.mem_map.1 hr
      have := u4 r0 hr0 hri
      simp [JReq.toP, JReq.pushed, this]) hpP rfl
  have hlt : p.i < S.toP.clients.length := (List.getElem?_eq_some_iff.1 (toP_client hi)).1
  have c := hJ.cli p.i ⟨cl.base.cuid, [], p.toP.cp, p.toP.ops⟩ (List.getElem?_set_self hlt)
  have hown : own cl.base.cuid S.log = [] := by
    have := (inv.p.cli p.i cl.base (toP_client hi)).j1
    have h0 : S.toP.log = S.log := rfl
    rw [toP_recOf, u3, h0] at this; simpa using this
  have hfr : ∀ l : List Op, (∀ o ∈ l, o ∈ S.log) → frn cl.base.cuid l = l ∧ ∀ o ∈ l, o.id.cuid ≠ cl.base.cuid := by
    intro l hl
    have hne : ∀ o ∈ l, o.id.cuid ≠ cl.base.cuid := by
      intro o ho hou
      have : o ∈ own cl.base.cuid S.log := List.mem_filter.2 ⟨hl o ho, by simp [hou]⟩
      rw [hown] at this; simp at this
    exact ⟨List.filter_eq_self.2 (fun o ho => by simp [hne o ho]), hne⟩
  have j3 : p.ops = frn cl.base.cuid (S.log.take p.cp.sseq) := c.j3
  have j2 : (own cl.base.cuid (S.log.take p.cp.sseq)).length = p.cp.cseq := c.j2
  obtain ⟨f1, f2⟩ := hfr (S.log.take p.cp.sseq) (fun o ho => List.mem_of_mem_take ho)
  refine ⟨by rw [j3, f1], ?_, c.sLe, by rw [j3, f1]; exact f2⟩
  rw [← j2, own_of_all_frn f2]; rfl

/-! ### Monotonicity from the join on; the server's records -/

/-- once joined, always joined, and the checkpoint never moves backwards — whatever is delivered (late or
    duplicated subscribe responses included) in whatever order -/
theorem join_checkpoint_monotone {S S' : JSys} (st : JStep S S') :
    ∀ (i : Nat) (cl : JClient), S.clients[i]? = some cl → cl.joined = true →
      ∃ cl', S'.clients[i]? = some cl' ∧ cl'.joined = true ∧ cl'.base.cuid = cl.base.cuid ∧
        cl.base.cp.sseq ≤ cl'.base.cp.sseq ∧ cl.base.cp.cseq ≤ cl'.base.cp.cseq := by
  intro i cl hi hjn
  have hlt : i < S.clients.length := (List.getElem?_eq_some_iff.1 hi).1
  have same : ∃ cl', S.clients[i]? = some cl' ∧ cl'.joined = true ∧ cl'.base.cuid = cl.base.cuid ∧
      cl.base.cp.sseq ≤ cl'.base.cp.sseq ∧ cl.base.cp.cseq ≤ cl'.base.cp.cseq :=
    ⟨cl, hi, hjn, rfl, Nat.le_refl _, Nat.le_refl _⟩
  cases st with
  | localOp j cl0 o hj hu hs =>
    show ∃ cl', (S.clients.set j _)[i]? = some cl' ∧ _
    by_cases hji : j = i
    · subst hji
      rw [hi] at hj; cases hj
      exact ⟨_, List.getElem?_set_self hlt, hjn, rfl, Nat.le_refl _, Nat.le_refl _⟩
    · rw [List.getElem?_set_ne hji]; exact same
  | send j cl0 hj => exact same
  | serve r cl0 cp2 docs hr hk hj hp => exact same
  | refuse r cl0 code hr hk hj hp => exact same
  | serveSub r cl0 hr hk hj => exact same
  | deliver p cl0 hp hk hj hjn0 =>
    show ∃ cl', (S.clients.set p.i _)[i]? = some cl' ∧ _
    by_cases hji : p.i = i
    · rw [hji] at hj ⊢
      rw [hi] at hj; cases hj
      refine ⟨_, List.getElem?_set_self hlt, hjn, rfl, ?_, ?_⟩
      · show cl.base.cp.sseq ≤ max cl.base.cp.sseq p.cp.sseq; omega
      · show cl.base.cp.cseq ≤ max cl.base.cp.cseq p.cp.cseq; omega
    · rw [List.getElem?_set_ne hji]; exact same
  | deliverSub p cl0 hp hk hj =>
    show ∃ cl', (S.clients.set p.i _)[i]? = some cl' ∧ _
    by_cases hji : p.i = i
    · rw [hji] at hj ⊢
      rw [hi] at hj; cases hj
      refine ⟨_, List.getElem?_set_self hlt, ?_, ?_, ?_, ?_⟩ <;> simp [JClient.deliverSub, hjn]
    · rw [List.getElem?_set_ne hji]; exact same

/-- **Answer to C, in the LTS.**  The server's records never move backwards and the log only grows by
    appending — in particular when a subscribe request is served again after its client has joined and
    pushed operations (`serveSub`): the record keeps its cseq and its sseq moves to the end of the log. -/
theorem join_server_monotone {S S' : JSys} (inv : JInv S) (st : JStep S S') :
    (∀ u, (S.recOf u).sseq ≤ (S'.recOf u).sseq ∧ (S.recOf u).cseq ≤ (S'.recOf u).cseq) ∧
    ∃ acc, S'.log = S.log ++ acc := by
  have same : (∀ u, (S.recOf u).sseq ≤ (S.recOf u).sseq ∧ (S.recOf u).cseq ≤ (S.recOf u).cseq) ∧
      ∃ acc, S.log = S.log ++ acc := ⟨fun u => ⟨Nat.le_refl _, Nat.le_refl _⟩, [], by simp⟩
  have hrec : ∀ (u v : String) (cp : CheckPoint) (l : List Op) (rs : List JResp),
      (S.recOf u).sseq ≤ cp.sseq → (S.recOf u).cseq ≤ cp.cseq →
      (S.recOf v).sseq ≤ (({ S with log := l, cps := alSet u cp S.cps, resps := rs } : JSys).recOf v).sseq ∧
      (S.recOf v).cseq ≤ (({ S with log := l, cps := alSet u cp S.cps, resps := rs } : JSys).recOf v).cseq := by
    intro u v cp l rs h1 h2
    by_cases hv : v = u
    · subst hv
      simp only [JSys.recOf, SL.alFind_alSet, Option.getD_some]
      exact ⟨h1, h2⟩
    · simp only [JSys.recOf, alFind_alSet_ne _ _ hv]
      exact ⟨Nat.le_refl _, Nat.le_refl _⟩
  cases st with
  | localOp j cl0 o hj hu hs => exact same
  | send j cl0 hj => exact same
  | refuse r cl0 code hr hk hj hp => exact same
  | deliver p cl0 hp hk hj hjn => exact same
  | deliverSub p cl0 hp hk hj => exact same
  | serve r cl0 cp2 docs hr hk hj hp =>
    refine ⟨fun u => ?_, _, rfl⟩
    obtain ⟨add, _, _, _, h4, _, h6⟩ := SL.pushOps_spec _ _ _ _ _ _ _ hp
    have := inv.p.recS cl0.base.cuid
    simp only [] at h4 h6
    exact hrec _ _ _ _ _ (by rw [toP_recOf] at this; have h0 : S.toP.log = S.log := rfl; rw [h0] at this; omega) h6
  | serveSub r cl0 hr hk hj =>
    refine ⟨fun u => ?_, [], by simp⟩
    have := inv.p.recS cl0.base.cuid
    exact hrec _ _ _ S.log _ this (Nat.le_refl _)

/-- **Answer to C, continued.**  In a reachable state the server refuses no normal request ever sent —
    none is answered with "missing operations", whatever subscribe requests were served again before. -/
theorem join_never_refused {cuids : List (String × Bool)} {S : JSys} (h : JReach cuids S) {r : JReq} {cl : JClient}
    (hr : r ∈ S.reqs) (hk : r.kind = .normal) (hi : S.clients[r.i]? = some cl) :
    ∃ cp2 docs, pushOps pDuid pCol ⟨S.log.length, (S.recOf cl.base.cuid).cseq⟩ r.ops [] = .ok (cp2, docs) := by
  have inv := join_inv h
  have hrP : r.toP ∈ S.toP.reqs := List.mem_map.2 ⟨r, hr, rfl⟩
  have := serve_never_refused (inv.p.cli r.i cl.base (toP_client hi)) (inv.p.req r.toP hrP cl.base (toP_client hi)) S.log.length
  rw [toP_recOf] at this
  simpa [JReq.toP, JReq.pushed, hk] using this

/-! ## B. Corollaries -/

/-- the log consists of operations issued by joined clients after their join (a joined client's `buf`
    is emptied at the join), each exactly once (no (client, seq) pair twice), per client in issue order;
    nothing of a client that has not joined — in particular none of the operations it issued while due
    to subscribe, which are discarded at the join — is in the log -/
theorem join_log_is_exactly_issued {cuids : List (String × Bool)} {S : JSys} (h : JReach cuids S) :
    (∀ o, o ∈ S.log ↔ ∃ cl ∈ S.clients, cl.joined = true ∧ o ∈ cl.base.buf.take (S.recOf cl.base.cuid).cseq) ∧
    (S.log.map (fun o => (o.id.cuid, o.id.seq))).Nodup ∧
    (∀ cl ∈ S.clients, S.log.filter (fun o => o.id.cuid = cl.base.cuid) =
      if cl.joined then cl.base.buf.take (S.recOf cl.base.cuid).cseq else []) := by
  have inv := join_inv h
  have hJ1 : ∀ cl ∈ S.clients, S.log.filter (fun o => o.id.cuid = cl.base.cuid) =
      if cl.joined then cl.base.buf.take (S.recOf cl.base.cuid).cseq else [] := by
    intro cl hcl
    obtain ⟨g1, _, _, _, _, _, g7⟩ := join_inv_client h cl hcl
    cases hj : cl.joined with
    | true => simpa using g1
    | false => simpa using (g7 hj).2.2
  refine ⟨?_, ?_, hJ1⟩
  · intro o
    constructor
    · intro ho
      obtain ⟨i, b, hi, hu⟩ := inv.p.logCuid o ho
      have hi' : (S.clients.map (·.base))[i]? = some b := hi
      rw [List.getElem?_map] at hi'
      cases hq : S.clients[i]? with
      | none => simp [hq] at hi'
      | some cl =>
        simp [hq] at hi'; subst hi'
        have hcl := List.mem_of_getElem? hq
        have hm : o ∈ S.log.filter (fun o => o.id.cuid = cl.base.cuid) := List.mem_filter.2 ⟨ho, by simp [hu]⟩
        rw [hJ1 cl hcl] at hm
        cases hj : cl.joined with
        | true => rw [hj] at hm; exact ⟨cl, hcl, hj, by simpa using hm⟩
        | false => rw [hj] at hm; simp at hm
    · rintro ⟨cl, hcl, hj, ho⟩
      have := hJ1 cl hcl
      rw [hj] at this
      simp only [if_true] at this
      rw [← this] at ho
      exact (List.mem_filter.1 ho).1
  · apply nodup_of_classes
    intro u
    by_cases hex : ∃ (i : Nat) (cl : PClient), S.toP.clients[i]? = some cl ∧ cl.cuid = u
    · obtain ⟨i, cl, hi, hu⟩ := hex
      subst hu
      have := (inv.p.cli i cl hi).j1
      have h0 : S.toP.log = S.log := rfl
      rw [h0] at this
      rw [this]
      exact seq_nodup (inv.p.cli i cl hi)
    · have : own u S.log = [] := by
        apply own_of_all_frn
        intro o ho hou
        obtain ⟨i, cl, hi, hu⟩ := inv.p.logCuid o ho
        exact hex ⟨i, cl, hi, hu.trans hou⟩
      rw [this]; simp

theorem join_log_nodup {cuids : List (String × Bool)} {S : JSys} (h : JReach cuids S) : S.log.Nodup :=
  List.Pairwise.of_map (fun o => (o.id.cuid, o.id.seq)) (fun a b hab e => hab (by rw [e]))
    (join_log_is_exactly_issued h).2.1

/-- What a client has applied (and what it counts as acknowledged) is a function of the log prefix up to
    its checkpoint alone: two reachable states — reached through whatever histories of joins, duplicated,
    lost, delayed, reordered subscribe and normal messages — that agree on that prefix agree on `applied`.
    (Holds for every client; for one that has not joined both sides are empty.) -/
theorem join_as_if_once {cuids₁ cuids₂ : List (String × Bool)} {S₁ S₂ : JSys} (h₁ : JReach cuids₁ S₁)
    (h₂ : JReach cuids₂ S₂) {cl₁ cl₂ : JClient} (m₁ : cl₁ ∈ S₁.clients) (m₂ : cl₂ ∈ S₂.clients)
    (hu : cl₁.base.cuid = cl₂.base.cuid)
    (hlog : S₁.log.take cl₁.base.cp.sseq = S₂.log.take cl₂.base.cp.sseq) :
    cl₁.base.applied = cl₂.base.applied ∧ cl₁.base.cp.cseq = cl₂.base.cp.cseq := by
  obtain ⟨_, _, a2, _, _, a3, _⟩ := join_inv_client h₁ cl₁ m₁
  obtain ⟨_, _, b2, _, _, b3, _⟩ := join_inv_client h₂ cl₂ m₂
  refine ⟨?_, ?_⟩
  · rw [a3, b3, hlog, hu]
  · rw [← a2, ← b2, hlog, hu]

/-- when every joined client's checkpoint is at the end of the log and nothing is left to push, every
    joined client has applied all foreign operations of the log — those it received at its join
    included — in log order, its buffer is its part of the log, and so it holds every operation once -/
theorem join_quiescent_converged {cuids : List (String × Bool)} {S : JSys} (h : JReach cuids S)
    (hq : ∀ cl ∈ S.clients, cl.joined = true →
      cl.base.cp.sseq = S.log.length ∧ cl.base.cp.cseq = cl.base.buf.length) :
    ∀ cl ∈ S.clients, cl.joined = true →
      cl.base.applied = S.log.filter (fun o => o.id.cuid ≠ cl.base.cuid) ∧
      cl.base.buf = S.log.filter (fun o => o.id.cuid = cl.base.cuid) ∧
      (cl.base.applied ++ cl.base.buf).Perm S.log := by
  intro cl hcl hj
  obtain ⟨g1, _, _, g4, g5, g6, _⟩ := join_inv_client h cl hcl
  obtain ⟨q1, q2⟩ := hq cl hcl hj
  have happ : cl.base.applied = S.log.filter (fun o => o.id.cuid ≠ cl.base.cuid) := by
    rw [g6, q1, List.take_length]
  have hbuf : cl.base.buf = S.log.filter (fun o => o.id.cuid = cl.base.cuid) := by
    rw [g1, List.take_of_length_le (by omega)]
  refine ⟨happ, hbuf, ?_⟩
  have e1 : cl.base.applied = frn cl.base.cuid S.log := happ
  have e2 : cl.base.buf = own cl.base.cuid S.log := hbuf
  rw [e1, e2, frn_eq_not]
  exact List.perm_append_comm.trans (List.filter_append_perm _ _)

/-- the D33 repair: a subscribe response delivered to a client that has joined changes nothing … -/
theorem deliverSub_joined (cl : JClient) (p : JResp) (hj : cl.joined = true) : cl.deliverSub p = cl := by
  simp [JClient.deliverSub, hj]

/-- … so delivering it — late, or for the second time, after the client has issued and pushed further
    operations — is a stutter step of the system -/
theorem stale_sub_response_harmless {S : JSys} {p : JResp} {cl : JClient}
    (hi : S.clients[p.i]? = some cl) (hj : cl.joined = true) :
    ({ S with clients := S.clients.set p.i (cl.deliverSub p) } : JSys) = S := by
  rw [deliverSub_joined cl p hj, set_self hi]

/-! ## C. Is it safe to serve a subscribe request again?  The model's own `processPack`

`JStep.serveSub` claims that a subscribe request served for a client that is recorded already keeps the
recorded cseq.  That is what `processPack` does: `cp0` is read from the stored record (it is ⟨0,0⟩ only
when there is none), the dispatch is `.subscribe` again, `inOps = []`.  (`cseq_monotone'` of
`Proofs/ServerLog.lean` states for EVERY pack that the recorded cseq of a read-write client never
decreases.)  The LTS theorems `join_server_monotone`, `join_never_refused`, `join_log_is_exactly_issued`
then give: no later push is refused as "missing operations", none is accepted twice. -/
namespace PJ

theorem evalCase_byKey (st : Store) (cl : ClientDoc) (col : CollectionDoc) (p : Pack) (d : DatatypeDoc)
    (hs : p.subscribe = true)
    (hk : st.getDatatypeByKey col.num p.key = some d) (ht : d.typ = p.typ) (hv : d.visible = true) :
    evalCase st col cl.cuid p =
      (if (d.sub cl.cuid p.readOnly).isSome then .allMatchedSubscribed else .allMatchedNotSubscribed, some d) := by
  unfold evalCase
  simp only [hs, Bool.or_true, if_true, hk, ht, hv]
  split <;> rfl

theorem dsp_subscribe (st : Store) (cl : ClientDoc) (col : CollectionDoc) (p : Pack) (d : DatatypeDoc)
    (hs : p.subscribe = true) (hc : p.create = false)
    (hk : st.getDatatypeByKey col.num p.key = some d) (ht : d.typ = p.typ) (hv : d.visible = true)
    (hd : d.duid ≠ p.duid) :
    SL.dsp st cl col p = .subscribe := by
  unfold SL.dsp
  rw [evalCase_byKey st cl col p d hs hk ht hv]
  have e1 : dispatch .allMatchedSubscribed false true false = .subscribe := by decide
  have e2 : dispatch .allMatchedNotSubscribed false true false = .subscribe := by decide
  by_cases hr : (d.sub cl.cuid p.readOnly).isSome = true
  · simp [hr, hs, hc, SL.sameDuid, hd, e1]
  · simp [hr, hs, hc, SL.sameDuid, hd, e2]

theorem processPack_subscribe (st : Store) (cl : ClientDoc) (col : CollectionDoc) (p : Pack) (d : DatatypeDoc)
    (hs : p.subscribe = true) (hc : p.create = false) (hro : p.readOnly = false)
    (hk : st.getDatatypeByKey col.num p.key = some d) (ht : d.typ = p.typ) (hv : d.visible = true)
    (hd : d.duid ≠ p.duid) :
    processPack st cl col p = SL.okR st cl col p .subscribe d ⟨d.sseqEnd, (SL.cp0 cl p d).cseq⟩ [] := by
  rw [SL.processPack_eq, dsp_subscribe st cl col p d hs hc hk ht hv hd, evalCase_byKey st cl col p d hs hk ht hv]
  simp [hro, hc, SL.finish, SL.pushRes, SL.docOf, SL.cp1, pushOps]

theorem cp3_subscribe (st : Store) (cl : ClientDoc) (p : Pack) (d : DatatypeDoc) (cp2 : CheckPoint) :
    (SL.cp3 st cl p .subscribe d cp2 []).cseq = cp2.cseq := by
  unfold SL.cp3; split <;> rfl

/-- **Answer to C, on the model's own server.**  A subscribe request (no create flag, read-write, naming
    another datatype id than the stored one — every datatype object of a client gets a fresh random id)
    that is served when its client IS recorded already — a late duplicate, after the client has joined
    and pushed `s.cp.cseq` operations — is served as a subscription again: nothing is pushed (the
    operations it carries are dropped), no operation document is written, the answer is a subscribe
    response, not an error, and the record written back keeps the client's cseq. -/
theorem resubscribe_keeps_record (st : Store) (cl : ClientDoc) (col : CollectionDoc) (p : Pack) (d : DatatypeDoc)
    (hs : p.subscribe = true) (hc : p.create = false) (hro : p.readOnly = false)
    (hk : st.getDatatypeByKey col.num p.key = some d) (ht : d.typ = p.typ) (hv : d.visible = true)
    (hd : d.duid ≠ p.duid) (hty : cl.typ ≠ 2) (s : SubClient) (hrec : d.sub cl.cuid false = some s) :
    (processPack st cl col p).pushed = 0 ∧
    (processPack st cl col p).store.operations = st.operations ∧
    (processPack st cl col p).resp.subscribe = true ∧ (processPack st cl col p).resp.error = false ∧
    (processPack st cl col p).resp.cp.cseq = s.cp.cseq ∧
    ∃ d' ∈ (processPack st cl col p).store.datatypes, d'.duid = d.duid ∧
      ∃ n, d'.sub cl.cuid false = some ⟨⟨n, s.cp.cseq⟩, cl.typ⟩ := by
  rw [processPack_subscribe st cl col p d hs hc hro hk ht hv hd]
  have h0 : (SL.cp0 cl p d).cseq = s.cp.cseq := by simp [SL.cp0, hro, hrec]
  refine ⟨rfl, by simp [SL.okR], by simp [SL.okR, SL.resp1], by simp [SL.okR, SL.resp1, SL.resp0], ?_, ?_⟩
  · show (SL.cp3 st cl p .subscribe d _ []).cseq = _
    rw [cp3_subscribe, h0]
  · refine ⟨_, SL.self_mem_upsert _ _, SL.doc2_duid .., (SL.cp3 st cl p .subscribe d ⟨d.sseqEnd, (SL.cp0 cl p d).cseq⟩ []).sseq, ?_⟩
    have hc3 : (SL.cp3 st cl p .subscribe d ⟨d.sseqEnd, (SL.cp0 cl p d).cseq⟩ []).cseq = s.cp.cseq := by
      rw [cp3_subscribe]; exact h0
    simp only [SL.doc2, hty, if_false, hro, DatatypeDoc.setSub, DatatypeDoc.sub, Bool.false_eq_true, SL.alFind_alSet]
    generalize SL.cp3 st cl p .subscribe d ⟨d.sseqEnd, (SL.cp0 cl p d).cseq⟩ [] = c3 at hc3 ⊢
    cases c3
    simp only [] at hc3
    rw [hc3]

end PJ

/-! ## D. The behaviour before the repair -/

/-- the system with the OLD client: a subscribe response resets its client whether joined or not -/
inductive JStepOld : JSys → JSys → Prop
  | new {S S' : JSys} : JStep S S' → JStepOld S S'
  | deliverSubOld (S : JSys) (p : JResp) (cl : JClient) :
      p ∈ S.resps → p.kind = .sub → S.clients[p.i]? = some cl →
      JStepOld S { S with clients := S.clients.set p.i (cl.deliverSubOld p) }

inductive JReachOld (cs : List (String × Bool)) : JSys → Prop
  | init : (cs.map (·.1)).Nodup → JReachOld cs (JSys.init cs)
  | step {S S' : JSys} : JReachOld cs S → JStepOld S S' → JReachOld cs S'

theorem JReach.toOld {cs : List (String × Bool)} {S : JSys} (h : JReach cs S) : JReachOld cs S := by
  induction h with
  | init hnd => exact .init hnd
  | step _ st ih => exact .step ih (.new st)

/-- J1 on operation ids (decidable): the ids of a client's operations in the log are the ids of the
    acknowledged prefix of its buffer -/
def J1ids (S : JSys) : Prop :=
  ∀ cl ∈ S.clients, (S.log.filter (fun o => o.id.cuid = cl.base.cuid)).map (·.id) =
    (cl.base.buf.take (S.recOf cl.base.cuid).cseq).map (·.id)

instance (S : JSys) : Decidable (J1ids S) := by unfold J1ids; infer_instance

theorem JInv.j1ids {S : JSys} (h : JInv S) : J1ids S := by
  intro cl hcl
  obtain ⟨i, hi⟩ := JReach.mem_idx hcl
  have := (h.p.cli i cl.base (toP_client hi)).j1
  have h0 : S.toP.log = S.log := rfl
  rw [toP_recOf, h0] at this
  show (own cl.base.cuid S.log).map (·.id) = _
  rw [this]

namespace JEx

def cs : List (String × Bool) := [("a", true), ("b", false)]

def a1 : Op := ⟨⟨0, 1, "a", 1⟩, .snapshot (.counter 0)⟩   -- the creator's snapshot operation
def a2 : Op := ⟨⟨0, 2, "a", 2⟩, .increase 2⟩
def b0 : Op := ⟨⟨0, 1, "b", 1⟩, .increase 7⟩              -- issued by b while due to subscribe: discarded
def b1 : Op := ⟨⟨0, 3, "b", 1⟩, .increase 5⟩
def b2 : Op := ⟨⟨0, 4, "b", 2⟩, .increase 6⟩
def b3 : Op := ⟨⟨0, 5, "b", 1⟩, .increase 9⟩              -- (old behaviour only) seq 1 used a second time

def A (buf : List Op) (cp : CheckPoint) (applied : List Op) : JClient := ⟨⟨"a", buf, cp, applied⟩, true⟩
def B (j : Bool) (buf : List Op) (cp : CheckPoint) (applied : List Op) : JClient := ⟨⟨"b", buf, cp, applied⟩, j⟩

def reqA0 : JReq := ⟨.normal, 0, 0, [a1, a2]⟩
def reqB0 : JReq := ⟨.sub, 1, 0, [b0]⟩            -- the subscribe request; carries b0, which is not pushed
def reqB1 : JReq := ⟨.normal, 1, 2, [b1]⟩
def reqB2 : JReq := ⟨.normal, 1, 3, [b2]⟩
def reqA1 : JReq := ⟨.normal, 0, 2, []⟩
def respA0 : JResp := ⟨.normal, 0, [], ⟨2, 2⟩⟩
def respB0 : JResp := ⟨.sub, 1, [a1, a2], ⟨2, 0⟩⟩        -- the subscribe response: 2 operations
def respB1 : JResp := ⟨.normal, 1, [], ⟨3, 1⟩⟩
def respB2 : JResp := ⟨.sub, 1, [a1, a2, b1], ⟨3, 1⟩⟩    -- answer to the late duplicate of reqB0
def respB3 : JResp := ⟨.normal, 1, [], ⟨4, 2⟩⟩
def respA1 : JResp := ⟨.normal, 0, [b1, b2], ⟨4, 2⟩⟩

def A0 := A [a1, a2] ⟨0, 0⟩ []
def cpsA : List (String × CheckPoint) := [("a", ⟨2, 2⟩)]

def F2 : JSys := ⟨[A0, B false [] ⟨0,0⟩ []], [], [], [], []⟩
def F3 : JSys := ⟨[A0, B false [] ⟨0,0⟩ []], [], [], [reqA0], []⟩
def F4 : JSys := ⟨[A0, B false [] ⟨0,0⟩ []], [a1, a2], cpsA, [reqA0], [respA0]⟩
def F5 : JSys := ⟨[A0, B false [b0] ⟨0,0⟩ []], [a1, a2], cpsA, [reqA0], [respA0]⟩
def F6 : JSys := ⟨[A0, B false [b0] ⟨0,0⟩ []], [a1, a2], cpsA, [reqA0, reqB0], [respA0]⟩
def F7 : JSys := ⟨[A0, B false [b0] ⟨0,0⟩ []], [a1, a2], [("a", ⟨2,2⟩), ("b", ⟨2,0⟩)], [reqA0, reqB0], [respA0, respB0]⟩
-- b joins: buffer emptied (b0 is gone), checkpoint ⟨2,0⟩, the two operations applied
def F8 : JSys := ⟨[A0, B true [] ⟨2,0⟩ [a1, a2]], [a1, a2], [("a", ⟨2,2⟩), ("b", ⟨2,0⟩)], [reqA0, reqB0], [respA0, respB0]⟩
def F9 : JSys := ⟨[A0, B true [b1] ⟨2,0⟩ [a1, a2]], [a1, a2], [("a", ⟨2,2⟩), ("b", ⟨2,0⟩)], [reqA0, reqB0], [respA0, respB0]⟩
def F10 : JSys := ⟨[A0, B true [b1] ⟨2,0⟩ [a1, a2]], [a1, a2], [("a", ⟨2,2⟩), ("b", ⟨2,0⟩)],
                   [reqA0, reqB0, reqB1], [respA0, respB0]⟩
def F11 : JSys := ⟨[A0, B true [b1] ⟨2,0⟩ [a1, a2]], [a1, a2, b1], [("a", ⟨2,2⟩), ("b", ⟨3,1⟩)],
                   [reqA0, reqB0, reqB1], [respA0, respB0, respB1]⟩
def F12 : JSys := ⟨[A0, B true [b1] ⟨3,1⟩ [a1, a2]], [a1, a2, b1], [("a", ⟨2,2⟩), ("b", ⟨3,1⟩)],
                   [reqA0, reqB0, reqB1], [respA0, respB0, respB1]⟩
-- F12 → F12 : the subscribe response respB0 is delivered a SECOND time, after b pushed b1: nothing changes
-- the subscribe REQUEST reqB0 is served a second time, after b joined and pushed: record ⟨3,1⟩ stays
def F13 : JSys := ⟨[A0, B true [b1] ⟨3,1⟩ [a1, a2]], [a1, a2, b1], [("a", ⟨2,2⟩), ("b", ⟨3,1⟩)],
                   [reqA0, reqB0, reqB1], [respA0, respB0, respB1, respB2]⟩
-- F13 → F13 : its answer respB2 (which contains b's own b1) is delivered: nothing changes
def F14 : JSys := ⟨[A0, B true [b1, b2] ⟨3,1⟩ [a1, a2]], [a1, a2, b1], [("a", ⟨2,2⟩), ("b", ⟨3,1⟩)],
                   [reqA0, reqB0, reqB1], [respA0, respB0, respB1, respB2]⟩
def F15 : JSys := ⟨[A0, B true [b1, b2] ⟨3,1⟩ [a1, a2]], [a1, a2, b1], [("a", ⟨2,2⟩), ("b", ⟨3,1⟩)],
                   [reqA0, reqB0, reqB1, reqB2], [respA0, respB0, respB1, respB2]⟩
-- b's next push after the re-served subscribe request: accepted, exactly once
def F16 : JSys := ⟨[A0, B true [b1, b2] ⟨3,1⟩ [a1, a2]], [a1, a2, b1, b2], [("a", ⟨2,2⟩), ("b", ⟨4,2⟩)],
                   [reqA0, reqB0, reqB1, reqB2], [respA0, respB0, respB1, respB2, respB3]⟩
def F17 : JSys := ⟨[A0, B true [b1, b2] ⟨4,2⟩ [a1, a2]], [a1, a2, b1, b2], [("a", ⟨2,2⟩), ("b", ⟨4,2⟩)],
                   [reqA0, reqB0, reqB1, reqB2], [respA0, respB0, respB1, respB2, respB3]⟩
def F18 : JSys := ⟨[A [a1, a2] ⟨2,2⟩ [], B true [b1, b2] ⟨4,2⟩ [a1, a2]], [a1, a2, b1, b2], [("a", ⟨2,2⟩), ("b", ⟨4,2⟩)],
                   [reqA0, reqB0, reqB1, reqB2], [respA0, respB0, respB1, respB2, respB3]⟩
def F19 : JSys := ⟨[A [a1, a2] ⟨2,2⟩ [], B true [b1, b2] ⟨4,2⟩ [a1, a2]], [a1, a2, b1, b2], [("a", ⟨2,2⟩), ("b", ⟨4,2⟩)],
                   [reqA0, reqB0, reqB1, reqB2, reqA1], [respA0, respB0, respB1, respB2, respB3]⟩
def F20 : JSys := ⟨[A [a1, a2] ⟨2,2⟩ [], B true [b1, b2] ⟨4,2⟩ [a1, a2]], [a1, a2, b1, b2], [("a", ⟨4,2⟩), ("b", ⟨4,2⟩)],
                   [reqA0, reqB0, reqB1, reqB2, reqA1], [respA0, respB0, respB1, respB2, respB3, respA1]⟩
def F21 : JSys := ⟨[A [a1, a2] ⟨4,2⟩ [b1, b2], B true [b1, b2] ⟨4,2⟩ [a1, a2]], [a1, a2, b1, b2], [("a", ⟨4,2⟩), ("b", ⟨4,2⟩)],
                   [reqA0, reqB0, reqB1, reqB2, reqA1], [respA0, respB0, respB1, respB2, respB3, respA1]⟩

theorem reach12 : JReach cs F12 := by
  have h0 : JReach cs (JSys.init cs) := .init (by decide)
  have h1 : JReach cs ⟨[A [a1] ⟨0,0⟩ [], B false [] ⟨0,0⟩ []], [], [], [], []⟩ :=
    .step h0 (.localOp _ 0 (A [] ⟨0,0⟩ []) a1 rfl rfl rfl)
  have h2 : JReach cs F2 := .step h1 (.localOp _ 0 (A [a1] ⟨0,0⟩ []) a2 rfl rfl rfl)
  have h3 : JReach cs F3 := .step h2 (.send _ 0 A0 rfl)
  have h4 : JReach cs F4 :=
    .step h3 (.serve _ reqA0 A0 ⟨2,2⟩ [⟨pDuid, pCol, 1, a1⟩, ⟨pDuid, pCol, 2, a2⟩] (by simp [F3]) rfl rfl rfl)
  -- b, not yet subscribed, issues an operation and sends its subscribe request
  have h5 : JReach cs F5 := .step h4 (.localOp _ 1 (B false [] ⟨0,0⟩ []) b0 rfl rfl rfl)
  have h6 : JReach cs F6 := .step h5 (.send _ 1 (B false [b0] ⟨0,0⟩ []) rfl)
  have h7 : JReach cs F7 := .step h6 (.serveSub _ reqB0 (B false [b0] ⟨0,0⟩ []) (by simp [F6]) rfl rfl)
  have h8 : JReach cs F8 := .step h7 (.deliverSub _ respB0 (B false [b0] ⟨0,0⟩ []) (by simp [F7]) rfl rfl)
  have h9 : JReach cs F9 := .step h8 (.localOp _ 1 (B true [] ⟨2,0⟩ [a1, a2]) b1 rfl rfl rfl)
  have h10 : JReach cs F10 := .step h9 (.send _ 1 (B true [b1] ⟨2,0⟩ [a1, a2]) rfl)
  have h11 : JReach cs F11 :=
    .step h10 (.serve _ reqB1 (B true [b1] ⟨2,0⟩ [a1, a2]) ⟨3,1⟩ [⟨pDuid, pCol, 3, b1⟩] (by simp [F10]) rfl rfl rfl)
  exact .step h11 (.deliver _ respB1 (B true [b1] ⟨2,0⟩ [a1, a2]) (by simp [F11]) rfl rfl rfl)

theorem reach21 : JReach cs F21 := by
  -- the subscribe response is delivered a second time, after b pushed b1
  have h12 : JReach cs F12 := .step reach12 (.deliverSub _ respB0 (B true [b1] ⟨3,1⟩ [a1, a2]) (by simp [F12]) rfl rfl)
  -- the subscribe request is served a second time, after b joined and pushed b1
  have h13 : JReach cs F13 := .step h12 (.serveSub _ reqB0 (B true [b1] ⟨3,1⟩ [a1, a2]) (by simp [F12]) rfl rfl)
  have h13' : JReach cs F13 := .step h13 (.deliverSub _ respB2 (B true [b1] ⟨3,1⟩ [a1, a2]) (by simp [F13]) rfl rfl)
  have h14 : JReach cs F14 := .step h13' (.localOp _ 1 (B true [b1] ⟨3,1⟩ [a1, a2]) b2 rfl rfl rfl)
  have h15 : JReach cs F15 := .step h14 (.send _ 1 (B true [b1, b2] ⟨3,1⟩ [a1, a2]) rfl)
  have h16 : JReach cs F16 :=
    .step h15 (.serve _ reqB2 (B true [b1, b2] ⟨3,1⟩ [a1, a2]) ⟨4,2⟩ [⟨pDuid, pCol, 4, b2⟩] (by simp [F15]) rfl rfl rfl)
  have h17 : JReach cs F17 := .step h16 (.deliver _ respB3 (B true [b1, b2] ⟨3,1⟩ [a1, a2]) (by simp [F16]) rfl rfl rfl)
  have h18 : JReach cs F18 := .step h17 (.deliver _ respA0 A0 (by simp [F17]) rfl rfl rfl)
  have h19 : JReach cs F19 := .step h18 (.send _ 0 (A [a1, a2] ⟨2,2⟩ []) rfl)
  have h20 : JReach cs F20 := .step h19 (.serve _ reqA1 (A [a1, a2] ⟨2,2⟩ []) ⟨4,2⟩ [] (by simp [F19]) rfl rfl rfl)
  exact .step h20 (.deliver _ respA1 (A [a1, a2] ⟨2,2⟩ []) (by simp [F20]) rfl rfl rfl)

/-- E: the state after the second delivery of b's subscribe response (and after the second serving of its
    subscribe request): everything is consistent — from the theorem … -/
example : ∀ cl ∈ F13.clients,
    F13.log.filter (fun o => o.id.cuid = cl.base.cuid) = cl.base.buf.take (F13.recOf cl.base.cuid).cseq ∧
    cl.base.applied = (F13.log.take cl.base.cp.sseq).filter (fun o => o.id.cuid ≠ cl.base.cuid) := by
  have h13 : JReach cs F13 :=
    .step (.step reach12 (.deliverSub _ respB0 (B true [b1] ⟨3,1⟩ [a1, a2]) (by simp [F12]) rfl rfl))
      (.serveSub _ reqB0 (B true [b1] ⟨3,1⟩ [a1, a2]) (by simp [F12]) rfl rfl)
  intro cl hcl
  obtain ⟨g1, _, _, _, _, g6, _⟩ := join_inv_client h13 cl hcl
  exact ⟨g1, g6⟩

/-- … and by evaluation: b joined with the 2 operations of its subscribe response, pushed b1; the log is
    `[a1, a2, b1]`, b's record is ⟨3,1⟩ before and after the subscribe request is served again -/
example : respB0.ops.length = 2 ∧ F12.log = [a1, a2, b1] ∧ F12.clients.map (·.base.applied) = [[], [a1, a2]] ∧
    F12.recOf "b" = ⟨3, 1⟩ ∧ F13.recOf "b" = ⟨3, 1⟩ ∧ F13.clients.map (·.base.buf) = F12.clients.map (·.base.buf) :=
  ⟨rfl, rfl, rfl, rfl, rfl, rfl⟩

/-- the run ends at rest, and `join_quiescent_converged` applies: both hold `[a1, a2, b1, b2]` -/
example : ∀ cl ∈ F21.clients, cl.joined = true → (cl.base.applied ++ cl.base.buf).Perm F21.log :=
  fun cl hcl hj => (join_quiescent_converged reach21 (by
    intro cl hcl _
    simp only [F21, List.mem_cons, List.not_mem_nil, or_false] at hcl
    rcases hcl with rfl | rfl <;> exact ⟨rfl, rfl⟩) cl hcl hj).2.2

example : F21.clients.map (·.base.applied) = [[b1, b2], [a1, a2]] ∧ F21.log = [a1, a2, b1, b2] := ⟨rfl, rfl⟩

/-! ### D: the same run with the client as it was before the repair

From `F14` (b has joined, `b1` is pushed and acknowledged, `b2` is issued and pending) the subscribe
response `respB0` is delivered a second time.  The old client resets itself. -/

-- b after the reset: buffer empty, checkpoint ⟨2,0⟩
def G1 : JSys := ⟨[A0, B true [] ⟨2,0⟩ [a1, a2]], [a1, a2, b1], [("a", ⟨2,2⟩), ("b", ⟨3,1⟩)],
                  [reqA0, reqB0, reqB1], [respA0, respB0, respB1, respB2]⟩
def reqB3 : JReq := ⟨.normal, 1, 2, [b3]⟩
def respB4 : JResp := ⟨.normal, 1, [b1], ⟨3, 1⟩⟩
def G2 : JSys := ⟨[A0, B true [b3] ⟨2,0⟩ [a1, a2]], [a1, a2, b1], [("a", ⟨2,2⟩), ("b", ⟨3,1⟩)],
                  [reqA0, reqB0, reqB1], [respA0, respB0, respB1, respB2]⟩
def G3 : JSys := ⟨[A0, B true [b3] ⟨2,0⟩ [a1, a2]], [a1, a2, b1], [("a", ⟨2,2⟩), ("b", ⟨3,1⟩)],
                  [reqA0, reqB0, reqB1, reqB3], [respA0, respB0, respB1, respB2]⟩
def G4 : JSys := ⟨[A0, B true [b3] ⟨2,0⟩ [a1, a2]], [a1, a2, b1], [("a", ⟨2,2⟩), ("b", ⟨3,1⟩)],
                  [reqA0, reqB0, reqB1, reqB3], [respA0, respB0, respB1, respB2, respB4]⟩
def G5 : JSys := ⟨[A0, B true [b3] ⟨3,1⟩ [a1, a2]], [a1, a2, b1], [("a", ⟨2,2⟩), ("b", ⟨3,1⟩)],
                  [reqA0, reqB0, reqB1, reqB3], [respA0, respB0, respB1, respB2, respB4]⟩

theorem reach14 : JReach cs F14 := by
  have h12 : JReach cs F12 := .step reach12 (.deliverSub _ respB0 (B true [b1] ⟨3,1⟩ [a1, a2]) (by simp [F12]) rfl rfl)
  have h13 : JReach cs F13 := .step h12 (.serveSub _ reqB0 (B true [b1] ⟨3,1⟩ [a1, a2]) (by simp [F12]) rfl rfl)
  exact .step h13 (.localOp _ 1 (B true [b1] ⟨3,1⟩ [a1, a2]) b2 rfl rfl rfl)

theorem reachOldG1 : JReachOld cs G1 :=
  .step reach14.toOld (.deliverSubOld _ respB0 (B true [b1, b2] ⟨3,1⟩ [a1, a2]) (by simp [F14]) rfl rfl)

theorem reachOldG5 : JReachOld cs G5 := by
  -- b goes on: the next operation gets seq 1 AGAIN
  have g2 : JReachOld cs G2 := .step reachOldG1 (.new (.localOp _ 1 (B true [] ⟨2,0⟩ [a1, a2]) b3 rfl rfl rfl))
  have g3 : JReachOld cs G3 := .step g2 (.new (.send _ 1 (B true [b3] ⟨2,0⟩ [a1, a2]) rfl))
  -- the server knows seq 1 of b already: b3 is skipped as a duplicate, the request is answered normally
  have g4 : JReachOld cs G4 :=
    .step g3 (.new (.serve _ reqB3 (B true [b3] ⟨2,0⟩ [a1, a2]) ⟨3,1⟩ [] (by simp [G3]) rfl rfl rfl))
  exact .step g4 (.new (.deliver _ respB4 (B true [b3] ⟨2,0⟩ [a1, a2]) (by simp [G4]) rfl rfl rfl))

/-! ### C: the same exchange on the model's own server (`processPack`), evaluated -/
namespace Srv

def col : CollectionDoc := ⟨"c", 1⟩
def clA : ClientDoc := ⟨"a", "a", 1, 0, 0⟩
def clB : ClientDoc := ⟨"b", "b", 1, 0, 0⟩
def pA0 : Pack := { key := "k", duid := "D", create := true, cp := ⟨0, 2⟩, typ := .counter, ops := [a1, a2] }
/-- b's subscribe request, as `createPack` makes it: its own datatype id, the pending b0 carried along -/
def pB0 : Pack := { key := "k", duid := "Db", subscribe := true, cp := ⟨0, 1⟩, typ := .counter, ops := [b0] }
def pB1 : Pack := { key := "k", duid := "D", cp := ⟨2, 1⟩, typ := .counter, ops := [b1] }
def pB2 : Pack := { key := "k", duid := "D", cp := ⟨3, 2⟩, typ := .counter, ops := [b2] }
def r0 := processPack {} clA col pA0            -- a creates the datatype with a1, a2
def r1 := processPack r0.store clB col pB0      -- b subscribes
def r2 := processPack r1.store clB col pB1      -- b, joined, pushes b1
def r3 := processPack r2.store clB col pB0      -- the subscribe request AGAIN (late duplicate)
def r4 := processPack r3.store clB col pB2      -- b pushes b2
def r5 := processPack r4.store clB col pB2      -- … and once more (duplicate)
def recB (st : Store) : Option CheckPoint := ((st.getDatatype "D").bind (·.sub "b" false)).map (·.cp)

/-- served again after b has joined and pushed b1, the subscribe request leaves b's record at ⟨3,1⟩, pushes
    nothing (b0 never enters the log) and is answered with a subscribe response ⟨3,1⟩; b's next push is
    accepted — once -/
example :
    r1.resp.subscribe = true ∧ r1.resp.cp = ⟨2, 0⟩ ∧ r1.pushed = 0 ∧ recB r1.store = some ⟨2, 0⟩ ∧
    r2.resp.error = false ∧ r2.pushed = 1 ∧ recB r2.store = some ⟨3, 1⟩ ∧
    r3.resp.subscribe = true ∧ r3.resp.error = false ∧ r3.resp.cp = ⟨3, 1⟩ ∧ r3.pushed = 0 ∧
      recB r3.store = some ⟨3, 1⟩ ∧ r3.store.operations.length = 3 ∧
    r4.resp.error = false ∧ r4.pushed = 1 ∧ r4.resp.cp = ⟨4, 2⟩ ∧ recB r4.store = some ⟨4, 2⟩ ∧
    r5.resp.error = false ∧ r5.pushed = 0 ∧ r5.store.operations.length = 4 ∧
    r5.store.operations.map (·.op.id.lamport) = [1, 2, 3, 4] := by decide

end Srv

end JEx
open JEx

/-- **D33, machine-checked.**  With the client as it was before the repair a state is reachable in which
    the invariant fails: J1 — the acknowledged own operation `b1` is in the log but no longer in b's
    buffer — and the pending operation `b2` is lost: it is in no buffer and not in the log.  Before the
    step both were fine. -/
theorem old_behaviour_breaks_invariant :
    JReach JEx.cs F14 ∧ J1ids F14 ∧ (∃ cl ∈ F14.clients, ∃ o ∈ cl.base.buf, o.id = b2.id) ∧
    JReachOld JEx.cs G1 ∧ ¬ J1ids G1 ∧ ¬ JInv G1 ∧
    (∀ cl ∈ G1.clients, ∀ o ∈ cl.base.buf, o.id ≠ b2.id) ∧ (∀ o ∈ G1.log, o.id ≠ b2.id) :=
  ⟨reach14, by decide, by decide, reachOldG1, by decide, fun h => absurd h.j1ids (by decide), by decide, by decide⟩

/-- … and it goes on silently: b's next operation `b3` reuses sequence number 1, the server skips it as a
    duplicate and acknowledges it; b is at rest (everything it issued counts as acknowledged, its checkpoint
    is at the end of the log) although `b3` is not in the log — and no other client will ever get it. -/
theorem old_behaviour_loses_operations :
    JReachOld JEx.cs G5 ∧ b3.id.seq = b1.id.seq ∧
    (∀ cl ∈ G5.clients, cl.base.cuid = "b" → cl.base.buf.map (·.id) = [b3.id] ∧
      cl.base.cp.cseq = cl.base.buf.length ∧ cl.base.cp.sseq = G5.log.length) ∧
    (∀ o ∈ G5.log, o.id ≠ b3.id) :=
  ⟨reachOldG5, rfl, by decide, by decide⟩

/-- the repaired client in the same situation: nothing happens (`stale_sub_response_harmless`) -/
example : ({ F14 with clients := F14.clients.set respB0.i ((B true [b1, b2] ⟨3,1⟩ [a1, a2]).deliverSub respB0) } : JSys) = F14 :=
  stale_sub_response_harmless rfl rfl

end Orda
