/-
RGA list: order preservation, local = remote, convergence, sibling order, no duplicates, delete/update.
The abstract path-order argument is in Proofs/RgaOrder.lean.
-/
import Orda.Model.Datatypes
import Orda.Proofs.HashCmp
import Orda.Proofs.RgaOrder
import Mathlib.Order.Defs.LinearOrder
import Mathlib.Data.List.Induction
namespace Orda

def Rga.ids (s : Rga) : List Ts := s.nodes.map (·.o)

/-- an insert operation as it is applied remotely -/
structure InsOp where
  anchor : Ts
  ts : Ts          -- the operation's timestamp (delimiter 0)
  vals : List JVal

def InsOp.ids (o : InsOp) : List Ts := delimSeq o.ts o.vals.length

/-- remote application; an unknown anchor leaves the list unchanged (DatatypeNoTarget) -/
def Rga.applyIns (s : Rga) (o : InsOp) : Rga :=
  match s.insertRemote o.anchor o.ts o.vals with
  | .ok s' => s'
  | _ => s

def Rga.applyAllIns (s : Rga) (ops : List InsOp) : Rga := ops.foldl Rga.applyIns s

/-! ## the insert loop, generically -/

section generic
variable {β : Type} (oOf : β → Ts)

theorem skipIns1_perm (n : β) (rest : List β → List β) (ns : List β)
    (hrest : ∀ l, (rest l).Perm (ns ++ l)) : ∀ l, (skipIns1 oOf n rest l).Perm (n :: ns ++ l)
  | [] => by simpa [skipIns1] using hrest []
  | x :: xs => by
      unfold skipIns1
      split
      · have ih := skipIns1_perm n rest ns hrest xs
        exact (ih.cons x).trans (List.perm_middle (l₁ := n :: ns)).symm
      · exact (hrest (x :: xs)).cons n

theorem skipInsMany_perm : ∀ (ns l : List β), (skipInsMany oOf ns l).Perm (ns ++ l)
  | [], l => by simp [skipInsMany]
  | n :: ns, l => by
      unfold skipInsMany
      exact skipIns1_perm oOf n _ ns (skipInsMany_perm ns) l

theorem skipIns1_sublist (n : β) (rest : List β → List β)
    (hrest : ∀ l : List β, l.Sublist (rest l)) : ∀ l : List β, l.Sublist (skipIns1 oOf n rest l)
  | [] => by simp
  | x :: xs => by
      unfold skipIns1
      split
      · exact (skipIns1_sublist n rest hrest xs).cons_cons x
      · exact (hrest (x :: xs)).cons n

theorem skipInsMany_sublist : ∀ (ns l : List β), l.Sublist (skipInsMany oOf ns l)
  | [], l => by simp [skipInsMany]
  | n :: ns, l => by
      unfold skipInsMany
      exact skipIns1_sublist oOf n _ (skipInsMany_sublist ns) l

/-- the anchor search -/
theorem insertAfterId_go_spec (anchor : Ts) (ns : List β) : ∀ l : List β,
    (insertAfterId.go oOf anchor ns l = none ∧ ∀ x ∈ l, oOf x ≠ anchor) ∨
    ∃ pre a post, l = pre ++ a :: post ∧ oOf a = anchor ∧ (∀ x ∈ pre, oOf x ≠ anchor) ∧
      insertAfterId.go oOf anchor ns l = some (pre ++ a :: skipInsMany oOf ns post)
  | [] => by simp [insertAfterId.go]
  | x :: xs => by
      unfold insertAfterId.go
      split
      next hx => exact Or.inr ⟨[], x, xs, rfl, hx, by simp, rfl⟩
      next hx =>
        rcases insertAfterId_go_spec anchor ns xs with ⟨h1, h2⟩ | ⟨pre, a, post, h1, h2, h3, h4⟩
        · left
          refine ⟨by simp [h1], ?_⟩
          intro y hy
          rcases List.mem_cons.mp hy with rfl | hy
          · exact hx
          · exact h2 y hy
        · right
          refine ⟨x :: pre, a, post, by simp [h1], h2, ?_, by simp [h4]⟩
          intro y hy
          rcases List.mem_cons.mp hy with rfl | hy
          · exact hx
          · exact h3 y hy

theorem insertAfterId_oldest (ns l : List β) :
    insertAfterId oOf Ts.oldest ns l = some (skipInsMany oOf ns l) := by
  simp [insertAfterId]

theorem insertAfterId_ne (anchor : Ts) (h : anchor ≠ Ts.oldest) (ns l : List β) :
    insertAfterId oOf anchor ns l = insertAfterId.go oOf anchor ns l := by
  simp [insertAfterId, h]

theorem insertAfterId_perm (anchor : Ts) (ns l l' : List β)
    (h : insertAfterId oOf anchor ns l = some l') : l'.Perm (ns ++ l) := by
  by_cases ha : anchor = Ts.oldest
  · subst ha
    rw [insertAfterId_oldest] at h
    cases h
    exact skipInsMany_perm oOf ns l
  · rw [insertAfterId_ne oOf anchor ha] at h
    rcases insertAfterId_go_spec oOf anchor ns l with ⟨h1, _⟩ | ⟨pre, a, post, h1, _, _, h4⟩
    · rw [h1] at h; cases h
    · rw [h4] at h; cases h
      subst h1
      have := skipInsMany_perm oOf ns post
      refine ((this.cons a).append_left pre).trans ?_
      have e : pre ++ a :: (ns ++ post) = (pre ++ [a]) ++ (ns ++ post) := by simp
      have e' : ns ++ (pre ++ a :: post) = ns ++ ((pre ++ [a]) ++ post) := by simp
      rw [e, e', ← List.append_assoc, ← List.append_assoc]
      exact List.Perm.append_right post List.perm_append_comm

theorem insertAfterId_sublist (anchor : Ts) (ns l l' : List β)
    (h : insertAfterId oOf anchor ns l = some l') : l.Sublist l' := by
  by_cases ha : anchor = Ts.oldest
  · subst ha
    rw [insertAfterId_oldest] at h
    cases h
    exact skipInsMany_sublist oOf ns l
  · rw [insertAfterId_ne oOf anchor ha] at h
    rcases insertAfterId_go_spec oOf anchor ns l with ⟨h1, _⟩ | ⟨pre, a, post, h1, _, _, h4⟩
    · rw [h1] at h; cases h
    · rw [h4] at h; cases h
      subst h1
      exact List.Sublist.append_left ((skipInsMany_sublist oOf ns post).cons_cons a) pre

theorem insertAfterId_isSome (anchor : Ts) (ns l : List β)
    (h : anchor = Ts.oldest ∨ anchor ∈ l.map oOf) : (insertAfterId oOf anchor ns l).isSome := by
  by_cases ha : anchor = Ts.oldest
  · subst ha; simp [insertAfterId_oldest]
  · rw [insertAfterId_ne oOf anchor ha]
    rcases insertAfterId_go_spec oOf anchor ns l with ⟨_, h2⟩ | ⟨pre, a, post, _, _, _, h4⟩
    · exfalso
      rcases h with h | h
      · exact ha h
      · obtain ⟨x, hx, hxa⟩ := List.mem_map.mp h
        exact h2 x hx hxa
    · simp [h4]

/-! ### naturality: the loop only looks at identities -/

variable {γ : Type} (oC : γ → Ts) (f : β → γ)

theorem skipIns1_map (hf : ∀ b, oC (f b) = oOf b) (n : β) (restB : List β → List β)
    (restC : List γ → List γ) (hrest : ∀ l, (restB l).map f = restC (l.map f)) :
    ∀ l, (skipIns1 oOf n restB l).map f = skipIns1 oC (f n) restC (l.map f)
  | [] => by simpa [skipIns1] using hrest []
  | x :: xs => by
      simp only [List.map_cons, skipIns1, hf]
      split
      · simp [skipIns1_map hf n restB restC hrest xs]
      · simpa using hrest (x :: xs)

theorem skipInsMany_map (hf : ∀ b, oC (f b) = oOf b) : ∀ (ns l : List β),
    (skipInsMany oOf ns l).map f = skipInsMany oC (ns.map f) (l.map f)
  | [], l => by simp [skipInsMany]
  | n :: ns, l => by
      simp only [skipInsMany, List.map_cons]
      exact skipIns1_map oOf oC f hf n _ _ (skipInsMany_map hf ns) l

theorem insertAfterId_go_map (hf : ∀ b, oC (f b) = oOf b) (anchor : Ts) (ns : List β) :
    ∀ l : List β, (insertAfterId.go oOf anchor ns l).map (List.map f) =
      insertAfterId.go oC anchor (ns.map f) (l.map f)
  | [] => by simp [insertAfterId.go]
  | x :: xs => by
      simp only [List.map_cons, insertAfterId.go, hf]
      split
      · simp [skipInsMany_map oOf oC f hf]
      · rw [← insertAfterId_go_map hf anchor ns xs]
        cases insertAfterId.go oOf anchor ns xs <;> simp

theorem insertAfterId_map (hf : ∀ b, oC (f b) = oOf b) (anchor : Ts) (ns l : List β) :
    (insertAfterId oOf anchor ns l).map (List.map f) =
      insertAfterId oC anchor (ns.map f) (l.map f) := by
  unfold insertAfterId
  split
  · simp [skipInsMany_map oOf oC f hf]
  · exact insertAfterId_go_map oOf oC f hf anchor ns l

/-! ### the loop as a split of the list -/

theorem skipIns1_of_not_gt (n : β) (rest : List β → List β) (l : List β)
    (h : ∀ y, l.head? = some y → (oOf y).cmp (oOf n) ≠ .gt) :
    skipIns1 oOf n rest l = n :: rest l := by
  cases l with
  | nil => rfl
  | cons x xs =>
    have := h x rfl
    simp [skipIns1, this]

/-- the further nodes of a batch (same `Ts.key` as the first) are placed without skipping -/
theorem skipInsMany_same (k : Ts) : ∀ (ns l : List β),
    (∀ m ∈ ns, (oOf m).key = k.key) →
    (∀ y, l.head? = some y → (oOf y).cmp k ≠ .gt) →
    skipInsMany oOf ns l = ns ++ l
  | [], l, _, _ => rfl
  | n :: ns, l, hs, hl => by
      have hn : (oOf n).key = k.key := hs n (by simp)
      unfold skipInsMany
      rw [skipIns1_of_not_gt oOf n _ l (fun y hy => by
        rw [cmp_congr_key (oOf y) (oOf y) (oOf n) k rfl hn]; exact hl y hy)]
      rw [skipInsMany_same k ns l (fun m hm => hs m (by simp [hm])) hl]
      rfl

theorem skipInsMany_spec (n : β) (ns : List β) (hs : ∀ m ∈ ns, (oOf m).key = (oOf n).key) :
    ∀ l : List β, ∃ sk rest, l = sk ++ rest ∧ (∀ x ∈ sk, (oOf x).cmp (oOf n) = .gt) ∧
      (∀ y, rest.head? = some y → (oOf y).cmp (oOf n) ≠ .gt) ∧
      skipInsMany oOf (n :: ns) l = sk ++ n :: (ns ++ rest)
  | [] => ⟨[], [], rfl, by simp, by simp, by
      simp only [skipInsMany, skipIns1, List.nil_append]
      rw [skipInsMany_same oOf (oOf n) ns [] hs (by simp)]⟩
  | x :: xs => by
      by_cases hx : (oOf x).cmp (oOf n) = .gt
      · obtain ⟨sk, rest, h1, h2, h3, h4⟩ := skipInsMany_spec n ns hs xs
        refine ⟨x :: sk, rest, by simp [h1], ?_, h3, ?_⟩
        · intro y hy
          rcases List.mem_cons.mp hy with rfl | hy
          · exact hx
          · exact h2 y hy
        · simp only [skipInsMany] at h4 ⊢
          simp only [skipIns1, hx, List.cons_append, beq_self_eq_true, if_true]
          rw [h4]
      · refine ⟨[], x :: xs, rfl, by simp, ?_, ?_⟩
        · intro y hy
          simp only [List.head?_cons, Option.some.injEq] at hy
          subst hy; exact hx
        · simp only [skipInsMany, List.nil_append]
          rw [skipIns1_of_not_gt oOf n _ (x :: xs) (fun y hy => by
            simp only [List.head?_cons, Option.some.injEq] at hy
            subst hy; exact hx)]
          rw [skipInsMany_same oOf (oOf n) ns (x :: xs) hs (fun y hy => by
            simp only [List.head?_cons, Option.some.injEq] at hy
            subst hy; exact hx)]

end generic

/-! ## batches -/

theorem delimSeq_length : ∀ (n : Nat) (ts : Ts), (delimSeq ts n).length = n
  | 0, _ => rfl
  | n + 1, ts => by simp [delimSeq, delimSeq_length n]

theorem mem_delimSeq : ∀ (n : Nat) (ts x : Ts), x ∈ delimSeq ts n ↔
    ∃ i, i < n ∧ x = { ts with delim := ts.delim + i }
  | 0, _, _ => by simp [delimSeq]
  | n + 1, ts, x => by
      simp only [delimSeq, List.mem_cons, mem_delimSeq n]
      constructor
      · rintro (rfl | ⟨i, hi, rfl⟩)
        · exact ⟨0, by omega, rfl⟩
        · exact ⟨i + 1, by omega, by simp [Ts.nextDelim]; omega⟩
      · rintro ⟨i, hi, rfl⟩
        cases i with
        | zero => left; rfl
        | succ i => right; exact ⟨i, by omega, by simp [Ts.nextDelim]; omega⟩

theorem delimSeq_key {n : Nat} {ts x : Ts} (h : x ∈ delimSeq ts n) : x.key = ts.key := by
  obtain ⟨i, _, rfl⟩ := (mem_delimSeq n ts x).mp h
  rfl

theorem mkNodes_ids (ts : Ts) (vs : List JVal) :
    (mkNodes ts vs).map (·.o) = delimSeq ts vs.length := by
  unfold mkNodes
  rw [List.map_map]
  have : ((fun n : RNode => n.o) ∘ fun x : JVal × Ts => (⟨x.2, some x.1, x.2⟩ : RNode)) = Prod.snd := by
    funext x; rfl
  rw [this]
  exact List.map_snd_zip (by rw [delimSeq_length]; exact Nat.le_refl _)

theorem applyIns_nodes (s : Rga) (o : InsOp) :
    (s.applyIns o).nodes =
      (insertAfterId RNode.o o.anchor (mkNodes o.ts o.vals) s.nodes).getD s.nodes := by
  unfold Rga.applyIns Rga.insertRemote
  cases insertAfterId RNode.o o.anchor (mkNodes o.ts o.vals) s.nodes <;> rfl

/-- on identities, `applyIns` is the generic loop over `Ts` -/
theorem applyIns_ids (s : Rga) (o : InsOp) :
    (s.applyIns o).ids = (insertAfterId id o.anchor o.ids s.ids).getD s.ids := by
  unfold Rga.ids InsOp.ids
  rw [applyIns_nodes, ← mkNodes_ids o.ts o.vals,
    ← insertAfterId_map RNode.o id RNode.o (fun _ => rfl)]
  cases insertAfterId RNode.o o.anchor (mkNodes o.ts o.vals) s.nodes <;> rfl

/-- P1 (C04: elements are never reordered on a replica): applying an insert only ADDS nodes — the
    old identity sequence is a sublist of the new one -/
theorem applyIns_sublist (s : Rga) (o : InsOp) : s.ids.Sublist (s.applyIns o).ids := by
  rw [applyIns_ids]
  cases h : insertAfterId id o.anchor o.ids s.ids with
  | none => simp
  | some l' => exact insertAfterId_sublist id o.anchor o.ids s.ids l' h

/-- P2: when the anchor is present, exactly the batch identities are added -/
theorem applyIns_perm (s : Rga) (o : InsOp) (h : o.anchor = Ts.oldest ∨ o.anchor ∈ s.ids) :
    (s.applyIns o).ids.Perm (o.ids ++ s.ids) := by
  rw [applyIns_ids]
  have hs := insertAfterId_isSome id o.anchor o.ids s.ids (by simpa using h)
  cases h' : insertAfterId id o.anchor o.ids s.ids with
  | none => rw [h'] at hs; cases hs
  | some l' => exact insertAfterId_perm id o.anchor o.ids s.ids l' h'

/-! ## P3: local insert = remote application of its own operation -/

section generic
variable {β : Type} (oOf : β → Ts)

theorem skipInsMany_of_not_gt : ∀ (ns l : List β),
    (∀ n ∈ ns, ∀ y, l.head? = some y → (oOf y).cmp (oOf n) ≠ .gt) →
    skipInsMany oOf ns l = ns ++ l
  | [], _, _ => rfl
  | n :: ns, l, h => by
      unfold skipInsMany
      rw [skipIns1_of_not_gt oOf n _ l (h n (by simp)),
        skipInsMany_of_not_gt ns l (fun m hm => h m (by simp [hm]))]
      rfl

theorem nthLive_mem (isLive : β → Bool) : ∀ (l : List β) (p : Nat) (x : β),
    nthLive isLive p l = some x → x ∈ l
  | [], _, _, h => by simp [nthLive] at h
  | y :: ys, p, x, h => by
      unfold nthLive at h
      split at h
      · split at h
        · simp at h; simp [h]
        · exact List.mem_cons_of_mem _ (nthLive_mem isLive ys _ x h)
      · exact List.mem_cons_of_mem _ (nthLive_mem isLive ys _ x h)

theorem insertAtLive_eq_go (isLive : β → Bool) (ns : List β) : ∀ (l : List β) (p : Nat) (x : β)
    (l' : List β), (l.map oOf).Nodup →
    (∀ n ∈ ns, ∀ y ∈ l, (oOf y).cmp (oOf n) ≠ .gt) →
    nthLive isLive p l = some x → insertAtLive isLive ns (p + 1) l = some l' →
    insertAfterId.go oOf (oOf x) ns l = some l'
  | [], _, _, _, _, _, h, _ => by simp [nthLive] at h
  | y :: ys, p, x, l', hnd, hgt, hn, hi => by
      have hnd' : oOf y ∉ ys.map oOf ∧ (ys.map oOf).Nodup := List.nodup_cons.mp hnd
      have hgt' : ∀ n ∈ ns, ∀ z ∈ ys, (oOf z).cmp (oOf n) ≠ .gt :=
        fun n hn z hz => hgt n hn z (by simp [hz])
      have hskip : skipInsMany oOf ns ys = ns ++ ys :=
        skipInsMany_of_not_gt oOf ns ys (fun n hn z hz => hgt' n hn z (List.mem_of_mem_head? hz))
      have hne : ∀ q, nthLive isLive q ys = some x → oOf y ≠ oOf x := by
        intro q hq heq
        exact hnd'.1 (heq ▸ List.mem_map.mpr ⟨x, nthLive_mem isLive ys q x hq, rfl⟩)
      unfold nthLive at hn
      unfold insertAtLive at hi
      unfold insertAfterId.go
      by_cases hl : isLive y = true
      · simp only [hl, if_true] at hn hi
        by_cases hp : p = 0
        · simp only [hp, if_true] at hn hi
          cases hn; cases hi
          simp [hskip]
        · simp only [hp, if_false] at hn hi
          obtain ⟨q, rfl⟩ : ∃ q, p = q + 1 := ⟨p - 1, by omega⟩
          simp only [Nat.add_sub_cancel] at hn
          rw [if_neg (hne _ hn)]
          cases hi' : insertAtLive isLive ns (q + 1) ys with
          | none => rw [hi'] at hi; cases hi
          | some l'' =>
            rw [hi'] at hi
            rw [insertAtLive_eq_go isLive ns ys q x l'' hnd'.2 hgt' hn hi']
            exact hi
      · simp only [hl] at hn hi
        rw [if_neg (hne _ hn)]
        cases hi' : insertAtLive isLive ns (p + 1) ys with
        | none => rw [hi'] at hi; cases hi
        | some l'' =>
          rw [hi'] at hi
          rw [insertAtLive_eq_go isLive ns ys p x l'' hnd'.2 hgt' hn hi']
          exact hi

end generic

theorem mkNodes_key {ts : Ts} {vs : List JVal} {n : RNode} (h : n ∈ mkNodes ts vs) :
    n.o.key = ts.key := by
  have : n.o ∈ (mkNodes ts vs).map (·.o) := List.mem_map.mpr ⟨n, h, rfl⟩
  rw [mkNodes_ids] at this
  exact delimSeq_key this

/-- P3 under the two state invariants it needs (identities are unique, none is the head's).
    Both hold in every reachable state (`rga_ids_nodup`, `InsCausal.notHead`);
    without them the statement is false: see `insertLocal_eq_insertRemote_counterexample`. -/
theorem insertLocal_eq_insertRemote_partial (s : Rga) (pos : Nat) (ts : Ts) (vs : List JVal) (a : Ts)
    (s' : Rga) (hnodup : s.ids.Nodup) (hnohead : Ts.oldest ∉ s.ids)
    (hnew : ∀ n ∈ s.nodes, n.o.cmp ts = .lt)
    (h : s.insertLocal pos ts vs = .ok (s', a)) :
    s.insertRemote a ts vs = .ok s' := by
  have hgt : ∀ n ∈ mkNodes ts vs, ∀ y ∈ s.nodes, y.o.cmp n.o ≠ .gt := by
    intro n hn y hy
    rw [cmp_congr_key y.o y.o n.o ts rfl (mkNodes_key hn), hnew y hy]
    decide
  unfold Rga.insertLocal at h
  unfold Rga.insertRemote
  cases ha : s.anchorAt pos with
  | none => rw [ha] at h; simp at h
  | some a' =>
    cases hi : insertAtLive RNode.isLive (mkNodes ts vs) pos s.nodes with
    | none => rw [ha, hi] at h; simp at h
    | some l =>
      rw [ha, hi] at h
      simp only [Outcome.ok.injEq, Prod.mk.injEq] at h
      obtain ⟨rfl, rfl⟩ := h
      unfold Rga.anchorAt at ha
      cases pos with
      | zero =>
        simp only [if_true, Option.some.injEq] at ha
        subst ha
        simp only [insertAtLive, Option.some.injEq] at hi
        subst hi
        rw [insertAfterId_oldest, skipInsMany_of_not_gt RNode.o _ _
          (fun n hn y hy => hgt n hn y (List.mem_of_mem_head? hy))]
      | succ p =>
        simp only [Nat.add_one_ne_zero, if_false, Nat.add_sub_cancel, Option.map_eq_some_iff] at ha
        obtain ⟨x, hx, rfl⟩ := ha
        have hxm := nthLive_mem RNode.isLive s.nodes p x hx
        have hne : x.o ≠ Ts.oldest := fun e => hnohead (e ▸ List.mem_map.mpr ⟨x, hxm, rfl⟩)
        rw [insertAfterId_ne RNode.o x.o hne,
          insertAtLive_eq_go RNode.o RNode.isLive (mkNodes ts vs) s.nodes p x l hnodup hgt hx hi]

/-- P3 as first stated (without `hnodup`, `hnohead`) is false: with a duplicated identity the remote
    search finds the first occurrence, the local walk the live one. -/
theorem insertLocal_eq_insertRemote_counterexample :
    ∃ (s : Rga) (pos : Nat) (ts : Ts) (vs : List JVal) (a : Ts) (s' : Rga),
      (∀ n ∈ s.nodes, n.o.cmp ts = .lt) ∧ s.insertLocal pos ts vs = .ok (s', a) ∧
      ∃ r, s.insertRemote a ts vs = .ok r ∧ r.ids ≠ s'.ids := by
  refine ⟨⟨[⟨⟨0, 1, "a", 0⟩, none, ⟨0, 1, "a", 0⟩⟩, ⟨⟨0, 1, "a", 0⟩, some .null, ⟨0, 1, "a", 0⟩⟩], 1⟩,
    1, ⟨0, 2, "a", 0⟩, [.null], ⟨0, 1, "a", 0⟩, _, ?_, rfl, _, rfl, ?_⟩
  · intro n hn
    simp only [List.mem_cons, List.not_mem_nil, or_false] at hn
    rcases hn with rfl | rfl <;> decide
  · decide

/-- … and so is it when an element carries the head's identity `Ts.oldest`. -/
theorem insertLocal_eq_insertRemote_counterexample_head :
    ∃ (s : Rga) (pos : Nat) (ts : Ts) (vs : List JVal) (a : Ts) (s' : Rga),
      s.ids.Nodup ∧
      (∀ n ∈ s.nodes, n.o.cmp ts = .lt) ∧ s.insertLocal pos ts vs = .ok (s', a) ∧
      ∃ r, s.insertRemote a ts vs = .ok r ∧ r.ids ≠ s'.ids := by
  refine ⟨⟨[⟨Ts.oldest, some .null, Ts.oldest⟩], 1⟩,
    1, ⟨0, 2, "a", 0⟩, [.null], Ts.oldest, _, by decide, ?_, rfl, _, rfl, ?_⟩
  · intro n hn
    simp only [List.mem_cons, List.not_mem_nil, or_false] at hn
    subst hn; decide
  · decide

/-! ## P7: deletes and updates -/

theorem updNode_ids (tg : Ts) (f : RNode → RNode) (hf : ∀ y, (f y).o = y.o) :
    ∀ l : List RNode, (updNode tg f l).map (·.o) = l.map (·.o)
  | [] => rfl
  | y :: ys => by
      unfold updNode
      split
      · simp [hf]
      · simp [updNode_ids tg f hf ys]

theorem updNode_keeps_tomb (tg : Ts) (f : RNode → RNode) (hf : ∀ y, (f y).o = y.o)
    (hv : ∀ y, y.v = none → (f y).v = none) (x : Ts) :
    ∀ l : List RNode, (∃ n ∈ l, n.o = x ∧ n.v = none) → ∃ n ∈ updNode tg f l, n.o = x ∧ n.v = none
  | [], h => by simp at h
  | y :: ys, ⟨n, hn, hno, hnv⟩ => by
      unfold updNode
      split
      · rcases List.mem_cons.mp hn with rfl | hn
        · exact ⟨f n, by simp, by rw [hf, hno], hv n hnv⟩
        · exact ⟨n, by simp [hn], hno, hnv⟩
      · rcases List.mem_cons.mp hn with rfl | hn
        · exact ⟨n, by simp, hno, hnv⟩
        · obtain ⟨m, hm, hmo, hmv⟩ := updNode_keeps_tomb tg f hf hv x ys ⟨n, hn, hno, hnv⟩
          exact ⟨m, by simp [hm], hmo, hmv⟩

theorem updNode_kills (x : Ts) (f : RNode → RNode) (hf : ∀ y, (f y).o = y.o)
    (hv : ∀ y, (f y).v = none) :
    ∀ l : List RNode, x ∈ l.map (·.o) → ∃ n ∈ updNode x f l, n.o = x ∧ n.v = none
  | [], h => by simp at h
  | y :: ys, h => by
      unfold updNode
      split
      next hy => exact ⟨f y, by simp, by rw [hf, hy], hv y⟩
      next hy =>
        have : x ∈ ys.map (·.o) := by
          simp only [List.map_cons, List.mem_cons] at h
          rcases h with h | h
          · exact absurd h.symm hy
          · exact h
        obtain ⟨m, hm, hmo, hmv⟩ := updNode_kills x f hf hv ys this
        exact ⟨m, by simp [hm], hmo, hmv⟩

/-- the node transformer of deleteRemote -/
def delF (t : Ts) (x : RNode) : RNode :=
  if x.isLive then { x with v := none, t := t }
  else if x.t.cmp t == .lt then { x with t := t } else x

theorem delF_o (t : Ts) (y : RNode) : (delF t y).o = y.o := by
  unfold delF; split
  · rfl
  · split <;> rfl

theorem delF_v (t : Ts) (y : RNode) : (delF t y).v = none := by
  unfold delF; split
  · rfl
  · next h =>
    have : y.v = none := by
      cases hv : y.v with
      | none => rfl
      | some _ => simp [RNode.isLive, hv] at h
    split <;> exact this

theorem deleteRemote_go_cons (tg : Ts) (tgs : List Ts) (t : Ts) (l : List RNode) (sz : Int) :
    Rga.deleteRemote.go (tg :: tgs) t l sz =
      Rga.deleteRemote.go tgs t.nextDelim (updNode tg (delF t) l)
        (if l.any (fun x => x.o = tg && x.isLive) then sz - 1 else sz) := rfl

theorem deleteRemote_go_ids : ∀ (tg : List Ts) (t : Ts) (l : List RNode) (sz : Int),
    (Rga.deleteRemote.go tg t l sz).1.map (·.o) = l.map (·.o)
  | [], _, _, _ => rfl
  | x :: xs, t, l, sz => by
      rw [deleteRemote_go_cons, deleteRemote_go_ids xs, updNode_ids x _ (delF_o t)]

theorem deleteRemote_go_keeps (x : Ts) : ∀ (tg : List Ts) (t : Ts) (l : List RNode) (sz : Int),
    (∃ n ∈ l, n.o = x ∧ n.v = none) →
    ∃ n ∈ (Rga.deleteRemote.go tg t l sz).1, n.o = x ∧ n.v = none
  | [], _, _, _, h => h
  | y :: ys, t, l, sz, h => by
      rw [deleteRemote_go_cons]
      exact deleteRemote_go_keeps x ys _ _ _
        (updNode_keeps_tomb y _ (delF_o t) (fun z _ => delF_v t z) x l h)

theorem deleteRemote_go_kills (x : Ts) : ∀ (tg : List Ts) (t : Ts) (l : List RNode) (sz : Int),
    x ∈ tg → x ∈ l.map (·.o) →
    ∃ n ∈ (Rga.deleteRemote.go tg t l sz).1, n.o = x ∧ n.v = none
  | [], _, _, _, h, _ => by simp at h
  | y :: ys, t, l, sz, h, hin => by
      rw [deleteRemote_go_cons]
      by_cases hxy : x = y
      · subst hxy
        exact deleteRemote_go_keeps x ys _ _ _ (updNode_kills x _ (delF_o t) (delF_v t) l hin)
      · have hx : x ∈ ys := by
          rcases List.mem_cons.mp h with h | h
          · exact absurd h hxy
          · exact h
        exact deleteRemote_go_kills x ys _ _ _ hx (by rw [updNode_ids y _ (delF_o t)]; exact hin)

theorem deleteRemote_nodes (s : Rga) (tg : List Ts) (ts : Ts) :
    (s.deleteRemote tg ts).nodes = (Rga.deleteRemote.go tg ts s.nodes s.size).1 := rfl

/-- P7 (C02/C04: deletes and updates): they never change the identity sequence … -/
theorem deleteRemote_ids (s : Rga) (tg : List Ts) (ts : Ts) : (s.deleteRemote tg ts).ids = s.ids := by
  unfold Rga.ids
  rw [deleteRemote_nodes, deleteRemote_go_ids]

/-- the node transformer of updateRemote -/
def updF (v : JVal) (t : Ts) (x : RNode) : RNode :=
  if x.v.isNone then x else if x.t.cmp t == .lt then { x with v := some v, t := t } else x

theorem updF_o (v : JVal) (t : Ts) (y : RNode) : (updF v t y).o = y.o := by
  unfold updF; split
  · rfl
  · split <;> rfl

theorem updF_v (v : JVal) (t : Ts) (y : RNode) (h : y.v = none) : (updF v t y).v = none := by
  unfold updF; simp [h]

theorem updateRemote_go_cons (tg : Ts) (tgs : List Ts) (v : JVal) (vs : List JVal) (t : Ts)
    (l : List RNode) :
    Rga.updateRemote.go (tg :: tgs) (v :: vs) t l =
      Rga.updateRemote.go tgs vs t.nextDelim (updNode tg (updF v t) l) := rfl

theorem updateRemote_go_ids : ∀ (tg : List Ts) (vs : List JVal) (t : Ts) (l l' : List RNode),
    Rga.updateRemote.go tg vs t l = some l' → l'.map (·.o) = l.map (·.o)
  | [], _, _, _, _, h => by simp [Rga.updateRemote.go] at h; rw [h]
  | _ :: _, [], _, _, _, h => by simp [Rga.updateRemote.go] at h
  | x :: xs, v :: vs, t, l, l', h => by
      rw [updateRemote_go_cons] at h
      rw [updateRemote_go_ids xs vs _ _ l' h, updNode_ids x _ (updF_o v t)]

theorem updateRemote_go_keeps (x : Ts) : ∀ (tg : List Ts) (vs : List JVal) (t : Ts)
    (l l' : List RNode), Rga.updateRemote.go tg vs t l = some l' →
    (∃ n ∈ l, n.o = x ∧ n.v = none) → ∃ n ∈ l', n.o = x ∧ n.v = none
  | [], _, _, _, _, h, hn => by simp [Rga.updateRemote.go] at h; rw [← h]; exact hn
  | _ :: _, [], _, _, _, h, _ => by simp [Rga.updateRemote.go] at h
  | y :: ys, v :: vs, t, l, l', h, hn => by
      rw [updateRemote_go_cons] at h
      exact updateRemote_go_keeps x ys vs _ _ l' h
        (updNode_keeps_tomb y _ (updF_o v t) (updF_v v t) x l hn)

theorem updateRemote_nodes (s s' : Rga) (tg : List Ts) (vs : List JVal) (ts : Ts)
    (h : s.updateRemote tg vs ts = .ok s') :
    Rga.updateRemote.go tg vs ts s.nodes = some s'.nodes := by
  unfold Rga.updateRemote at h
  cases hg : Rga.updateRemote.go tg vs ts s.nodes with
  | none => rw [hg] at h; simp at h
  | some l => rw [hg] at h; simp at h; rw [← h]

theorem updateRemote_ids (s s' : Rga) (tg : List Ts) (vs : List JVal) (ts : Ts)
    (h : s.updateRemote tg vs ts = .ok s') : s'.ids = s.ids :=
  updateRemote_go_ids tg vs ts s.nodes s'.nodes (updateRemote_nodes s s' tg vs ts h)

/-- … a deleted element stays deleted, whatever arrives later (update or delete) … -/
theorem deleteRemote_keeps_tomb (s : Rga) (tg : List Ts) (ts : Ts) (x : Ts)
    (h : ∃ n ∈ s.nodes, n.o = x ∧ n.v = none) : ∃ n ∈ (s.deleteRemote tg ts).nodes, n.o = x ∧ n.v = none := by
  rw [deleteRemote_nodes]
  exact deleteRemote_go_keeps x tg ts s.nodes s.size h

theorem updateRemote_keeps_tomb (s s' : Rga) (tg : List Ts) (vs : List JVal) (ts : Ts) (x : Ts)
    (hu : s.updateRemote tg vs ts = .ok s')
    (h : ∃ n ∈ s.nodes, n.o = x ∧ n.v = none) : ∃ n ∈ s'.nodes, n.o = x ∧ n.v = none :=
  updateRemote_go_keeps x tg vs ts s.nodes s'.nodes (updateRemote_nodes s s' tg vs ts hu) h

set_option linter.unusedVariables false in
/-- … and a delete always wins over a live value -/
theorem deleteRemote_kills (s : Rga) (tg : List Ts) (ts : Ts) (x : Ts) (hx : x ∈ tg)
    (hn : s.ids.Nodup) (hin : x ∈ s.ids) :
    ∃ n ∈ (s.deleteRemote tg ts).nodes, n.o = x ∧ n.v = none := by
  rw [deleteRemote_nodes]
  exact deleteRemote_go_kills x tg ts s.nodes s.size hx hin

/-! ## the linear order of identities: era, lamport, cuid, then delimiter ascending -/

def Ts.llt (a b : Ts) : Prop := a.cmp b = .lt ∨ (a.cmp b = .eq ∧ a.delim < b.delim)

instance : DecidableRel Ts.llt := fun a b => by unfold Ts.llt; infer_instance

theorem Ts.ext_key {a b : Ts} (hk : a.key = b.key) (hd : a.delim = b.delim) : a = b := by
  cases a; cases b
  simp only [Ts.key, Prod.mk.injEq] at hk
  simp_all

theorem cmp_self (a : Ts) : a.cmp a = .eq := (cmp_eq_iff a a).mpr rfl

theorem llt_irrefl (a : Ts) : ¬ a.llt a := by
  unfold Ts.llt
  rw [cmp_self]
  simp

theorem llt_trans {a b c : Ts} (h1 : a.llt b) (h2 : b.llt c) : a.llt c := by
  unfold Ts.llt at *
  rcases h1 with h1 | ⟨h1, d1⟩
  · rcases h2 with h2 | ⟨h2, _⟩
    · exact Or.inl (cmp_lt_trans a b c h1 h2)
    · left
      rw [cmp_congr_key a a c b rfl ((cmp_eq_iff b c).mp h2).symm]; exact h1
  · rcases h2 with h2 | ⟨h2, d2⟩
    · left
      rw [cmp_congr_key a b c c ((cmp_eq_iff a b).mp h1) rfl]; exact h2
    · right
      exact ⟨(cmp_eq_iff a c).mpr (((cmp_eq_iff a b).mp h1).trans ((cmp_eq_iff b c).mp h2)), by omega⟩

theorem llt_asymm {a b : Ts} (h1 : a.llt b) (h2 : b.llt a) : False := llt_irrefl a (llt_trans h1 h2)

theorem llt_tri (a b : Ts) : a.llt b ∨ a = b ∨ b.llt a := by
  unfold Ts.llt
  cases h : a.cmp b with
  | lt => left; left; rfl
  | gt => right; right; left; exact (cmp_gt_iff_lt a b).mp h
  | eq =>
    have hk := (cmp_eq_iff a b).mp h
    have h' : b.cmp a = .eq := (cmp_eq_iff b a).mpr hk.symm
    rcases Nat.lt_trichotomy a.delim b.delim with d | d | d
    · left; right; exact ⟨rfl, d⟩
    · right; left; exact Ts.ext_key hk d
    · right; right; right; exact ⟨h', d⟩

instance Ts.linearOrder : LinearOrder Ts where
  le a b := a = b ∨ a.llt b
  lt := Ts.llt
  le_refl a := Or.inl rfl
  le_trans a b c h1 h2 := by
    rcases h1 with rfl | h1
    · exact h2
    · rcases h2 with rfl | h2
      · exact Or.inr h1
      · exact Or.inr (llt_trans h1 h2)
  lt_iff_le_not_ge a b := by
    constructor
    · intro h
      refine ⟨Or.inr h, ?_⟩
      rintro (rfl | h')
      · exact llt_irrefl _ h
      · exact llt_asymm h h'
    · rintro ⟨h1 | h1, h2⟩
      · exact absurd (Or.inl h1.symm) h2
      · exact h1
  le_antisymm a b h1 h2 := by
    rcases h1 with h1 | h1
    · exact h1
    · rcases h2 with h2 | h2
      · exact h2.symm
      · exact (llt_asymm h1 h2).elim
  le_total a b := by
    rcases llt_tri a b with h | h | h
    · exact Or.inl (Or.inr h)
    · exact Or.inl (Or.inl h)
    · exact Or.inr (Or.inr h)
  toDecidableLE := fun a b => inferInstanceAs (Decidable (a = b ∨ a.llt b))
  toDecidableEq := inferInstance
  toDecidableLT := fun a b => inferInstanceAs (Decidable (a.llt b))

theorem ts_lt_iff (a b : Ts) : a < b ↔ a.cmp b = .lt ∨ (a.cmp b = .eq ∧ a.delim < b.delim) := Iff.rfl

theorem ts_lt_of_cmp_lt {a b : Ts} (h : a.cmp b = .lt) : a < b := Or.inl h

theorem ts_lt_of_cmp_gt {a b : Ts} (h : a.cmp b = .gt) : b < a :=
  Or.inl ((cmp_gt_iff_lt a b).mp h)

/-- under freshness the model's skip test is the linear order -/
theorem ts_lt_of_not_gt {x n : Ts} (hk : x.key ≠ n.key) (h : x.cmp n ≠ .gt) : x < n := by
  left
  cases hc : x.cmp n with
  | lt => rfl
  | eq => exact absurd ((cmp_eq_iff x n).mp hc) hk
  | gt => exact absurd hc h

theorem ts_lt_nextDelim_of_key {a b : Ts} (hk : a.key = b.key) (hd : a.delim < b.delim) : a < b :=
  Or.inr ⟨(cmp_eq_iff a b).mpr hk, hd⟩

theorem delimSeq_lt : ∀ (n : Nat) (ts x : Ts), x ∈ delimSeq ts.nextDelim n → ts < x := by
  intro n ts x hx
  obtain ⟨i, _, rfl⟩ := (mem_delimSeq n _ x).mp hx
  exact ts_lt_nextDelim_of_key rfl (by simp [Ts.nextDelim]; omega)

theorem delimSeq_sorted : ∀ (n : Nat) (ts : Ts), (delimSeq ts n).Pairwise (· < ·)
  | 0, _ => List.Pairwise.nil
  | n + 1, ts => by
      unfold delimSeq
      exact List.pairwise_cons.mpr ⟨fun x hx => delimSeq_lt n ts x hx, delimSeq_sorted n _⟩

theorem delimSeq_nodup (n : Nat) (ts : Ts) : (delimSeq ts n).Nodup :=
  (delimSeq_sorted n ts).imp (fun h => ne_of_lt h)

/-! ## ghost paths, determined by the SET of operations -/

open PathOrder

/-- the perm-invariant part of `InsCausal` -/
structure OpsWF (ops : List InsOp) : Prop where
  delim0 : ∀ o ∈ ops, o.ts.delim = 0
  notHead : ∀ o ∈ ops, o.ts.key ≠ Ts.oldest.key
  uniq : ∀ a ∈ ops, ∀ b ∈ ops, a.ts.key = b.ts.key → a = b

/-- the tree position of an identity: head = `[]`, first batch element = path of the anchor ++ itself,
    a later batch element = path of the previous batch element ++ itself -/
inductive IsPath (ops : List InsOp) : Ts → List Ts → Prop
  | root (o : InsOp) (ho : o ∈ ops) (ha : o.anchor = Ts.oldest) : IsPath ops o.ts [o.ts]
  | child (o : InsOp) (ho : o ∈ ops) (p : List Ts) (hp : IsPath ops o.anchor p) :
      IsPath ops o.ts (p ++ [o.ts])
  | next (o : InsOp) (ho : o ∈ ops) (x : Ts) (hx : x ∈ o.ids) (hx' : x.nextDelim ∈ o.ids)
      (p : List Ts) (hp : IsPath ops x p) : IsPath ops x.nextDelim (p ++ [x.nextDelim])

theorem IsPath.mono {ops ops' : List InsOp} (h : ∀ o ∈ ops, o ∈ ops') {x : Ts} {p : List Ts}
    (hp : IsPath ops x p) : IsPath ops' x p := by
  induction hp with
  | root o ho ha => exact .root o (h o ho) ha
  | child o ho p _ ih => exact .child o (h o ho) p ih
  | next o ho x hx hx' p _ ih => exact .next o (h o ho) x hx hx' p ih

theorem IsPath.key {ops : List InsOp} {x : Ts} {p : List Ts} (hp : IsPath ops x p) :
    ∃ o ∈ ops, x.key = o.ts.key := by
  cases hp with
  | root o ho ha => exact ⟨o, ho, rfl⟩
  | child o ho p _ => exact ⟨o, ho, rfl⟩
  | next o ho x hx hx' p _ => exact ⟨o, ho, delimSeq_key hx'⟩

theorem IsPath.not_oldest {ops : List InsOp} (wf : OpsWF ops) {p : List Ts}
    (hp : IsPath ops Ts.oldest p) : False := by
  obtain ⟨o, ho, hk⟩ := hp.key
  exact wf.notHead o ho hk.symm

theorem IsPath.inv {ops : List InsOp} {x : Ts} {p : List Ts} (hp : IsPath ops x p) :
    (∃ o ∈ ops, o.anchor = Ts.oldest ∧ x = o.ts ∧ p = [x]) ∨
    (∃ o ∈ ops, ∃ q, IsPath ops o.anchor q ∧ x = o.ts ∧ p = q ++ [x]) ∨
    (∃ o ∈ ops, ∃ y q, y ∈ o.ids ∧ IsPath ops y q ∧ x = y.nextDelim ∧ p = q ++ [x]) := by
  cases hp with
  | root o ho ha => exact Or.inl ⟨o, ho, ha, rfl, rfl⟩
  | child o ho p hp => exact Or.inr (Or.inl ⟨o, ho, p, hp, rfl, rfl⟩)
  | next o ho y hy hy' p hp => exact Or.inr (Or.inr ⟨o, ho, y, p, hy, hp, rfl, rfl⟩)

theorem nextDelim_inj {a b : Ts} (h : a.nextDelim = b.nextDelim) : a = b := by
  cases a; cases b
  simp only [Ts.nextDelim, Ts.mk.injEq] at h
  obtain ⟨h1, h2, h3, h4⟩ := h
  subst h1; subst h2; subst h3
  have : ‹Nat› = ‹Nat› := rfl
  simp only [Ts.mk.injEq, true_and]
  omega

/-- inversion at an operation's own timestamp -/
theorem IsPath.inv_ts {ops : List InsOp} (wf : OpsWF ops) {a : InsOp} (ha : a ∈ ops) {p : List Ts}
    (hp : IsPath ops a.ts p) :
    ∃ q, p = q ++ [a.ts] ∧ ((a.anchor = Ts.oldest ∧ q = []) ∨ IsPath ops a.anchor q) := by
  rcases hp.inv with ⟨o, ho, h1, h2, h3⟩ | ⟨o, ho, q, h1, h2, h3⟩ | ⟨o, ho, y, q, _, _, h2, _⟩
  · have : a = o := wf.uniq a ha o ho (by rw [h2])
    subst this
    exact ⟨[], by simpa using h3, Or.inl ⟨h1, rfl⟩⟩
  · have : a = o := wf.uniq a ha o ho (by rw [h2])
    subst this
    exact ⟨q, h3, Or.inr h1⟩
  · exfalso
    have := wf.delim0 a ha
    rw [h2] at this
    simp [Ts.nextDelim] at this

/-- a path is a function of the identity -/
theorem IsPath.unique {ops : List InsOp} (wf : OpsWF ops) {x : Ts} {p : List Ts}
    (hp : IsPath ops x p) : ∀ q, IsPath ops x q → p = q := by
  induction hp with
  | root o ho ha =>
    intro q hq
    obtain ⟨q', rfl, h | h⟩ := hq.inv_ts wf ho
    · rw [h.2]; rfl
    · rw [ha] at h; exact (h.not_oldest wf).elim
  | child o ho p hp ih =>
    intro q hq
    obtain ⟨q', rfl, h | h⟩ := hq.inv_ts wf ho
    · rw [h.1] at hp; exact (hp.not_oldest wf).elim
    · rw [ih q' h]
  | next o ho y hy hy' p hp ih =>
    intro q hq
    rcases hq.inv with ⟨o', ho', _, h2, _⟩ | ⟨o', ho', _, _, h2, _⟩ | ⟨o', ho', y', q', _, h1, h2, h3⟩
    · exfalso
      have := wf.delim0 o' ho'
      rw [← h2] at this
      simp [Ts.nextDelim] at this
    · exfalso
      have := wf.delim0 o' ho'
      rw [← h2] at this
      simp [Ts.nextDelim] at this
    · have : y = y' := nextDelim_inj h2
      subst this
      rw [h3, ih q' h1]

/-! ## the invariant and its preservation -/

/-- ghost forest over the identity list: sorted by path order, paths as prescribed by the operations,
    exactly the inserted identities, no duplicates -/
def RInv (ops : List InsOp) (ids : List Ts) : Prop :=
  ∃ G : List (Nd Ts), G.map Nd.key = ids ∧ TInv G ∧ (∀ n ∈ G, IsPath ops n.key n.path) ∧
    (∀ x, x ∈ ids ↔ ∃ o ∈ ops, x ∈ o.ids) ∧ ids.Nodup

/-- the model's batch loop on ghost nodes = one abstract `skipIns` followed by a child chain -/
theorem batch_inv (pre' post : List (Nd Ts)) (n0 : Nd Ts) (ts : List Ts)
    (hT : TInv (pre' ++ skipIns n0 post))
    (hfresh : ∀ x ∈ pre' ++ post, x.key.key ≠ n0.key.key)
    (hsame : ∀ t ∈ ts, t.key = n0.key.key)
    (hasc : (n0.key :: ts).Pairwise (· < ·)) :
    TInv (pre' ++ skipInsMany Nd.key (n0 :: chainNodes n0.path ts) post) := by
  have hs : ∀ m ∈ chainNodes n0.path ts, (Nd.key m).key = (Nd.key n0).key := by
    intro m hm
    have : m.key ∈ (chainNodes n0.path ts).map Nd.key := List.mem_map.mpr ⟨m, hm, rfl⟩
    rw [chainNodes_keys] at this
    exact hsame _ this
  obtain ⟨sk, rest, hpost, hsk, hrest, hres⟩ :=
    skipInsMany_spec Nd.key n0 (chainNodes n0.path ts) hs post
  have hsk' : ∀ x ∈ sk, n0.key < x.key := fun x hx => ts_lt_of_cmp_gt (hsk x hx)
  have hrest' : ∀ y, rest.head? = some y → y.key < n0.key := by
    intro y hy
    have hym : y ∈ post := by
      rw [hpost]; exact List.mem_append_right _ (List.mem_of_mem_head? hy)
    exact ts_lt_of_not_gt (hfresh y (by simp [hym])) (hrest y hy)
  have e : skipIns n0 post = sk ++ n0 :: rest := by
    rw [hpost]
    exact skipIns_eq n0 sk rest hsk' (fun y hy => not_lt.mpr (le_of_lt (hrest' y hy)))
  rw [e] at hT
  rw [hres]
  have hT' : TInv ((pre' ++ sk) ++ n0 :: rest) := by simpa [List.append_assoc] using hT
  have hfr : ∀ x ∈ (pre' ++ sk) ++ n0 :: rest, ∀ t ∈ ts, x.key ≠ t := by
    intro x hx t ht
    have hx' : x = n0 ∨ x ∈ pre' ++ post := by
      rw [hpost]
      simp only [List.mem_append, List.mem_cons] at hx ⊢
      tauto
    rcases hx' with rfl | hx'
    · exact ne_of_lt ((List.pairwise_cons.mp hasc).1 t ht)
    · intro heq
      exact hfresh x hx' (by rw [heq]; exact hsame t ht)
  have := chain_inv ts (pre' ++ sk) n0 rest hT' (fun y hy => le_of_lt (hrest' y hy)) hasc hfr
  simpa [List.append_assoc] using this

/-- the ghost nodes of a batch carry the prescribed paths -/
theorem chain_paths (ops : List InsOp) (o : InsOp) (ho : o ∈ ops) : ∀ (k : Nat) (t : Ts) (ap : List Ts),
    (∀ x ∈ delimSeq t (k + 1), x ∈ o.ids) → IsPath ops t (ap ++ [t]) →
    ∀ m ∈ chainNodes ap (delimSeq t (k + 1)), IsPath ops m.key m.path
  | 0, t, ap, _, hp => by
      intro m hm
      simp only [delimSeq, chainNodes, List.mem_singleton] at hm
      subst hm; exact hp
  | k + 1, t, ap, hin, hp => by
      intro m hm
      have e : delimSeq t (k + 2) = t :: delimSeq t.nextDelim (k + 1) := rfl
      rw [e] at hm hin
      simp only [chainNodes, List.mem_cons] at hm
      rcases hm with rfl | hm
      · exact hp
      · refine chain_paths ops o ho k t.nextDelim (ap ++ [t])
          (fun x hx => hin x (by simp [hx])) ?_ m hm
        exact .next o ho t (hin t (by simp)) (hin t.nextDelim (by simp [delimSeq])) (ap ++ [t]) hp

theorem rinv_step (ops : List InsOp) (o : InsOp) (wf : OpsWF (ops ++ [o])) (hne : o.vals ≠ [])
    (hfk : ∀ p ∈ ops, p.ts.key ≠ o.ts.key)
    (hanch : o.anchor = Ts.oldest ∨ ∃ p ∈ ops, o.anchor ∈ p.ids ∧ p.ts.cmp o.ts = .lt)
    (ids : List Ts) (h : RInv ops ids) :
    RInv (ops ++ [o]) ((insertAfterId id o.anchor o.ids ids).getD ids) := by
  obtain ⟨G, hG, hT, hP, hmem, hnd⟩ := h
  obtain ⟨k, hk⟩ : ∃ k, o.vals.length = k + 1 :=
    ⟨o.vals.length - 1, by have := List.length_pos_iff.mpr hne; omega⟩
  have hids : o.ids = o.ts :: delimSeq o.ts.nextDelim k := by
    unfold InsOp.ids; rw [hk]; rfl
  have hidsk : o.ids = delimSeq o.ts (k + 1) := by unfold InsOp.ids; rw [hk]
  generalize hts : delimSeq o.ts.nextDelim k = ts at hids
  have hfresh : ∀ x ∈ ids, x.key ≠ o.ts.key := by
    intro x hx
    obtain ⟨p, hp, hxp⟩ := (hmem x).mp hx
    rw [delimSeq_key hxp]; exact hfk p hp
  have hfreshG : ∀ n ∈ G, n.key.key ≠ o.ts.key :=
    fun n hn => hfresh n.key (hG ▸ List.mem_map.mpr ⟨n, hn, rfl⟩)
  have hsame : ∀ t ∈ ts, t.key = o.ts.key := by
    intro t ht
    rw [← hts] at ht
    exact delimSeq_key (ts := o.ts.nextDelim) ht
  have hasc : (o.ts :: ts).Pairwise (· < ·) := by
    have := delimSeq_sorted (k + 1) o.ts
    rw [← hts]; exact this
  have hsub : ∀ p ∈ ops, p ∈ ops ++ [o] := fun p hp => by simp [hp]
  have ho : o ∈ ops ++ [o] := by simp
  have core : ∃ ap G', insertAfterId Nd.key o.anchor (chainNodes ap (o.ts :: ts)) G = some G' ∧
      TInv G' ∧ IsPath (ops ++ [o]) o.ts (ap ++ [o.ts]) := by
    rcases hanch with ha | ⟨p, hp, hap, hlt⟩
    · refine ⟨[], _, by rw [ha]; exact insertAfterId_oldest _ _ _, ?_, .root o ho ha⟩
      have h1 := insHead_inv hT o.ts (fun x hx heq => hfreshG x hx (by rw [heq]))
      have := batch_inv [] G ⟨[], o.ts⟩ ts (by simpa using h1)
        (fun x hx => hfreshG x (by simpa using hx)) hsame hasc
      simpa [chainNodes, Nd.path] using this
    · have hak : o.anchor.key = p.ts.key := delimSeq_key hap
      have hane : o.anchor ≠ Ts.oldest := by
        intro e
        exact wf.notHead p (hsub p hp) (by rw [← hak, e])
      have hain : o.anchor ∈ ids := (hmem _).mpr ⟨p, hp, hap⟩
      rcases insertAfterId_go_spec Nd.key o.anchor (chainNodes [] (o.ts :: ts)) G with
        ⟨_, h2⟩ | ⟨pre, a, post, hsplit, hakey, _, _⟩
      · exfalso
        rw [← hG] at hain
        obtain ⟨n, hn, hnk⟩ := List.mem_map.mp hain
        exact h2 n hn hnk
      · have haG : a ∈ G := by rw [hsplit]; simp
        rcases insertAfterId_go_spec Nd.key o.anchor (chainNodes a.path (o.ts :: ts)) G with
          ⟨_, h2⟩ | ⟨pre', a', post', hsplit', hakey', hpre', hres'⟩
        · exact absurd hakey (h2 a haG)
        · refine ⟨a.path, _, by rw [insertAfterId_ne _ _ hane]; exact hres', ?_, ?_⟩
          · have ea : a' = a := by
              have hndG : (G.map Nd.key).Nodup := hG ▸ hnd
              rw [hsplit'] at haG hndG
              simp only [List.mem_append, List.mem_cons] at haG
              simp only [List.map_append, List.map_cons] at hndG
              have hnd2 := List.nodup_append.mp hndG
              have hnd3 := List.nodup_cons.mp hnd2.2.1
              rcases haG with h | h | h
              · exact absurd hakey (hpre' a h)
              · exact h.symm
              · exact absurd (List.mem_map.mpr ⟨a, h, hakey.trans hakey'.symm⟩) hnd3.1
            subst ea
            rw [hsplit'] at hT hfreshG
            have hle : a'.key ≤ o.ts := by
              rw [hakey']
              apply le_of_lt
              apply ts_lt_of_cmp_lt
              rw [cmp_congr_key o.anchor p.ts o.ts o.ts hak rfl]; exact hlt
            have h1 := insAfter_inv hT o.ts hle (fun x hx heq => hfreshG x hx (by rw [heq]))
            have := batch_inv (pre' ++ [a']) post' ⟨a'.path, o.ts⟩ ts
              (by simpa [List.append_assoc] using h1)
              (fun x hx => hfreshG x (by
                simp only [List.mem_append, List.mem_cons, List.not_mem_nil, or_false] at hx ⊢
                tauto))
              hsame hasc
            simpa [chainNodes, Nd.path, List.append_assoc] using this
          · exact .child o ho a.path ((hakey ▸ hP a haG).mono hsub)
  obtain ⟨ap, G', hins, hT', hp0⟩ := core
  have hkeys : (chainNodes ap (o.ts :: ts)).map Nd.key = o.ids := by rw [chainNodes_keys, hids]
  have hmap := insertAfterId_map Nd.key id Nd.key (fun _ => rfl) o.anchor (chainNodes ap (o.ts :: ts)) G
  rw [hins, hkeys, hG] at hmap
  simp only [Option.map_some] at hmap
  rw [← hmap]
  simp only [Option.getD_some]
  have hperm := insertAfterId_perm id o.anchor o.ids ids _ hmap.symm
  have hpermG := insertAfterId_perm Nd.key o.anchor _ G G' hins
  refine ⟨G', rfl, hT', ?_, ?_, ?_⟩
  · intro n hn
    rcases List.mem_append.mp (hpermG.subset hn) with hn | hn
    · rw [hids, ← hts] at hidsk
      have hcp := chain_paths (ops ++ [o]) o ho k o.ts ap (fun x hx => by
        unfold InsOp.ids; rw [hk]; exact hx) hp0
      have e : delimSeq o.ts (k + 1) = o.ts :: ts := by rw [← hts]; rfl
      rw [e] at hcp
      exact hcp n hn
    · exact (hP n hn).mono hsub
  · intro x
    rw [hperm.mem_iff, List.mem_append, hmem x]
    constructor
    · rintro (h | ⟨p, hp, hx⟩)
      · exact ⟨o, ho, h⟩
      · exact ⟨p, hsub p hp, hx⟩
    · rintro ⟨p, hp, hx⟩
      rcases List.mem_append.mp hp with hp | hp
      · exact Or.inr ⟨p, hp, hx⟩
      · simp only [List.mem_singleton] at hp
        subst hp; exact Or.inl hx
  · rw [hperm.nodup_iff]
    refine List.nodup_append.mpr ⟨by unfold InsOp.ids; exact delimSeq_nodup _ _, hnd, ?_⟩
    intro a ha b hb heq
    subst heq
    exact hfresh a hb (delimSeq_key ha)

/-! ## causal histories -/

/-- well-formed histories of inserts: timestamps have delimiter 0, distinct operations have distinct
    `Ts.key`s, none is the head's, each anchor is the head or an element inserted EARLIER in the
    sequence, and an operation is newer than the operation that inserted its anchor (causality:
    a client can only anchor at an element it has seen, and its clock is then ahead of it) -/
structure InsCausal (ops : List InsOp) : Prop where
  delim0 : ∀ o ∈ ops, o.ts.delim = 0
  nonempty : ∀ o ∈ ops, o.vals ≠ []
  notHead : ∀ o ∈ ops, o.ts.key ≠ Ts.oldest.key
  distinct : ops.Pairwise (fun a b => a.ts.key ≠ b.ts.key)
  anchored : ∀ i (hi : i < ops.length), (ops[i]).anchor = Ts.oldest ∨
      ∃ j, ∃ hj : j < i, (ops[i]).anchor ∈ (ops[j]'(by omega)).ids ∧
        (ops[j]'(by omega)).ts.cmp (ops[i]).ts = .lt

theorem pairwise_mem_cases {α : Type} {R : α → α → Prop} : ∀ {l : List α}, l.Pairwise R →
    ∀ {a b : α}, a ∈ l → b ∈ l → a = b ∨ R a b ∨ R b a
  | [], _, _, _, ha, _ => by simp at ha
  | x :: xs, h, a, b, ha, hb => by
      obtain ⟨h1, h2⟩ := List.pairwise_cons.mp h
      rcases List.mem_cons.mp ha with ha' | ha'
      · rcases List.mem_cons.mp hb with hb' | hb'
        · exact Or.inl (ha'.trans hb'.symm)
        · exact Or.inr (Or.inl (ha' ▸ h1 b hb'))
      · rcases List.mem_cons.mp hb with hb' | hb'
        · exact Or.inr (Or.inr (hb' ▸ h1 a ha'))
        · exact pairwise_mem_cases h2 ha' hb'

theorem InsCausal.wf {ops : List InsOp} (h : InsCausal ops) : OpsWF ops where
  delim0 := h.delim0
  notHead := h.notHead
  uniq := by
    intro a ha b hb hk
    rcases pairwise_mem_cases h.distinct ha hb with e | e | e
    · exact e
    · exact absurd hk e
    · exact absurd hk.symm e

theorem OpsWF.perm {ops ops' : List InsOp} (hp : ops.Perm ops') (h : OpsWF ops) : OpsWF ops' where
  delim0 := fun o ho => h.delim0 o (hp.mem_iff.mpr ho)
  notHead := fun o ho => h.notHead o (hp.mem_iff.mpr ho)
  uniq := fun a ha b hb => h.uniq a (hp.mem_iff.mpr ha) b (hp.mem_iff.mpr hb)

theorem InsCausal.init {ops : List InsOp} {o : InsOp} (h : InsCausal (ops ++ [o])) :
    InsCausal ops where
  delim0 := fun p hp => h.delim0 p (by simp [hp])
  nonempty := fun p hp => h.nonempty p (by simp [hp])
  notHead := fun p hp => h.notHead p (by simp [hp])
  distinct := (List.pairwise_append.mp h.distinct).1
  anchored := by
    intro i hi
    have := h.anchored i (by simp; omega)
    rcases this with h1 | ⟨j, hj, h2, h3⟩
    · left
      rw [List.getElem_append_left hi] at h1
      exact h1
    · right
      have hjl : j < ops.length := by omega
      refine ⟨j, hj, ?_, ?_⟩
      · rw [List.getElem_append_left hi, List.getElem_append_left hjl] at h2
        exact h2
      · rw [List.getElem_append_left hi, List.getElem_append_left hjl] at h3
        exact h3

theorem InsCausal.last {ops : List InsOp} {o : InsOp} (h : InsCausal (ops ++ [o])) :
    (∀ p ∈ ops, p.ts.key ≠ o.ts.key) ∧
    (o.anchor = Ts.oldest ∨ ∃ p ∈ ops, o.anchor ∈ p.ids ∧ p.ts.cmp o.ts = .lt) := by
  constructor
  · intro p hp
    exact (List.pairwise_append.mp h.distinct).2.2 p hp o (by simp)
  · have := h.anchored ops.length (by simp)
    have e : (ops ++ [o])[ops.length]'(by simp) = o := by simp
    rcases this with h1 | ⟨j, hj, h2, h3⟩
    · left; rw [e] at h1; exact h1
    · right
      rw [e] at h2 h3
      rw [List.getElem_append_left hj] at h2 h3
      exact ⟨ops[j], List.getElem_mem hj, h2, h3⟩

theorem rinv_all : ∀ ops : List InsOp, InsCausal ops → RInv ops (Rga.empty.applyAllIns ops).ids := by
  intro ops
  induction ops using List.reverseRecOn with
  | nil =>
    intro _
    exact ⟨[], rfl, TInv.nil, by simp, by simp [Rga.applyAllIns, Rga.empty, Rga.ids],
      List.nodup_nil⟩
  | append_singleton l o ih =>
    intro hc
    have h := ih hc.init
    obtain ⟨hfk, hanch⟩ := hc.last
    have e : Rga.empty.applyAllIns (l ++ [o]) = (Rga.empty.applyAllIns l).applyIns o := by
      simp [Rga.applyAllIns, List.foldl_append]
    rw [e, applyIns_ids]
    exact rinv_step l o hc.wf (hc.nonempty o (by simp)) hfk hanch _ h

/-! ## convergence -/

/-- the order in which identities must appear, a function of the operation set only -/
def POrd (ops : List InsOp) (x y : Ts) : Prop :=
  ∃ p q, IsPath ops x p ∧ IsPath ops y q ∧ plt p q

theorem POrd.asymm {ops : List InsOp} (wf : OpsWF ops) {x y : Ts} (h1 : POrd ops x y)
    (h2 : POrd ops y x) : False := by
  obtain ⟨p, q, hp, hq, hpq⟩ := h1
  obtain ⟨q', p', hq', hp', hqp⟩ := h2
  rw [← hp.unique wf p' hp', ← hq.unique wf q' hq'] at hqp
  exact plt_asymm hpq hqp

theorem POrd.irrefl {ops : List InsOp} (wf : OpsWF ops) {x : Ts} (h : POrd ops x x) : False :=
  POrd.asymm wf h h

theorem RInv.sorted {ops : List InsOp} {ids : List Ts} (h : RInv ops ids) :
    ids.Pairwise (POrd ops) := by
  obtain ⟨G, hG, hT, hP, _, _⟩ := h
  rw [← hG, List.pairwise_map]
  exact hT.sorted.imp_of_mem (fun {a b} ha hb hab => ⟨a.path, b.path, hP a ha, hP b hb, hab⟩)

/-- P4 (C01/C04, the convergence theorem): two replicas that applied the same insert operations, each in
    a causal order, hold the same sequence of elements -/
theorem rga_converge (ops ops' : List InsOp) (hp : ops.Perm ops')
    (hc : InsCausal ops) (hc' : InsCausal ops') :
    (Rga.empty.applyAllIns ops).ids = (Rga.empty.applyAllIns ops').ids := by
  have h1 := rinv_all ops hc
  have h2 := rinv_all ops' hc'
  have s1 := h1.sorted
  have s2 : (Rga.empty.applyAllIns ops').ids.Pairwise (POrd ops) :=
    h2.sorted.imp (fun {a b} ⟨p, q, hp1, hq1, hpq⟩ =>
      ⟨p, q, hp1.mono (fun o ho => hp.mem_iff.mpr ho), hq1.mono (fun o ho => hp.mem_iff.mpr ho), hpq⟩)
  obtain ⟨_, _, _, _, m1, n1⟩ := h1
  obtain ⟨_, _, _, _, m2, n2⟩ := h2
  have hperm : (Rga.empty.applyAllIns ops).ids.Perm (Rga.empty.applyAllIns ops').ids := by
    rw [List.perm_ext_iff_of_nodup n1 n2]
    intro x
    rw [m1 x, m2 x]
    constructor
    · rintro ⟨o, ho, hx⟩; exact ⟨o, hp.mem_iff.mp ho, hx⟩
    · rintro ⟨o, ho, hx⟩; exact ⟨o, hp.mem_iff.mpr ho, hx⟩
  exact List.Perm.eq_of_pairwise (fun a b _ _ hab hba => (POrd.asymm hc.wf hab hba).elim) s1 s2 hperm

theorem pairwise_split {α : Type} {R : α → α → Prop} (hirr : ∀ x, ¬ R x x)
    (hasym : ∀ x y, R x y → R y x → False) {l : List α} (hl : l.Pairwise R) {x y : α}
    (hx : x ∈ l) (hy : y ∈ l) (hxy : R x y) : ∃ l1 l2 l3, l = l1 ++ x :: l2 ++ y :: l3 := by
  obtain ⟨l1, r, rfl⟩ := List.append_of_mem hx
  obtain ⟨_, h2, h3⟩ := List.pairwise_append.mp hl
  rcases List.mem_append.mp hy with hy | hy
  · exact (hasym x y hxy (h3 y hy x (by simp))).elim
  · rcases List.mem_cons.mp hy with rfl | hy
    · exact (hirr _ hxy).elim
    · obtain ⟨l2, l3, rfl⟩ := List.append_of_mem hy
      exact ⟨l1, l2, l3, by simp⟩

theorem InsOp.ts_mem_ids {o : InsOp} (h : o.vals ≠ []) : o.ts ∈ o.ids := by
  unfold InsOp.ids
  cases hv : o.vals with
  | nil => exact absurd hv h
  | cons v vs => simp [delimSeq]

/-- P5 (C02: siblings newest first): two elements inserted by different operations with the SAME anchor
    appear in descending timestamp order -/
theorem rga_siblings_newest_first (ops : List InsOp) (hc : InsCausal ops) (a b : InsOp)
    (ha : a ∈ ops) (hb : b ∈ ops) (hanch : a.anchor = b.anchor) (hlt : a.ts.cmp b.ts = .lt) :
    ∃ l1 l2 l3, (Rga.empty.applyAllIns ops).ids = l1 ++ b.ts :: l2 ++ a.ts :: l3 := by
  have wf := hc.wf
  have hinv := rinv_all ops hc
  have hs := hinv.sorted
  obtain ⟨G, hG, _, hP, hmem, _⟩ := hinv
  have hain : a.ts ∈ (Rga.empty.applyAllIns ops).ids :=
    (hmem _).mpr ⟨a, ha, InsOp.ts_mem_ids (hc.nonempty a ha)⟩
  have hbin : b.ts ∈ (Rga.empty.applyAllIns ops).ids :=
    (hmem _).mpr ⟨b, hb, InsOp.ts_mem_ids (hc.nonempty b hb)⟩
  have hpa : ∃ p, IsPath ops a.ts p := by
    rw [← hG] at hain
    obtain ⟨n, hn, hnk⟩ := List.mem_map.mp hain
    exact ⟨n.path, hnk ▸ hP n hn⟩
  have hpb : ∃ p, IsPath ops b.ts p := by
    rw [← hG] at hbin
    obtain ⟨n, hn, hnk⟩ := List.mem_map.mp hbin
    exact ⟨n.path, hnk ▸ hP n hn⟩
  obtain ⟨pa, hpa⟩ := hpa
  obtain ⟨pb, hpb⟩ := hpb
  obtain ⟨qa, rfl, hqa⟩ := hpa.inv_ts wf ha
  obtain ⟨qb, rfl, hqb⟩ := hpb.inv_ts wf hb
  have hq : qa = qb := by
    rcases hqa with ⟨h1, rfl⟩ | h1
    · rcases hqb with ⟨_, rfl⟩ | h2
      · rfl
      · rw [← hanch, h1] at h2; exact (h2.not_oldest wf).elim
    · rcases hqb with ⟨h2, rfl⟩ | h2
      · rw [hanch, h2] at h1; exact (h1.not_oldest wf).elim
      · rw [hanch] at h1; exact h1.unique wf qb h2
  subst hq
  have hord : POrd ops b.ts a.ts :=
    ⟨_, _, hpb, hpa, plt_sibling qa (ts_lt_of_cmp_lt hlt)⟩
  exact pairwise_split (fun x h => POrd.irrefl wf h) (fun x y h1 h2 => POrd.asymm wf h1 h2)
    hs hbin hain hord

/-- P6 (C04): no element is duplicated -/
theorem rga_ids_nodup (ops : List InsOp) (hc : InsCausal ops) : (Rga.empty.applyAllIns ops).ids.Nodup := by
  obtain ⟨_, _, _, _, _, h⟩ := rinv_all ops hc
  exact h

/-- the head's identity is never an element's -/
theorem rga_no_head (ops : List InsOp) (hc : InsCausal ops) :
    Ts.oldest ∉ (Rga.empty.applyAllIns ops).ids := by
  obtain ⟨_, _, _, _, hmem, _⟩ := rinv_all ops hc
  intro h
  obtain ⟨o, ho, hx⟩ := (hmem _).mp h
  exact hc.notHead o ho (delimSeq_key hx).symm

/-- P3 in the states reached by causal insert histories: the two extra hypotheses of
    `insertLocal_eq_insertRemote_partial` are discharged by P6 and `rga_no_head`
    (deletes and updates do not change identities: P7) -/
theorem insertLocal_eq_insertRemote_reachable (ops : List InsOp) (hc : InsCausal ops)
    (pos : Nat) (ts : Ts) (vs : List JVal) (a : Ts) (s' : Rga)
    (hnew : ∀ n ∈ (Rga.empty.applyAllIns ops).nodes, n.o.cmp ts = .lt)
    (h : (Rga.empty.applyAllIns ops).insertLocal pos ts vs = .ok (s', a)) :
    (Rga.empty.applyAllIns ops).insertRemote a ts vs = .ok s' :=
  insertLocal_eq_insertRemote_partial _ pos ts vs a s' (rga_ids_nodup ops hc) (rga_no_head ops hc) hnew h

/-! ## non-vacuity: a concrete causal history (a batch of three, two concurrent siblings) -/

example : InsCausal
    [⟨Ts.oldest, ⟨0, 1, "a", 0⟩, [.num 1, .num 2, .num 3]⟩,
     ⟨⟨0, 1, "a", 1⟩, ⟨0, 2, "b", 0⟩, [.num 10, .num 11]⟩,
     ⟨⟨0, 1, "a", 1⟩, ⟨0, 2, "c", 0⟩, [.num 20]⟩] where
  delim0 := by intro o ho; simp at ho; rcases ho with rfl | rfl | rfl <;> rfl
  nonempty := by intro o ho; simp at ho; rcases ho with rfl | rfl | rfl <;> simp
  notHead := by intro o ho; simp at ho; rcases ho with rfl | rfl | rfl <;> decide
  distinct := by simp [Ts.key]
  anchored := by
    intro i hi
    simp at hi
    match i, hi with
    | 0, _ => left; rfl
    | 1, _ => right; exact ⟨0, by omega, by simp [InsOp.ids, delimSeq, Ts.nextDelim], by simp; decide⟩
    | 2, _ => right; exact ⟨0, by omega, by simp [InsOp.ids, delimSeq, Ts.nextDelim], by simp; decide⟩

end Orda
