/-
C19 (document half): `Replica.patchByJSON` brings a single-replica document to exactly the target JSON.
All lemmas live in namespace `Orda.DPatch`.

Contents
* 1. values: `canon` keeps null-freeness, canonical values have no duplicate keys, the values carried by the
  operations of `jdiff` are sub-values of the target (`carried`, for any predicate closed under sub-values).
* 2. paths: a string path that `getAt` can walk in the canonical view is walked by `Doc.resolve` to a node that
  `Doc.locate` finds at the corresponding `PlainDoc.Seg` path (`resolve_getAt`), and `setAt` is `PlainDoc.replace`.
* 3. one operation: `callOf` (the call `patchCall` builds, decided on the plain subtree), `step_of_apply` (the plain
  tree's reaction to that call is `applyAt`), `patchCall_eq`.
* 4. one operation on the replica: `exec_step` (prepare + execLocal, invariant, view).
* 5. `Replica.patch`: no / one / several operations (`patch_nil`, `patch_one`, `body_run`, `patch_many`).
* 6. the theorems asked for and a non-vacuity example.
-/
import Orda.Proofs.DocPlain
import Orda.Proofs.PatchDiff
import Std.Data.String.ToInt
namespace Orda.DPatch
open Orda DC

/-! ## 1. values -/

theorem hasNullKvs_iff : ∀ kvs : List (String × JVal), JVal.hasNullKvs kvs = false ↔ ∀ x ∈ kvs, x.2.hasNull = false
  | [] => by simp [JVal.hasNullKvs]
  | (k, v) :: r => by simp [JVal.hasNullKvs, hasNullKvs_iff r]

mutual
theorem hasNull_canon : ∀ v : JVal, v.hasNull = false → v.canon.hasNull = false
  | .null, h => by simp [JVal.hasNull] at h
  | .bool _, _ => by simp [JVal.canon, JVal.hasNull]
  | .num _, _ => by simp [JVal.canon, JVal.hasNull]
  | .str _, _ => by simp [JVal.canon, JVal.hasNull]
  | .arr l, h => by
    simp only [JVal.hasNull] at h
    simp only [JVal.canon, JVal.hasNull]
    exact hasNull_canonList l h
  | .obj kvs, h => by
    simp only [JVal.hasNull] at h
    simp only [JVal.canon, JVal.hasNull]
    exact hasNull_canonKvs kvs h
theorem hasNull_canonList : ∀ l : List JVal, JVal.hasNullList l = false → JVal.hasNullList (JVal.canonList l) = false
  | [], _ => by simp [JVal.canonList, JVal.hasNullList]
  | v :: vs, h => by
    simp only [JVal.hasNullList, Bool.or_eq_false_iff] at h
    simp only [JVal.canonList, JVal.hasNullList, Bool.or_eq_false_iff]
    exact ⟨hasNull_canon v h.1, hasNull_canonList vs h.2⟩
theorem hasNull_canonKvs : ∀ kvs : List (String × JVal), JVal.hasNullKvs kvs = false →
    JVal.hasNullKvs (JVal.canonKvs kvs) = false
  | [], _ => by simp [JVal.canonKvs, JVal.hasNullKvs]
  | (k, v) :: r, h => by
    simp only [JVal.hasNullKvs, Bool.or_eq_false_iff] at h
    simp only [JVal.canonKvs]
    have ih := hasNull_canonKvs r h.2
    rw [hasNullKvs_iff] at ih ⊢
    intro x hx
    rcases PD.mem_objPut hx with hx | hx
    · rw [hx]; exact hasNull_canon v h.1
    · exact ih x hx
end

theorem nodup_of_sorted : ∀ l : List String, l.Pairwise (· < ·) → l.Nodup
  | [], _ => List.nodup_nil
  | a :: r, h => by
    rw [List.pairwise_cons] at h
    rw [List.nodup_cons]
    exact ⟨fun hm => String.lt_irrefl a (h.1 a hm), nodup_of_sorted r h.2⟩

mutual
theorem jkeys_of_canonical : ∀ v : JVal, v.Canonical → JKeysND v
  | .null, _ => by simp [JKeysND]
  | .bool _, _ => by simp [JKeysND]
  | .num _, _ => by simp [JKeysND]
  | .str _, _ => by simp [JKeysND]
  | .arr l, h => by
    simp only [JVal.Canonical] at h
    simp only [JKeysND]
    exact jkeysList_of_canonical l h
  | .obj kvs, h => by
    simp only [JVal.Canonical] at h
    simp only [JKeysND]
    exact ⟨nodup_of_sorted _ h.2, jkeysKvs_of_canonical kvs h.1⟩
theorem jkeysList_of_canonical : ∀ l : List JVal, JVal.CanonicalList l → JKeysNDList l
  | [], _ => by simp [JKeysNDList]
  | v :: vs, h => by
    simp only [JVal.CanonicalList] at h
    simp only [JKeysNDList]
    exact ⟨jkeys_of_canonical v h.1, jkeysList_of_canonical vs h.2⟩
theorem jkeysKvs_of_canonical : ∀ kvs : List (String × JVal), JVal.CanonicalKvs kvs → JKeysNDKvs kvs
  | [], _ => by simp [JKeysNDKvs]
  | (k, v) :: r, h => by
    simp only [JVal.CanonicalKvs] at h
    simp only [JKeysNDKvs]
    exact ⟨jkeys_of_canonical v h.1, jkeysKvs_of_canonical r h.2⟩
end

/-- what an operation carries satisfies `P` -/
def Carr (P : JVal → Prop) (op : PatchOp) : Prop :=
  match op with
  | .add _ v => P v
  | .replace _ v => P v
  | .remove _ => True

/-- a predicate on values that passes to the members of arrays and objects -/
structure SubClosed (P : JVal → Prop) : Prop where
  arr : ∀ l, P (.arr l) → ∀ v ∈ l, P v
  obj : ∀ kvs, P (.obj kvs) → ∀ x ∈ kvs, P x.2

section carried
variable {P : JVal → Prop} (hP : SubClosed P)

def W1 (P : JVal → Prop) (fuel : Nat) : Prop :=
  ∀ (p : List String) (s t : JVal), P t → ∀ op ∈ jdiff fuel p s t, Carr P op
def W2 (P : JVal → Prop) (fuel : Nat) : Prop :=
  ∀ (p : List String) (i : Nat) (ss ts : List JVal), (∀ v ∈ ts, P v) → ∀ op ∈ jdiffArr fuel p i ss ts, Carr P op
def W3 (P : JVal → Prop) (fuel : Nat) : Prop :=
  ∀ (p : List String) (ss ts : List (String × JVal)), (∀ x ∈ ts, P x.2) → ∀ op ∈ jdiffObj fuel p ss ts, Carr P op

include hP in
theorem wstep1 (fuel : Nat) (h2 : W2 P fuel) (h3 : W3 P fuel) : W1 P (fuel + 1) := by
  intro p s t ht op hop
  by_cases hA : ∃ a b, s = .arr a ∧ t = .arr b
  · obtain ⟨a, b, rfl, rfl⟩ := hA
    rw [jdiff.eq_2] at hop
    have hb := hP.arr b ht
    split at hop
    · cases hop
    · rcases List.mem_append.mp hop with hop | hop
      · rcases List.mem_append.mp hop with hop | hop
        · rw [List.eq_of_mem_replicate hop]; trivial
        · exact h2 p 0 _ _ (fun v hv => hb v (List.mem_of_mem_take hv)) op hop
      · obtain ⟨v, hv, rfl⟩ := List.mem_map.mp hop
        exact hb v (List.mem_of_mem_drop hv)
  by_cases hO : ∃ a b, s = .obj a ∧ t = .obj b
  · obtain ⟨a, b, rfl, rfl⟩ := hO
    rw [jdiff.eq_3] at hop
    split at hop
    · cases hop
    · exact h3 p a b (hP.obj b ht) op hop
  rw [jdiff.eq_4 p s t fuel (fun a b h1 h2 => hA ⟨a, b, h1, h2⟩) (fun a b h1 h2 => hO ⟨a, b, h1, h2⟩)] at hop
  split at hop
  · split at hop
    · simp only [List.mem_singleton] at hop; subst hop; exact ht
    · simp only [List.mem_singleton] at hop; subst hop; exact ht
  · split at hop
    · cases hop
    · simp only [List.mem_singleton] at hop; subst hop; exact ht

theorem wstep2 (fuel : Nat) (h1 : W1 P fuel) (h2 : W2 P fuel) : W2 P (fuel + 1) := by
  intro p i ss ts ht op hop
  match ss, ts with
  | s :: ss, t :: ts =>
    rw [jdiffArr.eq_2] at hop
    rcases List.mem_append.mp hop with hop | hop
    · exact h1 _ s t (ht t (by simp)) op hop
    · exact h2 p (i + 1) ss ts (fun v hv => ht v (by simp [hv])) op hop
  | [], _ => simp [jdiffArr] at hop
  | _ :: _, [] => simp [jdiffArr] at hop

theorem wstep3 (fuel : Nat) (h1 : W1 P fuel) (h3 : W3 P fuel) : W3 P (fuel + 1) := by
  intro p ss ts ht op hop
  match ss, ts with
  | [], [] => simp [jdiffObj] at hop
  | [], (k, t) :: ts =>
    rw [jdiffObj.eq_3] at hop
    rcases List.mem_cons.mp hop with hop | hop
    · subst hop; exact ht (k, t) (by simp)
    · exact h3 p [] ts (fun x hx => ht x (by simp [hx])) op hop
  | (k, s) :: ss, [] =>
    rw [jdiffObj.eq_4] at hop
    rcases List.mem_cons.mp hop with hop | hop
    · subst hop; trivial
    · exact h3 p ss [] ht op hop
  | (k, s) :: ss, (k', t) :: ts =>
    rw [jdiffObj.eq_5] at hop
    have ht1 : P t := ht (k', t) (by simp)
    have ht2 : ∀ x ∈ ts, P x.2 := fun x hx => ht x (by simp [hx])
    split at hop
    · rcases List.mem_append.mp hop with hop | hop
      · exact h1 _ s t ht1 op hop
      · exact h3 p ss ts ht2 op hop
    · split at hop
      · rcases List.mem_cons.mp hop with hop | hop
        · subst hop; trivial
        · exact h3 p ss _ ht op hop
      · rcases List.mem_cons.mp hop with hop | hop
        · subst hop; exact ht1
        · exact h3 p _ ts ht2 op hop

include hP in
theorem wmain : ∀ fuel, W1 P fuel ∧ W2 P fuel ∧ W3 P fuel
  | 0 => by
    refine ⟨?_, ?_, ?_⟩
    · intro p s t _ op hop; simp [jdiff] at hop
    · intro p i ss ts _ op hop; simp [jdiffArr] at hop
    · intro p ss ts _ op hop; simp [jdiffObj] at hop
  | fuel + 1 => by
    obtain ⟨h1, h2, h3⟩ := wmain fuel
    exact ⟨wstep1 hP fuel h2 h3, wstep2 fuel h1 h2, wstep3 fuel h1 h3⟩

include hP in
/-- the values carried by the generated operations are sub-values of the target -/
theorem carried (src tgt : JVal) (h : P tgt) : ∀ op ∈ jsonDiff src tgt, Carr P op :=
  fun op hop => (wmain hP _).1 [] src tgt h op hop

end carried

/-- the values a patch operation may carry here: no null, canonical -/
def GoodV (v : JVal) : Prop := v.hasNull = false ∧ v.Canonical

theorem goodV_subClosed : SubClosed GoodV := by
  constructor
  · intro l h v hv
    obtain ⟨h1, h2⟩ := h
    simp only [JVal.hasNull] at h1
    simp only [JVal.Canonical] at h2
    exact ⟨(PD.hasNullList_iff l).mp h1 v hv, (PD.canonicalList_iff l).mp h2 v hv⟩
  · intro kvs h x hx
    obtain ⟨h1, h2⟩ := h
    simp only [JVal.hasNull] at h1
    simp only [JVal.Canonical] at h2
    exact ⟨(hasNullKvs_iff kvs).mp h1 x hx, (PD.canonicalKvs_iff kvs).mp h2.1 x hx⟩

/-! ## 2. paths -/

/-- a node that is in the table and has no tombstone on its way to the root -/
def Alive (d : Doc) (c : Ts) : Prop := (∀ f, d.isGarbage f c = false) ∧ (d.find c).isSome

theorem alive_root {L : OpId} {b : Nat} {d : Doc} (I : DP.DInv L b d) : Alive d Ts.oldest := DP.root_live I

theorem alive_kid {L : OpId} {b : Nat} {d : Doc} (I : DP.DInv L b d) {cur ch : Ts} {n : DNode} (ha : Alive d cur)
    (hn : d.find cur = some n) (hch : ch ∈ kids n.kind) (hlive : d.isTomb ch = false) :
    Alive d ch ∧ d.garbage ch = false := by
  obtain ⟨nc, hnc, hpar⟩ := I.wf.child cur n hn ch hch
  have hg : ∀ f, d.isGarbage f ch = false := by
    intro f
    cases f with
    | zero => rfl
    | succ f =>
      have : nc.d.isSome = false := by simpa [Doc.isTomb, hnc] using hlive
      simp [Doc.isGarbage, hnc, this, hpar, ha.1 f]
  exact ⟨⟨hg, by simp [hnc]⟩, hg _⟩

theorem alive_located {L : OpId} {b : Nat} {d : Doc} (I : DP.DInv L b d) {π : List PlainDoc.Seg} {hd : Ts}
    (h : d.locate π Ts.oldest = some hd) : Alive d hd :=
  DP.located_live I π Ts.oldest h (DP.root_live I).1 (DP.root_live I).2

theorem replace_arr {new : JVal} {r : List PlainDoc.Seg} {l : List JVal} {i : Nat} {c : JVal} (hc : l[i]? = some c) :
    (PlainDoc.replace new r c).map (fun c' => JVal.arr (l.take i ++ [c'] ++ l.drop (i + 1))) =
      (PlainDoc.replace new r c).map (fun c' => JVal.arr (l.set i c')) := by
  have hl := PD.getElem?_lt hc
  cases PlainDoc.replace new r c with
  | none => rfl
  | some c' => simp only [Option.map_some, PD.upd_eq_set l i c' hl]

/-- a string path that the plain tree can walk is walked by `resolve` to the node `locate` finds -/
theorem resolve_getAt {L : OpId} {b : Nat} {d : Doc} (I : DP.DInv L b d) (hk : KeysND d) :
    ∀ (p : List String) (cur : Ts) (s : JVal), Alive d cur → PD.getAt p (d.viewAt cur).canon = some s →
    ∃ π hd, d.locate π cur = some hd ∧ d.resolve p cur = .ok hd ∧ (d.viewAt hd).canon = s ∧
      ∀ new, PD.setAt new p (d.viewAt cur).canon = PlainDoc.replace new π (d.viewAt cur).canon := by
  have hg := I.dg hk
  intro p
  induction p with
  | nil =>
    intro cur s _ h
    simp only [PD.getAt, Option.some.injEq] at h
    exact ⟨[], cur, rfl, rfl, h, fun new => rfl⟩
  | cons k rest ih =>
    intro cur s ha h
    obtain ⟨n, hn⟩ := Option.isSome_iff_exists.mp ha.2
    cases hkind : n.kind with
    | elem v =>
      obtain ⟨e1, e2, e3⟩ := DP.shape_elem I hn hkind
      rw [e1] at h
      cases v <;> first | (simp [PD.getAt] at h; done) | (exfalso; exact e2 _ rfl) | (exfalso; exact e3 _ rfl)
    | obj m sz =>
      have hv := DP.shape_obj hg hn hkind
      rw [hv] at h ⊢
      simp only [PD.getAt] at h
      split at h
      · rename_i c hc
        rw [alFind_canonKvs, DP.objView_find (hk cur n m sz hn hkind)] at hc
        cases hm : alFind k m with
        | none => simp [hm] at hc
        | some ch =>
          rw [hm] at hc
          simp only [Option.bind_some] at hc
          by_cases ht : d.isTomb ch = true
          · simp [ht] at hc
          · have ht' : d.isTomb ch = false := by simpa using ht
            simp only [ht', Bool.false_eq_true, if_false, Option.map_some, Option.some.injEq] at hc
            obtain ⟨hal, hgb⟩ := alive_kid I ha hn (by rw [hkind]; exact alFind_mem_vals hm) ht'
            rw [← hc] at h
            obtain ⟨π, hd, q1, q2, q3, q4⟩ := ih ch s hal h
            refine ⟨.key k :: π, hd, ?_, ?_, q3, ?_⟩
            · simp only [Doc.locate, findObj_some_iff.mpr ⟨hn, hkind⟩, hm, ht', Bool.false_eq_true, if_false]
              exact q1
            · simp only [Doc.resolve, hn, hkind, hm, hgb, Bool.false_eq_true, if_false]
              exact q2
            · intro new
              have hc' : alFind k (JVal.canonKvs (DP.objView d m)) = some (d.viewAt ch).canon := by
                rw [alFind_canonKvs, DP.objView_find (hk cur n m sz hn hkind), hm]
                simp [ht']
              simp only [PD.setAt, PlainDoc.replace, hc', q4 new]
      · cases h
    | arr sl sz =>
      have hv := DP.shape_arr hg hn hkind
      rw [hv] at h ⊢
      simp only [PD.getAt] at h
      split at h
      · rename_i i hi
        split at h
        · rename_i c hc
          rw [DP.arrView_eq] at hc
          simp only [List.getElem?_map, Option.map_map] at hc
          cases hx : (sl.filter (slotLive d))[i]? with
          | none => simp [hx] at hc
          | some x =>
            have hch : ((sl.filter (slotLive d)).map (·.2))[i]? = some x.2 := by simp [hx]
            have hc2 : c = (d.viewAt x.2).canon := by
              rw [hx] at hc
              simpa using hc.symm
            generalize x.2 = ch at hch hc2
            obtain ⟨hmem, ht'⟩ := DP.mem_of_getElem?_filter hch
            obtain ⟨hal, hgb⟩ := alive_kid I ha hn (by rw [hkind]; exact hmem) ht'
            rw [hc2] at h
            obtain ⟨π, hd, q1, q2, q3, q4⟩ := ih ch s hal h
            have hlc := DP.liveChildren_eq hn hkind
            refine ⟨.idx i :: π, hd, ?_, ?_, q3, ?_⟩
            · simp only [Doc.locate, DA.findArr_some_iff.mpr ⟨hn, hkind⟩, hlc, hch]
              exact q1
            · have hint := String.toInt?_eq_some_of_toNat?_eq_some hi
              simp only [Doc.resolve, hn, hkind, hint, hlc]
              have : ¬ ((i : Int) < 0) := by omega
              simp only [this, if_false, Int.toNat_natCast, hch, hgb, Bool.false_eq_true]
              exact q2
            · intro new
              have hc' : ((DP.arrView d sl).map JVal.canon)[i]? = some (d.viewAt ch).canon := by
                rw [DP.arrView_eq]
                simp only [List.getElem?_map] at hch ⊢
                simp [hch]
              simp only [PD.setAt, PlainDoc.replace, hi, hc', q4 new]
              exact replace_arr hc'
        · cases h
      · cases h

/-- at the root -/
theorem resolve_root {L : OpId} {b : Nat} {d : Doc} (I : DP.DInv L b d) (hk : KeysND d) (p : List String) (s : JVal)
    (h : PD.getAt p d.view.canon = some s) :
    ∃ π hd, d.locate π Ts.oldest = some hd ∧ d.resolve p Ts.oldest = .ok hd ∧ (d.viewAt hd).canon = s ∧
      ∀ new, PD.setAt new p d.view.canon = PlainDoc.replace new π d.view.canon :=
  resolve_getAt I hk p Ts.oldest s (alive_root I) h

/-! ## 3. one operation, on the plain tree -/

/-- the call that `patchCall` builds for an operation whose last segment is `k`, decided on the plain subtree `c0`
    the parent path leads to -/
def callOf (hd : Ts) (k : String) (op : PatchOp) : JVal → Option Call
  | .obj _ =>
    match op with
    | .add _ v => some (.dput hd k v)
    | .replace _ v => some (.dput hd k v)
    | .remove _ => some (.dremove hd k)
  | .arr l =>
    match op with
    | .add _ v => if k = "-" then some (.dinsert hd l.length [v]) else k.toInt?.map (fun i => Call.dinsert hd i [v])
    | .replace _ v => k.toInt?.map (fun i => Call.dupdate hd i [v])
    | .remove _ => k.toInt?.map (fun i => Call.ddelete hd i)
  | _ => none

theorem put_of_replace {t t' s' : JVal} {π : List PlainDoc.Seg} (h : PlainDoc.replace s' π t = some t') :
    PlainDoc.put t π s' = t' := by
  simp [PlainDoc.put, h]

theorem goodV_keys {v : JVal} (h : GoodV v) : DP.CallKeysND (.dput Ts.oldest "" v) ∧ JKeysNDList [v] := by
  have := jkeys_of_canonical v h.2
  exact ⟨this, by simp [JKeysNDList, this]⟩

/-- the plain tree reacts to the call as `applyAt` says -/
theorem step_of_apply {t t' c0 c' : JVal} {π : List PlainDoc.Seg} (hd : Ts) {k : String} {op : PatchOp}
    (hsub : PlainDoc.sub π t = some c0) (happ : applyAt op [k] c0 = some c')
    (hrep : PlainDoc.replace c' π t = some t') (hgood : Carr GoodV op) :
    ∃ c, callOf hd k op c0 = some c ∧ (∃ ret, PlainDoc.step t π c = (t', .ok ret)) ∧ PlainDoc.handleOf c = some hd ∧
      DP.CallKeysND c ∧ DP.isMutating c = true := by
  cases c0 with
  | null => simp [applyAt] at happ
  | bool _ => simp [applyAt] at happ
  | num _ => simp [applyAt] at happ
  | str _ => simp [applyAt] at happ
  | obj kvs =>
    cases op with
    | add p v =>
      obtain ⟨hn, hc⟩ := hgood
      simp only [applyAt, Option.some.injEq] at happ
      subst happ
      refine ⟨.dput hd k v, rfl, ⟨.val (alFind k kvs), ?_⟩, rfl, jkeys_of_canonical v hc, rfl⟩
      simp only [PlainDoc.step, hsub, hn, Bool.false_eq_true, if_false, canon_of_canonical v hc, put_of_replace hrep]
    | replace p v =>
      obtain ⟨hn, hc⟩ := hgood
      simp only [applyAt, Option.some.injEq] at happ
      subst happ
      refine ⟨.dput hd k v, rfl, ⟨.val (alFind k kvs), ?_⟩, rfl, jkeys_of_canonical v hc, rfl⟩
      simp only [PlainDoc.step, hsub, hn, Bool.false_eq_true, if_false, canon_of_canonical v hc, put_of_replace hrep]
    | remove p =>
      simp only [applyAt] at happ
      cases hf : alFind k kvs with
      | none => simp [hf] at happ
      | some old =>
        simp only [hf, Option.isSome_some, if_true, Option.some.injEq] at happ
        subst happ
        refine ⟨.dremove hd k, rfl, ⟨.val (some old), ?_⟩, rfl, trivial, rfl⟩
        simp only [PlainDoc.step, hsub, hf, put_of_replace hrep]
  | arr l =>
    cases op with
    | add p v =>
      obtain ⟨hn, hc⟩ := hgood
      have hk1 : JKeysNDList [v] := by simp [JKeysNDList, jkeys_of_canonical v hc]
      have hany : [v].any JVal.hasNull = false := by simp [hn]
      simp only [applyAt] at happ
      by_cases hk : k = "-"
      · simp only [hk, if_true, Option.some.injEq] at happ
        subst happ
        refine ⟨.dinsert hd l.length [v], by simp [callOf, hk], ⟨.none, ?_⟩, rfl, hk1, rfl⟩
        have h1 : ¬ ((l.length : Int) < 0) := by omega
        simp only [PlainDoc.step, hsub, h1, gt_iff_lt, lt_self_iff_false, decide_false, Bool.or_self,
          Bool.false_eq_true, if_false, hany, Int.toNat_natCast, List.take_length, List.drop_length,
          List.append_nil, List.map_cons, List.map_nil, canon_of_canonical v hc, put_of_replace hrep]
      · simp only [hk, if_false] at happ
        cases hi : k.toNat? with
        | none => simp [hi] at happ
        | some i =>
          simp only [hi] at happ
          split_ifs at happ with hle
          simp only [Option.some.injEq] at happ
          subst happ
          have hint := String.toInt?_eq_some_of_toNat?_eq_some hi
          refine ⟨.dinsert hd i [v], by simp [callOf, hk, hint], ⟨.none, ?_⟩, rfl, hk1, rfl⟩
          have h1 : ¬ ((i : Int) < 0) := by omega
          have h2 : ¬ ((i : Int) > l.length) := by omega
          simp only [PlainDoc.step, hsub, h1, h2, decide_false, Bool.or_self,
            Bool.false_eq_true, if_false, hany, Int.toNat_natCast,
            List.map_cons, List.map_nil, canon_of_canonical v hc, put_of_replace hrep]
    | replace p v =>
      obtain ⟨hn, hc⟩ := hgood
      have hk1 : JKeysNDList [v] := by simp [JKeysNDList, jkeys_of_canonical v hc]
      have hany : [v].any JVal.hasNull = false := by simp [hn]
      simp only [applyAt] at happ
      cases hi : k.toNat? with
      | none => simp [hi] at happ
      | some i =>
        simp only [hi] at happ
        split_ifs at happ with hlt
        simp only [Option.some.injEq] at happ
        subst happ
        have hint := String.toInt?_eq_some_of_toNat?_eq_some hi
        refine ⟨.dupdate hd i [v], by simp [callOf, hint], ⟨.vals ((l.drop i).take 1), ?_⟩, rfl, hk1, rfl⟩
        have hr : PlainDoc.inRange i (1 : Nat) l.length = true := by
          simp [PlainDoc.inRange]; omega
        simp only [PlainDoc.step, hsub, List.length_singleton, hr, Bool.not_true, Bool.false_eq_true, if_false, hany, Int.toNat_natCast,
          List.map_cons, List.map_nil, canon_of_canonical v hc, List.length_singleton, put_of_replace hrep]
    | remove p =>
      simp only [applyAt] at happ
      cases hi : k.toNat? with
      | none => simp [hi] at happ
      | some i =>
        simp only [hi] at happ
        split_ifs at happ with hlt
        simp only [Option.some.injEq] at happ
        subst happ
        have hint := String.toInt?_eq_some_of_toNat?_eq_some hi
        refine ⟨.ddelete hd i, by simp [callOf, hint], ⟨.val (l.drop i).head?, ?_⟩, rfl, trivial, rfl⟩
        have hr : PlainDoc.inRange i 1 l.length = true := by
          simp [PlainDoc.inRange]; omega
        simp only [PlainDoc.step, hsub, hr, Bool.not_true, Bool.false_eq_true, if_false, Int.toNat_natCast,
          put_of_replace hrep]

theorem isNull_of_hasNull {v : JVal} (h : v.hasNull = false) : v.isNull = false := by
  cases v <;> simp_all [JVal.hasNull, JVal.isNull]

/-- `patchCall` builds exactly that call -/
theorem patchCall_eq {L : OpId} {b : Nat} {d : Doc} (I : DP.DInv L b d) (hk : KeysND d) {op : PatchOp}
    {p : List String} {k : String} {hd : Ts} {c0 : JVal} {c : Call} (hpath : op.path = p ++ [k])
    (hres : d.resolve p Ts.oldest = .ok hd) (hal : Alive d hd) (hview : (d.viewAt hd).canon = c0)
    (hcall : callOf hd k op c0 = some c) (hgood : Carr GoodV op) : d.patchCall op = .ok (some c) := by
  have hg := I.dg hk
  obtain ⟨n, hn⟩ := Option.isSome_iff_exists.mp hal.2
  unfold Doc.patchCall
  rw [hpath]
  simp only [List.reverse_append, List.reverse_singleton, List.singleton_append, List.reverse_reverse, hres]
  cases hkind : n.kind with
  | elem v =>
    obtain ⟨e1, e2, e3⟩ := DP.shape_elem I hn hkind
    rw [e1] at hview
    subst hview
    cases v <;> first | (simp [callOf] at hcall; done) | (exfalso; exact e2 _ rfl) | (exfalso; exact e3 _ rfl)
  | obj m sz =>
    rw [DP.shape_obj hg hn hkind] at hview
    subst hview
    have hko := DP.kindOf_obj' hn hkind
    cases op with
    | add q v =>
      simp only [callOf, Option.some.injEq] at hcall
      subst hcall
      simp [hko, isNull_of_hasNull hgood.1]
    | replace q v =>
      simp only [callOf, Option.some.injEq] at hcall
      subst hcall
      simp [hko, isNull_of_hasNull hgood.1]
    | remove q =>
      simp only [callOf, Option.some.injEq] at hcall
      subst hcall
      simp [hko]
  | arr sl sz =>
    rw [DP.shape_arr hg hn hkind] at hview
    subst hview
    have hka := DP.kindOf_arr' hn hkind
    have hsize : (d.arrRga hd).size = ((DP.arrView d sl).map JVal.canon).length := by
      rw [DP.arrRga_eq hn hkind, List.length_map, DP.arrView_length]
      exact DP.arr_size I hn hkind
    cases op with
    | add q v =>
      simp only [callOf] at hcall
      simp only [hka, isNull_of_hasNull hgood.1, Bool.false_eq_true, if_false, reduceCtorEq, if_true]
      by_cases hkd : k = "-"
      · simp only [hkd, if_true, Option.some.injEq] at hcall ⊢
        rw [← hcall, hsize]
      · simp only [hkd, if_false] at hcall ⊢
        cases hi : k.toInt? with
        | none => simp [hi] at hcall
        | some i =>
          simp only [hi, Option.map_some, Option.some.injEq] at hcall
          rw [← hcall]
    | replace q v =>
      simp only [callOf] at hcall
      simp only [hka, isNull_of_hasNull hgood.1, Bool.false_eq_true, if_false, reduceCtorEq, if_true]
      cases hi : k.toInt? with
      | none => simp [hi] at hcall
      | some i =>
        simp only [hi, Option.map_some, Option.some.injEq] at hcall
        rw [← hcall]
    | remove q =>
      simp only [callOf] at hcall
      simp only [hka, reduceCtorEq, if_false, if_true]
      cases hi : k.toInt? with
      | none => simp [hi] at hcall
      | some i =>
        simp only [hi, Option.map_some, Option.some.injEq] at hcall
        rw [← hcall]

/-! ## 4. one operation, on the replica -/

theorem mutating_prepare (d : Doc) (c : Call) (hm : DP.isMutating c = true) :
    (∃ e, c.prepare (.doc d) = .done (.err e)) ∨ ∃ b post, c.prepare (.doc d) = .op b post ∧ b.isMeta = false := by
  cases c <;> simp only [DP.isMutating, Bool.false_eq_true] at hm
  all_goals simp only [Call.prepare, Call.prepareDoc]
  all_goals repeat' split
  all_goals first
    | exact Or.inl ⟨_, rfl⟩
    | exact Or.inr ⟨_, _, rfl, rfl⟩

theorem call_of_panic {r : Replica} {c : Call} {b : OpBody} {post : Ret → Ret} {w : String}
    (h : c.prepare r.state = .op b post) (hm : b.isMeta = false)
    (he : execLocal r.state r.opId.next.ts b = .panic w) : (r.call c).2 = .panic w := by
  unfold Replica.call
  rw [h]
  simp only [Replica.callLocal, Replica.execLocalBase, hm, Bool.false_eq_true, if_false, he, mapOut]

theorem next_ne (L : OpId) : L.next ≠ L := by
  intro h
  have : L.next.lamport = L.lamport := by rw [h]
  simp [OpId.next] at this

/-- a mutating call that the plain tree accepts: what `prepare` and `execLocal` do, the new view, the invariant -/
theorem exec_step {L : OpId} {d : Doc} (I : DP.DInv L 0 d) (hk : KeysND d) {π : List PlainDoc.Seg} {hd : Ts} {c : Call}
    {t' : JVal} {ret : Ret} (hloc : d.locate π Ts.oldest = some hd) (hh : PlainDoc.handleOf c = some hd)
    (hck : DP.CallKeysND c) (hm : DP.isMutating c = true) (hstep : PlainDoc.step d.view.canon π c = (t', .ok ret)) :
    ∃ b post d' bd ret' b', c.prepare (.doc d) = .op b post ∧ b.isMeta = false ∧
      execLocal (.doc d) L.next.ts b = .ok (.doc d', bd, ret') ∧ d'.view.canon = t' ∧ DP.DInv L b' d' ∧ KeysND d' := by
  let r : Replica := { (default : Replica) with opId := L, state := .doc d }
  have hs : r.state = .doc d := rfl
  obtain ⟨heff, href⟩ := DP.call_full (r := r) hs I c
  obtain ⟨d', hst, hview, hout⟩ := href π hd hk hck hloc hh
  rw [hstep] at hview hout
  simp only at hview hout
  have hok : ∃ v, (r.call c).2 = .ok v := by
    cases h2 : (r.call c).2 with
    | ok v => exact ⟨v, rfl⟩
    | err e => rw [h2] at hout; simp [PlainDoc.outCanon] at hout
    | panic w => rw [h2] at hout; simp [PlainDoc.outCanon] at hout
  obtain ⟨v, hv⟩ := hok
  rcases mutating_prepare d c hm with ⟨e, hp⟩ | ⟨b, post, hp, hmeta⟩
  · have := DP.call_of_done (r := r) (c := c) hp
    rw [this] at hv
    cases hv
  · cases he : execLocal r.state r.opId.next.ts b with
    | err e =>
      have := DP.call_of_err (r := r) hp hmeta he
      rw [this] at hv
      cases hv
    | panic w =>
      have := call_of_panic (r := r) hp hmeta he
      rw [this] at hv
      cases hv
    | ok x =>
      obtain ⟨s', bd, ret'⟩ := x
      have hcall := DP.call_of_ok (r := r) hp hmeta he
      rw [hcall] at hst
      simp only at hst
      subst hst
      refine ⟨b, post, d', bd, ret', ?_⟩
      rcases heff with ⟨h1, e, h2⟩ | ⟨h1, _⟩ | ⟨d2, b', bd2, v2, hc2, I2, hk2⟩
      · rw [h2] at hv; cases hv
      · rw [hcall] at h1
        have : r.opId.next = r.opId := congrArg Replica.opId h1
        exact absurd this (next_ne _)
      · rw [hcall] at hc2
        have hst2 := congrArg (fun x => x.1.state) hc2
        simp only [DState.doc.injEq] at hst2
        subst hst2
        exact ⟨b', hp, hmeta, he, hview, I2, hk2 hk hck⟩

/-- one patch operation that the plain tree accepts, on the document -/
theorem op_step {L : OpId} {d : Doc} (I : DP.DInv L 0 d) (hk : KeysND d) {op : PatchOp} {t' : JVal}
    (happ : applyAt op op.path d.view.canon = some t') (hgood : Carr GoodV op) :
    ∃ c b post d' bd ret' b', d.patchCall op = .ok (some c) ∧ c.prepare (.doc d) = .op b post ∧ b.isMeta = false ∧
      execLocal (.doc d) L.next.ts b = .ok (.doc d', bd, ret') ∧ d'.view.canon = t' ∧ DP.DInv L b' d' ∧ KeysND d' := by
  rcases List.eq_nil_or_concat op.path with hnil | ⟨p, k, hpath⟩
  · rw [hnil] at happ
    simp [applyAt] at happ
  · rw [List.concat_eq_append] at hpath
    rw [hpath, PD.applyAt_append] at happ
    cases hg : PD.getAt p d.view.canon with
    | none => simp [hg] at happ
    | some c0 =>
      simp only [hg, Option.bind_some] at happ
      cases ha : applyAt op [k] c0 with
      | none => simp [ha] at happ
      | some c' =>
        simp only [ha, Option.bind_some] at happ
        obtain ⟨π, hd, hloc, hres, hview, hset⟩ := resolve_root I hk p c0 hg
        rw [hset c'] at happ
        obtain ⟨hl, _⟩ := DP.loc_of I hk hloc
        have hsub := hl.sub
        rw [hview] at hsub
        obtain ⟨c, hcall, ⟨ret, hstep⟩, hh, hck, hm⟩ := step_of_apply hd hsub ha happ hgood
        have hpc := patchCall_eq I hk hpath hres (alive_located I hloc) hview hcall hgood
        obtain ⟨b, post, d', bd, ret', b', q1, q2, q3, q4, q5, q6⟩ := exec_step I hk hloc hh hck hm hstep
        exact ⟨c, b, post, d', bd, ret', b', hpc, q1, q2, q3, q4, q5, q6⟩

/-! ## 5. `Replica.patch` -/

theorem patch_nil {r : Replica} {d : Doc} (hs : r.state = .doc d) : r.patch [] = (r, .ok ()) :=
  Replica.patch.eq_1 r d hs

/-- ONE operation: the public call directly -/
theorem patch_one {r : Replica} {d : Doc} (hs : r.state = .doc d) (I : DP.DInv r.opId 0 d) (hk : KeysND d)
    {op : PatchOp} {t' : JVal} (happ : applyAt op op.path d.view.canon = some t') (hgood : Carr GoodV op) :
    ∃ d' bd b', r.patch [op] =
        ({ r with opId := r.opId.next, state := .doc d', rbOps := r.rbOps ++ [⟨r.opId.next, bd⟩],
                  buffer := r.buffer ++ [Op.wire ⟨r.opId.next, bd⟩] }, .ok ()) ∧
      d'.view.canon = t' ∧ DP.DInv r.opId b' d' ∧ KeysND d' := by
  obtain ⟨c, b, post, d', bd, ret', b', hpc, hprep, hmeta, hexec, hview, I', hk'⟩ := op_step I hk happ hgood
  rw [← hs] at hprep hexec
  have hcall := DP.call_of_ok hprep hmeta hexec
  refine ⟨d', bd, b', ?_, hview, I', hk'⟩
  simp only [Replica.patch, hs, hpc, hcall]

/-- SEVERAL operations: the body of the transaction -/
theorem body_run : ∀ (ops : List PatchOp) (r : Replica) (acc : List Op) (d : Doc) (tf : JVal),
    r.state = .doc d → DP.DInv r.opId 0 d → KeysND d → applyPatch ops d.view.canon = some tf →
    (∀ op ∈ ops, Carr GoodV op) →
    ∃ r1 acc' d1, Replica.patch.body r acc ops = (r1, acc ++ acc', none) ∧ acc'.length = ops.length ∧
      r1.state = .doc d1 ∧ d1.view.canon = tf ∧ DP.DInv r1.opId 0 d1 ∧ KeysND d1 ∧ r1.buffer = r.buffer ∧
      r1.rbOps = r.rbOps := by
  intro ops
  induction ops with
  | nil =>
    intro r acc d tf hs I hk happ _
    simp only [applyPatch, Option.some.injEq] at happ
    exact ⟨r, [], d, by simp [Replica.patch.body], rfl, hs, happ, I, hk, rfl, rfl⟩
  | cons op rest ih =>
    intro r acc d tf hs I hk happ hgood
    simp only [applyPatch] at happ
    cases h1 : applyAt op op.path d.view.canon with
    | none => simp [h1] at happ
    | some t1 =>
      simp only [h1, Option.bind_some] at happ
      obtain ⟨c, b, post, d', bd, ret', b', hpc, hprep, hmeta, hexec, hview, I', hk'⟩ :=
        op_step I hk h1 (hgood op (by simp))
      have hex : r.execLocalBase b =
          ({ r with opId := r.opId.next, state := .doc d' }, .ok (⟨r.opId.next, bd⟩, ret')) := by
        simp only [Replica.execLocalBase, hmeta, Bool.false_eq_true, if_false, hs, hexec]
      rw [← hview] at happ
      obtain ⟨r1, acc', d1, q1, q2, q3, q4, q5, q6, q7, q8⟩ :=
        ih { r with opId := r.opId.next, state := .doc d' } (acc ++ [⟨r.opId.next, bd⟩]) d' tf rfl I'.finish hk' happ
          (fun o ho => hgood o (by simp [ho]))
      refine ⟨r1, ⟨r.opId.next, bd⟩ :: acc', d1, ?_, by simp [q2], q3, q4, q5, q6, q7, q8⟩
      rw [Replica.patch.body.eq_2]
      simp only [hs, hpc, hprep, hex]
      rw [q1]
      simp

/-- SEVERAL operations: one transaction unit -/
theorem patch_many {r : Replica} {d : Doc} (hs : r.state = .doc d) (I : DP.DInv r.opId 0 d) (hk : KeysND d)
    {ops : List PatchOp} {tf : JVal} (hlen : 2 ≤ ops.length) (happ : applyPatch ops d.view.canon = some tf)
    (hgood : ∀ op ∈ ops, Carr GoodV op) :
    ∃ (r1 : Replica) (acc : List Op) (d1 : Doc), r.patch ops =
        ({ r1 with
            rbOps := r1.rbOps ++ (⟨r.opId.next, .transaction (toString ops.length ++ " patches") (acc.length + 1)⟩ :: acc),
            buffer := r.buffer ++
              (⟨r.opId.next, .transaction (toString ops.length ++ " patches") (acc.length + 1)⟩ :: acc).map Op.wire },
          .ok ()) ∧
      acc.length = ops.length ∧ r1.state = .doc d1 ∧ d1.view.canon = tf ∧ DP.DInv r1.opId 0 d1 ∧ KeysND d1 := by
  obtain ⟨r1, acc, d1, q1, q2, q3, q4, q5, q6, q7, _⟩ :=
    body_run ops { r with opId := r.opId.next } [] d tf hs I.finish hk happ hgood
  simp only [List.nil_append] at q1 q7
  refine ⟨r1, acc, d1, ?_, q2, q3, q4, q5, q6⟩
  rw [Replica.patch.eq_3 r ops d hs (by intro h; rw [h] at hlen; simp at hlen)
    (by intro op h; rw [h] at hlen; simp at hlen), q1]
  simp only [q7]

/-- all three ways at once -/
theorem patch_run {r : Replica} {d : Doc} (hs : r.state = .doc d) (I : DP.DInv r.opId 0 d) (hk : KeysND d)
    {ops : List PatchOp} {tf : JVal} (happ : applyPatch ops d.view.canon = some tf)
    (hgood : ∀ op ∈ ops, Carr GoodV op) :
    (∃ d', (r.patch ops).1.state = .doc d' ∧ (r.patch ops).2 = .ok () ∧ d'.view.canon = tf ∧
      DP.DocInv (r.patch ops).1) ∧
    (ops.length = 0 → (r.patch ops).1 = r) ∧
    (ops.length = 1 → ∃ o : Op, (r.patch ops).1.buffer = r.buffer ++ [o] ∧ o.id = r.opId.next) ∧
    (2 ≤ ops.length → ∃ (tag : String) (body : List Op),
      (r.patch ops).1.buffer = r.buffer ++ (⟨r.opId.next, .transaction tag (body.length + 1)⟩ :: body) ∧
      body.length ≤ ops.length) := by
  match ops, happ, hgood with
  | [], happ, _ =>
    simp only [applyPatch, Option.some.injEq] at happ
    rw [patch_nil hs]
    refine ⟨⟨d, hs, rfl, happ, d, hs, I, hk⟩, fun _ => rfl, ?_, ?_⟩
    · intro h; simp at h
    · intro h; simp at h
  | [op], happ, hgood =>
    simp only [applyPatch] at happ
    cases h1 : applyAt op op.path d.view.canon with
    | none => simp [h1] at happ
    | some t1 =>
      simp only [h1, Option.bind_some, Option.some.injEq] at happ
      subst happ
      obtain ⟨d', bd, b', hp, hview, I', hk'⟩ := patch_one hs I hk h1 (hgood op (by simp))
      rw [hp]
      refine ⟨⟨d', rfl, rfl, hview, d', rfl, I'.finish, hk'⟩, ?_, ?_, ?_⟩
      · intro h; simp at h
      · intro _; exact ⟨_, rfl, rfl⟩
      · intro h; simp at h
  | o1 :: o2 :: rest, happ, hgood =>
    obtain ⟨r1, acc, d1, hp, q2, q3, q4, q5, q6⟩ := patch_many hs I hk (by simp) happ hgood
    rw [hp]
    refine ⟨⟨d1, q3, rfl, q4, d1, q3, q5, q6⟩, ?_, ?_, ?_⟩
    · intro h; simp at h
    · intro h; simp at h
    · intro _
      refine ⟨toString (o1 :: o2 :: rest).length ++ " patches", acc.map Op.wire, ?_, by simp [q2]⟩
      simp [Op.wire, OpBody.wire]

/-! ## 6. the theorems -/

theorem patchByJSON_eq {r : Replica} {d : Doc} (hs : r.state = .doc d) (target : JVal) :
    r.patchByJSON target = ((r.patch (jsonDiff d.view.canon target.canon)).1, jsonDiff d.view.canon target.canon,
      (r.patch (jsonDiff d.view.canon target.canon)).2) := by
  simp only [Replica.patchByJSON, hs]

theorem view_obj {L : OpId} {b : Nat} {d : Doc} (I : DP.DInv L b d) (hk : KeysND d) : ∃ src, d.view.canon = .obj src := by
  obtain ⟨m, s, hr⟩ := I.root
  exact ⟨_, DP.shape_obj (I.dg hk) hr rfl⟩

/-- the script of `patchByJSON`: it rewrites the view into the target, and carries good values -/
theorem script_ok {L : OpId} {b : Nat} {d : Doc} (I : DP.DInv L b d) (hk : KeysND d) (tgt : List (String × JVal))
    (hn : (JVal.obj tgt).hasNull = false) :
    applyPatch (jsonDiff d.view.canon (JVal.obj tgt).canon) d.view.canon = some (JVal.obj tgt).canon ∧
    ∀ op ∈ jsonDiff d.view.canon (JVal.obj tgt).canon, Carr GoodV op := by
  obtain ⟨src, hsrc⟩ := view_obj I hk
  have hc1 : (JVal.obj src).Canonical := by rw [← hsrc]; exact canon_canonical _
  have hc2 : (JVal.obj tgt).canon.Canonical := canon_canonical _
  have hn2 : (JVal.obj tgt).canon.hasNull = false := hasNull_canon _ hn
  refine ⟨?_, carried goodV_subClosed _ _ ⟨hn2, hc2⟩⟩
  rw [hsrc]
  rw [canon_obj] at hc2 ⊢
  exact apply_diff src _ hc1 hc2

theorem inv_of {r : Replica} {d : Doc} (hs : r.state = .doc d) (h : DP.DocInv r) : DP.DInv r.opId 0 d ∧ KeysND d := by
  obtain ⟨d0, hs0, I, hk⟩ := h
  rw [hs] at hs0
  simp only [DState.doc.injEq] at hs0
  subst hs0
  exact ⟨I, hk⟩

/-- THE theorem: for every reachable single-replica document and every target object without nulls (and without duplicate
    keys), PatchByJSON succeeds and the document's JSON value is exactly the target -/
theorem patchByJSON_reaches_target (r : Replica) (d : Doc) (hs : r.state = .doc d) (h : DP.DocInv r)
    (tgt : List (String × JVal)) (hn : (JVal.obj tgt).hasNull = false) (hk : DC.JKeysND (.obj tgt)) :
    ∃ d', (r.patchByJSON (.obj tgt)).1.state = .doc d' ∧
      (r.patchByJSON (.obj tgt)).2.2 = .ok () ∧
      d'.view.canon = (JVal.obj tgt).canon ∧
      DP.DocInv (r.patchByJSON (.obj tgt)).1 := by
  have _ := hk
  obtain ⟨I, hkeys⟩ := inv_of hs h
  obtain ⟨happ, hgood⟩ := script_ok I hkeys tgt hn
  rw [patchByJSON_eq hs]
  exact (patch_run hs I hkeys happ hgood).1

/-- it is applied as one atomic unit: nothing is queued when the document already equals the target, one operation when
    the script has one operation, otherwise ONE transaction unit that announces its own length -/
theorem patchByJSON_one_unit (r : Replica) (d : Doc) (hs : r.state = .doc d) (h : DP.DocInv r)
    (tgt : List (String × JVal)) (hn : (JVal.obj tgt).hasNull = false) (hk : DC.JKeysND (.obj tgt)) :
    let r' := (r.patchByJSON (.obj tgt)).1
    let n := (r.patchByJSON (.obj tgt)).2.1.length          -- number of patch operations
    (n = 0 → r' = r) ∧
    (n = 1 → ∃ o, r'.buffer = r.buffer ++ [o] ∧ o.id = r.opId.next) ∧
    (2 ≤ n → ∃ tag body, r'.buffer = r.buffer ++ (⟨r.opId.next, .transaction tag (body.length + 1)⟩ :: body) ∧ body.length ≤ n) := by
  have _ := hk
  obtain ⟨I, hkeys⟩ := inv_of hs h
  obtain ⟨happ, hgood⟩ := script_ok I hkeys tgt hn
  intro r' n
  simp only [r', n, patchByJSON_eq hs]
  exact (patch_run hs I hkeys happ hgood).2

/-- patching to the value the document already has is a no-op -/
theorem patchByJSON_same_is_noop (r : Replica) (d : Doc) (hs : r.state = .doc d) (h : DP.DocInv r) :
    (r.patchByJSON d.view).1 = r ∧ (r.patchByJSON d.view).2.1 = [] := by
  obtain ⟨I, hkeys⟩ := inv_of hs h
  obtain ⟨src, hsrc⟩ := view_obj I hkeys
  have hc : (JVal.obj src).Canonical := by rw [← hsrc]; exact canon_canonical _
  have hnil : jsonDiff d.view.canon d.view.canon = [] := by
    rw [hsrc]; exact (diff_nil_iff src src hc hc).mpr rfl
  rw [patchByJSON_eq hs, hnil, patch_nil hs]
  exact ⟨rfl, rfl⟩

/-! ## 7. non-vacuity: a nested document reached by public calls, a target that changes an object key, an element
    nested in an array and the length of that array -/

namespace Ex

/-- `{"a": [1, {"x": 5}], "k": "v"}`, reached by two calls from a fresh document -/
def r : Replica :=
  (((Replica.new .document "c" true).call (.dput Ts.oldest "a" (.arr [.num 1, .obj [("x", .num 5)]]))).1.call
    (.dput Ts.oldest "k" (.str "v"))).1

def d : Doc := match r.state with | .doc d => d | _ => Doc.empty

theorem r_state : r.state = .doc d := rfl

theorem r_inv : DP.DocInv r :=
  DP.docInv_call _ _ (by simp [DP.CallKeysND, JKeysND])
    (DP.docInv_call _ _ (by simp [DP.CallKeysND, JKeysND, JKeysNDList, JKeysNDKvs]) (DP.docInv_new "c" true))

example : d.view = .obj [("a", .arr [.num 1, .obj [("x", .num 5)]]), ("k", .str "v")] := by rfl

/-- the target (keys not sorted): "k" changes, the object inside the array changes, the array grows -/
def tgt : List (String × JVal) := [("k", .str "w"), ("a", .arr [.num 1, .obj [("x", .num 6)], .num 3])]

theorem tgt_nonull : (JVal.obj tgt).hasNull = false := by rfl
theorem tgt_keys : JKeysND (.obj tgt) := by simp [tgt, JKeysND, JKeysNDKvs, JKeysNDList]

/-- the script: a replace below an array index, an append to the array, a replace of an object key -/
example : (r.patchByJSON (.obj tgt)).2.1 =
    [.replace ["a", "1", "x"] (.num 6), .add ["a", "-"] (.num 3), .replace ["k"] (.str "w")] := by rfl

/-- `patchByJSON_reaches_target` instantiated; the resulting view, written out -/
example : ∃ d', (r.patchByJSON (.obj tgt)).1.state = .doc d' ∧ (r.patchByJSON (.obj tgt)).2.2 = .ok () ∧
    d'.view.canon = .obj [("a", .arr [.num 1, .obj [("x", .num 6)], .num 3]), ("k", .str "w")] ∧
    DP.DocInv (r.patchByJSON (.obj tgt)).1 :=
  patchByJSON_reaches_target r d r_state r_inv tgt tgt_nonull tgt_keys

/-- `patchByJSON_one_unit` instantiated: three operations, one transaction unit -/
example : ∃ tag body, (r.patchByJSON (.obj tgt)).1.buffer =
    r.buffer ++ (⟨r.opId.next, .transaction tag (body.length + 1)⟩ :: body) ∧ body.length ≤ 3 :=
  (patchByJSON_one_unit r d r_state r_inv tgt tgt_nonull tgt_keys).2.2 (by decide)

/-- `patchByJSON_same_is_noop` on a document whose view has an object nested in an array -/
example : (r.patchByJSON d.view).1 = r ∧ (r.patchByJSON d.view).2.1 = [] :=
  patchByJSON_same_is_noop r d r_state r_inv

end Ex

end Orda.DPatch
