/-
Real replicas driven by the ADVERSARIAL push-pull protocol (C07/C05 at datatype level).
Everything lives in namespace `Orda.PNet`.

THE COMBINED SYSTEM (§1), generic in the datatype `typ : DtType`.  A client `RClient` = the real replica model `Replica`
+ the protocol's checkpoint `cp` + the GHOST field `applied` (the foreign operations it has executed, in order; no step
reads it).  `RSys` = the clients + the server log, the server's records, the requests ever sent and the responses ever
produced — exactly `PSys` of `Proofs/Protocol.lean` with real replicas.  `RStep typ` mirrors `PStep`:
  * `call i c`   — `r := (r.call c).1`, ANY public call (documents: `DNet.CallOK c`, the restriction of `DocNet`);
  * `send i`     — the request `⟨i, cp.sseq, buffer.drop cp.cseq⟩` is added to the requests ever sent;
  * `serve r`    — any request ever sent is served (any number of times): `pushOps` from `⟨end of log, recorded cseq⟩`;
  * `refuse r`   — `pushOps` refuses: nothing changes;
  * `deliver p`  — any response ever produced is delivered (any number of times, in any order): the client executes
                   `newForeignOps cuid cp p.cp p.ops` one by one with `execRemoteBase` (`execAll`) and merges the
                   checkpoint with `max`.
`RReach typ cuids`: reachable from `RSys.init typ cuids` (fresh subscribers `Replica.new typ u false`), `cuids.Nodup`.

THE TWO VIEWS.  `proj S : PSys` (client `i` ↦ `⟨r.opId.cuid, r.buffer, cp, applied⟩`) and `netOf cuids S : GNet`, the
ideal-log system: node `i` = `⟨r, (recOf cuid_i).cseq, cp.sseq⟩` (pushed = what the server has recorded, pulled = the
checkpoint), log = the protocol's log tagged with the authors.  `GNet`/`GStep`/`GReach` (§2) is ONE generic copy of the
three identical systems `LNet`/`MNet`/`DNet`; `toL`/`toM`/`toD` map it onto them constructor by constructor
(`reach_toL`, `reach_toM`, `reach_toD`).

RESULTS (no hypothesis beyond `RReach typ cuids S`, i.e. distinct client identifiers; for documents `DNet.CallOK`)
  * `proj_reach`  — the protocol view of every reachable combined state is a reachable protocol state (J1–J3 and all of
                    `Protocol.lean` apply; `opsOf_eq_applied`: J3 on the combined state);
  * `net_view`    — its datatype view `netOf cuids S` is a REACHABLE state of the ideal-log system (so every theorem of
                    the Net files applies, not only their invariants); in the shape "a Net state with the same replicas,
                    the protocol's log, pushed = `(recOf cuid_i).cseq`, pulled = `cp.sseq`, reachable and satisfying the
                    Net invariant": `net_view_list`, `net_view_map` / `net_view_counter` (`FlatView`), `net_view_doc`;
  * `faults_list_same_operations_same_state`, `faults_list_caught_up`, `faults_list_quiescent_converged` (plain equality
    of the list states); `faults_map_same_operations_same_reads`, `faults_map_caught_up`, `faults_map_quiescent_converged`
    (`SameReads`: get / Size / views), `faults_map_state_is_map`; `faults_counter_same_operations_same_state`,
    `faults_counter_caught_up`, `faults_counter_quiescent_converged`, `faults_counter_value_is_spec`;
    `faults_doc_same_operations_same_document`, `faults_doc_caught_up`, `faults_doc_quiescent_converged` (ASim + equal
    canonical view).  "Same operations" is `SameOpsR` (ghost-free: buffer ++ the others' operations among the first
    `cp.sseq` log entries, as multisets); "caught up" is `CaughtUp` (`cp.sseq = log.length`, recorded cseq = buffer length;
    implied by the hypothesis of `Protocol.quiescent_converged`: `caughtUp_of_acked`);
  * `deliver_trace` — every single operation a delivery executes is the NEXT log entry of that client, written by another
    client, in a reachable state of the ideal-log system; hence `faults_list_deliveries_exact`,
    `faults_map_deliveries_exact`, `faults_counter_deliveries_exact`, `faults_doc_deliveries_exact` (what each execution
    does) and `faults_deliveries_exact` (all datatypes: no remote execution of any delivery panics, `ExecOK`);
  * §9 executable form (`RAct`, `RSys.act`, `RSys.run`, `rreach_run`); §10 `Ex`: three list clients, a lost response, a
    retry re-pushing an acknowledged operation while another client pushed in between, a response delivered twice, the lost
    response delivered late, a request served twice, a stale response; quiescent; the theorems instantiated; the common
    state by `rfl`.
HOW (§3).  One step of the combined system is a finite sequence of steps of the ideal-log system (`GReaches`, `net_step`):
`call` is `call`; `send`, `refuse` are stutters; `serve` is `max rc n - rc` pushes of client `r.i` (`push_many`; J1/`serve_facts`:
the accepted operations are the next unpushed operations of its buffer); `deliver` is `max s s' - s` pulls (`pull_many`;
`pull_count`: the executed operations are exactly the others' entries of the log positions `(s, s']`, own entries skipped;
nothing for a stale or duplicated response).  So the closure lemmas `Inv.call/push/pull` of the Net files are used through
their `Reach`/`inv_reach` only.  A call must not skip a sequence number (`CallShape`; `proj_step`: a call is zero or one
`localOp`): a panic of a local execution would (the identifier is not rolled back) — excluded per datatype from the Net
invariants (`CallFacts`: lists `LTx.call_no_panic` with Size = live count, maps/counters `MNet.call_cases`, documents
`DNet.call_cases`); this is why `proj_reach` and `net_view` are proved together (`Good`, `good_reach`).  Lists only: that
a delivered update carries as many values as targets (needed for "no panic", not in `LNet.Inv`) is `glist_safe`.
-/
import Orda.Proofs.Protocol
import Orda.Proofs.ListNetOrder
import Orda.Proofs.ListTxNet
import Orda.Proofs.MapNet
import Orda.Proofs.DocNetOrder
set_option linter.unusedSimpArgs false
set_option linter.unusedVariables false
namespace Orda.PNet
open Orda Orda.PR

/-! ## 1. the combined system -/

/-- a client: the real replica, the protocol's checkpoint, and (GHOST) the foreign operations it has executed -/
structure RClient where
  r : Replica
  cp : CheckPoint
  applied : List Op

def RClient.cuid (cl : RClient) : String := cl.r.opId.cuid

structure RSys where
  clients : List RClient
  log : List Op
  cps : List (String × CheckPoint)
  reqs : List PReq
  resps : List PResp

def RSys.recOf (S : RSys) (u : String) : CheckPoint := (alFind u S.cps).getD ⟨0, 0⟩

/-- execute remote operations one by one, in order -/
def execAll (r : Replica) (ops : List Op) : Replica := ops.foldl (fun r o => (r.execRemoteBase o).1) r

/-- what a client does with a response: execute `newForeignOps`, merge the checkpoint with `max`
    (`PClient.receive` plus the execution) -/
def RClient.receive (cl : RClient) (p : PResp) : RClient :=
  { r := execAll cl.r (newForeignOps cl.cuid cl.cp p.cp p.ops),
    cp := ⟨max cl.cp.sseq p.cp.sseq, max cl.cp.cseq p.cp.cseq⟩,
    applied := cl.applied ++ newForeignOps cl.cuid cl.cp p.cp p.ops }

/-- the calls a client may issue: ANY public call; for documents the restriction of `DocNet` -/
def callOK : DtType → Call → Prop
  | .document, c => DNet.CallOK c
  | _, _ => True

inductive RStep (typ : DtType) : RSys → RSys → Prop
  | call (S : RSys) (i : Nat) (cl : RClient) (c : Call) :
      S.clients[i]? = some cl → callOK typ c →
      RStep typ S { S with clients := S.clients.set i { cl with r := (cl.r.call c).1 } }
  | send (S : RSys) (i : Nat) (cl : RClient) :
      S.clients[i]? = some cl →
      RStep typ S { S with reqs := S.reqs ++ [⟨i, cl.cp.sseq, cl.r.buffer.drop cl.cp.cseq⟩] }
  | serve (S : RSys) (r : PReq) (cl : RClient) (cp2 : CheckPoint) (docs : List OpDoc) :
      r ∈ S.reqs → S.clients[r.i]? = some cl →
      pushOps pDuid pCol ⟨S.log.length, (S.recOf cl.cuid).cseq⟩ r.ops [] = .ok (cp2, docs) →
      RStep typ S { S with log := S.log ++ docs.map (·.op),
                           cps := alSet cl.cuid cp2 S.cps,
                           resps := S.resps ++ [⟨r.i, S.log.drop r.s, cp2⟩] }
  | refuse (S : RSys) (r : PReq) (cl : RClient) (code : Nat) :
      r ∈ S.reqs → S.clients[r.i]? = some cl →
      pushOps pDuid pCol ⟨S.log.length, (S.recOf cl.cuid).cseq⟩ r.ops [] = .error code →
      RStep typ S S
  | deliver (S : RSys) (p : PResp) (cl : RClient) :
      p ∈ S.resps → S.clients[p.i]? = some cl →
      RStep typ S { S with clients := S.clients.set p.i (cl.receive p) }

def RSys.init (typ : DtType) (cuids : List String) : RSys :=
  { clients := cuids.map (fun u => ⟨Replica.new typ u false, ⟨0, 0⟩, []⟩), log := [], cps := [], reqs := [], resps := [] }

inductive RReach (typ : DtType) (cuids : List String) : RSys → Prop
  | init : cuids.Nodup → RReach typ cuids (RSys.init typ cuids)
  | step {S S' : RSys} : RReach typ cuids S → RStep typ S S' → RReach typ cuids S'

/-- the protocol view -/
def RClient.view (cl : RClient) : PClient := ⟨cl.r.opId.cuid, cl.r.buffer, cl.cp, cl.applied⟩
def proj (S : RSys) : PSys := ⟨S.clients.map RClient.view, S.log, S.cps, S.reqs, S.resps⟩

/-! ## 2. ONE generic copy of the ideal-log systems `LNet` / `MNet` / `DNet` -/

structure GNode where
  r : Replica
  pushed : Nat
  pulled : Nat

structure GNet where
  nodes : List GNode
  log : List (Nat × Op)

def GNet.init (typ : DtType) (cuid : Nat → String) (n : Nat) : GNet :=
  ⟨(List.range n).map fun i => ⟨Replica.new typ (cuid i) false, 0, 0⟩, []⟩

inductive GStep (typ : DtType) : GNet → GNet → Prop
  | call (g : GNet) (i : Nat) (nd : GNode) (c : Call) (hi : g.nodes[i]? = some nd) (hc : callOK typ c) :
      GStep typ g ⟨g.nodes.set i { nd with r := (nd.r.call c).1 }, g.log⟩
  | push (g : GNet) (i : Nat) (nd : GNode) (o : Op) (hi : g.nodes[i]? = some nd)
      (ho : nd.r.buffer[nd.pushed]? = some o) :
      GStep typ g ⟨g.nodes.set i { nd with pushed := nd.pushed + 1 }, g.log ++ [(i, o)]⟩
  | pull (g : GNet) (i : Nat) (nd : GNode) (a : Nat) (o : Op) (hi : g.nodes[i]? = some nd)
      (hl : g.log[nd.pulled]? = some (a, o)) :
      GStep typ g ⟨g.nodes.set i { nd with r := if a = i then nd.r else (nd.r.execRemoteBase o).1,
                                           pulled := nd.pulled + 1 }, g.log⟩

def CuidsDistinct (cuid : Nat → String) (n : Nat) : Prop := ∀ i j, i < n → j < n → cuid i = cuid j → i = j

inductive GReach (typ : DtType) (cuid : Nat → String) (n : Nat) : GNet → Prop
  | init (hc : CuidsDistinct cuid n) : GReach typ cuid n (GNet.init typ cuid n)
  | step {g g' : GNet} : GReach typ cuid n g → GStep typ g g' → GReach typ cuid n g'

inductive GReaches (typ : DtType) : GNet → GNet → Prop
  | refl (g : GNet) : GReaches typ g g
  | step {a b c : GNet} : GReaches typ a b → GStep typ b c → GReaches typ a c

theorem GReaches.trans {typ : DtType} {a b c : GNet} (h1 : GReaches typ a b) (h2 : GReaches typ b c) :
    GReaches typ a c := by
  induction h2 with
  | refl => exact h1
  | step _ hs ih => exact .step ih hs

theorem greach_of_reaches {typ : DtType} {cuid : Nat → String} {n : Nat} {a b : GNet} (hr : GReach typ cuid n a)
    (h : GReaches typ a b) : GReach typ cuid n b := by
  induction h with
  | refl => exact hr
  | step _ hs ih => exact .step ih hs

/-! ### onto the three systems -/

def toL (g : GNet) : LNet.Net := ⟨g.nodes.map fun nd => ⟨nd.r, nd.pushed, nd.pulled⟩, g.log⟩
def toM (g : GNet) : MNet.Net := ⟨g.nodes.map fun nd => ⟨nd.r, nd.pushed, nd.pulled⟩, g.log⟩
def toD (g : GNet) : DNet.Net := ⟨g.nodes.map fun nd => ⟨nd.r, nd.pushed, nd.pulled⟩, g.log⟩

theorem step_toL {g g' : GNet} (h : GStep .list g g') : LNet.Step (toL g) (toL g') := by
  cases h with
  | call i nd c hi hc =>
    have := LNet.Step.call (toL g) i ⟨nd.r, nd.pushed, nd.pulled⟩ c (by simp [toL, hi])
    simpa [toL, List.map_set] using this
  | push i nd o hi ho =>
    have := LNet.Step.push (toL g) i ⟨nd.r, nd.pushed, nd.pulled⟩ o (by simp [toL, hi]) ho
    simpa [toL, List.map_set] using this
  | pull i nd a o hi hl =>
    have := LNet.Step.pull (toL g) i ⟨nd.r, nd.pushed, nd.pulled⟩ a o (by simp [toL, hi]) hl
    simpa [toL, List.map_set] using this

theorem reach_toL {cuid : Nat → String} {n : Nat} {g : GNet} (h : GReach .list cuid n g) :
    LNet.Reach cuid n (toL g) := by
  induction h with
  | init hc =>
    have : toL (GNet.init .list cuid n) = LNet.Net.init cuid n := by
      simp [toL, GNet.init, LNet.Net.init, Function.comp_def]
    rw [this]; exact .init hc
  | step _ hs ih => exact .step ih (step_toL hs)

theorem step_toM {typ : DtType} (hf : MNet.Flat typ) {g g' : GNet} (h : GStep typ g g') : MNet.Step (toM g) (toM g') := by
  cases h with
  | call i nd c hi hc =>
    have := MNet.Step.call (toM g) i ⟨nd.r, nd.pushed, nd.pulled⟩ c (by simp [toM, hi])
    simpa [toM, List.map_set] using this
  | push i nd o hi ho =>
    have := MNet.Step.push (toM g) i ⟨nd.r, nd.pushed, nd.pulled⟩ o (by simp [toM, hi]) ho
    simpa [toM, List.map_set] using this
  | pull i nd a o hi hl =>
    have := MNet.Step.pull (toM g) i ⟨nd.r, nd.pushed, nd.pulled⟩ a o (by simp [toM, hi]) hl
    simpa [toM, List.map_set] using this

theorem reach_toM {typ : DtType} (hf : MNet.Flat typ) {cuid : Nat → String} {n : Nat} {g : GNet}
    (h : GReach typ cuid n g) : MNet.Reach typ cuid n (toM g) := by
  induction h with
  | init hc =>
    have : toM (GNet.init typ cuid n) = MNet.Net.init typ cuid n := by
      simp [toM, GNet.init, MNet.Net.init, Function.comp_def]
    rw [this]; exact .init hc
  | step _ hs ih => exact .step ih (step_toM hf hs)

theorem step_toD {g g' : GNet} (h : GStep .document g g') : DNet.Step (toD g) (toD g') := by
  cases h with
  | call i nd c hi hc =>
    have := DNet.Step.call (toD g) i ⟨nd.r, nd.pushed, nd.pulled⟩ c (by simp [toD, hi]) hc
    simpa [toD, List.map_set] using this
  | push i nd o hi ho =>
    have := DNet.Step.push (toD g) i ⟨nd.r, nd.pushed, nd.pulled⟩ o (by simp [toD, hi]) ho
    simpa [toD, List.map_set] using this
  | pull i nd a o hi hl =>
    have := DNet.Step.pull (toD g) i ⟨nd.r, nd.pushed, nd.pulled⟩ a o (by simp [toD, hi]) hl
    simpa [toD, List.map_set] using this

theorem reach_toD {cuid : Nat → String} {n : Nat} {g : GNet} (h : GReach .document cuid n g) :
    DNet.Reach cuid n (toD g) := by
  induction h with
  | init hc =>
    have : toD (GNet.init .document cuid n) = DNet.Net.init cuid n := by
      simp [toD, GNet.init, DNet.Net.init, Function.comp_def]
    rw [this]; exact .init hc
  | step _ hs ih => exact .step ih (step_toD hs)


/-! ### list facts -/

theorem set_self {α : Type} {l : List α} {i : Nat} {a : α} (h : l[i]? = some a) : l.set i a = l := by
  obtain ⟨hlt, rfl⟩ := List.getElem?_eq_some_iff.mp h
  exact List.set_getElem_self hlt

theorem map_eq_set {α β : Type} (l : List α) (F G : α → β) (i : Nat) (a : α) (hi : l[i]? = some a)
    (h : ∀ j b, l[j]? = some b → j ≠ i → G b = F b) : l.map G = (l.map F).set i (G a) := by
  apply List.ext_getElem?
  intro j
  rw [List.getElem?_set, List.getElem?_map, List.getElem?_map]
  by_cases hji : i = j
  · subst hji
    have hlt := (List.getElem?_eq_some_iff.mp hi).1
    simp [hi, hlt, (List.getElem?_eq_some_iff.mp hi).2]
  · rw [if_neg hji]
    cases hb : l[j]? with
    | none => rfl
    | some b => simp [h j b hb (fun e => hji e.symm)]

theorem idxOf_of_getElem? {l : List String} (hnd : l.Nodup) {i : Nat} {u : String} (h : l[i]? = some u) :
    l.idxOf u = i := by
  obtain ⟨hlt, rfl⟩ := List.getElem?_eq_some_iff.mp h
  have hm : l[i] ∈ l := List.getElem_mem hlt
  have h1 : l.idxOf l[i] < l.length := List.idxOf_lt_length_iff.mpr hm
  have h2 : l[l.idxOf l[i]] = l[i] := List.getElem_idxOf h1
  exact (List.Nodup.getElem_inj_iff hnd).mp h2

theorem idxOf_ne_iff {l : List String} (hnd : l.Nodup) {i : Nat} {u : String} (h : l[i]? = some u) (x : String) :
    l.idxOf x ≠ i ↔ x ≠ u := by
  constructor
  · intro h1 e; subst e; exact h1 (idxOf_of_getElem? hnd h)
  · intro h1 e
    obtain ⟨hlt, hu⟩ := List.getElem?_eq_some_iff.mp h
    have h2 : l.idxOf x < l.length := by omega
    have h3 : l[l.idxOf x] = x := List.getElem_idxOf h2
    apply h1
    rw [← h3, ← hu]
    congr 1

/-! ### many pushes, many pulls -/

theorem push_many (typ : DtType) : ∀ (k : Nat) (g : GNet) (i : Nat) (nd : GNode), g.nodes[i]? = some nd →
    nd.pushed + k ≤ nd.r.buffer.length →
    GReaches typ g ⟨g.nodes.set i { nd with pushed := nd.pushed + k },
      g.log ++ ((nd.r.buffer.drop nd.pushed).take k).map (fun o => (i, o))⟩
  | 0, g, i, nd, hi, _ => by
    have e : ({ nd with pushed := nd.pushed + 0 } : GNode) = nd := by cases nd; rfl
    rw [e, set_self hi]
    simp only [List.take_zero, List.map_nil, List.append_nil]
    exact .refl g
  | k + 1, g, i, nd, hi, hle => by
    have hlt : nd.pushed < nd.r.buffer.length := by omega
    have hilt := (List.getElem?_eq_some_iff.mp hi).1
    have s1 : GStep typ g _ := .push g i nd nd.r.buffer[nd.pushed] hi (List.getElem?_eq_getElem hlt)
    have ih := push_many typ k ⟨g.nodes.set i { nd with pushed := nd.pushed + 1 }, g.log ++ [(i, nd.r.buffer[nd.pushed])]⟩
      i { nd with pushed := nd.pushed + 1 } (by simp [hilt]) (by simp; omega)
    have e : (⟨g.nodes.set i { nd with pushed := nd.pushed + (k + 1) },
        g.log ++ ((nd.r.buffer.drop nd.pushed).take (k + 1)).map (fun o => (i, o))⟩ : GNet) =
        ⟨(g.nodes.set i { nd with pushed := nd.pushed + 1 }).set i { nd with pushed := nd.pushed + 1 + k },
          (g.log ++ [(i, nd.r.buffer[nd.pushed])]) ++
            ((nd.r.buffer.drop (nd.pushed + 1)).take k).map (fun o => (i, o))⟩ := by
      have e1 : nd.pushed + (k + 1) = nd.pushed + 1 + k := by omega
      have e2 : (nd.r.buffer.drop nd.pushed).take (k + 1) =
          nd.r.buffer[nd.pushed] :: (nd.r.buffer.drop (nd.pushed + 1)).take k := by
        rw [List.drop_eq_getElem_cons hlt, List.take_succ_cons]
      rw [List.set_set, e1, e2]
      simp
    rw [e]
    exact (GReaches.step (.refl g) s1).trans ih

/-- the operations node `i` executes when it consumes the entries `seg` -/
def pullOps (i : Nat) (seg : List (Nat × Op)) : List Op := (seg.filter (fun e => e.1 ≠ i)).map (·.2)

theorem execAll_append (r : Replica) (a b : List Op) : execAll r (a ++ b) = execAll (execAll r a) b := by
  simp [execAll, List.foldl_append]

theorem pull_many (typ : DtType) : ∀ (k : Nat) (g : GNet) (i : Nat) (nd : GNode), g.nodes[i]? = some nd →
    nd.pulled + k ≤ g.log.length →
    GReaches typ g ⟨g.nodes.set i { nd with r := execAll nd.r (pullOps i ((g.log.drop nd.pulled).take k)),
                                            pulled := nd.pulled + k }, g.log⟩
  | 0, g, i, nd, hi, _ => by
    have e : ({ nd with r := execAll nd.r (pullOps i ((g.log.drop nd.pulled).take 0)), pulled := nd.pulled + 0 } : GNode)
        = nd := by cases nd; rfl
    rw [e, set_self hi]
    exact .refl g
  | k + 1, g, i, nd, hi, hle => by
    have hlt : nd.pulled < g.log.length := by omega
    have hilt := (List.getElem?_eq_some_iff.mp hi).1
    have s1 : GStep typ g _ := .pull g i nd g.log[nd.pulled].1 g.log[nd.pulled].2 hi (List.getElem?_eq_getElem hlt)
    let nd1 : GNode := { nd with r := if g.log[nd.pulled].1 = i then nd.r else (nd.r.execRemoteBase g.log[nd.pulled].2).1,
                                 pulled := nd.pulled + 1 }
    have ih := pull_many typ k ⟨g.nodes.set i nd1, g.log⟩ i nd1 (by simp [hilt]) (by simp [nd1]; omega)
    have e2 : (g.log.drop nd.pulled).take (k + 1) = g.log[nd.pulled] :: (g.log.drop (nd.pulled + 1)).take k := by
      rw [List.drop_eq_getElem_cons hlt, List.take_succ_cons]
    have e3 : execAll nd.r (pullOps i ((g.log.drop nd.pulled).take (k + 1))) =
        execAll nd1.r (pullOps i ((g.log.drop nd1.pulled).take k)) := by
      rw [e2]
      by_cases ha : g.log[nd.pulled].1 = i
      · simp [pullOps, ha, nd1]
      · simp [pullOps, ha, nd1, execAll]
    have e : (⟨g.nodes.set i ⟨execAll nd.r (pullOps i ((g.log.drop nd.pulled).take (k + 1))), nd.pushed,
          nd.pulled + (k + 1)⟩, g.log⟩ : GNet) =
        ⟨(g.nodes.set i nd1).set i ⟨execAll nd1.r (pullOps i ((g.log.drop nd1.pulled).take k)), nd1.pushed,
          nd1.pulled + k⟩, g.log⟩ := by
      have e1 : nd.pulled + (k + 1) = nd.pulled + 1 + k := by omega
      rw [List.set_set, e3, e1]
    show GReaches typ g ⟨g.nodes.set i ⟨execAll nd.r (pullOps i ((g.log.drop nd.pulled).take (k + 1))), nd.pushed,
      nd.pulled + (k + 1)⟩, g.log⟩
    rw [e]
    exact (GReaches.step (.refl g) s1).trans ih


/-! ## 3. one step of the combined system = finitely many steps of the ideal-log system -/

def cuidF (cuids : List String) (i : Nat) : String := cuids.getD i ""

/-- the datatype view: node `i` has pushed what the server has recorded for it and pulled up to its checkpoint -/
def netOf (cuids : List String) (S : RSys) : GNet :=
  ⟨S.clients.map (fun cl => ⟨cl.r, (S.recOf cl.cuid).cseq, cl.cp.sseq⟩),
   S.log.map (fun o => (cuids.idxOf o.id.cuid, o))⟩

structure ROK (cuids : List String) (S : RSys) : Prop where
  nodup : cuids.Nodup
  ids : S.clients.map RClient.cuid = cuids
  seq : ∀ cl ∈ S.clients, cl.r.opId.seq = cl.r.buffer.length

/-- what a public call does to buffer and clock: nothing, or ONE operation with the next identifier is queued -/
def CallShape (r r' : Replica) : Prop :=
  (r'.buffer = r.buffer ∧ r'.opId = r.opId) ∨
    ∃ o, r'.buffer = r.buffer ++ [o] ∧ o.id = r.opId.next ∧ r'.opId = r.opId.next

def CallFacts (typ : DtType) : Prop :=
  ∀ (cuid : Nat → String) (n : Nat) (g : GNet), GReach typ cuid n g → ∀ (i : Nat) (nd : GNode), g.nodes[i]? = some nd →
    ∀ c : Call, callOK typ c → CallShape nd.r (nd.r.call c).1

theorem sync_seq (L : OpId) (k : Nat) : (L.syncLamport k).seq = L.seq := by
  unfold OpId.syncLamport; split <;> rfl

theorem execAll_buffer : ∀ (ops : List Op) (r : Replica), (execAll r ops).buffer = r.buffer
  | [], r => rfl
  | o :: os, r => by
    show (execAll (r.execRemoteBase o).1 os).buffer = _
    rw [execAll_buffer os, LNet.execRemoteBase_buffer]

theorem execAll_cuid : ∀ (ops : List Op) (r : Replica), (execAll r ops).opId.cuid = r.opId.cuid
  | [], r => rfl
  | o :: os, r => by
    show (execAll (r.execRemoteBase o).1 os).opId.cuid = _
    rw [execAll_cuid os, LNet.execRemoteBase_opId, LNet.sync_cuid]

theorem execAll_seq : ∀ (ops : List Op) (r : Replica), (execAll r ops).opId.seq = r.opId.seq
  | [], r => rfl
  | o :: os, r => by
    show (execAll (r.execRemoteBase o).1 os).opId.seq = _
    rw [execAll_seq os, LNet.execRemoteBase_opId, sync_seq]

theorem CallShape.cuid {r r' : Replica} (h : CallShape r r') : r'.opId.cuid = r.opId.cuid := by
  rcases h with ⟨_, h⟩ | ⟨o, _, _, h⟩ <;> rw [h]
  rfl

theorem map_set_same {α β : Type} {l : List α} {i : Nat} {a b : α} (f : α → β) (hi : l[i]? = some a) (h : f b = f a) :
    (l.set i b).map f = l.map f := by
  rw [List.map_set, h]
  exact set_self (by simp [hi])

namespace ROK
variable {cuids : List String} {S : RSys}

theorem at_ (h : ROK cuids S) {i : Nat} {cl : RClient} (hi : S.clients[i]? = some cl) : cuids[i]? = some cl.cuid := by
  rw [← h.ids]; simp [hi]

theorem idx (h : ROK cuids S) {i : Nat} {cl : RClient} (hi : S.clients[i]? = some cl) : cuids.idxOf cl.cuid = i :=
  idxOf_of_getElem? h.nodup (h.at_ hi)

theorem cuid_ne (h : ROK cuids S) {i j : Nat} {a b : RClient} (hi : S.clients[i]? = some a) (hj : S.clients[j]? = some b)
    (hne : j ≠ i) : b.cuid ≠ a.cuid := by
  intro e
  have h1 := h.idx hi
  have h2 := h.idx hj
  rw [e] at h2
  omega

/-- a client changes, keeping its client identifier and `seq = buffer.length` -/
theorem update (h : ROK cuids S) {i : Nat} {cl cl' : RClient} (hi : S.clients[i]? = some cl) (hu : cl'.cuid = cl.cuid)
    (hs : cl'.r.opId.seq = cl'.r.buffer.length) : ROK cuids { S with clients := S.clients.set i cl' } := by
  refine ⟨h.nodup, ?_, ?_⟩
  · show (S.clients.set i cl').map RClient.cuid = cuids
    rw [map_set_same _ hi hu]; exact h.ids
  · intro b hb
    rcases List.mem_or_eq_of_mem_set hb with hb | rfl
    · exact h.seq b hb
    · exact hs

end ROK

theorem view_receive (cl : RClient) (p : PResp) : (cl.receive p).view = cl.view.receive p := by
  simp [RClient.receive, RClient.view, PClient.receive, execAll_cuid, execAll_buffer, RClient.cuid]

theorem proj_get {S : RSys} {i : Nat} {cl : RClient} (hi : S.clients[i]? = some cl) :
    (proj S).clients[i]? = some cl.view := by simp [proj, hi]

/-- the protocol view of a step: a stutter or one step of the protocol -/
theorem proj_step {typ : DtType} {cuids : List String} {S S' : RSys} (hok : ROK cuids S)
    (hcs : ∀ (i : Nat) (cl : RClient) (c : Call), S.clients[i]? = some cl → callOK typ c → CallShape cl.r (cl.r.call c).1)
    (st : RStep typ S S') : proj S' = proj S ∨ PStep (proj S) (proj S') := by
  cases st with
  | call i cl c hi hc =>
    have hsh := hcs i cl c hi hc
    rcases hsh with ⟨hb, hid⟩ | ⟨o, hb, hoid, hid⟩
    · left
      have hv : ({ cl with r := (cl.r.call c).1 } : RClient).view = cl.view := by
        simp [RClient.view, hb, hid]
      show (⟨(S.clients.set i _).map RClient.view, S.log, S.cps, S.reqs, S.resps⟩ : PSys) = _
      rw [map_set_same _ hi hv]; rfl
    · right
      have hv : ({ cl with r := (cl.r.call c).1 } : RClient).view = { cl.view with buf := cl.view.buf ++ [o] } := by
        simp [RClient.view, hb, hid, OpId.next]
      have := PStep.localOp (proj S) i cl.view o (proj_get hi) (by rw [hoid]; rfl)
        (by rw [hoid]; show cl.r.opId.seq + 1 = _; rw [hok.seq cl (List.mem_of_getElem? hi)]; rfl)
      show PStep (proj S) ⟨(S.clients.set i _).map RClient.view, S.log, S.cps, S.reqs, S.resps⟩
      rw [List.map_set, hv]
      exact this
  | send i cl hi => exact Or.inr (PStep.send (proj S) i cl.view (proj_get hi))
  | serve r cl cp2 docs hr hi hp => exact Or.inr (PStep.serve (proj S) r cl.view cp2 docs hr (proj_get hi) hp)
  | refuse r cl code hr hi hp => exact Or.inl rfl
  | deliver p cl hp hi =>
    right
    have := PStep.deliver (proj S) p cl.view hp (proj_get hi)
    show PStep (proj S) ⟨(S.clients.set p.i _).map RClient.view, S.log, S.cps, S.reqs, S.resps⟩
    rw [List.map_set, view_receive]
    exact this

theorem rok_step {typ : DtType} {cuids : List String} {S S' : RSys} (hok : ROK cuids S)
    (hcs : ∀ (i : Nat) (cl : RClient) (c : Call), S.clients[i]? = some cl → callOK typ c → CallShape cl.r (cl.r.call c).1)
    (st : RStep typ S S') : ROK cuids S' := by
  cases st with
  | call i cl c hi hc =>
    have hsh := hcs i cl c hi hc
    apply hok.update (cl' := { cl with r := (cl.r.call c).1 }) hi hsh.cuid
    have hs := hok.seq cl (List.mem_of_getElem? hi)
    rcases hsh with ⟨hb, hid⟩ | ⟨o, hb, hoid, hid⟩
    · show (cl.r.call c).1.opId.seq = (cl.r.call c).1.buffer.length
      rw [hb, hid]; exact hs
    · show (cl.r.call c).1.opId.seq = (cl.r.call c).1.buffer.length
      rw [hb, hid]; simp [OpId.next, hs]
  | send i cl hi => exact ⟨hok.nodup, hok.ids, hok.seq⟩
  | serve r cl cp2 docs hr hi hp => exact ⟨hok.nodup, hok.ids, hok.seq⟩
  | refuse r cl code hr hi hp => exact hok
  | deliver p cl hp hi =>
    apply hok.update (cl' := cl.receive p) hi
    · exact execAll_cuid _ _
    · show (execAll cl.r _).opId.seq = (execAll cl.r _).buffer.length
      rw [execAll_seq, execAll_buffer]; exact hok.seq cl (List.mem_of_getElem? hi)


theorem rrecOf_alSet_self (cps : List (String × CheckPoint)) (u : String) (cp : CheckPoint) :
    (alFind u (alSet u cp cps)).getD ⟨0, 0⟩ = cp := by
  simp [SL.alFind_alSet]

theorem rrecOf_alSet_ne (cps : List (String × CheckPoint)) {u v : String} (cp : CheckPoint) (h : v ≠ u) :
    (alFind v (alSet u cp cps)).getD ⟨0, 0⟩ = (alFind v cps).getD ⟨0, 0⟩ := by
  rw [alFind_alSet_ne _ _ h]

/-- the log entries node `i` (client identifier `u`) executes are the operations of the others -/
theorem pullOps_map {cuids : List String} (hnd : cuids.Nodup) {i : Nat} {u : String} (hu : cuids[i]? = some u)
    (l : List Op) : pullOps i (l.map (fun o => (cuids.idxOf o.id.cuid, o))) = frn u l := by
  unfold pullOps frn
  rw [List.filter_map, List.map_map]
  have : ((fun e : Nat × Op => e.2) ∘ fun o : Op => (cuids.idxOf o.id.cuid, o)) = id := rfl
  rw [this, List.map_id]
  apply List.filter_congr
  intro o _
  have := idxOf_ne_iff hnd hu o.id.cuid
  simp only [Function.comp, decide_eq_decide]
  exact this

theorem net_step {typ : DtType} {cuids : List String} {S S' : RSys} (hok : ROK cuids S) (hP : PInv (proj S))
    (hcs : ∀ (i : Nat) (cl : RClient) (c : Call), S.clients[i]? = some cl → callOK typ c → CallShape cl.r (cl.r.call c).1)
    (st : RStep typ S S') : GReaches typ (netOf cuids S) (netOf cuids S') := by
  cases st with
  | call i cl c hi hc =>
    have hcu : (cl.r.call c).1.opId.cuid = cl.r.opId.cuid := (hcs i cl c hi hc).cuid
    have hget : (netOf cuids S).nodes[i]? = some ⟨cl.r, (S.recOf cl.cuid).cseq, cl.cp.sseq⟩ := by simp [netOf, hi]
    have s1 := GStep.call (netOf cuids S) i _ c hget hc
    have e : netOf cuids { S with clients := S.clients.set i { cl with r := (cl.r.call c).1 } } =
        ⟨(netOf cuids S).nodes.set i ⟨(cl.r.call c).1, (S.recOf cl.cuid).cseq, cl.cp.sseq⟩, (netOf cuids S).log⟩ := by
      simp only [netOf, List.map_set, RSys.recOf, RClient.cuid, hcu]
    rw [e]
    exact .step (.refl _) s1
  | send i cl hi => exact .refl _
  | refuse r cl code hr hi hp => exact .refl _
  | serve r cl cp2 docs hr hi hp =>
    have hiP := proj_get hi
    have hc := hP.cli r.i cl.view hiP
    obtain ⟨n, hn, hacc, hcs2, hss, hrs⟩ := serve_facts hc (hP.req r hr cl.view hiP) hp
    have hrcle : (S.recOf cl.cuid).cseq ≤ cl.r.buffer.length := hc.rcLe
    have hget : (netOf cuids S).nodes[r.i]? = some ⟨cl.r, (S.recOf cl.cuid).cseq, cl.cp.sseq⟩ := by simp [netOf, hi]
    have hpm := push_many typ (n - (S.recOf cl.cuid).cseq) (netOf cuids S) r.i _ hget (by
      show (S.recOf cl.cuid).cseq + (n - (S.recOf cl.cuid).cseq) ≤ cl.r.buffer.length
      have : n ≤ cl.r.buffer.length := hn
      omega)
    have hacc' : docs.map (·.op) = (cl.r.buffer.drop (S.recOf cl.cuid).cseq).take (n - (S.recOf cl.cuid).cseq) := by
      rw [hacc, List.drop_take]; rfl
    have hcs3 : cp2.cseq = (S.recOf cl.cuid).cseq + (n - (S.recOf cl.cuid).cseq) := by
      rw [hcs2]; show max (S.recOf cl.cuid).cseq n = _; omega
    have e : netOf cuids ⟨S.clients, S.log ++ docs.map (·.op), alSet cl.cuid cp2 S.cps, S.reqs,
          S.resps ++ [⟨r.i, S.log.drop r.s, cp2⟩]⟩ =
        ⟨(netOf cuids S).nodes.set r.i ⟨cl.r, (S.recOf cl.cuid).cseq + (n - (S.recOf cl.cuid).cseq), cl.cp.sseq⟩,
          (netOf cuids S).log ++ ((cl.r.buffer.drop (S.recOf cl.cuid).cseq).take (n - (S.recOf cl.cuid).cseq)).map
            (fun o => (r.i, o))⟩ := by
      unfold netOf
      congr 1
      · rw [map_eq_set S.clients (fun b => (⟨b.r, (S.recOf b.cuid).cseq, b.cp.sseq⟩ : GNode)) _ r.i cl hi]
        · simp only [RSys.recOf, rrecOf_alSet_self, hcs3]
        · intro j b hj hne
          have := hok.cuid_ne hi hj hne
          simp only [RSys.recOf, rrecOf_alSet_ne _ _ this]
      · simp only [List.map_append, hacc']
        congr 1
        apply List.map_congr_left
        intro o ho
        have hob : o ∈ cl.view.buf := List.mem_of_mem_drop (List.mem_of_mem_take ho)
        have hou : o.id.cuid = cl.cuid := mem_buf_cuid hc hob
        rw [hou, hok.idx hi]
    show GReaches typ (netOf cuids S) (netOf cuids ⟨S.clients, S.log ++ docs.map (·.op), alSet cl.cuid cp2 S.cps, S.reqs,
          S.resps ++ [⟨r.i, S.log.drop r.s, cp2⟩]⟩)
    rw [e]
    exact hpm
  | deliver p cl hp hi =>
    have hiP := proj_get hi
    have hc := hP.cli p.i cl.view hiP
    obtain ⟨e0, sr, h1, h2, h3, h4, h5, h6⟩ := hP.resp p hp cl.view hiP
    have hL : (proj S).log = S.log := rfl
    rw [hL] at h1 h4 h5 h6
    have hnfo : newForeignOps cl.cuid cl.cp p.cp p.ops = frn cl.cuid ((S.log.take p.cp.sseq).drop cl.cp.sseq) := by
      rw [h1]
      exact pull_count cl.cuid S.log cl.cp.sseq cl.cp.cseq p.cp.sseq p.cp.cseq e0 sr hc.sLe h4 h3 h2 hc.j2 h6.symm h5
    have hget : (netOf cuids S).nodes[p.i]? = some ⟨cl.r, (S.recOf cl.cuid).cseq, cl.cp.sseq⟩ := by simp [netOf, hi]
    have hsle : cl.cp.sseq ≤ S.log.length := hc.sLe
    have hpm := pull_many typ (p.cp.sseq - cl.cp.sseq) (netOf cuids S) p.i _ hget (by simp [netOf]; omega)
    have hseg : pullOps p.i (((netOf cuids S).log.drop cl.cp.sseq).take (p.cp.sseq - cl.cp.sseq)) =
        newForeignOps cl.cuid cl.cp p.cp p.ops := by
      rw [hnfo, List.drop_take]
      show pullOps p.i (((S.log.map _).drop _).take _) = _
      rw [← List.map_drop, ← List.map_take, pullOps_map hok.nodup (hok.at_ hi)]
    have e : netOf cuids { S with clients := S.clients.set p.i (cl.receive p) } =
        ⟨(netOf cuids S).nodes.set p.i ⟨execAll cl.r (pullOps p.i (((netOf cuids S).log.drop cl.cp.sseq).take
            (p.cp.sseq - cl.cp.sseq))), (S.recOf cl.cuid).cseq, cl.cp.sseq + (p.cp.sseq - cl.cp.sseq)⟩,
          (netOf cuids S).log⟩ := by
      rw [hseg]
      have hm : max cl.cp.sseq p.cp.sseq = cl.cp.sseq + (p.cp.sseq - cl.cp.sseq) := by omega
      simp only [netOf, List.map_set, RSys.recOf, RClient.cuid, RClient.receive, execAll_cuid, hm]
    rw [e]
    exact hpm


/-! ## 4. the joint invariant: both views are reachable -/

structure Good (typ : DtType) (cuids : List String) (S : RSys) : Prop where
  preach : PReach cuids (proj S)
  ok : ROK cuids S
  greach : GReach typ (cuidF cuids) cuids.length (netOf cuids S)

theorem cuidF_distinct {cuids : List String} (hnd : cuids.Nodup) : CuidsDistinct (cuidF cuids) cuids.length := by
  intro i j hi hj h
  simp only [cuidF, List.getD_eq_getElem?_getD, List.getElem?_eq_getElem hi, List.getElem?_eq_getElem hj,
    Option.getD_some] at h
  exact (List.Nodup.getElem_inj_iff hnd).mp h

theorem new_cuid (typ : DtType) (u : String) : (Replica.new typ u false).opId.cuid = u := rfl
theorem new_buffer (typ : DtType) (u : String) : (Replica.new typ u false).buffer = [] := rfl
theorem new_seq (typ : DtType) (u : String) : (Replica.new typ u false).opId.seq = 0 := rfl

theorem good_init (typ : DtType) {cuids : List String} (hnd : cuids.Nodup) : Good typ cuids (RSys.init typ cuids) := by
  refine ⟨?_, ⟨hnd, ?_, ?_⟩, ?_⟩
  · have : proj (RSys.init typ cuids) = PSys.init cuids := by
      simp [proj, RSys.init, PSys.init, RClient.view, new_cuid, new_buffer, Function.comp_def]
    rw [this]; exact .init hnd
  · simp [RSys.init, RClient.cuid, new_cuid, Function.comp_def]
  · intro cl hcl
    simp only [RSys.init, List.mem_map] at hcl
    obtain ⟨u, _, rfl⟩ := hcl
    rfl
  · have : netOf cuids (RSys.init typ cuids) = GNet.init typ (cuidF cuids) cuids.length := by
      unfold netOf GNet.init RSys.init
      congr 1
      apply List.ext_getElem
      · simp
      · intro i h1 h2
        simp at h1
        simp [RSys.recOf, alFind, cuidF, RClient.cuid, h1]
    rw [this]; exact .init (cuidF_distinct hnd)

theorem netOf_get {cuids : List String} {S : RSys} {i : Nat} {cl : RClient} (hi : S.clients[i]? = some cl) :
    (netOf cuids S).nodes[i]? = some ⟨cl.r, (S.recOf cl.cuid).cseq, cl.cp.sseq⟩ := by simp [netOf, hi]

theorem good_step {typ : DtType} (hcf : CallFacts typ) {cuids : List String} {S S' : RSys} (h : Good typ cuids S)
    (st : RStep typ S S') : Good typ cuids S' := by
  have hcs : ∀ (i : Nat) (cl : RClient) (c : Call), S.clients[i]? = some cl → callOK typ c →
      CallShape cl.r (cl.r.call c).1 := fun i cl c hi hc => hcf _ _ _ h.greach i _ (netOf_get hi) c hc
  refine ⟨?_, rok_step h.ok hcs st, greach_of_reaches h.greach (net_step h.ok (proto_inv h.preach) hcs st)⟩
  rcases proj_step h.ok hcs st with e | s
  · rw [e]; exact h.preach
  · exact .step h.preach s

theorem good_reach {typ : DtType} (hcf : CallFacts typ) {cuids : List String} {S : RSys} (h : RReach typ cuids S) :
    Good typ cuids S := by
  induction h with
  | init hnd => exact good_init typ hnd
  | step _ st ih => exact good_step hcf ih st


/-! ## 5. a call never skips a sequence number (per datatype) -/

/-- ANY datatype: a public call that does not panic leaves buffer and clock alone or queues ONE operation with the next
    identifier (a refused local execution rolls the identifier back; a panic would not) -/
theorem callShape_of_no_panic (r : Replica) (c : Call) (h : (r.call c).2.isPanic = false) :
    CallShape r (r.call c).1 := by
  unfold Replica.call at h ⊢
  cases hp : c.prepare r.state with
  | done o => exact Or.inl ⟨rfl, rfl⟩
  | op b post =>
    rw [hp] at h
    simp only at h ⊢
    unfold Replica.callLocal Replica.execLocalBase at h ⊢
    by_cases hm : b.isMeta = true
    · simp only [hm, if_true]
      exact Or.inr ⟨_, rfl, rfl, rfl⟩
    · simp only [hm, Bool.false_eq_true, if_false] at h ⊢
      cases he : execLocal r.state r.opId.next.ts b with
      | ok res =>
        obtain ⟨s', b', ret⟩ := res
        exact Or.inr ⟨_, rfl, rfl, rfl⟩
      | err e => exact Or.inl ⟨rfl, MNet.next_rollBack _⟩
      | panic w => rw [he] at h; simp [mapOut, Outcome.isPanic] at h

theorem toL_get {g : GNet} {i : Nat} {nd : GNode} (hi : g.nodes[i]? = some nd) :
    (toL g).nodes[i]? = some ⟨nd.r, nd.pushed, nd.pulled⟩ := by simp [toL, hi]
theorem toM_get {g : GNet} {i : Nat} {nd : GNode} (hi : g.nodes[i]? = some nd) :
    (toM g).nodes[i]? = some ⟨nd.r, nd.pushed, nd.pulled⟩ := by simp [toM, hi]
theorem toD_get {g : GNet} {i : Nat} {nd : GNode} (hi : g.nodes[i]? = some nd) :
    (toD g).nodes[i]? = some ⟨nd.r, nd.pushed, nd.pulled⟩ := by simp [toD, hi]

theorem callFacts_list : CallFacts .list := by
  intro cuid n g hg i nd hi c _
  obtain ⟨ap, I⟩ := LNet.inv_reach (reach_toL hg)
  have N := I.node i _ (toL_get hi)
  exact callShape_of_no_panic nd.r c (LTx.call_no_panic nd.r _ N.st (RF.size_eq_liveCount _ N.lc) c)

theorem callShape_of_eq {r r' : Replica} (h : r' = r) : CallShape r r' := by subst h; exact Or.inl ⟨rfl, rfl⟩

theorem callFacts_flat {typ : DtType} (hf : MNet.Flat typ) : CallFacts typ := by
  intro cuid n g hg i nd hi c _
  obtain ⟨ap, I⟩ := MNet.inv_reach hf (reach_toM hf hg)
  have N := I.node i _ (toM_get hi)
  rcases MNet.call_cases hf nd.r _ N.st N.causal_ops c with h | ⟨o, h1, h2, h3, _⟩
  · exact callShape_of_eq h
  · exact Or.inr ⟨o, h1, h2, h3⟩

theorem callFacts_doc : CallFacts .document := by
  intro cuid n g hg i nd hi c hc
  obtain ⟨ap, I⟩ := DNet.inv_reach (reach_toD hg)
  have N := I.node i _ (toD_get hi)
  rcases DNet.call_cases N.life N.st hc with h | ⟨o, x, h1, h2, h3, _⟩
  · exact callShape_of_eq h
  · exact Or.inr ⟨o, h1, h2, h3⟩

theorem callFacts_all : ∀ typ : DtType, CallFacts typ
  | .list => callFacts_list
  | .map => callFacts_flat MNet.flat_map
  | .counter => callFacts_flat MNet.flat_counter
  | .document => callFacts_doc

/-! ## 6. the two views of a reachable combined state -/

/-- the protocol view of every reachable combined state is a reachable protocol state (so J1–J3 and all of
    `Protocol.lean` apply) -/
theorem proj_reach {typ : DtType} {cuids : List String} {S : RSys} (h : RReach typ cuids S) : PReach cuids (proj S) :=
  (good_reach (callFacts_all typ) h).preach

/-- … and its datatype view is a REACHABLE state of the ideal-log system -/
theorem net_view {typ : DtType} {cuids : List String} {S : RSys} (h : RReach typ cuids S) :
    GReach typ (cuidF cuids) cuids.length (netOf cuids S) :=
  (good_reach (callFacts_all typ) h).greach


/-! ## 7. reading the Net theorems through `net_view`: notions on the combined state (ghost-free) -/

/-- the operations client `cl` has: its own buffer and the operations of the others among the first `cp.sseq` log entries -/
def RSys.opsOf (S : RSys) (cl : RClient) : List Op :=
  cl.r.buffer ++ (S.log.take cl.cp.sseq).filter (fun o => o.id.cuid ≠ cl.cuid)

/-- clients `i` and `j` have the same operations (as multisets) -/
def SameOpsR (S : RSys) (i j : Nat) : Prop :=
  ∃ a b, S.clients[i]? = some a ∧ S.clients[j]? = some b ∧ (S.opsOf a).Perm (S.opsOf b)

/-- client `cl` is caught up: it has seen the whole log, and everything it issued is in the log -/
def CaughtUp (S : RSys) (cl : RClient) : Prop :=
  cl.cp.sseq = S.log.length ∧ (S.recOf cl.cuid).cseq = cl.r.buffer.length

def QuiescentR (S : RSys) : Prop := ∀ cl ∈ S.clients, CaughtUp S cl

/-- with the ghost field: what a client has is its buffer and what it has executed (J3) -/
theorem opsOf_eq_applied {typ : DtType} {cuids : List String} {S : RSys} (h : RReach typ cuids S) {cl : RClient}
    (hcl : cl ∈ S.clients) : S.opsOf cl = cl.r.buffer ++ cl.applied := by
  obtain ⟨i, hi⟩ := List.mem_iff_getElem?.mp hcl
  have c := (proto_inv (proj_reach h)).cli i cl.view (proj_get hi)
  have := c.j3
  unfold RSys.opsOf
  rw [show cl.applied = cl.view.applied from rfl, this]
  rfl

/-- the hypothesis of `Protocol.quiescent_converged` (everything acknowledged) implies `CaughtUp` -/
theorem caughtUp_of_acked {typ : DtType} {cuids : List String} {S : RSys} (h : RReach typ cuids S) {cl : RClient}
    (hcl : cl ∈ S.clients) (h1 : cl.cp.sseq = S.log.length) (h2 : cl.cp.cseq = cl.r.buffer.length) : CaughtUp S cl := by
  obtain ⟨i, hi⟩ := List.mem_iff_getElem?.mp hcl
  have c := (proto_inv (proj_reach h)).cli i cl.view (proj_get hi)
  have a := c.cLe
  have b := c.rcLe
  refine ⟨h1, ?_⟩
  show ((proj S).recOf cl.view.cuid).cseq = cl.view.buf.length
  have : cl.view.cp.cseq = cl.view.buf.length := h2
  omega

theorem oth_map_snd (i : Nat) (l : List (Nat × Op)) : ((l.filter fun e => !(e.1 == i)).map (·.2)) = pullOps i l := by
  unfold pullOps
  congr 1
  apply List.filter_congr
  intro e _
  by_cases h : e.1 = i <;> simp [h]

/-- the operations of node `i` in the datatype view are the operations of client `i` -/
theorem applied_view {cuids : List String} {S : RSys} (hok : ROK cuids S) {i : Nat} {cl : RClient}
    (hi : S.clients[i]? = some cl) :
    cl.r.buffer ++ pullOps i (((netOf cuids S).log).take cl.cp.sseq) = S.opsOf cl := by
  unfold RSys.opsOf
  congr 1
  show pullOps i ((S.log.map _).take _) = _
  rw [← List.map_take, pullOps_map hok.nodup (hok.at_ hi)]
  rfl

theorem rok_reach {typ : DtType} {cuids : List String} {S : RSys} (h : RReach typ cuids S) : ROK cuids S :=
  (good_reach (callFacts_all typ) h).ok

theorem clients_len {typ : DtType} {cuids : List String} {S : RSys} (h : RReach typ cuids S) :
    S.clients.length = cuids.length := by
  have := (rok_reach h).ids
  rw [← this]; simp

/-! ### the List datatype -/

/-- the `LNet` state of a combined state -/
def lnetOf (cuids : List String) (S : RSys) : LNet.Net := toL (netOf cuids S)

theorem lnetOf_get {cuids : List String} {S : RSys} {i : Nat} {cl : RClient} (hi : S.clients[i]? = some cl) :
    (lnetOf cuids S).nodes[i]? = some ⟨cl.r, (S.recOf cl.cuid).cseq, cl.cp.sseq⟩ := toL_get (netOf_get hi)

/-- `net_view` for lists: the `LNet` state with the same replicas, the protocol's log (tagged with the authors), node `i`
    has pushed `(recOf cuid_i).cseq` operations and pulled `cp.sseq` entries; it is REACHABLE in `LNet`, hence satisfies
    `LNet.Inv` -/
theorem net_view_list {cuids : List String} {S : RSys} (h : RReach .list cuids S) :
    ∃ net : LNet.Net, LNet.Reach (cuidF cuids) cuids.length net ∧ (∃ ap, LNet.Inv (cuidF cuids) cuids.length net ap) ∧
      (∀ i : Nat, (S.clients[i]?).map (fun cl => cl.r.state) = (net.nodes[i]?).map (fun nd => nd.r.state)) ∧
      net.log.map (·.2) = S.log ∧
      (∀ (i : Nat) (cl : RClient), S.clients[i]? = some cl →
        net.nodes[i]? = some (⟨cl.r, (S.recOf cl.cuid).cseq, cl.cp.sseq⟩ : LNet.Node)) := by
  have hr : LNet.Reach (cuidF cuids) cuids.length (lnetOf cuids S) := reach_toL (net_view h)
  refine ⟨lnetOf cuids S, hr, LNet.inv_reach hr, ?_, ?_, fun i cl hi => lnetOf_get hi⟩
  · intro i
    cases hc : S.clients[i]? with
    | none => simp [lnetOf, toL, netOf, hc]
    | some cl => rw [lnetOf_get hc]; rfl
  · simp [lnetOf, toL, netOf, Function.comp_def]

theorem sameOps_list {cuids : List String} {S : RSys} (hok : ROK cuids S) {i j : Nat} (hs : SameOpsR S i j) :
    LNet.SameOps (lnetOf cuids S) i j := by
  obtain ⟨a, b, ha, hb, hp⟩ := hs
  refine ⟨_, _, lnetOf_get ha, lnetOf_get hb, ?_⟩
  unfold LNet.appliedOps LNet.oth
  rw [oth_map_snd, oth_map_snd]
  show (a.r.buffer ++ pullOps i ((netOf cuids S).log.take a.cp.sseq)).Perm
    (b.r.buffer ++ pullOps j ((netOf cuids S).log.take b.cp.sseq))
  rw [applied_view hok ha, applied_view hok hb]
  exact hp

theorem lnetOf_state {cuids : List String} {S : RSys} {i : Nat} (hi : i < S.clients.length)
    (hi' : i < (lnetOf cuids S).nodes.length) : (lnetOf cuids S).nodes[i].r.state = S.clients[i].r.state := by
  simp [lnetOf, toL, netOf]

theorem lnetOf_len (cuids : List String) (S : RSys) : (lnetOf cuids S).nodes.length = S.clients.length := by
  simp [lnetOf, toL, netOf]

/-- THE theorem for lists under faults: whatever the network did — requests served twice, responses lost, delivered late,
    twice, out of order — two clients that have the same operations hold the SAME list state -/
theorem faults_list_same_operations_same_state {cuids : List String} : ∀ S, RReach .list cuids S →
    ∀ i j (hi : i < S.clients.length) (hj : j < S.clients.length),
    SameOpsR S i j → S.clients[i].r.state = S.clients[j].r.state := by
  intro S h i j hi hj hs
  have hi' : i < (lnetOf cuids S).nodes.length := by rw [lnetOf_len]; exact hi
  have hj' : j < (lnetOf cuids S).nodes.length := by rw [lnetOf_len]; exact hj
  have := LNet.lnet_same_operations_same_state (lnetOf cuids S) (reach_toL (net_view h)) i j hi' hj'
    (sameOps_list (rok_reach h) hs)
  rw [lnetOf_state hi hi', lnetOf_state hj hj'] at this
  exact this

/-- two clients that are caught up hold the same list state, whatever the others still hold back -/
theorem faults_list_caught_up {cuids : List String} : ∀ S, RReach .list cuids S →
    ∀ i j (hi : i < S.clients.length) (hj : j < S.clients.length),
    CaughtUp S S.clients[i] → CaughtUp S S.clients[j] → S.clients[i].r.state = S.clients[j].r.state := by
  intro S h i j hi hj ci cj
  have hi' : i < (lnetOf cuids S).nodes.length := by rw [lnetOf_len]; exact hi
  have hj' : j < (lnetOf cuids S).nodes.length := by rw [lnetOf_len]; exact hj
  have hr : LNet.Reach (cuidF cuids) cuids.length (lnetOf cuids S) := reach_toL (net_view h)
  have hll : (lnetOf cuids S).log.length = S.log.length := by simp [lnetOf, toL, netOf]
  have gi : (lnetOf cuids S).nodes[i] = ⟨S.clients[i].r, (S.recOf S.clients[i].cuid).cseq, S.clients[i].cp.sseq⟩ := by
    simp [lnetOf, toL, netOf]
  have gj : (lnetOf cuids S).nodes[j] = ⟨S.clients[j].r, (S.recOf S.clients[j].cuid).cseq, S.clients[j].cp.sseq⟩ := by
    simp [lnetOf, toL, netOf]
  have hs := LNet.sameOps_of_caught_up hr hi' hj' (by rw [gi]; exact ci.2) (by rw [gi, hll]; exact ci.1)
    (by rw [gj]; exact cj.2) (by rw [gj, hll]; exact cj.1)
  have := LNet.lnet_same_operations_same_state (lnetOf cuids S) hr i j hi' hj' hs
  rw [lnetOf_state hi hi', lnetOf_state hj hj'] at this
  exact this

/-- when every client is caught up with the log and everything it issued is in the log, all clients agree -/
theorem faults_list_quiescent_converged {cuids : List String} : ∀ S, RReach .list cuids S → QuiescentR S →
    ∀ i j (hi : i < S.clients.length) (hj : j < S.clients.length),
    S.clients[i].r.state = S.clients[j].r.state := by
  intro S h hq i j hi hj
  exact faults_list_caught_up S h i j hi hj (hq _ (List.getElem_mem hi)) (hq _ (List.getElem_mem hj))


/-! ### the Map and the Counter datatypes -/

/-- the `MNet` state of a combined state -/
def mnetOf (cuids : List String) (S : RSys) : MNet.Net := toM (netOf cuids S)

theorem mnetOf_get {cuids : List String} {S : RSys} {i : Nat} {cl : RClient} (hi : S.clients[i]? = some cl) :
    (mnetOf cuids S).nodes[i]? = some ⟨cl.r, (S.recOf cl.cuid).cseq, cl.cp.sseq⟩ := toM_get (netOf_get hi)

theorem mnet_reach {typ : DtType} (hf : MNet.Flat typ) {cuids : List String} {S : RSys} (h : RReach typ cuids S) :
    MNet.Reach typ (cuidF cuids) cuids.length (mnetOf cuids S) := reach_toM hf (net_view h)

/-- the `MNet` state with the same replicas, the protocol's log (tagged with the authors), in which node `i` has pushed
    `(recOf cuid_i).cseq` operations and pulled `cp.sseq` entries; REACHABLE in `MNet`, hence it satisfies `MNet.Inv` -/
def FlatView (typ : DtType) (cuids : List String) (S : RSys) : Prop :=
  ∃ net : MNet.Net, MNet.Reach typ (cuidF cuids) cuids.length net ∧
    (∃ ap, MNet.Inv typ (cuidF cuids) cuids.length net ap) ∧
    (∀ i : Nat, (S.clients[i]?).map (fun cl => cl.r.state) = (net.nodes[i]?).map (fun nd => nd.r.state)) ∧
    net.log.map (·.2) = S.log ∧
    (∀ (i : Nat) (cl : RClient), S.clients[i]? = some cl →
      net.nodes[i]? = some (⟨cl.r, (S.recOf cl.cuid).cseq, cl.cp.sseq⟩ : MNet.Node))

/-- `net_view` for maps and counters -/
theorem net_view_flat {typ : DtType} (hf : MNet.Flat typ) {cuids : List String} {S : RSys} (h : RReach typ cuids S) :
    FlatView typ cuids S := by
  have hr := mnet_reach hf h
  refine ⟨mnetOf cuids S, hr, MNet.inv_reach hf hr, ?_, ?_, fun i cl hi => mnetOf_get hi⟩
  · intro i
    cases hc : S.clients[i]? with
    | none => simp [mnetOf, toM, netOf, hc]
    | some cl => rw [mnetOf_get hc]; rfl
  · simp [mnetOf, toM, netOf, Function.comp_def]

theorem net_view_map {cuids : List String} {S : RSys} (h : RReach .map cuids S) : FlatView .map cuids S :=
  net_view_flat MNet.flat_map h
theorem net_view_counter {cuids : List String} {S : RSys} (h : RReach .counter cuids S) : FlatView .counter cuids S :=
  net_view_flat MNet.flat_counter h

theorem sameOps_flat {cuids : List String} {S : RSys} (hok : ROK cuids S) {i j : Nat} (hs : SameOpsR S i j) :
    MNet.SameOps (mnetOf cuids S) i j := by
  obtain ⟨a, b, ha, hb, hp⟩ := hs
  refine ⟨_, _, mnetOf_get ha, mnetOf_get hb, ?_⟩
  unfold MNet.appliedOps MNet.oth
  rw [oth_map_snd, oth_map_snd]
  show (a.r.buffer ++ pullOps i ((netOf cuids S).log.take a.cp.sseq)).Perm
    (b.r.buffer ++ pullOps j ((netOf cuids S).log.take b.cp.sseq))
  rw [applied_view hok ha, applied_view hok hb]
  exact hp

theorem mnetOf_len (cuids : List String) (S : RSys) : (mnetOf cuids S).nodes.length = S.clients.length := by
  simp [mnetOf, toM, netOf]

theorem mnetOf_node {cuids : List String} {S : RSys} {i : Nat} (hi : i < S.clients.length)
    (hi' : i < (mnetOf cuids S).nodes.length) :
    (mnetOf cuids S).nodes[i] = ⟨S.clients[i].r, (S.recOf S.clients[i].cuid).cseq, S.clients[i].cp.sseq⟩ := by
  simp [mnetOf, toM, netOf]

theorem mnetOf_loglen (cuids : List String) (S : RSys) : (mnetOf cuids S).log.length = S.log.length := by
  simp [mnetOf, toM, netOf]

theorem sameOps_flat_caught_up {typ : DtType} (hf : MNet.Flat typ) {cuids : List String} {S : RSys}
    (h : RReach typ cuids S) {i j : Nat} (hi : i < S.clients.length) (hj : j < S.clients.length)
    (ci : CaughtUp S S.clients[i]) (cj : CaughtUp S S.clients[j]) : MNet.SameOps (mnetOf cuids S) i j := by
  have hi' : i < (mnetOf cuids S).nodes.length := by rw [mnetOf_len]; exact hi
  have hj' : j < (mnetOf cuids S).nodes.length := by rw [mnetOf_len]; exact hj
  exact MNet.sameOps_of_caught_up hf (mnet_reach hf h) hi' hj'
    (by rw [mnetOf_node hi hi']; exact ci.2) (by rw [mnetOf_node hi hi', mnetOf_loglen]; exact ci.1)
    (by rw [mnetOf_node hj hj']; exact cj.2) (by rw [mnetOf_node hj hj', mnetOf_loglen]; exact cj.1)

/-- what "equal reads" means for two LWW maps: `get` of every key, `Size`, the JSON view pointwise, up to a permutation,
    key-sorted, and canonical -/
def SameReads (mi mj : LwwMap) : Prop :=
  (∀ k, mi.get k = mj.get k) ∧ mi.size = mj.size ∧
    (∀ k, alFind k mi.live = alFind k mj.live) ∧ mi.live.Perm mj.live ∧ MNet.sortedView mi = MNet.sortedView mj ∧
    MNet.jsonView mi = MNet.jsonView mj

/-- THE theorem for maps under faults: two clients that have the same operations answer every read alike -/
theorem faults_map_same_operations_same_reads {cuids : List String} : ∀ S, RReach .map cuids S →
    ∀ i j (hi : i < S.clients.length) (hj : j < S.clients.length) mi mj,
    S.clients[i].r.state = .map mi → S.clients[j].r.state = .map mj → SameOpsR S i j → SameReads mi mj := by
  intro S h i j hi hj mi mj hmi hmj hs
  have hi' : i < (mnetOf cuids S).nodes.length := by rw [mnetOf_len]; exact hi
  have hj' : j < (mnetOf cuids S).nodes.length := by rw [mnetOf_len]; exact hj
  exact MNet.mnet_same_operations_same_reads (mnetOf cuids S) (mnet_reach MNet.flat_map h) i j hi' hj' mi mj
    (by rw [mnetOf_node hi hi']; exact hmi) (by rw [mnetOf_node hj hj']; exact hmj) (sameOps_flat (rok_reach h) hs)

theorem faults_map_caught_up {cuids : List String} : ∀ S, RReach .map cuids S →
    ∀ i j (hi : i < S.clients.length) (hj : j < S.clients.length) mi mj,
    S.clients[i].r.state = .map mi → S.clients[j].r.state = .map mj →
    CaughtUp S S.clients[i] → CaughtUp S S.clients[j] → SameReads mi mj := by
  intro S h i j hi hj mi mj hmi hmj ci cj
  have hi' : i < (mnetOf cuids S).nodes.length := by rw [mnetOf_len]; exact hi
  have hj' : j < (mnetOf cuids S).nodes.length := by rw [mnetOf_len]; exact hj
  exact MNet.mnet_same_operations_same_reads (mnetOf cuids S) (mnet_reach MNet.flat_map h) i j hi' hj' mi mj
    (by rw [mnetOf_node hi hi']; exact hmi) (by rw [mnetOf_node hj hj']; exact hmj)
    (sameOps_flat_caught_up MNet.flat_map h hi hj ci cj)

/-- … and when every client is caught up, all clients answer every read alike -/
theorem faults_map_quiescent_converged {cuids : List String} : ∀ S, RReach .map cuids S → QuiescentR S →
    ∀ i j (hi : i < S.clients.length) (hj : j < S.clients.length) mi mj,
    S.clients[i].r.state = .map mi → S.clients[j].r.state = .map mj → SameReads mi mj := by
  intro S h hq i j hi hj mi mj hmi hmj
  exact faults_map_caught_up S h i j hi hj mi mj hmi hmj (hq _ (List.getElem_mem hi)) (hq _ (List.getElem_mem hj))

/-- the state of a map client is a well-formed map (so the hypotheses `… = .map mi` above can always be met) -/
theorem faults_map_state_is_map {cuids : List String} : ∀ S, RReach .map cuids S →
    ∀ cl ∈ S.clients, ∃ m, cl.r.state = .map m ∧ m.WF := by
  intro S h cl hcl
  obtain ⟨i, hi⟩ := List.mem_iff_getElem?.mp hcl
  exact MNet.mnet_state_is_map (mnetOf cuids S) (mnet_reach MNet.flat_map h) _ (List.mem_of_getElem? (mnetOf_get hi))

/-- THE theorem for counters under faults: same operations ⇒ the SAME state (plain equality) -/
theorem faults_counter_same_operations_same_state {cuids : List String} : ∀ S, RReach .counter cuids S →
    ∀ i j (hi : i < S.clients.length) (hj : j < S.clients.length),
    SameOpsR S i j → S.clients[i].r.state = S.clients[j].r.state := by
  intro S h i j hi hj hs
  have hi' : i < (mnetOf cuids S).nodes.length := by rw [mnetOf_len]; exact hi
  have hj' : j < (mnetOf cuids S).nodes.length := by rw [mnetOf_len]; exact hj
  have := MNet.cnet_same_operations_same_state (mnetOf cuids S) (mnet_reach MNet.flat_counter h) i j hi' hj'
    (sameOps_flat (rok_reach h) hs)
  rw [mnetOf_node hi hi', mnetOf_node hj hj'] at this
  exact this

theorem faults_counter_caught_up {cuids : List String} : ∀ S, RReach .counter cuids S →
    ∀ i j (hi : i < S.clients.length) (hj : j < S.clients.length),
    CaughtUp S S.clients[i] → CaughtUp S S.clients[j] → S.clients[i].r.state = S.clients[j].r.state := by
  intro S h i j hi hj ci cj
  have hi' : i < (mnetOf cuids S).nodes.length := by rw [mnetOf_len]; exact hi
  have hj' : j < (mnetOf cuids S).nodes.length := by rw [mnetOf_len]; exact hj
  have := MNet.cnet_same_operations_same_state (mnetOf cuids S) (mnet_reach MNet.flat_counter h) i j hi' hj'
    (sameOps_flat_caught_up MNet.flat_counter h hi hj ci cj)
  rw [mnetOf_node hi hi', mnetOf_node hj hj'] at this
  exact this

theorem faults_counter_quiescent_converged {cuids : List String} : ∀ S, RReach .counter cuids S → QuiescentR S →
    ∀ i j (hi : i < S.clients.length) (hj : j < S.clients.length),
    S.clients[i].r.state = S.clients[j].r.state := by
  intro S h hq i j hi hj
  exact faults_counter_caught_up S h i j hi hj (hq _ (List.getElem_mem hi)) (hq _ (List.getElem_mem hj))

/-- the value of a counter client is a function of the operations it has alone: the sum of the increments (32-bit wrap) -/
theorem faults_counter_value_is_spec {cuids : List String} : ∀ S, RReach .counter cuids S →
    ∀ cl ∈ S.clients, cl.r.state = DState.counter (Spec.counter (S.opsOf cl)) := by
  intro S h cl hcl
  obtain ⟨i, hi⟩ := List.mem_iff_getElem?.mp hcl
  have := MNet.cnet_value_is_spec (mnetOf cuids S) (mnet_reach MNet.flat_counter h) i _ (mnetOf_get hi)
  rw [this]
  unfold MNet.appliedOps MNet.oth
  rw [oth_map_snd]
  show DState.counter (Spec.counter (cl.r.buffer ++ pullOps i ((netOf cuids S).log.take cl.cp.sseq))) = _
  rw [applied_view (rok_reach h) hi]


/-! ### the Document datatype -/

/-- the `DNet` state of a combined state -/
def dnetOf (cuids : List String) (S : RSys) : DNet.Net := toD (netOf cuids S)

theorem dnetOf_get {cuids : List String} {S : RSys} {i : Nat} {cl : RClient} (hi : S.clients[i]? = some cl) :
    (dnetOf cuids S).nodes[i]? = some ⟨cl.r, (S.recOf cl.cuid).cseq, cl.cp.sseq⟩ := toD_get (netOf_get hi)

theorem dnet_reach {cuids : List String} {S : RSys} (h : RReach .document cuids S) :
    DNet.Reach (cuidF cuids) cuids.length (dnetOf cuids S) := reach_toD (net_view h)

/-- `net_view` for documents -/
theorem net_view_doc {cuids : List String} {S : RSys} (h : RReach .document cuids S) :
    ∃ net : DNet.Net, DNet.Reach (cuidF cuids) cuids.length net ∧ (∃ ap, DNet.Inv (cuidF cuids) cuids.length net ap) ∧
      (∀ i : Nat, (S.clients[i]?).map (fun cl => cl.r.state) = (net.nodes[i]?).map (fun nd => nd.r.state)) ∧
      net.log.map (·.2) = S.log ∧
      (∀ (i : Nat) (cl : RClient), S.clients[i]? = some cl →
        net.nodes[i]? = some (⟨cl.r, (S.recOf cl.cuid).cseq, cl.cp.sseq⟩ : DNet.Node)) := by
  have hr := dnet_reach h
  refine ⟨dnetOf cuids S, hr, DNet.inv_reach hr, ?_, ?_, fun i cl hi => dnetOf_get hi⟩
  · intro i
    cases hc : S.clients[i]? with
    | none => simp [dnetOf, toD, netOf, hc]
    | some cl => rw [dnetOf_get hc]; rfl
  · simp [dnetOf, toD, netOf, Function.comp_def]

theorem sameOps_doc {cuids : List String} {S : RSys} (hok : ROK cuids S) {i j : Nat} (hs : SameOpsR S i j) :
    DNet.SameOps (dnetOf cuids S) i j := by
  obtain ⟨a, b, ha, hb, hp⟩ := hs
  refine ⟨_, _, dnetOf_get ha, dnetOf_get hb, ?_⟩
  unfold DNet.appliedOps DNet.oth
  rw [oth_map_snd, oth_map_snd]
  show (a.r.buffer ++ pullOps i ((netOf cuids S).log.take a.cp.sseq)).Perm
    (b.r.buffer ++ pullOps j ((netOf cuids S).log.take b.cp.sseq))
  rw [applied_view hok ha, applied_view hok hb]
  exact hp

theorem dnetOf_len (cuids : List String) (S : RSys) : (dnetOf cuids S).nodes.length = S.clients.length := by
  simp [dnetOf, toD, netOf]

theorem dnetOf_node {cuids : List String} {S : RSys} {i : Nat} (hi : i < S.clients.length)
    (hi' : i < (dnetOf cuids S).nodes.length) :
    (dnetOf cuids S).nodes[i] = ⟨S.clients[i].r, (S.recOf S.clients[i].cuid).cseq, S.clients[i].cp.sseq⟩ := by
  simp [dnetOf, toD, netOf]

theorem dnetOf_loglen (cuids : List String) (S : RSys) : (dnetOf cuids S).log.length = S.log.length := by
  simp [dnetOf, toD, netOf]

/-- THE theorem for documents under faults: two clients that have the same operations hold ASim-equal documents and show
    the same canonical JSON value -/
theorem faults_doc_same_operations_same_document {cuids : List String} : ∀ S, RReach .document cuids S →
    ∀ i j (hi : i < S.clients.length) (hj : j < S.clients.length) di dj,
    S.clients[i].r.state = .doc di → S.clients[j].r.state = .doc dj → SameOpsR S i j →
    DA.ASim di dj ∧ di.view.canon = dj.view.canon := by
  intro S h i j hi hj di dj hdi hdj hs
  have hi' : i < (dnetOf cuids S).nodes.length := by rw [dnetOf_len]; exact hi
  have hj' : j < (dnetOf cuids S).nodes.length := by rw [dnetOf_len]; exact hj
  exact DNet.net_same_operations_same_document (dnetOf cuids S) (dnet_reach h) i j hi' hj' di dj
    (by rw [dnetOf_node hi hi']; exact hdi) (by rw [dnetOf_node hj hj']; exact hdj) (sameOps_doc (rok_reach h) hs)

theorem faults_doc_caught_up {cuids : List String} : ∀ S, RReach .document cuids S →
    ∀ i j (hi : i < S.clients.length) (hj : j < S.clients.length) di dj,
    S.clients[i].r.state = .doc di → S.clients[j].r.state = .doc dj →
    CaughtUp S S.clients[i] → CaughtUp S S.clients[j] → DA.ASim di dj ∧ di.view.canon = dj.view.canon := by
  intro S h i j hi hj di dj hdi hdj ci cj
  have hi' : i < (dnetOf cuids S).nodes.length := by rw [dnetOf_len]; exact hi
  have hj' : j < (dnetOf cuids S).nodes.length := by rw [dnetOf_len]; exact hj
  have hs := DNet.sameOps_of_caught_up (dnet_reach h) hi' hj'
    (by rw [dnetOf_node hi hi']; exact ci.2) (by rw [dnetOf_node hi hi', dnetOf_loglen]; exact ci.1)
    (by rw [dnetOf_node hj hj']; exact cj.2) (by rw [dnetOf_node hj hj', dnetOf_loglen]; exact cj.1)
  exact DNet.net_same_operations_same_document (dnetOf cuids S) (dnet_reach h) i j hi' hj' di dj
    (by rw [dnetOf_node hi hi']; exact hdi) (by rw [dnetOf_node hj hj']; exact hdj) hs

/-- … and when every client is caught up, all clients agree -/
theorem faults_doc_quiescent_converged {cuids : List String} : ∀ S, RReach .document cuids S → QuiescentR S →
    ∀ i j (hi : i < S.clients.length) (hj : j < S.clients.length) di dj,
    S.clients[i].r.state = .doc di → S.clients[j].r.state = .doc dj →
    DA.ASim di dj ∧ di.view.canon = dj.view.canon := by
  intro S h hq i j hi hj di dj hdi hdj
  exact faults_doc_caught_up S h i j hi hj di dj hdi hdj (hq _ (List.getElem_mem hi)) (hq _ (List.getElem_mem hj))


/-! ## 8. deliveries: every single execution of a delivery is a delivery of the ideal-log system -/

/-- every remote execution of the sequence returns without a panic -/
def ExecOK : Replica → List Op → Prop
  | _, [] => True
  | r, o :: os => (r.execRemoteBase o).2 = none ∧ ExecOK (r.execRemoteBase o).1 os

theorem execOK_of_each : ∀ (ops : List Op) (r : Replica),
    (∀ pre o post, ops = pre ++ o :: post → ((execAll r pre).execRemoteBase o).2 = none) → ExecOK r ops
  | [], _, _ => trivial
  | o :: os, r, h => by
    refine ⟨h [] o os rfl, execOK_of_each os _ ?_⟩
    intro pre o' post e
    exact h (o :: pre) o' post (by rw [e]; rfl)

theorem pullOps_split (i : Nat) : ∀ (seg : List (Nat × Op)) (pre : List Op) (o : Op) (post : List Op),
    pullOps i seg = pre ++ o :: post →
    ∃ s1 a s2, seg = s1 ++ (a, o) :: s2 ∧ a ≠ i ∧ pullOps i s1 = pre
  | [], pre, o, post, h => by simp [pullOps] at h
  | (a, o') :: seg, pre, o, post, h => by
    by_cases ha : a = i
    · have h' : pullOps i seg = pre ++ o :: post := by simpa [pullOps, ha] using h
      obtain ⟨s1, b, s2, e1, e2, e3⟩ := pullOps_split i seg pre o post h'
      exact ⟨(a, o') :: s1, b, s2, by rw [e1]; rfl, e2, by simpa [pullOps, ha] using e3⟩
    · have h' : o' :: pullOps i seg = pre ++ o :: post := by simpa [pullOps, ha] using h
      cases pre with
      | nil =>
        simp only [List.nil_append, List.cons.injEq] at h'
        exact ⟨[], a, seg, by rw [h'.1]; rfl, ha, rfl⟩
      | cons p pre =>
        simp only [List.cons_append, List.cons.injEq] at h'
        obtain ⟨s1, b, s2, e1, e2, e3⟩ := pullOps_split i seg pre o post h'.2
        exact ⟨(a, o') :: s1, b, s2, by rw [e1]; rfl, e2, by simp [pullOps, ha, h'.1]; simpa [pullOps] using e3⟩

/-- **the trace of a delivery**: whatever response is delivered to whatever client (a duplicate, a stale one, one that
    overlaps what the client has seen), every single operation the client executes is the NEXT log entry of that client, written by
    another client, in a reachable state of the ideal-log system in which the client's replica is the replica that has
    executed the operations before it -/
theorem deliver_trace {typ : DtType} {cuids : List String} {S : RSys} (h : RReach typ cuids S) {p : PResp} {cl : RClient}
    (hp : p ∈ S.resps) (hi : S.clients[p.i]? = some cl) {pre : List Op} {o : Op} {post : List Op}
    (hsplit : newForeignOps cl.cuid cl.cp p.cp p.ops = pre ++ o :: post) :
    ∃ (g : GNet) (nd : GNode) (a : Nat), GReach typ (cuidF cuids) cuids.length g ∧ g.nodes[p.i]? = some nd ∧
      nd.r = execAll cl.r pre ∧ g.log[nd.pulled]? = some (a, o) ∧ a ≠ p.i ∧ o ∈ S.log := by
  have hok := rok_reach h
  have hP := proto_inv (proj_reach h)
  have hiP := proj_get hi
  have hc := hP.cli p.i cl.view hiP
  obtain ⟨e0, sr, h1, h2, h3, h4, h5, h6⟩ := hP.resp p hp cl.view hiP
  have hL : (proj S).log = S.log := rfl
  rw [hL] at h1 h4 h5 h6
  have hnfo : newForeignOps cl.cuid cl.cp p.cp p.ops = frn cl.cuid ((S.log.take p.cp.sseq).drop cl.cp.sseq) := by
    rw [h1]
    exact pull_count cl.cuid S.log cl.cp.sseq cl.cp.cseq p.cp.sseq p.cp.cseq e0 sr hc.sLe h4 h3 h2 hc.j2 h6.symm h5
  have hsle : cl.cp.sseq ≤ S.log.length := hc.sLe
  have hseg : pullOps p.i (((netOf cuids S).log.drop cl.cp.sseq).take (p.cp.sseq - cl.cp.sseq)) =
      newForeignOps cl.cuid cl.cp p.cp p.ops := by
    rw [hnfo, List.drop_take]
    show pullOps p.i (((S.log.map _).drop _).take _) = _
    rw [← List.map_drop, ← List.map_take, pullOps_map hok.nodup (hok.at_ hi)]
  rw [← hseg] at hsplit
  obtain ⟨s1, a, s2, e1, e2, e3⟩ := pullOps_split p.i _ pre o post hsplit
  have hlen : s1.length < (((netOf cuids S).log.drop cl.cp.sseq).take (p.cp.sseq - cl.cp.sseq)).length := by
    rw [e1]; simp
  have hlen' : s1.length < p.cp.sseq - cl.cp.sseq ∧ cl.cp.sseq + s1.length < (netOf cuids S).log.length := by
    simp only [List.length_take, List.length_drop] at hlen; omega
  have hs1 : ((netOf cuids S).log.drop cl.cp.sseq).take s1.length = s1 := by
    have : (((netOf cuids S).log.drop cl.cp.sseq).take (p.cp.sseq - cl.cp.sseq)).take s1.length = s1 := by
      rw [e1]; simp
    have hmin : min s1.length (p.cp.sseq - cl.cp.sseq) = s1.length := by omega
    rw [List.take_take, hmin] at this
    exact this
  have hget : ((netOf cuids S).log)[cl.cp.sseq + s1.length]? = some (a, o) := by
    have : (((netOf cuids S).log.drop cl.cp.sseq).take (p.cp.sseq - cl.cp.sseq))[s1.length]? = some (a, o) := by
      rw [e1]; simp
    rw [List.getElem?_take_of_lt hlen'.1, List.getElem?_drop] at this
    exact this
  have hpm : GReaches typ (netOf cuids S)
      ⟨(netOf cuids S).nodes.set p.i ⟨execAll cl.r (pullOps p.i (((netOf cuids S).log.drop cl.cp.sseq).take s1.length)),
        (S.recOf cl.cuid).cseq, cl.cp.sseq + s1.length⟩, (netOf cuids S).log⟩ :=
    pull_many typ s1.length (netOf cuids S) p.i _ (netOf_get hi) (by show cl.cp.sseq + s1.length ≤ _; omega)
  refine ⟨_, ⟨execAll cl.r pre, (S.recOf cl.cuid).cseq, cl.cp.sseq + s1.length⟩, a,
    greach_of_reaches (net_view h) hpm, ?_, rfl, hget, e2, ?_⟩
  · have hlt := (List.getElem?_eq_some_iff.mp (netOf_get (cuids := cuids) hi)).1
    rw [hs1, e3]
    simp [hlt]
  · have := List.mem_of_getElem? hget
    simp only [netOf, List.mem_map, Prod.mk.injEq] at this
    obtain ⟨o', ho', _, rfl⟩ := this
    exact ho'


/-! ### lists: what travels is safe to execute remotely (not in `LNet.Inv`: an update carries as many values as targets) -/

theorem glist_safe {cuid : Nat → String} {n : Nat} {g : GNet} (h : GReach .list cuid n g) :
    (∀ nd ∈ g.nodes, ∀ o ∈ nd.r.buffer, LTx.RemoteSafe o.body) ∧ (∀ e ∈ g.log, LTx.RemoteSafe e.2.body) := by
  induction h with
  | init hc =>
    constructor
    · intro nd hnd o ho
      simp only [GNet.init, List.mem_map] at hnd
      obtain ⟨k, _, rfl⟩ := hnd
      cases ho
    · intro e he; cases he
  | @step g g' hg st ih =>
    obtain ⟨ihn, ihl⟩ := ih
    cases st with
    | call i nd c hi hc =>
      refine ⟨?_, ihl⟩
      intro nd' hnd' o ho
      rcases List.mem_or_eq_of_mem_set hnd' with hm | rfl
      · exact ihn nd' hm o ho
      · obtain ⟨ap, I⟩ := LNet.inv_reach (reach_toL hg)
        have N := I.node i _ (toL_get hi)
        have hnd : nd ∈ g.nodes := List.mem_of_getElem? hi
        rcases LNet.call_cases nd.r _ N.st c with ⟨_, h2, _⟩ | ⟨o', l', hbuf, _, _, _, hloc⟩
        · have ho' : o ∈ (nd.r.call c).1.buffer := ho
          rw [h2] at ho'
          exact ihn nd hnd o ho'
        · have ho' : o ∈ (nd.r.call c).1.buffer := ho
          rw [hbuf] at ho'
          rcases List.mem_append.mp ho' with hm | hm
          · exact ihn nd hnd o hm
          · simp only [List.mem_singleton] at hm
            subst hm
            exact (LTx.localOp_safe hloc).1
    | push i nd o hi ho =>
      have hnd : nd ∈ g.nodes := List.mem_of_getElem? hi
      constructor
      · intro nd' hnd' o' ho'
        rcases List.mem_or_eq_of_mem_set hnd' with hm | rfl
        · exact ihn nd' hm o' ho'
        · exact ihn nd hnd o' ho'
      · intro e he
        rcases List.mem_append.mp he with hm | hm
        · exact ihl e hm
        · simp only [List.mem_singleton] at hm
          subst hm
          exact ihn nd hnd o (List.mem_of_getElem? ho)
    | pull i nd a o hi hl =>
      have hnd : nd ∈ g.nodes := List.mem_of_getElem? hi
      refine ⟨?_, ihl⟩
      intro nd' hnd' o' ho'
      rcases List.mem_or_eq_of_mem_set hnd' with hm | rfl
      · exact ihn nd' hm o' ho'
      · apply ihn nd hnd o'
        by_cases ha : a = i
        · simpa [ha] using ho'
        · have : o' ∈ (nd.r.execRemoteBase o).1.buffer := by simpa [ha] using ho'
          rw [LNet.execRemoteBase_buffer] at this
          exact this

/-! ### the delivery theorems, per datatype -/

/-- lists: every single execution of any delivery returns without a panic and IS the remote application of the list
    operation the wire operation denotes -/
theorem faults_list_deliveries_exact {cuids : List String} {S : RSys} (h : RReach .list cuids S) {p : PResp}
    {cl : RClient} (hp : p ∈ S.resps) (hi : S.clients[p.i]? = some cl) {pre : List Op} {o : Op} {post : List Op}
    (hsplit : newForeignOps cl.cuid cl.cp p.cp p.ops = pre ++ o :: post) :
    ∃ l, (execAll cl.r pre).state = .list l ∧ ((execAll cl.r pre).execRemoteBase o).2 = none ∧
      ((execAll cl.r pre).execRemoteBase o).1.state = .list (l.applyAllL (LNet.toL o).toList) := by
  obtain ⟨g, nd, a, hg, hnd, hr, hl, ha, _⟩ := deliver_trace h hp hi hsplit
  obtain ⟨ap, I⟩ := LNet.inv_reach (reach_toL hg)
  have N := I.node p.i _ (toL_get hnd)
  have hl' : (toL g).log[(⟨nd.r, nd.pushed, nd.pulled⟩ : LNet.Node).pulled]? = some (a, o) := hl
  obtain ⟨_, _, hent⟩ := I.deliver (toL_get hnd) hl' ha
  have hsafe := (glist_safe hg).2 _ (List.mem_of_getElem? hl)
  rw [← hr]
  exact ⟨_, N.st, (LTx.execRemoteBase_safe nd.r _ N.st o hsafe).1, LNet.exec_toL nd.r _ o N.st hent.2.2.2.2⟩

/-- maps: every single execution of any delivery is a put or a remove; a remove finds its key in the map; no error, no
    panic; the new state IS the remote application -/
theorem faults_map_deliveries_exact {cuids : List String} {S : RSys} (h : RReach .map cuids S) {p : PResp}
    {cl : RClient} (hp : p ∈ S.resps) (hi : S.clients[p.i]? = some cl) {pre : List Op} {o : Op} {post : List Op}
    (hsplit : newForeignOps cl.cuid cl.cp p.cp p.ops = pre ++ o :: post) :
    ∃ m, (execAll cl.r pre).state = .map m ∧ isMapOp o = true ∧ (∀ k, o.body = .remove k → ∃ e, m.find k = some e) ∧
      ((execAll cl.r pre).execRemoteBase o).2 = none ∧
      ((execAll cl.r pre).execRemoteBase o).1.state = .map (mapApply m o) := by
  obtain ⟨g, nd, a, hg, hnd, hr, hl, ha, _⟩ := deliver_trace h hp hi hsplit
  have hR := reach_toM MNet.flat_map hg
  obtain ⟨m, hm, _⟩ := MNet.mnet_state_is_map _ hR _ (List.mem_of_getElem? (toM_get hnd))
  have hl' : (toM g).log[(⟨nd.r, nd.pushed, nd.pulled⟩ : MNet.Node).pulled]? = some (a, o) := hl
  obtain ⟨h1, h2, h3, h4⟩ := MNet.mnet_deliveries_exact _ hR p.i _ a o m (toM_get hnd) hl' ha hm
  rw [← hr]
  exact ⟨m, hm, h1, h2, h3, h4⟩

/-- counters: every single execution of any delivery is an increase; no error, no panic -/
theorem faults_counter_deliveries_exact {cuids : List String} {S : RSys} (h : RReach .counter cuids S) {p : PResp}
    {cl : RClient} (hp : p ∈ S.resps) (hi : S.clients[p.i]? = some cl) {pre : List Op} {o : Op} {post : List Op}
    (hsplit : newForeignOps cl.cuid cl.cp p.cp p.ops = pre ++ o :: post) :
    ∃ v d, (execAll cl.r pre).state = .counter v ∧ o.body = .increase d ∧
      ((execAll cl.r pre).execRemoteBase o).2 = none ∧
      ((execAll cl.r pre).execRemoteBase o).1.state = .counter (counterIncrease v d) := by
  obtain ⟨g, nd, a, hg, hnd, hr, hl, ha, _⟩ := deliver_trace h hp hi hsplit
  have hR := reach_toM MNet.flat_counter hg
  have hv := MNet.cnet_value_is_spec _ hR p.i _ (toM_get hnd)
  have hl' : (toM g).log[(⟨nd.r, nd.pushed, nd.pulled⟩ : MNet.Node).pulled]? = some (a, o) := hl
  obtain ⟨d, h1, h2, h3⟩ := MNet.cnet_deliveries_exact _ hR p.i _ a o _ (toM_get hnd) hl' ha hv
  rw [← hr]
  exact ⟨_, d, hv, h1, h2, h3⟩

/-- documents: every single execution of any delivery is applicable (`GoodD`), never errs nor panics, IS `applyD`, and
    the replica keeps `DP.DocInv` (from `DNet.net_deliveries_exact`) -/
theorem faults_doc_deliveries_exact {cuids : List String} {S : RSys} (h : RReach .document cuids S) {p : PResp}
    {cl : RClient} (hp : p ∈ S.resps) (hi : S.clients[p.i]? = some cl) {pre : List Op} {o : Op} {post : List Op}
    (hsplit : newForeignOps cl.cuid cl.cp p.cp p.ops = pre ++ o :: post) :
    ∃ d x, (execAll cl.r pre).state = .doc d ∧ DR.toDOp o = some x ∧ DM.GoodD d [x] ∧ DR.ValuesOK x ∧
      ((execAll cl.r pre).execRemoteBase o).2 = none ∧
      ((execAll cl.r pre).execRemoteBase o).1.state = .doc (DM.applyD d x) ∧
      DP.DocInv ((execAll cl.r pre).execRemoteBase o).1 := by
  obtain ⟨g, nd, a, hg, hnd, hr, hl, ha, _⟩ := deliver_trace h hp hi hsplit
  have hR := reach_toD hg
  obtain ⟨ap, I⟩ := DNet.inv_reach hR
  have hst := (I.node p.i _ (toD_get hnd)).st
  have hl' : (toD g).log[(⟨nd.r, nd.pushed, nd.pulled⟩ : DNet.Node).pulled]? = some (a, o) := hl
  obtain ⟨x, h1, h2, h3, h4, h5, h6⟩ := DNet.net_deliveries_exact _ hR p.i _ a o _ (toD_get hnd) hl' ha hst
  rw [← hr]
  exact ⟨_, x, hst, h1, h2, h3, h4, h5, h6⟩

/-- ALL datatypes: a delivery never makes a replica panic, whatever was duplicated, delayed or reordered: every remote
    execution of `deliver p` returns normally (what each of them does: the four theorems above) -/
theorem faults_deliveries_exact {typ : DtType} {cuids : List String} {S : RSys} (h : RReach typ cuids S) {p : PResp}
    {cl : RClient} (hp : p ∈ S.resps) (hi : S.clients[p.i]? = some cl) :
    ExecOK cl.r (newForeignOps cl.cuid cl.cp p.cp p.ops) := by
  apply execOK_of_each
  intro pre o post hsplit
  cases typ with
  | list => obtain ⟨_, _, h2, _⟩ := faults_list_deliveries_exact h hp hi hsplit; exact h2
  | map => obtain ⟨_, _, _, _, h2, _⟩ := faults_map_deliveries_exact h hp hi hsplit; exact h2
  | counter => obtain ⟨_, _, _, _, h2, _⟩ := faults_counter_deliveries_exact h hp hi hsplit; exact h2
  | document => obtain ⟨_, _, _, _, _, _, h2, _⟩ := faults_doc_deliveries_exact h hp hi hsplit; exact h2


/-! ## 9. the executable form (for concrete runs) -/

inductive RAct where
  | call (i : Nat) (c : Call)
  | send (i : Nat)
  /-- the server handles the `k`-th request ever sent (again, if it was handled before) -/
  | serve (k : Nat)
  /-- the `k`-th response ever produced reaches its client (again, if it was delivered before) -/
  | deliver (k : Nat)

def RSys.act (S : RSys) : RAct → Option RSys
  | .call i c =>
    match S.clients[i]? with
    | some cl => some { S with clients := S.clients.set i { cl with r := (cl.r.call c).1 } }
    | none => none
  | .send i =>
    match S.clients[i]? with
    | some cl => some { S with reqs := S.reqs ++ [⟨i, cl.cp.sseq, cl.r.buffer.drop cl.cp.cseq⟩] }
    | none => none
  | .serve k =>
    match S.reqs[k]? with
    | some r =>
      match S.clients[r.i]? with
      | some cl =>
        match pushOps pDuid pCol ⟨S.log.length, (S.recOf cl.cuid).cseq⟩ r.ops [] with
        | .ok (cp2, docs) =>
          some ⟨S.clients, S.log ++ docs.map (·.op), alSet cl.cuid cp2 S.cps, S.reqs,
            S.resps ++ [⟨r.i, S.log.drop r.s, cp2⟩]⟩
        | .error _ => some S
      | none => none
    | none => none
  | .deliver k =>
    match S.resps[k]? with
    | some p =>
      match S.clients[p.i]? with
      | some cl => some { S with clients := S.clients.set p.i (cl.receive p) }
      | none => none
    | none => none

def RSys.run (S : RSys) : List RAct → Option RSys
  | [] => some S
  | a :: as => match S.act a with
    | some S' => S'.run as
    | none => none

def RActOK (typ : DtType) : RAct → Prop
  | .call _ c => callOK typ c
  | _ => True

theorem rstep_of_act {typ : DtType} {S S' : RSys} {a : RAct} (h : S.act a = some S') (hk : RActOK typ a) :
    RStep typ S S' := by
  cases a with
  | call i c =>
    simp only [RSys.act] at h
    cases hn : S.clients[i]? with
    | none => rw [hn] at h; cases h
    | some cl =>
      rw [hn] at h
      simp only [Option.some.injEq] at h
      subst h
      exact .call S i cl c hn hk
  | send i =>
    simp only [RSys.act] at h
    cases hn : S.clients[i]? with
    | none => rw [hn] at h; cases h
    | some cl =>
      rw [hn] at h
      simp only [Option.some.injEq] at h
      subst h
      exact .send S i cl hn
  | serve k =>
    simp only [RSys.act] at h
    cases hr : S.reqs[k]? with
    | none => rw [hr] at h; cases h
    | some r =>
      rw [hr] at h
      simp only at h
      cases hn : S.clients[r.i]? with
      | none => rw [hn] at h; cases h
      | some cl =>
        rw [hn] at h
        simp only at h
        cases hp : pushOps pDuid pCol ⟨S.log.length, (S.recOf cl.cuid).cseq⟩ r.ops [] with
        | error code =>
          rw [hp] at h
          simp only [Option.some.injEq] at h
          subst h
          exact .refuse S r cl code (List.mem_of_getElem? hr) hn hp
        | ok res =>
          obtain ⟨cp2, docs⟩ := res
          rw [hp] at h
          simp only [Option.some.injEq] at h
          subst h
          exact .serve S r cl cp2 docs (List.mem_of_getElem? hr) hn hp
  | deliver k =>
    simp only [RSys.act] at h
    cases hr : S.resps[k]? with
    | none => rw [hr] at h; cases h
    | some p =>
      rw [hr] at h
      simp only at h
      cases hn : S.clients[p.i]? with
      | none => rw [hn] at h; cases h
      | some cl =>
        rw [hn] at h
        simp only [Option.some.injEq] at h
        subst h
        exact .deliver S p cl (List.mem_of_getElem? hr) hn

theorem rreach_run {typ : DtType} {cuids : List String} : ∀ (as : List RAct) {S S' : RSys}, RReach typ cuids S →
    S.run as = some S' → (∀ a ∈ as, RActOK typ a) → RReach typ cuids S'
  | [], _, _, hr, h, _ => by
    simp only [RSys.run, Option.some.injEq] at h
    exact h ▸ hr
  | a :: as, S, S', hr, h, hk => by
    simp only [RSys.run] at h
    cases ha : S.act a with
    | none => rw [ha] at h; cases h
    | some S1 =>
      rw [ha] at h
      exact rreach_run as (.step hr (rstep_of_act ha (hk a (by simp)))) h (fun b hb => hk b (by simp [hb]))

/-! ## 10. non-vacuity (List): three clients; a lost response, a retry that re-pushes an acknowledged operation while
another client pushed in between, a response delivered twice, the lost response delivered late, the first request served a
second time, a stale response delivered to a client that has moved on

`a` inserts `[1, 2]` (`a1`), pushes; the response (request 0 → response 0) is LOST.  `b`, which has seen nothing, inserts
`"b"` at the head (`b1`) and pushes (request 1 → response 1).  `a` inserts `3` at the end (`a2`) and RETRIES from its old
checkpoint with `[a1, a2]` (request 2): the server skips `a1`, stores `a2` (log `a1, b1, a2`) and answers with the old log
`[a1, b1]`, checkpoint (3, 2) (response 2); `a` executes exactly `b1`.  Response 2 is delivered a SECOND time, then the lost
response 0 arrives LATE: nothing changes.  `b` receives response 1 (executes `a1`).  The very first request is served
AGAIN (response 3: nothing stored) and that response is delivered: nothing changes.  `b` pulls again (request 3 →
response 4, executes `a2`), then the STALE response 1 is delivered to `b` once more: nothing.  `c`, which never wrote,
pulls (request 4 → response 5), executes the three operations, and receives the same response TWICE. -/
namespace Ex

def cuids : List String := ["a", "b", "c"]

def acts : List RAct := [
  .call 0 (.linsert 0 [.num 1, .num 2]), .send 0, .serve 0,            -- response 0: lost
  .call 1 (.linsert 0 [.str "b"]), .send 1, .serve 1,                  -- b pushes in between
  .call 0 (.linsert 2 [.num 3]), .send 0, .serve 2,                    -- the retry: [a1, a2] from checkpoint (0, 0)
  .deliver 2, .deliver 2,                                              -- delivered twice
  .deliver 0,                                                          -- the lost response, late
  .deliver 1,
  .serve 0, .deliver 3,                                                -- the first request once more, and its answer
  .send 1, .serve 3, .deliver 4,
  .deliver 1,                                                          -- stale for b by now
  .send 2, .serve 4, .deliver 5, .deliver 5]

def finalS : RSys := ((RSys.init .list cuids).run acts).getD ⟨[], [], [], [], []⟩

theorem run_isSome : ((RSys.init .list cuids).run acts).isSome = true := by decide

theorem run_final : (RSys.init .list cuids).run acts = some finalS := by
  have h := run_isSome
  unfold finalS
  cases hr : (RSys.init .list cuids).run acts with
  | none => rw [hr] at h; cases h
  | some x => rfl

theorem acts_ok : ∀ a ∈ acts, RActOK .list a := by
  intro a _
  cases a <;> trivial

theorem reach_final : RReach .list cuids finalS := rreach_run acts (.init (by decide)) run_final acts_ok

theorem len_final : finalS.clients.length = 3 := by decide

theorem quiescent_final : QuiescentR finalS := by
  unfold QuiescentR CaughtUp
  decide

/-- the log holds each accepted operation once (`a1` was pushed twice, by the first request and by the retry; the first
    request was served twice); six responses were produced for five requests -/
example : finalS.log.map (fun o => (o.id.cuid, o.id.seq)) = [("a", 1), ("b", 1), ("a", 2)] ∧
    finalS.reqs.length = 5 ∧ finalS.resps.length = 6 := by decide

/-- what every client has executed (ghost field): the others' operations, each exactly once, in log order -/
example : finalS.clients.map (fun cl => cl.applied.map (fun o => (o.id.cuid, o.id.seq))) =
    [[("b", 1)], [("a", 1), ("a", 2)], [("a", 1), ("b", 1), ("a", 2)]] := by decide

/-- `faults_list_quiescent_converged` instantiated -/
example : (finalS.clients[0]'(by rw [len_final]; decide)).r.state = (finalS.clients[1]'(by rw [len_final]; decide)).r.state :=
  faults_list_quiescent_converged finalS reach_final quiescent_final 0 1 (by decide) (by decide)
example : (finalS.clients[1]'(by rw [len_final]; decide)).r.state = (finalS.clients[2]'(by rw [len_final]; decide)).r.state :=
  faults_list_quiescent_converged finalS reach_final quiescent_final 1 2 (by decide) (by decide)

def tA0 : Ts := ⟨0, 1, "a", 0⟩
def tA1 : Ts := ⟨0, 1, "a", 1⟩
def tA2 : Ts := ⟨0, 2, "a", 0⟩
def tB : Ts := ⟨0, 1, "b", 0⟩

/-- … and the common state: `["b", 1, 2, 3]` -/
def common : DState := .list
  ⟨[⟨tB, some (.str "b"), tB⟩, ⟨tA0, some (.num 1), tA0⟩, ⟨tA1, some (.num 2), tA1⟩, ⟨tA2, some (.num 3), tA2⟩], 4⟩

example : (finalS.clients[0]'(by rw [len_final]; decide)).r.state = common := by rfl
example : (finalS.clients[1]'(by rw [len_final]; decide)).r.state = common := by rfl
example : (finalS.clients[2]'(by rw [len_final]; decide)).r.state = common := by rfl

/-- `proj_reach` / `proto_inv_client` instantiated: J3 in the final state -/
example : ∀ cl ∈ (proj finalS).clients,
    cl.applied = ((proj finalS).log.take cl.cp.sseq).filter (fun o => o.id.cuid ≠ cl.cuid) :=
  fun cl hcl => (proto_inv_client (proj_reach reach_final) cl hcl).2.2.2.2.2

/-- `net_view` instantiated: the datatype view of the final state is a reachable state of `LNet` -/
example : LNet.Reach (cuidF cuids) 3 (lnetOf cuids finalS) := reach_toL (net_view reach_final)

/-- a state in the middle of the run, right after the retry was answered and `a` has received that answer: `a` and `b`
    have different operations; then the duplicate and the late lost response change NOTHING at `a` -/
def S10 : RSys := ((RSys.init .list cuids).run (acts.take 10)).getD ⟨[], [], [], [], []⟩
def S12 : RSys := ((RSys.init .list cuids).run (acts.take 12)).getD ⟨[], [], [], [], []⟩
theorem s12_isSome : ((RSys.init .list cuids).run (acts.take 12)).isSome = true := by decide
theorem run_s12 : (RSys.init .list cuids).run (acts.take 12) = some S12 := by
  have h := s12_isSome
  unfold S12
  cases hr : (RSys.init .list cuids).run (acts.take 12) with
  | none => rw [hr] at h; cases h
  | some x => rfl
theorem reach_s12 : RReach .list cuids S12 :=
  rreach_run (acts.take 12) (.init (by decide)) run_s12 (fun a ha => acts_ok a (List.mem_of_mem_take ha))

example : S10.clients.map (fun cl => (cl.cp, cl.r.state)) = S12.clients.map (fun cl => (cl.cp, cl.r.state)) := by rfl
example : ¬ QuiescentR S12 := by
  unfold QuiescentR CaughtUp
  decide

/-- in that (non-quiescent) state the stale response 1 … is still deliverable to `b`, the lost response 0 and the
    duplicate of response 2 to `a`: `faults_deliveries_exact` says that every one of these deliveries runs without a panic -/
example : ∀ p ∈ S12.resps, ∀ cl, S12.clients[p.i]? = some cl →
    ExecOK cl.r (newForeignOps cl.cuid cl.cp p.cp p.ops) :=
  fun p hp cl hi => faults_deliveries_exact reach_s12 hp hi

end Ex

end Orda.PNet
