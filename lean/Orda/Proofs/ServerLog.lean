/-
C06 / C16 on the server model (Model/Server): the log of every datatype is a gapless total order
1..End (`LogInv`), preserved by every request; a push-pull only appends; refusals leave the store
untouched; every pack is answered.  Core Lean only.

The preservation theorems depend on the `sameDuid` guard of `processPack` ("a request is only served
on the datatype its id names"): without it a create-only pack of an already subscribed client (or any
create/subscribe pack on an invisible document) carrying another duid was served as `.normal` on the
key-found document while pushing/pulling under the pack's duid, which orphaned operations and could
move a datatype's end of log backwards.  Structure: `SL.processPack_eq` (normal form, by `rfl`),
`SL.processPack_shape` (refusal or served request with explicit documents), `SL.logInv_commit`.
-/
import Orda.Model.Server
namespace Orda

/-- operations stored for a datatype id, in store order -/
def Store.opsOf (st : Store) (duid : String) : List OpDoc := st.operations.filter (fun o => o.duid = duid)

/-- C06: the server log of every datatype is a gapless total order 1..End, ids are unique, no
    operation is orphaned, operations carry their datatype's collection number, and no recorded
    checkpoint exceeds what is stored -/
structure LogInv (st : Store) : Prop where
  duidNodup : (st.datatypes.map (·.duid)).Nodup
  gapless : ∀ d ∈ st.datatypes, (st.opsOf d.duid).map (·.sseq) = List.range' 1 d.sseqEnd
  noOrphan : ∀ o ∈ st.operations, ∃ d ∈ st.datatypes, d.duid = o.duid
  sameCol : ∀ o ∈ st.operations, ∀ d ∈ st.datatypes, d.duid = o.duid → o.colNum = d.colNum
  cpBound : ∀ d ∈ st.datatypes, (∀ e ∈ d.rw, e.2.cp.sseq ≤ d.sseqEnd) ∧ (∀ e ∈ d.ro, e.2.cp.sseq ≤ d.sseqEnd)

/-! ## Normal form of `processPack` -/
namespace SL

/-- the response skeleton -/
def resp0 (p : Pack) : Pack :=
  { p with create := false, subscribe := false, unsubscribe := false, delete := false,
           snapshot := false, error := false, readOnly := false, ops := [] }

def refuseR (st : Store) (p : Pack) (code : Nat) : PPResult := ⟨st, errorPack (resp0 p) code, none, 0⟩

def sameDuid (p : Pack) (doc? : Option DatatypeDoc) : Bool :=
  match doc? with | some d => d.duid = p.duid | none => true

/-- the final dispatch decision of `processPack` -/
def dsp (st : Store) (cl : ClientDoc) (col : CollectionDoc) (p : Pack) : Dispatch :=
  let ec := evalCase st col cl.cuid p
  let d0 := dispatch ec.1 p.create p.subscribe (sameDuid p ec.2)
  let d1 := if d0 ≠ .create && ec.2.isNone then (match d0 with | .refuse x => .refuse x | _ => .refuse 301) else d0
  if d1 = .normal && !(sameDuid p ec.2) then (if p.create then .refuse 302 else .refuse 301) else d1

def docOf (col : CollectionDoc) (p : Pack) (d : Dispatch) (doc? : Option DatatypeDoc) : DatatypeDoc :=
  match d, doc? with
  | .create, _ => { duid := p.duid, key := p.key, colNum := col.num, typ := p.typ }
  | _, some x => x
  | _, none => { duid := p.duid, key := p.key, colNum := col.num, typ := p.typ }

def opDuid (p : Pack) (d : Dispatch) (doc : DatatypeDoc) : String := if d = .subscribe then doc.duid else p.duid

def resp1 (p : Pack) (d : Dispatch) (doc : DatatypeDoc) : Pack :=
  { resp0 p with duid := (if d = .subscribe then doc.duid else (resp0 p).duid),
                 create := d = .create, subscribe := d = .subscribe }

def cp0 (cl : ClientDoc) (p : Pack) (doc : DatatypeDoc) : CheckPoint :=
  match doc.sub cl.cuid p.readOnly with | some s => s.cp | none => ⟨0, 0⟩

def cp1 (cl : ClientDoc) (p : Pack) (doc : DatatypeDoc) : CheckPoint :=
  if p.readOnly then cp0 cl p doc else ⟨doc.sseqEnd, (cp0 cl p doc).cseq⟩

def pushRes (cl : ClientDoc) (col : CollectionDoc) (p : Pack) (d : Dispatch) (doc : DatatypeDoc) :
    Except Nat (CheckPoint × List OpDoc) :=
  if p.readOnly then Except.ok (cp1 cl p doc, [])
  else pushOps (opDuid p d doc) col.num (cp1 cl p doc) (if d = .subscribe then [] else p.ops) []

def pulled (st : Store) (cl : ClientDoc) (p : Pack) (d : Dispatch) (doc : DatatypeDoc) : List OpDoc :=
  if cl.typ = 2 then []
  else if doc.sseqBegin ≤ p.cp.sseq + 1 && !p.snapshot then st.getOperations (opDuid p d doc) (p.cp.sseq + 1) else []

def cp3 (st : Store) (cl : ClientDoc) (p : Pack) (d : Dispatch) (doc : DatatypeDoc)
    (cp2 : CheckPoint) (newDocs : List OpDoc) : CheckPoint :=
  match (pulled st cl p d doc).getLast? with
  | some last => ⟨last.sseq + newDocs.length, cp2.cseq⟩
  | none => cp2

def doc2 (st : Store) (cl : ClientDoc) (p : Pack) (d : Dispatch) (doc : DatatypeDoc)
    (cp2 : CheckPoint) (newDocs : List OpDoc) : DatatypeDoc :=
  let c3 := cp3 st cl p d doc cp2 newDocs
  let doc' := { doc with sseqEnd := if p.readOnly then doc.sseqEnd else c3.sseq }
  if cl.typ = 2 then doc' else doc'.setSub cl.cuid p.readOnly ⟨c3, cl.typ⟩

def okR (st : Store) (cl : ClientDoc) (col : CollectionDoc) (p : Pack) (d : Dispatch) (doc : DatatypeDoc)
    (cp2 : CheckPoint) (newDocs : List OpDoc) : PPResult :=
  ⟨{ st with operations := st.operations ++ newDocs,
             datatypes := upsertDatatype (doc2 st cl p d doc cp2 newDocs) st.datatypes },
   { resp1 p d doc with cp := cp3 st cl p d doc cp2 newDocs, ops := (pulled st cl p d doc).map (·.op) },
   if newDocs.isEmpty then none
   else some ⟨col.name ++ "/" ++ doc.key, cl.cuid, doc.duid, (cp3 st cl p d doc cp2 newDocs).sseq⟩,
   newDocs.length⟩

def pushErrR (st : Store) (p : Pack) (d : Dispatch) (doc : DatatypeDoc) (code : Nat) : PPResult :=
  ⟨st, { errorPack (resp0 p) code with create := (resp1 p d doc).create, subscribe := (resp1 p d doc).subscribe,
                                        duid := (resp1 p d doc).duid }, none, 0⟩

def finish (st : Store) (cl : ClientDoc) (col : CollectionDoc) (p : Pack) (d : Dispatch) (doc : DatatypeDoc) :
    PPResult :=
  match pushRes cl col p d doc with
  | .error code => pushErrR st p d doc code
  | .ok (cp2, newDocs) => okR st cl col p d doc cp2 newDocs

theorem processPack_eq (st : Store) (cl : ClientDoc) (col : CollectionDoc) (p : Pack) :
    processPack st cl col p =
      if p.readOnly && p.create then refuseR st p 301
      else if p.readOnly && !p.ops.isEmpty then refuseR st p 301
      else match dsp st cl col p with
        | .refuse code => refuseR st p code
        | d => finish st cl col p d (docOf col p d (evalCase st col cl.cuid p).2) := by
  rfl

/-! ### evalCase / dispatch facts -/

theorem getDatatype_some {st : Store} {duid : String} {x : DatatypeDoc} (h : st.getDatatype duid = some x) :
    x ∈ st.datatypes ∧ x.duid = duid := by
  unfold Store.getDatatype at h
  exact ⟨List.mem_of_find?_eq_some h, by simpa using List.find?_some h⟩

theorem getDatatype_none {st : Store} {duid : String} (h : st.getDatatype duid = none) :
    ∀ y ∈ st.datatypes, y.duid ≠ duid := by
  unfold Store.getDatatype at h
  intro y hy
  simpa using List.find?_eq_none.1 h y hy

theorem getDatatypeByKey_some {st : Store} {n : Nat} {key : String} {x : DatatypeDoc}
    (h : st.getDatatypeByKey n key = some x) : x ∈ st.datatypes ∧ x.colNum = n := by
  unfold Store.getDatatypeByKey at h
  have := List.find?_some h
  simp at this
  exact ⟨List.mem_of_find?_eq_some h, this.1⟩

theorem evalCase_noKey (st : Store) (col : CollectionDoc) (p : Pack) :
    (st.getDatatype p.duid = none ∧
      (match st.getDatatype p.duid with
       | none => ((PPCase.matchNothing, none) : PPCase × Option DatatypeDoc)
       | some d => if d.colNum = col.num ∧ d.key = p.key then (.usedDUID, some d) else (.usedDUID, none))
        = (.matchNothing, none)) ∨
    (∃ d, st.getDatatype p.duid = some d ∧ d.colNum = col.num ∧
      (match st.getDatatype p.duid with
       | none => ((PPCase.matchNothing, none) : PPCase × Option DatatypeDoc)
       | some d => if d.colNum = col.num ∧ d.key = p.key then (.usedDUID, some d) else (.usedDUID, none))
        = (.usedDUID, some d)) ∨
    ((match st.getDatatype p.duid with
       | none => ((PPCase.matchNothing, none) : PPCase × Option DatatypeDoc)
       | some d => if d.colNum = col.num ∧ d.key = p.key then (.usedDUID, some d) else (.usedDUID, none))
        = (.usedDUID, none)) := by
  cases hg : st.getDatatype p.duid with
  | none => simp
  | some d =>
    by_cases hc : d.colNum = col.num ∧ d.key = p.key
    · simp [hc]
    · simp [hc]

/-- the outcomes of `evalCase` -/
theorem evalCase_cases (st : Store) (col : CollectionDoc) (cuid : String) (p : Pack) :
    (st.getDatatype p.duid = none ∧ evalCase st col cuid p = (.matchNothing, none)) ∨
    (∃ d, st.getDatatype p.duid = some d ∧ d.colNum = col.num ∧ evalCase st col cuid p = (.usedDUID, some d)) ∨
    (evalCase st col cuid p = (.usedDUID, none)) ∨
    (∃ d c, st.getDatatypeByKey col.num p.key = some d ∧ c ≠ .matchNothing ∧ evalCase st col cuid p = (c, some d)) := by
  unfold evalCase
  by_cases hb : (p.create || p.subscribe) = true
  · simp only [hb, if_true]
    cases hk : st.getDatatypeByKey col.num p.key with
    | none =>
      simp only []
      rcases evalCase_noKey st col p with h | ⟨d, h1, h2, h3⟩ | h
      · exact Or.inl h
      · exact Or.inr (Or.inl ⟨d, h1, h2, h3⟩)
      · exact Or.inr (Or.inr (Or.inl h))
    | some d =>
      simp only []
      refine Or.inr (Or.inr (Or.inr ?_))
      by_cases h1 : d.typ = p.typ
      · by_cases h2 : d.visible = true
        · by_cases h3 : (d.sub cuid p.readOnly).isSome = true
          · exact ⟨d, .allMatchedSubscribed, rfl, by decide, by simp [h1, h2, h3]⟩
          · exact ⟨d, .allMatchedNotSubscribed, rfl, by decide, by simp [h1, h2, h3]⟩
        · exact ⟨d, .allMatchedNotVisible, rfl, by decide, by simp [h1, h2]⟩
      · exact ⟨d, .matchKeyNotType, rfl, by decide, by simp [h1]⟩
  · simp only [hb]
    rcases evalCase_noKey st col p with h | ⟨d, h1, h2, h3⟩ | h
    · exact Or.inl h
    · exact Or.inr (Or.inl ⟨d, h1, h2, h3⟩)
    · exact Or.inr (Or.inr (Or.inl h))

theorem evalCase_some {st : Store} {col : CollectionDoc} {cuid : String} {p : Pack} {x : DatatypeDoc}
    (h : (evalCase st col cuid p).2 = some x) : x ∈ st.datatypes ∧ x.colNum = col.num := by
  rcases evalCase_cases st col cuid p with ⟨_, h1⟩ | ⟨d, hg, hc, h1⟩ | h1 | ⟨d, c, hk, _, h1⟩ <;> rw [h1] at h
  · simp at h
  · simp at h; subst h; exact ⟨(getDatatype_some hg).1, hc⟩
  · simp at h
  · simp at h; subst h; exact getDatatypeByKey_some hk

theorem evalCase_matchNothing {st : Store} {col : CollectionDoc} {cuid : String} {p : Pack}
    (h : (evalCase st col cuid p).1 = .matchNothing) :
    st.getDatatype p.duid = none ∧ (evalCase st col cuid p).2 = none := by
  rcases evalCase_cases st col cuid p with ⟨h0, h1⟩ | ⟨d, hg, hc, h1⟩ | h1 | ⟨d, c, hk, hc, h1⟩ <;> rw [h1] at h ⊢
  · exact ⟨h0, rfl⟩
  · simp at h
  · simp at h
  · exact absurd h hc

theorem dispatch_create {c : PPCase} {a b s : Bool} (h : dispatch c a b s = .create) : c = .matchNothing := by
  revert h
  cases c <;> cases a <;> cases b <;> cases s <;> decide

/-- facts about the document a served (not refused) request works on -/
structure Served (st : Store) (col : CollectionDoc) (p : Pack) (d : Dispatch) (doc : DatatypeDoc) : Prop where
  duid : opDuid p d doc = doc.duid
  colNum : doc.colNum = col.num
  src : ((∀ y ∈ st.datatypes, y.duid ≠ doc.duid) ∧ doc.sseqEnd = 0 ∧ doc.rw = [] ∧ doc.ro = []) ∨ doc ∈ st.datatypes

theorem served_of_dsp {st : Store} {cl : ClientDoc} {col : CollectionDoc} {p : Pack} {d : Dispatch}
    (hd : dsp st cl col p = d) (hnr : ∀ c, d ≠ .refuse c) :
    Served st col p d (docOf col p d (evalCase st col cl.cuid p).2) := by
  unfold dsp at hd
  simp only at hd
  cases hdoc : (evalCase st col cl.cuid p).2 with
  | none =>
    simp only [hdoc, sameDuid, Option.isNone_none, Bool.and_true, Bool.not_true, Bool.and_false] at hd
    by_cases h0 : dispatch (evalCase st col cl.cuid p).1 p.create p.subscribe true = .create
    · have hmn := evalCase_matchNothing (dispatch_create h0)
      simp [h0] at hd
      subst hd
      refine ⟨by simp [opDuid, docOf], by simp [docOf], Or.inl ⟨?_, by simp [docOf], by simp [docOf], by simp [docOf]⟩⟩
      simpa [docOf] using getDatatype_none hmn.1
    · simp [h0] at hd
      split at hd <;> exact absurd hd.symm (hnr _)
  | some x =>
    have hx := evalCase_some hdoc
    simp only [hdoc, sameDuid, Option.isNone_some, Bool.and_false] at hd
    have hfin : ∀ d0, dispatch (evalCase st col cl.cuid p).1 p.create p.subscribe (decide (x.duid = p.duid)) = d0 →
        d0 = d → (d = .normal → x.duid = p.duid) → Served st col p d (docOf col p d (some x)) := by
      intro d0 h0 hd0 hn
      subst hd0
      cases d0 with
      | refuse c => exact absurd rfl (hnr c)
      | create =>
        have := evalCase_matchNothing (dispatch_create h0)
        rw [hdoc] at this; simp at this
      | subscribe => exact ⟨by simp [opDuid, docOf], by simpa [docOf] using hx.2, Or.inr (by simpa [docOf] using hx.1)⟩
      | normal => exact ⟨by simp [opDuid, docOf, hn rfl], by simpa [docOf] using hx.2, Or.inr (by simpa [docOf] using hx.1)⟩
    by_cases hsd : x.duid = p.duid
    · simp [hsd] at hd
      exact hfin _ (by simpa [hsd] using hd) rfl (fun _ => hsd)
    · have hdec : decide (x.duid = p.duid) = false := by simp [hsd]
      rw [hdec] at hd hfin
      by_cases hn : dispatch (evalCase st col cl.cuid p).1 p.create p.subscribe false = .normal
      · simp [hn] at hd
        split at hd <;> exact absurd hd.symm (hnr _)
      · simp [hn] at hd
        exact hfin _ hd rfl (fun h => absurd (hd.trans h) hn)

/-- a well-formed error response to pack `p` -/
def IsErrResp (p r : Pack) : Prop := r.error = true ∧ r.key = p.key ∧ ∃ code, r.ops = [⟨OpId.nil, .error code⟩]

/-- the outcomes of `processPack`: a refusal (store untouched, error pack, nothing pushed) or a served
    request with explicit new operation documents and datatype document -/
theorem processPack_shape (st : Store) (cl : ClientDoc) (col : CollectionDoc) (p : Pack) :
    (∃ resp, processPack st cl col p = ⟨st, resp, none, 0⟩ ∧ IsErrResp p resp) ∨
    (∃ d doc cp2 newDocs, processPack st cl col p = okR st cl col p d doc cp2 newDocs ∧
      pushRes cl col p d doc = .ok (cp2, newDocs) ∧ Served st col p d doc) := by
  rw [processPack_eq]
  have hrefuse : ∀ code, IsErrResp p (errorPack (resp0 p) code) := fun code => ⟨rfl, rfl, code, rfl⟩
  have hfin : ∀ d, (∀ c, d ≠ .refuse c) → dsp st cl col p = d →
      (∃ resp, finish st cl col p d (docOf col p d (evalCase st col cl.cuid p).2) = ⟨st, resp, none, 0⟩ ∧ IsErrResp p resp) ∨
      (∃ d' doc cp2 newDocs, finish st cl col p d (docOf col p d (evalCase st col cl.cuid p).2)
          = okR st cl col p d' doc cp2 newDocs ∧
        pushRes cl col p d' doc = .ok (cp2, newDocs) ∧ Served st col p d' doc) := by
    intro d hnr hd
    have hs := served_of_dsp hd hnr
    unfold finish
    cases hp : pushRes cl col p d (docOf col p d (evalCase st col cl.cuid p).2) with
    | error code => exact Or.inl ⟨_, rfl, rfl, rfl, code, rfl⟩
    | ok r =>
      obtain ⟨cp2, newDocs⟩ := r
      exact Or.inr ⟨d, _, cp2, newDocs, rfl, hp, hs⟩
  split
  · exact Or.inl ⟨_, rfl, hrefuse _⟩
  split
  · exact Or.inl ⟨_, rfl, hrefuse _⟩
  cases hd : dsp st cl col p with
  | refuse c => exact Or.inl ⟨_, rfl, hrefuse _⟩
  | create => exact hfin _ (by intro c; simp) hd
  | subscribe => exact hfin _ (by intro c; simp) hd
  | normal => exact hfin _ (by intro c; simp) hd

/-! ### upsertDatatype -/

theorem mem_upsert {d y : DatatypeDoc} {l : List DatatypeDoc} (h : y ∈ upsertDatatype d l) : y = d ∨ y ∈ l := by
  induction l with
  | nil => simp [upsertDatatype] at h; exact Or.inl h
  | cons x xs ih =>
    unfold upsertDatatype at h
    split at h
    · rcases List.mem_cons.1 h with h | h
      · exact Or.inl h
      · exact Or.inr (List.mem_cons_of_mem _ h)
    · rcases List.mem_cons.1 h with h | h
      · exact Or.inr (h ▸ List.mem_cons_self)
      · rcases ih h with h | h
        · exact Or.inl h
        · exact Or.inr (List.mem_cons_of_mem _ h)

theorem self_mem_upsert (d : DatatypeDoc) (l : List DatatypeDoc) : d ∈ upsertDatatype d l := by
  induction l with
  | nil => simp [upsertDatatype]
  | cons x xs ih => unfold upsertDatatype; split <;> simp [ih]

/-- under unique ids, the members of an upsert are the new document and the old ones with other ids -/
theorem mem_upsert_nodup {d y : DatatypeDoc} {l : List DatatypeDoc} (hnd : (l.map (·.duid)).Nodup)
    (h : y ∈ upsertDatatype d l) : y = d ∨ (y ∈ l ∧ y.duid ≠ d.duid) := by
  induction l with
  | nil => simp [upsertDatatype] at h; exact Or.inl h
  | cons x xs ih =>
    simp only [List.map_cons, List.nodup_cons] at hnd
    unfold upsertDatatype at h
    split at h
    · next hx =>
      rcases List.mem_cons.1 h with h | h
      · exact Or.inl h
      · refine Or.inr ⟨List.mem_cons_of_mem _ h, ?_⟩
        intro hy
        exact hnd.1 (List.mem_map.2 ⟨y, h, by rw [hy, hx]⟩)
    · next hx =>
      rcases List.mem_cons.1 h with h | h
      · subst h; exact Or.inr ⟨List.mem_cons_self, hx⟩
      · rcases ih hnd.2 h with h | h
        · exact Or.inl h
        · exact Or.inr ⟨List.mem_cons_of_mem _ h.1, h.2⟩

theorem upsert_nodup {d : DatatypeDoc} {l : List DatatypeDoc} (hnd : (l.map (·.duid)).Nodup) :
    ((upsertDatatype d l).map (·.duid)).Nodup := by
  induction l with
  | nil => simp [upsertDatatype]
  | cons x xs ih =>
    simp only [List.map_cons, List.nodup_cons] at hnd
    unfold upsertDatatype
    split
    · next hx => simp only [List.map_cons, List.nodup_cons]; rw [← hx]; exact hnd
    · next hx =>
      simp only [List.map_cons, List.nodup_cons]
      refine ⟨?_, ih hnd.2⟩
      intro hm
      obtain ⟨y, hy, hyx⟩ := List.mem_map.1 hm
      rcases mem_upsert hy with h | h
      · subst h; exact hx hyx.symm
      · exact hnd.1 (List.mem_map.2 ⟨y, h, hyx⟩)

theorem upsert_covers {d y : DatatypeDoc} {l : List DatatypeDoc} (h : y ∈ l) :
    ∃ y' ∈ upsertDatatype d l, y'.duid = y.duid := by
  induction l with
  | nil => simp at h
  | cons x xs ih =>
    unfold upsertDatatype
    split
    · next hx =>
      rcases List.mem_cons.1 h with h | h
      · subst h; exact ⟨d, List.mem_cons_self, hx.symm⟩
      · exact ⟨y, List.mem_cons_of_mem _ h, rfl⟩
    · rcases List.mem_cons.1 h with h | h
      · subst h; exact ⟨y, List.mem_cons_self, rfl⟩
      · obtain ⟨y', h1, h2⟩ := ih h
        exact ⟨y', List.mem_cons_of_mem _ h1, h2⟩

/-! ### pushOps -/

theorem pushOps_spec (duid : String) (colNum : Nat) (ops : List Op) :
    ∀ (cp : CheckPoint) (acc : List OpDoc) (cp2 : CheckPoint) (nd : List OpDoc),
      pushOps duid colNum cp ops acc = .ok (cp2, nd) →
      ∃ add, nd = acc ++ add ∧ (∀ o ∈ add, o.duid = duid ∧ o.colNum = colNum) ∧
        add.map (·.sseq) = List.range' (cp.sseq + 1) add.length ∧ cp2.sseq = cp.sseq + add.length ∧
        (add.map (·.op)).Sublist ops ∧ cp.cseq ≤ cp2.cseq := by
  induction ops with
  | nil =>
    intro cp acc cp2 nd h
    simp [pushOps] at h
    exact ⟨[], by simp [h.2], by simp, by simp, by simp [h.1], by simp, by simp [h.1]⟩
  | cons o os ih =>
    intro cp acc cp2 nd h
    unfold pushOps at h
    split at h
    · next hseq =>
      obtain ⟨add, h1, h2, h3, h4, h5, h6⟩ := ih _ _ _ _ h
      refine ⟨_ :: add, by simpa using h1, ?_, ?_, ?_, ?_, ?_⟩
      · intro x hx
        rcases List.mem_cons.1 hx with hx | hx
        · subst hx; exact ⟨rfl, rfl⟩
        · exact h2 x hx
      · simp only [List.map_cons, List.length_cons, List.range'_succ]
        rw [h3]
      · simp only [List.length_cons]; simp only [] at h4; omega
      · simpa using h5
      · simp only [] at h6; omega
    · split at h
      · obtain ⟨add, h1, h2, h3, h4, h5, h6⟩ := ih _ _ _ _ h
        exact ⟨add, h1, h2, h3, h4, h5.cons _, h6⟩
      · cases h

/-! ### getOperations -/

theorem mem_ins {o x : OpDoc} {l : List OpDoc} : x ∈ Store.getOperations.ins o l ↔ x = o ∨ x ∈ l := by
  induction l with
  | nil => simp [Store.getOperations.ins]
  | cons y ys ih =>
    unfold Store.getOperations.ins
    split
    · simp
    · simp [ih]; constructor
      · rintro (h | h | h)
        · exact Or.inr (Or.inl h)
        · exact Or.inl h
        · exact Or.inr (Or.inr h)
      · rintro (h | h | h)
        · exact Or.inr (Or.inl h)
        · exact Or.inl h
        · exact Or.inr (Or.inr h)

theorem sorted_ins {o : OpDoc} {l : List OpDoc} (h : l.Pairwise (fun a b => a.sseq ≤ b.sseq)) :
    (Store.getOperations.ins o l).Pairwise (fun a b => a.sseq ≤ b.sseq) := by
  induction l with
  | nil => simp [Store.getOperations.ins]
  | cons y ys ih =>
    unfold Store.getOperations.ins
    split
    · next hle =>
      refine List.Pairwise.cons ?_ h
      intro z hz
      rcases List.mem_cons.1 hz with hz | hz
      · subst hz; exact hle
      · exact Nat.le_trans hle (List.rel_of_pairwise_cons h hz)
    · next hle =>
      refine List.Pairwise.cons ?_ (ih (List.Pairwise.of_cons h))
      intro z hz
      rcases mem_ins.1 hz with hz | hz
      · subst hz; omega
      · exact List.rel_of_pairwise_cons h hz

/-- insertion sort of `getOperations` -/
def sortOps (l : List OpDoc) : List OpDoc := l.foldr (fun o acc => Store.getOperations.ins o acc) []

theorem getOperations_eq (st : Store) (duid : String) (from_ : Nat) :
    st.getOperations duid from_ = sortOps (st.operations.filter (fun o => o.duid = duid ∧ from_ ≤ o.sseq)) := rfl

theorem mem_sortOps {x : OpDoc} {l : List OpDoc} : x ∈ sortOps l ↔ x ∈ l := by
  induction l with
  | nil => simp [sortOps]
  | cons y ys ih =>
    have : sortOps (y :: ys) = Store.getOperations.ins y (sortOps ys) := rfl
    rw [this, mem_ins, ih]; simp

theorem sorted_sortOps (l : List OpDoc) : (sortOps l).Pairwise (fun a b => a.sseq ≤ b.sseq) := by
  induction l with
  | nil => simp [sortOps]
  | cons y ys ih =>
    have : sortOps (y :: ys) = Store.getOperations.ins y (sortOps ys) := rfl
    rw [this]; exact sorted_ins ih

theorem mem_getOperations {st : Store} {duid : String} {from_ : Nat} {x : OpDoc} :
    x ∈ st.getOperations duid from_ ↔ x ∈ st.opsOf duid ∧ from_ ≤ x.sseq := by
  rw [getOperations_eq, mem_sortOps]
  simp [Store.opsOf, List.mem_filter, and_assoc]

/-- under a gapless log 1..E, the last pulled operation (if any) is the end of the log -/
theorem getOperations_last {st : Store} {duid : String} {from_ E : Nat} {last : OpDoc}
    (hlog : (st.opsOf duid).map (·.sseq) = List.range' 1 E)
    (h : (st.getOperations duid from_).getLast? = some last) : last.sseq = E := by
  obtain ⟨ys, hys⟩ := List.getLast?_eq_some_iff.1 h
  have hmem : last ∈ st.getOperations duid from_ := by rw [hys]; simp
  obtain ⟨hl1, hl2⟩ := mem_getOperations.1 hmem
  have hr : last.sseq ∈ List.range' 1 E := by rw [← hlog]; exact List.mem_map.2 ⟨last, hl1, rfl⟩
  rw [List.mem_range'_1] at hr
  have hE : E ∈ (st.opsOf duid).map (·.sseq) := by rw [hlog, List.mem_range'_1]; omega
  obtain ⟨o', ho', hoE⟩ := List.mem_map.1 hE
  have hoE : o'.sseq = E := hoE
  have ho'm : o' ∈ st.getOperations duid from_ := mem_getOperations.2 ⟨ho', by omega⟩
  have hsorted := sorted_sortOps (st.operations.filter (fun o => o.duid = duid ∧ from_ ≤ o.sseq))
  rw [← getOperations_eq, hys, List.pairwise_append] at hsorted
  rw [hys] at ho'm
  rcases List.mem_append.1 ho'm with hm | hm
  · have := hsorted.2.2 o' hm last (by simp)
    have : o'.sseq ≤ last.sseq := this
    omega
  · simp at hm; subst hm; exact hoE

/-! ### association lists, the committed document -/

theorem mem_alSet {α : Type} {k : String} {v : α} {l : List (String × α)} {e : String × α}
    (h : e ∈ alSet k v l) : e = (k, v) ∨ e ∈ l := by
  induction l with
  | nil => simp [alSet] at h; exact Or.inl h
  | cons x xs ih =>
    obtain ⟨k', e'⟩ := x
    unfold alSet at h
    split at h
    · rcases List.mem_cons.1 h with h | h
      · exact Or.inl h
      · exact Or.inr (List.mem_cons_of_mem _ h)
    · rcases List.mem_cons.1 h with h | h
      · exact Or.inr (h ▸ List.mem_cons_self)
      · rcases ih h with h | h
        · exact Or.inl h
        · exact Or.inr (List.mem_cons_of_mem _ h)

theorem alFind_alSet {α : Type} (k : String) (v : α) (l : List (String × α)) : alFind k (alSet k v l) = some v := by
  induction l with
  | nil => simp [alSet, alFind]
  | cons x xs ih =>
    obtain ⟨k', e'⟩ := x
    unfold alSet
    split
    · simp [alFind]
    · next hk => simp [alFind, hk, ih]

section doc2
variable (st : Store) (cl : ClientDoc) (p : Pack) (d : Dispatch) (doc : DatatypeDoc) (cp2 : CheckPoint) (nd : List OpDoc)

theorem doc2_duid : (doc2 st cl p d doc cp2 nd).duid = doc.duid := by
  unfold doc2 DatatypeDoc.setSub; simp only []; split
  · rfl
  · split <;> rfl

theorem doc2_colNum : (doc2 st cl p d doc cp2 nd).colNum = doc.colNum := by
  unfold doc2 DatatypeDoc.setSub; simp only []; split
  · rfl
  · split <;> rfl

theorem doc2_sseqEnd : (doc2 st cl p d doc cp2 nd).sseqEnd =
    if p.readOnly then doc.sseqEnd else (cp3 st cl p d doc cp2 nd).sseq := by
  unfold doc2 DatatypeDoc.setSub; simp only []; split
  · rfl
  · split <;> rfl

theorem doc2_rw_mem {e : String × SubClient} (h : e ∈ (doc2 st cl p d doc cp2 nd).rw) :
    e ∈ doc.rw ∨ (p.readOnly = false ∧ e.2.cp = cp3 st cl p d doc cp2 nd) := by
  unfold doc2 DatatypeDoc.setSub at h; simp only [] at h; split at h
  · exact Or.inl h
  · split at h
    · exact Or.inl h
    · next hro =>
      rcases mem_alSet h with h | h
      · subst h; exact Or.inr ⟨by simpa using hro, rfl⟩
      · exact Or.inl h

theorem doc2_ro_mem {e : String × SubClient} (h : e ∈ (doc2 st cl p d doc cp2 nd).ro) :
    e ∈ doc.ro ∨ (p.readOnly = true ∧ e.2.cp = cp3 st cl p d doc cp2 nd) := by
  unfold doc2 DatatypeDoc.setSub at h; simp only [] at h; split at h
  · exact Or.inl h
  · split at h
    · next hro =>
      rcases mem_alSet h with h | h
      · subst h; exact Or.inr ⟨hro, rfl⟩
      · exact Or.inl h
    · exact Or.inl h

theorem doc2_sub_false {s' : SubClient} (h : (doc2 st cl p d doc cp2 nd).sub cl.cuid false = some s') :
    doc.sub cl.cuid false = some s' ∨ (p.readOnly = false ∧ s'.cp = cp3 st cl p d doc cp2 nd) := by
  unfold doc2 DatatypeDoc.setSub at h; simp only [] at h; split at h
  · exact Or.inl h
  · split at h
    · exact Or.inl h
    · next hro =>
      simp only [DatatypeDoc.sub, Bool.false_eq_true, if_false, alFind_alSet] at h
      cases h
      exact Or.inr ⟨by simpa using hro, rfl⟩

end doc2

/-! ### the commit step preserves the invariant -/

theorem logInv_commit {st : Store} (h : LogInv st) (doc2 : DatatypeDoc) (newDocs : List OpDoc)
    (hnew : ∀ o ∈ newDocs, o.duid = doc2.duid ∧ o.colNum = doc2.colNum)
    (hlog : ((st.opsOf doc2.duid) ++ newDocs).map (·.sseq) = List.range' 1 doc2.sseqEnd)
    (hold : ∀ o ∈ st.operations, o.duid = doc2.duid → o.colNum = doc2.colNum)
    (hcp : (∀ e ∈ doc2.rw, e.2.cp.sseq ≤ doc2.sseqEnd) ∧ (∀ e ∈ doc2.ro, e.2.cp.sseq ≤ doc2.sseqEnd)) :
    LogInv { st with operations := st.operations ++ newDocs, datatypes := upsertDatatype doc2 st.datatypes } := by
  refine ⟨upsert_nodup h.duidNodup, ?_, ?_, ?_, ?_⟩
  · intro y hy
    simp only [Store.opsOf, List.filter_append]
    rcases mem_upsert_nodup h.duidNodup hy with hy | ⟨hyl, hne⟩
    · subst hy
      have : newDocs.filter (fun o => decide (o.duid = y.duid)) = newDocs :=
        List.filter_eq_self.2 (fun o ho => by simp [(hnew o ho).1])
      rw [this]; exact hlog
    · have : newDocs.filter (fun o => decide (o.duid = y.duid)) = [] :=
        List.filter_eq_nil_iff.2 (fun o ho => by
          have := (hnew o ho).1
          simp only [decide_eq_true_eq]
          intro h'; exact hne (h'.symm.trans this))
      rw [this, List.append_nil]; exact h.gapless y hyl
  · intro o ho
    rcases List.mem_append.1 ho with ho | ho
    · obtain ⟨y, hy, hyo⟩ := h.noOrphan o ho
      obtain ⟨y', hy', hyy⟩ := upsert_covers (d := doc2) hy
      exact ⟨y', hy', hyy.trans hyo⟩
    · exact ⟨doc2, self_mem_upsert _ _, (hnew o ho).1.symm⟩
  · intro o ho y hy hyo
    rcases mem_upsert_nodup h.duidNodup hy with hy | ⟨hyl, hne⟩
    · subst hy
      rcases List.mem_append.1 ho with ho | ho
      · exact hold o ho hyo.symm
      · exact (hnew o ho).2
    · rcases List.mem_append.1 ho with ho | ho
      · exact h.sameCol o ho y hyl hyo
      · exact absurd (hyo.trans (hnew o ho).1) hne
  · intro y hy
    rcases mem_upsert_nodup h.duidNodup hy with hy | ⟨hyl, _⟩
    · subst hy; exact hcp
    · exact h.cpBound y hyl

section served
variable {st : Store} {cl : ClientDoc} {col : CollectionDoc} {p : Pack} {d : Dispatch} {doc : DatatypeDoc}
  {cp2 : CheckPoint} {nd : List OpDoc}

/-- no stored operation carries an id that no datatype has -/
theorem opsOf_nil_of_fresh (h : LogInv st) {duid : String} (hf : ∀ y ∈ st.datatypes, y.duid ≠ duid) :
    st.opsOf duid = [] := by
  unfold Store.opsOf
  refine List.filter_eq_nil_iff.2 (fun o ho => ?_)
  obtain ⟨y, hy, hyo⟩ := h.noOrphan o ho
  simp only [decide_eq_true_eq]
  intro h'; exact hf y hy (hyo.trans h')

theorem served_log (h : LogInv st) (hs : Served st col p d doc) :
    (st.opsOf doc.duid).map (·.sseq) = List.range' 1 doc.sseqEnd := by
  rcases hs.src with ⟨hf, h0, _, _⟩ | hm
  · rw [opsOf_nil_of_fresh h hf, h0]; rfl
  · exact h.gapless doc hm

theorem served_cp (h : LogInv st) (hs : Served st col p d doc) :
    (∀ e ∈ doc.rw, e.2.cp.sseq ≤ doc.sseqEnd) ∧ (∀ e ∈ doc.ro, e.2.cp.sseq ≤ doc.sseqEnd) := by
  rcases hs.src with ⟨_, _, h1, h2⟩ | hm
  · rw [h1, h2]; simp
  · exact h.cpBound doc hm

theorem served_old (h : LogInv st) (hs : Served st col p d doc) :
    ∀ o ∈ st.operations, o.duid = doc.duid → o.colNum = doc.colNum := by
  intro o ho hod
  rcases hs.src with ⟨hf, _⟩ | hm
  · obtain ⟨y, hy, hyo⟩ := h.noOrphan o ho
    exact absurd (hyo.trans hod) (hf y hy)
  · exact h.sameCol o ho doc hm hod.symm

theorem alFind_mem {α : Type} {k : String} {l : List (String × α)} {v : α} (h : alFind k l = some v) :
    (k, v) ∈ l := by
  induction l with
  | nil => simp [alFind] at h
  | cons x xs ih =>
    obtain ⟨k', e'⟩ := x
    unfold alFind at h
    split at h
    · next hk => cases h; subst hk; exact List.mem_cons_self
    · exact List.mem_cons_of_mem _ (ih h)

/-- the stored checkpoint of the client does not exceed the end of the log -/
theorem cp0_le (h : LogInv st) (hs : Served st col p d doc) : (cp0 cl p doc).sseq ≤ doc.sseqEnd := by
  unfold cp0
  split
  · next s hsub =>
    unfold DatatypeDoc.sub at hsub
    have hcp := served_cp h hs
    split at hsub
    · exact hcp.2 _ (alFind_mem hsub)
    · exact hcp.1 _ (alFind_mem hsub)
  · exact Nat.zero_le _

theorem pushRes_spec (hs : Served st col p d doc) (hp : pushRes cl col p d doc = .ok (cp2, nd)) :
    (∀ o ∈ nd, o.duid = doc.duid ∧ o.colNum = col.num) ∧
    nd.map (·.sseq) = List.range' (doc.sseqEnd + 1) nd.length ∧
    (p.readOnly = true → nd = [] ∧ cp2 = cp0 cl p doc) ∧
    (p.readOnly = false → cp2.sseq = doc.sseqEnd + nd.length) ∧
    (nd.map (·.op)).Sublist p.ops ∧ (cp0 cl p doc).cseq ≤ cp2.cseq := by
  unfold pushRes at hp
  split at hp
  · next hro =>
    simp only [Except.ok.injEq, Prod.mk.injEq] at hp
    obtain ⟨h1, h2⟩ := hp
    subst h2
    refine ⟨by simp, by simp, fun _ => ⟨rfl, ?_⟩, fun h' => by simp [hro] at h', by simp, ?_⟩
    · rw [← h1]; simp [cp1, hro]
    · rw [← h1]; simp [cp1, hro]
  · next hro =>
    obtain ⟨add, h1, h2, h3, h4, h5, h6⟩ := pushOps_spec _ _ _ _ _ _ _ hp
    simp only [List.nil_append] at h1
    subst h1
    have hro' : p.readOnly = false := by simpa using hro
    simp only [cp1, hro', Bool.false_eq_true, if_false] at h3 h4 h6
    refine ⟨?_, h3, fun h' => by simp [hro'] at h', fun _ => h4, ?_, h6⟩
    · intro o ho; rw [← hs.duid]; exact h2 o ho
    · split at h5
      · simp at h5; simp [h5]
      · exact h5

theorem cp3_spec (h : LogInv st) (hs : Served st col p d doc) :
    (cp3 st cl p d doc cp2 nd).cseq = cp2.cseq ∧
    ((cp3 st cl p d doc cp2 nd).sseq = doc.sseqEnd + nd.length ∨ cp3 st cl p d doc cp2 nd = cp2) := by
  unfold cp3
  split
  · next last hl =>
    refine ⟨rfl, Or.inl ?_⟩
    have : (st.getOperations doc.duid (p.cp.sseq + 1)).getLast? = some last := by
      unfold pulled at hl
      rw [hs.duid] at hl
      split at hl
      · simp at hl
      · split at hl
        · exact hl
        · simp at hl
    rw [getOperations_last (served_log h hs) this]
  · exact ⟨rfl, Or.inr rfl⟩

/-- a served request keeps the invariant -/
theorem logInv_okR (h : LogInv st) (hs : Served st col p d doc) (hp : pushRes cl col p d doc = .ok (cp2, nd)) :
    LogInv (okR st cl col p d doc cp2 nd).store := by
  obtain ⟨hn1, hn2, hn3, hn4, _, _⟩ := pushRes_spec hs hp
  obtain ⟨_, hc3⟩ := cp3_spec (cl := cl) (cp2 := cp2) (nd := nd) h hs
  have hcp := served_cp h hs
  have hc0 := cp0_le (cl := cl) h hs
  -- the new end of the log
  have hend : (doc2 st cl p d doc cp2 nd).sseqEnd = doc.sseqEnd + nd.length := by
    rw [doc2_sseqEnd]
    cases hro : p.readOnly with
    | true => simp [(hn3 hro).1]
    | false =>
      simp only [Bool.false_eq_true, if_false]
      rcases hc3 with h3 | h3
      · exact h3
      · rw [h3]; exact hn4 hro
  have hc3le : p.readOnly = true → (cp3 st cl p d doc cp2 nd).sseq ≤ doc.sseqEnd := by
    intro hro
    rcases hc3 with h3 | h3
    · rw [h3, (hn3 hro).1]; simp
    · rw [h3, (hn3 hro).2]; exact hc0
  have hc3le' : p.readOnly = false → (cp3 st cl p d doc cp2 nd).sseq = doc.sseqEnd + nd.length := by
    intro hro
    rcases hc3 with h3 | h3
    · exact h3
    · rw [h3]; exact hn4 hro
  show LogInv { st with operations := st.operations ++ nd,
                        datatypes := upsertDatatype (doc2 st cl p d doc cp2 nd) st.datatypes }
  apply logInv_commit h
  · intro o ho; rw [doc2_duid, doc2_colNum, hs.colNum]; exact hn1 o ho
  · rw [doc2_duid, hend, List.map_append, served_log h hs, hn2]
    have := @List.range'_append 1 doc.sseqEnd nd.length 1
    simp only [Nat.one_mul] at this
    rw [Nat.add_comm 1 doc.sseqEnd] at this
    exact this
  · rw [doc2_duid, doc2_colNum]; exact served_old h hs
  · rw [hend]
    constructor
    · intro e he
      rcases doc2_rw_mem _ _ _ _ _ _ _ he with he | ⟨hro, he⟩
      · exact Nat.le_trans (hcp.1 e he) (Nat.le_add_right _ _)
      · rw [he, hc3le' hro]; exact Nat.le_refl _
    · intro e he
      rcases doc2_ro_mem _ _ _ _ _ _ _ he with he | ⟨hro, he⟩
      · exact Nat.le_trans (hcp.2 e he) (Nat.le_add_right _ _)
      · rw [he]; exact Nat.le_trans (hc3le hro) (Nat.le_add_right _ _)

end served

/-- the invariant only reads the datatype and operation collections -/
theorem logInv_congr {st st' : Store} (hd : st'.datatypes = st.datatypes) (ho : st'.operations = st.operations)
    (h : LogInv st) : LogInv st' := by
  refine ⟨by rw [hd]; exact h.duidNodup, ?_, by rw [hd, ho]; exact h.noOrphan,
          by rw [hd, ho]; exact h.sameCol, by rw [hd]; exact h.cpBound⟩
  rw [hd]; unfold Store.opsOf; rw [ho]; exact h.gapless

theorem eq_of_nodup_duid {l : List DatatypeDoc} (hnd : (l.map (·.duid)).Nodup) {a b : DatatypeDoc}
    (ha : a ∈ l) (hb : b ∈ l) (hab : a.duid = b.duid) : a = b := by
  induction l with
  | nil => cases ha
  | cons x xs ih =>
    simp only [List.map_cons, List.nodup_cons] at hnd
    rcases List.mem_cons.1 ha with ha1 | ha1 <;> rcases List.mem_cons.1 hb with hb1 | hb1
    · rw [ha1, hb1]
    · exact absurd (List.mem_map.2 ⟨b, hb1, by rw [← hab, ha1]⟩) hnd.1
    · exact absurd (List.mem_map.2 ⟨a, ha1, by rw [hab, hb1]⟩) hnd.1
    · exact ih hnd.2 ha1 hb1

/-- the fold step of `processPushPull` -/
def step (cl : ClientDoc) (col : CollectionDoc)
    (acc : Store × List Pack × List Notification × List (String × Nat)) (p : Pack) :
    Store × List Pack × List Notification × List (String × Nat) :=
  let r := processPack acc.1 cl col p
  (r.store, acc.2.1 ++ [r.resp], acc.2.2.1 ++ r.notif.toList,
   acc.2.2.2 ++ (if r.pushed > 0 then [(r.resp.duid, col.num)] else []))

theorem processPushPull_eq (st : Store) (colName cuid : String) (packs : List Pack) :
    st.processPushPull colName cuid packs =
      match st.getCollection colName with
      | none => (st, .rpcErr 5, [], [])
      | some col =>
        match st.getClient cuid with
        | none => (st, .rpcErr 5, [], [])
        | some cl =>
          if cl.colNum ≠ col.num then (st, .rpcErr 16, [], [])
          else
            ((packs.foldl (step cl col) (st, [], [], [])).1, .ok (packs.foldl (step cl col) (st, [], [], [])).2.1,
             (packs.foldl (step cl col) (st, [], [], [])).2.2.1, (packs.foldl (step cl col) (st, [], [], [])).2.2.2) := by
  rfl

end SL

open SL

theorem logInv_empty : LogInv {} := by
  refine ⟨?_, ?_, ?_, ?_, ?_⟩
  · exact List.nodup_nil
  · intro d hd; cases hd
  · intro o ho; cases ho
  · intro o ho; cases ho
  · intro d hd; cases hd

/-- the invariant survives ANY pack of ANY client -/
theorem logInv_processPack (st : Store) (cl : ClientDoc) (col : CollectionDoc) (p : Pack) (h : LogInv st) :
    LogInv (processPack st cl col p).store := by
  rcases processPack_shape st cl col p with ⟨resp, he, _⟩ | ⟨d, doc, cp2, nd, he, hp, hs⟩
  · rw [he]; exact h
  · rw [he]; exact logInv_okR h hs hp

theorem logInv_foldl_step (cl : ClientDoc) (col : CollectionDoc) (packs : List Pack) :
    ∀ acc : Store × List Pack × List Notification × List (String × Nat),
      LogInv acc.1 → LogInv (packs.foldl (step cl col) acc).1 := by
  induction packs with
  | nil => intro acc h; exact h
  | cons p ps ih =>
    intro acc h
    rw [List.foldl_cons]
    exact ih _ (logInv_processPack acc.1 cl col p h)

theorem logInv_processPushPull (st : Store) (colName cuid : String) (packs : List Pack) (h : LogInv st) :
    LogInv (st.processPushPull colName cuid packs).1 := by
  rw [processPushPull_eq]
  split
  · exact h
  · split
    · exact h
    · split
      · exact h
      · exact logInv_foldl_step _ _ packs _ h

theorem logInv_makeCollection (st : Store) (name : String) (h : LogInv st) : LogInv (st.makeCollection name).1 := by
  unfold Store.makeCollection
  split
  · exact h
  · exact logInv_congr (st := st) rfl rfl h

theorem logInv_processClient (st : Store) (admin : Bool) (colName : String) (cl : ClientDoc) (h : LogInv st) :
    LogInv (st.processClient admin colName cl).1 := by
  unfold Store.processClient
  split
  · exact h
  · split
    · exact h
    · simp only []
      split
      · split
        · exact h
        · exact logInv_congr (st := st) rfl rfl h
      · exact logInv_congr (st := st) rfl rfl h

theorem logInv_updateSnapshot (st : Store) (duid colName : String) (h : LogInv st) : LogInv (st.updateSnapshot duid colName) := by
  unfold Store.updateSnapshot
  split
  · exact h
  · split
    · exact h
    · split
      · exact h
      · exact logInv_congr (st := st) rfl rfl h

theorem logInv_resetCollection (st : Store) (name : String) (h : LogInv st) : LogInv (st.resetCollection name) := by
  unfold Store.resetCollection
  split
  · exact logInv_makeCollection st name h
  · next c _ =>
    refine ⟨?_, ?_, ?_, ?_, ?_⟩
    · exact h.duidNodup.sublist (List.Sublist.map _ List.filter_sublist)
    · intro d hd
      simp only [List.mem_filter, decide_eq_true_eq] at hd
      have : ({ st with operations := st.operations.filter (fun o => o.colNum ≠ c.num),
                        snapshots := st.snapshots.filter (fun s => s.colNum ≠ c.num),
                        datatypes := st.datatypes.filter (fun d => d.colNum ≠ c.num),
                        clients := st.clients.filter (fun x => x.colNum ≠ c.num),
                        userDocs := st.userDocs.filter (fun u => u.col ≠ name) } : Store).opsOf d.duid
              = st.opsOf d.duid := by
        simp only [Store.opsOf, List.filter_filter]
        apply List.filter_congr
        intro o ho
        by_cases hod : o.duid = d.duid
        · have := h.sameCol o ho d hd.1 hod.symm
          simp [hod, this, hd.2]
        · simp [hod]
      rw [this]; exact h.gapless d hd.1
    · intro o ho
      simp only [List.mem_filter, decide_eq_true_eq] at ho
      obtain ⟨d, hd, hdo⟩ := h.noOrphan o ho.1
      refine ⟨d, ?_, hdo⟩
      simp only [List.mem_filter, decide_eq_true_eq]
      exact ⟨hd, by rw [← h.sameCol o ho.1 d hd hdo]; exact ho.2⟩
    · intro o ho d hd hdo
      simp only [List.mem_filter, decide_eq_true_eq] at ho hd
      exact h.sameCol o ho.1 d hd.1 hdo
    · intro d hd
      simp only [List.mem_filter, decide_eq_true_eq] at hd
      exact h.cpBound d hd.1

/-- the log only grows, by appending: earlier operation documents are never rewritten or dropped by a push-pull -/
theorem processPack_appends (st : Store) (cl : ClientDoc) (col : CollectionDoc) (p : Pack) :
    ∃ newDocs : List OpDoc, (processPack st cl col p).store.operations = st.operations ++ newDocs ∧
      newDocs.length = (processPack st cl col p).pushed := by
  rcases processPack_shape st cl col p with ⟨resp, he, _⟩ | ⟨d, doc, cp2, nd, he, hp, hs⟩
  · rw [he]; exact ⟨[], by simp, rfl⟩
  · rw [he]; exact ⟨nd, rfl, rfl⟩

/-- C06: exactly the accepted operations are stored, once, in the order given, each under the next
    server sequence number: what is appended is a sublist of the request's operations -/
theorem processPack_stores_pushed (st : Store) (cl : ClientDoc) (col : CollectionDoc) (p : Pack) :
    ∃ newDocs : List OpDoc, (processPack st cl col p).store.operations = st.operations ++ newDocs ∧
      (newDocs.map (·.op)).Sublist p.ops := by
  rcases processPack_shape st cl col p with ⟨resp, he, _⟩ | ⟨d, doc, cp2, nd, he, hp, hs⟩
  · rw [he]; exact ⟨[], by simp, by simp⟩
  · rw [he]; exact ⟨nd, rfl, (pushRes_spec hs hp).2.2.2.2.1⟩

/-- C16: a refused pack (error response) leaves the store exactly as it was -/
theorem refused_store_unchanged (st : Store) (cl : ClientDoc) (col : CollectionDoc) (p : Pack)
    (h : (processPack st cl col p).resp.error = true) : (processPack st cl col p).store = st := by
  rcases processPack_shape st cl col p with ⟨resp, he, _⟩ | ⟨d, doc, cp2, nd, he, hp, hs⟩
  · rw [he]
  · rw [he] at h; exact absurd h (by simp [okR, resp1, resp0])

/-- C16: an RPC-level refusal leaves the store exactly as it was -/
theorem rpcErr_store_unchanged (st : Store) (colName cuid : String) (packs : List Pack) (code : Nat)
    (h : (st.processPushPull colName cuid packs).2.1 = .rpcErr code) : (st.processPushPull colName cuid packs).1 = st := by
  rw [processPushPull_eq] at h ⊢
  split
  · rfl
  · split
    · rfl
    · split
      · rfl
      · next hg1 _ _ hg2 hc =>
        simp only [hg1, hg2, hc, if_false] at h
        cases h

/-- C16: every pack is answered by a pack for the same key that is either a well-formed error pack
    (exactly one error operation) or a normal pack without the error bit -/
theorem always_answers (st : Store) (cl : ClientDoc) (col : CollectionDoc) (p : Pack) :
    let r := (processPack st cl col p).resp
    r.key = p.key ∧ ((r.error = true ∧ ∃ code, r.ops = [⟨OpId.nil, .error code⟩]) ∨ r.error = false) := by
  intro r
  rcases processPack_shape st cl col p with ⟨resp, he, h1, h2, h3⟩ | ⟨d, doc, cp2, nd, he, hp, hs⟩
  · have : r = resp := by simp only [r, he]
    rw [this]; exact ⟨h2, Or.inl ⟨h1, h3⟩⟩
  · have : r = (okR st cl col p d doc cp2 nd).resp := by simp only [r, he]
    rw [this]; exact ⟨rfl, Or.inr rfl⟩

theorem foldl_step_keys (cl : ClientDoc) (col : CollectionDoc) (packs : List Pack) :
    ∀ acc : Store × List Pack × List Notification × List (String × Nat),
      (packs.foldl (step cl col) acc).2.1.map (·.key) = acc.2.1.map (·.key) ++ packs.map (·.key) := by
  induction packs with
  | nil => intro acc; simp
  | cons p ps ih =>
    intro acc
    rw [List.foldl_cons, ih]
    have := (always_answers acc.1 cl col p).1
    simp [step, this]

/-- C16: one response pack per request pack, in order -/
theorem one_answer_per_pack (st : Store) (colName cuid : String) (packs resps : List Pack)
    (h : (st.processPushPull colName cuid packs).2.1 = .ok resps) :
    resps.map (·.key) = packs.map (·.key) := by
  rw [processPushPull_eq] at h
  split at h
  · cases h
  · split at h
    · cases h
    · split at h
      · cases h
      · next cl _ _ =>
        simp only [Rpc.ok.injEq] at h
        rw [← h, foldl_step_keys]; simp

/-- C06: the checkpoint recorded for a read-write client never goes back (its cseq does not decrease),
    and the end of the log of a datatype never goes back -/
theorem cseq_monotone' (st : Store) (cl : ClientDoc) (col : CollectionDoc) (p : Pack) (d d' : DatatypeDoc) (s s' : SubClient)
    (h : LogInv st) (hd : d ∈ st.datatypes) (hs : d.sub cl.cuid false = some s)
    (hd' : d' ∈ (processPack st cl col p).store.datatypes) (hid : d'.duid = d.duid)
    (hs' : d'.sub cl.cuid false = some s') : s.cp.cseq ≤ s'.cp.cseq ∧ d.sseqEnd ≤ d'.sseqEnd := by
  -- two documents of the old store with the same id are the same document
  have huniq : ∀ y ∈ st.datatypes, y.duid = d.duid → y = d := by
    intro y hy hyd
    exact eq_of_nodup_duid h.duidNodup hy hd hyd
  rcases processPack_shape st cl col p with ⟨resp, he, _⟩ | ⟨dsp, doc, cp2, nd, he, hp, hsv⟩
  · rw [he] at hd'
    have := huniq d' hd' hid
    subst this
    rw [hs] at hs'; cases hs'
    exact ⟨Nat.le_refl _, Nat.le_refl _⟩
  · rw [he] at hd'
    rcases mem_upsert_nodup h.duidNodup hd' with hd2 | ⟨hm, _⟩
    · -- d' is the committed document, so `doc` is `d`
      have hdoc : doc = d := by
        rcases hsv.src with ⟨hf, _⟩ | hm
        · exact absurd (by rw [← hid, hd2, doc2_duid]) (hf d hd)
        · exact huniq doc hm (by rw [← hid, hd2, doc2_duid])
      subst hdoc
      obtain ⟨_, _, hn3, hn4, _, hn6⟩ := pushRes_spec hsv hp
      obtain ⟨hc3a, hc3⟩ := cp3_spec (cl := cl) (cp2 := cp2) (nd := nd) h hsv
      constructor
      · rw [hd2] at hs'
        rcases doc2_sub_false _ _ _ _ _ _ _ hs' with h1 | ⟨hro, h1⟩
        · rw [hs] at h1; cases h1; exact Nat.le_refl _
        · rw [h1, hc3a]
          have : (cp0 cl p doc).cseq = s.cp.cseq := by simp [cp0, hro, hs]
          rw [← this]; exact hn6
      · rw [hd2, doc2_sseqEnd]
        cases hro : p.readOnly with
        | true => simp
        | false =>
          simp only [Bool.false_eq_true, if_false]
          rcases hc3 with h3 | h3
          · rw [h3]; exact Nat.le_add_right _ _
          · rw [h3, hn4 hro]; exact Nat.le_add_right _ _
    · have := huniq d' hm hid
      subst this
      rw [hs] at hs'; cases hs'
      exact ⟨Nat.le_refl _, Nat.le_refl _⟩

end Orda
