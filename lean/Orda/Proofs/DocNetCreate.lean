/-
The end-to-end document system WITH the creating client and its creation snapshot operation (C01/C05).
Everything lives in namespace `Orda.DNetC`; the system types (`Node`, `Net`, `Act`, `Quiescent`, `SameOps`, `CallOK`, …)
are the ones of `Orda.DNet` (Proofs/DocNet.lean).

THE SYSTEM.  `initC cuid n`: node 0 is the CREATOR `Replica.new .document (cuid 0) true` (its buffer already holds the
creation snapshot operation `snapOp cuid = ⟨(OpId.new (cuid 0)).next, .snapshot (DState.fresh .document)⟩`, its clock is one
ahead), nodes `1 … n-1` are fresh subscribers `Replica.new .document (cuid i) false`; nothing pushed or pulled; empty log.
`StepC` = `DNet.Step`, except that a subscriber (`i ≠ 0`) issues calls only after it has consumed the first log entry
(`0 < nd.pulled`).  `ReachC` = reachable from `initC` (the constructor carries `CuidsDistinct cuid n`).

RESULTS (no applicability hypothesis anywhere; the only hypotheses are the ones `DNet` has: distinct client identifiers
inside `ReachC.init`, `CallOK` inside `StepC.call`):
  * `created_net_every_delivery_is_applicable` — every node has `DP.DocInv`; every enabled delivery is EITHER the creation
    snapshot operation, and then it is the FIRST entry the (still untouched, empty) subscriber consumes, its delivery returns
    no panic and leaves the empty document, OR a document operation that is applicable (`GoodD`), whose delivery returns no
    error / panic, IS `applyD`, and keeps `DP.DocInv`;
  * `created_net_same_operations_same_document`, `created_net_quiescent_converged` — shaped exactly like the `DNet` theorems;
    `sameOps_of_caught_up`, `sameOps_of_quiescent`;
  * `log_starts_with_snapshot` — in every reachable state a non-empty log starts with the creator's snapshot operation and it
    is nowhere else;
  * `call_before_first_pull_diverges` — WITHOUT the guard of `StepC.call` convergence is false: two nodes, the subscriber
    puts a key before its first pull; at quiescence the creator shows `{"k":1}` and the subscriber `{}` (the snapshot delivery
    resets its state).

HOW (approach (b) of the task).  `DNet.NodeInv` cannot be reused: its field `life : Life (cuid i) false nd.r` is false for the
creator and — because `LifeStep.deliver` needs `toDOp o = some x` — is not kept by the delivery of the snapshot operation
(`toDOp (snapOp _) = none`).  `Life` is only used in DocNet to get `DP.DocInv` and `DLR.HistOK`; `NodeInvC` carries these two
directly (`dinv`, `hist`) and the DocNet induction is redone with them.  The ghost sequence `ap i` CONTAINS the snapshot entry
(`den` drops it: `toDOp = none`), `EntOKC` allows it, and three facts are added: `fresh` (a subscriber that has pulled nothing has
applied nothing — this is where the guard is used), `creator` (the creator's buffer starts with the snapshot operation), and
`InvC.log_head` (a non-empty log starts with the snapshot entry).  A snapshot delivery then meets the empty document and
leaves it empty (`NodeInvC.pull_snap`).
§5 `Ex`: creator + two subscribers, a guarded run (`runC`) to quiescence, all theorems instantiated (both branches of the delivery
theorem, the same-operations theorem in a non-quiescent state), the common view `{"arr":["m",2],"k":9}` by `decide`.
-/
import Orda.Proofs.DocNet
set_option linter.unusedSimpArgs false
set_option linter.unusedVariables false
namespace Orda.DNetC
open Orda Orda.DC Orda.DA Orda.DM Orda.DR Orda.DCausal Orda.DNet

/-! ## 1. the system -/

/-- the creation snapshot operation of the creator (Model/Replica.lean:197) -/
def snapOp (cuid : Nat → String) : Op := ⟨(OpId.new (cuid 0)).next, .snapshot (DState.fresh .document)⟩
/-- … as a log entry -/
def snapEnt (cuid : Nat → String) : LEnt := (0, snapOp cuid)

/-- node 0 is the creator, nodes 1..n-1 are fresh subscribers; nothing pushed or pulled; empty log -/
def initC (cuid : Nat → String) (n : Nat) : Net :=
  ⟨(List.range n).map fun i => ⟨Replica.new .document (cuid i) (i == 0), 0, 0⟩, []⟩

/-- steps: as `DNet.Step`, except that a subscriber (i ≠ 0) issues calls only after it has consumed the first log entry
    (`0 < nd.pulled`); the creator's first push puts the snapshot operation at the head of the log (that follows from buffer order) -/
inductive StepC : Net → Net → Prop
  /-- node `i` issues the public call `c`; a subscriber only after its first pull -/
  | call (net : Net) (i : Nat) (nd : Node) (c : Call) (hi : net.nodes[i]? = some nd) (hc : CallOK c)
      (hg : i ≠ 0 → 0 < nd.pulled) :
      StepC net ⟨net.nodes.set i { nd with r := (nd.r.call c).1 }, net.log⟩
  /-- the next unpushed operation of node `i`'s buffer is appended to the log (buffer order) -/
  | push (net : Net) (i : Nat) (nd : Node) (o : Op) (hi : net.nodes[i]? = some nd)
      (ho : nd.r.buffer[nd.pushed]? = some o) :
      StepC net ⟨net.nodes.set i { nd with pushed := nd.pushed + 1 }, net.log ++ [(i, o)]⟩
  /-- node `i` consumes its next log entry: skipped if `i` is the author, otherwise delivered with `execRemoteBase` -/
  | pull (net : Net) (i : Nat) (nd : Node) (a : Nat) (o : Op) (hi : net.nodes[i]? = some nd)
      (hl : net.log[nd.pulled]? = some (a, o)) :
      StepC net ⟨net.nodes.set i { nd with r := if a = i then nd.r else (nd.r.execRemoteBase o).1,
                                           pulled := nd.pulled + 1 }, net.log⟩

/-- the reachable states of the system of `n` nodes (creator + subscribers) with pairwise distinct client identifiers -/
inductive ReachC (cuid : Nat → String) (n : Nat) : Net → Prop
  | init (hc : CuidsDistinct cuid n) : ReachC cuid n (initC cuid n)
  | step {net net' : Net} : ReachC cuid n net → StepC net net' → ReachC cuid n net'

/-- every step of the created system is a step of `DNet` (the guard is only a restriction) -/
theorem StepC.toStep {net net' : Net} (h : StepC net net') : Step net net' := by
  cases h with
  | call i nd c hi hc hg => exact .call net i nd c hi hc
  | push i nd o hi ho => exact .push net i nd o hi ho
  | pull i nd a o hi hl => exact .pull net i nd a o hi hl

/-! ### the executable form (for concrete runs): `DNet.Net.act` + the guard -/

def actC (net : Net) : Act → Option Net
  | .call i c =>
    match net.nodes[i]? with
    | some nd =>
      if i = 0 ∨ 0 < nd.pulled then some ⟨net.nodes.set i { nd with r := (nd.r.call c).1 }, net.log⟩ else none
    | none => none
  | .push i => net.act (.push i)
  | .pull i => net.act (.pull i)

def runC (net : Net) : List Act → Option Net
  | [] => some net
  | a :: as => match actC net a with
    | some net' => runC net' as
    | none => none

theorem stepC_of_actC {net net' : Net} {a : Act} (h : actC net a = some net') (hk : ActOK a) : StepC net net' := by
  cases a with
  | call i c =>
    simp only [actC] at h
    cases hn : net.nodes[i]? with
    | none => rw [hn] at h; cases h
    | some nd =>
      rw [hn] at h
      simp only at h
      by_cases hg : i = 0 ∨ 0 < nd.pulled
      · rw [if_pos hg] at h
        simp only [Option.some.injEq] at h
        subst h
        refine .call net i nd c hn hk ?_
        intro h0
        rcases hg with h1 | h1
        · exact absurd h1 h0
        · exact h1
      · rw [if_neg hg] at h; cases h
  | push i =>
    simp only [actC, Net.act] at h
    cases hn : net.nodes[i]? with
    | none => rw [hn] at h; cases h
    | some nd =>
      rw [hn] at h
      simp only at h
      cases ho : nd.r.buffer[nd.pushed]? with
      | none => rw [ho] at h; cases h
      | some o =>
        rw [ho] at h
        simp only [Option.some.injEq] at h
        subst h
        exact .push net i nd o hn ho
  | pull i =>
    simp only [actC, Net.act] at h
    cases hn : net.nodes[i]? with
    | none => rw [hn] at h; cases h
    | some nd =>
      rw [hn] at h
      simp only at h
      cases hl : net.log[nd.pulled]? with
      | none => rw [hl] at h; cases h
      | some e =>
        obtain ⟨a, o⟩ := e
        rw [hl] at h
        simp only [Option.some.injEq] at h
        subst h
        exact .pull net i nd a o hn hl

theorem reachC_run {cuid : Nat → String} {n : Nat} : ∀ (as : List Act) {net net' : Net}, ReachC cuid n net →
    runC net as = some net' → (∀ a ∈ as, ActOK a) → ReachC cuid n net'
  | [], _, _, hr, h, _ => by
    simp only [runC, Option.some.injEq] at h
    exact h ▸ hr
  | a :: as, net, net', hr, h, hk => by
    simp only [runC] at h
    cases ha : actC net a with
    | none => rw [ha] at h; cases h
    | some net1 =>
      rw [ha] at h
      exact reachC_run as (.step hr (stepC_of_actC ha (hk a (by simp)))) h
        (fun a' h' => hk a' (List.mem_cons_of_mem _ h'))

/-! ## 2. the invariant -/

/-- what is known about every operation of the system: as `DNet.EntOK`, or the creation snapshot entry -/
def EntOKC (cuid : Nat → String) (n : Nat) (e : LEnt) : Prop :=
  e.1 < n ∧ e.2.id.cuid = cuid e.1 ∧ e.2.id.era = 0 ∧ 1 ≤ e.2.id.lamport ∧
    (e = snapEnt cuid ∨ ∃ x, toDOp e.2 = some x ∧ ValuesOK x)

structure NodeInvC (cuid : Nat → String) (n : Nat) (log : List LEnt) (i : Nat) (nd : Node) (A : List LEnt) : Prop where
  dinv : DP.DocInv nd.r
  hist : DLR.HistOK (applyAllD Doc.empty (den A))
  st : nd.r.state = .doc (applyAllD Doc.empty (den A))
  valid : Valid Doc.empty (den A)
  pushed_le : nd.pushed ≤ nd.r.buffer.length
  pulled_le : nd.pulled ≤ log.length
  own_eq : own i A = nd.r.buffer.map (fun o => (i, o))
  oth_eq : oth i A = oth i (log.take nd.pulled)
  log_own : own i log = (nd.r.buffer.take nd.pushed).map (fun o => (i, o))
  clock_cuid : nd.r.opId.cuid = cuid i
  clock_era : nd.r.opId.era = 0
  lam_le : ∀ e ∈ A, e.2.id.lamport ≤ nd.r.opId.lamport
  ent_ok : ∀ e ∈ A, EntOKC cuid n e
  buf_sorted : nd.r.buffer.Pairwise (fun o o' => o.id.lamport < o'.id.lamport)
  keys : A.Pairwise (fun e e' => lkey e ≠ lkey e')
  /-- CAUSALITY: what node `i` had applied when it issued `o` is in the log before `o` -/
  causal : ∀ P o S, A = P ++ (i, o) :: S → ∀ k, log[k]? = some (i, o) → ∀ e ∈ P, e ∈ log.take k
  /-- a subscriber that has consumed nothing has applied nothing (the guard of `StepC.call`) -/
  fresh : i ≠ 0 → nd.pulled = 0 → A = []
  /-- the creator's buffer starts with the creation snapshot operation -/
  creator : i = 0 → nd.r.buffer.head? = some (snapOp cuid)

structure InvC (cuid : Nat → String) (n : Nat) (net : Net) (ap : Nat → List LEnt) : Prop where
  distinct : CuidsDistinct cuid n
  len : net.nodes.length = n
  node : ∀ i nd, net.nodes[i]? = some nd → NodeInvC cuid n net.log i nd (ap i)
  log_auth : ∀ e ∈ net.log, e.1 < n
  log_keys : net.log.Pairwise (fun e e' => lkey e ≠ lkey e')
  /-- a non-empty log starts with the creation snapshot entry -/
  log_head : ∀ e, net.log[0]? = some e → e = snapEnt cuid

theorem toDOp_snapOp (cuid : Nat → String) : toDOp (snapOp cuid) = none := rfl

theorem den_snoc_none {A : List LEnt} {e : LEnt} (h : toDOp e.2 = none) : den (A ++ [e]) = den A := by
  simp [den, h]

theorem freshIn_denC {cuid : Nat → String} {n : Nat} {l : List LEnt} (h : ∀ e ∈ l, EntOKC cuid n e) :
    FreshIn Doc.empty (den l) := by
  apply freshIn_empty
  intro x hx
  obtain ⟨e, he, hex⟩ := mem_den.mp hx
  rw [toDOp_ts hex]
  exact (h e he).2.2.2.1

namespace NodeInvC
variable {cuid : Nat → String} {n : Nat} {log : List LEnt} {i : Nat} {nd : Node} {A : List LEnt}

theorem buf_mem (N : NodeInvC cuid n log i nd A) {o : Op} (h : o ∈ nd.r.buffer) : (i, o) ∈ A := by
  have : (i, o) ∈ own i A := by rw [N.own_eq]; exact List.mem_map.mpr ⟨o, h, rfl⟩
  exact (mem_own.mp this).1

theorem mem_buf (N : NodeInvC cuid n log i nd A) {o : Op} (h : (i, o) ∈ A) : o ∈ nd.r.buffer := by
  have : (i, o) ∈ own i A := mem_own.mpr ⟨h, rfl⟩
  rw [N.own_eq] at this
  obtain ⟨o', h1, h2⟩ := List.mem_map.mp this
  simp only [Prod.mk.injEq, true_and] at h2
  exact h2 ▸ h1

theorem log_take (N : NodeInvC cuid n log i nd A) {o : Op} (h : (i, o) ∈ log) : o ∈ nd.r.buffer.take nd.pushed := by
  have : (i, o) ∈ own i log := mem_own.mpr ⟨h, rfl⟩
  rw [N.log_own] at this
  obtain ⟨o', h1, h2⟩ := List.mem_map.mp this
  simp only [Prod.mk.injEq, true_and] at h2
  exact h2 ▸ h1

/-- every consumed log entry has been applied -/
theorem mem_of_log (N : NodeInvC cuid n log i nd A) {e : LEnt} (h : e ∈ log.take nd.pulled) : e ∈ A := by
  by_cases he : e.1 = i
  · obtain ⟨a, o⟩ := e
    simp only at he
    subst he
    exact N.buf_mem (List.mem_of_mem_take (N.log_take (List.mem_of_mem_take h)))
  · have : e ∈ oth i A := by rw [N.oth_eq]; exact mem_oth.mpr ⟨h, he⟩
    exact (mem_oth.mp this).1

theorem buf_lam (N : NodeInvC cuid n log i nd A) {o : Op} (h : o ∈ nd.r.buffer) : o.id.lamport ≤ nd.r.opId.lamport :=
  N.lam_le _ (N.buf_mem h)

end NodeInvC

namespace InvC
variable {cuid : Nat → String} {n : Nat} {net : Net} {ap : Nat → List LEnt}

theorem log_mem (I : InvC cuid n net ap) {e : LEnt} (h : e ∈ net.log) :
    ∃ nd, net.nodes[e.1]? = some nd ∧ e.2 ∈ nd.r.buffer.take nd.pushed ∧ e ∈ ap e.1 := by
  have hlt : e.1 < net.nodes.length := by rw [I.len]; exact I.log_auth e h
  refine ⟨net.nodes[e.1], List.getElem?_eq_getElem hlt, ?_⟩
  have N := I.node e.1 _ (List.getElem?_eq_getElem hlt)
  obtain ⟨a, o⟩ := e
  have h1 := N.log_take h
  exact ⟨h1, N.buf_mem (List.mem_of_mem_take h1)⟩

/-- the snapshot entry sits at position 0 of the log and nowhere else -/
theorem snap_pos (I : InvC cuid n net ap) {k : Nat} (h : net.log[k]? = some (snapEnt cuid)) : k = 0 := by
  by_contra hk
  obtain ⟨hp, hpe⟩ := List.getElem?_eq_some_iff.mp h
  have h0 : 0 < net.log.length := by omega
  have e0 := I.log_head _ (List.getElem?_eq_getElem h0)
  have := List.pairwise_iff_getElem.mp I.log_keys 0 k h0 hp (by omega)
  rw [hpe, e0] at this
  exact this rfl

/-- **every delivery is the snapshot delivery to an untouched subscriber, or applicable** -/
theorem deliver (I : InvC cuid n net ap) {j : Nat} {nd : Node} {a : Nat} {o : Op} (hj : net.nodes[j]? = some nd)
    (hl : net.log[nd.pulled]? = some (a, o)) (ha : a ≠ j) :
    EntOKC cuid n (a, o) ∧ (∀ e ∈ ap j, lkey e ≠ lkey (a, o)) ∧
      (((a, o) = snapEnt cuid ∧ nd.pulled = 0 ∧ ap j = []) ∨
        ∃ x, toDOp o = some x ∧ ValuesOK x ∧ GoodD (applyAllD Doc.empty (den (ap j))) [x]) := by
  have hmem : (a, o) ∈ net.log := List.mem_of_getElem? hl
  obtain ⟨nda, hna, hbuf, hapa⟩ := I.log_mem hmem
  simp only at hna hbuf hapa
  have Na := I.node a nda hna
  have Nj := I.node j nd hj
  have hent := Na.ent_ok _ hapa
  obtain ⟨han, hcu, hera, hlam, hkind⟩ := hent
  simp only at han hcu hera hlam
  -- the keys
  have hkeys : ∀ e ∈ ap j, lkey e ≠ lkey (a, o) := by
    intro e he
    by_cases hej : e.1 = j
    · have := (Nj.ent_ok e he).2.1
      intro e0
      simp only [lkey, Prod.mk.injEq] at e0
      rw [this, hcu, hej] at e0
      have hjn : j < n := by
        have := (List.getElem?_eq_some_iff.mp hj).1
        rw [I.len] at this; exact this
      exact ha (I.distinct j a hjn han e0.2).symm
    · have h1 : e ∈ oth j (ap j) := mem_oth.mpr ⟨he, hej⟩
      rw [Nj.oth_eq] at h1
      obtain ⟨k', hk', hek⟩ := List.mem_take_iff_getElem.mp (mem_oth.mp h1).1
      obtain ⟨hp, hpe⟩ := List.getElem?_eq_some_iff.mp hl
      have := List.pairwise_iff_getElem.mp I.log_keys k' nd.pulled (by omega) hp (by omega)
      rw [hek, hpe] at this
      exact this
  refine ⟨⟨han, hcu, hera, hlam, hkind⟩, hkeys, ?_⟩
  rcases hkind with hsnap | ⟨x, hx, hv⟩
  · left
    have hp0 : nd.pulled = 0 := I.snap_pos (hsnap ▸ hl)
    have ha0 : a = 0 := by
      have := congrArg Prod.fst hsnap
      exact this
    exact ⟨hsnap, hp0, Nj.fresh (fun e => ha (ha0.trans e.symm)) hp0⟩
  · right
    simp only at hx
    obtain ⟨P, S, hsplit⟩ := List.append_of_mem hapa
    have hc := Na.causal P o S hsplit nd.pulled hl
    have hsubset : P ⊆ ap j := fun e he => Nj.mem_of_log (hc e he)
    have hkP : P.Pairwise (fun e e' => lkey e ≠ lkey e') := by
      have := Na.keys
      rw [hsplit] at this
      exact (List.pairwise_append.mp this).1
    have hsub : (den P).Subperm (den (ap j)) :=
      subperm_filterMap _ (List.subperm_of_subset (nodup_of_keys hkP) hsubset)
    have hval := Na.valid
    rw [hsplit, den_append, den_cons (e := (a, o)) hx] at hval
    obtain ⟨hvP, hvx⟩ := valid_append.mp hval
    refine ⟨x, hx, hv, ?_⟩
    apply deliver_good wf_doc_empty hvP hvx.1 Nj.valid hsub (distinct_den Nj.keys)
    · intro b hb
      obtain ⟨e, he, heb⟩ := mem_den.mp hb
      exact dcompat_of_lkey (hkeys e he) heb hx
    · exact freshIn_denC Nj.ent_ok
    · apply freshIn_empty
      intro y hy
      simp only [List.mem_singleton] at hy
      subst hy
      rw [toDOp_ts hx]
      exact hlam

end InvC

/-! ## 3. the steps keep the invariant -/

/-- `DNet.call_cases` from `DP.DocInv` and `DLR.HistOK` instead of `Life` -/
theorem call_casesC {r : Replica} (hinv : DP.DocInv r) {d : Doc} (hs : r.state = .doc d) (hh : DLR.HistOK d) {c : Call}
    (hc : CallOK c) :
    (r.call c).1 = r ∨ ∃ o x, (r.call c).1.buffer = r.buffer ++ [o] ∧ o.id = r.opId.next ∧
      (r.call c).1.opId = r.opId.next ∧ (r.call c).1.state = .doc (applyD d x) ∧ toDOp o = some x ∧
      GoodD d [x] ∧ ValuesOK x := by
  by_cases hm : DP.isMutating c = true
  · cases hres : (r.call c).2 with
    | err e => exact Or.inl (DP.doc_call_err_noop r c hinv e hres)
    | panic w => exact absurd hres (DP.doc_call_no_panic r c hinv w)
    | ok v =>
      right
      obtain ⟨o, x, h1, h2, h3, h4, h5, h6, h7⟩ :=
        DLR.local_call_is_applicable_remote_op_eq r d hs hinv c hc.1 hm v hres hh hc.2
      obtain ⟨b, s', b', ret, _, _, hcall⟩ := DLR.call_ok_inv hs hm hres
      exact ⟨o, x, h1, h2, by rw [hcall], h3, h4, h5, h6⟩
  · exact Or.inl (DLR.call_nonmut hs (by simpa using hm))

/-- the delivery of a snapshot operation to a replica that holds the empty document: the document stays empty, no panic -/
theorem execRemoteBase_snap (r : Replica) (hs : r.state = .doc Doc.empty) (cuid : Nat → String) :
    (r.execRemoteBase (snapOp cuid)).1.state = .doc Doc.empty ∧ (r.execRemoteBase (snapOp cuid)).2 = none := by
  unfold Replica.execRemoteBase
  simp only [hs, snapOp, DState.fresh, execRemote, and_self]

theorem head?_snoc {α : Type} {l : List α} {a b : α} (h : l.head? = some a) : (l ++ [b]).head? = some a := by
  cases l with
  | nil => cases h
  | cons x t => simpa using h

namespace NodeInvC
variable {cuid : Nat → String} {n : Nat} {log : List LEnt} {i : Nat} {nd : Node} {A : List LEnt}

/-- a call at node `i` (a subscriber: after its first pull) -/
theorem call (N : NodeInvC cuid n log i nd A) (hi : i < n) {c : Call} (hc : CallOK c) (hgd : i ≠ 0 → 0 < nd.pulled) :
    ∃ A', NodeInvC cuid n log i { nd with r := (nd.r.call c).1 } A' := by
  rcases call_casesC N.dinv N.st N.hist hc with h | ⟨o, x, hbuf, hid, hop, hst, hx, hg, hv⟩
  · refine ⟨A, ?_⟩
    rw [h]
    exact N
  · refine ⟨A ++ [(i, o)], ?_⟩
    have hden : den (A ++ [(i, o)]) = den A ++ [x] := by rw [den_append, den_single (e := (i, o)) hx]
    have hlam : o.id.lamport = nd.r.opId.lamport + 1 := by rw [hid]; rfl
    have hnotlog : (i, o) ∉ log := by
      intro hm
      have := N.buf_lam (List.mem_of_mem_take (N.log_take hm))
      omega
    have hst' : (nd.r.call c).1.state = .doc (applyAllD Doc.empty (den (A ++ [(i, o)]))) := by
      rw [hst, hden, applyAllD_append]; rfl
    exact {
      dinv := DP.docInv_call _ c hc.1 N.dinv
      hist := DLR.histOK_call nd.r _ N.st N.dinv N.hist c hc.1 _ hst'
      st := hst'
      valid := by
        rw [hden]
        exact valid_append.mpr ⟨N.valid, hg, trivial⟩
      pushed_le := by
        show nd.pushed ≤ (nd.r.call c).1.buffer.length
        rw [hbuf]; simp; exact Nat.le_succ_of_le N.pushed_le
      pulled_le := N.pulled_le
      own_eq := by
        show own i (A ++ [(i, o)]) = (nd.r.call c).1.buffer.map _
        rw [hbuf, own_append, own_single_self, N.own_eq]; simp
      oth_eq := by
        show oth i (A ++ [(i, o)]) = _
        rw [oth_append, oth_single_self, List.append_nil]; exact N.oth_eq
      log_own := by
        show own i log = ((nd.r.call c).1.buffer.take nd.pushed).map _
        rw [hbuf, List.take_append_of_le_length N.pushed_le]; exact N.log_own
      clock_cuid := by
        show (nd.r.call c).1.opId.cuid = _
        rw [hop]; exact N.clock_cuid
      clock_era := by
        show (nd.r.call c).1.opId.era = _
        rw [hop]; exact N.clock_era
      lam_le := by
        intro e he
        show _ ≤ (nd.r.call c).1.opId.lamport
        rw [hop]
        show _ ≤ nd.r.opId.lamport + 1
        rcases List.mem_append.mp he with h | h
        · exact Nat.le_succ_of_le (N.lam_le e h)
        · simp only [List.mem_singleton] at h
          subst h
          exact Nat.le_of_eq hlam
      ent_ok := by
        intro e he
        rcases List.mem_append.mp he with h | h
        · exact N.ent_ok e h
        · simp only [List.mem_singleton] at h
          subst h
          refine ⟨hi, ?_, ?_, ?_, Or.inr ⟨x, hx, hv⟩⟩
          · show o.id.cuid = cuid i
            rw [hid]; exact N.clock_cuid
          · show o.id.era = 0
            rw [hid]; exact N.clock_era
          · show 1 ≤ o.id.lamport
            omega
      buf_sorted := by
        show (nd.r.call c).1.buffer.Pairwise _
        rw [hbuf]
        refine List.pairwise_append.mpr ⟨N.buf_sorted, List.pairwise_singleton _ _, ?_⟩
        intro o' ho' o'' ho''
        simp only [List.mem_singleton] at ho''
        subst ho''
        have := N.buf_lam ho'
        omega
      keys := by
        refine List.pairwise_append.mpr ⟨N.keys, List.pairwise_singleton _ _, ?_⟩
        intro e he e' he'
        simp only [List.mem_singleton] at he'
        subst he'
        intro e0
        have := N.lam_le e he
        simp only [lkey, Prod.mk.injEq] at e0
        omega
      causal := by
        intro P o' S hsplit k hk e he
        rcases snoc_split hsplit with ⟨_, _, h3⟩ | ⟨S', _, h2⟩
        · simp only [Prod.mk.injEq, true_and] at h3
          subst h3
          exact absurd (List.mem_of_getElem? hk) hnotlog
        · exact N.causal P o' S' h2 k hk e he
      fresh := by
        intro h0 hp
        have := hgd h0
        have hp' : nd.pulled = 0 := hp
        omega
      creator := by
        intro h0
        show (nd.r.call c).1.buffer.head? = _
        rw [hbuf]
        exact head?_snoc (N.creator h0) }

/-- node `i` pushes its next operation -/
theorem push_self (N : NodeInvC cuid n log i nd A) {o : Op} (ho : nd.r.buffer[nd.pushed]? = some o) :
    NodeInvC cuid n (log ++ [(i, o)]) i { nd with pushed := nd.pushed + 1 } A := by
  obtain ⟨hp, hpo⟩ := List.getElem?_eq_some_iff.mp ho
  exact {
    dinv := N.dinv
    hist := N.hist
    st := N.st
    valid := N.valid
    pushed_le := hp
    pulled_le := by
      show nd.pulled ≤ (log ++ [(i, o)]).length
      simp; exact Nat.le_succ_of_le N.pulled_le
    own_eq := N.own_eq
    oth_eq := by
      show oth i A = oth i ((log ++ [(i, o)]).take nd.pulled)
      rw [List.take_append_of_le_length N.pulled_le]; exact N.oth_eq
    log_own := by
      show own i (log ++ [(i, o)]) = (nd.r.buffer.take (nd.pushed + 1)).map _
      rw [own_append, own_single_self, N.log_own, ← List.take_append_getElem hp, hpo]; simp
    clock_cuid := N.clock_cuid
    clock_era := N.clock_era
    lam_le := N.lam_le
    ent_ok := N.ent_ok
    buf_sorted := N.buf_sorted
    keys := N.keys
    fresh := N.fresh
    creator := N.creator
    causal := by
      intro P o' S hsplit k hk e he
      have hlen : k < (log ++ [(i, o)]).length := (List.getElem?_eq_some_iff.mp hk).1
      by_cases hk' : k < log.length
      · rw [List.getElem?_append_left hk'] at hk
        rw [List.take_append_of_le_length (Nat.le_of_lt hk')]
        exact N.causal P o' S hsplit k hk e he
      · have hk'' : k = log.length := by
          simp only [List.length_append, List.length_cons, List.length_nil] at hlen; omega
        subst hk''
        rw [List.getElem?_append_right (Nat.le_refl _)] at hk
        simp only [Nat.sub_self, List.getElem?_cons_zero, Option.some.injEq, Prod.mk.injEq, true_and] at hk
        subst hk
        rw [List.take_append_of_le_length (Nat.le_refl _), List.take_length]
        have heA : e ∈ A := by rw [hsplit]; simp [he]
        by_cases hei : e.1 = i
        · obtain ⟨a, oe⟩ := e
          simp only at hei
          subst hei
          -- own entries are in lamport order
          have hso : (own a A).Pairwise (fun e e' => e.2.id.lamport < e'.2.id.lamport) := by
            rw [N.own_eq, List.pairwise_map]; exact N.buf_sorted
          rw [hsplit, own_append, own_cons_self] at hso
          have hlt : oe.id.lamport < o.id.lamport :=
            (List.pairwise_append.mp hso).2.2 (a, oe) (mem_own.mpr ⟨he, rfl⟩) (a, o) (by simp)
          have hb := N.mem_buf heA
          obtain ⟨q, hq, hqe⟩ := List.getElem_of_mem hb
          have hqp : q < nd.pushed := by
            by_contra hge
            by_cases hqe' : q = nd.pushed
            · subst hqe'
              rw [hpo] at hqe
              subst hqe
              omega
            · have := List.pairwise_iff_getElem.mp N.buf_sorted nd.pushed q hp hq (by omega)
              rw [hpo, hqe] at this
              omega
          have : (a, oe) ∈ own a log := by
            rw [N.log_own]
            exact List.mem_map.mpr ⟨oe, List.mem_take_iff_getElem.mpr ⟨q, by omega, hqe⟩, rfl⟩
          exact (mem_own.mp this).1
        · have : e ∈ oth i A := mem_oth.mpr ⟨heA, hei⟩
          rw [N.oth_eq] at this
          exact List.mem_of_mem_take (mem_oth.mp this).1 }

/-- another node pushes -/
theorem push_other (N : NodeInvC cuid n log i nd A) {a : Nat} (ha : a ≠ i) (o : Op) :
    NodeInvC cuid n (log ++ [(a, o)]) i nd A := by
  exact {
    dinv := N.dinv
    hist := N.hist
    st := N.st
    valid := N.valid
    pushed_le := N.pushed_le
    pulled_le := by simp; exact Nat.le_succ_of_le N.pulled_le
    own_eq := N.own_eq
    oth_eq := by rw [List.take_append_of_le_length N.pulled_le]; exact N.oth_eq
    log_own := by rw [own_append, own_single_ne ha, List.append_nil]; exact N.log_own
    clock_cuid := N.clock_cuid
    clock_era := N.clock_era
    lam_le := N.lam_le
    ent_ok := N.ent_ok
    buf_sorted := N.buf_sorted
    keys := N.keys
    fresh := N.fresh
    creator := N.creator
    causal := by
      intro P o' S hsplit k hk e he
      have hlen : k < (log ++ [(a, o)]).length := (List.getElem?_eq_some_iff.mp hk).1
      by_cases hk' : k < log.length
      · rw [List.getElem?_append_left hk'] at hk
        rw [List.take_append_of_le_length (Nat.le_of_lt hk')]
        exact N.causal P o' S hsplit k hk e he
      · have hk'' : k = log.length := by
          simp only [List.length_append, List.length_cons, List.length_nil] at hlen; omega
        subst hk''
        rw [List.getElem?_append_right (Nat.le_refl _)] at hk
        simp only [Nat.sub_self, List.getElem?_cons_zero, Option.some.injEq, Prod.mk.injEq] at hk
        exact absurd hk.1 ha }

/-- node `i` skips its own log entry -/
theorem pull_own (N : NodeInvC cuid n log i nd A) {o : Op} (hl : log[nd.pulled]? = some (i, o)) :
    NodeInvC cuid n log i { nd with pulled := nd.pulled + 1 } A := by
  obtain ⟨hp, hpo⟩ := List.getElem?_eq_some_iff.mp hl
  exact {
    dinv := N.dinv
    hist := N.hist
    st := N.st
    valid := N.valid
    pushed_le := N.pushed_le
    pulled_le := hp
    own_eq := N.own_eq
    oth_eq := by
      show oth i A = oth i (log.take (nd.pulled + 1))
      rw [← List.take_append_getElem hp, hpo, oth_append, oth_single_self, List.append_nil]; exact N.oth_eq
    log_own := N.log_own
    clock_cuid := N.clock_cuid
    clock_era := N.clock_era
    lam_le := N.lam_le
    ent_ok := N.ent_ok
    buf_sorted := N.buf_sorted
    keys := N.keys
    causal := N.causal
    fresh := by
      intro _ hp0
      have : nd.pulled + 1 = 0 := hp0
      omega
    creator := N.creator }

/-- what a delivery (of anything) changes outside the document state -/
theorem pull_frame (N : NodeInvC cuid n log i nd A) {a : Nat} {o : Op} (hl : log[nd.pulled]? = some (a, o)) (ha : a ≠ i)
    (hk : ∀ e ∈ A, lkey e ≠ lkey (a, o)) (hent : EntOKC cuid n (a, o))
    (hdinv : DP.DocInv (nd.r.execRemoteBase o).1)
    (hhist : DLR.HistOK (applyAllD Doc.empty (den (A ++ [(a, o)]))))
    (hst : (nd.r.execRemoteBase o).1.state = .doc (applyAllD Doc.empty (den (A ++ [(a, o)]))))
    (hvalid : Valid Doc.empty (den (A ++ [(a, o)]))) :
    NodeInvC cuid n log i { nd with r := (nd.r.execRemoteBase o).1, pulled := nd.pulled + 1 } (A ++ [(a, o)]) := by
  obtain ⟨hp, hpo⟩ := List.getElem?_eq_some_iff.mp hl
  exact {
    dinv := hdinv
    hist := hhist
    st := hst
    valid := hvalid
    pushed_le := by
      show nd.pushed ≤ (nd.r.execRemoteBase o).1.buffer.length
      rw [execRemoteBase_buffer]; exact N.pushed_le
    pulled_le := hp
    own_eq := by
      show own i (A ++ [(a, o)]) = (nd.r.execRemoteBase o).1.buffer.map _
      rw [execRemoteBase_buffer, own_append, own_single_ne ha, List.append_nil]; exact N.own_eq
    oth_eq := by
      show oth i (A ++ [(a, o)]) = oth i (log.take (nd.pulled + 1))
      rw [← List.take_append_getElem hp, hpo, oth_append, oth_append, N.oth_eq]
    log_own := by
      show own i log = ((nd.r.execRemoteBase o).1.buffer.take nd.pushed).map _
      rw [execRemoteBase_buffer]; exact N.log_own
    clock_cuid := by
      show (nd.r.execRemoteBase o).1.opId.cuid = _
      rw [execRemoteBase_opId, sync_cuid]; exact N.clock_cuid
    clock_era := by
      show (nd.r.execRemoteBase o).1.opId.era = _
      rw [execRemoteBase_opId, sync_era]; exact N.clock_era
    lam_le := by
      intro e he
      show _ ≤ (nd.r.execRemoteBase o).1.opId.lamport
      rw [execRemoteBase_opId]
      have := sync_lam nd.r.opId o.id.lamport
      rcases List.mem_append.mp he with h | h
      · exact Nat.le_trans (N.lam_le e h) this.1
      · simp only [List.mem_singleton] at h
        subst h
        exact this.2
    ent_ok := by
      intro e he
      rcases List.mem_append.mp he with h | h
      · exact N.ent_ok e h
      · simp only [List.mem_singleton] at h
        subst h
        exact hent
    buf_sorted := by
      show (nd.r.execRemoteBase o).1.buffer.Pairwise _
      rw [execRemoteBase_buffer]; exact N.buf_sorted
    keys := by
      refine List.pairwise_append.mpr ⟨N.keys, List.pairwise_singleton _ _, ?_⟩
      intro e he e' he'
      simp only [List.mem_singleton] at he'
      subst he'
      exact hk e he
    causal := by
      intro P o' S hsplit k hk e he
      rcases snoc_split hsplit with ⟨_, _, h3⟩ | ⟨S', _, h2⟩
      · simp only [Prod.mk.injEq] at h3
        exact absurd h3.1.symm ha
      · exact N.causal P o' S' h2 k hk e he
    fresh := by
      intro _ hp0
      have : nd.pulled + 1 = 0 := hp0
      omega
    creator := by
      intro h0
      show (nd.r.execRemoteBase o).1.buffer.head? = _
      rw [execRemoteBase_buffer]; exact N.creator h0 }

/-- node `i` applies the next log entry, written by another node and applicable -/
theorem pull_other (N : NodeInvC cuid n log i nd A) {a : Nat} {o : Op} (hl : log[nd.pulled]? = some (a, o)) (ha : a ≠ i)
    {x : DOp} (hx : toDOp o = some x) (hv : ValuesOK x) (hg : GoodD (applyAllD Doc.empty (den A)) [x])
    (hk : ∀ e ∈ A, lkey e ≠ lkey (a, o)) (hent : EntOKC cuid n (a, o)) :
    NodeInvC cuid n log i { nd with r := (nd.r.execRemoteBase o).1, pulled := nd.pulled + 1 } (A ++ [(a, o)]) := by
  have hden : den (A ++ [(a, o)]) = den A ++ [x] := by rw [den_append, den_single (e := (a, o)) hx]
  have hera : o.id.era = nd.r.opId.era := by rw [N.clock_era]; exact hent.2.2.1
  have hst : (nd.r.execRemoteBase o).1.state = .doc (applyAllD Doc.empty (den (A ++ [(a, o)]))) := by
    rw [(execRemoteBase_is_applyD nd.r _ N.st o x hx hg).1, hden, applyAllD_append]; rfl
  refine N.pull_frame hl ha hk hent (docInv_remote nd.r _ N.st N.dinv o x hx hg hera hv) ?_ hst ?_
  · exact DLR.histOK_remote nd.r _ N.st N.dinv N.hist o x hx hg _ hst
  · rw [hden]
    exact valid_append.mpr ⟨N.valid, hg, trivial⟩

/-- a subscriber that has applied nothing consumes the creation snapshot operation: its document stays empty -/
theorem pull_snap (N : NodeInvC cuid n log i nd A) (hl : log[nd.pulled]? = some (snapEnt cuid)) (ha : 0 ≠ i)
    (hA : A = []) (hent : EntOKC cuid n (snapEnt cuid)) :
    NodeInvC cuid n log i { nd with r := (nd.r.execRemoteBase (snapOp cuid)).1, pulled := nd.pulled + 1 }
      (A ++ [snapEnt cuid]) := by
  have hden : den (A ++ [snapEnt cuid]) = den A := den_snoc_none (toDOp_snapOp cuid)
  have hs0 : nd.r.state = .doc Doc.empty := by
    have := N.st
    rw [hA] at this
    exact this
  have hst : (nd.r.execRemoteBase (snapOp cuid)).1.state = .doc (applyAllD Doc.empty (den (A ++ [snapEnt cuid]))) := by
    rw [hden, (execRemoteBase_snap nd.r hs0 cuid).1, hA]; rfl
  have hdinv : DP.DocInv (nd.r.execRemoteBase (snapOp cuid)).1 := by
    obtain ⟨d, hs, I, hkk⟩ := N.dinv
    rw [hs0] at hs
    simp only [DState.doc.injEq] at hs
    subst hs
    refine ⟨Doc.empty, (execRemoteBase_snap nd.r hs0 cuid).1, ?_, hkk⟩
    rw [execRemoteBase_opId]
    exact dinv_sync _ I
  refine N.pull_frame (a := 0) (o := snapOp cuid) hl ha ?_ hent hdinv ?_ hst ?_
  · intro e he
    rw [hA] at he
    cases he
  · show DLR.HistOK (applyAllD Doc.empty (den (A ++ [snapEnt cuid])))
    rw [hden]; exact N.hist
  · show Valid Doc.empty (den (A ++ [snapEnt cuid]))
    rw [hden]; exact N.valid

end NodeInvC

theorem inv_initC {cuid : Nat → String} {n : Nat} (hc : CuidsDistinct cuid n) :
    InvC cuid n (initC cuid n) (fun i => if i = 0 then [snapEnt cuid] else []) := by
  refine ⟨hc, by simp [initC], ?_, by simp [initC], by simp [initC], by simp [initC]⟩
  intro i nd hi
  simp only [initC, List.getElem?_map] at hi
  cases hr : (List.range n)[i]? with
  | none => rw [hr] at hi; cases hi
  | some k =>
    rw [hr] at hi
    obtain ⟨hlt, hk⟩ := List.getElem?_eq_some_iff.mp hr
    simp only [List.getElem_range] at hk
    subst hk
    simp only [Option.map_some, Option.some.injEq] at hi
    subst hi
    simp only [List.length_range] at hlt
    by_cases h0 : i = 0
    · subst h0
      simp only [if_true]
      exact {
        dinv := DP.docInv_new _ _
        hist := DLR.histOK_empty
        st := rfl
        valid := trivial
        pushed_le := Nat.zero_le _
        pulled_le := Nat.le_refl _
        own_eq := rfl
        oth_eq := rfl
        log_own := rfl
        clock_cuid := rfl
        clock_era := rfl
        lam_le := by
          intro e he
          simp only [List.mem_singleton] at he
          subst he
          exact Nat.le_refl _
        ent_ok := by
          intro e he
          simp only [List.mem_singleton] at he
          subst he
          exact ⟨hlt, rfl, rfl, Nat.le_refl _, Or.inl rfl⟩
        buf_sorted := List.pairwise_singleton _ _
        keys := List.pairwise_singleton _ _
        causal := by
          intro P o S h k hk
          simp [initC] at hk
        fresh := fun h => absurd rfl h
        creator := fun _ => rfl }
    · have hb : (i == 0) = false := by simpa using h0
      simp only [if_neg h0, hb]
      exact {
        dinv := DP.docInv_new _ _
        hist := DLR.histOK_empty
        st := rfl
        valid := trivial
        pushed_le := Nat.le_refl _
        pulled_le := Nat.le_refl _
        own_eq := rfl
        oth_eq := rfl
        log_own := rfl
        clock_cuid := rfl
        clock_era := rfl
        lam_le := by intro e he; cases he
        ent_ok := by intro e he; cases he
        buf_sorted := List.Pairwise.nil
        keys := List.Pairwise.nil
        causal := by
          intro P o S h
          exact absurd h (by simp)
        fresh := fun _ _ => rfl
        creator := fun h => absurd h h0 }

namespace InvC
variable {cuid : Nat → String} {n : Nat} {net : Net} {ap : Nat → List LEnt}

theorem lt_of_node (I : InvC cuid n net ap) {i : Nat} {nd : Node} (hi : net.nodes[i]? = some nd) : i < n := by
  have := (List.getElem?_eq_some_iff.mp hi).1
  rw [I.len] at this; exact this

theorem call (I : InvC cuid n net ap) {i : Nat} {nd : Node} {c : Call} (hi : net.nodes[i]? = some nd) (hc : CallOK c)
    (hg : i ≠ 0 → 0 < nd.pulled) :
    ∃ ap', InvC cuid n ⟨net.nodes.set i { nd with r := (nd.r.call c).1 }, net.log⟩ ap' := by
  obtain ⟨A', hA'⟩ := (I.node i nd hi).call (I.lt_of_node hi) hc hg
  refine ⟨Function.update ap i A', I.distinct, by simp [I.len], ?_, I.log_auth, I.log_keys, I.log_head⟩
  intro j nd' hj
  rcases getElem?_set_some hj with ⟨rfl, rfl⟩ | ⟨hne, hj'⟩
  · rw [Function.update_self]; exact hA'
  · rw [Function.update_of_ne hne]; exact I.node j nd' hj'

theorem push (I : InvC cuid n net ap) {i : Nat} {nd : Node} {o : Op} (hi : net.nodes[i]? = some nd)
    (ho : nd.r.buffer[nd.pushed]? = some o) :
    InvC cuid n ⟨net.nodes.set i { nd with pushed := nd.pushed + 1 }, net.log ++ [(i, o)]⟩ ap := by
  have Ni := I.node i nd hi
  have hin := I.lt_of_node hi
  obtain ⟨hp, hpo⟩ := List.getElem?_eq_some_iff.mp ho
  have hob : o ∈ nd.r.buffer := List.mem_of_getElem? ho
  refine ⟨I.distinct, by simp [I.len], ?_, ?_, ?_, ?_⟩
  · intro j nd' hj
    rcases getElem?_set_some hj with ⟨rfl, rfl⟩ | ⟨hne, hj'⟩
    · exact Ni.push_self ho
    · exact (I.node j nd' hj').push_other (fun e => hne e.symm) o
  · intro e he
    rcases List.mem_append.mp he with h | h
    · exact I.log_auth e h
    · simp only [List.mem_singleton] at h
      subst h
      exact hin
  · refine List.pairwise_append.mpr ⟨I.log_keys, List.pairwise_singleton _ _, ?_⟩
    intro e he e' he'
    simp only [List.mem_singleton] at he'
    subst he'
    obtain ⟨nde, hne, hbe, hae⟩ := I.log_mem he
    intro e0
    simp only [lkey, Prod.mk.injEq] at e0
    by_cases hei : e.1 = i
    · obtain ⟨a, oe⟩ := e
      simp only at hei
      subst hei
      have h1 := Ni.log_take he
      obtain ⟨q, hq, hqe⟩ := List.mem_take_iff_getElem.mp h1
      have := List.pairwise_iff_getElem.mp Ni.buf_sorted q nd.pushed (by omega) hp (by omega)
      rw [hqe, hpo] at this
      simp only at e0
      omega
    · have h1 := ((I.node e.1 nde hne).ent_ok e hae).2.1
      have h2 := (Ni.ent_ok _ (Ni.buf_mem hob)).2.1
      simp only at h2
      rw [h1, h2] at e0
      exact hei (I.distinct e.1 i (I.log_auth e he) hin e0.2)
  · -- the head of the log
    intro e he
    show e = snapEnt cuid
    have he' : (net.log ++ [(i, o)])[0]? = some e := he
    cases hlog : net.log with
    | cons e0 t =>
      rw [hlog] at he'
      simp only [List.cons_append, List.getElem?_cons_zero, Option.some.injEq] at he'
      subst he'
      exact I.log_head e0 (by rw [hlog]; rfl)
    | nil =>
      rw [hlog] at he'
      simp only [List.nil_append, List.getElem?_cons_zero, Option.some.injEq] at he'
      subst he'
      have hpl : nd.pulled = 0 := by
        have := Ni.pulled_le
        rw [hlog] at this
        simpa using this
      by_cases h0 : i = 0
      · subst h0
        have h1 := Ni.log_own
        rw [hlog] at h1
        have h2 : (nd.r.buffer.take nd.pushed).length = 0 := by
          have := congrArg List.length h1
          simpa [own] using this.symm
        have h3 : nd.pushed = 0 := by
          rw [List.length_take] at h2
          omega
        have h4 := Ni.creator rfl
        rw [h3] at ho
        rw [List.head?_eq_getElem?, ho] at h4
        simp only [Option.some.injEq] at h4
        rw [h4]; rfl
      · exfalso
        have hA := Ni.fresh h0 hpl
        have := Ni.buf_mem hob
        rw [hA] at this
        cases this

theorem pull (I : InvC cuid n net ap) {i : Nat} {nd : Node} {a : Nat} {o : Op} (hi : net.nodes[i]? = some nd)
    (hl : net.log[nd.pulled]? = some (a, o)) :
    ∃ ap', InvC cuid n ⟨net.nodes.set i { nd with r := if a = i then nd.r else (nd.r.execRemoteBase o).1,
                                                   pulled := nd.pulled + 1 }, net.log⟩ ap' := by
  have Ni := I.node i nd hi
  by_cases ha : a = i
  · subst ha
    refine ⟨ap, I.distinct, by simp [I.len], ?_, I.log_auth, I.log_keys, I.log_head⟩
    intro j nd' hj
    rcases getElem?_set_some hj with ⟨rfl, rfl⟩ | ⟨hne, hj'⟩
    · simp only [if_true]
      exact Ni.pull_own hl
    · exact I.node j nd' hj'
  · obtain ⟨hent, hk, hcase⟩ := I.deliver hi hl ha
    refine ⟨Function.update ap i (ap i ++ [(a, o)]), I.distinct, by simp [I.len], ?_, I.log_auth, I.log_keys,
      I.log_head⟩
    intro j nd' hj
    rcases getElem?_set_some hj with ⟨rfl, rfl⟩ | ⟨hne, hj'⟩
    · rw [Function.update_self]
      simp only [if_neg ha]
      rcases hcase with ⟨hsnap, hp0, hA⟩ | ⟨x, hx, hv, hg⟩
      · have ha0 : a = 0 := congrArg Prod.fst hsnap
        have ho : o = snapOp cuid := congrArg Prod.snd hsnap
        subst ha0 ho
        exact Ni.pull_snap hl ha hA hent
      · exact Ni.pull_other hl ha hx hv hg hk hent
    · rw [Function.update_of_ne hne]; exact I.node j nd' hj'

theorem step (I : InvC cuid n net ap) {net' : Net} (h : StepC net net') : ∃ ap', InvC cuid n net' ap' := by
  cases h with
  | call i nd c hi hc hg => exact I.call hi hc hg
  | push i nd o hi ho => exact ⟨ap, I.push hi ho⟩
  | pull i nd a o hi hl => exact I.pull hi hl

end InvC

/-- **the invariant holds in every reachable state** -/
theorem inv_reachC {cuid : Nat → String} {n : Nat} {net : Net} (h : ReachC cuid n net) : ∃ ap, InvC cuid n net ap := by
  induction h with
  | init hc => exact ⟨_, inv_initC hc⟩
  | step _ hs ih =>
    obtain ⟨ap, I⟩ := ih
    exact I.step hs

/-! ## 4. the theorems -/

/-- in every reachable state a non-empty log starts with the creator's snapshot operation, and that operation is nowhere else
    in the log; every other entry is a document operation -/
theorem log_starts_with_snapshot {cuid : Nat → String} {n : Nat} : ∀ net, ReachC cuid n net →
    (∀ e, net.log[0]? = some e → e = snapEnt cuid) ∧
    (∀ k a o, net.log[k]? = some (a, o) → k ≠ 0 → ∃ x, toDOp o = some x ∧ ValuesOK x) := by
  intro net h
  obtain ⟨ap, I⟩ := inv_reachC h
  refine ⟨I.log_head, ?_⟩
  intro k a o hk hk0
  obtain ⟨nda, hna, _, hapa⟩ := I.log_mem (List.mem_of_getElem? hk)
  rcases ((I.node a nda hna).ent_ok _ hapa).2.2.2.2 with hs | hx
  · exact absurd (I.snap_pos (hs ▸ hk)) hk0
  · exact hx

/-- in every reachable state every node has `DP.DocInv`, and its document IS (plain equality) the result of applying, from the
    empty document, a VALID sequence of remote operations -/
theorem created_net_nodes_applied {cuid : Nat → String} {n : Nat} : ∀ net, ReachC cuid n net →
    ∃ applied : Nat → List DOp, ∀ i nd, net.nodes[i]? = some nd →
      DP.DocInv nd.r ∧ nd.r.state = .doc (applyAllD Doc.empty (applied i)) ∧ Valid Doc.empty (applied i) ∧
      Distinct (applied i) ∧ FreshIn Doc.empty (applied i) := by
  intro net h
  obtain ⟨ap, I⟩ := inv_reachC h
  refine ⟨fun i => den (ap i), ?_⟩
  intro i nd hi
  have N := I.node i nd hi
  exact ⟨N.dinv, N.st, N.valid, distinct_den N.keys, freshIn_denC N.ent_ok⟩

/-- no delivery is ever refused.  Every node has `DP.DocInv`, and every enabled delivery (`pull` of an entry written by
    another node) is
    * EITHER the creation snapshot operation — then it is the first entry this subscriber consumes, the subscriber's document
      is (still) the empty document, and the delivery returns no panic and leaves the empty document and `DP.DocInv`,
    * OR a document operation that is applicable (`GoodD`): the delivery returns no error / panic, IS `applyD`, and keeps
      `DP.DocInv` (as `DNet.net_deliveries_applicable` + `DNet.net_deliveries_exact`) -/
theorem created_net_every_delivery_is_applicable {cuid : Nat → String} {n : Nat} : ∀ net, ReachC cuid n net →
    (∀ nd ∈ net.nodes, DP.DocInv nd.r) ∧
    (∀ (i : Nat) (nd : Node) (a : Nat) (o : Op) (d : Doc), net.nodes[i]? = some nd →
      net.log[nd.pulled]? = some (a, o) → a ≠ i → nd.r.state = .doc d →
      (a = 0 ∧ o = snapOp cuid ∧ nd.pulled = 0 ∧ d = Doc.empty ∧ (nd.r.execRemoteBase o).2 = none ∧
        (nd.r.execRemoteBase o).1.state = .doc Doc.empty ∧ DP.DocInv (nd.r.execRemoteBase o).1) ∨
      (∃ x, toDOp o = some x ∧ GoodD d [x] ∧ ValuesOK x ∧ (nd.r.execRemoteBase o).2 = none ∧
        (nd.r.execRemoteBase o).1.state = .doc (applyD d x) ∧ DP.DocInv (nd.r.execRemoteBase o).1)) := by
  intro net h
  obtain ⟨ap, I⟩ := inv_reachC h
  constructor
  · intro nd hnd
    obtain ⟨i, hi⟩ := List.mem_iff_getElem?.mp hnd
    exact (I.node i nd hi).dinv
  · intro i nd a o d hi hl ha hd
    obtain ⟨hent, hk, hcase⟩ := I.deliver hi hl ha
    have N := I.node i nd hi
    have hst := N.st
    rw [hd] at hst
    simp only [DState.doc.injEq] at hst
    rcases hcase with ⟨hsnap, hp0, hA⟩ | ⟨x, hx, hv, hg⟩
    · left
      have ha0 : a = 0 := congrArg Prod.fst hsnap
      have ho : o = snapOp cuid := congrArg Prod.snd hsnap
      subst ha0 ho
      have hde : d = Doc.empty := by rw [hst, hA]; rfl
      have hs0 : nd.r.state = .doc Doc.empty := by rw [hd, hde]
      have N' := N.pull_snap hl ha hA hent
      exact ⟨rfl, rfl, hp0, hde, (execRemoteBase_snap nd.r hs0 cuid).2, (execRemoteBase_snap nd.r hs0 cuid).1, N'.dinv⟩
    · right
      have hg' : GoodD d [x] := hst ▸ hg
      obtain ⟨h1, h2⟩ := execRemoteBase_is_applyD nd.r d hd o x hx hg'
      refine ⟨x, hx, hg', hv, h2, h1, ?_⟩
      exact docInv_remote nd.r d hd N.dinv o x hx hg' (by rw [N.clock_era]; exact hent.2.2.1) hv

namespace InvC
variable {cuid : Nat → String} {n : Nat} {net : Net} {ap : Nat → List LEnt}

/-- the ghost sequence of a node is a permutation of the operations it has applied (the snapshot operation denotes nothing) -/
theorem den_perm (I : InvC cuid n net ap) {i : Nat} {nd : Node} (hi : net.nodes[i]? = some nd) :
    (den (ap i)).Perm ((appliedOps net.log i nd).filterMap toDOp) := by
  have N := I.node i nd hi
  have h1 : (ap i).Perm (own i (ap i) ++ oth i (ap i)) := (List.filter_append_perm _ _).symm
  rw [N.own_eq, N.oth_eq] at h1
  have h2 := (h1.map (·.2)).filterMap toDOp
  have e1 : ((ap i).map (·.2)).filterMap toDOp = den (ap i) := by
    simp only [den, List.filterMap_map]; rfl
  have e2 : (nd.r.buffer.map (fun o => (i, o)) ++ oth i (net.log.take nd.pulled)).map (·.2) =
      appliedOps net.log i nd := by
    simp [appliedOps, List.map_append, List.map_map]
  rw [e1, e2] at h2
  exact h2

end InvC

/-- two nodes (creator or subscribers) that have applied the same operations hold the same document, at every moment:
    ASim-equal documents with the same canonical JSON value -/
theorem created_net_same_operations_same_document {cuid : Nat → String} {n : Nat} : ∀ net, ReachC cuid n net →
    ∀ i j (hi : i < net.nodes.length) (hj : j < net.nodes.length) di dj,
    net.nodes[i].r.state = .doc di → net.nodes[j].r.state = .doc dj → SameOps net i j →
    ASim di dj ∧ di.view.canon = dj.view.canon := by
  intro net h i j hi hj di dj hdi hdj hsame
  obtain ⟨ap, I⟩ := inv_reachC h
  have hi' := List.getElem?_eq_getElem hi
  have hj' := List.getElem?_eq_getElem hj
  obtain ⟨ni, nj, hni, hnj, hperm⟩ := hsame
  rw [hi'] at hni
  rw [hj'] at hnj
  simp only [Option.some.injEq] at hni hnj
  subst hni hnj
  have Ni := I.node i _ hi'
  have Nj := I.node j _ hj'
  have hp : (den (ap i)).Perm (den (ap j)) :=
    ((I.den_perm hi').trans (hperm.filterMap toDOp)).trans (I.den_perm hj').symm
  have hs := causal_asim (den (ap i)) hp wf_doc_empty (distinct_den Ni.keys) (freshIn_denC Ni.ent_ok) Ni.valid Nj.valid
  have e1 := Ni.st
  have e2 := Nj.st
  rw [hdi] at e1
  rw [hdj] at e2
  simp only [DState.doc.injEq] at e1 e2
  rw [← e1, ← e2] at hs
  refine ⟨hs, ?_⟩
  obtain ⟨d1, hs1, I1, k1⟩ := Ni.dinv
  obtain ⟨d2, hs2, I2, k2⟩ := Nj.dinv
  rw [hdi] at hs1
  rw [hdj] at hs2
  simp only [DState.doc.injEq] at hs1 hs2
  subst hs1 hs2
  have v1 := viewOK_of_dinv I1 k1
  have v2 := viewOK_of_dinv I2 k2
  exact asim_view_canon hs I1.wf v1.keys v2.keys v1.bounded v2.bounded v1.root

/-- a node that has pushed its whole buffer and consumed the whole log has applied exactly the operations of the log -/
theorem appliedOps_caught_up {cuid : Nat → String} {n : Nat} {net : Net} (h : ReachC cuid n net) {k : Nat}
    (hk : k < net.nodes.length) (q1 : net.nodes[k].pushed = net.nodes[k].r.buffer.length)
    (q2 : net.nodes[k].pulled = net.log.length) : (appliedOps net.log k net.nodes[k]).Perm (net.log.map (·.2)) := by
  obtain ⟨ap, I⟩ := inv_reachC h
  have hk' := List.getElem?_eq_getElem hk
  have N := I.node k _ hk'
  have h1 : (own k net.log ++ oth k net.log).Perm net.log := List.filter_append_perm _ _
  have h2 := h1.map (·.2)
  rw [N.log_own, q1, List.take_length] at h2
  have e : appliedOps net.log k net.nodes[k] =
      (net.nodes[k].r.buffer.map (fun o => (k, o)) ++ oth k net.log).map (·.2) := by
    simp [appliedOps, q2, List.map_append, List.map_map]
  rw [e]
  exact h2

/-- two nodes that have pushed everything they issued and consumed the whole log have the same operations -/
theorem sameOps_of_caught_up {cuid : Nat → String} {n : Nat} {net : Net} (h : ReachC cuid n net) {i j : Nat}
    (hi : i < net.nodes.length) (hj : j < net.nodes.length)
    (pi : net.nodes[i].pushed = net.nodes[i].r.buffer.length) (li : net.nodes[i].pulled = net.log.length)
    (pj : net.nodes[j].pushed = net.nodes[j].r.buffer.length) (lj : net.nodes[j].pulled = net.log.length) :
    SameOps net i j :=
  ⟨_, _, List.getElem?_eq_getElem hi, List.getElem?_eq_getElem hj,
    (appliedOps_caught_up h hi pi li).trans (appliedOps_caught_up h hj pj lj).symm⟩

/-- at quiescence every node has applied the whole log -/
theorem sameOps_of_quiescent {cuid : Nat → String} {n : Nat} {net : Net} (h : ReachC cuid n net) (hq : Quiescent net)
    {i j : Nat} (hi : i < net.nodes.length) (hj : j < net.nodes.length) : SameOps net i j := by
  obtain ⟨a1, a2⟩ := hq _ (List.getElem_mem hi)
  obtain ⟨b1, b2⟩ := hq _ (List.getElem_mem hj)
  exact sameOps_of_caught_up h hi hj a1 a2 b1 b2

/-- at quiescence all replicas (creator and subscribers) hold the same document up to `ASim` with equal canonical JSON value -/
theorem created_net_quiescent_converged {cuid : Nat → String} {n : Nat} : ∀ net, ReachC cuid n net → Quiescent net →
    ∀ i j (hi : i < net.nodes.length) (hj : j < net.nodes.length) di dj,
    net.nodes[i].r.state = .doc di → net.nodes[j].r.state = .doc dj →
    ASim di dj ∧ di.view.canon = dj.view.canon := by
  intro net h hq i j hi hj di dj hdi hdj
  exact created_net_same_operations_same_document net h i j hi hj di dj hdi hdj (sameOps_of_quiescent h hq hi hj)

/-! ## 5. non-vacuity: the creator and two subscribers, a complete run to quiescence

The creator pushes its snapshot operation; both subscribers pull it (the creator skips it).  The creator puts an array under
`arr` and pushes; both subscribers pull it.  CONCURRENTLY subscriber 1 inserts into that array, subscriber 2 deletes its head,
the creator puts `k`.  Pushes in the order 2, 0, 1; every node pulls the rest of the log. -/
namespace Ex

def cu : Nat → String
  | 0 => "a" | 1 => "b" | _ => "c"
/-- the array the creator makes: its clock is one ahead (the snapshot operation has lamport 1) -/
def arrId : Ts := ⟨0, 2, "a", 0⟩
def acts : List Act := [
  .push 0, .pull 1, .pull 2, .pull 0,
  .call 0 (.dput Ts.oldest "arr" (.arr [.num 1, .num 2])),
  .push 0, .pull 1, .pull 2,
  .call 1 (.dinsert arrId 1 [.str "m"]),
  .call 2 (.ddelete arrId 0),
  .call 0 (.dput Ts.oldest "k" (.num 9)),
  .push 2, .push 0, .push 1,
  .pull 1, .pull 1, .pull 1,
  .pull 0, .pull 0, .pull 0, .pull 0,
  .pull 2, .pull 2, .pull 2]

def docOf (r : Replica) : Doc := match r.state with | .doc d => d | _ => Doc.empty
def finalNet : Net := (runC (initC cu 3) acts).getD ⟨[], []⟩

theorem run_isSome : (runC (initC cu 3) acts).isSome = true := by decide

theorem run_final : runC (initC cu 3) acts = some finalNet := by
  have h := run_isSome
  unfold finalNet
  cases hr : runC (initC cu 3) acts with
  | none => rw [hr] at h; cases h
  | some x => rfl

theorem cu_distinct : CuidsDistinct cu 3 := by
  intro i j hi hj h
  have h1 : i = 0 ∨ i = 1 ∨ i = 2 := by omega
  have h2 : j = 0 ∨ j = 1 ∨ j = 2 := by omega
  rcases h1 with rfl | rfl | rfl <;> rcases h2 with rfl | rfl | rfl <;> first | rfl | (exact absurd h (by decide))

theorem acts_ok : ∀ a ∈ acts, ActOK a := by
  intro a ha
  simp only [acts, List.mem_cons, List.mem_nil_iff, or_false] at ha
  rcases ha with rfl | rfl | rfl | rfl | rfl | rfl | rfl | rfl | rfl | rfl | rfl | rfl | rfl | rfl | rfl | rfl | rfl | rfl |
    rfl | rfl | rfl | rfl | rfl | rfl <;>
  first
    | trivial
    | (refine ⟨by simp [DP.CallKeysND, JKeysND, JKeysNDList, JKeysNDKvs], ?_⟩; intro h pos e; cases e)

theorem reach_final : ReachC cu 3 finalNet := reachC_run acts (.init cu_distinct) run_final acts_ok

theorem quiescent_final : Quiescent finalNet := by
  unfold Quiescent
  decide

theorem len_final : finalNet.nodes.length = 3 := by decide
def d0 : Doc := docOf (finalNet.nodes[0]'(by rw [len_final]; decide)).r
def d1 : Doc := docOf (finalNet.nodes[1]'(by rw [len_final]; decide)).r
def d2 : Doc := docOf (finalNet.nodes[2]'(by rw [len_final]; decide)).r

/-- five operations went through the log; the first is the creator's snapshot operation -/
example : finalNet.log.length = 5 ∧ finalNet.log.map (·.1) = [0, 0, 2, 0, 1] := by decide
/-- `log_starts_with_snapshot` instantiated -/
example : finalNet.log.head? = some (snapEnt cu) := by
  have h5 : finalNet.log.length = 5 := by decide
  have h0 : 0 < finalNet.log.length := by omega
  rw [List.head?_eq_getElem?, List.getElem?_eq_getElem h0]
  exact congrArg some ((log_starts_with_snapshot finalNet reach_final).1 _ (List.getElem?_eq_getElem h0))

/-- `created_net_quiescent_converged` instantiated: creator vs subscriber, subscriber vs subscriber -/
example : ASim d0 d1 ∧ d0.view.canon = d1.view.canon :=
  created_net_quiescent_converged finalNet reach_final quiescent_final 0 1 (by decide) (by decide) d0 d1 rfl rfl
example : ASim d1 d2 ∧ d1.view.canon = d2.view.canon :=
  created_net_quiescent_converged finalNet reach_final quiescent_final 1 2 (by decide) (by decide) d1 d2 rfl rfl

/-- … and the common view: `{"arr":["m",2],"k":9}` -/
example : (d0.view.canon == .obj [("arr", .arr [.str "m", .num 2]), ("k", .num 9)]) = true ∧
    (d1.view.canon == d0.view.canon) = true ∧ (d2.view.canon == d0.view.canon) = true := by decide

/-- the state after the creator's first push: subscriber 1 is about to receive the snapshot operation -/
def net1 : Net := (runC (initC cu 3) (acts.take 1)).getD ⟨[], []⟩
theorem net1_isSome : (runC (initC cu 3) (acts.take 1)).isSome = true := by decide
theorem run_net1 : runC (initC cu 3) (acts.take 1) = some net1 := by
  have h := net1_isSome
  unfold net1
  cases hr : runC (initC cu 3) (acts.take 1) with
  | none => rw [hr] at h; cases h
  | some x => rfl
theorem reach_net1 : ReachC cu 3 net1 :=
  reachC_run (acts.take 1) (.init cu_distinct) run_net1 (fun a ha => acts_ok a (List.mem_of_mem_take ha))
theorem len_net1 : net1.nodes.length = 3 := by decide
def sub1 : Node := net1.nodes[1]'(by rw [len_net1]; decide)

/-- `created_net_every_delivery_is_applicable` instantiated on the snapshot delivery: it is the first branch -/
example : (sub1.r.execRemoteBase (snapOp cu)).2 = none ∧
    (sub1.r.execRemoteBase (snapOp cu)).1.state = .doc Doc.empty ∧ DP.DocInv (sub1.r.execRemoteBase (snapOp cu)).1 := by
  rcases (created_net_every_delivery_is_applicable net1 reach_net1).2 1 sub1 0 (snapOp cu) (docOf sub1.r) rfl rfl
    (by decide) rfl with ⟨_, _, _, _, h1, h2, h3⟩ | ⟨x, hx, _⟩
  · exact ⟨h1, h2, h3⟩
  · exact absurd hx (by rw [toDOp_snapOp]; intro h; cases h)

/-- the state after 6 actions: subscriber 1 (which has consumed the snapshot operation) is about to receive the creator's
    `put arr` -/
def net6 : Net := (runC (initC cu 3) (acts.take 6)).getD ⟨[], []⟩
theorem net6_isSome : (runC (initC cu 3) (acts.take 6)).isSome = true := by decide
theorem run_net6 : runC (initC cu 3) (acts.take 6) = some net6 := by
  have h := net6_isSome
  unfold net6
  cases hr : runC (initC cu 3) (acts.take 6) with
  | none => rw [hr] at h; cases h
  | some x => rfl
theorem reach_net6 : ReachC cu 3 net6 :=
  reachC_run (acts.take 6) (.init cu_distinct) run_net6 (fun a ha => acts_ok a (List.mem_of_mem_take ha))
theorem len_net6 : net6.nodes.length = 3 := by decide
def sub6 : Node := net6.nodes[1]'(by rw [len_net6]; decide)
def oPut : Op := ⟨⟨0, 2, "a", 2⟩, .docPut Ts.oldest "arr" (.arr [.num 1, .num 2])⟩
def xPut : DOp := .o (.put Ts.oldest "arr" (.arr [.num 1, .num 2]) ⟨0, 2, "a", 0⟩)

example : sub6.pulled = 1 := by decide

/-- `created_net_every_delivery_is_applicable` instantiated on a document operation: it is the second branch -/
example : GoodD (docOf sub6.r) [xPut] ∧ (sub6.r.execRemoteBase oPut).2 = none ∧
    (sub6.r.execRemoteBase oPut).1.state = .doc (applyD (docOf sub6.r) xPut) := by
  rcases (created_net_every_delivery_is_applicable net6 reach_net6).2 1 sub6 0 oPut (docOf sub6.r) rfl rfl
    (by decide) rfl with ⟨_, h, _⟩ | ⟨x, hx, hg, _, h1, h2, _⟩
  · exact absurd (congrArg (fun o : Op => o.id.lamport) h) (by decide)
  · have e : toDOp oPut = some xPut := rfl
    rw [e] at hx
    simp only [Option.some.injEq] at hx
    subst hx
    exact ⟨hg, h1, h2⟩

/-- a state in the middle of the run (after 21 actions): the creator and subscriber 1 have pushed everything and consumed the
    whole log, subscriber 2 has not -/
def midNet : Net := (runC (initC cu 3) (acts.take 21)).getD ⟨[], []⟩
theorem mid_isSome : (runC (initC cu 3) (acts.take 21)).isSome = true := by decide
theorem run_mid : runC (initC cu 3) (acts.take 21) = some midNet := by
  have h := mid_isSome
  unfold midNet
  cases hr : runC (initC cu 3) (acts.take 21) with
  | none => rw [hr] at h; cases h
  | some x => rfl
theorem reach_mid : ReachC cu 3 midNet :=
  reachC_run (acts.take 21) (.init cu_distinct) run_mid (fun a ha => acts_ok a (List.mem_of_mem_take ha))
theorem len_mid : midNet.nodes.length = 3 := by decide

example : ¬ Quiescent midNet := by
  unfold Quiescent
  decide

def m0 : Doc := docOf (midNet.nodes[0]'(by rw [len_mid]; decide)).r
def m1 : Doc := docOf (midNet.nodes[1]'(by rw [len_mid]; decide)).r

/-- `created_net_same_operations_same_document` instantiated in this NON-quiescent state, creator vs subscriber -/
example : ASim m0 m1 ∧ m0.view.canon = m1.view.canon :=
  created_net_same_operations_same_document midNet reach_mid 0 1 (by decide) (by decide) m0 m1 rfl rfl
    (sameOps_of_caught_up reach_mid (by decide) (by decide) (by decide) (by decide) (by decide) (by decide))

/-- the guard: in the initial state a call of a subscriber is not a step of the executable form, a call of the creator is -/
example : (actC (initC cu 3) (.call 1 (.dput Ts.oldest "k" (.num 1)))).isSome = false ∧
    (actC (initC cu 3) (.call 0 (.dput Ts.oldest "k" (.num 1)))).isSome = true := by decide

end Ex

/-! ## 6. why the guard: a subscriber that calls before its first pull diverges -/

/-- two nodes; the subscriber puts `k` BEFORE it has consumed anything, pushes (its operation becomes the first log entry),
    the creator pushes its snapshot operation (second entry), both pull everything -/
def badActs : List Act := [.call 1 (.dput Ts.oldest "k" (.num 1)), .push 1, .push 0, .pull 0, .pull 0, .pull 1, .pull 1]

/-- WITHOUT the guard of `StepC.call` (i.e. with the steps of `DNet` from `initC`) convergence at quiescence is FALSE: the run
    `badActs` is a run of `DNet.Step`s (`Net.run`, all calls `CallOK`) from `initC` to a quiescent state in which the creator
    shows `{"k":1}` and the subscriber `{}` — the delivery of the snapshot operation has reset the subscriber's document.
    The guarded executable form refuses the run. -/
theorem call_before_first_pull_diverges :
    ∃ net, (initC Ex.cu 2).run badActs = some net ∧ (∀ a ∈ badActs, ActOK a) ∧ Quiescent net ∧
      (net.nodes.map fun nd => (Ex.docOf nd.r).view.canon == .obj [("k", .num 1)]) = [true, false] ∧
      (net.nodes.map fun nd => (Ex.docOf nd.r).view.canon == .obj []) = [false, true] ∧
      (runC (initC Ex.cu 2) badActs).isSome = false := by
  have hsome : ((initC Ex.cu 2).run badActs).isSome = true := by decide
  cases hr : (initC Ex.cu 2).run badActs with
  | none => rw [hr] at hsome; cases hsome
  | some net =>
    have hnet : net = ((initC Ex.cu 2).run badActs).getD ⟨[], []⟩ := by rw [hr]; rfl
    refine ⟨net, rfl, ?_, ?_, ?_, ?_, ?_⟩
    · intro a ha
      simp only [badActs, List.mem_cons, List.mem_nil_iff, or_false] at ha
      rcases ha with rfl | rfl | rfl | rfl | rfl | rfl | rfl <;>
      first
        | trivial
        | (refine ⟨by simp [DP.CallKeysND, JKeysND, JKeysNDList, JKeysNDKvs], ?_⟩; intro h pos e; cases e)
    · subst hnet
      unfold Quiescent
      decide
    · subst hnet
      decide
    · subst hnet
      decide
    · decide

end Orda.DNetC
