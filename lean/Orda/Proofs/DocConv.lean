/-
Convergence of the JSON document's OBJECT operations (putInObject / deleteInObject in remote form), for
values of every nesting depth.  All helper lemmas live in namespace `Orda.DC`.

Contents
* `DocEq` (same node under every identifier): an equivalence respected by isTomb, timeOf, findObj, findArr,
  viewOf / isGarbage (same fuel) and — without duplicate identifiers — view, viewAt, garbage.
* `createNode`: the created nodes are a block `ts, ts+1, …` (`createNode_spec`, `createNode_ids`).
* A: `Doc.WF`, `wf_doc_empty`, `wf_put`, `wf_del` (`wf_runOp`).
* B: commutation up to `DocEq` is FALSE in general (three machine-checked counterexamples, `DC.Ex`):
  key order of new keys, deletion time of a superseded container, identity of a tombstoned occupant.
  What holds: `Sim` (= equal abstraction `abs`: shapes, live elements, per-key LWW state, sizes, container
  tombstone flags) — `op_comm_partial`, `ops_commute_partial`; and exact `DocEq` for DIFFERENT parents —
  `ops_commute_diff_parents`.
* C: `key_denote` (+ `key_denote_put`, `key_denote_del`, `key_value_denote`): per key, last-writer-wins.
* D: `perm_fold_equiv` (generic), `converge_sim`, `converge_view`, `converge_viewAt` (views after key
  sorting, `JVal.canon`; fuel handled by the depth bound `Bounded`); exact for pairwise different
  parents: `converge_docEq_diff_parents` (`DocEq` and literally equal `view`).
* E: `DC.Ex` — nested scenario in two orders, satisfiable hypotheses (`good4`).
-/
import Orda.Model.Doc
import Orda.Model.Patch
import Orda.Model.Replica
import Orda.Proofs.HashCmp
import Orda.Proofs.MapCounter
import Mathlib.Logic.Basic
import Mathlib.Tactic.SplitIfs
import Mathlib.Tactic.Tauto
import Mathlib.Data.List.Nodup
import Mathlib.Data.List.Perm.Basic
import Mathlib.Data.List.Induction
import Mathlib.Data.String.Basic
namespace Orda

/-- extensional equality of documents: the same node under every identifier -/
def DocEq (a b : Doc) : Prop := ∀ c, a.find c = b.find c

namespace DC

/-! ### the node table -/

def ids (t : List DNode) : List Ts := t.map (·.c)

theorem find_some_c {d : Doc} {c : Ts} {n : DNode} (h : d.find c = some n) : n.c = c := by
  unfold Doc.find at h
  have := List.find?_some h
  simpa using this

theorem find_some_mem {d : Doc} {c : Ts} {n : DNode} (h : d.find c = some n) : n ∈ d.table := by
  unfold Doc.find at h
  exact List.mem_of_find?_eq_some h

theorem find_none_iff {d : Doc} {c : Ts} : d.find c = none ↔ c ∉ ids d.table := by
  unfold Doc.find ids
  simp [List.find?_eq_none]

theorem find_isSome_iff {d : Doc} {c : Ts} : (d.find c).isSome ↔ c ∈ ids d.table := by
  rw [← not_iff_not, ← find_none_iff]; simp

theorem tfind_tableSet (n : DNode) (t : List DNode) (c : Ts) :
    (tableSet n t).find? (fun x => x.c = c) = if n.c = c then some n else t.find? (fun x => x.c = c) := by
  induction t with
  | nil => simp [tableSet, List.find?]
  | cons x xs ih =>
    simp only [tableSet]
    by_cases hx : x.c = n.c
    · simp only [hx, if_true, List.find?_cons]
      by_cases hc : n.c = c
      · simp [hc]
      · simp [hc]
    · simp only [hx, if_false, List.find?_cons, ih]
      by_cases hc : n.c = c
      · have : ¬ x.c = c := by rw [← hc]; exact hx
        simp [hc, this]
      · simp [hc]

theorem find_set (d : Doc) (n : DNode) (c : Ts) :
    (d.set n).find c = if n.c = c then some n else d.find c := by
  unfold Doc.set Doc.find
  exact tfind_tableSet n d.table c

theorem find_remove (d : Doc) (x c : Ts) :
    (d.remove x).find c = if c = x then none else d.find c := by
  unfold Doc.remove Doc.find
  by_cases h : c = x
  · subst h
    simp [List.find?_eq_none]
  · simp only [h, if_false]
    induction d.table with
    | nil => simp
    | cons y ys ih =>
      by_cases hy : y.c = x
      · have : ¬ y.c = c := by rw [hy]; exact fun e => h e.symm
        rw [List.filter_cons_of_neg (by simpa using hy), List.find?_cons_of_neg (by simpa using this)]
        exact ih
      · rw [List.filter_cons_of_pos (by simpa using hy)]
        by_cases hyc : y.c = c
        · rw [List.find?_cons_of_pos (by simpa using hyc), List.find?_cons_of_pos (by simpa using hyc)]
        · rw [List.find?_cons_of_neg (by simpa using hyc), List.find?_cons_of_neg (by simpa using hyc)]
          exact ih

/-- lookup in a batch of nodes: the last binding wins (as `addAll` overwrites) -/
def nfind (ns : List DNode) (c : Ts) : Option DNode := ns.reverse.find? (fun n => n.c = c)

theorem find_addAll (ns : List DNode) : ∀ (d : Doc) (c : Ts),
    (d.addAll ns).find c = (nfind ns c).or (d.find c) := by
  induction ns with
  | nil => intro d c; simp [Doc.addAll, nfind]
  | cons n ns ih =>
    intro d c
    have : d.addAll (n :: ns) = (d.set n).addAll ns := rfl
    rw [this, ih, find_set]
    simp only [nfind, List.reverse_cons, List.find?_append]
    cases h : List.find? (fun n => n.c = c) ns.reverse with
    | some y => simp
    | none =>
      by_cases hc : n.c = c <;> simp [hc]

theorem nfind_some {ns : List DNode} {c : Ts} {n : DNode} (h : nfind ns c = some n) : n ∈ ns ∧ n.c = c := by
  unfold nfind at h
  exact ⟨List.mem_reverse.mp (List.mem_of_find?_eq_some h), by simpa using List.find?_some h⟩

theorem nfind_none_iff {ns : List DNode} {c : Ts} : nfind ns c = none ↔ c ∉ ids ns := by
  unfold nfind ids
  simp [List.find?_eq_none]

theorem nfind_isSome_iff {ns : List DNode} {c : Ts} : (nfind ns c).isSome ↔ c ∈ ids ns := by
  rw [← not_iff_not, ← nfind_none_iff]; simp

/-- with distinct identifiers, the batch lookup finds every member -/
theorem nfind_of_mem {ns : List DNode} (hnd : (ids ns).Nodup) {n : DNode} (hn : n ∈ ns) :
    nfind ns n.c = some n := by
  cases h : nfind ns n.c with
  | none => exact absurd (List.mem_map.mpr ⟨n, hn, rfl⟩) (nfind_none_iff.mp h)
  | some m =>
    obtain ⟨hm, hc⟩ := nfind_some h
    have : m = n := by
      unfold ids at hnd
      exact List.inj_on_of_nodup_map hnd hm hn hc
    rw [this]

theorem ids_tableSet_mem (n : DNode) (t : List DNode) (h : n.c ∈ ids t) :
    ids (tableSet n t) = ids t := by
  induction t with
  | nil => simp [ids] at h
  | cons x xs ih =>
    simp only [tableSet]
    by_cases hx : x.c = n.c
    · simp [hx, ids]
    · have : n.c ∈ ids xs := by
        simp only [ids, List.map_cons, List.mem_cons] at h
        rcases h with h | h
        · exact absurd h.symm hx
        · exact h
      simp only [hx, if_false]
      simp only [ids, List.map_cons] at ih ⊢
      rw [ih this]

theorem ids_tableSet_not_mem (n : DNode) (t : List DNode) (h : n.c ∉ ids t) :
    ids (tableSet n t) = ids t ++ [n.c] := by
  induction t with
  | nil => simp [tableSet, ids]
  | cons x xs ih =>
    simp only [ids, List.map_cons, List.mem_cons, not_or] at h
    have hx : ¬ x.c = n.c := fun e => h.1 e.symm
    simp only [tableSet, hx, if_false]
    simp only [ids, List.map_cons] at ih ⊢
    rw [ih h.2]; rfl

theorem nodup_set {d : Doc} (n : DNode) (h : (ids d.table).Nodup) : (ids (d.set n).table).Nodup := by
  unfold Doc.set
  by_cases hn : n.c ∈ ids d.table
  · rw [ids_tableSet_mem n _ hn]; exact h
  · rw [ids_tableSet_not_mem n _ hn, List.nodup_append]
    refine ⟨h, by simp, ?_⟩
    intro a ha b hb
    simp only [List.mem_singleton] at hb
    subst hb
    intro e; subst e; exact hn ha

theorem nodup_remove {d : Doc} (x : Ts) (h : (ids d.table).Nodup) : (ids (d.remove x).table).Nodup := by
  unfold Doc.remove ids
  exact List.Nodup.sublist (List.Sublist.map _ List.filter_sublist) h

theorem nodup_addAll (ns : List DNode) : ∀ {d : Doc}, (ids d.table).Nodup → (ids (d.addAll ns).table).Nodup := by
  induction ns with
  | nil => intro d h; exact h
  | cons n ns ih => intro d h; exact ih (nodup_set n h)


/-! ### `DocEq` is an equivalence respected by every observation -/

theorem docEq_refl (a : Doc) : DocEq a a := fun _ => rfl
theorem docEq_symm {a b : Doc} (h : DocEq a b) : DocEq b a := fun c => (h c).symm
theorem docEq_trans {a b c : Doc} (h1 : DocEq a b) (h2 : DocEq b c) : DocEq a c :=
  fun x => (h1 x).trans (h2 x)
theorem docEq_equivalence : Equivalence DocEq := ⟨docEq_refl, docEq_symm, docEq_trans⟩

theorem docEq_isTomb {a b : Doc} (h : DocEq a b) (c : Ts) : a.isTomb c = b.isTomb c := by
  unfold Doc.isTomb; rw [h c]
theorem docEq_timeOf {a b : Doc} (h : DocEq a b) (c : Ts) : a.timeOf c = b.timeOf c := by
  unfold Doc.timeOf; rw [h c]
theorem docEq_findObj {a b : Doc} (h : DocEq a b) (c : Ts) : a.findObj c = b.findObj c := by
  unfold Doc.findObj; rw [h c]
theorem docEq_findArr {a b : Doc} (h : DocEq a b) (c : Ts) : a.findArr c = b.findArr c := by
  unfold Doc.findArr; rw [h c]

theorem docEq_viewOf {a b : Doc} (h : DocEq a b) : ∀ (fuel : Nat) (c : Ts), a.viewOf fuel c = b.viewOf fuel c := by
  intro fuel
  induction fuel with
  | zero => intro c; rfl
  | succ f ih =>
    intro c
    simp only [Doc.viewOf, h c]
    have e1 : ∀ ch, a.isTomb ch = b.isTomb ch := docEq_isTomb h
    simp only [e1, ih]

theorem docEq_isGarbage {a b : Doc} (h : DocEq a b) : ∀ (fuel : Nat) (c : Ts), a.isGarbage fuel c = b.isGarbage fuel c := by
  intro fuel
  induction fuel with
  | zero => intro c; rfl
  | succ f ih =>
    intro c
    simp only [Doc.isGarbage, h c, ih]

/-- extensionally equal tables without duplicate identifiers have the same identifiers up to order -/
theorem docEq_ids_perm {a b : Doc} (h : DocEq a b) (ha : (ids a.table).Nodup) (hb : (ids b.table).Nodup) :
    (ids a.table).Perm (ids b.table) := by
  rw [List.perm_ext_iff_of_nodup ha hb]
  intro c
  rw [← find_isSome_iff, ← find_isSome_iff, h c]

theorem docEq_length {a b : Doc} (h : DocEq a b) (ha : (ids a.table).Nodup) (hb : (ids b.table).Nodup) :
    a.table.length = b.table.length := by
  have := (docEq_ids_perm h ha hb).length_eq
  simpa [ids] using this

/-- `view`, `viewAt`, `garbage` use the table size as fuel: equal under `DocEq` when no identifier is duplicated
    (part of `Doc.WF`) -/
theorem docEq_view {a b : Doc} (h : DocEq a b) (ha : (ids a.table).Nodup) (hb : (ids b.table).Nodup) :
    a.view = b.view := by
  unfold Doc.view; rw [docEq_length h ha hb]; exact docEq_viewOf h _ _
theorem docEq_viewAt {a b : Doc} (h : DocEq a b) (ha : (ids a.table).Nodup) (hb : (ids b.table).Nodup) (c : Ts) :
    a.viewAt c = b.viewAt c := by
  unfold Doc.viewAt; rw [docEq_length h ha hb]; exact docEq_viewOf h _ _
theorem docEq_garbage {a b : Doc} (h : DocEq a b) (ha : (ids a.table).Nodup) (hb : (ids b.table).Nodup) (c : Ts) :
    a.garbage c = b.garbage c := by
  unfold Doc.garbage; rw [docEq_length h ha hb]; exact docEq_isGarbage h _ _

theorem docEq_set {a b : Doc} (h : DocEq a b) (n : DNode) : DocEq (a.set n) (b.set n) := by
  intro c; rw [find_set, find_set, h c]
theorem docEq_remove {a b : Doc} (h : DocEq a b) (x : Ts) : DocEq (a.remove x) (b.remove x) := by
  intro c; rw [find_remove, find_remove, h c]
theorem docEq_addAll {a b : Doc} (h : DocEq a b) (ns : List DNode) : DocEq (a.addAll ns) (b.addAll ns) := by
  intro c; rw [find_addAll, find_addAll, h c]


/-! ### `createNode`: the created nodes form a block of consecutive delimiters -/

def addDelim (t : Ts) (i : Nat) : Ts := ⟨t.era, t.lamport, t.cuid, t.delim + i⟩

theorem nextDelim_eq (t : Ts) : t.nextDelim = addDelim t 1 := rfl
theorem addDelim_zero (t : Ts) : addDelim t 0 = t := rfl
theorem addDelim_add (t : Ts) (i j : Nat) : addDelim (addDelim t i) j = addDelim t (i + j) := by
  simp [addDelim, Nat.add_assoc]
theorem addDelim_key (t : Ts) (i : Nat) : (addDelim t i).key = t.key := rfl
theorem addDelim_inj (t : Ts) {i j : Nat} (h : addDelim t i = addDelim t j) : i = j := by
  simp [addDelim] at h; exact h

theorem mem_delimSeq {x : Ts} : ∀ {n : Nat} {t : Ts}, x ∈ delimSeq t n ↔ ∃ i, i < n ∧ x = addDelim t i := by
  intro n
  induction n with
  | zero => intro t; simp [delimSeq]
  | succ n ih =>
    intro t
    simp only [delimSeq, List.mem_cons, ih, nextDelim_eq, addDelim_add]
    constructor
    · rintro (h | ⟨i, hi, h⟩)
      · exact ⟨0, by omega, h⟩
      · exact ⟨1 + i, by omega, h⟩
    · rintro ⟨i, hi, h⟩
      cases i with
      | zero => exact Or.inl h
      | succ i => exact Or.inr ⟨i, by omega, by rw [h]; congr 1; omega⟩

theorem delimSeq_append (a b : Nat) : ∀ (t : Ts), delimSeq t (a + b) = delimSeq t a ++ delimSeq (addDelim t a) b := by
  induction a with
  | zero => intro t; simp [delimSeq, addDelim_zero]
  | succ a ih =>
    intro t
    have : a + 1 + b = (a + b) + 1 := by omega
    rw [this]
    simp only [delimSeq, ih, List.cons_append, nextDelim_eq, addDelim_add]
    rw [Nat.add_comm 1 a]

theorem delimSeq_nodup : ∀ (n : Nat) (t : Ts), (delimSeq t n).Nodup := by
  intro n
  induction n with
  | zero => intro t; simp [delimSeq]
  | succ n ih =>
    intro t
    simp only [delimSeq, List.nodup_cons]
    refine ⟨?_, ih _⟩
    rw [mem_delimSeq]
    rintro ⟨i, _, h⟩
    rw [nextDelim_eq, addDelim_add] at h
    have := addDelim_inj t (i := 0) (j := 1 + i) h
    omega

/-- the children referenced by a node -/
def kids : DKind → List Ts
  | .elem _ => []
  | .obj m _ => m.map (·.2)
  | .arr sl _ => sl.map (·.2)

/-- `ns` are freshly created nodes with identifiers `ts, ts+1, …`, `ts'` the next free identifier:
    all live, every referenced child is a LATER node of the block whose parent is the referencing node,
    no node references a child twice -/
structure Block (ts : Ts) (ns : List DNode) (ts' : Ts) : Prop where
  ids : ids ns = delimSeq ts ns.length
  next : ts' = addDelim ts ns.length
  live : ∀ n ∈ ns, n.d = none
  links : ∀ n ∈ ns, ∀ c ∈ kids n.kind, ∃ nc ∈ ns, nc.c = c ∧ nc.parent = some n.c ∧ n.c.delim < c.delim
  inj : ∀ n ∈ ns, (kids n.kind).Nodup

theorem block_nil (ts : Ts) : Block ts [] ts :=
  ⟨rfl, rfl, by simp, by simp, by simp⟩

theorem block_append {ts ts1 ts2 : Ts} {ns1 ns2 : List DNode} (h1 : Block ts ns1 ts1) (h2 : Block ts1 ns2 ts2) :
    Block ts (ns1 ++ ns2) ts2 := by
  refine ⟨?_, ?_, ?_, ?_, ?_⟩
  · have e2 := h2.ids
    have e1 := h1.ids
    rw [h1.next] at e2
    simp only [DC.ids, List.map_append, List.length_append, delimSeq_append] at *
    rw [e1, e2]
  · rw [h2.next, h1.next, addDelim_add, List.length_append]
  · intro n hn
    rcases List.mem_append.mp hn with h | h
    · exact h1.live n h
    · exact h2.live n h
  · intro n hn c hc
    rcases List.mem_append.mp hn with h | h
    · obtain ⟨nc, hnc, r⟩ := h1.links n h c hc
      exact ⟨nc, List.mem_append_left _ hnc, r⟩
    · obtain ⟨nc, hnc, r⟩ := h2.links n h c hc
      exact ⟨nc, List.mem_append_right _ hnc, r⟩
  · intro n hn
    rcases List.mem_append.mp hn with h | h
    · exact h1.inj n h
    · exact h2.inj n h

theorem block_mem_id {ts ts' : Ts} {ns : List DNode} (h : Block ts ns ts') {n : DNode} (hn : n ∈ ns) :
    ∃ i, i < ns.length ∧ n.c = addDelim ts i := by
  have : n.c ∈ DC.ids ns := List.mem_map.mpr ⟨n, hn, rfl⟩
  rw [h.ids] at this
  exact mem_delimSeq.mp this

theorem block_ids_nodup {ts ts' : Ts} {ns : List DNode} (h : Block ts ns ts') : (DC.ids ns).Nodup := by
  rw [h.ids]; exact delimSeq_nodup _ _

/-- what the three creation functions return -/
def NodeSpec (parent ts : Ts) (r : List DNode × Ts × Ts) : Prop :=
  Block ts r.1 r.2.2 ∧ r.2.1 = ts ∧ ∃ n0 rest, r.1 = n0 :: rest ∧ n0.c = ts ∧ n0.parent = some parent

/-- items: a block, and the returned child identifiers are distinct roots inside it whose parent is `parent` -/
def ItemsSpec (parent ts : Ts) (ns : List DNode) (cs : List Ts) (ts' : Ts) : Prop :=
  Block ts ns ts' ∧ cs.Nodup ∧ ∀ c ∈ cs, ∃ nc ∈ ns, nc.c = c ∧ nc.parent = some parent ∧ ts.delim ≤ c.delim

theorem itemsSpec_cons {parent ts ts1 ts2 : Ts} {ns ns2 : List DNode} {c : Ts} {cs : List Ts}
    (h1 : NodeSpec parent ts (ns, c, ts1)) (h2 : ItemsSpec parent ts1 ns2 cs ts2) :
    ItemsSpec parent ts (ns ++ ns2) (c :: cs) ts2 := by
  obtain ⟨b1, hc, n0, rest, hns, hn0c, hn0p⟩ := h1
  obtain ⟨b2, hnd, hcs⟩ := h2
  simp only at b1 hc hns
  have hts1 : ts1 = addDelim ts ns.length := b1.next
  refine ⟨block_append b1 b2, ?_, ?_⟩
  · rw [List.nodup_cons]
    refine ⟨?_, hnd⟩
    intro hmem
    obtain ⟨nc, _, hncc, _, hle⟩ := hcs c hmem
    rw [hc, hts1, hns] at hle
    simp only [addDelim, List.length_cons] at hle
    omega
  · intro x hx
    rcases List.mem_cons.mp hx with rfl | hx
    · refine ⟨n0, by rw [hns]; simp, by rw [hn0c, hc], hn0p, by rw [hc]⟩
    · obtain ⟨nc, hnc, h1, h2, h3⟩ := hcs x hx
      refine ⟨nc, List.mem_append_right _ hnc, h1, h2, ?_⟩
      rw [hts1] at h3; simp [addDelim] at h3; omega

theorem nodeSpec_container {parent ts ts' : Ts} {ns : List DNode} {cs : List Ts} (kind : DKind)
    (hk : kids kind = cs) (h : ItemsSpec ts ts.nextDelim ns cs ts') :
    NodeSpec parent ts (⟨ts, none, some parent, kind⟩ :: ns, ts, ts') := by
  obtain ⟨b, hnd, hcs⟩ := h
  refine ⟨?_, rfl, _, _, rfl, rfl, rfl⟩
  refine ⟨?_, ?_, ?_, ?_, ?_⟩
  · have := b.ids
    simp only [DC.ids, List.map_cons, List.length_cons, delimSeq] at this ⊢
    rw [this]
  · simp only [List.length_cons]
    rw [b.next, nextDelim_eq, addDelim_add, Nat.add_comm]
  · intro n hn
    rcases List.mem_cons.mp hn with rfl | hn
    · rfl
    · exact b.live n hn
  · intro n hn c hc
    rcases List.mem_cons.mp hn with rfl | hn
    · simp only [hk] at hc
      obtain ⟨nc, hnc, h1, h2, h3⟩ := hcs c hc
      refine ⟨nc, List.mem_cons_of_mem _ hnc, h1, h2, ?_⟩
      simp [Ts.nextDelim] at h3 ⊢; omega
    · obtain ⟨nc, hnc, r⟩ := b.links n hn c hc
      exact ⟨nc, List.mem_cons_of_mem _ hnc, r⟩
  · intro n hn
    rcases List.mem_cons.mp hn with rfl | hn
    · simp only [hk]; exact hnd
    · exact b.inj n hn

theorem nodeSpec_elem (parent ts : Ts) (v : JVal) :
    NodeSpec parent ts ([⟨ts, none, some parent, .elem v⟩], ts, ts.nextDelim) := by
  refine ⟨⟨by simp [DC.ids, delimSeq], by simp [nextDelim_eq], by simp, ?_, by simp [kids]⟩, rfl, _, _, rfl, rfl, rfl⟩
  intro n hn c hc
  simp only [List.mem_singleton] at hn
  subst hn
  simp [kids] at hc

mutual
theorem createNode_spec (parent ts : Ts) : ∀ (v : JVal) (r : List DNode × Ts × Ts),
    createNode parent ts v = .ok r → NodeSpec parent ts r
  | .null, r, h => by simp [createNode] at h
  | .bool b, r, h => by
    simp only [createNode, Outcome.ok.injEq] at h; subst h; exact nodeSpec_elem _ _ _
  | .num b, r, h => by
    simp only [createNode, Outcome.ok.injEq] at h; subst h; exact nodeSpec_elem _ _ _
  | .str b, r, h => by
    simp only [createNode, Outcome.ok.injEq] at h; subst h; exact nodeSpec_elem _ _ _
  | .obj kvs, r, h => by
    simp only [createNode] at h
    split at h
    · rename_i ns m ts' hi
      simp only [Outcome.ok.injEq] at h; subst h
      exact nodeSpec_container _ rfl (createObjItems_spec ts ts.nextDelim kvs ns m ts' hi)
    · cases h
    · cases h
  | .arr vs, r, h => by
    simp only [createNode] at h
    split at h
    · rename_i ns cs ts' hi
      simp only [Outcome.ok.injEq] at h; subst h
      have := createArrItems_spec ts ts.nextDelim vs ns cs ts' hi
      exact nodeSpec_container _ (by simp [kids, Function.comp_def]) this
    · cases h
    · cases h
theorem createArrItems_spec (parent ts : Ts) : ∀ (vs : List JVal) (ns : List DNode) (cs : List Ts) (ts' : Ts),
    createArrItems parent ts vs = .ok (ns, cs, ts') → ItemsSpec parent ts ns cs ts'
  | [], ns, cs, ts', h => by
    simp only [createArrItems, Outcome.ok.injEq, Prod.mk.injEq] at h
    obtain ⟨rfl, rfl, rfl⟩ := h
    exact ⟨block_nil _, by simp, by simp⟩
  | v :: vs, ns, cs, ts', h => by
    simp only [createArrItems] at h
    split at h
    · rename_i ns1 c ts1 h1
      split at h
      · rename_i ns2 cs2 ts2 h2
        simp only [Outcome.ok.injEq, Prod.mk.injEq] at h
        obtain ⟨rfl, rfl, rfl⟩ := h
        exact itemsSpec_cons (createNode_spec parent ts v _ h1) (createArrItems_spec parent ts1 vs _ _ _ h2)
      · cases h
      · cases h
    · cases h
    · cases h
theorem createObjItems_spec (parent ts : Ts) : ∀ (kvs : List (String × JVal)) (ns : List DNode) (m : List (String × Ts)) (ts' : Ts),
    createObjItems parent ts kvs = .ok (ns, m, ts') → ItemsSpec parent ts ns (m.map (·.2)) ts'
  | [], ns, cs, ts', h => by
    simp only [createObjItems, Outcome.ok.injEq, Prod.mk.injEq] at h
    obtain ⟨rfl, rfl, rfl⟩ := h
    exact ⟨block_nil _, by simp, by simp⟩
  | (k, v) :: kvs, ns, cs, ts', h => by
    simp only [createObjItems] at h
    split at h
    · rename_i ns1 c ts1 h1
      split at h
      · rename_i ns2 cs2 ts2 h2
        simp only [Outcome.ok.injEq, Prod.mk.injEq] at h
        obtain ⟨rfl, rfl, rfl⟩ := h
        exact itemsSpec_cons (createNode_spec parent ts v _ h1) (createObjItems_spec parent ts1 kvs _ _ _ h2)
      · cases h
      · cases h
    · cases h
    · cases h
end


/-! ### funeral / makeTomb in closed form -/

/-- what a funeral leaves of the node: an element leaves the table, a container becomes a tombstone -/
def fun1 (t : Ts) : Option DNode → Option DNode
  | none => none
  | some n => match n.kind with
    | .elem _ => none
    | _ => some { n with d := some t }

theorem find_funeral (d : Doc) (x t c : Ts) :
    (d.funeral x t).find c = if c = x then fun1 t (d.find x) else d.find c := by
  unfold Doc.funeral
  cases h : d.find x with
  | none =>
    by_cases hc : c = x
    · subst hc; simp [fun1, h]
    · simp [hc]
  | some n =>
    have hnc := find_some_c h
    cases hk : n.kind with
    | elem v => simp only [find_remove, fun1, hk]
    | obj m s =>
      simp only [find_set, fun1, hk, hnc]
      by_cases hc : c = x
      · subst hc; simp
      · have : ¬ x = c := fun e => hc e.symm
        simp [hc, this]
    | arr sl s =>
      simp only [find_set, fun1, hk, hnc]
      by_cases hc : c = x
      · subst hc; simp
      · have : ¬ x = c := fun e => hc e.symm
        simp [hc, this]

theorem find_makeTomb (d : Doc) (x t c : Ts) :
    (d.makeTomb x t).find c = if c = x then (d.find x).map (fun n => { n with d := some t }) else d.find c := by
  unfold Doc.makeTomb
  cases h : d.find x with
  | none =>
    by_cases hc : c = x
    · subst hc; simp [h]
    · simp [hc]
  | some n =>
    have hnc := find_some_c h
    simp only [find_set, hnc]
    by_cases hc : c = x
    · subst hc; simp [hnc]
    · have : ¬ x = c := fun e => hc e.symm
      simp [hc, this]

theorem nodup_funeral {d : Doc} (x t : Ts) (h : (ids d.table).Nodup) : (ids (d.funeral x t).table).Nodup := by
  unfold Doc.funeral
  split
  · exact h
  · split
    · exact nodup_remove _ h
    · exact nodup_set _ h

theorem nodup_makeTomb {d : Doc} (x t : Ts) (h : (ids d.table).Nodup) : (ids (d.makeTomb x t).table).Nodup := by
  unfold Doc.makeTomb
  split
  · exact h
  · exact nodup_set _ h

end DC

/-! ### well-formedness -/

/-- no duplicate identifiers; every referenced child (object key or array slot) is in the table and its
    `parent` is the referencing node; no node references the same child twice -/
structure Doc.WF (d : Doc) : Prop where
  nodup : (DC.ids d.table).Nodup
  child : ∀ p n, d.find p = some n → ∀ c ∈ DC.kids n.kind, ∃ nc, d.find c = some nc ∧ nc.parent = some p
  inj : ∀ p n, d.find p = some n → (DC.kids n.kind).Nodup

namespace DC

theorem wf_doc_empty : Doc.empty.WF := by
  refine ⟨by simp [Doc.empty, ids], ?_, ?_⟩
  · intro p n h c hc
    unfold Doc.find Doc.empty at h
    simp only [List.find?_cons, List.find?_nil] at h
    split at h
    · simp only [Option.some.injEq] at h; subst h; simp [kids] at hc
    · cases h
  · intro p n h
    unfold Doc.find Doc.empty at h
    simp only [List.find?_cons, List.find?_nil] at h
    split at h
    · simp only [Option.some.injEq] at h; subst h; simp [kids]
    · cases h

/-- a parent's children are not children of another node -/
theorem wf_unique_parent {d : Doc} (h : d.WF) {p q c : Ts} {np nq : DNode} (hp : d.find p = some np)
    (hq : d.find q = some nq) (hcp : c ∈ kids np.kind) (hcq : c ∈ kids nq.kind) : p = q := by
  obtain ⟨n1, h1, p1⟩ := h.child p np hp c hcp
  obtain ⟨n2, h2, p2⟩ := h.child q nq hq c hcq
  rw [h1] at h2
  simp only [Option.some.injEq] at h2
  subst h2
  rw [p1] at p2
  simpa using p2

/-- new nodes do not clash with the table -/
def Fresh (d : Doc) (ns : List DNode) : Prop := ∀ c ∈ ids ns, d.find c = none

theorem find_addAll_old {d : Doc} {ns : List DNode} (hf : Fresh d ns) {c : Ts} {n : DNode}
    (h : d.find c = some n) : (d.addAll ns).find c = some n := by
  rw [find_addAll]
  have : nfind ns c = none := by
    rw [nfind_none_iff]
    intro hc
    rw [hf c hc] at h; cases h
  rw [this, h]; rfl

theorem find_addAll_new {d : Doc} {ns : List DNode} (hnd : (ids ns).Nodup) {n : DNode}
    (h : n ∈ ns) : (d.addAll ns).find n.c = some n := by
  rw [find_addAll, nfind_of_mem hnd h]; rfl

theorem find_addAll_cases {d : Doc} {ns : List DNode} {c : Ts} {n : DNode}
    (h : (d.addAll ns).find c = some n) : (n ∈ ns ∧ n.c = c) ∨ (c ∉ ids ns ∧ d.find c = some n) := by
  rw [find_addAll] at h
  cases hn : nfind ns c with
  | none =>
    rw [hn] at h
    exact Or.inr ⟨nfind_none_iff.mp hn, by simpa using h⟩
  | some m =>
    rw [hn] at h
    have h : m = n := by simpa using h
    subst h
    exact Or.inl (nfind_some hn)

theorem wf_addAll {d : Doc} {ts ts' : Ts} {ns : List DNode} (h : d.WF) (hb : Block ts ns ts') (hf : Fresh d ns) :
    (d.addAll ns).WF := by
  have hnd := block_ids_nodup hb
  refine ⟨nodup_addAll ns h.nodup, ?_, ?_⟩
  · intro p n hp c hc
    rcases find_addAll_cases hp with ⟨hn, hnc⟩ | ⟨_, hd⟩
    · obtain ⟨nc, hnc', h1, h2, _⟩ := hb.links n hn c hc
      refine ⟨nc, ?_, by rw [h2, hnc]⟩
      rw [← h1]; exact find_addAll_new hnd hnc'
    · obtain ⟨nc, h1, h2⟩ := h.child p n hd c hc
      exact ⟨nc, find_addAll_old hf h1, h2⟩
  · intro p n hp
    rcases find_addAll_cases hp with ⟨hn, _⟩ | ⟨_, hd⟩
    · exact hb.inj n hn
    · exact h.inj p n hd

/-- replacing the kind of a node, when the new children are in the table with this node as parent -/
theorem wf_setKind {d : Doc} (h : d.WF) {p : Ts} {pn : DNode} (hp : d.find p = some pn) (K : DKind)
    (hK : ∀ c ∈ kids K, ∃ nc, d.find c = some nc ∧ nc.parent = some p) (hKn : (kids K).Nodup) :
    (d.set { pn with kind := K }).WF := by
  have hpc := find_some_c hp
  have key : ∀ c nc, d.find c = some nc → ∃ nc', (d.set { pn with kind := K }).find c = some nc' ∧ nc'.parent = nc.parent := by
    intro c nc hc
    rw [find_set]
    by_cases e : pn.c = c
    · simp only [e, if_true]
      refine ⟨_, rfl, ?_⟩
      rw [hpc] at e; subst e
      rw [hp] at hc; simp only [Option.some.injEq] at hc; subst hc; rfl
    · simp only [e, if_false]; exact ⟨nc, hc, rfl⟩
  refine ⟨nodup_set _ h.nodup, ?_, ?_⟩
  · intro q n hq c hc
    rw [find_set] at hq
    by_cases e : pn.c = q
    · simp only [e, if_true, Option.some.injEq] at hq
      subst hq
      obtain ⟨nc, h1, h2⟩ := hK c hc
      obtain ⟨nc', h3, h4⟩ := key c nc h1
      rw [hpc] at e
      exact ⟨nc', h3, by rw [h4, h2, e]⟩
    · simp only [e, if_false] at hq
      obtain ⟨nc, h1, h2⟩ := h.child q n hq c hc
      obtain ⟨nc', h3, h4⟩ := key c nc h1
      exact ⟨nc', h3, by rw [h4, h2]⟩
  · intro q n hq
    rw [find_set] at hq
    by_cases e : pn.c = q
    · simp only [e, if_true, Option.some.injEq] at hq
      subst hq; exact hKn
    · simp only [e, if_false] at hq
      exact h.inj q n hq

/-- a funeral of a node that nobody references -/
theorem wf_funeral {d : Doc} (h : d.WF) (x t : Ts) (hx : ∀ q n, d.find q = some n → x ∉ kids n.kind) :
    (d.funeral x t).WF := by
  have key : ∀ q n, (d.funeral x t).find q = some n → ∃ n0, d.find q = some n0 ∧ n.kind = n0.kind ∧ n.parent = n0.parent := by
    intro q n hq
    rw [find_funeral] at hq
    by_cases e : q = x
    · subst e
      simp only [if_true] at hq
      cases hf : d.find q with
      | none => rw [hf] at hq; simp [fun1] at hq
      | some n0 =>
        rw [hf] at hq
        simp only [fun1] at hq
        split at hq
        · cases hq
        · simp only [Option.some.injEq] at hq; subst hq; exact ⟨n0, rfl, rfl, rfl⟩
    · simp only [e, if_false] at hq; exact ⟨n, hq, rfl, rfl⟩
  refine ⟨nodup_funeral _ _ h.nodup, ?_, ?_⟩
  · intro q n hq c hc
    obtain ⟨n0, h0, hk, _⟩ := key q n hq
    rw [hk] at hc
    obtain ⟨nc, h1, h2⟩ := h.child q n0 h0 c hc
    have hcx : c ≠ x := fun e => hx q n0 h0 (e ▸ hc)
    exact ⟨nc, by rw [find_funeral]; simp [hcx, h1], h2⟩
  · intro q n hq
    obtain ⟨n0, h0, hk, _⟩ := key q n hq
    rw [hk]; exact h.inj q n0 h0

theorem wf_makeTomb {d : Doc} (h : d.WF) (x t : Ts) : (d.makeTomb x t).WF := by
  have key : ∀ q n, (d.makeTomb x t).find q = some n → ∃ n0, d.find q = some n0 ∧ n.kind = n0.kind ∧ n.parent = n0.parent := by
    intro q n hq
    rw [find_makeTomb] at hq
    by_cases e : q = x
    · subst e
      simp only [if_true] at hq
      cases hf : d.find q with
      | none => rw [hf] at hq; simp at hq
      | some n0 =>
        rw [hf] at hq
        simp only [Option.map_some, Option.some.injEq] at hq; subst hq; exact ⟨n0, rfl, rfl, rfl⟩
    · simp only [e, if_false] at hq; exact ⟨n, hq, rfl, rfl⟩
  have key2 : ∀ q n0, d.find q = some n0 → ∃ n, (d.makeTomb x t).find q = some n ∧ n.parent = n0.parent := by
    intro q n0 hq
    rw [find_makeTomb]
    by_cases e : q = x
    · subst e; simp [hq]
    · simp [e, hq]
  refine ⟨nodup_makeTomb _ _ h.nodup, ?_, ?_⟩
  · intro q n hq c hc
    obtain ⟨n0, h0, hk, _⟩ := key q n hq
    rw [hk] at hc
    obtain ⟨nc, h1, h2⟩ := h.child q n0 h0 c hc
    obtain ⟨nc', h3, h4⟩ := key2 c nc h1
    exact ⟨nc', h3, by rw [h4, h2]⟩
  · intro q n hq
    obtain ⟨n0, h0, hk, _⟩ := key q n hq
    rw [hk]; exact h.inj q n0 h0


/-! ### association-list facts about the referenced children -/

theorem alFind_mem_vals {k : String} {c : Ts} {m : List (String × Ts)} (h : alFind k m = some c) :
    c ∈ m.map (·.2) :=
  List.mem_map.mpr ⟨(k, c), alFind_some_mem k c m h, rfl⟩

theorem alSet_vals_none {k : String} (e : Ts) {m : List (String × Ts)} (h : alFind k m = none) :
    (alSet k e m).map (·.2) = m.map (·.2) ++ [e] := by
  rw [alSet_of_none k e m h]; simp

theorem alSet_vals_some {k : String} {e old : Ts} : ∀ {m : List (String × Ts)}, (m.map (·.2)).Nodup →
    alFind k m = some old → e ∉ m.map (·.2) →
    ((alSet k e m).map (·.2)).Nodup ∧ old ∉ (alSet k e m).map (·.2) ∧
      ∀ c ∈ (alSet k e m).map (·.2), c = e ∨ c ∈ m.map (·.2) := by
  intro m
  induction m with
  | nil => intro _ h; simp [alFind] at h
  | cons x r ih =>
    obtain ⟨k0, c0⟩ := x
    intro hnd hf he
    simp only [List.map_cons, List.nodup_cons, List.mem_cons, not_or] at hnd he
    simp only [alFind] at hf
    by_cases h0 : k0 = k
    · simp only [h0, if_true, Option.some.injEq] at hf
      subst hf
      simp only [alSet, h0, if_true, List.map_cons, List.nodup_cons, List.mem_cons, not_or]
      refine ⟨⟨he.2, hnd.2⟩, ⟨fun e' => he.1 e'.symm, hnd.1⟩, ?_⟩
      intro c hc
      rcases hc with hc | hc
      · exact Or.inl hc
      · exact Or.inr (Or.inr hc)
    · simp only [h0, if_false] at hf
      obtain ⟨i1, i2, i3⟩ := ih hnd.2 hf he.2
      have hold : old ∈ r.map (·.2) := alFind_mem_vals hf
      simp only [alSet, h0, if_false, List.map_cons, List.nodup_cons, List.mem_cons, not_or]
      refine ⟨⟨?_, i1⟩, ⟨?_, i2⟩, ?_⟩
      · intro hc
        rcases i3 c0 hc with e' | e'
        · exact he.1 e'.symm
        · exact hnd.1 e'
      · intro e'; subst e'; exact hnd.1 hold
      · intro c hc
        rcases hc with hc | hc
        · exact Or.inr (Or.inl hc)
        · rcases i3 c hc with e' | e'
          · exact Or.inl e'
          · exact Or.inr (Or.inr e')

/-! ### the object operations, case by case -/

theorem findObj_some_iff {d : Doc} {p : Ts} {pn : DNode} {m : List (String × Ts)} {size : Int} :
    d.findObj p = some (pn, m, size) ↔ d.find p = some pn ∧ pn.kind = .obj m size := by
  unfold Doc.findObj
  constructor
  · intro h
    split at h
    · rename_i n hn
      split at h
      · rename_i m' s' hk
        simp only [Option.some.injEq, Prod.mk.injEq] at h
        obtain ⟨rfl, rfl, rfl⟩ := h
        exact ⟨hn, hk⟩
      · cases h
    · cases h
  · rintro ⟨h1, h2⟩
    simp only [h1, h2]

theorem createNode_root {p ts c ts' : Ts} {v : JVal} {ns : List DNode}
    (h : createNode p ts v = .ok (ns, c, ts')) : c = ts := (createNode_spec p ts v _ h).2.1

theorem timeOf_of_find {a b : Doc} {c : Ts} (h : a.find c = b.find c) : a.timeOf c = b.timeOf c := by
  unfold Doc.timeOf; rw [h]
theorem isTomb_of_find {a b : Doc} {c : Ts} (h : a.find c = b.find c) : a.isTomb c = b.isTomb c := by
  unfold Doc.isTomb; rw [h]

/-- everything a remote put needs: a well-formed document, an object parent, a creatable value, fresh identifiers -/
structure PutPre (d : Doc) (p : Ts) (v : JVal) (ts : Ts) (pn : DNode) (m : List (String × Ts)) (size : Int)
    (ns : List DNode) (ts' : Ts) : Prop where
  wf : d.WF
  hp : d.find p = some pn
  hk : pn.kind = .obj m size
  hc : createNode p ts v = .ok (ns, ts, ts')
  fresh : Fresh d ns

section put
variable {d : Doc} {p : Ts} {v : JVal} {ts : Ts} {pn : DNode} {m : List (String × Ts)} {size : Int}
  {ns : List DNode} {ts' : Ts}

theorem PutPre.block (h : PutPre d p v ts pn m size ns ts') : Block ts ns ts' :=
  (createNode_spec p ts v _ h.hc).1

theorem PutPre.root (h : PutPre d p v ts pn m size ns ts') :
    ∃ n0 rest, ns = n0 :: rest ∧ n0.c = ts ∧ n0.parent = some p :=
  (createNode_spec p ts v _ h.hc).2.2

theorem PutPre.findObj (h : PutPre d p v ts pn m size ns ts') : d.findObj p = some (pn, m, size) :=
  findObj_some_iff.mpr ⟨h.hp, h.hk⟩

theorem PutPre.old_find (h : PutPre d p v ts pn m size ns ts') {k : String} {oldC : Ts}
    (hk : alFind k m = some oldC) : ∃ no, d.find oldC = some no ∧ no.parent = some p := by
  have := h.wf.child p pn h.hp oldC
  rw [h.hk] at this
  exact this (alFind_mem_vals hk)

theorem PutPre.old_addAll (h : PutPre d p v ts pn m size ns ts') {k : String} {oldC : Ts}
    (hk : alFind k m = some oldC) : (d.addAll ns).find oldC = d.find oldC := by
  obtain ⟨no, h1, _⟩ := h.old_find hk
  rw [h1]; exact find_addAll_old h.fresh h1

theorem put_new (h : PutPre d p v ts pn m size ns ts') {k : String} (hk : alFind k m = none) :
    d.putInObject p k v ts =
      .ok ((d.addAll ns).set { pn with kind := .obj (alSet k ts m) (size + 1) }, none) := by
  unfold Doc.putInObject
  simp only [h.findObj, h.hc, hk]

theorem put_win (h : PutPre d p v ts pn m size ns ts') {k : String} {oldC : Ts} (hk : alFind k m = some oldC)
    (hlt : (d.timeOf oldC).cmp ts = .lt) :
    d.putInObject p k v ts =
      .ok (((d.addAll ns).set { pn with kind := .obj (alSet k ts m) (if d.isTomb oldC then size + 1 else size) }).funeral
        oldC ts, if d.isTomb oldC then none else some oldC) := by
  unfold Doc.putInObject
  simp only [h.findObj, h.hc, hk, timeOf_of_find (h.old_addAll hk), isTomb_of_find (h.old_addAll hk), hlt,
    beq_self_eq_true, if_true]

theorem put_lose (h : PutPre d p v ts pn m size ns ts') {k : String} {oldC : Ts} (hk : alFind k m = some oldC)
    (hlt : (d.timeOf oldC).cmp ts ≠ .lt) :
    d.putInObject p k v ts = .ok ((d.addAll ns).funeral ts oldC, some ts) := by
  unfold Doc.putInObject
  have : ((d.timeOf oldC).cmp ts == .lt) = false := by
    cases hc : (d.timeOf oldC).cmp ts <;> simp_all
  simp only [h.findObj, h.hc, hk, timeOf_of_find (h.old_addAll hk), this, Bool.false_eq_true, if_false]

/-- a remote put of a creatable value on an object parent always succeeds -/
theorem put_ok (h : PutPre d p v ts pn m size ns ts') (k : String) :
    ∃ d' r, d.putInObject p k v ts = .ok (d', r) := by
  cases hk : alFind k m with
  | none => exact ⟨_, _, put_new h hk⟩
  | some oldC =>
    by_cases hlt : (d.timeOf oldC).cmp ts = .lt
    · exact ⟨_, _, put_win h hk hlt⟩
    · exact ⟨_, _, put_lose h hk hlt⟩

theorem PutPre.root_find (h : PutPre d p v ts pn m size ns ts') :
    ∃ n0, (d.addAll ns).find ts = some n0 ∧ n0.parent = some p ∧ n0 ∈ ns := by
  obtain ⟨n0, rest, hns, hc, hpar⟩ := h.root
  have hmem : n0 ∈ ns := by rw [hns]; simp
  have := find_addAll_new (d := d) (block_ids_nodup h.block) hmem
  rw [hc] at this
  exact ⟨n0, this, hpar, hmem⟩

theorem PutPre.ts_fresh (h : PutPre d p v ts pn m size ns ts') : d.find ts = none := by
  obtain ⟨n0, _, _, hmem⟩ := h.root_find
  obtain ⟨n0', rest, hns, hc, _⟩ := h.root
  apply h.fresh
  rw [hns]; simp [ids, hc]

/-- nothing references the root of the created nodes in `d.addAll ns` -/
theorem PutPre.root_unlinked (h : PutPre d p v ts pn m size ns ts') :
    ∀ q n, (d.addAll ns).find q = some n → ts ∉ kids n.kind := by
  intro q n hq hmem
  rcases find_addAll_cases hq with ⟨hn, _⟩ | ⟨_, hd⟩
  · obtain ⟨nc, _, h1, _, h3⟩ := h.block.links n hn ts hmem
    obtain ⟨i, _, hi⟩ := block_mem_id h.block hn
    rw [hi] at h3
    simp only [addDelim] at h3
    omega
  · obtain ⟨nc, h1, _⟩ := h.wf.child q n hd ts hmem
    rw [h.ts_fresh] at h1; cases h1

/-- A (put): a remote put that returns `.ok` preserves well-formedness -/
theorem wf_put (h : PutPre d p v ts pn m size ns ts') {k : String} {d' : Doc} {r : Option Ts}
    (hr : d.putInObject p k v ts = .ok (d', r)) : d'.WF := by
  have hwf1 : (d.addAll ns).WF := wf_addAll h.wf h.block h.fresh
  have hp1 : (d.addAll ns).find p = some pn := find_addAll_old h.fresh h.hp
  obtain ⟨n0, hn0, hn0p, _⟩ := h.root_find
  have hinj : (m.map (·.2)).Nodup := by
    have := h.wf.inj p pn h.hp; rw [h.hk] at this; exact this
  have hts_notin : ts ∉ m.map (·.2) := by
    have := h.root_unlinked p pn hp1; rw [h.hk] at this; exact this
  have hkids_old : ∀ c ∈ m.map (·.2), ∃ nc, (d.addAll ns).find c = some nc ∧ nc.parent = some p := by
    intro c hc
    have := hwf1.child p pn hp1 c; rw [h.hk] at this; exact this hc
  cases hk : alFind k m with
  | none =>
    rw [put_new h hk] at hr
    simp only [Outcome.ok.injEq, Prod.mk.injEq] at hr
    rw [← hr.1]
    apply wf_setKind hwf1 hp1
    · intro c hc
      simp only [kids, alSet_vals_none ts hk, List.mem_append, List.mem_singleton] at hc
      rcases hc with hc | hc
      · exact hkids_old c hc
      · subst hc; exact ⟨n0, hn0, hn0p⟩
    · simp only [kids, alSet_vals_none ts hk]
      rw [List.nodup_append]
      refine ⟨hinj, by simp, ?_⟩
      intro a ha b hb
      simp only [List.mem_singleton] at hb
      subst hb; intro e; subst e; exact hts_notin ha
  | some oldC =>
    obtain ⟨i1, i2, i3⟩ := alSet_vals_some (e := ts) hinj hk hts_notin
    by_cases hlt : (d.timeOf oldC).cmp ts = .lt
    · rw [put_win h hk hlt] at hr
      simp only [Outcome.ok.injEq, Prod.mk.injEq] at hr
      rw [← hr.1]
      have hwf2 := wf_setKind hwf1 hp1 (.obj (alSet k ts m) (if d.isTomb oldC then size + 1 else size))
        (by
          intro c hc
          simp only [kids] at hc
          rcases i3 c hc with e | e
          · subst e; exact ⟨n0, hn0, hn0p⟩
          · exact hkids_old c e)
        (by simpa [kids] using i1)
      apply wf_funeral hwf2
      intro q n hq hmem
      rw [find_set] at hq
      have hpc := find_some_c h.hp
      by_cases e : pn.c = q
      · simp only [e, if_true, Option.some.injEq] at hq
        subst hq
        exact i2 hmem
      · simp only [e, if_false] at hq
        have hold : oldC ∈ kids pn.kind := by rw [h.hk]; exact alFind_mem_vals hk
        have := wf_unique_parent hwf1 hp1 hq hold hmem
        rw [hpc] at e; exact e this
    · rw [put_lose h hk hlt] at hr
      simp only [Outcome.ok.injEq, Prod.mk.injEq] at hr
      rw [← hr.1]
      exact wf_funeral hwf1 _ _ h.root_unlinked

end put

theorem del_eq {d : Doc} {p : Ts} {pn : DNode} {m : List (String × Ts)} {size : Int} {k : String} {c : Ts}
    (hp : d.find p = some pn) (hk : pn.kind = .obj m size) (hf : alFind k m = some c) (ts : Ts) :
    d.deleteInObject p k ts false =
      if (d.timeOf c).cmp ts = .lt then
        .ok ((d.set { pn with kind := .obj m (if d.isTomb c then size else size - 1) }).makeTomb c ts, some c)
      else .ok (d, none) := by
  unfold Doc.deleteInObject
  simp only [findObj_some_iff.mpr ⟨hp, hk⟩, hf, Bool.false_eq_true, if_false]
  by_cases hlt : (d.timeOf c).cmp ts = .lt
  · simp [hlt]
  · have : ((d.timeOf c).cmp ts == .lt) = false := by
      cases hc : (d.timeOf c).cmp ts <;> simp_all
    simp [hlt, this]

/-- a remote delete of an absent key is refused (causality: deletes follow a put of the key) -/
theorem del_absent {d : Doc} {p : Ts} {pn : DNode} {m : List (String × Ts)} {size : Int} {k : String}
    (hp : d.find p = some pn) (hk : pn.kind = .obj m size) (hf : alFind k m = none) (ts : Ts) :
    d.deleteInObject p k ts false = .err Err.noTarget := by
  unfold Doc.deleteInObject
  simp [findObj_some_iff.mpr ⟨hp, hk⟩, hf]

/-- A (delete): a remote delete that returns `.ok` preserves well-formedness -/
theorem wf_del {d : Doc} (h : d.WF) {p : Ts} {k : String} {ts : Ts} {d' : Doc} {r : Option Ts}
    (hr : d.deleteInObject p k ts false = .ok (d', r)) : d'.WF := by
  cases hfo : d.findObj p with
  | none => unfold Doc.deleteInObject at hr; simp [hfo] at hr
  | some x =>
    obtain ⟨pn, m, size⟩ := x
    obtain ⟨hp, hk⟩ := findObj_some_iff.mp hfo
    cases hf : alFind k m with
    | none => rw [del_absent hp hk hf] at hr; cases hr
    | some c =>
      rw [del_eq hp hk hf] at hr
      split at hr
      · simp only [Outcome.ok.injEq, Prod.mk.injEq] at hr
        rw [← hr.1]
        apply wf_makeTomb
        apply wf_setKind h hp
        · intro c hc
          have := h.child p pn hp c; rw [hk] at this; exact this hc
        · have := h.inj p pn hp; rw [hk] at this; exact this
      · simp only [Outcome.ok.injEq, Prod.mk.injEq] at hr
        rw [← hr.1]; exact h


/-! ### the observable content of a document

`abs d` forgets what differs between replicas that applied the same operations in different orders and
that no later operation or view can see: the order of keys inside an object, which tombstone occupies a
deleted key, the deletion timestamp of a container nobody references any more, and tombstoned elements. -/

/-- the state of a child reference: tombstone flag, LWW time, the live occupant -/
structure KeySt where
  tomb : Bool
  time : Ts
  occ : Option Ts
deriving DecidableEq, Repr

def refSt (d : Doc) (c : Ts) : KeySt := ⟨d.isTomb c, d.timeOf c, if d.isTomb c then none else some c⟩

inductive Shape where
  | elem (v : JVal)
  | obj
  | arr (sl : List (Ts × Ts × KeySt))

def Shape.isElem : Option (Option Ts × Shape) → Bool
  | some (_, .elem _) => true
  | _ => false
def Shape.isCont : Option (Option Ts × Shape) → Bool
  | some (_, .elem _) => false
  | some _ => true
  | none => false

@[ext] structure Abs where
  /-- parent and skeleton of every container and of every LIVE element -/
  shape : Ts → Option (Option Ts × Shape)
  /-- tombstone flag of a container -/
  dead : Ts → Bool
  /-- per object and key: the state of the occupant -/
  key : Ts → String → Option KeySt
  size : Ts → Int

def shapeOf (d : Doc) (c : Ts) : Option (Option Ts × Shape) :=
  match d.find c with
  | none => none
  | some n => match n.kind with
    | .elem v => if n.d.isSome then none else some (n.parent, .elem v)
    | .obj _ _ => some (n.parent, .obj)
    | .arr sl _ => some (n.parent, .arr (sl.map fun x => (x.1, x.2, refSt d x.2)))

def deadOf (d : Doc) (c : Ts) : Bool :=
  match d.find c with
  | none => false
  | some n => match n.kind with
    | .elem _ => false
    | _ => n.d.isSome

def keyOf' (d : Doc) (c : Ts) (k : String) : Option KeySt :=
  match d.find c with
  | none => none
  | some n => match n.kind with
    | .obj m _ => (alFind k m).map (refSt d)
    | _ => none

def sizeOf' (d : Doc) (c : Ts) : Int :=
  match d.find c with
  | none => 0
  | some n => match n.kind with
    | .elem _ => 0
    | .obj _ s => s
    | .arr _ s => s

def abs (d : Doc) : Abs := ⟨shapeOf d, deadOf d, keyOf' d, sizeOf' d⟩

/-- observational equivalence of documents -/
def Sim (a b : Doc) : Prop := abs a = abs b

theorem sim_refl (a : Doc) : Sim a a := rfl
theorem sim_symm {a b : Doc} (h : Sim a b) : Sim b a := Eq.symm h
theorem sim_trans {a b c : Doc} (h1 : Sim a b) (h2 : Sim b c) : Sim a c := Eq.trans h1 h2
theorem sim_equivalence : Equivalence Sim := ⟨sim_refl, sim_symm, sim_trans⟩

theorem refSt_of_find {a b : Doc} {c : Ts} (h : a.find c = b.find c) : refSt a c = refSt b c := by
  unfold refSt; rw [isTomb_of_find h, timeOf_of_find h]

/-- the abstraction at `c` depends on the node `c` and on the states of its children only -/
theorem abs_local {a b : Doc} {c : Ts} (h : a.find c = b.find c)
    (hk : ∀ n, a.find c = some n → ∀ ch ∈ kids n.kind, refSt a ch = refSt b ch) :
    shapeOf a c = shapeOf b c ∧ deadOf a c = deadOf b c ∧ (∀ k, keyOf' a c k = keyOf' b c k) ∧
      sizeOf' a c = sizeOf' b c := by
  unfold shapeOf deadOf keyOf' sizeOf'
  rw [← h]
  cases hf : a.find c with
  | none => simp
  | some n =>
    have hk' := hk n hf
    obtain ⟨nc, nd, np, nk⟩ := n
    cases nk with
    | elem v => simp
    | obj m s =>
      simp only [true_and, and_true]
      intro k
      cases hal : alFind k m with
      | none => rfl
      | some ch =>
        simp only [Option.map_some, Option.some.injEq]
        apply hk'
        exact alFind_mem_vals hal
    | arr sl s =>
      simp only [and_true, Option.some.injEq, Prod.mk.injEq, true_and, Shape.arr.injEq, implies_true]
      apply List.map_congr_left
      intro x hx
      have : refSt a x.2 = refSt b x.2 := by
        apply hk'
        exact List.mem_map.mpr ⟨x, hx, rfl⟩
      rw [this]

/-- `DocEq` documents are observationally equivalent -/
theorem sim_of_docEq {a b : Doc} (h : DocEq a b) : Sim a b := by
  unfold Sim abs
  have := fun c => abs_local (a := a) (b := b) (c := c) (h c) (fun _ _ ch _ => refSt_of_find (h ch))
  congr 1
  · funext c; exact (this c).1
  · funext c; exact (this c).2.1
  · funext c k; exact (this c).2.2.1 k
  · funext c; exact (this c).2.2.2

/-! ### abstract operations -/

def emptyAbs : Abs := ⟨fun _ => none, fun _ => false, fun _ _ => none, fun _ => 0⟩

/-- add new nodes -/
def union (A N : Abs) : Abs :=
  ⟨fun c => (A.shape c).or (N.shape c), fun c => A.dead c || N.dead c,
   fun c k => (A.key c k).or (N.key c k), fun c => A.size c + N.size c⟩

/-- outside `S` the abstraction `N` is empty -/
def Supp (N : Abs) (S : Ts → Prop) : Prop :=
  ∀ c, ¬ S c → N.shape c = none ∧ N.dead c = false ∧ (∀ k, N.key c k = none) ∧ N.size c = 0

/-- funeral / tombstoning of `x`: a live element disappears, a container becomes a tombstone -/
def kill (A : Abs) : Option Ts → Abs
  | none => A
  | some x =>
    { A with
      shape := fun y => if y = x ∧ Shape.isElem (A.shape x) then none else A.shape y
      dead := fun y => if y = x then A.dead x || Shape.isCont (A.shape x) else A.dead y }

def setKey (A : Abs) (p : Ts) (k : String) (st : Option KeySt) (dsize : Int) : Abs :=
  { A with
    key := fun c k' => if c = p ∧ k' = k then st else A.key c k'
    size := fun c => if c = p then A.size c + dsize else A.size c }

/-- effect of one operation on a key: new state, change of the object's size, node to bury -/
structure Step where
  st : Option KeySt
  dsize : Int
  bury : Option Ts

def putStep (ts : Ts) : Option KeySt → Step
  | none => ⟨some ⟨false, ts, some ts⟩, 1, none⟩
  | some s =>
    if s.time.cmp ts = .lt then ⟨some ⟨false, ts, some ts⟩, if s.tomb then 1 else 0, s.occ⟩
    else ⟨some s, 0, some ts⟩

def delStep (ts : Ts) : Option KeySt → Step
  | none => ⟨none, 0, none⟩
  | some s =>
    if s.time.cmp ts = .lt then ⟨some ⟨true, ts, none⟩, if s.tomb then 0 else -1, s.occ⟩
    else ⟨some s, 0, none⟩

def applyStep (A : Abs) (p : Ts) (k : String) (f : Option KeySt → Step) : Abs :=
  kill (setKey A p k (f (A.key p k)).st (f (A.key p k)).dsize) (f (A.key p k)).bury

/-- abstract operation: add the nodes `N`, then one LWW step on key `k` of `p` -/
def aop (A N : Abs) (p : Ts) (k : String) (f : Option KeySt → Step) : Abs :=
  applyStep (union A N) p k f

theorem Abs.ext' {A B : Abs} (h1 : ∀ c, A.shape c = B.shape c) (h2 : ∀ c, A.dead c = B.dead c)
    (h3 : ∀ c k, A.key c k = B.key c k) (h4 : ∀ c, A.size c = B.size c) : A = B := by
  cases A; cases B
  simp only [Abs.mk.injEq]
  exact ⟨funext h1, funext h2, funext fun c => funext (h3 c), funext h4⟩

theorem union_empty (A : Abs) : union A emptyAbs = A := by
  ext <;> simp [union, emptyAbs]

theorem setKey_same (A : Abs) (p : Ts) (k : String) : setKey A p k (A.key p k) 0 = A := by
  ext c
  · rfl
  · rfl
  · rename_i k' ; simp only [setKey]; split
    · rename_i h; rw [h.1, h.2]
    · rfl
  · simp only [setKey]; split <;> simp


/-! ### the concrete steps in terms of the abstraction -/

theorem abs_none {d : Doc} {c : Ts} (h : d.find c = none) :
    shapeOf d c = none ∧ deadOf d c = false ∧ (∀ k, keyOf' d c k = none) ∧ sizeOf' d c = 0 := by
  unfold shapeOf deadOf keyOf' sizeOf'
  simp [h]

theorem find_mk {ns : List DNode} (hnd : (ids ns).Nodup) (c : Ts) : (Doc.mk ns).find c = nfind ns c := by
  cases h : nfind ns c with
  | none =>
    rw [find_none_iff]; exact nfind_none_iff.mp h
  | some n =>
    obtain ⟨hn, hc⟩ := nfind_some h
    cases h' : (Doc.mk ns).find c with
    | none =>
      exact absurd (List.mem_map.mpr ⟨n, hn, hc⟩) (find_none_iff.mp h')
    | some n' =>
      have h1 := find_some_c h'
      have h2 : n' ∈ ns := find_some_mem h'
      have : n' = n := List.inj_on_of_nodup_map hnd h2 hn (by rw [h1, hc])
      rw [this]

theorem supp_abs_mk (ns : List DNode) : Supp (abs ⟨ns⟩) (fun c => c ∈ ids ns) := by
  intro c hc
  exact abs_none (find_none_iff.mpr hc)

theorem abs_addAll {d : Doc} {ts ts' : Ts} {ns : List DNode} (h : d.WF) (hb : Block ts ns ts') (hf : Fresh d ns) :
    abs (d.addAll ns) = union (abs d) (abs ⟨ns⟩) := by
  have hnd := block_ids_nodup hb
  have key : ∀ c, (c ∈ ids ns ∧ d.find c = none ∧
        (shapeOf (d.addAll ns) c = shapeOf ⟨ns⟩ c ∧ deadOf (d.addAll ns) c = deadOf ⟨ns⟩ c ∧
          (∀ k, keyOf' (d.addAll ns) c k = keyOf' ⟨ns⟩ c k) ∧ sizeOf' (d.addAll ns) c = sizeOf' ⟨ns⟩ c)) ∨
      (c ∉ ids ns ∧ (shapeOf (d.addAll ns) c = shapeOf d c ∧ deadOf (d.addAll ns) c = deadOf d c ∧
          (∀ k, keyOf' (d.addAll ns) c k = keyOf' d c k) ∧ sizeOf' (d.addAll ns) c = sizeOf' d c)) := by
    intro c
    by_cases hc : c ∈ ids ns
    · left
      refine ⟨hc, hf c hc, ?_⟩
      have e : (d.addAll ns).find c = (Doc.mk ns).find c := by
        rw [find_mk hnd, find_addAll, hf c hc]; simp
      apply abs_local e
      intro n hn ch hch
      rcases find_addAll_cases hn with ⟨hmem, _⟩ | ⟨hnot, _⟩
      · obtain ⟨nc, hnc, h1, _, _⟩ := hb.links n hmem ch hch
        apply refSt_of_find
        rw [find_mk hnd, ← h1, find_addAll_new hnd hnc, nfind_of_mem hnd hnc]
      · exact absurd hc hnot
    · right
      refine ⟨hc, ?_⟩
      have e : (d.addAll ns).find c = d.find c := by
        rw [find_addAll, nfind_none_iff.mpr hc]; rfl
      apply abs_local e
      intro n hn ch hch
      rw [e] at hn
      obtain ⟨nc, h1, _⟩ := h.child c n hn ch hch
      apply refSt_of_find
      rw [find_addAll_old hf h1, h1]
  unfold abs union
  congr 1
  · funext c
    rcases key c with ⟨hc, hd, h1, _⟩ | ⟨hc, h1, _⟩
    · simp only [h1, (abs_none hd).1, Option.none_or]
    · simp only [h1, (abs_none (find_none_iff.mpr hc)).1, Option.or_none]
  · funext c
    rcases key c with ⟨hc, hd, _, h1, _⟩ | ⟨hc, _, h1, _⟩
    · simp only [h1, (abs_none hd).2.1, Bool.false_or]
    · simp only [h1, (abs_none (find_none_iff.mpr hc)).2.1, Bool.or_false]
  · funext c k
    rcases key c with ⟨hc, hd, _, _, h1, _⟩ | ⟨hc, _, _, h1, _⟩
    · simp only [h1, (abs_none hd).2.2.1, Option.none_or]
    · simp only [h1, (abs_none (find_none_iff.mpr hc)).2.2.1, Option.or_none]
  · funext c
    rcases key c with ⟨hc, hd, _, _, _, h1⟩ | ⟨hc, _, _, _, h1⟩
    · simp only [h1, (abs_none hd).2.2.2, Int.zero_add]
    · simp only [h1, (abs_none (find_none_iff.mpr hc)).2.2.2, Int.add_zero]

/-- overwriting a node without touching `c`, `d` leaves every reference state alone -/
theorem refSt_set_hdr {d : Doc} {p : Ts} {pn pn' : DNode} (hp : d.find p = some pn) (hc : pn'.c = pn.c)
    (hd : pn'.d = pn.d) (ch : Ts) : refSt (d.set pn') ch = refSt d ch := by
  have hpc := find_some_c hp
  unfold refSt Doc.isTomb Doc.timeOf
  rw [find_set]
  by_cases e : pn'.c = ch
  · have : d.find ch = some pn := by rw [← e, hc, hpc]; exact hp
    have e2 : pn.c = ch := by rw [← hc]; exact e
    simp only [e, if_true, this, hd, e2]
  · simp only [e, if_false]

theorem abs_setKind {d : Doc} {p : Ts} {pn : DNode} {m m' : List (String × Ts)} {s s' : Int}
    (hp : d.find p = some pn) (hk : pn.kind = .obj m s) :
    abs (d.set { pn with kind := .obj m' s' }) =
      { abs d with
        key := fun c k' => if c = p then (alFind k' m').map (refSt d) else (abs d).key c k'
        size := fun c => if c = p then s' else (abs d).size c } := by
  have hpc := find_some_c hp
  have hr : ∀ ch, refSt (d.set { pn with kind := .obj m' s' }) ch = refSt d ch :=
    refSt_set_hdr hp rfl rfl
  have key : ∀ c, c ≠ p → shapeOf (d.set { pn with kind := .obj m' s' }) c = shapeOf d c ∧
      deadOf (d.set { pn with kind := .obj m' s' }) c = deadOf d c ∧
      (∀ k, keyOf' (d.set { pn with kind := .obj m' s' }) c k = keyOf' d c k) ∧
      sizeOf' (d.set { pn with kind := .obj m' s' }) c = sizeOf' d c := by
    intro c hc
    apply abs_local
    · rw [find_set]
      have : ¬ pn.c = c := by rw [hpc]; exact fun e => hc e.symm
      simp [this]
    · intro n _ ch _; exact hr ch
  have hfp : (d.set { pn with kind := .obj m' s' }).find p = some { pn with kind := .obj m' s' } := by
    rw [find_set]; simp [hpc]
  unfold abs
  congr 1
  · funext c
    by_cases hc : c = p
    · subst hc
      simp only [shapeOf, hfp, hp, hk]
    · exact (key c hc).1
  · funext c
    by_cases hc : c = p
    · subst hc
      simp only [deadOf, hfp, hp, hk]
    · exact (key c hc).2.1
  · funext c k
    by_cases hc : c = p
    · subst hc
      simp only [keyOf', hfp, if_true]
      cases alFind k m' with
      | none => rfl
      | some ch => simp [hr ch]
    · simp only [hc, if_false]; exact (key c hc).2.2.1 k
  · funext c
    by_cases hc : c = p
    · subst hc
      simp only [sizeOf', hfp, if_true]
    · simp only [hc, if_false]; exact (key c hc).2.2.2

/-- a funeral of a node nobody references -/
theorem abs_funeral {d : Doc} (x t : Ts) (hx : ∀ q n, d.find q = some n → x ∉ kids n.kind) :
    abs (d.funeral x t) = kill (abs d) (some x) := by
  have hr : ∀ ch, ch ≠ x → refSt (d.funeral x t) ch = refSt d ch := by
    intro ch hch
    apply refSt_of_find
    rw [find_funeral]; simp [hch]
  have key : ∀ c, c ≠ x → shapeOf (d.funeral x t) c = shapeOf d c ∧
      deadOf (d.funeral x t) c = deadOf d c ∧
      (∀ k, keyOf' (d.funeral x t) c k = keyOf' d c k) ∧
      sizeOf' (d.funeral x t) c = sizeOf' d c := by
    intro c hc
    have e : (d.funeral x t).find c = d.find c := by rw [find_funeral]; simp [hc]
    apply abs_local e
    intro n hn ch hch
    rw [e] at hn
    exact hr ch (fun e' => hx c n hn (e' ▸ hch))
  have hfx : (d.funeral x t).find x = fun1 t (d.find x) := by rw [find_funeral]; simp
  unfold abs kill
  simp only
  congr 1
  · funext c
    by_cases hc : c = x
    · subst hc
      simp only [true_and, shapeOf, hfx]
      cases hf : d.find c with
      | none => simp [fun1, Shape.isElem]
      | some n =>
        obtain ⟨nc, nd, np, nk⟩ := n
        cases nk with
        | elem v => cases nd <;> simp [fun1, Shape.isElem]
        | obj m s => simp [fun1, Shape.isElem]
        | arr sl s =>
          simp only [fun1, Shape.isElem, Bool.false_eq_true, if_false, Option.some.injEq, Prod.mk.injEq,
            Shape.arr.injEq, true_and]
          apply List.map_congr_left
          intro y hy
          rw [hr y.2]
          intro e'
          exact hx c _ hf (e' ▸ List.mem_map.mpr ⟨y, hy, rfl⟩)
    · simp only [hc, false_and, if_false]; exact (key c hc).1
  · funext c
    by_cases hc : c = x
    · subst hc
      simp only [if_true, deadOf, shapeOf, hfx]
      cases hf : d.find c with
      | none => simp [fun1, Shape.isCont]
      | some n =>
        obtain ⟨nc, nd, np, nk⟩ := n
        cases nk with
        | elem v => cases nd <;> simp [fun1, Shape.isCont]
        | obj m s => simp [fun1, Shape.isCont]
        | arr sl s => simp [fun1, Shape.isCont]
    · simp only [hc, if_false]; exact (key c hc).2.1
  · funext c k
    by_cases hc : c = x
    · subst hc
      simp only [keyOf', hfx]
      cases hf : d.find c with
      | none => simp [fun1]
      | some n =>
        obtain ⟨nc, nd, np, nk⟩ := n
        cases nk with
        | elem v => simp [fun1]
        | obj m s =>
          simp only [fun1]
          cases hal : alFind k m with
          | none => rfl
          | some ch =>
            simp only [Option.map_some, Option.some.injEq]
            apply hr
            intro e'
            exact hx c _ hf (e' ▸ alFind_mem_vals hal)
        | arr sl s => simp [fun1]
    · exact (key c hc).2.2.1 k
  · funext c
    by_cases hc : c = x
    · subst hc
      simp only [sizeOf', hfx]
      cases hf : d.find c with
      | none => simp [fun1]
      | some n =>
        obtain ⟨nc, nd, np, nk⟩ := n
        cases nk <;> simp [fun1]
    · exact (key c hc).2.2.2

/-- burying a tombstone changes nothing observable -/
theorem kill_tomb {d : Doc} {x : Ts} (h : d.isTomb x = true) : kill (abs d) (some x) = abs d := by
  unfold Doc.isTomb at h
  cases hf : d.find x with
  | none => rw [hf] at h; cases h
  | some n =>
    rw [hf] at h
    simp only at h
    obtain ⟨nc, nd, np, nk⟩ := n
    simp only at h
    cases nd with
    | none => cases h
    | some dd =>
    unfold kill abs
    simp only
    congr 1
    · funext c
      by_cases hc : c = x
      · subst hc
        cases nk <;> simp [shapeOf, hf, Shape.isElem]
      · simp [hc]
    · funext c
      by_cases hc : c = x
      · subst hc
        cases nk <;> simp [shapeOf, deadOf, hf, Shape.isCont]
      · simp [hc]


/-- tombstoning the occupant `x` of key `k` of the object `p` (the only reference to `x`) -/
theorem abs_makeTomb {d : Doc} {p x : Ts} {pn : DNode} {m : List (String × Ts)} {s : Int} {k : String} (t : Ts)
    (hp : d.find p = some pn) (hk : pn.kind = .obj m s) (hf : alFind k m = some x)
    (hex : ∃ nx, d.find x = some nx)
    (huniq : ∀ q n, d.find q = some n → x ∈ kids n.kind → q = p)
    (hkuniq : ∀ k', alFind k' m = some x → k' = k) :
    abs (d.makeTomb x t) = kill (setKey (abs d) p k (some ⟨true, t, none⟩) 0) (some x) := by
  obtain ⟨nx, hnx⟩ := hex
  have hnxc := find_some_c hnx
  have hfx : (d.makeTomb x t).find x = some { nx with d := some t } := by
    rw [find_makeTomb]; simp [hnx]
  have hfo : ∀ c, c ≠ x → (d.makeTomb x t).find c = d.find c := by
    intro c hc; rw [find_makeTomb]; simp [hc]
  have hr : ∀ ch, ch ≠ x → refSt (d.makeTomb x t) ch = refSt d ch :=
    fun ch hch => refSt_of_find (hfo ch hch)
  have hrx : refSt (d.makeTomb x t) x = ⟨true, t, none⟩ := by
    unfold refSt Doc.isTomb Doc.timeOf
    simp [hfx]
  -- an array never references x
  have harr : ∀ q n sl sz, d.find q = some n → n.kind = .arr sl sz → ∀ y ∈ sl, y.2 ≠ x := by
    intro q n sl sz hq hkind y hy e
    have : x ∈ kids n.kind := by rw [hkind]; exact e ▸ List.mem_map.mpr ⟨y, hy, rfl⟩
    have := huniq q n hq this
    subst this
    rw [hp] at hq
    simp only [Option.some.injEq] at hq
    subst hq
    rw [hk] at hkind; cases hkind
  have hkey : ∀ c n mc sc k', d.find c = some n → n.kind = .obj mc sc →
      (alFind k' mc).map (refSt (d.makeTomb x t)) =
        if c = p ∧ k' = k then some ⟨true, t, none⟩ else (alFind k' mc).map (refSt d) := by
    intro c n mc sc k' hc hkind
    cases hal : alFind k' mc with
    | none =>
      have : ¬ (c = p ∧ k' = k) := by
        rintro ⟨rfl, rfl⟩
        rw [hp] at hc; simp only [Option.some.injEq] at hc; subst hc
        rw [hk] at hkind; simp only [DKind.obj.injEq] at hkind
        rw [← hkind.1, hf] at hal; cases hal
      simp [this]
    | some ch =>
      by_cases hch : ch = x
      · subst hch
        have hcp : c = p := huniq c n hc (by rw [hkind]; exact alFind_mem_vals hal)
        subst hcp
        rw [hp] at hc; simp only [Option.some.injEq] at hc; subst hc
        rw [hk] at hkind; simp only [DKind.obj.injEq] at hkind
        have : k' = k := hkuniq k' (by rw [hkind.1]; exact hal)
        simp [this, hrx]
      · have : ¬ (c = p ∧ k' = k) := by
          rintro ⟨rfl, rfl⟩
          rw [hp] at hc; simp only [Option.some.injEq] at hc; subst hc
          rw [hk] at hkind; simp only [DKind.obj.injEq] at hkind
          rw [← hkind.1, hf] at hal
          simp only [Option.some.injEq] at hal
          exact hch hal.symm
        simp [this, hr ch hch]
  unfold abs kill setKey
  simp only
  congr 1
  · funext c
    by_cases hc : c = x
    · subst hc
      simp only [true_and, shapeOf, hfx, hnx]
      obtain ⟨nc, nd, np, nk⟩ := nx
      cases nk with
      | elem v => cases nd <;> simp [Shape.isElem]
      | obj m s => simp [Shape.isElem]
      | arr sl sz =>
        simp only [Shape.isElem, Bool.false_eq_true, if_false, Option.some.injEq, Prod.mk.injEq,
          Shape.arr.injEq, true_and]
        apply List.map_congr_left
        intro y hy
        rw [hr y.2 (harr c _ sl sz hnx rfl y hy)]
    · simp only [hc, false_and, if_false, shapeOf, hfo c hc]
      cases hfc : d.find c with
      | none => rfl
      | some n =>
        obtain ⟨nc, nd, np, nk⟩ := n
        cases nk with
        | elem v => rfl
        | obj m s => rfl
        | arr sl sz =>
          simp only [Option.some.injEq, Prod.mk.injEq, Shape.arr.injEq, true_and]
          apply List.map_congr_left
          intro y hy
          rw [hr y.2 (harr c _ sl sz hfc rfl y hy)]
  · funext c
    by_cases hc : c = x
    · subst hc
      simp only [if_true, deadOf, shapeOf, hfx, hnx]
      obtain ⟨nc, nd, np, nk⟩ := nx
      cases nk with
      | elem v => cases nd <;> simp [Shape.isCont]
      | obj m s => simp [Shape.isCont]
      | arr sl sz => simp [Shape.isCont]
    · simp only [hc, if_false, deadOf, hfo c hc]
  · funext c k'
    by_cases hc : c = x
    · subst hc
      simp only [keyOf', hfx, hnx]
      obtain ⟨nc, nd, np, nk⟩ := nx
      cases nk with
      | elem v =>
        have : ¬ (c = p ∧ k' = k) := by
          rintro ⟨rfl, rfl⟩
          rw [hp] at hnx; simp only [Option.some.injEq] at hnx; subst hnx
          cases hk
        simp [this]
      | obj mc sc => exact hkey c _ mc sc k' hnx rfl
      | arr sl sz =>
        have : ¬ (c = p ∧ k' = k) := by
          rintro ⟨rfl, rfl⟩
          rw [hp] at hnx; simp only [Option.some.injEq] at hnx; subst hnx
          cases hk
        simp [this]
    · simp only [keyOf', hfo c hc]
      cases hfc : d.find c with
      | none =>
        have : ¬ (c = p ∧ k' = k) := by
          rintro ⟨rfl, rfl⟩
          rw [hp] at hfc; cases hfc
        simp [this]
      | some n =>
        obtain ⟨nc, nd, np, nk⟩ := n
        cases nk with
        | elem v =>
          have : ¬ (c = p ∧ k' = k) := by
            rintro ⟨rfl, rfl⟩
            rw [hp] at hfc; simp only [Option.some.injEq] at hfc; subst hfc
            cases hk
          simp [this]
        | obj mc sc => exact hkey c _ mc sc k' hfc rfl
        | arr sl sz =>
          have : ¬ (c = p ∧ k' = k) := by
            rintro ⟨rfl, rfl⟩
            rw [hp] at hfc; simp only [Option.some.injEq] at hfc; subst hfc
            cases hk
          simp [this]
  · funext c
    have : sizeOf' (d.makeTomb x t) c = sizeOf' d c := by
      by_cases hc : c = x
      · subst hc
        simp only [sizeOf', hfx, hnx]
      · simp only [sizeOf', hfo c hc]
    rw [this]
    split <;> simp


theorem kill_noop {A : Abs} {x : Ts} (h1 : Shape.isElem (A.shape x) = false)
    (h2 : A.dead x = true ∨ Shape.isCont (A.shape x) = false) : kill A (some x) = A := by
  unfold kill
  ext c
  · simp [h1]
  · simp only
    by_cases hc : c = x
    · subst hc
      rcases h2 with h2 | h2 <;> simp [h2]
    · simp [hc]
  · rfl
  · rfl

theorem tomb_shape {d : Doc} {x : Ts} (h : d.isTomb x = true) :
    Shape.isElem (shapeOf d x) = false ∧ (deadOf d x = true ∨ Shape.isCont (shapeOf d x) = false) := by
  unfold Doc.isTomb at h
  cases hf : d.find x with
  | none => rw [hf] at h; cases h
  | some n =>
    rw [hf] at h
    obtain ⟨nc, nd, np, nk⟩ := n
    simp only at h
    cases nd with
    | none => cases h
    | some dd => cases nk <;> simp [shapeOf, deadOf, hf, Shape.isElem, Shape.isCont]

theorem alFind_inj_of_vals_nodup {m : List (String × Ts)} (hnd : (m.map (·.2)).Nodup) {k k' : String} {c : Ts}
    (h1 : alFind k m = some c) (h2 : alFind k' m = some c) : k = k' := by
  induction m with
  | nil => simp [alFind] at h1
  | cons x r ih =>
    obtain ⟨k0, c0⟩ := x
    simp only [List.map_cons, List.nodup_cons] at hnd
    simp only [alFind] at h1 h2
    by_cases e1 : k0 = k <;> by_cases e2 : k0 = k'
    · rw [← e1, ← e2]
    · simp only [e1, if_true, Option.some.injEq] at h1
      simp only [e2, if_false] at h2
      subst h1
      exact absurd (alFind_mem_vals h2) hnd.1
    · simp only [e2, if_true, Option.some.injEq] at h2
      simp only [e1, if_false] at h1
      subst h2
      exact absurd (alFind_mem_vals h1) hnd.1
    · simp only [e1, if_false] at h1
      simp only [e2, if_false] at h2
      exact ih hnd.2 h1 h2

section putsim
variable {d : Doc} {p : Ts} {v : JVal} {ts : Ts} {pn : DNode} {m : List (String × Ts)} {size : Int}
  {ns : List DNode} {ts' : Ts}

theorem PutPre.wf1 (h : PutPre d p v ts pn m size ns ts') : (d.addAll ns).WF :=
  wf_addAll h.wf h.block h.fresh

theorem PutPre.hp1 (h : PutPre d p v ts pn m size ns ts') : (d.addAll ns).find p = some pn :=
  find_addAll_old h.fresh h.hp

theorem PutPre.ts_notin (h : PutPre d p v ts pn m size ns ts') : ts ∉ m.map (·.2) := by
  have := h.root_unlinked p pn h.hp1; rw [h.hk] at this; exact this

theorem PutPre.vals_nodup (h : PutPre d p v ts pn m size ns ts') : (m.map (·.2)).Nodup := by
  have := h.wf.inj p pn h.hp; rw [h.hk] at this; exact this

/-- after relinking key `k` to the new node, nothing references the old occupant -/
theorem PutPre.old_unlinked (h : PutPre d p v ts pn m size ns ts') {k : String} {oldC : Ts}
    (hk : alFind k m = some oldC) (s' : Int) :
    ∀ q n, ((d.addAll ns).set { pn with kind := .obj (alSet k ts m) s' }).find q = some n → oldC ∉ kids n.kind := by
  obtain ⟨_, i2, _⟩ := alSet_vals_some (e := ts) h.vals_nodup hk h.ts_notin
  intro q n hq hmem
  rw [find_set] at hq
  have hpc := find_some_c h.hp
  by_cases e : pn.c = q
  · simp only [e, if_true, Option.some.injEq] at hq
    subst hq
    exact i2 hmem
  · simp only [e, if_false] at hq
    have hold : oldC ∈ kids pn.kind := by rw [h.hk]; exact alFind_mem_vals hk
    have := wf_unique_parent h.wf1 h.hp1 hq hold hmem
    rw [hpc] at e; exact e this

theorem PutPre.refSt_root (h : PutPre d p v ts pn m size ns ts') : refSt (d.addAll ns) ts = ⟨false, ts, some ts⟩ := by
  obtain ⟨n0, hn0, _, hmem⟩ := h.root_find
  have hl := h.block.live n0 hmem
  have hc := find_some_c hn0
  unfold refSt Doc.isTomb Doc.timeOf
  simp [hn0, hl, hc]

/-- relinking key `k` of `p` to the new root, abstractly -/
theorem PutPre.abs_relink (h : PutPre d p v ts pn m size ns ts') (k : String) (s' : Int) :
    abs ((d.addAll ns).set { pn with kind := .obj (alSet k ts m) s' }) =
      setKey (abs (d.addAll ns)) p k (some ⟨false, ts, some ts⟩) (s' - size) := by
  rw [abs_setKind h.hp1 h.hk]
  unfold setKey
  apply Abs.ext'
  · intro c; rfl
  · intro c; rfl
  · intro c k'
    simp only [alFind_alSet]
    by_cases hc : c = p
    · subst hc
      by_cases hk' : k = k'
      · subst hk'; simp [h.refSt_root]
      · have : ¬ k' = k := fun e => hk' e.symm
        simp [hk', this, abs, keyOf', h.hp1, h.hk]
    · simp [hc]
  · intro c
    simp only
    by_cases hc : c = p
    · subst hc
      simp only [if_true, abs, sizeOf', h.hp1, h.hk]
      omega
    · simp [hc]

theorem PutPre.key1 (h : PutPre d p v ts pn m size ns ts') (k : String) :
    (abs (d.addAll ns)).key p k = (alFind k m).map (refSt d) := by
  simp only [abs, keyOf', h.hp1, h.hk]
  cases hk : alFind k m with
  | none => rfl
  | some oldC =>
    simp only [Option.map_some, Option.some.injEq]
    exact refSt_of_find (h.old_addAll hk)

/-- the concrete put is the abstract one -/
theorem sim_put (h : PutPre d p v ts pn m size ns ts') {k : String} {d' : Doc} {r : Option Ts}
    (hr : d.putInObject p k v ts = .ok (d', r)) :
    abs d' = aop (abs d) (abs ⟨ns⟩) p k (putStep ts) := by
  unfold aop applyStep
  rw [← abs_addAll h.wf h.block h.fresh, h.key1 k]
  cases hk : alFind k m with
  | none =>
    rw [put_new h hk] at hr
    simp only [Outcome.ok.injEq, Prod.mk.injEq] at hr
    rw [← hr.1, h.abs_relink]
    simp only [Option.map_none, putStep, kill]
    congr 1; omega
  | some oldC =>
    simp only [Option.map_some]
    by_cases hlt : (d.timeOf oldC).cmp ts = .lt
    · rw [put_win h hk hlt] at hr
      simp only [Outcome.ok.injEq, Prod.mk.injEq] at hr
      rw [← hr.1]
      have hrt : (refSt d oldC).time.cmp ts = .lt := hlt
      simp only [putStep, hrt, if_true]
      rw [abs_funeral _ _ (h.old_unlinked hk _)]
      by_cases htomb : d.isTomb oldC = true
      · have htomb' : ((d.addAll ns).set { pn with kind := .obj (alSet k ts m) (if d.isTomb oldC = true then size + 1 else size) }).isTomb oldC = true := by
          have e1 := refSt_set_hdr (d := d.addAll ns) (pn' := { pn with kind := .obj (alSet k ts m) (if d.isTomb oldC = true then size + 1 else size) }) h.hp1 rfl rfl oldC
          have e2 := refSt_of_find (h.old_addAll hk)
          have := congrArg KeySt.tomb (e1.trans e2)
          simpa [refSt] using this.trans htomb
        have ho : (refSt d oldC).occ = none := by simp [refSt, htomb]
        have ht : (refSt d oldC).tomb = true := htomb
        rw [kill_tomb htomb', h.abs_relink, ho, ht]
        simp only [htomb, if_true, kill]
        congr 1; omega
      · have htomb2 : d.isTomb oldC = false := by simpa using htomb
        have ho : (refSt d oldC).occ = some oldC := by simp [refSt, htomb2]
        have ht : (refSt d oldC).tomb = false := htomb2
        rw [h.abs_relink, ho, ht]
        simp only [htomb2, Bool.false_eq_true, if_false]
        congr 2; omega
    · rw [put_lose h hk hlt] at hr
      simp only [Outcome.ok.injEq, Prod.mk.injEq] at hr
      rw [← hr.1]
      have hrt : ¬ (refSt d oldC).time.cmp ts = .lt := hlt
      simp only [putStep, hrt, if_false]
      rw [abs_funeral _ _ h.root_unlinked]
      congr 1
      have := setKey_same (abs (d.addAll ns)) p k
      rw [h.key1 k, hk] at this
      exact this.symm

end putsim


/-- everything a remote delete needs: a well-formed document, an object parent, the key present -/
structure DelPre (d : Doc) (p : Ts) (k : String) (pn : DNode) (m : List (String × Ts)) (size : Int) (c : Ts) : Prop where
  wf : d.WF
  hp : d.find p = some pn
  hk : pn.kind = .obj m size
  hf : alFind k m = some c

section delsim
variable {d : Doc} {p : Ts} {k : String} {pn : DNode} {m : List (String × Ts)} {size : Int} {c : Ts}

theorem del_ok (h : DelPre d p k pn m size c) (ts : Ts) : ∃ d' r, d.deleteInObject p k ts false = .ok (d', r) := by
  rw [del_eq h.hp h.hk h.hf]
  split
  · exact ⟨_, _, rfl⟩
  · exact ⟨_, _, rfl⟩

theorem DelPre.key (h : DelPre d p k pn m size c) : (abs d).key p k = some (refSt d c) := by
  simp [abs, keyOf', h.hp, h.hk, h.hf]

/-- the concrete remote delete is the abstract one -/
theorem sim_del (h : DelPre d p k pn m size c) {ts : Ts} {d' : Doc} {r : Option Ts}
    (hr : d.deleteInObject p k ts false = .ok (d', r)) :
    abs d' = aop (abs d) emptyAbs p k (delStep ts) := by
  unfold aop applyStep
  rw [union_empty, h.key]
  rw [del_eq h.hp h.hk h.hf] at hr
  by_cases hlt : (d.timeOf c).cmp ts = .lt
  · simp only [hlt, if_true, Outcome.ok.injEq, Prod.mk.injEq] at hr
    rw [← hr.1]
    have hrt : (refSt d c).time.cmp ts = .lt := hlt
    simp only [delStep, hrt, if_true]
    -- the intermediate document: only the size of `p` changed
    have hwf2 : (d.set { pn with kind := .obj m (if d.isTomb c = true then size else size - 1) }).WF := by
      apply wf_setKind h.wf h.hp
      · intro x hx
        have := h.wf.child p pn h.hp x; rw [h.hk] at this; exact this hx
      · have := h.wf.inj p pn h.hp; rw [h.hk] at this; exact this
    have hpc := find_some_c h.hp
    have hp2 : (d.set { pn with kind := .obj m (if d.isTomb c = true then size else size - 1) }).find p =
        some { pn with kind := .obj m (if d.isTomb c = true then size else size - 1) } := by
      rw [find_set]; simp [hpc]
    have hvals : (m.map (·.2)).Nodup := by
      have := h.wf.inj p pn h.hp; rw [h.hk] at this; exact this
    rw [abs_makeTomb (k := k) ts hp2 rfl h.hf]
    · have habs := abs_setKind (m' := m) (s' := if d.isTomb c = true then size else size - 1) h.hp h.hk
      have hr2 : ∀ x, Shape.isElem ((abs d).shape x) = Shape.isElem
          ((abs (d.set { pn with kind := .obj m (if d.isTomb c = true then size else size - 1) })).shape x) := by
        intro x; rw [habs]
      -- rewrite the abstraction of the intermediate document
      have e1 : setKey (abs (d.set { pn with kind := .obj m (if d.isTomb c = true then size else size - 1) })) p k
            (some ⟨true, ts, none⟩) 0 =
          setKey (abs d) p k (some ⟨true, ts, none⟩) (if (refSt d c).tomb = true then 0 else -1) := by
        rw [habs]
        unfold setKey
        apply Abs.ext'
        · intro x; rfl
        · intro x; rfl
        · intro x k'
          simp only
          by_cases hx : x = p
          · subst hx
            by_cases hk' : k' = k
            · simp [hk']
            · simp [hk', abs, keyOf', h.hp, h.hk]
          · simp [hx]
        · intro x
          simp only
          by_cases hx : x = p
          · subst hx
            simp only [if_true, abs, sizeOf', h.hp, h.hk, refSt]
            by_cases htb : d.isTomb c = true
            · simp [htb]
            · simp [htb]; omega
          · simp [hx]
      rw [e1]
      by_cases htomb : d.isTomb c = true
      · have ho : (refSt d c).occ = none := by simp [refSt, htomb]
        rw [ho]
        simp only [kill]
        apply kill_noop
        · simp only [setKey]; exact (tomb_shape htomb).1
        · simp only [setKey]; exact (tomb_shape htomb).2
      · have htomb2 : d.isTomb c = false := by simpa using htomb
        have ho : (refSt d c).occ = some c := by simp [refSt, htomb2]
        rw [ho]
    · obtain ⟨nc, h1, _⟩ := hwf2.child p _ hp2 c (alFind_mem_vals h.hf)
      exact ⟨nc, h1⟩
    · intro q n hq hmem
      exact (wf_unique_parent hwf2 hp2 hq (alFind_mem_vals h.hf) hmem).symm
    · intro k' hk'
      exact alFind_inj_of_vals_nodup hvals hk' h.hf
  · simp only [hlt, if_false, Outcome.ok.injEq, Prod.mk.injEq] at hr
    rw [← hr.1]
    have hrt : ¬ (refSt d c).time.cmp ts = .lt := hlt
    simp only [delStep, hrt, if_false, kill]
    have := setKey_same (abs d) p k
    rw [h.key] at this
    exact this.symm

end delsim


/-! ### commutation of the abstract operations -/

theorem kill_setKey (A : Abs) (p : Ts) (k : String) (st : Option KeySt) (ds : Int) (x : Option Ts) :
    kill (setKey A p k st ds) x = setKey (kill A x) p k st ds := by
  cases x <;> rfl

theorem kill_comm (A : Abs) (x y : Option Ts) : kill (kill A x) y = kill (kill A y) x := by
  cases x with
  | none => rfl
  | some x =>
    cases y with
    | none => rfl
    | some y =>
      unfold kill
      apply Abs.ext'
      · intro c
        simp only
        by_cases hxy : x = y
        · subst hxy; rfl
        · have hyx : ¬ y = x := fun e => hxy e.symm
          by_cases hcx : c = x
          · subst hcx; simp [hxy]
          · by_cases hcy : c = y
            · subst hcy; simp [hyx]
            · simp [hcx, hcy, hxy, hyx]
      · intro c
        simp only
        by_cases hxy : x = y
        · subst hxy; rfl
        · have hyx : ¬ y = x := fun e => hxy e.symm
          by_cases hcx : c = x
          · subst hcx; simp [hxy]
          · by_cases hcy : c = y
            · subst hcy; simp [hyx]
            · simp [hcx, hcy]
      · intro c k; rfl
      · intro c; rfl

theorem setKey_comm (A : Abs) {p1 p2 : Ts} {k1 k2 : String} (h : ¬ (p1 = p2 ∧ k1 = k2))
    (s1 s2 : Option KeySt) (d1 d2 : Int) :
    setKey (setKey A p1 k1 s1 d1) p2 k2 s2 d2 = setKey (setKey A p2 k2 s2 d2) p1 k1 s1 d1 := by
  unfold setKey
  apply Abs.ext'
  · intro c; rfl
  · intro c; rfl
  · intro c k
    simp only
    by_cases h1 : c = p1 ∧ k = k1
    · obtain ⟨rfl, rfl⟩ := h1
      simp [h]
    · by_cases h2 : c = p2 ∧ k = k2
      · obtain ⟨rfl, rfl⟩ := h2
        simp [h1]
      · simp [h1, h2]
  · intro c
    simp only
    split_ifs <;> omega

theorem setKey_setKey (A : Abs) (p : Ts) (k : String) (s1 s2 : Option KeySt) (d1 d2 : Int) :
    setKey (setKey A p k s1 d1) p k s2 d2 = setKey A p k s2 (d1 + d2) := by
  unfold setKey
  apply Abs.ext'
  · intro c; rfl
  · intro c; rfl
  · intro c k'
    simp only
    by_cases h1 : c = p ∧ k' = k <;> simp [h1]
  · intro c
    simp only
    by_cases h1 : c = p <;> simp [h1]; omega

theorem applyStep_def (B : Abs) (p : Ts) (k : String) (f : Option KeySt → Step) :
    applyStep B p k f = kill (setKey B p k (f (B.key p k)).st (f (B.key p k)).dsize) (f (B.key p k)).bury := rfl

theorem kill_key (A : Abs) (x : Option Ts) : (kill A x).key = A.key := by
  cases x <;> rfl

/-- two steps on the same key give the same state, the same total size change, and bury the same nodes -/
def StepComm (f1 f2 : Option KeySt → Step) (s : Option KeySt) : Prop :=
  (f2 (f1 s).st).st = (f1 (f2 s).st).st ∧
  (f1 s).dsize + (f2 (f1 s).st).dsize = (f2 s).dsize + (f1 (f2 s).st).dsize ∧
  (((f1 s).bury = (f1 (f2 s).st).bury ∧ (f2 (f1 s).st).bury = (f2 s).bury) ∨
   ((f1 s).bury = (f2 s).bury ∧ (f2 (f1 s).st).bury = (f1 (f2 s).st).bury))

theorem applyStep_comm_diff (B : Abs) {p1 p2 : Ts} {k1 k2 : String} (h : ¬ (p1 = p2 ∧ k1 = k2))
    (f1 f2 : Option KeySt → Step) :
    applyStep (applyStep B p1 k1 f1) p2 k2 f2 = applyStep (applyStep B p2 k2 f2) p1 k1 f1 := by
  have h' : ¬ (p2 = p1 ∧ k2 = k1) := fun e => h ⟨e.1.symm, e.2.symm⟩
  have e1 : (applyStep B p1 k1 f1).key p2 k2 = B.key p2 k2 := by
    rw [applyStep_def, kill_key]
    simp [setKey, h']
  have e2 : (applyStep B p2 k2 f2).key p1 k1 = B.key p1 k1 := by
    rw [applyStep_def, kill_key]
    simp [setKey, h]
  rw [applyStep_def (applyStep B p1 k1 f1), e1, applyStep_def (applyStep B p2 k2 f2), e2]
  rw [applyStep_def B, applyStep_def B]
  simp only [kill_setKey]
  rw [setKey_comm _ h, kill_comm]

theorem applyStep_comm_same (B : Abs) (p : Ts) (k : String) (f1 f2 : Option KeySt → Step)
    (h : StepComm f1 f2 (B.key p k)) :
    applyStep (applyStep B p k f1) p k f2 = applyStep (applyStep B p k f2) p k f1 := by
  have e1 : ∀ f, (applyStep B p k f).key p k = (f (B.key p k)).st := by
    intro f
    rw [applyStep_def, kill_key]
    simp [setKey]
  rw [applyStep_def (applyStep B p k f1), e1, applyStep_def (applyStep B p k f2), e1]
  rw [applyStep_def B, applyStep_def B]
  simp only [kill_setKey, setKey_setKey]
  obtain ⟨h1, h2, h3⟩ := h
  rw [h1, h2]
  rcases h3 with ⟨a, b⟩ | ⟨a, b⟩
  · rw [a, b, kill_comm]
  · rw [a, b]

theorem union_comm (A : Abs) {N1 N2 : Abs} {S1 S2 : Ts → Prop} (h1 : Supp N1 S1) (h2 : Supp N2 S2)
    (hd : ∀ c, S1 c → S2 c → False) : union (union A N1) N2 = union (union A N2) N1 := by
  have key : ∀ c, (N1.shape c = none ∧ N1.dead c = false ∧ (∀ k, N1.key c k = none) ∧ N1.size c = 0) ∨
      (N2.shape c = none ∧ N2.dead c = false ∧ (∀ k, N2.key c k = none) ∧ N2.size c = 0) := by
    intro c
    by_cases hc : S1 c
    · exact Or.inr (h2 c (fun e => hd c hc e))
    · exact Or.inl (h1 c hc)
  unfold union
  apply Abs.ext'
  · intro c
    simp only
    rcases key c with ⟨e, _⟩ | ⟨e, _⟩ <;> simp [e]
  · intro c
    simp only
    rcases key c with ⟨_, e, _⟩ | ⟨_, e, _⟩ <;> simp [e]
  · intro c k
    simp only
    rcases key c with ⟨_, _, e, _⟩ | ⟨_, _, e, _⟩ <;> simp [e]
  · intro c
    simp only
    omega

theorem union_applyStep {B N : Abs} {S : Ts → Prop} (hN : Supp N S) {p : Ts} {k : String}
    {f : Option KeySt → Step} (hp : ¬ S p) (hb : ∀ x, (f (B.key p k)).bury = some x → ¬ S x) :
    union (applyStep B p k f) N = applyStep (union B N) p k f := by
  have ek : (union B N).key p k = B.key p k := by
    simp [union, (hN p hp).2.2.1]
  unfold applyStep
  rw [ek]
  cases hbury : (f (B.key p k)).bury with
  | none =>
    unfold kill union setKey
    apply Abs.ext'
    · intro c; rfl
    · intro c; rfl
    · intro c k'
      simp only
      by_cases h1 : c = p ∧ k' = k
      · obtain ⟨rfl, rfl⟩ := h1
        simp [(hN c hp).2.2.1]
      · simp [h1]
    · intro c
      simp only
      by_cases h1 : c = p <;> simp [h1]; omega
  | some x =>
    have hx := hN x (hb x hbury)
    unfold kill union setKey
    apply Abs.ext'
    · intro c
      simp only
      by_cases hc : c = x
      · subst hc
        simp only [true_and, hx.1, Option.or_none]
      · simp [hc]
    · intro c
      simp only
      by_cases hc : c = x
      · subst hc
        simp [hx.1, hx.2.1]
      · simp [hc]
    · intro c k'
      simp only
      by_cases h1 : c = p ∧ k' = k
      · obtain ⟨rfl, rfl⟩ := h1
        simp [(hN c hp).2.2.1]
      · simp [h1]
    · intro c
      simp only
      by_cases h1 : c = p <;> simp [h1]; omega

/-- commutation of two abstract operations whose new nodes are disjoint and away from everything the
    other operation touches -/
theorem aop_comm (A : Abs) {N1 N2 : Abs} {S1 S2 : Ts → Prop} {p1 p2 : Ts} {k1 k2 : String}
    {f1 f2 : Option KeySt → Step}
    (hN1 : Supp N1 S1) (hN2 : Supp N2 S2) (hd : ∀ c, S1 c → S2 c → False)
    (hp1 : ¬ S2 p1) (hp2 : ¬ S1 p2)
    (hb1 : ∀ x, (f1 ((union A N1).key p1 k1)).bury = some x → ¬ S2 x)
    (hb2 : ∀ x, (f2 ((union A N2).key p2 k2)).bury = some x → ¬ S1 x)
    (hc : ¬ (p1 = p2 ∧ k1 = k2) ∨ (p1 = p2 ∧ k1 = k2 ∧ StepComm f1 f2 ((union (union A N1) N2).key p1 k1))) :
    aop (aop A N1 p1 k1 f1) N2 p2 k2 f2 = aop (aop A N2 p2 k2 f2) N1 p1 k1 f1 := by
  unfold aop
  rw [union_applyStep hN2 hp1 hb1, union_applyStep hN1 hp2 hb2, union_comm A hN2 hN1 (fun c a b => hd c b a)]
  rcases hc with hc | ⟨rfl, rfl, hc⟩
  · exact applyStep_comm_diff _ hc f1 f2
  · exact applyStep_comm_same _ _ _ f1 f2 hc


/-! ### last-writer-wins on one key -/

theorem cmp_lt_or_gt {a b : Ts} (h : a.cmp b ≠ .eq) : a.cmp b = .lt ∨ b.cmp a = .lt := by
  cases hc : a.cmp b with
  | lt => exact Or.inl rfl
  | eq => exact absurd hc h
  | gt => exact Or.inr ((cmp_gt_iff_lt a b).mp hc)

theorem cmp_asymm {a b : Ts} (h1 : a.cmp b = .lt) (h2 : b.cmp a = .lt) : False :=
  cmp_lt_irrefl a (cmp_lt_trans _ _ _ h1 h2)

theorem stepComm_symm {f1 f2 : Option KeySt → Step} {s : Option KeySt} (h : StepComm f1 f2 s) :
    StepComm f2 f1 s := by
  obtain ⟨h1, h2, h3⟩ := h
  refine ⟨h1.symm, h2.symm, ?_⟩
  rcases h3 with ⟨a, b⟩ | ⟨a, b⟩
  · exact Or.inl ⟨b.symm, a.symm⟩
  · exact Or.inr ⟨a.symm, b.symm⟩

theorem stepComm_put_put_lt {ts1 ts2 : Ts} (h12 : ts1.cmp ts2 = .lt) (s : Option KeySt) :
    StepComm (putStep ts1) (putStep ts2) s := by
  have h21 : ¬ ts2.cmp ts1 = .lt := fun h => cmp_asymm h12 h
  cases s with
  | none => simp [StepComm, putStep, h12, h21]
  | some st =>
    by_cases h1 : st.time.cmp ts1 = .lt
    · have h2 : st.time.cmp ts2 = .lt := cmp_lt_trans _ _ _ h1 h12
      simp [StepComm, putStep, h1, h2, h12, h21]
    · by_cases h2 : st.time.cmp ts2 = .lt
      · simp [StepComm, putStep, h1, h2, h21]
      · simp [StepComm, putStep, h1, h2]

theorem stepComm_put_put {ts1 ts2 : Ts} (hne : ts1.cmp ts2 ≠ .eq) (s : Option KeySt) :
    StepComm (putStep ts1) (putStep ts2) s := by
  rcases cmp_lt_or_gt hne with h | h
  · exact stepComm_put_put_lt h s
  · exact stepComm_symm (stepComm_put_put_lt h s)

theorem stepComm_put_del {ts1 ts2 : Ts} (hne : ts1.cmp ts2 ≠ .eq) (st : KeySt) :
    StepComm (putStep ts1) (delStep ts2) (some st) := by
  rcases cmp_lt_or_gt hne with h12 | h21
  · have h21 : ¬ ts2.cmp ts1 = .lt := fun h => cmp_asymm h12 h
    by_cases h1 : st.time.cmp ts1 = .lt
    · have h2 : st.time.cmp ts2 = .lt := cmp_lt_trans _ _ _ h1 h12
      cases htb : st.tomb <;> simp [StepComm, putStep, delStep, h1, h2, h12, h21, htb]
    · by_cases h2 : st.time.cmp ts2 = .lt
      · simp [StepComm, putStep, delStep, h1, h2, h21]
      · simp [StepComm, putStep, delStep, h1, h2]
  · have h12 : ¬ ts1.cmp ts2 = .lt := fun h => cmp_asymm h h21
    by_cases h2 : st.time.cmp ts2 = .lt
    · have h1 : st.time.cmp ts1 = .lt := cmp_lt_trans _ _ _ h2 h21
      cases htb : st.tomb <;> simp [StepComm, putStep, delStep, h1, h2, h12, h21, htb]
    · by_cases h1 : st.time.cmp ts1 = .lt
      · simp [StepComm, putStep, delStep, h1, h2, h12]
      · simp [StepComm, putStep, delStep, h1, h2]

theorem stepComm_del_del_lt {ts1 ts2 : Ts} (h12 : ts1.cmp ts2 = .lt) (st : KeySt) :
    StepComm (delStep ts1) (delStep ts2) (some st) := by
  have h21 : ¬ ts2.cmp ts1 = .lt := fun h => cmp_asymm h12 h
  by_cases h1 : st.time.cmp ts1 = .lt
  · have h2 : st.time.cmp ts2 = .lt := cmp_lt_trans _ _ _ h1 h12
    cases htb : st.tomb <;> simp [StepComm, delStep, h1, h2, h12, h21, htb]
  · by_cases h2 : st.time.cmp ts2 = .lt
    · simp [StepComm, delStep, h1, h2, h21]
    · simp [StepComm, delStep, h1, h2]

theorem stepComm_del_del {ts1 ts2 : Ts} (hne : ts1.cmp ts2 ≠ .eq) (st : KeySt) :
    StepComm (delStep ts1) (delStep ts2) (some st) := by
  rcases cmp_lt_or_gt hne with h | h
  · exact stepComm_del_del_lt h st
  · exact stepComm_symm (stepComm_del_del_lt h st)

/-- without causality a put and a later delete of an ABSENT key do not commute (the delete is refused first) -/
example : ¬ StepComm (putStep ⟨0, 1, "a", 0⟩) (delStep ⟨0, 2, "b", 0⟩) none := by
  simp [StepComm, putStep, delStep]
  decide


/-! ### remote object operations as data -/

inductive ObjOp where
  | put (p : Ts) (k : String) (v : JVal) (ts : Ts)
  | del (p : Ts) (k : String) (ts : Ts)

def ObjOp.ts : ObjOp → Ts
  | .put _ _ _ ts => ts
  | .del _ _ ts => ts
def ObjOp.parent : ObjOp → Ts
  | .put p _ _ _ => p
  | .del p _ _ => p
def ObjOp.key : ObjOp → String
  | .put _ k _ _ => k
  | .del _ k _ => k

/-- remote application; an error leaves the document alone (as `execRemote` does) -/
def applyOp (d : Doc) : ObjOp → Doc
  | .put p k v ts => match d.putInObject p k v ts with
    | .ok (d', _) => d'
    | _ => d
  | .del p k ts => match d.deleteInObject p k ts false with
    | .ok (d', _) => d'
    | _ => d

/-- the nodes an operation creates -/
def nodesOf : ObjOp → List DNode
  | .put p _ v ts => match createNode p ts v with
    | .ok (ns, _, _) => ns
    | _ => []
  | .del _ _ _ => []

def stepOf : ObjOp → Option KeySt → Step
  | .put _ _ _ ts => putStep ts
  | .del _ _ ts => delStep ts

def absOp (o : ObjOp) (A : Abs) : Abs := aop A (abs ⟨nodesOf o⟩) o.parent o.key (stepOf o)

def IsObj (d : Doc) (p : Ts) : Prop := ∃ n m s, d.find p = some n ∧ n.kind = .obj m s
def HasKey (d : Doc) (p : Ts) (k : String) : Prop := ∃ n m s c, d.find p = some n ∧ n.kind = .obj m s ∧ alFind k m = some c

/-- what makes a remote operation applicable: an object parent; for a put a creatable value whose new
    identifiers are not in the table; for a delete the key is present (it was put before: causality) -/
def OpOK (d : Doc) : ObjOp → Prop
  | .put p k v ts => IsObj d p ∧ (∃ ns c t', createNode p ts v = .ok (ns, c, t')) ∧ Fresh d (nodesOf (.put p k v ts))
  | .del p k _ => HasKey d p k

theorem abs_mk_nil : abs ⟨[]⟩ = emptyAbs := by
  apply Abs.ext' <;> intros <;> rfl

theorem isObj_iff {d : Doc} {p : Ts} : IsObj d p ↔ ∃ par, shapeOf d p = some (par, .obj) := by
  unfold IsObj shapeOf
  constructor
  · rintro ⟨n, m, s, h1, h2⟩
    exact ⟨n.parent, by simp [h1, h2]⟩
  · rintro ⟨par, h⟩
    cases hf : d.find p with
    | none => simp [hf] at h
    | some n =>
      obtain ⟨nc, nd, np, nk⟩ := n
      cases nk with
      | elem v => simp only [hf] at h; split at h <;> simp at h
      | obj m s => exact ⟨_, m, s, rfl, rfl⟩
      | arr sl s => simp [hf] at h

theorem hasKey_iff {d : Doc} {p : Ts} {k : String} : HasKey d p k ↔ (keyOf' d p k).isSome := by
  unfold HasKey keyOf'
  constructor
  · rintro ⟨n, m, s, c, h1, h2, h3⟩
    simp [h1, h2, h3]
  · intro h
    cases hf : d.find p with
    | none => simp [hf] at h
    | some n =>
      obtain ⟨nc, nd, np, nk⟩ := n
      cases nk with
      | elem v => simp [hf] at h
      | obj m s =>
        simp only [hf, Option.isSome_map] at h
        obtain ⟨c, hc⟩ := Option.isSome_iff_exists.mp h
        exact ⟨_, m, s, c, rfl, rfl, hc⟩
      | arr sl s => simp [hf] at h

theorem putPre_of_ok {d : Doc} (hwf : d.WF) {p : Ts} {k : String} {v : JVal} {ts : Ts}
    (h : OpOK d (.put p k v ts)) :
    ∃ pn m size ts', PutPre d p v ts pn m size (nodesOf (.put p k v ts)) ts' := by
  obtain ⟨⟨pn, m, s, h1, h2⟩, ⟨ns, c, t', hc⟩, hf⟩ := h
  have hroot := createNode_root hc
  subst hroot
  have hn : nodesOf (.put p k v c) = ns := by simp [nodesOf, hc]
  rw [hn] at hf ⊢
  exact ⟨pn, m, s, t', ⟨hwf, h1, h2, hc, hf⟩⟩

theorem delPre_of_ok {d : Doc} (hwf : d.WF) {p : Ts} {k : String} {ts : Ts} (h : OpOK d (.del p k ts)) :
    ∃ pn m size c, DelPre d p k pn m size c := by
  obtain ⟨pn, m, s, c, h1, h2, h3⟩ := h
  exact ⟨pn, m, s, c, ⟨hwf, h1, h2, h3⟩⟩

/-- an applicable operation returns `.ok` -/
theorem op_returns_ok {d : Doc} (hwf : d.WF) : ∀ (o : ObjOp), OpOK d o →
    match o with
    | .put p k v ts => ∃ d' r, d.putInObject p k v ts = .ok (d', r) ∧ applyOp d o = d'
    | .del p k ts => ∃ d' r, d.deleteInObject p k ts false = .ok (d', r) ∧ applyOp d o = d'
  | .put p k v ts, h => by
    obtain ⟨pn, m, size, ts', hpre⟩ := putPre_of_ok hwf h
    obtain ⟨d', r, hr⟩ := put_ok hpre k
    exact ⟨d', r, hr, by simp [applyOp, hr]⟩
  | .del p k ts, h => by
    obtain ⟨pn, m, size, c, hpre⟩ := delPre_of_ok hwf h
    obtain ⟨d', r, hr⟩ := del_ok hpre ts
    exact ⟨d', r, hr, by simp [applyOp, hr]⟩

/-- the concrete operation is the abstract one -/
theorem sim_op {d : Doc} (hwf : d.WF) : ∀ (o : ObjOp), OpOK d o → abs (applyOp d o) = absOp o (abs d)
  | .put p k v ts, h => by
    obtain ⟨pn, m, size, ts', hpre⟩ := putPre_of_ok hwf h
    obtain ⟨d', r, hr⟩ := put_ok hpre k
    have : applyOp d (.put p k v ts) = d' := by simp [applyOp, hr]
    rw [this]
    exact sim_put hpre hr
  | .del p k ts, h => by
    obtain ⟨pn, m, size, c, hpre⟩ := delPre_of_ok hwf h
    obtain ⟨d', r, hr⟩ := del_ok hpre ts
    have : applyOp d (.del p k ts) = d' := by simp [applyOp, hr]
    rw [this]
    have := sim_del hpre hr
    rw [this]
    simp [absOp, nodesOf, abs_mk_nil, ObjOp.parent, ObjOp.key, stepOf]

theorem wf_op {d : Doc} (hwf : d.WF) : ∀ (o : ObjOp), OpOK d o → (applyOp d o).WF
  | .put p k v ts, h => by
    obtain ⟨pn, m, size, ts', hpre⟩ := putPre_of_ok hwf h
    obtain ⟨d', r, hr⟩ := put_ok hpre k
    have : applyOp d (.put p k v ts) = d' := by simp [applyOp, hr]
    rw [this]
    exact wf_put hpre hr
  | .del p k ts, h => by
    obtain ⟨pn, m, size, c, hpre⟩ := delPre_of_ok hwf h
    obtain ⟨d', r, hr⟩ := del_ok hpre ts
    have : applyOp d (.del p k ts) = d' := by simp [applyOp, hr]
    rw [this]
    exact wf_del hwf hr


/-! ### applicability is preserved by other operations -/

theorem find_set_some {d : Doc} {n x : DNode} {c : Ts} (h : (d.set n).find c = some x) :
    c = n.c ∨ ∃ y, d.find c = some y := by
  rw [find_set] at h
  by_cases e : n.c = c
  · exact Or.inl e.symm
  · simp only [e, if_false] at h; exact Or.inr ⟨x, h⟩

theorem find_funeral_some {d : Doc} {x t c : Ts} {y : DNode} (h : (d.funeral x t).find c = some y) :
    ∃ y', d.find c = some y' := by
  rw [find_funeral] at h
  by_cases e : c = x
  · subst e
    simp only [if_true] at h
    cases hf : d.find c with
    | none => rw [hf] at h; simp [fun1] at h
    | some y' => exact ⟨y', rfl⟩
  · simp only [e, if_false] at h; exact ⟨y, h⟩

theorem find_makeTomb_some {d : Doc} {x t c : Ts} {y : DNode} (h : (d.makeTomb x t).find c = some y) :
    ∃ y', d.find c = some y' := by
  rw [find_makeTomb] at h
  by_cases e : c = x
  · subst e
    simp only [if_true] at h
    cases hf : d.find c with
    | none => rw [hf] at h; simp at h
    | some y' => exact ⟨y', rfl⟩
  · simp only [e, if_false] at h; exact ⟨y, h⟩

theorem find_addAll_some {d : Doc} {ns : List DNode} {c : Ts} {x : DNode} (h : (d.addAll ns).find c = some x) :
    c ∈ ids ns ∨ ∃ y, d.find c = some y := by
  rcases find_addAll_cases h with ⟨h1, h2⟩ | ⟨_, h2⟩
  · exact Or.inl (List.mem_map.mpr ⟨x, h1, h2⟩)
  · exact Or.inr ⟨x, h2⟩

/-- the table after an operation: old identifiers and the created ones -/
theorem find_after_op {d : Doc} (hwf : d.WF) : ∀ (o : ObjOp), OpOK d o → ∀ c n, (applyOp d o).find c = some n →
    (∃ n0, d.find c = some n0) ∨ c ∈ ids (nodesOf o)
  | .put p k v ts, h, c, n, hc => by
    obtain ⟨pn, m, size, ts', hpre⟩ := putPre_of_ok hwf h
    have hpc := find_some_c hpre.hp
    have haux : ∀ x, (d.addAll (nodesOf (.put p k v ts))).find c = some x →
        (∃ n0, d.find c = some n0) ∨ c ∈ ids (nodesOf (.put p k v ts)) := by
      intro x hx
      rcases find_addAll_some hx with h1 | h1
      · exact Or.inr h1
      · exact Or.inl h1
    have haux2 : ∀ s' x, ((d.addAll (nodesOf (.put p k v ts))).set { pn with kind := s' }).find c = some x →
        (∃ n0, d.find c = some n0) ∨ c ∈ ids (nodesOf (.put p k v ts)) := by
      intro s' x hx
      rcases find_set_some hx with h1 | ⟨y, h1⟩
      · simp only at h1
        rw [h1, hpc]; exact Or.inl ⟨pn, hpre.hp⟩
      · exact haux y h1
    cases hk : alFind k m with
    | none =>
      have := put_new hpre hk
      simp only [applyOp, this] at hc
      exact haux2 _ _ hc
    | some oldC =>
      by_cases hlt : (d.timeOf oldC).cmp ts = .lt
      · have := put_win hpre hk hlt
        simp only [applyOp, this] at hc
        obtain ⟨y, hy⟩ := find_funeral_some hc
        exact haux2 _ _ hy
      · have := put_lose hpre hk hlt
        simp only [applyOp, this] at hc
        obtain ⟨y, hy⟩ := find_funeral_some hc
        exact haux _ hy
  | .del p k ts, h, c, n, hc => by
    obtain ⟨pn, m, size, x, hpre⟩ := delPre_of_ok hwf h
    have hpc := find_some_c hpre.hp
    left
    have := del_eq hpre.hp hpre.hk hpre.hf ts
    by_cases hlt : (d.timeOf x).cmp ts = .lt
    · simp only [hlt, if_true] at this
      simp only [applyOp, this] at hc
      obtain ⟨y, hy⟩ := find_makeTomb_some hc
      rcases find_set_some hy with h1 | h1
      · simp only at h1; rw [h1, hpc]; exact ⟨pn, hpre.hp⟩
      · exact h1
    · simp only [hlt, if_false] at this
      simp only [applyOp, this] at hc
      exact ⟨n, hc⟩

theorem aop_shape_obj {A N : Abs} {p q : Ts} {k : String} {f : Option KeySt → Step} {par : Option Ts}
    (h : A.shape q = some (par, .obj)) : (aop A N p k f).shape q = some (par, .obj) := by
  unfold aop applyStep
  cases hb : (f ((union A N).key p k)).bury with
  | none => simp [kill, setKey, union, h]
  | some x =>
    simp only [kill, setKey, union]
    by_cases e : q = x
    · subst e; simp [h, Shape.isElem]
    · simp [e, h]

theorem aop_key_some {A N : Abs} {p q : Ts} {k k' : String} {f : Option KeySt → Step}
    (hf : ∀ s, ((f (some s)).st).isSome) (h : (A.key q k').isSome) : ((aop A N p k f).key q k').isSome := by
  unfold aop applyStep
  rw [kill_key]
  simp only [setKey]
  obtain ⟨s, hs⟩ := Option.isSome_iff_exists.mp h
  by_cases e : q = p ∧ k' = k
  · obtain ⟨rfl, rfl⟩ := e
    simp only [and_self, if_true]
    have : (union A N).key q k' = some s := by simp [union, hs]
    rw [this]; exact hf s
  · simp [e, union, hs]

theorem stepOf_some (o : ObjOp) (s : KeySt) : ((stepOf o (some s)).st).isSome := by
  cases o <;> simp only [stepOf, putStep, delStep] <;> split <;> rfl

theorem isObj_after_op {d : Doc} (hwf : d.WF) (o : ObjOp) (h : OpOK d o) {q : Ts} (hq : IsObj d q) :
    IsObj (applyOp d o) q := by
  rw [isObj_iff] at hq ⊢
  obtain ⟨par, hp⟩ := hq
  refine ⟨par, ?_⟩
  have := congrArg (fun A => A.shape q) (sim_op hwf o h)
  simp only [abs] at this
  rw [this]
  exact aop_shape_obj hp

theorem hasKey_after_op {d : Doc} (hwf : d.WF) (o : ObjOp) (h : OpOK d o) {q : Ts} {k : String}
    (hq : HasKey d q k) : HasKey (applyOp d o) q k := by
  rw [hasKey_iff] at hq ⊢
  have := congrArg (fun A => A.key q k) (sim_op hwf o h)
  simp only [abs] at this
  rw [this]
  exact aop_key_some (stepOf_some o) hq

/-- identifiers created by an operation carry the operation's (era, lamport, client) -/
theorem nodesOf_key (o : ObjOp) {c : Ts} (h : c ∈ ids (nodesOf o)) : c.key = o.ts.key := by
  cases o with
  | del p k ts => simp [nodesOf, ids] at h
  | put p k v ts =>
    simp only [nodesOf] at h
    split at h
    · rename_i ns c' t' hc
      have hb := (createNode_spec p ts v _ hc).1
      obtain ⟨n, hn, rfl⟩ := List.mem_map.mp h
      obtain ⟨i, _, hi⟩ := block_mem_id hb hn
      rw [hi]; rfl
    · simp [ids] at h

theorem nodesOf_disjoint {a b : ObjOp} (hne : a.ts.cmp b.ts ≠ .eq) {c : Ts} (ha : c ∈ ids (nodesOf a))
    (hb : c ∈ ids (nodesOf b)) : False := by
  apply hne
  rw [cmp_eq_iff, ← nodesOf_key a ha, ← nodesOf_key b hb]

theorem opOK_after_op {d : Doc} (hwf : d.WF) {a b : ObjOp} (ha : OpOK d a) (hb : OpOK d b)
    (hne : a.ts.cmp b.ts ≠ .eq) : OpOK (applyOp d a) b := by
  cases b with
  | del p k ts => exact hasKey_after_op hwf a ha hb
  | put p k v ts =>
    obtain ⟨h1, h2, h3⟩ := hb
    refine ⟨isObj_after_op hwf a ha h1, h2, ?_⟩
    intro c hc
    cases hf : (applyOp d a).find c with
    | none => rfl
    | some n =>
      exfalso
      rcases find_after_op hwf a ha c n hf with ⟨n0, h0⟩ | h0
      · rw [h3 c hc] at h0; cases h0
      · exact nodesOf_disjoint hne h0 hc


/-! ### B: two applicable remote operations with distinct timestamps commute up to `Sim` -/

theorem parent_in_table {d : Doc} {o : ObjOp} (h : OpOK d o) : ∃ n, d.find o.parent = some n := by
  cases o with
  | put p k v ts => obtain ⟨⟨n, _, _, h1, _⟩, _⟩ := h; exact ⟨n, h1⟩
  | del p k ts => obtain ⟨n, _, _, _, h1, _⟩ := h; exact ⟨n, h1⟩

theorem fresh_of_ok {d : Doc} {o : ObjOp} (h : OpOK d o) : Fresh d (nodesOf o) := by
  cases o with
  | put p k v ts => exact h.2.2
  | del p k ts => intro c hc; simp [nodesOf, ids] at hc

theorem not_mem_nodes_of_table {d : Doc} {o : ObjOp} (h : OpOK d o) {x : Ts} {n : DNode} (hx : d.find x = some n) :
    x ∉ ids (nodesOf o) := by
  intro hm
  rw [fresh_of_ok h x hm] at hx; cases hx

theorem bury_cases (o : ObjOp) (s : Option KeySt) {x : Ts} (h : (stepOf o s).bury = some x) :
    (x = o.ts ∧ ∃ p k v, o = .put p k v x) ∨ ∃ st, s = some st ∧ st.occ = some x := by
  cases o with
  | put p k v ts =>
    simp only [stepOf, putStep] at h
    cases s with
    | none => simp at h
    | some st =>
      simp only at h
      split at h
      · exact Or.inr ⟨st, rfl, h⟩
      · simp only [Option.some.injEq] at h
        subst h
        exact Or.inl ⟨rfl, p, k, v, rfl⟩
  | del p k ts =>
    simp only [stepOf, delStep] at h
    cases s with
    | none => simp at h
    | some st =>
      simp only at h
      split at h
      · exact Or.inr ⟨st, rfl, h⟩
      · simp at h

theorem root_mem_nodes {d : Doc} {p : Ts} {k : String} {v : JVal} {ts : Ts} (h : OpOK d (.put p k v ts)) :
    ts ∈ ids (nodesOf (.put p k v ts)) := by
  obtain ⟨_, ⟨ns, c, t', hc⟩, _⟩ := h
  have hroot := createNode_root hc
  subst hroot
  obtain ⟨n0, rest, hns, hc0, _⟩ := (createNode_spec p c v _ hc).2.2
  simp only at hns
  simp [nodesOf, hc, hns, ids, hc0]

theorem key_occ_in_table {d : Doc} (hwf : d.WF) {p : Ts} {k : String} {st : KeySt} {x : Ts}
    (h : keyOf' d p k = some st) (ho : st.occ = some x) : ∃ n, d.find x = some n := by
  unfold keyOf' at h
  cases hf : d.find p with
  | none => simp [hf] at h
  | some n =>
    obtain ⟨nc, nd, np, nk⟩ := n
    cases nk with
    | elem v => simp [hf] at h
    | arr sl s => simp [hf] at h
    | obj m s =>
      simp only [hf] at h
      cases hal : alFind k m with
      | none => simp [hal] at h
      | some c =>
        simp only [hal, Option.map_some, Option.some.injEq] at h
        subst h
        simp only [refSt] at ho
        split at ho
        · cases ho
        · simp only [Option.some.injEq] at ho
          subst ho
          obtain ⟨nc', h1, _⟩ := hwf.child p _ hf c (alFind_mem_vals hal)
          exact ⟨nc', h1⟩

theorem stepComm_ops {a b : ObjOp} (hne : a.ts.cmp b.ts ≠ .eq) (s : Option KeySt)
    (ha : (∃ p k ts, a = .del p k ts) → s.isSome) (hb : (∃ p k ts, b = .del p k ts) → s.isSome) :
    StepComm (stepOf a) (stepOf b) s := by
  have hne' : b.ts.cmp a.ts ≠ .eq := fun e => hne (cmp_eq_symm _ _ e)
  cases a with
  | put p1 k1 v1 ts1 =>
    cases b with
    | put p2 k2 v2 ts2 => exact stepComm_put_put hne s
    | del p2 k2 ts2 =>
      obtain ⟨st, rfl⟩ := Option.isSome_iff_exists.mp (hb ⟨_, _, _, rfl⟩)
      exact stepComm_put_del hne st
  | del p1 k1 ts1 =>
    obtain ⟨st, rfl⟩ := Option.isSome_iff_exists.mp (ha ⟨_, _, _, rfl⟩)
    cases b with
    | put p2 k2 v2 ts2 => exact stepComm_symm (stepComm_put_del hne' st)
    | del p2 k2 ts2 => exact stepComm_del_del hne st

theorem absOp_comm {d : Doc} (hwf : d.WF) {a b : ObjOp} (ha : OpOK d a) (hb : OpOK d b)
    (hne : a.ts.cmp b.ts ≠ .eq) : absOp b (absOp a (abs d)) = absOp a (absOp b (abs d)) := by
  obtain ⟨na, hna⟩ := parent_in_table ha
  obtain ⟨nb, hnb⟩ := parent_in_table hb
  have hne' : b.ts.cmp a.ts ≠ .eq := fun e => hne (cmp_eq_symm _ _ e)
  -- the key of the parent is not affected by the new nodes
  have hkey : ∀ (o : ObjOp) (N : Abs), OpOK d o → Supp N (fun c => c ∈ ids (nodesOf o)) → ∀ n, d.find o.parent = some n →
      (union (abs d) N).key o.parent o.key = keyOf' d o.parent o.key := by
    intro o N ho hN n hn
    have := (hN o.parent (not_mem_nodes_of_table ho hn)).2.2.1 o.key
    simp [union, this, abs]
  have hbury : ∀ (o o' : ObjOp), OpOK d o → OpOK d o' → o.ts.cmp o'.ts ≠ .eq → ∀ n, d.find o.parent = some n →
      ∀ x, (stepOf o ((union (abs d) (abs ⟨nodesOf o⟩)).key o.parent o.key)).bury = some x → x ∉ ids (nodesOf o') := by
    intro o o' ho ho' hn n hfind x hx
    rw [hkey o _ ho (supp_abs_mk _) n hfind] at hx
    rcases bury_cases o _ hx with ⟨h1, p, k, v, h2⟩ | ⟨st, h1, h2⟩
    · intro hm
      have : x ∈ ids (nodesOf o) := by
        rw [h2] at ho ⊢
        exact root_mem_nodes ho
      exact nodesOf_disjoint hn this hm
    · obtain ⟨nx, hnx⟩ := key_occ_in_table hwf h1 h2
      exact not_mem_nodes_of_table ho' hnx
  unfold absOp
  refine (aop_comm (abs d) (supp_abs_mk _) (supp_abs_mk _) ?_ ?_ ?_ ?_ ?_ ?_)
  · intro c h1 h2; exact nodesOf_disjoint hne h1 h2
  · exact not_mem_nodes_of_table hb hna
  · exact not_mem_nodes_of_table ha hnb
  · exact hbury a b ha hb hne na hna
  · exact hbury b a hb ha hne' nb hnb
  · by_cases e : a.parent = b.parent ∧ a.key = b.key
    · right
      refine ⟨e.1, e.2, ?_⟩
      have hk2 : (union (union (abs d) (abs ⟨nodesOf a⟩)) (abs ⟨nodesOf b⟩)).key a.parent a.key =
          keyOf' d a.parent a.key := by
        have h1 := hkey a _ ha (supp_abs_mk _) na hna
        have h2 := ((supp_abs_mk (nodesOf b)) a.parent (not_mem_nodes_of_table hb hna)).2.2.1 a.key
        simp only [union] at h1 ⊢
        rw [h1, h2]; simp
      rw [hk2]
      apply stepComm_ops hne
      · rintro ⟨p, k, ts, rfl⟩
        exact hasKey_iff.mp ha
      · rintro ⟨p, k, ts, rfl⟩
        rw [e.1, e.2]
        exact hasKey_iff.mp hb
    · exact Or.inl e

/-- B (`_partial`: up to observational equivalence instead of `DocEq`, which is false — see the
    counterexamples below): two applicable remote object operations with distinguishable timestamps
    commute, whatever their parents and keys -/
theorem op_comm_partial {d : Doc} (hwf : d.WF) {a b : ObjOp} (ha : OpOK d a) (hb : OpOK d b)
    (hne : a.ts.cmp b.ts ≠ .eq) : Sim (applyOp (applyOp d a) b) (applyOp (applyOp d b) a) := by
  have hne' : b.ts.cmp a.ts ≠ .eq := fun e => hne (cmp_eq_symm _ _ e)
  unfold Sim
  rw [sim_op (wf_op hwf a ha) b (opOK_after_op hwf ha hb hne), sim_op hwf a ha,
    sim_op (wf_op hwf b hb) a (opOK_after_op hwf hb ha hne'), sim_op hwf b hb]
  exact absOp_comm hwf ha hb hne

/-- the order does not affect whether the operations return `.ok`: both do, in both orders -/
theorem op_comm_ok {d : Doc} (hwf : d.WF) {a b : ObjOp} (ha : OpOK d a) (hb : OpOK d b)
    (hne : a.ts.cmp b.ts ≠ .eq) : OpOK (applyOp d a) b ∧ OpOK (applyOp d b) a :=
  ⟨opOK_after_op hwf ha hb hne, opOK_after_op hwf hb ha (fun e => hne (cmp_eq_symm _ _ e))⟩


/-! ### D: permutations of a list of operations -/

/-- generic: if the operations of a list pairwise commute up to an equivalence `R` that every operation
    respects (both under an invariant `Inv z l` = "state `z` is ready for the operations `l` in any
    order"), then any two permutations of the list lead to `R`-equivalent states -/
theorem perm_fold_equiv {σ ο : Type} (f : σ → ο → σ) (R : σ → σ → Prop) (hR : Equivalence R)
    (Inv : σ → List ο → Prop)
    (inv_perm : ∀ z l l', l.Perm l' → Inv z l → Inv z l')
    (inv_step : ∀ z x l, Inv z (x :: l) → Inv (f z x) l)
    (congr : ∀ z z' x l, Inv z (x :: l) → Inv z' (x :: l) → R z z' → R (f z x) (f z' x))
    (comm : ∀ z x y l, Inv z (x :: y :: l) → R (f (f z x) y) (f (f z y) x)) :
    ∀ l l', l.Perm l' → ∀ z z', Inv z l → Inv z' l → R z z' → R (l.foldl f z) (l'.foldl f z') := by
  have same : ∀ l z z', Inv z l → Inv z' l → R z z' → R (l.foldl f z) (l.foldl f z') := by
    intro l
    induction l with
    | nil => intro z z' _ _ h; exact h
    | cons x l ih =>
      intro z z' h1 h2 h
      exact ih _ _ (inv_step _ _ _ h1) (inv_step _ _ _ h2) (congr _ _ _ _ h1 h2 h)
  intro l l' hp
  induction hp with
  | nil => intro z z' _ _ h; exact h
  | cons x _ ih =>
    intro z z' h1 h2 h
    exact ih _ _ (inv_step _ _ _ h1) (inv_step _ _ _ h2) (congr _ _ _ _ h1 h2 h)
  | swap x y l =>
    intro z z' h1 h2 h
    simp only [List.foldl_cons]
    have h1' : Inv z (x :: y :: l) := inv_perm _ _ _ (List.Perm.swap x y l) h1
    have h2' : Inv z' (x :: y :: l) := inv_perm _ _ _ (List.Perm.swap x y l) h2
    have e1 : R (f (f z y) x) (f (f z x) y) := hR.symm (comm z x y l h1')
    have e2 : R (f (f z x) y) (f (f z' x) y) :=
      congr _ _ _ _ (inv_step _ _ _ h1') (inv_step _ _ _ h2') (congr _ _ _ _ h1' h2' h)
    exact same l _ _ (inv_step _ _ _ (inv_step _ _ _ h1)) (inv_step _ _ _ (inv_step _ _ _ h2'))
      (hR.trans e1 e2)
  | trans hp1 _ ih1 ih2 =>
    intro z z' h1 h2 h
    exact hR.trans (ih1 z z' h1 h2 h)
      (ih2 z' z' (inv_perm _ _ _ hp1 h2) (inv_perm _ _ _ hp1 h2) (hR.refl _))

/-- a well-formed document ready for the operations `ops` in any order: each one is applicable
    (object parent present; put: creatable value, fresh identifiers; delete: key present), and their
    timestamps are pairwise distinguishable by `Ts.cmp` -/
def Good (d : Doc) (ops : List ObjOp) : Prop :=
  d.WF ∧ (∀ o ∈ ops, OpOK d o) ∧ ops.Pairwise (fun a b => a.ts.cmp b.ts ≠ .eq)

def applyAll (d : Doc) (ops : List ObjOp) : Doc := ops.foldl applyOp d

theorem good_perm {d : Doc} {l l' : List ObjOp} (hp : l.Perm l') (h : Good d l) : Good d l' := by
  refine ⟨h.1, fun o ho => h.2.1 o (hp.mem_iff.mpr ho), ?_⟩
  refine (List.Perm.pairwise_iff ?_ hp).mp h.2.2
  intro x y hxy e
  exact hxy (cmp_eq_symm _ _ e)

theorem good_step {d : Doc} {x : ObjOp} {l : List ObjOp} (h : Good d (x :: l)) : Good (applyOp d x) l := by
  obtain ⟨hwf, hok, hpw⟩ := h
  rw [List.pairwise_cons] at hpw
  have hx := hok x (by simp)
  refine ⟨wf_op hwf x hx, ?_, hpw.2⟩
  intro o ho
  exact opOK_after_op hwf hx (hok o (List.mem_cons_of_mem _ ho)) (hpw.1 o ho)

theorem good_applyAll {l : List ObjOp} : ∀ {d : Doc}, Good d l → (applyAll d l).WF := by
  induction l with
  | nil => intro d h; exact h.1
  | cons x l ih => intro d h; exact ih (good_step h)

theorem sim_congr_op {d d' : Doc} {x : ObjOp} {l : List ObjOp} (h1 : Good d (x :: l)) (h2 : Good d' (x :: l))
    (h : Sim d d') : Sim (applyOp d x) (applyOp d' x) := by
  unfold Sim at *
  rw [sim_op h1.1 x (h1.2.1 x (by simp)), sim_op h2.1 x (h2.2.1 x (by simp)), h]

/-- the abstraction of the result is the fold of the abstract operations -/
theorem abs_applyAll {l : List ObjOp} : ∀ {d : Doc}, Good d l →
    abs (applyAll d l) = l.foldl (fun A o => absOp o A) (abs d) := by
  induction l with
  | nil => intro d _; rfl
  | cons x l ih =>
    intro d h
    simp only [applyAll, List.foldl_cons]
    have := ih (good_step h)
    simp only [applyAll] at this
    rw [this, sim_op h.1 x (h.2.1 x (by simp))]

/-- D: two replicas that start from observationally equivalent well-formed documents and apply the same
    remote object operations (puts / deletes on existing object parents, fresh identifiers, deletes only
    of present keys, pairwise distinguishable timestamps) in two different orders end in observationally
    equivalent documents -/
theorem converge_sim {d d' : Doc} {l l' : List ObjOp} (hp : l.Perm l') (h : Good d l) (h' : Good d' l)
    (hs : Sim d d') : Sim (applyAll d l) (applyAll d' l') :=
  perm_fold_equiv applyOp Sim sim_equivalence Good
    (fun _ _ _ hp h => good_perm hp h) (fun _ _ _ h => good_step h)
    (fun _ _ _ _ h1 h2 h => sim_congr_op h1 h2 h)
    (fun z x y l h => by
      have hpw := h.2.2
      rw [List.pairwise_cons] at hpw
      exact op_comm_partial h.1 (h.2.1 x (by simp)) (h.2.1 y (by simp)) (hpw.1 y (by simp)))
    l l' hp d d' h h' hs

theorem converge_sim_same {d : Doc} {l l' : List ObjOp} (hp : l.Perm l') (h : Good d l) :
    Sim (applyAll d l) (applyAll d l') := converge_sim hp h h (sim_refl d)


/-! ### C: what one key holds after any application order -/

/-- the state an operation leaves on its key when it wins -/
def stOf : ObjOp → KeySt
  | .put _ _ _ ts => ⟨false, ts, some ts⟩
  | .del _ _ ts => ⟨true, ts, none⟩

def isDel : ObjOp → Bool
  | .del _ _ _ => true
  | _ => false

/-- the operations of a list that address key `k` of `p` -/
def keyOps (p : Ts) (k : String) (ops : List ObjOp) : List ObjOp :=
  ops.filter (fun o => decide (o.parent = p ∧ o.key = k))

/-- last-writer-wins against the initial state `s` of the key -/
def lww (s : Option KeySt) (w : Option ObjOp) : Option KeySt :=
  match w, s with
  | none, s => s
  | some w, none => some (stOf w)
  | some w, some st => if st.time.cmp w.ts = .lt then some (stOf w) else some st

theorem stepOf_st_some (o : ObjOp) (st : KeySt) :
    (stepOf o (some st)).st = if st.time.cmp o.ts = .lt then some (stOf o) else some st := by
  cases o <;> simp only [stepOf, putStep, delStep, stOf, ObjOp.ts] <;> split <;> simp [*]

theorem stepOf_st_none (o : ObjOp) (h : isDel o = false) : (stepOf o none).st = some (stOf o) := by
  cases o with
  | put p k v ts => rfl
  | del p k ts => cases h

theorem fold_lww (s : Option KeySt) : ∀ (l : List ObjOp), (s = none → ∀ o ∈ l, isDel o = false) →
    l.foldl (fun s o => (stepOf o s).st) s = lww s (Spec.maxBy ObjOp.ts l) := by
  intro l
  induction l using List.reverseRecOn with
  | nil => intro _; rfl
  | append_singleton xs x ih =>
    intro hdel
    have ih' := ih (fun hs o ho => hdel hs o (List.mem_append_left _ ho))
    rw [List.foldl_append, List.foldl_cons, List.foldl_nil, ih', maxBy_snoc]
    cases hm : Spec.maxBy ObjOp.ts xs with
    | none =>
      cases s with
      | none =>
        simp only [lww]
        exact stepOf_st_none x (hdel rfl x (by simp))
      | some st => simp only [lww, stepOf_st_some]
    | some y =>
      cases s with
      | none =>
        simp only [lww, stepOf_st_some]
        have : (stOf y).time = y.ts := by cases y <;> rfl
        rw [this]
        by_cases c : y.ts.cmp x.ts = .lt <;> simp [c]
      | some st =>
        have hy : (stOf y).time = y.ts := by cases y <;> rfl
        simp only [lww]
        by_cases c1 : st.time.cmp y.ts = .lt
        · simp only [c1, if_true, stepOf_st_some, hy]
          by_cases c : y.ts.cmp x.ts = .lt
          · have := cmp_lt_trans _ _ _ c1 c
            simp [c, this]
          · simp [c, c1]
        · simp only [c1, if_false, stepOf_st_some]
          by_cases c : y.ts.cmp x.ts = .lt
          · simp [c]
          · have : ¬ st.time.cmp x.ts = .lt := fun h => (cmp_neg_trans _ y.ts _ h).elim c1 c
            simp [c, c1, this]

theorem absOp_key {o : ObjOp} {A : Abs} {q : Ts} (hq : q ∉ ids (nodesOf o)) (k' : String) :
    (absOp o A).key q k' =
      if o.parent = q ∧ o.key = k' then (stepOf o (A.key q k')).st else A.key q k' := by
  have hN := (supp_abs_mk (nodesOf o)) q hq
  have hu : ∀ k'', (union A (abs ⟨nodesOf o⟩)).key q k'' = A.key q k'' := by
    intro k''; simp [union, hN.2.2.1 k'']
  unfold absOp aop applyStep
  rw [kill_key]
  simp only [setKey]
  by_cases e : o.parent = q ∧ o.key = k'
  · obtain ⟨rfl, rfl⟩ := e
    simp [hu]
  · have : ¬ (q = o.parent ∧ k' = o.key) := fun h => e ⟨h.1.symm, h.2.symm⟩
    simp [e, this, hu]

theorem fold_absOp_key {q : Ts} {k' : String} : ∀ (l : List ObjOp) (A : Abs), (∀ o ∈ l, q ∉ ids (nodesOf o)) →
    (l.foldl (fun A o => absOp o A) A).key q k' =
      (keyOps q k' l).foldl (fun s o => (stepOf o s).st) (A.key q k') := by
  intro l
  induction l with
  | nil => intro A _; rfl
  | cons x l ih =>
    intro A h
    simp only [List.foldl_cons, keyOps]
    rw [ih _ (fun o ho => h o (List.mem_cons_of_mem _ ho)), absOp_key (h x (by simp))]
    by_cases e : x.parent = q ∧ x.key = k'
    · simp [e, keyOps]
    · simp [e, keyOps]

/-- C: the state of key `k` of an object `p` of the initial document, after ANY application order of
    applicable remote puts/deletes: last-writer-wins between the initial state of the key and the
    operation on that key with the greatest timestamp (`KeySt` = tombstone flag, LWW time, live occupant) -/
theorem key_denote {d : Doc} {ops : List ObjOp} (h : Good d ops) {p : Ts} {n : DNode} (hp : d.find p = some n)
    (k : String) :
    keyOf' (applyAll d ops) p k = lww (keyOf' d p k) (Spec.maxBy ObjOp.ts (keyOps p k ops)) := by
  have hq : ∀ o ∈ ops, p ∉ ids (nodesOf o) := fun o ho => not_mem_nodes_of_table (h.2.1 o ho) hp
  have h1 := congrArg (fun A => A.key p k) (abs_applyAll h)
  simp only [abs] at h1
  rw [h1, fold_absOp_key ops _ hq]
  apply fold_lww
  intro hnone o ho
  simp only [keyOps, List.mem_filter, decide_eq_true_eq] at ho
  cases o with
  | put _ _ _ _ => rfl
  | del p' k' ts =>
    exfalso
    have hk := hasKey_iff.mp (h.2.1 _ ho.1)
    simp only [ObjOp.parent, ObjOp.key] at ho
    have hnone' : keyOf' d p k = none := hnone
    rw [ho.2.1, ho.2.2, hnone'] at hk
    cases hk

/-- the right-hand side of `key_denote` does not depend on the order -/
theorem keyOps_maxBy_perm {l l' : List ObjOp} (hp : l.Perm l')
    (hd : l.Pairwise (fun a b => a.ts.cmp b.ts ≠ .eq)) (p : Ts) (k : String) :
    Spec.maxBy ObjOp.ts (keyOps p k l) = Spec.maxBy ObjOp.ts (keyOps p k l') :=
  maxBy_perm ObjOp.ts _ _ (hp.filter _) (List.Pairwise.filter _ hd)

/-- the occupant of a key and its reference state, concretely -/
def occupant (d : Doc) (p : Ts) (k : String) : Option Ts :=
  match d.findObj p with
  | some (_, m, _) => alFind k m
  | none => none

theorem keyOf'_eq_occupant (d : Doc) (p : Ts) (k : String) : keyOf' d p k = (occupant d p k).map (refSt d) := by
  unfold keyOf' occupant Doc.findObj
  cases d.find p with
  | none => rfl
  | some n =>
    obtain ⟨nc, nd, np, nk⟩ := n
    cases nk <;> rfl

/-- C, puts: if the newest operation on key `k` of `p` is a put (newer than what the key held
    initially), then — in any application order — the key is occupied by the root node created by that
    put (identifier = the put's timestamp), and that node is live -/
theorem key_denote_put {d : Doc} {ops : List ObjOp} (h : Good d ops) {p : Ts} {n : DNode} (hp : d.find p = some n)
    {k : String} {p' : Ts} {k' : String} {v : JVal} {ts : Ts}
    (hw : Spec.maxBy ObjOp.ts (keyOps p k ops) = some (.put p' k' v ts))
    (hnew : ∀ st, keyOf' d p k = some st → st.time.cmp ts = .lt) :
    occupant (applyAll d ops) p k = some ts ∧ (applyAll d ops).isTomb ts = false := by
  have h1 := key_denote h hp k
  rw [hw] at h1
  have h2 : keyOf' (applyAll d ops) p k = some ⟨false, ts, some ts⟩ := by
    rw [h1]
    cases hs : keyOf' d p k with
    | none => rfl
    | some st =>
      have := hnew st hs
      simp only [lww, ObjOp.ts, this, if_true, stOf]
  rw [keyOf'_eq_occupant] at h2
  cases ho : occupant (applyAll d ops) p k with
  | none => rw [ho] at h2; cases h2
  | some c =>
    rw [ho] at h2
    simp only [Option.map_some, Option.some.injEq, refSt] at h2
    have ht : (applyAll d ops).isTomb c = false := congrArg KeySt.tomb h2
    have hocc := congrArg KeySt.occ h2
    simp only [ht, Bool.false_eq_true, if_false, Option.some.injEq] at hocc
    subst hocc
    exact ⟨rfl, ht⟩

/-- C, deletes: if the newest operation on the key is a delete (newer than what the key held initially),
    the occupant of the key is a tombstone in any application order: the key is absent from the view -/
theorem key_denote_del {d : Doc} {ops : List ObjOp} (h : Good d ops) {p : Ts} {n : DNode} (hp : d.find p = some n)
    {k : String} {p' : Ts} {k' : String} {ts : Ts}
    (hw : Spec.maxBy ObjOp.ts (keyOps p k ops) = some (.del p' k' ts))
    (hnew : ∀ st, keyOf' d p k = some st → st.time.cmp ts = .lt) :
    ∃ c, occupant (applyAll d ops) p k = some c ∧ (applyAll d ops).isTomb c = true ∧
      (applyAll d ops).timeOf c = ts := by
  have h1 := key_denote h hp k
  rw [hw] at h1
  have h2 : keyOf' (applyAll d ops) p k = some ⟨true, ts, none⟩ := by
    rw [h1]
    cases hs : keyOf' d p k with
    | none => rfl
    | some st =>
      have := hnew st hs
      simp only [lww, ObjOp.ts, this, if_true, stOf]
  rw [keyOf'_eq_occupant] at h2
  cases ho : occupant (applyAll d ops) p k with
  | none => rw [ho] at h2; cases h2
  | some c =>
    rw [ho] at h2
    simp only [Option.map_some, Option.some.injEq, refSt] at h2
    exact ⟨c, rfl, congrArg KeySt.tomb h2, congrArg KeySt.time h2⟩


/-! ### counterexamples: commutation up to `DocEq` is FALSE (three independent reasons), and E: non-vacuity -/

namespace Ex
def tA : Ts := ⟨0, 1, "a", 0⟩
def tB : Ts := ⟨0, 2, "b", 0⟩
def tC : Ts := ⟨0, 3, "c", 0⟩
def tD : Ts := ⟨0, 4, "d", 0⟩
def root : Ts := Ts.oldest

/-- decidable projections of a node -/
def keysAt (d : Doc) (c : Ts) : List String :=
  match d.find c with
  | some n => (match n.kind with | .obj m _ => m.map (·.1) | _ => [])
  | none => []
def dOf (d : Doc) (c : Ts) : Option (Option Ts) := (d.find c).map (·.d)

theorem not_docEq_of_keysAt {a b : Doc} (c : Ts) (h : keysAt a c ≠ keysAt b c) : ¬ DocEq a b := by
  intro e; apply h; unfold keysAt; rw [e c]
theorem not_docEq_of_dOf {a b : Doc} (c : Ts) (h : dOf a c ≠ dOf b c) : ¬ DocEq a b := by
  intro e; apply h; unfold dOf; rw [e c]
theorem not_docEq_of_occupant {a b : Doc} (p : Ts) (k : String) (h : occupant a p k ≠ occupant b p k) :
    ¬ DocEq a b := by
  intro e; apply h; unfold occupant; rw [docEq_findObj e p]

/-- (1) key order: two puts of NEW keys of the same object: the association list keeps arrival order,
    so neither `DocEq` nor syntactic equality of `view` holds; the key-sorted views agree -/
def e1a : Doc := applyAll Doc.empty [.put root "x" (.num 1) tA, .put root "y" (.num 2) tB]
def e1b : Doc := applyAll Doc.empty [.put root "y" (.num 2) tB, .put root "x" (.num 1) tA]
example : keysAt e1a root = ["x", "y"] ∧ keysAt e1b root = ["y", "x"] := by decide
theorem put_put_not_docEq_keyOrder : ¬ DocEq e1a e1b := not_docEq_of_keysAt root (by decide)
example : (e1a.view == e1b.view) = false ∧ (e1a.view.canon == e1b.view.canon) = true := by decide

/-- (2) deletion time of a superseded container: `k ↦ {x:1}` (put A), then puts B < C on the same key.
    The tombstoned object A keeps `d = B` in one order and `d = C` in the other (funeral with the winner
    of the moment); A is referenced by nobody any more, the views are equal -/
def base2 : Doc := applyOp Doc.empty (.put root "k" (.obj [("x", .num 1)]) tA)
def e2a : Doc := applyAll base2 [.put root "k" (.num 2) tB, .put root "k" (.num 3) tC]
def e2b : Doc := applyAll base2 [.put root "k" (.num 3) tC, .put root "k" (.num 2) tB]
example : dOf e2a tA = some (some tB) ∧ dOf e2b tA = some (some tC) := by decide
theorem put_put_not_docEq_tombTime : ¬ DocEq e2a e2b := not_docEq_of_dOf tA (by decide)
example : (e2a.view == e2b.view) = true := by decide

/-- (3) put / delete on a present key, A < B < C (A element, B object put, C delete): the key ends as a
    tombstone with time C in both orders, but its occupant is the tombstoned B in one order and the
    tombstoned A in the other, and the node tables have different sizes (A left the table in one order) -/
def base3 : Doc := applyOp Doc.empty (.put root "k" (.num 1) tA)
def e3a : Doc := applyAll base3 [.put root "k" (.obj [("x", .num 1)]) tB, .del root "k" tC]
def e3b : Doc := applyAll base3 [.del root "k" tC, .put root "k" (.obj [("x", .num 1)]) tB]
example : occupant e3a root "k" = some tB ∧ occupant e3b root "k" = some tA := by decide
example : e3a.table.length = 3 ∧ e3b.table.length = 4 := by decide
theorem put_del_not_docEq_occupant : ¬ DocEq e3a e3b := not_docEq_of_occupant root "k" (by decide)
example : (e3a.view == e3b.view) = true := by decide
example : e3a.timeOf tB = tC ∧ e3b.timeOf tA = tC ∧ e3a.isTomb tB = true ∧ e3b.isTomb tA = true := by decide

/-- E: a nested scenario — put of a nested object, put inside it, put replacing a nested key, delete —
    in two application orders of the three later operations -/
def nested : JVal := .obj [("a", .arr [.num 1, .obj [("z", .str "s")]]), ("b", .obj [("c", .bool true)])]
def base4 : Doc := applyOp Doc.empty (.put root "doc" nested tA)
/-- identifier of the object under "b" (created fifth by the depth-first traversal) -/
def idB : Ts := ⟨0, 1, "a", 5⟩
example : occupant base4 tA "b" = some idB := by decide
def ops4 : List ObjOp := [.put idB "c" (.num 7) tB, .put idB "n" (.obj [("q", .num 9)]) tC, .del idB "c" tD]
def ops4' : List ObjOp := [.del idB "c" tD, .put idB "n" (.obj [("q", .num 9)]) tC, .put idB "c" (.num 7) tB]
example : (applyAll base4 ops4).view.canon == (applyAll base4 ops4').view.canon := by decide
example : ((applyAll base4 ops4).view ==
    .obj [("doc", .obj [("a", .arr [.num 1, .obj [("z", .str "s")]]), ("b", .obj [("n", .obj [("q", .num 9)])])])]) = true := by
  decide
example : ((applyAll base4 ops4').view ==
    .obj [("doc", .obj [("a", .arr [.num 1, .obj [("z", .str "s")]]), ("b", .obj [("n", .obj [("q", .num 9)])])])]) = true := by
  decide

theorem fresh_of_all {d : Doc} {ns : List DNode} (h : (ids ns).all (fun c => (d.find c).isNone) = true) :
    Fresh d ns := by
  intro c hc
  have := List.all_eq_true.mp h c hc
  simpa using this

/-- the hypotheses of the convergence theorem are satisfiable: `Good base4 ops4` -/
theorem base4_wf : base4.WF :=
  wf_op wf_doc_empty _ ⟨⟨_, _, _, rfl, rfl⟩, ⟨_, _, _, rfl⟩, fresh_of_all (by decide)⟩

theorem good4 : Good base4 ops4 := by
  refine ⟨base4_wf, ?_, by decide⟩
  intro o ho
  simp only [ops4, List.mem_cons, List.mem_nil_iff, or_false] at ho
  rcases ho with rfl | rfl | rfl
  · exact ⟨⟨_, _, _, rfl, rfl⟩, ⟨_, _, _, rfl⟩, fresh_of_all (by decide)⟩
  · exact ⟨⟨_, _, _, rfl, rfl⟩, ⟨_, _, _, rfl⟩, fresh_of_all (by decide)⟩
  · exact ⟨_, _, _, _, rfl, rfl, rfl⟩

example : Sim (applyAll base4 ops4) (applyAll base4 ops4') :=
  converge_sim_same (List.reverse_perm ops4).symm good4

end Ex


/-! ### key-sorted JSON (`JVal.canon`): determined by the lookup function -/

theorem alFind_objPut (k k' : String) (v : JVal) : ∀ (l : List (String × JVal)),
    alFind k' (objPut k v l) = if k = k' then some v else alFind k' l := by
  intro l
  induction l with
  | nil => simp [objPut, alFind]
  | cons x r ih =>
    obtain ⟨k0, v0⟩ := x
    simp only [objPut]
    by_cases h0 : k = k0
    · subst h0
      simp only [if_true, alFind]
      by_cases h2 : k = k' <;> simp [h2]
    · simp only [h0, if_false]
      by_cases h1 : k < k0
      · simp only [h1, if_true, alFind]
      · simp only [h1, if_false, alFind, ih]
        by_cases h2 : k0 = k'
        · have : ¬ k = k' := by rw [← h2]; exact h0
          simp [h2, this]
        · simp [h2]

/-- strictly increasing keys -/
def KSorted (l : List (String × JVal)) : Prop := l.Pairwise (fun a b => a.1 < b.1)

theorem mem_objPut' {k : String} {v : JVal} {x : String × JVal} : ∀ {l : List (String × JVal)},
    x ∈ objPut k v l → x = (k, v) ∨ x ∈ l := by
  intro l
  induction l with
  | nil => intro h; simp [objPut] at h; exact Or.inl h
  | cons y r ih =>
    obtain ⟨k0, v0⟩ := y
    intro h
    simp only [objPut] at h
    split at h
    · rcases List.mem_cons.mp h with h | h
      · exact Or.inl h
      · exact Or.inr (List.mem_cons_of_mem _ h)
    · split at h
      · rcases List.mem_cons.mp h with h | h
        · exact Or.inl h
        · exact Or.inr h
      · rcases List.mem_cons.mp h with h | h
        · exact Or.inr (by rw [h]; simp)
        · rcases ih h with h | h
          · exact Or.inl h
          · exact Or.inr (List.mem_cons_of_mem _ h)

theorem ksorted_objPut (k : String) (v : JVal) : ∀ {l : List (String × JVal)}, KSorted l → KSorted (objPut k v l) := by
  intro l
  induction l with
  | nil => intro _; simp [objPut, KSorted]
  | cons y r ih =>
    obtain ⟨k0, v0⟩ := y
    intro h
    unfold KSorted at h ih ⊢
    rw [List.pairwise_cons] at h
    simp only [objPut]
    by_cases h0 : k = k0
    · subst h0
      simp only [if_true, List.pairwise_cons]
      exact h
    · simp only [h0, if_false]
      by_cases h1 : k < k0
      · simp only [h1, if_true]
        rw [List.pairwise_cons]
        refine ⟨?_, List.pairwise_cons.mpr h⟩
        intro x hx
        rcases List.mem_cons.mp hx with rfl | hx
        · exact h1
        · exact lt_trans h1 (h.1 x hx)
      · simp only [h1, if_false]
        rw [List.pairwise_cons]
        refine ⟨?_, ih h.2⟩
        intro x hx
        rcases mem_objPut' hx with rfl | hx
        · rcases lt_trichotomy k k0 with c | c | c
          · exact absurd c h1
          · exact absurd c h0
          · exact c
        · exact h.1 x hx

theorem alFind_none_of_lt {k : String} : ∀ {l : List (String × JVal)}, (∀ x ∈ l, k < x.1) → alFind k l = none := by
  intro l
  induction l with
  | nil => intro _; rfl
  | cons y r ih =>
    obtain ⟨k0, v0⟩ := y
    intro h
    have h0 : k < k0 := h (k0, v0) (by simp)
    have : ¬ k0 = k := fun e => lt_irrefl k (e ▸ h0)
    simp only [alFind, this, if_false]
    exact ih (fun x hx => h x (List.mem_cons_of_mem _ hx))

/-- two strictly sorted association lists with the same lookup function are equal -/
theorem ksorted_ext : ∀ {l l' : List (String × JVal)}, KSorted l → KSorted l' →
    (∀ k, alFind k l = alFind k l') → l = l' := by
  intro l
  induction l with
  | nil =>
    intro l' _ _ h
    cases l' with
    | nil => rfl
    | cons y r =>
      obtain ⟨k0, v0⟩ := y
      have := h k0
      simp [alFind] at this
  | cons x r ih =>
    obtain ⟨k, v⟩ := x
    intro l' hs hs' h
    cases l' with
    | nil =>
      have := h k
      simp [alFind] at this
    | cons y r' =>
      obtain ⟨k', v'⟩ := y
      unfold KSorted at hs hs'
      rw [List.pairwise_cons] at hs hs'
      have hk : k = k' := by
        by_contra hne
        have h1 := h k
        have hne' : ¬ k' = k := fun e => hne e.symm
        simp only [alFind, if_true, hne', if_false] at h1
        have m1 := alFind_some_mem k v r' h1.symm
        have lt1 : k' < k := hs'.1 _ m1
        have h2 := h k'
        simp only [alFind, if_true, hne, if_false] at h2
        have m2 := alFind_some_mem k' v' r h2
        have lt2 : k < k' := hs.1 _ m2
        exact lt_irrefl k (lt_trans lt2 lt1)
      subst hk
      have hv : v = v' := by
        have h1 := h k
        simpa [alFind] using h1
      subst hv
      have : r = r' := by
        apply ih hs.2 hs'.2
        intro k''
        by_cases e : k = k''
        · subst e
          rw [alFind_none_of_lt (fun x hx => hs.1 x hx), alFind_none_of_lt (fun x hx => hs'.1 x hx)]
        · have := h k''
          simpa [alFind, e] using this
      rw [this]

theorem canon_obj (kvs : List (String × JVal)) : (JVal.obj kvs).canon = .obj (JVal.canonKvs kvs) := by
  simp [JVal.canon]
theorem canon_arr (l : List JVal) : (JVal.arr l).canon = .arr (JVal.canonList l) := by
  simp [JVal.canon]

theorem canonList_eq_map : ∀ (l : List JVal), JVal.canonList l = l.map JVal.canon := by
  intro l
  induction l with
  | nil => simp [JVal.canonList]
  | cons x r ih => simp [JVal.canonList, ih]

theorem ksorted_canonKvs : ∀ (l : List (String × JVal)), KSorted (JVal.canonKvs l) := by
  intro l
  induction l with
  | nil => simp [JVal.canonKvs, KSorted]
  | cons x r ih =>
    obtain ⟨k, v⟩ := x
    simp only [JVal.canonKvs]
    exact ksorted_objPut _ _ ih

theorem alFind_canonKvs (k : String) : ∀ (l : List (String × JVal)),
    alFind k (JVal.canonKvs l) = (alFind k l).map JVal.canon := by
  intro l
  induction l with
  | nil => simp [JVal.canonKvs, alFind]
  | cons x r ih =>
    obtain ⟨k0, v⟩ := x
    simp only [JVal.canonKvs, alFind_objPut, alFind, ih]
    by_cases e : k0 = k <;> simp [e]

/-- the key-sorted form of an object depends only on the lookup function of its members' sorted forms -/
theorem canonKvs_ext {l l' : List (String × JVal)}
    (h : ∀ k, (alFind k l).map JVal.canon = (alFind k l').map JVal.canon) :
    JVal.canonKvs l = JVal.canonKvs l' := by
  apply ksorted_ext (ksorted_canonKvs l) (ksorted_canonKvs l')
  intro k
  rw [alFind_canonKvs, alFind_canonKvs, h k]


/-! ### depth bound: the fuel `table.length + 1` of `view` is enough -/

/-- children have smaller rank -/
def Ranked (d : Doc) (rk : Ts → Nat) : Prop :=
  ∀ p n, d.find p = some n → ∀ c ∈ kids n.kind, rk c < rk p

/-- the reference graph is acyclic and no deeper than the table is long -/
def Bounded (d : Doc) : Prop := ∃ rk, Ranked d rk ∧ ∀ c, rk c < d.table.length

theorem bounded_empty : Bounded Doc.empty := by
  refine ⟨fun _ => 0, ?_, by simp [Doc.empty]⟩
  intro p n h c hc
  unfold Doc.find Doc.empty at h
  simp only [List.find?_cons, List.find?_nil] at h
  split at h
  · simp only [Option.some.injEq] at h; subst h; simp [kids] at hc
  · cases h

theorem viewOf_stable {d : Doc} {rk : Ts → Nat} (h : Ranked d rk) :
    ∀ (f f' : Nat) (c : Ts), rk c < f → rk c < f' → d.viewOf f c = d.viewOf f' c := by
  intro f
  induction f with
  | zero => intro f' c h1; omega
  | succ f ih =>
    intro f' c h1 h2
    cases f' with
    | zero => omega
    | succ f' =>
      simp only [Doc.viewOf]
      cases hf : d.find c with
      | none => rfl
      | some n =>
        obtain ⟨nc, nd, np, nk⟩ := n
        cases nk with
        | elem v => rfl
        | obj m s =>
          simp only [JVal.obj.injEq]
          apply List.filterMap_congr
          intro x hx
          have : rk x.2 < rk c := h c _ hf x.2 (List.mem_map.mpr ⟨x, hx, rfl⟩)
          rw [ih f' x.2 (by omega) (by omega)]
        | arr sl s =>
          simp only [JVal.arr.injEq]
          apply List.filterMap_congr
          intro x hx
          have : rk x.2 < rk c := h c _ hf x.2 (List.mem_map.mpr ⟨x, hx, rfl⟩)
          rw [ih f' x.2 (by omega) (by omega)]

theorem ranked_funeral {d : Doc} {rk : Ts → Nat} (h : Ranked d rk) (x t : Ts) : Ranked (d.funeral x t) rk := by
  intro q n hq c hc
  rw [find_funeral] at hq
  by_cases e : q = x
  · subst e
    simp only [if_true] at hq
    cases hf : d.find q with
    | none => rw [hf] at hq; simp [fun1] at hq
    | some n0 =>
      rw [hf] at hq
      simp only [fun1] at hq
      split at hq
      · cases hq
      · simp only [Option.some.injEq] at hq; subst hq; exact h q n0 hf c hc
  · simp only [e, if_false] at hq; exact h q n hq c hc

theorem ranked_makeTomb {d : Doc} {rk : Ts → Nat} (h : Ranked d rk) (x t : Ts) : Ranked (d.makeTomb x t) rk := by
  intro q n hq c hc
  rw [find_makeTomb] at hq
  by_cases e : q = x
  · subst e
    simp only [if_true] at hq
    cases hf : d.find q with
    | none => rw [hf] at hq; simp at hq
    | some n0 =>
      rw [hf] at hq
      simp only [Option.map_some, Option.some.injEq] at hq; subst hq; exact h q n0 hf c hc
  · simp only [e, if_false] at hq; exact h q n hq c hc

theorem ranked_setKind {d : Doc} {rk : Ts → Nat} (h : Ranked d rk) {p : Ts} {pn : DNode} (hp : d.find p = some pn)
    (K : DKind) (hK : ∀ c ∈ kids K, rk c < rk p) : Ranked (d.set { pn with kind := K }) rk := by
  have hpc := find_some_c hp
  intro q n hq c hc
  rw [find_set] at hq
  by_cases e : pn.c = q
  · simp only [e, if_true, Option.some.injEq] at hq
    subst hq
    rw [← e, hpc]; exact hK c hc
  · simp only [e, if_false] at hq; exact h q n hq c hc

theorem len_set_ge (d : Doc) (n : DNode) : d.table.length ≤ (d.set n).table.length := by
  unfold Doc.set
  simp only
  by_cases h : n.c ∈ ids d.table
  · have := congrArg List.length (ids_tableSet_mem n _ h)
    simp only [ids, List.length_map] at this; omega
  · have := congrArg List.length (ids_tableSet_not_mem n _ h)
    simp only [ids, List.length_map, List.length_append, List.length_singleton] at this; omega

theorem len_set_new (d : Doc) (n : DNode) (h : d.find n.c = none) : (d.set n).table.length = d.table.length + 1 := by
  unfold Doc.set
  have := congrArg List.length (ids_tableSet_not_mem n _ (find_none_iff.mp h))
  simpa [ids] using this

theorem len_addAll : ∀ (ns : List DNode) (d : Doc), Fresh d ns → (ids ns).Nodup →
    (d.addAll ns).table.length = d.table.length + ns.length := by
  intro ns
  induction ns with
  | nil => intro d _ _; rfl
  | cons n ns ih =>
    intro d hf hnd
    have e : d.addAll (n :: ns) = (d.set n).addAll ns := rfl
    simp only [ids, List.map_cons, List.nodup_cons] at hnd
    rw [e, ih (d.set n) ?_ hnd.2, len_set_new d n (hf n.c (by simp [ids]))]
    · simp only [List.length_cons]; omega
    · intro c hc
      rw [find_set]
      have : ¬ n.c = c := fun e' => hnd.1 (e' ▸ hc)
      simp only [this, if_false]
      exact hf c (by simp only [ids, List.map_cons, List.mem_cons]; exact Or.inr hc)

theorem len_filter_nodup (x : Ts) : ∀ (t : List DNode), (ids t).Nodup →
    t.length ≤ (t.filter (fun n => n.c ≠ x)).length + 1 := by
  intro t
  induction t with
  | nil => intro _; simp
  | cons y ys ih =>
    intro h
    simp only [ids, List.map_cons, List.nodup_cons] at h
    by_cases hy : y.c = x
    · have : ys.filter (fun n => decide (n.c ≠ x)) = ys := by
        rw [List.filter_eq_self]
        intro a ha
        have : a.c ≠ x := by
          intro e
          apply h.1
          rw [hy, ← e]
          exact List.mem_map.mpr ⟨a, ha, rfl⟩
        simpa using this
      rw [List.filter_cons_of_neg (by simpa using hy), this]
      simp
    · rw [List.filter_cons_of_pos (by simpa using hy)]
      have := ih h.2
      simp only [List.length_cons]; omega

theorem len_funeral_ge {d : Doc} (hnd : (ids d.table).Nodup) (x t : Ts) :
    d.table.length ≤ (d.funeral x t).table.length + 1 := by
  unfold Doc.funeral
  split
  · omega
  · split
    · exact len_filter_nodup x _ hnd
    · exact Nat.le_succ_of_le (len_set_ge d _)

theorem len_makeTomb_ge (d : Doc) (x t : Ts) : d.table.length ≤ (d.makeTomb x t).table.length := by
  unfold Doc.makeTomb
  split
  · omega
  · exact len_set_ge _ _

/-- a funeral that does not remove anything keeps the length -/
theorem len_funeral_cont {d : Doc} (x t : Ts) (h : ∀ n v, d.find x = some n → n.kind ≠ .elem v) :
    d.table.length ≤ (d.funeral x t).table.length := by
  unfold Doc.funeral
  cases hf : d.find x with
  | none => simp
  | some n =>
    simp only
    split
    · rename_i v hk; exact absurd hk (h n v hf)
    · exact len_set_ge _ _

section putrank
variable {d : Doc} {p : Ts} {v : JVal} {ts : Ts} {pn : DNode} {m : List (String × Ts)} {size : Int}
  {ns : List DNode} {ts' : Ts}

open Classical in
/-- ranks after adding the new nodes: new nodes by reverse creation order, old ranks shifted -/
noncomputable def newRank (rk : Ts → Nat) (ns : List DNode) (ts' : Ts) (shift : Nat) (c : Ts) : Nat :=
  if c ∈ ids ns then ts'.delim - 1 - c.delim else rk c + shift

theorem newRank_old {rk : Ts → Nat} {shift : Nat} {c : Ts} (h : c ∉ ids ns) :
    newRank rk ns ts' shift c = rk c + shift := by
  unfold newRank; simp [h]

theorem newRank_new {rk : Ts → Nat} {shift : Nat} {c : Ts} (h : c ∈ ids ns) :
    newRank rk ns ts' shift c = ts'.delim - 1 - c.delim := by
  unfold newRank; simp [h]

theorem PutPre.mem_ids_delim (h : PutPre d p v ts pn m size ns ts') {c : Ts} (hc : c ∈ ids ns) :
    ts.delim ≤ c.delim ∧ c.delim < ts'.delim ∧ ts'.delim = ts.delim + ns.length := by
  have hb := h.block
  have hnext := hb.next
  rw [hb.ids] at hc
  obtain ⟨i, hi, rfl⟩ := mem_delimSeq.mp hc
  rw [hnext]
  simp only [addDelim]
  refine ⟨by omega, by omega, trivial⟩

theorem PutPre.ranked_addAll (h : PutPre d p v ts pn m size ns ts') {rk : Ts → Nat} (hr : Ranked d rk)
    (shift : Nat) : Ranked (d.addAll ns) (newRank rk ns ts' shift) := by
  intro q n hq c hc
  rcases find_addAll_cases hq with ⟨hn, hnc⟩ | ⟨hnot, hd⟩
  · obtain ⟨nc, hnc', h1, _, h3⟩ := h.block.links n hn c hc
    have hq' : q ∈ ids ns := List.mem_map.mpr ⟨n, hn, hnc⟩
    have hc' : c ∈ ids ns := List.mem_map.mpr ⟨nc, hnc', h1⟩
    rw [newRank_new hq', newRank_new hc']
    have := h.mem_ids_delim hc'
    rw [hnc] at h3
    omega
  · obtain ⟨nc, h1, _⟩ := h.wf.child q n hd c hc
    have hc' : c ∉ ids ns := fun e => by rw [h.fresh c e] at h1; cases h1
    rw [newRank_old hnot, newRank_old hc']
    have := hr q n hd c hc
    omega

theorem PutPre.ns_length_pos (h : PutPre d p v ts pn m size ns ts') : 1 ≤ ns.length := by
  obtain ⟨n0, rest, hns, _, _⟩ := h.root
  rw [hns]; simp

theorem PutPre.p_not_new (h : PutPre d p v ts pn m size ns ts') : p ∉ ids ns := by
  intro e; have := h.fresh p e; rw [h.hp] at this; cases this

theorem PutPre.ts_new (h : PutPre d p v ts pn m size ns ts') : ts ∈ ids ns := by
  obtain ⟨n0, rest, hns, hc, _⟩ := h.root
  rw [hns]; simp [ids, hc]

/-- the depth bound survives a remote put -/
theorem bounded_put (h : PutPre d p v ts pn m size ns ts') (hb : Bounded d) {k : String} {d' : Doc} {r : Option Ts}
    (hr : d.putInObject p k v ts = .ok (d', r)) : Bounded d' := by
  obtain ⟨rk, hrk, hbd⟩ := hb
  have hn1 := h.ns_length_pos
  have hL : 1 ≤ d.table.length := by have := hbd p; omega
  have hlen1 := len_addAll ns d h.fresh (block_ids_nodup h.block)
  have hnd1 : (ids (d.addAll ns).table).Nodup := nodup_addAll ns h.wf.nodup
  have hts := h.mem_ids_delim h.ts_new
  -- rank of a new node is at most ns.length - 1
  have hnewbd : ∀ shift c, c ∈ ids ns → newRank rk ns ts' shift c ≤ ns.length - 1 := by
    intro shift c hc
    rw [newRank_new hc]
    have := h.mem_ids_delim hc
    omega
  have hrk_ts : ∀ shift, newRank rk ns ts' shift ts = ns.length - 1 := by
    intro shift; rw [newRank_new h.ts_new]; omega
  have hkids_p : ∀ shift, ∀ c ∈ m.map (·.2), newRank rk ns ts' shift c < newRank rk ns ts' shift p := by
    intro shift c hc
    have hc' : c ∈ kids pn.kind := by rw [h.hk]; exact hc
    obtain ⟨nc, h1, _⟩ := h.wf.child p pn h.hp c hc'
    have hcn : c ∉ ids ns := fun e => by rw [h.fresh c e] at h1; cases h1
    rw [newRank_old hcn, newRank_old h.p_not_new]
    have := hrk p pn h.hp c hc'
    omega
  have hbound : ∀ shift (L' : Nat), d.table.length + shift ≤ L' → ns.length ≤ L' →
      ∀ c, newRank rk ns ts' shift c < L' := by
    intro shift L' h1 h2 c
    by_cases hc : c ∈ ids ns
    · have := hnewbd shift c hc; omega
    · rw [newRank_old hc]; have := hbd c; omega
  cases hk : alFind k m with
  | none =>
    rw [put_new h hk] at hr
    simp only [Outcome.ok.injEq, Prod.mk.injEq] at hr
    rw [← hr.1]
    refine ⟨newRank rk ns ts' ns.length, ?_, ?_⟩
    · apply ranked_setKind (h.ranked_addAll hrk _) h.hp1
      intro c hc
      simp only [kids, alSet_vals_none ts hk, List.mem_append, List.mem_singleton] at hc
      rcases hc with hc | hc
      · exact hkids_p _ c hc
      · subst hc
        rw [hrk_ts, newRank_old h.p_not_new]; omega
    · have := len_set_ge (d.addAll ns) { pn with kind := .obj (alSet k ts m) (size + 1) }
      exact hbound _ _ (by omega) (by omega)
  | some oldC =>
    by_cases hlt : (d.timeOf oldC).cmp ts = .lt
    · rw [put_win h hk hlt] at hr
      simp only [Outcome.ok.injEq, Prod.mk.injEq] at hr
      rw [← hr.1]
      have hold : oldC ∈ kids pn.kind := by rw [h.hk]; exact alFind_mem_vals hk
      have hrp : 1 ≤ rk p := by have := hrk p pn h.hp oldC hold; omega
      obtain ⟨_, _, i3⟩ := alSet_vals_some (e := ts) h.vals_nodup hk h.ts_notin
      refine ⟨newRank rk ns ts' (ns.length - 1), ?_, ?_⟩
      · apply ranked_funeral
        apply ranked_setKind (h.ranked_addAll hrk _) h.hp1
        intro c hc
        simp only [kids] at hc
        rcases i3 c hc with e | e
        · subst e
          rw [hrk_ts, newRank_old h.p_not_new]; omega
        · exact hkids_p _ c e
      · have l1 := len_set_ge (d.addAll ns)
          { pn with kind := .obj (alSet k ts m) (if d.isTomb oldC = true then size + 1 else size) }
        have l2 := len_funeral_ge (nodup_set
          { pn with kind := .obj (alSet k ts m) (if d.isTomb oldC = true then size + 1 else size) } hnd1) oldC ts
        exact hbound _ _ (by omega) (by omega)
    · rw [put_lose h hk hlt] at hr
      simp only [Outcome.ok.injEq, Prod.mk.injEq] at hr
      rw [← hr.1]
      refine ⟨newRank rk ns ts' 0, ranked_funeral (h.ranked_addAll hrk _) _ _, ?_⟩
      have l2 := len_funeral_ge hnd1 ts oldC
      exact hbound _ _ (by omega) (by omega)

end putrank

theorem bounded_del {d : Doc} (hb : Bounded d) {p : Ts} {k : String} {ts : Ts} {d' : Doc} {r : Option Ts}
    (hr : d.deleteInObject p k ts false = .ok (d', r)) : Bounded d' := by
  obtain ⟨rk, hrk, hbd⟩ := hb
  cases hfo : d.findObj p with
  | none => unfold Doc.deleteInObject at hr; simp [hfo] at hr
  | some x =>
    obtain ⟨pn, m, size⟩ := x
    obtain ⟨hp, hk⟩ := findObj_some_iff.mp hfo
    cases hf : alFind k m with
    | none => rw [del_absent hp hk hf] at hr; cases hr
    | some c =>
      rw [del_eq hp hk hf] at hr
      split at hr
      · simp only [Outcome.ok.injEq, Prod.mk.injEq] at hr
        rw [← hr.1]
        refine ⟨rk, ?_, ?_⟩
        · apply ranked_makeTomb
          apply ranked_setKind hrk hp
          intro x hx
          apply hrk p pn hp x
          rw [hk]; exact hx
        · intro x
          have l1 := len_set_ge d { pn with kind := .obj m (if d.isTomb c = true then size else size - 1) }
          have l2 := len_makeTomb_ge (d.set { pn with kind := .obj m (if d.isTomb c = true then size else size - 1) }) c ts
          have := hbd x
          omega
      · simp only [Outcome.ok.injEq, Prod.mk.injEq] at hr
        rw [← hr.1]; exact ⟨rk, hrk, hbd⟩


/-! ### no duplicate keys inside an object -/

def KeysND (d : Doc) : Prop := ∀ p n m s, d.find p = some n → n.kind = .obj m s → (m.map (·.1)).Nodup

/-- the objects among freshly created nodes have no duplicate keys (true when the JSON value put has none) -/
def NodesKeysND (ns : List DNode) : Prop := ∀ n ∈ ns, ∀ m s, n.kind = .obj m s → (m.map (·.1)).Nodup

theorem keysND_empty : KeysND Doc.empty := by
  intro p n m s h hk
  unfold Doc.find Doc.empty at h
  simp only [List.find?_cons, List.find?_nil] at h
  split at h
  · simp only [Option.some.injEq] at h; subst h
    simp only [DKind.obj.injEq] at hk
    rw [← hk.1]; simp
  · cases h

theorem alSet_keys_nodup {k : String} {e : Ts} {m : List (String × Ts)} (h : (m.map (·.1)).Nodup) :
    ((alSet k e m).map (·.1)).Nodup := by
  cases hf : alFind k m with
  | none =>
    rw [alSet_of_none k e m hf]
    simp only [List.map_append, List.map_cons, List.map_nil]
    rw [List.nodup_append]
    refine ⟨h, by simp, ?_⟩
    intro a ha b hb
    simp only [List.mem_singleton] at hb
    subst hb
    intro e'; subst e'
    exact (alFind_none_iff a m).mp hf ha
  | some old => rw [alSet_keys_of_some k e old m hf]; exact h

theorem funeral_kind {d : Doc} {x t q : Ts} {n : DNode} (hq : (d.funeral x t).find q = some n) :
    ∃ n0, d.find q = some n0 ∧ n.kind = n0.kind := by
  rw [find_funeral] at hq
  by_cases e : q = x
  · subst e
    simp only [if_true] at hq
    cases hf : d.find q with
    | none => rw [hf] at hq; simp [fun1] at hq
    | some n0 =>
      rw [hf] at hq
      simp only [fun1] at hq
      split at hq
      · cases hq
      · simp only [Option.some.injEq] at hq; subst hq; exact ⟨n0, rfl, rfl⟩
  · simp only [e, if_false] at hq; exact ⟨n, hq, rfl⟩

theorem makeTomb_kind {d : Doc} {x t q : Ts} {n : DNode} (hq : (d.makeTomb x t).find q = some n) :
    ∃ n0, d.find q = some n0 ∧ n.kind = n0.kind := by
  rw [find_makeTomb] at hq
  by_cases e : q = x
  · subst e
    simp only [if_true] at hq
    cases hf : d.find q with
    | none => rw [hf] at hq; simp at hq
    | some n0 =>
      rw [hf] at hq
      simp only [Option.map_some, Option.some.injEq] at hq; subst hq; exact ⟨n0, rfl, rfl⟩
  · simp only [e, if_false] at hq; exact ⟨n, hq, rfl⟩

theorem keysND_funeral {d : Doc} (h : KeysND d) (x t : Ts) : KeysND (d.funeral x t) := by
  intro q n m s hq hk
  obtain ⟨n0, h0, hk0⟩ := funeral_kind hq
  exact h q n0 m s h0 (hk0 ▸ hk)

theorem keysND_makeTomb {d : Doc} (h : KeysND d) (x t : Ts) : KeysND (d.makeTomb x t) := by
  intro q n m s hq hk
  obtain ⟨n0, h0, hk0⟩ := makeTomb_kind hq
  exact h q n0 m s h0 (hk0 ▸ hk)

theorem keysND_setKind {d : Doc} (h : KeysND d) (pn : DNode) (m' : List (String × Ts)) (s' : Int)
    (hm : (m'.map (·.1)).Nodup) : KeysND (d.set { pn with kind := .obj m' s' }) := by
  intro q n m s hq hk
  rw [find_set] at hq
  by_cases e : pn.c = q
  · simp only [e, if_true, Option.some.injEq] at hq
    subst hq
    simp only [DKind.obj.injEq] at hk
    rw [← hk.1]; exact hm
  · simp only [e, if_false] at hq; exact h q n m s hq hk

theorem keysND_addAll {d : Doc} (h : KeysND d) {ns : List DNode} (hn : NodesKeysND ns) : KeysND (d.addAll ns) := by
  intro q n m s hq hk
  rcases find_addAll_cases hq with ⟨h1, _⟩ | ⟨_, h1⟩
  · exact hn n h1 m s hk
  · exact h q n m s h1 hk

theorem keysND_put {d : Doc} {p : Ts} {v : JVal} {ts : Ts} {pn : DNode} {m : List (String × Ts)} {size : Int}
    {ns : List DNode} {ts' : Ts} (h : PutPre d p v ts pn m size ns ts') (hk : KeysND d) (hn : NodesKeysND ns)
    {k : String} {d' : Doc} {r : Option Ts} (hr : d.putInObject p k v ts = .ok (d', r)) : KeysND d' := by
  have h1 := keysND_addAll hk hn
  have hm : (m.map (·.1)).Nodup := hk p pn m size h.hp h.hk
  cases hf : alFind k m with
  | none =>
    rw [put_new h hf] at hr
    simp only [Outcome.ok.injEq, Prod.mk.injEq] at hr
    rw [← hr.1]
    exact keysND_setKind h1 _ _ _ (alSet_keys_nodup hm)
  | some oldC =>
    by_cases hlt : (d.timeOf oldC).cmp ts = .lt
    · rw [put_win h hf hlt] at hr
      simp only [Outcome.ok.injEq, Prod.mk.injEq] at hr
      rw [← hr.1]
      exact keysND_funeral (keysND_setKind h1 _ _ _ (alSet_keys_nodup hm)) _ _
    · rw [put_lose h hf hlt] at hr
      simp only [Outcome.ok.injEq, Prod.mk.injEq] at hr
      rw [← hr.1]
      exact keysND_funeral h1 _ _

theorem keysND_del {d : Doc} (hk : KeysND d) {p : Ts} {k : String} {ts : Ts} {d' : Doc} {r : Option Ts}
    (hr : d.deleteInObject p k ts false = .ok (d', r)) : KeysND d' := by
  cases hfo : d.findObj p with
  | none => unfold Doc.deleteInObject at hr; simp [hfo] at hr
  | some x =>
    obtain ⟨pn, m, size⟩ := x
    obtain ⟨hp, hkind⟩ := findObj_some_iff.mp hfo
    cases hf : alFind k m with
    | none => rw [del_absent hp hkind hf] at hr; cases hr
    | some c =>
      rw [del_eq hp hkind hf] at hr
      split at hr
      · simp only [Outcome.ok.injEq, Prod.mk.injEq] at hr
        rw [← hr.1]
        exact keysND_makeTomb (keysND_setKind hk _ _ _ (hk p pn m size hp hkind)) _ _
      · simp only [Outcome.ok.injEq, Prod.mk.injEq] at hr
        rw [← hr.1]; exact hk

/-! ### observationally equivalent documents have the same key-sorted view -/

theorem alFind_filterMap_view {β : Type} (t : Ts → Bool) (g : Ts → β) (k : String) :
    ∀ (m : List (String × Ts)), (m.map (·.1)).Nodup →
    alFind k (m.filterMap fun (k', ch) => if t ch then none else some (k', g ch)) =
      (alFind k m).bind (fun ch => if t ch then none else some (g ch)) := by
  intro m
  induction m with
  | nil => intro _; rfl
  | cons x r ih =>
    obtain ⟨k0, c0⟩ := x
    intro hnd
    simp only [List.map_cons, List.nodup_cons] at hnd
    have ih' := ih hnd.2
    simp only [List.filterMap_cons]
    by_cases ht : t c0 = true
    · simp only [ht, if_true, alFind]
      by_cases h0 : k0 = k
      · subst h0
        have : alFind k0 r = none := (alFind_none_iff k0 r).mpr hnd.1
        rw [ih', this]; simp [ht]
      · simp only [h0, if_false]; exact ih'
    · simp only [ht, Bool.false_eq_true, if_false, alFind]
      by_cases h0 : k0 = k
      · simp [h0, ht]
      · simp only [h0, if_false]; exact ih'

theorem shape_isSome_of_live {d : Doc} {c : Ts} {n : DNode} (h : d.find c = some n) (hl : d.isTomb c = false) :
    (shapeOf d c).isSome := by
  unfold Doc.isTomb at hl
  rw [h] at hl
  simp only at hl
  unfold shapeOf
  rw [h]
  obtain ⟨nc, nd, np, nk⟩ := n
  cases nk <;> simp_all

theorem arr_view_congr {a b : Doc} (f : Nat) : ∀ (sla slb : List (Ts × Ts)),
    sla.map (fun x => (x.1, x.2, refSt a x.2)) = slb.map (fun x => (x.1, x.2, refSt b x.2)) →
    (∀ x ∈ sla, a.isTomb x.2 = false → (a.viewOf f x.2).canon = (b.viewOf f x.2).canon) →
    (sla.filterMap fun (_, ch) => if a.isTomb ch then none else some (a.viewOf f ch)).map JVal.canon =
      (slb.filterMap fun (_, ch) => if b.isTomb ch then none else some (b.viewOf f ch)).map JVal.canon := by
  intro sla
  induction sla with
  | nil =>
    intro slb h _
    cases slb with
    | nil => rfl
    | cons y r => simp at h
  | cons x r ih =>
    intro slb h hP
    cases slb with
    | nil => simp at h
    | cons y r' =>
      obtain ⟨o, ch⟩ := x
      obtain ⟨o', ch'⟩ := y
      simp only [List.map_cons, List.cons.injEq, Prod.mk.injEq] at h
      obtain ⟨⟨_, hch, hst⟩, hrest⟩ := h
      subst hch
      have htomb : a.isTomb ch = b.isTomb ch := congrArg KeySt.tomb hst
      have ih' := ih r' hrest (fun x hx => hP x (List.mem_cons_of_mem _ hx))
      simp only [List.filterMap_cons]
      by_cases ht : a.isTomb ch = true
      · have ht' : b.isTomb ch = true := by rw [← htomb]; exact ht
        simp only [ht, ht', if_true]
        exact ih'
      · have ht2 : a.isTomb ch = false := by simpa using ht
        have ht' : b.isTomb ch = false := by rw [← htomb]; exact ht2
        simp only [ht2, ht', Bool.false_eq_true, if_false, List.map_cons, List.cons.injEq]
        exact ⟨hP (o, ch) (by simp) ht2, ih'⟩

/-- with the same fuel, observationally equivalent well-formed documents show the same key-sorted JSON
    below every node that is visible (a container, or a live element) -/
theorem sim_viewOf {a b : Doc} (hs : Sim a b) (wa : a.WF) (ka : KeysND a) (kb : KeysND b) :
    ∀ (f : Nat) (c : Ts), (shapeOf a c).isSome → (a.viewOf f c).canon = (b.viewOf f c).canon := by
  have hshape : ∀ c, shapeOf a c = shapeOf b c := fun c => congrArg (fun A => A.shape c) hs
  have hkey : ∀ c k, keyOf' a c k = keyOf' b c k := fun c k => congrArg (fun A => A.key c k) hs
  intro f
  induction f with
  | zero => intro c _; rfl
  | succ f ih =>
    intro c hc
    have hsc := hshape c
    have hchild : ∀ n, a.find c = some n → ∀ ch ∈ kids n.kind, a.isTomb ch = false →
        (a.viewOf f ch).canon = (b.viewOf f ch).canon := by
      intro n hn ch hch hl
      obtain ⟨nc, h1, _⟩ := wa.child c n hn ch hch
      exact ih ch (shape_isSome_of_live h1 hl)
    simp only [Doc.viewOf]
    cases hfa : a.find c with
    | none => simp [shapeOf, hfa] at hc
    | some na =>
      cases hfb : b.find c with
      | none =>
        rw [hsc] at hc
        simp [shapeOf, hfb] at hc
      | some nb =>
        obtain ⟨ac, ad, ap, ak⟩ := na
        obtain ⟨bc, bd, bp, bk⟩ := nb
        simp only [shapeOf, hfa, hfb] at hsc hc
        cases ak with
        | elem va =>
          cases bk with
          | elem vb =>
            cases ad with
            | some _ => simp at hc
            | none =>
              cases bd with
              | some _ => simp at hsc
              | none =>
                simp only [Option.isSome_none, Bool.false_eq_true, if_false, Option.some.injEq, Prod.mk.injEq,
                  Shape.elem.injEq] at hsc
                rw [hsc.2]
          | obj mb sb => cases ad <;> simp at hsc
          | arr slb sb => cases ad <;> simp at hsc
        | obj ma sa =>
          cases bk with
          | elem vb => cases bd <;> simp at hsc
          | arr slb sb => simp at hsc
          | obj mb sb =>
            simp only [canon_obj, JVal.obj.injEq]
            apply canonKvs_ext
            intro k
            rw [alFind_filterMap_view _ _ k ma (ka c _ ma sa hfa rfl),
              alFind_filterMap_view _ _ k mb (kb c _ mb sb hfb rfl)]
            have hk := hkey c k
            simp only [keyOf', hfa, hfb] at hk
            cases hma : alFind k ma with
            | none =>
              rw [hma] at hk
              cases hmb : alFind k mb with
              | none => rfl
              | some chb => rw [hmb] at hk; simp at hk
            | some cha =>
              rw [hma] at hk
              cases hmb : alFind k mb with
              | none => rw [hmb] at hk; simp at hk
              | some chb =>
                rw [hmb] at hk
                simp only [Option.map_some, Option.some.injEq] at hk
                have htomb : a.isTomb cha = b.isTomb chb := congrArg KeySt.tomb hk
                simp only [Option.bind_some]
                by_cases ht : a.isTomb cha = true
                · have ht' : b.isTomb chb = true := by rw [← htomb]; exact ht
                  simp [ht, ht']
                · have ht2 : a.isTomb cha = false := by simpa using ht
                  have ht' : b.isTomb chb = false := by rw [← htomb]; exact ht2
                  have hocc := congrArg KeySt.occ hk
                  simp only [refSt, ht2, ht', Bool.false_eq_true, if_false, Option.some.injEq] at hocc
                  subst hocc
                  simp only [ht2, ht', Bool.false_eq_true, if_false, Option.map_some, Option.some.injEq]
                  exact hchild _ hfa cha (alFind_mem_vals hma) ht2
        | arr sla sa =>
          cases bk with
          | elem vb => cases bd <;> simp at hsc
          | obj mb sb => simp at hsc
          | arr slb sb =>
            simp only [Option.some.injEq, Prod.mk.injEq, Shape.arr.injEq] at hsc
            simp only [canon_arr, canonList_eq_map, JVal.arr.injEq]
            apply arr_view_congr f sla slb hsc.2
            intro x hx hl
            exact hchild _ hfa x.2 (List.mem_map.mpr ⟨x, hx, rfl⟩) hl

/-- `view` / `viewAt` of observationally equivalent documents agree after key sorting -/
theorem sim_viewAt_canon {a b : Doc} (hs : Sim a b) (wa : a.WF) (ka : KeysND a) (kb : KeysND b)
    (ba : Bounded a) (bb : Bounded b) {c : Ts} (hc : (shapeOf a c).isSome) :
    (a.viewAt c).canon = (b.viewAt c).canon := by
  obtain ⟨rka, hra, hba⟩ := ba
  obtain ⟨rkb, hrb, hbb⟩ := bb
  unfold Doc.viewAt
  have h1 := hba c
  have h2 := hbb c
  rw [viewOf_stable hra (a.table.length + 1) (a.table.length + 1 + b.table.length) c (by omega) (by omega),
    viewOf_stable hrb (b.table.length + 1) (a.table.length + 1 + b.table.length) c (by omega) (by omega)]
  exact sim_viewOf hs wa ka kb _ c hc

theorem sim_view_canon {a b : Doc} (hs : Sim a b) (wa : a.WF) (ka : KeysND a) (kb : KeysND b)
    (ba : Bounded a) (bb : Bounded b) (hroot : IsObj a Ts.oldest) : a.view.canon = b.view.canon := by
  have : (shapeOf a Ts.oldest).isSome := by
    obtain ⟨par, h⟩ := isObj_iff.mp hroot
    rw [h]; rfl
  exact sim_viewAt_canon hs wa ka kb ba bb this


/-! ### values without duplicate keys create objects without duplicate keys -/

mutual
/-- no object inside the value has a duplicate key (the codec hands the model key-sorted objects) -/
def JKeysND : JVal → Prop
  | .arr l => JKeysNDList l
  | .obj kvs => (kvs.map (·.1)).Nodup ∧ JKeysNDKvs kvs
  | _ => True
def JKeysNDList : List JVal → Prop
  | [] => True
  | v :: vs => JKeysND v ∧ JKeysNDList vs
def JKeysNDKvs : List (String × JVal) → Prop
  | [] => True
  | (_, v) :: r => JKeysND v ∧ JKeysNDKvs r
end

theorem createObjItems_keys (parent : Ts) : ∀ (kvs : List (String × JVal)) (ts : Ts) (ns : List DNode)
    (m : List (String × Ts)) (ts' : Ts), createObjItems parent ts kvs = .ok (ns, m, ts') →
    m.map (·.1) = kvs.map (·.1)
  | [], ts, ns, m, ts', h => by
    simp only [createObjItems, Outcome.ok.injEq, Prod.mk.injEq] at h
    obtain ⟨_, rfl, _⟩ := h
    rfl
  | (k, v) :: kvs, ts, ns, m, ts', h => by
    simp only [createObjItems] at h
    split at h
    · rename_i ns1 c ts1 h1
      split at h
      · rename_i ns2 m2 ts2 h2
        simp only [Outcome.ok.injEq, Prod.mk.injEq] at h
        obtain ⟨_, rfl, _⟩ := h
        simp only [List.map_cons, createObjItems_keys parent kvs ts1 ns2 m2 ts2 h2]
      · cases h
      · cases h
    · cases h
    · cases h

theorem nodesKeysND_append {a b : List DNode} (ha : NodesKeysND a) (hb : NodesKeysND b) : NodesKeysND (a ++ b) := by
  intro n hn
  rcases List.mem_append.mp hn with h | h
  · exact ha n h
  · exact hb n h

mutual
theorem createNode_keysND (parent ts : Ts) : ∀ (v : JVal) (r : List DNode × Ts × Ts),
    createNode parent ts v = .ok r → JKeysND v → NodesKeysND r.1
  | .null, r, h, _ => by simp [createNode] at h
  | .bool b, r, h, _ => by
    simp only [createNode, Outcome.ok.injEq] at h; subst h
    intro n hn m s hk; simp only [List.mem_singleton] at hn; subst hn; cases hk
  | .num b, r, h, _ => by
    simp only [createNode, Outcome.ok.injEq] at h; subst h
    intro n hn m s hk; simp only [List.mem_singleton] at hn; subst hn; cases hk
  | .str b, r, h, _ => by
    simp only [createNode, Outcome.ok.injEq] at h; subst h
    intro n hn m s hk; simp only [List.mem_singleton] at hn; subst hn; cases hk
  | .obj kvs, r, h, hv => by
    simp only [createNode] at h
    simp only [JKeysND] at hv
    split at h
    · rename_i ns m ts' hi
      simp only [Outcome.ok.injEq] at h; subst h
      have hitems := createObjItems_keysND ts ts.nextDelim kvs ns m ts' hi hv.2
      intro n hn m' s hk
      rcases List.mem_cons.mp hn with rfl | hn
      · simp only [DKind.obj.injEq] at hk
        rw [← hk.1, createObjItems_keys ts kvs ts.nextDelim ns m ts' hi]; exact hv.1
      · exact hitems n hn m' s hk
    · cases h
    · cases h
  | .arr vs, r, h, hv => by
    simp only [createNode] at h
    simp only [JKeysND] at hv
    split at h
    · rename_i ns cs ts' hi
      simp only [Outcome.ok.injEq] at h; subst h
      have hitems := createArrItems_keysND ts ts.nextDelim vs ns cs ts' hi hv
      intro n hn m' s hk
      rcases List.mem_cons.mp hn with rfl | hn
      · cases hk
      · exact hitems n hn m' s hk
    · cases h
    · cases h
theorem createArrItems_keysND (parent ts : Ts) : ∀ (vs : List JVal) (ns : List DNode) (cs : List Ts) (ts' : Ts),
    createArrItems parent ts vs = .ok (ns, cs, ts') → JKeysNDList vs → NodesKeysND ns
  | [], ns, cs, ts', h, _ => by
    simp only [createArrItems, Outcome.ok.injEq, Prod.mk.injEq] at h
    obtain ⟨rfl, _, _⟩ := h
    intro n hn; cases hn
  | v :: vs, ns, cs, ts', h, hv => by
    simp only [createArrItems] at h
    simp only [JKeysNDList] at hv
    split at h
    · rename_i ns1 c ts1 h1
      split at h
      · rename_i ns2 cs2 ts2 h2
        simp only [Outcome.ok.injEq, Prod.mk.injEq] at h
        obtain ⟨rfl, _, _⟩ := h
        exact nodesKeysND_append (createNode_keysND parent ts v _ h1 hv.1)
          (createArrItems_keysND parent ts1 vs _ _ _ h2 hv.2)
      · cases h
      · cases h
    · cases h
    · cases h
theorem createObjItems_keysND (parent ts : Ts) : ∀ (kvs : List (String × JVal)) (ns : List DNode)
    (m : List (String × Ts)) (ts' : Ts),
    createObjItems parent ts kvs = .ok (ns, m, ts') → JKeysNDKvs kvs → NodesKeysND ns
  | [], ns, cs, ts', h, _ => by
    simp only [createObjItems, Outcome.ok.injEq, Prod.mk.injEq] at h
    obtain ⟨rfl, _, _⟩ := h
    intro n hn; cases hn
  | (k, v) :: kvs, ns, cs, ts', h, hv => by
    simp only [createObjItems] at h
    simp only [JKeysNDKvs] at hv
    split at h
    · rename_i ns1 c ts1 h1
      split at h
      · rename_i ns2 cs2 ts2 h2
        simp only [Outcome.ok.injEq, Prod.mk.injEq] at h
        obtain ⟨rfl, _, _⟩ := h
        exact nodesKeysND_append (createNode_keysND parent ts v _ h1 hv.1)
          (createObjItems_keysND parent ts1 kvs _ _ _ h2 hv.2)
      · cases h
      · cases h
    · cases h
    · cases h
end

/-- the value of a put has no duplicate keys -/
def OpKeysND : ObjOp → Prop
  | .put _ _ v _ => JKeysND v
  | .del _ _ _ => True

theorem nodesKeysND_of_op (o : ObjOp) (h : OpKeysND o) : NodesKeysND (nodesOf o) := by
  cases o with
  | del p k ts => intro n hn; simp [nodesOf] at hn
  | put p k v ts =>
    simp only [nodesOf]
    split
    · rename_i ns c t' hc
      exact createNode_keysND p ts v _ hc h
    · intro n hn; cases hn

/-! ### D, with views -/

/-- what the view theorem needs beyond `Doc.WF`: no duplicate keys, bounded depth, an object root -/
structure ViewOK (d : Doc) : Prop where
  keys : KeysND d
  bounded : Bounded d
  root : IsObj d Ts.oldest

theorem viewOK_empty : ViewOK Doc.empty :=
  ⟨keysND_empty, bounded_empty, ⟨_, _, _, rfl, rfl⟩⟩

theorem viewOK_op {d : Doc} (hwf : d.WF) (hv : ViewOK d) : ∀ (o : ObjOp), OpOK d o → OpKeysND o →
    ViewOK (applyOp d o)
  | .put p k v ts, h, hk => by
    obtain ⟨pn, m, size, ts', hpre⟩ := putPre_of_ok hwf h
    obtain ⟨d', r, hr⟩ := put_ok hpre k
    have e : applyOp d (.put p k v ts) = d' := by simp [applyOp, hr]
    refine ⟨?_, ?_, isObj_after_op hwf _ h hv.root⟩
    · rw [e]; exact keysND_put hpre hv.keys (nodesKeysND_of_op _ hk) hr
    · rw [e]; exact bounded_put hpre hv.bounded hr
  | .del p k ts, h, _ => by
    obtain ⟨pn, m, size, c, hpre⟩ := delPre_of_ok hwf h
    obtain ⟨d', r, hr⟩ := del_ok hpre ts
    have e : applyOp d (.del p k ts) = d' := by simp [applyOp, hr]
    refine ⟨?_, ?_, isObj_after_op hwf _ h hv.root⟩
    · rw [e]; exact keysND_del hv.keys hr
    · rw [e]; exact bounded_del hv.bounded hr

theorem viewOK_applyAll {l : List ObjOp} : ∀ {d : Doc}, Good d l → ViewOK d → (∀ o ∈ l, OpKeysND o) →
    ViewOK (applyAll d l) := by
  induction l with
  | nil => intro d _ hv _; exact hv
  | cons x l ih =>
    intro d h hv hk
    exact ih (good_step h) (viewOK_op h.1 hv x (h.2.1 x (by simp)) (hk x (by simp)))
      (fun o ho => hk o (List.mem_cons_of_mem _ ho))

/-- D (views): two application orders of the same remote object operations give the same document view
    after key sorting (`JVal.canon`; objects are association lists whose key order is arrival order — see
    counterexample (1) — and the driver compares after sorting) -/
theorem converge_view {d : Doc} {l l' : List ObjOp} (hp : l.Perm l') (h : Good d l) (hv : ViewOK d)
    (hk : ∀ o ∈ l, OpKeysND o) : (applyAll d l).view.canon = (applyAll d l').view.canon := by
  have h' := good_perm hp h
  have hk' : ∀ o ∈ l', OpKeysND o := fun o ho => hk o (hp.mem_iff.mpr ho)
  have v1 := viewOK_applyAll h hv hk
  have v2 := viewOK_applyAll h' hv hk'
  exact sim_view_canon (converge_sim_same hp h) (good_applyAll h) v1.keys v2.keys
    v1.bounded v2.bounded v1.root

/-- the same below any node that is visible in the first result (a container or a live element) -/
theorem converge_viewAt {d : Doc} {l l' : List ObjOp} (hp : l.Perm l') (h : Good d l) (hv : ViewOK d)
    (hk : ∀ o ∈ l, OpKeysND o) {c : Ts} (hc : (shapeOf (applyAll d l) c).isSome) :
    ((applyAll d l).viewAt c).canon = ((applyAll d l').viewAt c).canon := by
  have h' := good_perm hp h
  have hk' : ∀ o ∈ l', OpKeysND o := fun o ho => hk o (hp.mem_iff.mpr ho)
  have v1 := viewOK_applyAll h hv hk
  have v2 := viewOK_applyAll h' hv hk'
  exact sim_viewAt_canon (converge_sim_same hp h) (good_applyAll h) v1.keys v2.keys
    v1.bounded v2.bounded hc


/-! ### B in terms of the model's own functions -/

/-- the model call behind an operation -/
def runOp (d : Doc) : ObjOp → Outcome (Doc × Option Ts)
  | .put p k v ts => d.putInObject p k v ts
  | .del p k ts => d.deleteInObject p k ts false

/-- a put that returns `.ok` with fresh identifiers was applicable; a remote delete that returns `.ok` was -/
theorem opOK_of_ok {d : Doc} : ∀ (o : ObjOp) {d' : Doc} {r : Option Ts}, runOp d o = .ok (d', r) →
    Fresh d (nodesOf o) → OpOK d o
  | .put p k v ts, d', r, h, hf => by
    simp only [runOp] at h
    unfold Doc.putInObject at h
    split at h
    · cases h
    · rename_i pn m size hfo
      obtain ⟨h1, h2⟩ := findObj_some_iff.mp hfo
      split at h
      · cases h
      · cases h
      · rename_i ns newC t' hc
        exact ⟨⟨pn, m, size, h1, h2⟩, ⟨ns, newC, t', hc⟩, hf⟩
  | .del p k ts, d', r, h, _ => by
    simp only [runOp] at h
    unfold Doc.deleteInObject at h
    split at h
    · cases h
    · rename_i pn m size hfo
      obtain ⟨h1, h2⟩ := findObj_some_iff.mp hfo
      split at h
      · simp at h
      · rename_i c hc
        exact ⟨pn, m, size, c, h1, h2, hc⟩

theorem runOp_ok {d : Doc} (hwf : d.WF) (o : ObjOp) (h : OpOK d o) :
    ∃ r, runOp d o = .ok (applyOp d o, r) := by
  have := op_returns_ok hwf o h
  cases o with
  | put p k v ts =>
    obtain ⟨d', r, h1, h2⟩ := this
    exact ⟨r, by simp only [runOp]; rw [h1, h2]⟩
  | del p k ts =>
    obtain ⟨d', r, h1, h2⟩ := this
    exact ⟨r, by simp only [runOp]; rw [h1, h2]⟩

/-- A, as asked: a remote put/delete that returns `.ok` (put: with fresh identifiers) keeps `Doc.WF` -/
theorem wf_runOp {d : Doc} (hwf : d.WF) (o : ObjOp) {d' : Doc} {r : Option Ts} (h : runOp d o = .ok (d', r))
    (hf : Fresh d (nodesOf o)) : d'.WF := by
  have hok := opOK_of_ok o h hf
  obtain ⟨r', hr⟩ := runOp_ok hwf o hok
  rw [h] at hr
  simp only [Outcome.ok.injEq, Prod.mk.injEq] at hr
  rw [hr.1]; exact wf_op hwf o hok

/-- B (`_partial`): any two remote object operations (put/put, put/delete, delete/delete; same or different
    parents, same or different keys) that are applicable to a well-formed `d` and carry distinguishable
    timestamps return `.ok` in both orders, and the two results are observationally equivalent -/
theorem ops_commute_partial {d : Doc} (hwf : d.WF) {a b : ObjOp} (ha : OpOK d a) (hb : OpOK d b)
    (hne : a.ts.cmp b.ts ≠ .eq) :
    ∃ da ra dab rab db rb dba rba,
      runOp d a = .ok (da, ra) ∧ runOp da b = .ok (dab, rab) ∧
      runOp d b = .ok (db, rb) ∧ runOp db a = .ok (dba, rba) ∧ Sim dab dba ∧ dab.WF ∧ dba.WF := by
  obtain ⟨hab, hba⟩ := op_comm_ok hwf ha hb hne
  obtain ⟨ra, h1⟩ := runOp_ok hwf a ha
  obtain ⟨rab, h2⟩ := runOp_ok (wf_op hwf a ha) b hab
  obtain ⟨rb, h3⟩ := runOp_ok hwf b hb
  obtain ⟨rba, h4⟩ := runOp_ok (wf_op hwf b hb) a hba
  exact ⟨_, ra, _, rab, _, rb, _, rba, h1, h2, h3, h4, op_comm_partial hwf ha hb hne,
    wf_op (wf_op hwf a ha) b hab, wf_op (wf_op hwf b hb) a hba⟩

/-- B (`_partial`), "when all four calls return `.ok`" form -/
theorem ops_commute_of_ok_partial {d : Doc} (hwf : d.WF) {a b : ObjOp} (hne : a.ts.cmp b.ts ≠ .eq)
    (hfa : Fresh d (nodesOf a)) (hfb : Fresh d (nodesOf b))
    {da dab db dba : Doc} {ra rab rb rba : Option Ts}
    (h1 : runOp d a = .ok (da, ra)) (h2 : runOp da b = .ok (dab, rab))
    (h3 : runOp d b = .ok (db, rb)) (h4 : runOp db a = .ok (dba, rba)) : Sim dab dba := by
  obtain ⟨da', ra', dab', rab', db', rb', dba', rba', e1, e2, e3, e4, hs, _, _⟩ :=
    ops_commute_partial hwf (opOK_of_ok a h1 hfa) (opOK_of_ok b h3 hfb) hne
  rw [h1] at e1
  simp only [Outcome.ok.injEq, Prod.mk.injEq] at e1
  rw [← e1.1, h2] at e2
  rw [h3] at e3
  simp only [Outcome.ok.injEq, Prod.mk.injEq] at e2 e3
  rw [← e3.1, h4] at e4
  simp only [Outcome.ok.injEq, Prod.mk.injEq] at e4
  rw [e2.1, e4.1]; exact hs


/-! ### the view of freshly created nodes is the value they were created from -/

/-- the nodes `ns` are in the table of `D` exactly as created -/
def Present (D : Doc) (ns : List DNode) : Prop := ∀ n ∈ ns, D.find n.c = some n

theorem present_append {D : Doc} {a b : List DNode} (h : Present D (a ++ b)) : Present D a ∧ Present D b :=
  ⟨fun n hn => h n (List.mem_append_left _ hn), fun n hn => h n (List.mem_append_right _ hn)⟩

/-- the root of a created value is live in `D` -/
theorem created_root_live {D : Doc} {parent ts : Ts} {v : JVal} {r : List DNode × Ts × Ts}
    (h : createNode parent ts v = .ok r) (hp : Present D r.1) : r.2.1 = ts ∧ D.isTomb ts = false := by
  obtain ⟨hb, hc, n0, rest, hns, hn0c, _⟩ := createNode_spec parent ts v r h
  have hmem : n0 ∈ r.1 := by rw [hns]; simp
  have hf := hp n0 hmem
  rw [hn0c] at hf
  refine ⟨hc, ?_⟩
  unfold Doc.isTomb
  rw [hf]
  simp [hb.live n0 hmem]

mutual
theorem viewOf_createNode (D : Doc) (parent ts : Ts) : ∀ (v : JVal) (r : List DNode × Ts × Ts),
    createNode parent ts v = .ok r → Present D r.1 → ∃ F, ∀ f, F ≤ f → D.viewOf f ts = v
  | .null, r, h, _ => by simp [createNode] at h
  | .bool b, r, h, hp => by
    simp only [createNode, Outcome.ok.injEq] at h; subst h
    have := hp _ (List.mem_singleton.mpr rfl)
    refine ⟨1, fun f hf => ?_⟩
    obtain ⟨f', rfl⟩ : ∃ f', f = f' + 1 := ⟨f - 1, by omega⟩
    simp only [Doc.viewOf, this]
  | .num b, r, h, hp => by
    simp only [createNode, Outcome.ok.injEq] at h; subst h
    have := hp _ (List.mem_singleton.mpr rfl)
    refine ⟨1, fun f hf => ?_⟩
    obtain ⟨f', rfl⟩ : ∃ f', f = f' + 1 := ⟨f - 1, by omega⟩
    simp only [Doc.viewOf, this]
  | .str b, r, h, hp => by
    simp only [createNode, Outcome.ok.injEq] at h; subst h
    have := hp _ (List.mem_singleton.mpr rfl)
    refine ⟨1, fun f hf => ?_⟩
    obtain ⟨f', rfl⟩ : ∃ f', f = f' + 1 := ⟨f - 1, by omega⟩
    simp only [Doc.viewOf, this]
  | .obj kvs, r, h, hp => by
    simp only [createNode] at h
    split at h
    · rename_i ns m ts' hi
      simp only [Outcome.ok.injEq] at h; subst h
      have hroot := hp _ (List.mem_cons_self)
      obtain ⟨F, hF⟩ := viewOf_objItems D ts ts.nextDelim kvs ns m ts' hi
        (fun n hn => hp n (List.mem_cons_of_mem _ hn))
      refine ⟨F + 1, fun f hf => ?_⟩
      obtain ⟨f', rfl⟩ : ∃ f', f = f' + 1 := ⟨f - 1, by omega⟩
      simp only at hroot
      simp only [Doc.viewOf, hroot, hF f' (by omega)]
    · cases h
    · cases h
  | .arr vs, r, h, hp => by
    simp only [createNode] at h
    split at h
    · rename_i ns cs ts' hi
      simp only [Outcome.ok.injEq] at h; subst h
      have hroot := hp _ (List.mem_cons_self)
      obtain ⟨F, hF⟩ := viewOf_arrItems D ts ts.nextDelim vs ns cs ts' hi
        (fun n hn => hp n (List.mem_cons_of_mem _ hn))
      refine ⟨F + 1, fun f hf => ?_⟩
      obtain ⟨f', rfl⟩ : ∃ f', f = f' + 1 := ⟨f - 1, by omega⟩
      simp only at hroot
      simp only [Doc.viewOf, hroot, hF f' (by omega)]
    · cases h
    · cases h
theorem viewOf_arrItems (D : Doc) (parent ts : Ts) : ∀ (vs : List JVal) (ns : List DNode) (cs : List Ts) (ts' : Ts),
    createArrItems parent ts vs = .ok (ns, cs, ts') → Present D ns →
    ∃ F, ∀ f, F ≤ f →
      ((cs.map fun c => (c, c)).filterMap fun (_, ch) => if D.isTomb ch then none else some (D.viewOf f ch)) = vs
  | [], ns, cs, ts', h, _ => by
    simp only [createArrItems, Outcome.ok.injEq, Prod.mk.injEq] at h
    obtain ⟨_, rfl, _⟩ := h
    exact ⟨0, fun _ _ => rfl⟩
  | v :: vs, ns, cs, ts', h, hp => by
    simp only [createArrItems] at h
    split at h
    · rename_i ns1 c ts1 h1
      split at h
      · rename_i ns2 cs2 ts2 h2
        simp only [Outcome.ok.injEq, Prod.mk.injEq] at h
        obtain ⟨rfl, rfl, rfl⟩ := h
        obtain ⟨hp1, hp2⟩ := present_append hp
        obtain ⟨F1, hF1⟩ := viewOf_createNode D parent ts v _ h1 hp1
        obtain ⟨F2, hF2⟩ := viewOf_arrItems D parent ts1 vs _ _ _ h2 hp2
        obtain ⟨hc, hl⟩ := created_root_live h1 hp1
        simp only at hc
        subst hc
        refine ⟨max F1 F2, fun f hf => ?_⟩
        simp only [List.map_cons, List.filterMap_cons, hl, Bool.false_eq_true, if_false,
          hF1 f (by omega), hF2 f (by omega)]
      · cases h
      · cases h
    · cases h
    · cases h
theorem viewOf_objItems (D : Doc) (parent ts : Ts) : ∀ (kvs : List (String × JVal)) (ns : List DNode)
    (m : List (String × Ts)) (ts' : Ts),
    createObjItems parent ts kvs = .ok (ns, m, ts') → Present D ns →
    ∃ F, ∀ f, F ≤ f →
      (m.filterMap fun (k, ch) => if D.isTomb ch then none else some (k, D.viewOf f ch)) = kvs
  | [], ns, cs, ts', h, _ => by
    simp only [createObjItems, Outcome.ok.injEq, Prod.mk.injEq] at h
    obtain ⟨_, rfl, _⟩ := h
    exact ⟨0, fun _ _ => rfl⟩
  | (k, v) :: kvs, ns, cs, ts', h, hp => by
    simp only [createObjItems] at h
    split at h
    · rename_i ns1 c ts1 h1
      split at h
      · rename_i ns2 cs2 ts2 h2
        simp only [Outcome.ok.injEq, Prod.mk.injEq] at h
        obtain ⟨rfl, rfl, rfl⟩ := h
        obtain ⟨hp1, hp2⟩ := present_append hp
        obtain ⟨F1, hF1⟩ := viewOf_createNode D parent ts v _ h1 hp1
        obtain ⟨F2, hF2⟩ := viewOf_objItems D parent ts1 kvs _ _ _ h2 hp2
        obtain ⟨hc, hl⟩ := created_root_live h1 hp1
        simp only at hc
        subst hc
        refine ⟨max F1 F2, fun f hf => ?_⟩
        simp only [List.filterMap_cons, hl, Bool.false_eq_true, if_false,
          hF1 f (by omega), hF2 f (by omega)]
      · cases h
      · cases h
    · cases h
    · cases h
end


/-! ### C, value: the visible value under the key is the value of the newest put -/

section putlast
variable {d : Doc} {p : Ts} {v : JVal} {ts : Ts} {pn : DNode} {m : List (String × Ts)} {size : Int}
  {ns : List DNode} {ts' : Ts}

/-- a winning put: the key is occupied by the new root, and the view below it is exactly the value put -/
theorem put_win_viewAt (h : PutPre d p v ts pn m size ns ts') (hb : Bounded d) {k : String} {d' : Doc}
    {r : Option Ts} (hr : d.putInObject p k v ts = .ok (d', r))
    (hwin : ∀ oldC, alFind k m = some oldC → (d.timeOf oldC).cmp ts = .lt) :
    d'.viewAt ts = v ∧ d'.isTomb ts = false := by
  have hnd := block_ids_nodup h.block
  have hpres1 : ∀ n ∈ ns, ∀ s', ((d.addAll ns).set { pn with kind := s' }).find n.c = some n := by
    intro n hn s'
    rw [find_set]
    have hmem : n.c ∈ ids ns := List.mem_map.mpr ⟨n, hn, rfl⟩
    have : ¬ pn.c = n.c := by
      rw [find_some_c h.hp]; intro e; exact h.p_not_new (e ▸ hmem)
    simp only [this, if_false]
    exact find_addAll_new hnd hn
  have hpres : Present d' ns := by
    cases hk : alFind k m with
    | none =>
      rw [put_new h hk] at hr
      simp only [Outcome.ok.injEq, Prod.mk.injEq] at hr
      rw [← hr.1]
      exact fun n hn => hpres1 n hn _
    | some oldC =>
      rw [put_win h hk (hwin oldC hk)] at hr
      simp only [Outcome.ok.injEq, Prod.mk.injEq] at hr
      rw [← hr.1]
      intro n hn
      rw [find_funeral]
      have hmem : n.c ∈ ids ns := List.mem_map.mpr ⟨n, hn, rfl⟩
      obtain ⟨no, h1, _⟩ := h.old_find hk
      have : ¬ n.c = oldC := by
        intro e; rw [← e, h.fresh _ hmem] at h1; cases h1
      simp only [this, if_false]
      exact hpres1 n hn _
  obtain ⟨F, hF⟩ := viewOf_createNode d' p ts v _ h.hc hpres
  obtain ⟨rk, hrk, hbd⟩ := bounded_put h hb hr
  obtain ⟨_, hl⟩ := created_root_live h.hc hpres
  refine ⟨?_, hl⟩
  unfold Doc.viewAt
  have := hbd ts
  rw [viewOf_stable hrk (d'.table.length + 1) (d'.table.length + 1 + F) ts (by omega) (by omega)]
  exact hF _ (by omega)

end putlast

theorem applyAll_append (d : Doc) (a b : List ObjOp) : applyAll d (a ++ b) = applyAll (applyAll d a) b := by
  simp [applyAll, List.foldl_append]

theorem good_append_left {d : Doc} {a b : List ObjOp} (h : Good d (a ++ b)) : Good d a :=
  ⟨h.1, fun o ho => h.2.1 o (List.mem_append_left _ ho), (List.pairwise_append.mp h.2.2).1⟩

theorem good_applyAll_append {a : List ObjOp} : ∀ {d : Doc} {b : List ObjOp}, Good d (a ++ b) →
    Good (applyAll d a) b := by
  induction a with
  | nil => intro d b h; exact h
  | cons x a ih => intro d b h; exact ih (good_step h)

/-- C (value): if the newest operation on key `k` of `p` is the put of `v` (newer than what the key held
    initially), then in ANY application order the view below that put's root node — which occupies the
    key, by `key_denote_put` — is `v` (after key sorting) -/
theorem key_value_denote {d : Doc} {l : List ObjOp} (h : Good d l) (hv : ViewOK d) (hk : ∀ o ∈ l, OpKeysND o)
    {p : Ts} {n : DNode} (hp : d.find p = some n) {k : String} {p' : Ts} {k' : String} {v : JVal} {ts : Ts}
    (hw : Spec.maxBy ObjOp.ts (keyOps p k l) = some (.put p' k' v ts))
    (hnew : ∀ st, keyOf' d p k = some st → st.time.cmp ts = .lt) :
    ((applyAll d l).viewAt ts).canon = v.canon := by
  obtain ⟨hwmem, hwmax⟩ := maxBy_spec ObjOp.ts _ _ hw
  have hwl := (List.mem_filter.mp hwmem).1
  have hpk := of_decide_eq_true (List.mem_filter.mp hwmem).2
  simp only [ObjOp.parent, ObjOp.key] at hpk
  obtain ⟨rfl, rfl⟩ := hpk
  obtain ⟨l1, l2, rfl⟩ := List.append_of_mem hwl
  -- the order with the winning put last
  have hperm : (l1 ++ ObjOp.put p' k' v ts :: l2).Perm ((l1 ++ l2) ++ [ObjOp.put p' k' v ts]) :=
    (List.perm_middle).trans (List.perm_append_singleton _ _).symm
  have h' := good_perm hperm h
  have hrest := good_append_left h'
  have hlast := good_applyAll_append h'
  have hk' : ∀ o ∈ l1 ++ l2, OpKeysND o := by
    intro o ho
    apply hk
    rcases List.mem_append.mp ho with ho | ho
    · exact List.mem_append_left _ ho
    · exact List.mem_append_right _ (List.mem_cons_of_mem _ ho)
  have hv0 := viewOK_applyAll hrest hv hk'
  -- the winning put applied to d0
  have hwok := hlast.2.1 _ (List.mem_singleton.mpr rfl)
  obtain ⟨pn, m, size, ts', hpre⟩ := putPre_of_ok hlast.1 hwok
  obtain ⟨d', r, hr⟩ := put_ok hpre k'
  have happ : applyAll (applyAll d (l1 ++ l2)) [ObjOp.put p' k' v ts] = d' := by
    show applyOp (applyAll d (l1 ++ l2)) (ObjOp.put p' k' v ts) = d'
    simp only [applyOp, hr]
  -- it wins
  have hwin : ∀ oldC, alFind k' m = some oldC → ((applyAll d (l1 ++ l2)).timeOf oldC).cmp ts = .lt := by
    intro oldC hold
    have hkd := key_denote hrest hp k'
    have hkey0 : keyOf' (applyAll d (l1 ++ l2)) p' k' = some (refSt (applyAll d (l1 ++ l2)) oldC) := by
      simp [keyOf', hpre.hp, hpre.hk, hold]
    rw [hkey0] at hkd
    -- every other operation on the key is older than the winner
    have holder : ∀ y ∈ keyOps p' k' (l1 ++ l2), y.ts.cmp ts = .lt := by
      intro y hy
      have hy' : y ∈ l1 ++ l2 := (List.mem_filter.mp hy).1
      have hyk : y ∈ keyOps p' k' (l1 ++ ObjOp.put p' k' v ts :: l2) := by
        simp only [keyOps, List.mem_filter] at hy ⊢
        refine ⟨?_, hy.2⟩
        rcases List.mem_append.mp hy' with e | e
        · exact List.mem_append_left _ e
        · exact List.mem_append_right _ (List.mem_cons_of_mem _ e)
      have hnlt := hwmax y hyk
      have hpw := h'.2.2
      rw [List.pairwise_append] at hpw
      have hne : y.ts.cmp ts ≠ .eq := hpw.2.2 y hy' _ (List.mem_singleton.mpr rfl)
      rcases cmp_lt_or_gt hne with e | e
      · exact e
      · exact absurd e hnlt
    have htime : (refSt (applyAll d (l1 ++ l2)) oldC).time.cmp ts = .lt := by
      cases hmx : Spec.maxBy ObjOp.ts (keyOps p' k' (l1 ++ l2)) with
      | none =>
        rw [hmx] at hkd
        simp only [lww] at hkd
        exact hnew _ hkd.symm
      | some y =>
        rw [hmx] at hkd
        have hyt := holder y (maxBy_spec ObjOp.ts _ _ hmx).1
        have hst : (stOf y).time = y.ts := by cases y <;> rfl
        cases hinit : keyOf' d p' k' with
        | none =>
          rw [hinit] at hkd
          simp only [lww, Option.some.injEq] at hkd
          rw [hkd, hst]; exact hyt
        | some st =>
          rw [hinit] at hkd
          simp only [lww] at hkd
          split at hkd
          · simp only [Option.some.injEq] at hkd
            rw [hkd, hst]; exact hyt
          · simp only [Option.some.injEq] at hkd
            rw [hkd]; exact hnew st hinit
    exact htime
  obtain ⟨hview, hlive⟩ := put_win_viewAt hpre hv0.bounded hr hwin
  -- transfer to the given order
  have hsim : Sim (applyAll d ((l1 ++ l2) ++ [ObjOp.put p' k' v ts])) (applyAll d (l1 ++ ObjOp.put p' k' v ts :: l2)) :=
    converge_sim_same hperm.symm h'
  have hkall : ∀ o ∈ (l1 ++ l2) ++ [ObjOp.put p' k' v ts], OpKeysND o :=
    fun o ho => hk o (hperm.mem_iff.mpr ho)
  have v1 := viewOK_applyAll h' hv hkall
  have v2 := viewOK_applyAll h hv hk
  have hd' : applyAll d ((l1 ++ l2) ++ [ObjOp.put p' k' v ts]) = d' := by rw [applyAll_append, happ]
  have hshape : (shapeOf d' ts).isSome := by
    obtain ⟨n0, hn0, _, _⟩ := hpre.root_find
    cases hf : d'.find ts with
    | none =>
      -- impossible: the root is in the table
      exfalso
      cases hkk : alFind k' m with
      | none =>
        rw [put_new hpre hkk] at hr
        simp only [Outcome.ok.injEq, Prod.mk.injEq] at hr
        rw [← hr.1, find_set] at hf
        have : ¬ pn.c = ts := by
          rw [find_some_c hpre.hp]; intro e; exact hpre.p_not_new (e ▸ hpre.ts_new)
        simp only [this, if_false] at hf
        rw [hn0] at hf; cases hf
      | some oldC =>
        rw [put_win hpre hkk (hwin oldC hkk)] at hr
        simp only [Outcome.ok.injEq, Prod.mk.injEq] at hr
        rw [← hr.1, find_funeral] at hf
        obtain ⟨no, h1, _⟩ := hpre.old_find hkk
        have hne : ¬ ts = oldC := by
          intro e; rw [← e, hpre.ts_fresh] at h1; cases h1
        simp only [hne, if_false, find_set] at hf
        have : ¬ pn.c = ts := by
          rw [find_some_c hpre.hp]; intro e; exact hpre.p_not_new (e ▸ hpre.ts_new)
        simp only [this, if_false] at hf
        rw [hn0] at hf; cases hf
    | some nn => exact shape_isSome_of_live hf hlive
  rw [hd'] at hsim v1
  have := sim_viewAt_canon hsim (wf_put hpre hr) v1.keys v2.keys v1.bounded v2.bounded hshape
  rw [← this, hview]


/-! ### B, exact: operations on DIFFERENT parents commute up to `DocEq`

Every operation is: add the new nodes, then update at most two table entries (the parent's kind; the
`d` of the old occupant / the losing new root). -/

/-- pointwise update of a lookup function -/
def upd (x : Ts) (g : Option DNode → Option DNode) (F : Ts → Option DNode) : Ts → Option DNode :=
  fun c => if c = x then g (F x) else F c

def U (ns : List DNode) (F : Ts → Option DNode) : Ts → Option DNode := fun c => (nfind ns c).or (F c)

/-- set the kind of a container -/
def skG (K : DKind) (o : Option DNode) : Option DNode :=
  o.map fun n => match n.kind with
    | .elem _ => n
    | _ => { n with kind := K }

def setD (t : Ts) (o : Option DNode) : Option DNode := o.map fun n => { n with d := some t }

structure Eff where
  ns : List DNode
  p : Ts
  s : Option DNode → Option DNode
  x : Ts
  g : Option DNode → Option DNode

def Eff.run (e : Eff) (F : Ts → Option DNode) : Ts → Option DNode := upd e.x e.g (upd e.p e.s (U e.ns F))

def Comm (g h : Option DNode → Option DNode) : Prop := ∀ o, g (h o) = h (g o)

theorem comm_id_left (h : Option DNode → Option DNode) : Comm id h := fun _ => rfl
theorem comm_id_right (g : Option DNode → Option DNode) : Comm g id := fun _ => rfl
theorem comm_symm {g h : Option DNode → Option DNode} (c : Comm g h) : Comm h g := fun o => (c o).symm

theorem comm_skG_fun1 (m : List (String × Ts)) (s : Int) (t : Ts) : Comm (skG (.obj m s)) (fun1 t) := by
  intro o
  cases o with
  | none => rfl
  | some n =>
    obtain ⟨nc, nd, np, nk⟩ := n
    cases nk <;> rfl

theorem comm_skG_setD (K : DKind) (t : Ts) : Comm (skG K) (setD t) := by
  intro o
  cases o with
  | none => rfl
  | some n =>
    obtain ⟨nc, nd, np, nk⟩ := n
    cases nk <;> rfl

theorem upd_comm {x y : Ts} {g h : Option DNode → Option DNode} (hc : x ≠ y ∨ Comm g h)
    (F : Ts → Option DNode) : upd x g (upd y h F) = upd y h (upd x g F) := by
  funext c
  unfold upd
  by_cases hxy : x = y
  · subst hxy
    rcases hc with hc | hc
    · exact absurd rfl hc
    · by_cases e : c = x
      · simp [e, hc (F x)]
      · simp [e]
  · have hyx : ¬ y = x := fun e => hxy e.symm
    by_cases e1 : c = x
    · subst e1; simp [hxy]
    · by_cases e2 : c = y
      · subst e2; simp [hyx]
      · simp [e1, e2]

theorem upd_U {x : Ts} {g : Option DNode → Option DNode} {ns : List DNode} (hx : x ∉ ids ns)
    (F : Ts → Option DNode) : U ns (upd x g F) = upd x g (U ns F) := by
  funext c
  unfold upd U
  by_cases e : c = x
  · subst e; simp [nfind_none_iff.mpr hx]
  · simp [e]

theorem U_comm {ns1 ns2 : List DNode} (hd : ∀ c, c ∈ ids ns1 → c ∈ ids ns2 → False) (F : Ts → Option DNode) :
    U ns2 (U ns1 F) = U ns1 (U ns2 F) := by
  funext c
  unfold U
  by_cases h1 : c ∈ ids ns1
  · have : nfind ns2 c = none := nfind_none_iff.mpr (fun h2 => hd c h1 h2)
    simp [this]
  · simp [nfind_none_iff.mpr h1]

/-- two effects commute when their new nodes are disjoint and away from the updated entries, and the
    updates either hit different entries or commute as functions -/
theorem eff_comm (a b : Eff) (F : Ts → Option DNode)
    (hd : ∀ c, c ∈ ids a.ns → c ∈ ids b.ns → False)
    (hap : a.p ∉ ids b.ns) (hax : a.x ∉ ids b.ns) (hbp : b.p ∉ ids a.ns) (hbx : b.x ∉ ids a.ns)
    (c1 : a.p ≠ b.p ∨ Comm b.s a.s) (c2 : b.p ≠ a.x ∨ Comm b.s a.g)
    (c3 : b.x ≠ a.p ∨ Comm b.g a.s) (c4 : b.x ≠ a.x ∨ Comm b.g a.g) :
    b.run (a.run F) = a.run (b.run F) := by
  unfold Eff.run
  have c1' : b.p ≠ a.p ∨ Comm b.s a.s := c1.imp (fun h e => h e.symm) id
  rw [upd_U hax, upd_U hap, U_comm hd, upd_U hbx, upd_U hbp]
  -- now four pointwise updates on `U a.ns (U b.ns F)`
  rw [upd_comm c2, upd_comm c1', upd_comm c4, upd_comm c3]

/-- the effect of an operation, as decided in the document `d` -/
noncomputable def effOf (d : Doc) : ObjOp → Eff
  | .put p k v ts =>
    match d.findObj p with
    | none => ⟨[], p, id, p, id⟩
    | some (_, m, size) =>
      match alFind k m with
      | none => ⟨nodesOf (.put p k v ts), p, skG (.obj (alSet k ts m) (size + 1)), p, id⟩
      | some old =>
        if (d.timeOf old).cmp ts = .lt then
          ⟨nodesOf (.put p k v ts), p, skG (.obj (alSet k ts m) (if d.isTomb old then size + 1 else size)), old, fun1 ts⟩
        else ⟨nodesOf (.put p k v ts), p, id, ts, fun1 old⟩
  | .del p k ts =>
    match d.findObj p with
    | none => ⟨[], p, id, p, id⟩
    | some (_, m, size) =>
      match alFind k m with
      | none => ⟨[], p, id, p, id⟩
      | some c =>
        if (d.timeOf c).cmp ts = .lt then
          ⟨[], p, skG (.obj m (if d.isTomb c then size else size - 1)), c, setD ts⟩
        else ⟨[], p, id, p, id⟩

theorem find_funeral_upd (d : Doc) (x t : Ts) : (d.funeral x t).find = upd x (fun1 t) d.find := by
  funext c; rw [find_funeral]; rfl

theorem find_makeTomb_upd (d : Doc) (x t : Ts) : (d.makeTomb x t).find = upd x (setD t) d.find := by
  funext c; rw [find_makeTomb]; rfl

theorem find_addAll_U (d : Doc) (ns : List DNode) : (d.addAll ns).find = U ns d.find := by
  funext c; rw [find_addAll]; rfl

theorem find_setKind_upd {d : Doc} {p : Ts} {pn : DNode} {m m' : List (String × Ts)} {s s' : Int}
    (hp : d.find p = some pn) (hk : pn.kind = .obj m s) :
    (d.set { pn with kind := .obj m' s' }).find = upd p (skG (.obj m' s')) d.find := by
  have hpc := find_some_c hp
  funext c
  rw [find_set]
  unfold upd
  by_cases e : c = p
  · subst e
    simp only [hpc, if_true, hp, skG, Option.map_some, hk]
  · have : ¬ pn.c = c := by rw [hpc]; exact fun e' => e e'.symm
    simp [e, this]

theorem upd_id (x : Ts) (F : Ts → Option DNode) : upd x id F = F := by
  funext c; unfold upd; by_cases e : c = x <;> simp [e]

theorem U_nil (F : Ts → Option DNode) : U [] F = F := by
  funext c; simp [U, nfind]

/-- the table after an applicable operation is the effect decided in `d`, applied to the table of `d` -/
theorem find_applyOp_eff {d : Doc} (hwf : d.WF) : ∀ (o : ObjOp), OpOK d o →
    (applyOp d o).find = (effOf d o).run d.find
  | .put p k v ts, h => by
    obtain ⟨pn, m, size, ts', hpre⟩ := putPre_of_ok hwf h
    unfold effOf Eff.run
    simp only [hpre.findObj]
    cases hk : alFind k m with
    | none =>
      simp only [applyOp, put_new hpre hk, upd_id]
      rw [find_setKind_upd hpre.hp1 hpre.hk, find_addAll_U]
    | some old =>
      by_cases hlt : (d.timeOf old).cmp ts = .lt
      · simp only [applyOp, put_win hpre hk hlt, hlt, if_true]
        rw [find_funeral_upd, find_setKind_upd hpre.hp1 hpre.hk, find_addAll_U]
      · simp only [applyOp, put_lose hpre hk hlt, hlt, if_false, upd_id]
        rw [find_funeral_upd, find_addAll_U]
  | .del p k ts, h => by
    obtain ⟨pn, m, size, c, hpre⟩ := delPre_of_ok hwf h
    unfold effOf Eff.run
    simp only [findObj_some_iff.mpr ⟨hpre.hp, hpre.hk⟩, hpre.hf]
    by_cases hlt : (d.timeOf c).cmp ts = .lt
    · simp only [applyOp, del_eq hpre.hp hpre.hk hpre.hf, hlt, if_true, U_nil]
      rw [find_makeTomb_upd, find_setKind_upd hpre.hp hpre.hk]
    · simp only [applyOp, del_eq hpre.hp hpre.hk hpre.hf, hlt, if_false, U_nil, upd_id]


/-- what the effect of an applicable operation looks like -/
structure EffShape (d : Doc) (a : ObjOp) (e : Eff) : Prop where
  ns : e.ns = nodesOf a
  p : e.p = a.parent
  s : e.s = id ∨ ∃ m s', e.s = skG (.obj m s')
  g : e.g = id ∨ (∃ t, e.g = fun1 t) ∨ (∃ t, e.g = setD t)
  x : (e.x = a.parent ∧ e.g = id) ∨ (∃ np, d.find a.parent = some np ∧ e.x ∈ kids np.kind) ∨
      e.x ∈ ids (nodesOf a)

theorem effShape {d : Doc} (hwf : d.WF) : ∀ (a : ObjOp), OpOK d a → EffShape d a (effOf d a)
  | .put p k v ts, h => by
    obtain ⟨pn, m, size, ts', hpre⟩ := putPre_of_ok hwf h
    unfold effOf
    simp only [hpre.findObj]
    cases hk : alFind k m with
    | none => exact ⟨rfl, rfl, Or.inr ⟨_, _, rfl⟩, Or.inl rfl, Or.inl ⟨rfl, rfl⟩⟩
    | some old =>
      by_cases hlt : (d.timeOf old).cmp ts = .lt
      · simp only [hlt, if_true]
        refine ⟨rfl, rfl, Or.inr ⟨_, _, rfl⟩, Or.inr (Or.inl ⟨_, rfl⟩), Or.inr (Or.inl ⟨pn, hpre.hp, ?_⟩)⟩
        rw [hpre.hk]; exact alFind_mem_vals hk
      · simp only [hlt, if_false]
        exact ⟨rfl, rfl, Or.inl rfl, Or.inr (Or.inl ⟨_, rfl⟩), Or.inr (Or.inr (root_mem_nodes h))⟩
  | .del p k ts, h => by
    obtain ⟨pn, m, size, c, hpre⟩ := delPre_of_ok hwf h
    unfold effOf
    simp only [findObj_some_iff.mpr ⟨hpre.hp, hpre.hk⟩, hpre.hf]
    by_cases hlt : (d.timeOf c).cmp ts = .lt
    · simp only [hlt, if_true]
      refine ⟨rfl, rfl, Or.inr ⟨_, _, rfl⟩, Or.inr (Or.inr ⟨_, rfl⟩), Or.inr (Or.inl ⟨pn, hpre.hp, ?_⟩)⟩
      rw [hpre.hk]; exact alFind_mem_vals hpre.hf
    · simp only [hlt, if_false]
      exact ⟨rfl, rfl, Or.inl rfl, Or.inl rfl, Or.inl ⟨rfl, rfl⟩⟩

/-- a node of `d` that is not a child of the operation's parent keeps its `c`, `d`; and its kind unless it
    is the parent itself -/
theorem after_op_other {d : Doc} (hwf : d.WF) {a : ObjOp} (ha : OpOK d a) {q : Ts} {n : DNode}
    (hq : d.find q = some n) (hnk : ∀ np, d.find a.parent = some np → q ∉ kids np.kind) :
    ∃ n', (applyOp d a).find q = some n' ∧ n'.d = n.d ∧ n'.c = n.c ∧ (q ≠ a.parent → n'.kind = n.kind) := by
  have hsh := effShape hwf a ha
  rw [find_applyOp_eff hwf a ha]
  unfold Eff.run
  have hqn : q ∉ ids (nodesOf a) := not_mem_nodes_of_table ha hq
  have hU : U (effOf d a).ns d.find q = some n := by
    simp [U, hsh.ns, nfind_none_iff.mpr hqn, hq]
  have hs : ∃ n1, upd (effOf d a).p (effOf d a).s (U (effOf d a).ns d.find) q = some n1 ∧ n1.d = n.d ∧
      n1.c = n.c ∧ (q ≠ a.parent → n1.kind = n.kind) := by
    unfold upd
    by_cases e : q = (effOf d a).p
    · rw [← e]
      simp only [if_true, hU]
      rcases hsh.s with h | ⟨m, s', h⟩
      · rw [h]; exact ⟨n, rfl, rfl, rfl, fun _ => rfl⟩
      · rw [h]
        obtain ⟨nc, nd, np, nk⟩ := n
        refine ⟨_, rfl, ?_, ?_, fun hne => absurd (e.trans hsh.p) hne⟩ <;> cases nk <;> rfl
    · simp only [e, if_false, hU]; exact ⟨n, rfl, rfl, rfl, fun _ => rfl⟩
  obtain ⟨n1, h1, h2, h3, h4⟩ := hs
  unfold upd at h1 ⊢
  by_cases e : q = (effOf d a).x
  · rcases hsh.x with ⟨_, hg⟩ | ⟨np, hnp, hx⟩ | hx
    · rw [← e]
      simp only [if_true, hg, id]
      exact ⟨n1, h1, h2, h3, h4⟩
    · exact absurd (e ▸ hx) (hnk np hnp)
    · exact absurd (e ▸ hx) hqn
  · simp only [e, if_false]
    exact ⟨n1, h1, h2, h3, h4⟩

/-- a container of `d` other than the operation's parent stays in the table with the same kind -/
theorem after_op_container {d : Doc} (hwf : d.WF) {a : ObjOp} (ha : OpOK d a) {q : Ts} {n : DNode}
    (hq : d.find q = some n) (hne : q ≠ a.parent) (hc : ∀ v, n.kind ≠ .elem v) :
    ∃ n', (applyOp d a).find q = some n' ∧ n'.kind = n.kind := by
  have hsh := effShape hwf a ha
  rw [find_applyOp_eff hwf a ha]
  unfold Eff.run
  have hqn : q ∉ ids (nodesOf a) := not_mem_nodes_of_table ha hq
  have hU : U (effOf d a).ns d.find q = some n := by
    simp [U, hsh.ns, nfind_none_iff.mpr hqn, hq]
  have hs : upd (effOf d a).p (effOf d a).s (U (effOf d a).ns d.find) q = some n := by
    unfold upd
    have : ¬ q = (effOf d a).p := by rw [hsh.p]; exact hne
    simp only [this, if_false, hU]
  unfold upd at hs ⊢
  by_cases e : q = (effOf d a).x
  · rw [← e]
    simp only [if_true]
    simp only [hs]
    obtain ⟨nc, nd, np, nk⟩ := n
    rcases hsh.g with h | ⟨t, h⟩ | ⟨t, h⟩
    · rw [h]; exact ⟨_, rfl, rfl⟩
    · rw [h]
      cases nk with
      | elem v => exact absurd rfl (hc v)
      | obj m s => exact ⟨_, rfl, rfl⟩
      | arr sl s => exact ⟨_, rfl, rfl⟩
    · rw [h]; exact ⟨_, rfl, rfl⟩
  · simp only [e, if_false]; exact ⟨n, hs, rfl⟩

/-- the decisions of `b` are the same before and after an operation on another parent -/
theorem effOf_after_op {d : Doc} (hwf : d.WF) {a b : ObjOp} (ha : OpOK d a) (hb : OpOK d b)
    (hpar : a.parent ≠ b.parent) : effOf (applyOp d a) b = effOf d b := by
  have hpar' : b.parent ≠ a.parent := fun e => hpar e.symm
  -- the parent of b keeps its kind
  have hkind : ∀ pn m size, d.find b.parent = some pn → pn.kind = .obj m size →
      ∃ pn', (applyOp d a).findObj b.parent = some (pn', m, size) := by
    intro pn m size h1 h2
    obtain ⟨n', h3, h4⟩ := after_op_container hwf ha h1 hpar' (by rw [h2]; intro v; simp)
    exact ⟨n', findObj_some_iff.mpr ⟨h3, h4.trans h2⟩⟩
  -- an occupant of a key of b's parent keeps time and tombstone flag
  have hocc : ∀ pn m size k c, d.find b.parent = some pn → pn.kind = .obj m size → alFind k m = some c →
      (applyOp d a).timeOf c = d.timeOf c ∧ (applyOp d a).isTomb c = d.isTomb c := by
    intro pn m size k c h1 h2 h3
    have hmem : c ∈ kids pn.kind := by rw [h2]; exact alFind_mem_vals h3
    obtain ⟨nc, hc1, _⟩ := hwf.child b.parent pn h1 c hmem
    obtain ⟨n', h4, h5, h6, _⟩ := after_op_other hwf ha hc1 (by
      intro np hnp hin
      exact hpar (wf_unique_parent hwf hnp h1 hin hmem))
    unfold Doc.timeOf Doc.isTomb
    rw [h4, hc1]
    simp [h5, h6]
  cases b with
  | put p k v ts =>
    obtain ⟨pn, m, size, ts', hpre⟩ := putPre_of_ok hwf hb
    obtain ⟨pn', hfo'⟩ := hkind pn m size hpre.hp hpre.hk
    have hfo'' : (applyOp d a).findObj p = some (pn', m, size) := hfo'
    unfold effOf
    simp only [hpre.findObj, hfo'']
    cases hk : alFind k m with
    | none => rfl
    | some old =>
      obtain ⟨e1, e2⟩ := hocc pn m size k old hpre.hp hpre.hk hk
      simp only [e1, e2]
  | del p k ts =>
    obtain ⟨pn, m, size, c, hpre⟩ := delPre_of_ok hwf hb
    obtain ⟨pn', hfo'⟩ := hkind pn m size hpre.hp hpre.hk
    have hfo'' : (applyOp d a).findObj p = some (pn', m, size) := hfo'
    unfold effOf
    simp only [findObj_some_iff.mpr ⟨hpre.hp, hpre.hk⟩, hfo'', hpre.hf]
    obtain ⟨e1, e2⟩ := hocc pn m size k c hpre.hp hpre.hk hpre.hf
    simp only [e1, e2]

theorem comm_s_g {e1 e2 : Eff} {d1 d2 : Doc} {a b : ObjOp} (h1 : EffShape d1 a e1) (h2 : EffShape d2 b e2) :
    Comm e1.s e2.g := by
  rcases h1.s with h | ⟨m, s', h⟩
  · rw [h]; exact comm_id_left _
  · rcases h2.g with h' | ⟨t, h'⟩ | ⟨t, h'⟩
    · rw [h']; exact comm_id_right _
    · rw [h, h']; exact comm_skG_fun1 m s' t
    · rw [h, h']; exact comm_skG_setD _ t

/-- B, exact (different parents): two applicable remote object operations on DIFFERENT parents with
    distinguishable timestamps commute up to `DocEq` — including the case where one parent is the
    occupant the other operation supersedes or deletes -/
theorem ops_commute_diff_parents {d : Doc} (hwf : d.WF) {a b : ObjOp} (ha : OpOK d a) (hb : OpOK d b)
    (hne : a.ts.cmp b.ts ≠ .eq) (hpar : a.parent ≠ b.parent) :
    DocEq (applyOp (applyOp d a) b) (applyOp (applyOp d b) a) := by
  have hne' : b.ts.cmp a.ts ≠ .eq := fun e => hne (cmp_eq_symm _ _ e)
  have hpar' : b.parent ≠ a.parent := fun e => hpar e.symm
  obtain ⟨hab, hba⟩ := op_comm_ok hwf ha hb hne
  have e1 : (applyOp (applyOp d a) b).find = (effOf d b).run ((effOf d a).run d.find) := by
    rw [find_applyOp_eff (wf_op hwf a ha) b hab, effOf_after_op hwf ha hb hpar, find_applyOp_eff hwf a ha]
  have e2 : (applyOp (applyOp d b) a).find = (effOf d a).run ((effOf d b).run d.find) := by
    rw [find_applyOp_eff (wf_op hwf b hb) a hba, effOf_after_op hwf hb ha hpar', find_applyOp_eff hwf b hb]
  have sa := effShape hwf a ha
  have sb := effShape hwf b hb
  obtain ⟨na, hna⟩ := parent_in_table ha
  obtain ⟨nb, hnb⟩ := parent_in_table hb
  -- the updated entries are not among the other operation's new nodes
  have hx : ∀ (o o' : ObjOp), OpOK d o → OpOK d o' → o.ts.cmp o'.ts ≠ .eq → ∀ e, EffShape d o e →
      e.x ∉ ids (nodesOf o') := by
    intro o o' ho ho' hn e se
    obtain ⟨no, hno⟩ := parent_in_table ho
    rcases se.x with ⟨h1, _⟩ | ⟨np, h1, h2⟩ | h1
    · rw [h1]; exact not_mem_nodes_of_table ho' hno
    · obtain ⟨nc, h3, _⟩ := hwf.child _ np h1 _ h2
      exact not_mem_nodes_of_table ho' h3
    · exact fun h2 => nodesOf_disjoint hn h1 h2
  intro c
  rw [e1, e2]
  apply congrFun
  apply eff_comm
  · intro c h1 h2
    rw [sa.ns] at h1; rw [sb.ns] at h2
    exact nodesOf_disjoint hne h1 h2
  · rw [sa.p, sb.ns]; exact not_mem_nodes_of_table hb hna
  · rw [sb.ns]; exact hx a b ha hb hne _ sa
  · rw [sb.p, sa.ns]; exact not_mem_nodes_of_table ha hnb
  · rw [sa.ns]; exact hx b a hb ha hne' _ sb
  · left; rw [sa.p, sb.p]; exact hpar
  · right; exact comm_s_g sb sa
  · right; exact comm_symm (comm_s_g sa sb)
  · -- the two buried nodes are different, or one of the updates is the identity
    rcases sa.x with ⟨_, hg⟩ | hxa
    · right; rw [hg]; exact comm_id_right _
    · rcases sb.x with ⟨_, hg⟩ | hxb
      · right; rw [hg]; exact comm_id_left _
      · left
        intro e
        rcases hxa with ⟨npa, h1, h2⟩ | h2
        · rcases hxb with ⟨npb, h3, h4⟩ | h4
          · rw [e] at h4
            exact hpar (wf_unique_parent hwf h1 h3 h2 h4).symm.symm
          · obtain ⟨nc, h5, _⟩ := hwf.child _ npa h1 _ h2
            rw [← e] at h5
            exact not_mem_nodes_of_table hb h5 h4
        · rcases hxb with ⟨npb, h3, h4⟩ | h4
          · obtain ⟨nc, h5, _⟩ := hwf.child _ npb h3 _ h4
            rw [e] at h5
            exact not_mem_nodes_of_table ha h5 h2
          · rw [e] at h4
            exact nodesOf_disjoint hne h2 h4


/-! ### the replica-level function: `execRemote` on a document is `applyOp` -/

theorem execRemote_put {d : Doc} (hwf : d.WF) {p : Ts} {k : String} {v : JVal} {ts : Ts}
    (h : OpOK d (.put p k v ts)) :
    execRemote (.doc d) ts (.docPut p k v) = .ok (.doc (applyOp d (.put p k v ts))) := by
  obtain ⟨r, hr⟩ := runOp_ok hwf _ h
  simp only [runOp] at hr
  simp only [execRemote, hr]

theorem execRemote_del {d : Doc} (hwf : d.WF) {p : Ts} {k : String} {ts : Ts}
    (h : OpOK d (.del p k ts)) :
    execRemote (.doc d) ts (.docRemove p k) = .ok (.doc (applyOp d (.del p k ts))) := by
  obtain ⟨r, hr⟩ := runOp_ok hwf _ h
  simp only [runOp] at hr
  simp only [execRemote, hr]


/-! ### A, the `createNode` facts in one place -/

/-- the created identifiers are `ts, ts+1, …` (same era / lamport / client, consecutive delimiters),
    pairwise distinct; the returned node is `ts`; the returned next timestamp is `ts + #nodes`;
    the first created node is the root, its parent is `parent`; every created node is live -/
theorem createNode_ids {parent ts c ts' : Ts} {v : JVal} {ns : List DNode}
    (h : createNode parent ts v = .ok (ns, c, ts')) :
    ns.map (·.c) = delimSeq ts ns.length ∧ (ns.map (·.c)).Nodup ∧ c = ts ∧ ts' = addDelim ts ns.length ∧
    (∀ n ∈ ns, n.c.era = ts.era ∧ n.c.lamport = ts.lamport ∧ n.c.cuid = ts.cuid ∧ ts.delim ≤ n.c.delim ∧ n.d = none) ∧
    (∃ n0 rest, ns = n0 :: rest ∧ n0.c = ts ∧ n0.parent = some parent) := by
  obtain ⟨hb, hc, hroot⟩ := createNode_spec parent ts v _ h
  refine ⟨hb.ids, block_ids_nodup hb, hc, hb.next, ?_, hroot⟩
  intro n hn
  obtain ⟨i, _, hi⟩ := block_mem_id hb hn
  rw [hi]
  exact ⟨rfl, rfl, rfl, Nat.le_add_right _ _, hb.live n hn⟩


/-! ### D, exact: operations on pairwise different parents converge up to `DocEq`, with equal views -/

theorem docEq_funeral {a b : Doc} (h : DocEq a b) (x t : Ts) : DocEq (a.funeral x t) (b.funeral x t) := by
  intro c; rw [find_funeral, find_funeral, h c, h x]

theorem docEq_makeTomb {a b : Doc} (h : DocEq a b) (x t : Ts) : DocEq (a.makeTomb x t) (b.makeTomb x t) := by
  intro c; rw [find_makeTomb, find_makeTomb, h c, h x]

/-- the operations respect `DocEq` -/
theorem docEq_applyOp {a b : Doc} (h : DocEq a b) : ∀ (o : ObjOp), DocEq (applyOp a o) (applyOp b o)
  | .put p k v ts => by
    simp only [applyOp, Doc.putInObject]
    rw [docEq_findObj h p]
    cases b.findObj p with
    | none => exact h
    | some x =>
      obtain ⟨pn, m, size⟩ := x
      simp only
      cases createNode p ts v with
      | err c => exact h
      | panic w => exact h
      | ok y =>
        obtain ⟨ns, newC, t'⟩ := y
        simp only
        have h1 := docEq_addAll h ns
        cases alFind k m with
        | none => exact docEq_set h1 _
        | some oldC =>
          simp only
          rw [docEq_timeOf h1 oldC, docEq_isTomb h1 oldC]
          by_cases hc : (((b.addAll ns).timeOf oldC).cmp newC == Ordering.lt) = true
          · simp only [hc, if_true]
            exact docEq_funeral (docEq_set h1 _) _ _
          · simp only [hc]
            exact docEq_funeral h1 _ _
  | .del p k ts => by
    simp only [applyOp, Doc.deleteInObject]
    rw [docEq_findObj h p]
    cases b.findObj p with
    | none => exact h
    | some x =>
      obtain ⟨pn, m, size⟩ := x
      simp only
      cases alFind k m with
      | none => exact h
      | some c =>
        simp only [Bool.false_eq_true, if_false]
        rw [docEq_timeOf h c, docEq_isTomb h c]
        by_cases hc : ((b.timeOf c).cmp ts == Ordering.lt) = true
        · simp only [hc, if_true]
          exact docEq_makeTomb (docEq_set h _) _ _
        · simp only [hc]
          exact h

/-- ready for the operations in any order, and they address pairwise different parents -/
def GoodPar (z : Doc) (ops : List ObjOp) : Prop :=
  Good z ops ∧ ops.Pairwise (fun a b => a.parent ≠ b.parent)

/-- D (exact, different parents): if the operations address pairwise different parents, any two
    application orders give the same node table up to order (`DocEq`) and literally the same `view` -/
theorem converge_docEq_diff_parents {d : Doc} {l l' : List ObjOp} (hp : l.Perm l') (h : Good d l)
    (hpar : l.Pairwise (fun a b => a.parent ≠ b.parent)) :
    DocEq (applyAll d l) (applyAll d l') ∧ (applyAll d l).view = (applyAll d l').view := by
  have key : DocEq (applyAll d l) (applyAll d l') :=
    perm_fold_equiv applyOp DocEq docEq_equivalence GoodPar
      (fun _ _ _ hp h => ⟨good_perm hp h.1,
        (List.Perm.pairwise_iff (fun hab e => hab e.symm) hp).mp h.2⟩)
      (fun _ _ _ h => ⟨good_step h.1, (List.pairwise_cons.mp h.2).2⟩)
      (fun _ _ x _ _ _ hzz => docEq_applyOp hzz x)
      (fun z x y l h => by
        have hpw := List.pairwise_cons.mp h.1.2.2
        have hpp := List.pairwise_cons.mp h.2
        exact ops_commute_diff_parents h.1.1 (h.1.2.1 x (by simp)) (h.1.2.1 y (by simp)) (hpw.1 y (by simp))
          (hpp.1 y (by simp)))
      l l' hp d d ⟨h, hpar⟩ ⟨h, hpar⟩ (docEq_refl d)
  exact ⟨key, docEq_view key (good_applyAll h).nodup (good_applyAll (good_perm hp h)).nodup⟩

end DC
end Orda
