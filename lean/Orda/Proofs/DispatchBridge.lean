/-
Bridge between the REGENERATED decision paths of the server's request dispatch
(`Gen.dispatchPaths`, `Gen.validatePaths`: every path through PushPullHandler.processSubscribeOrCreate /
validatePushPullPack of the current source, produced by tools/gofacts) and the model's `dispatch` +
guards of `processPack`.  A change of the dispatch logic in the source changes the generated paths and
breaks `dispatch_is_source` (or makes the translator report an untranslatable construct).  Core Lean only.
-/
import Orda.Proofs.ServerLog
namespace Orda.DB
open Orda

def caseName : PPCase → String
  | .matchNothing => "MatchNothing"
  | .usedDUID => "UsedDUID"
  | .matchKeyNotType => "MatchKeyNotType"
  | .allMatchedSubscribed => "AllMatchedSubscribed"
  | .allMatchedNotSubscribed => "AllMatchedNotSubscribed"
  | .allMatchedNotVisible => "AllMatchedNotVisible"

/-- the model's decision for one request: `dispatch` followed by the two guards of `processPack` -/
def modelDecision (c : PPCase) (create subscribe sameDuid docNil : Bool) : Dispatch :=
  let d0 := dispatch c create subscribe sameDuid
  let d1 := if d0 ≠ .create && docNil then (match d0 with | .refuse x => .refuse x | _ => .refuse 301) else d0
  if d1 = .normal && !sameDuid then (if create then .refuse 302 else .refuse 301) else d1

/-- `processPack` decides by `modelDecision` (definitional) -/
theorem dsp_is_modelDecision (st : Store) (cl : ClientDoc) (col : CollectionDoc) (p : Pack) :
    SL.dsp st cl col p =
      modelDecision (evalCase st col cl.cuid p).1 p.create p.subscribe (SL.sameDuid p (evalCase st col cl.cuid p).2)
        (evalCase st col cl.cuid p).2.isNone := rfl

def codeOf (name : String) : Option Nat := (Gen.errorCodes.find? (fun e => e.1 == name)).map (·.2)

def retToDispatch : DRet → Option Dispatch
  | .create => some .create
  | .subscribe => some .subscribe
  | .init => some .normal
  | .err n => (codeOf n).map Dispatch.refuse
  | _ => none

/-- what `evaluatePushPullCase` can hand to the dispatch: no document for matchNothing, a document for
    every matched case, and the ids can only differ when there is a document -/
def consistent (c : PPCase) (create subscribe sameDuid docNil : Bool) : Bool :=
  (c != .matchNothing || docNil) && (c == .matchNothing || c == .usedDUID || !docNil) && (!docNil || sameDuid) &&
  (create || subscribe || c == .matchNothing || c == .usedDUID)   -- the key is only looked up with create/subscribe

def allCases : List PPCase :=
  [.matchNothing, .usedDUID, .matchKeyNotType, .allMatchedSubscribed, .allMatchedNotSubscribed, .allMatchedNotVisible]

def sourceDecision (c : PPCase) (create subscribe sameDuid docNil : Bool) : Option Dispatch :=
  (evalPaths Gen.dispatchPaths ⟨create, subscribe, false, false, docNil, !sameDuid, caseName c⟩).bind retToDispatch

def agreeAll : Bool :=
  allCases.all fun c => [true, false].all fun cr => [true, false].all fun su => [true, false].all fun sd =>
    [true, false].all fun dn =>
      !consistent c cr su sd dn || sourceDecision c cr su sd dn == some (modelDecision c cr su sd dn)

theorem agreeAll_true : agreeAll = true := by decide

theorem mem_allCases (c : PPCase) : c ∈ allCases := by cases c <;> simp [allCases]

/-- for EVERY case / option bits / id relation the dispatch of the current source (regenerated paths)
    and the model's decision coincide -/
theorem dispatch_is_source (c : PPCase) (create subscribe sameDuid docNil : Bool)
    (h : consistent c create subscribe sameDuid docNil = true) :
    sourceDecision c create subscribe sameDuid docNil = some (modelDecision c create subscribe sameDuid docNil) := by
  have h0 := agreeAll_true
  unfold agreeAll at h0
  have h1 := List.all_eq_true.1 h0 c (mem_allCases c)
  have h2 := List.all_eq_true.1 h1 create (by cases create <;> simp)
  have h3 := List.all_eq_true.1 h2 subscribe (by cases subscribe <;> simp)
  have h4 := List.all_eq_true.1 h3 sameDuid (by cases sameDuid <;> simp)
  have h5 := List.all_eq_true.1 h4 docNil (by cases docNil <;> simp)
  rw [h] at h5
  simpa using h5

/-- what the model's `evalCase` hands over is always `consistent` -/
theorem evalCase_consistent (st : Store) (col : CollectionDoc) (cuid : String) (p : Pack) :
    consistent (evalCase st col cuid p).1 p.create p.subscribe (SL.sameDuid p (evalCase st col cuid p).2)
      (evalCase st col cuid p).2.isNone = true := by
  unfold evalCase
  cases hc : p.create <;> cases hs : p.subscribe <;> simp only [Bool.or_false, Bool.or_true, Bool.false_eq_true, if_false, if_true]
  all_goals
    first
    | (cases hg : st.getDatatype p.duid with
       | none => simp [consistent, SL.sameDuid]
       | some d =>
         by_cases hk : d.colNum = col.num ∧ d.key = p.key
         · have := (SL.getDatatype_some hg).2
           simp [hk, consistent, SL.sameDuid, this]
         · simp [hk, consistent, SL.sameDuid])
    | (cases hkey : st.getDatatypeByKey col.num p.key with
       | none =>
         cases hg : st.getDatatype p.duid with
         | none => simp [consistent, SL.sameDuid]
         | some d =>
           by_cases hk : d.colNum = col.num ∧ d.key = p.key
           · have := (SL.getDatatype_some hg).2
             simp [hk, consistent, SL.sameDuid, this]
           · simp [hk, consistent, SL.sameDuid]
       | some d =>
         by_cases h1 : d.typ = p.typ <;> by_cases h2 : d.visible = true <;>
           by_cases h3 : (d.sub cuid p.readOnly).isSome = true <;> simp [h1, h2, h3, consistent, SL.sameDuid])

/-- hence: on every store and request, the model's final dispatch IS the decision of the current source -/
theorem model_dispatch_is_source (st : Store) (cl : ClientDoc) (col : CollectionDoc) (p : Pack) :
    sourceDecision (evalCase st col cl.cuid p).1 p.create p.subscribe (SL.sameDuid p (evalCase st col cl.cuid p).2)
      (evalCase st col cl.cuid p).2.isNone = some (SL.dsp st cl col p) := by
  rw [dsp_is_modelDecision]
  exact dispatch_is_source _ _ _ _ _ (evalCase_consistent st col cl.cuid p)

/-- validatePushPullPack: the source's paths are the two read-only refusals of `processPack` -/
def validateAgree : Bool :=
  [true, false].all fun ro => [true, false].all fun cr => [true, false].all fun ops =>
    (evalPaths Gen.validatePaths ⟨cr, false, ro, ops, false, false, ""⟩) ==
      some (if ro && cr then .err "PushPullAbortionOfClient" else if ro && ops then .err "PushPullAbortionOfClient" else .ok)

theorem validate_is_source : validateAgree = true := by decide

theorem abortionOfClient_is_301 : codeOf "PushPullAbortionOfClient" = some 301 := by decide

end Orda.DB
