/-
The WHOLE modelled system — wired clients (Model/Wired: `WDt.createPack`, `WDt.applyPack`, with the replica of
Model/Replica inside) + the store-level server (Model/Server: `processPack` on a `Store`) — refines `PNet`
(Proofs/ProtoNet), so that the convergence theorems of Props/C07 are theorems about the executable model that the
correspondence harness ties to the Go code.

REPLICAS.  `PNet` keeps the protocol checkpoint beside the replica and executes pulled operations with `execRemoteBase`
(`execAll`); the wired layer keeps the checkpoint IN the replica (`rep.cp`) and `Replica.receive` also appends every
executed operation to the rollback log `rbOps`.  No public call and no remote execution reads either field, so replicas
are compared up to them: `erase`, `call_sim`, `execRemoteBase_sim`, `execAll_sim`, `execOK_sim`.
`receive_ok`: on operations that are no transaction units and whose remote executions do not panic, `Replica.receive`
returns `.ok`, the replica of `execAll` (up to `rbOps`), the checkpoint untouched.  (If an execution DID panic,
`Replica.receive` would stop where `execAll` goes on: `PNet.faults_deliveries_exact` excludes it in reachable states.)
No transaction unit ever travels: `prepare_noTx`, `execLocal_noTx`, `call_noTx`, `noTx_reach`, `log_noTx`, `resp_noTx`
— proved, not assumed; no step carries a guard for it.

ONE-STEP LEMMAS.  `createPack_is_send` (with `pending_eq_drop`: on a buffer numbered 1,2,…, `Replica.pending` is
`buffer.drop cp.cseq`), `applyPack_subscribed` (normal form), `applyPack_is_receive`, `applyPack_error_is_stutter`.

THE SYSTEM.  `FSys` / `FStep typ tg` (call, send, serve, deliver, other, frame) / `FRun`.  Error packs produced by the
server DO join the responses and ARE delivered: the client only calls its error handler (`applyPack_error_is_stutter`), an
invisible step.  `Rel tg F S` (simulation relation): `SRef.Good` store, `S.log = absLog`, `S.cps = absCps`, clients
pairwise `CRel` (same replica up to `cp`/`rbOps`, protocol checkpoint = `rep.cp`, wired state `.subscribed`, key/id of the
target, registered non-volatile client record of the replica's cuid; the ghost `applied` is whatever `S` holds),
`S.reqs` = the packs' protocol content with every pack an ordinary pack (`SRef.PackOf`), `S.resps` = the protocol content of
the NON-error packs, none with the subscribe bit.
`full_step_simulates`: every `FStep` is an `RStep` or invisible (needs `RReach` of the abstract state: numbered buffers for
`send`, no panic and no transaction unit for `deliver`); `full_run_simulates_pnet`; `rel_init`.
CONVERGENCE.  `FQuiescent`, `full_quiescent_converged_list / _counter / _map / _document`.
OUT OF SCOPE: the entry phase on the client side (`applyPack`'s subscribe / due-to-create branches; store side:
`ServerRefineJoin`), user transactions (as in `PNet`), read-only / volatile clients.  Core Lean only.
-/
import Orda.Proofs.ServerRefine
import Orda.Proofs.ProtoNet
import Orda.Model.Wired
namespace Orda.FullNet
open Orda Orda.SRef Orda.PNet

/-! ## Replicas up to the fields the protocol layer owns

`PNet` keeps the checkpoint beside the replica and executes pulled operations with `execRemoteBase` only;
the wired layer keeps the checkpoint IN the replica (`rep.cp`) and `Replica.receive` also appends to the
rollback log `rbOps`.  No public call and no remote execution reads `cp` or `rbOps`, so replicas are
compared up to these two fields. -/

/-- forget the checkpoint and the rollback log -/
def erase (r : Replica) : Replica := { r with cp := ⟨0, 0⟩, rbOps := [] }

theorem erase_fields {a b : Replica} (h : erase a = erase b) :
    a.typ = b.typ ∧ a.opId = b.opId ∧ a.state = b.state ∧ a.buffer = b.buffer := by
  cases a; cases b
  simp only [erase, Replica.mk.injEq] at h
  exact ⟨h.1, h.2.1, h.2.2.1, h.2.2.2.1⟩

theorem execRemoteBase_sim {a b : Replica} (h : erase a = erase b) (o : Op) :
    erase (a.execRemoteBase o).1 = erase (b.execRemoteBase o).1 ∧
    (a.execRemoteBase o).2 = (b.execRemoteBase o).2 ∧ (a.execRemoteBase o).1.cp = a.cp := by
  cases a; cases b
  simp only [erase, Replica.mk.injEq] at h
  obtain ⟨h1, h2, h3, h4, _, h5, h6, _⟩ := h
  subst h1 h2 h3 h4 h5 h6
  unfold Replica.execRemoteBase
  simp only []
  split <;> simp [erase]

theorem execAll_sim : ∀ (ops : List Op) {a b : Replica}, erase a = erase b →
    erase (execAll a ops) = erase (execAll b ops) ∧ (execAll a ops).cp = a.cp
  | [], _, _, h => ⟨h, rfl⟩
  | o :: os, a, b, h => by
    obtain ⟨h1, _, h3⟩ := execRemoteBase_sim h o
    obtain ⟨g1, g2⟩ := execAll_sim os h1
    exact ⟨g1, g2.trans h3⟩

theorem execOK_sim : ∀ (ops : List Op) {a b : Replica}, erase a = erase b → ExecOK a ops → ExecOK b ops
  | [], _, _, _, _ => trivial
  | o :: os, a, b, h, hk => by
    obtain ⟨h1, h2, _⟩ := execRemoteBase_sim h o
    exact ⟨h2 ▸ hk.1, execOK_sim os h1 hk.2⟩

/-- a public call reads and writes neither field (it appends to `rbOps`), and keeps the client id -/
theorem call_sim {a b : Replica} (h : erase a = erase b) (c : Call) :
    erase (a.call c).1 = erase (b.call c).1 ∧ (a.call c).1.cp = a.cp ∧ (a.call c).1.opId.cuid = a.opId.cuid := by
  obtain ⟨t, id, s, buf, cp, rid, rs, ro⟩ := a
  obtain ⟨t', id', s', buf', cp', rid', rs', ro'⟩ := b
  simp only [erase, Replica.mk.injEq] at h
  obtain ⟨h1, h2, h3, h4, _, h5, h6, _⟩ := h
  subst h1 h2 h3 h4 h5 h6
  unfold Replica.call
  simp only []
  cases hp : c.prepare s with
  | done o => exact ⟨rfl, rfl, rfl⟩
  | op b post =>
    simp only []
    unfold Replica.callLocal Replica.execLocalBase
    simp only []
    by_cases hm : b.isMeta = true
    · simp [hm, erase, OpId.next]
    · simp only [hm, Bool.false_eq_true, if_false]
      cases he : execLocal s id.next.ts b with
      | ok res => obtain ⟨s2, b2, ret⟩ := res; simp [erase, OpId.next]
      | err e => simp [erase, OpId.next, OpId.rollBack]
      | panic w => simp [erase, OpId.next]

/-! ## `Replica.receive` on operations that are not transaction units is `execAll` -/

def isTx : OpBody → Bool
  | .transaction _ _ => true
  | _ => false

theorem applyUnit_single (r : Replica) (o : Op) :
    r.applyUnit [o] =
      match r.execRemoteBase o with
      | (r', none) => ({ r' with rbOps := r'.rbOps ++ [o] }, .ok ())
      | (r', some w) => (r', .panic w) := by
  unfold Replica.applyUnit
  simp only []
  unfold Replica.applyUnit.go
  cases h : r.execRemoteBase o with
  | mk r' w => cases w <;> simp [Replica.applyUnit.go]

theorem receive_go_ok : ∀ (ops : List Op) (fuel : Nat) (r : Replica), ops.length ≤ fuel →
    (∀ o ∈ ops, isTx o.body = false) → ExecOK r ops →
    ∃ r3, Replica.receive.go fuel r ops = (r3, .ok ()) ∧ erase r3 = erase (execAll r ops) ∧ r3.cp = r.cp
  | [], fuel, r, _, _, _ => ⟨r, by unfold Replica.receive.go; cases fuel <;> rfl, rfl, rfl⟩
  | o :: rest, 0, r, hl, _, _ => by simp at hl
  | o :: rest, fuel + 1, r, hl, hn, hk => by
    have hno : isTx o.body = false := hn o List.mem_cons_self
    obtain ⟨hk1, hk2⟩ := hk
    cases hx : r.execRemoteBase o with
    | mk r' w =>
      rw [hx] at hk1 hk2
      simp only [] at hk1 hk2
      subst hk1
      have hself := execRemoteBase_sim (a := r) (b := r) rfl o
      rw [hx] at hself
      have hcp : r'.cp = r.cp := hself.2.2
      have hk2' : ExecOK { r' with rbOps := r'.rbOps ++ [o] } rest := execOK_sim rest (a := r') rfl hk2
      obtain ⟨r3, g1, g2, g3⟩ := receive_go_ok rest fuel { r' with rbOps := r'.rbOps ++ [o] }
        (by simp at hl; omega) (fun x hx' => hn x (List.mem_cons_of_mem _ hx')) hk2'
      refine ⟨r3, ?_, ?_, g3.trans hcp⟩
      · rw [Replica.receive.go]
        split
        · next t n hb => rw [hb] at hno; simp [isTx] at hno
        · rw [applyUnit_single, hx]
          simp only []
          exact g1
      · rw [g2]
        have e : execAll r (o :: rest) = execAll r' rest := by
          show execAll (r.execRemoteBase o).1 rest = _
          rw [hx]
        rw [e]
        exact (execAll_sim rest (a := { r' with rbOps := r'.rbOps ++ [o] }) (b := r') rfl).1

/-- executing pulled operations through `Replica.receive`: no panic, no refusal; the replica is `execAll`'s up to
    `rbOps`, the checkpoint is untouched -/
theorem receive_ok (r : Replica) (ops : List Op) (hn : ∀ o ∈ ops, isTx o.body = false) (hk : ExecOK r ops) :
    ∃ r3, r.receive ops = (r3, .ok ()) ∧ erase r3 = erase (execAll r ops) ∧ r3.cp = r.cp :=
  receive_go_ok ops ops.length r (Nat.le_refl _) hn hk

/-! ## One-step lemmas of the wired layer -/

/-- on a buffer numbered 1, 2, 3, … (`PR.CInv.bufOk`), the pending operations of `createPack` are the buffer beyond
    the acknowledged sequence number: the protocol's request -/
theorem pending_eq_drop (r : Replica) (h : ∀ k (hk : k < r.buffer.length), r.buffer[k].id.seq = k + 1) :
    r.pending = r.buffer.drop r.cp.cseq := by
  unfold Replica.pending
  cases hb : r.buffer with
  | nil => simp
  | cons first rest =>
    have h1 : first.id.seq = 1 := by
      have := h 0 (by rw [hb]; simp)
      simpa [hb] using this
    simp only [h1]
    have e : ((r.cp.cseq : Int) + 1 - ((1 : Nat) : Int)) = (r.cp.cseq : Int) := by omega
    rw [e]
    by_cases hlt : r.cp.cseq < (first :: rest).length
    · simp
    · have : (first :: rest).drop r.cp.cseq = [] := List.drop_eq_nil_of_le (by omega)
      simp [this]

/-- an error pack changes nothing in the wired datatype (the error handler is called, that is all) -/
theorem applyPack_error_is_stutter (w : WDt) (p : Pack) (h : p.error = true) :
    (w.applyPack p).1 = w ∧ (w.applyPack p).2.2 = none ∧ ∃ c, (w.applyPack p).2.1 = [.errors [c]] := by
  unfold WDt.applyPack
  simp only [h, if_true]
  split <;> exact ⟨rfl, rfl, _, rfl⟩

/-- `applyPack` of a subscribed datatype on an ordinary (non-error, non-subscribe) response: the checkpoint is merged
    with `max`, then `newForeignOps` are handed to `Replica.receive` -/
theorem applyPack_subscribed (w : WDt) (p : Pack) (hs : w.dstate = .subscribed) (he : p.error = false)
    (hsub : p.subscribe = false) :
    w.applyPack p =
      match ({ w.rep with cp := ⟨max w.rep.cp.sseq p.cp.sseq, max w.rep.cp.cseq p.cp.cseq⟩ } : Replica).receive
          (newForeignOps w.rep.opId.cuid w.rep.cp p.cp p.ops) with
      | (r3, .ok ()) =>
        ({ w with rep := r3 },
         (if (newForeignOps w.rep.opId.cuid w.rep.cp p.cp p.ops).isEmpty then []
          else [.remoteOps (newForeignOps w.rep.opId.cuid w.rep.cp p.cp p.ops).length]), none)
      | (r3, .err c) => ({ w with rep := r3 }, [.errors [c]], none)
      | (r3, .panic why) => ({ w with rep := r3 }, [], some why) := by
  unfold WDt.applyPack
  simp only [he, hsub, hs]
  simp
  split <;> simp_all

theorem nfo_subset (u : String) (a b : CheckPoint) (ops : List Op) : ∀ o ∈ newForeignOps u a b ops, o ∈ ops := by
  intro o ho
  unfold newForeignOps at ho
  exact (List.mem_filter.1 (List.mem_of_mem_drop ho)).1

/-- **The wired client's `applyPack` IS the protocol's `receive`.**  For a subscribed wired datatype and an ordinary
    response (no error bit, no subscribe bit) whose operations are no transaction units and whose remote executions
    do not panic (`PNet.faults_deliveries_exact` in reachable states): the datatype after `applyPack` holds, up to
    `rbOps`, the replica of `RClient.receive` (`newForeignOps` executed one by one), its checkpoint is the `max`-merged
    one, nothing else of the wired datatype changes, and no panic is reported. -/
theorem applyPack_is_receive {w : WDt} {rc : RClient} {p : Pack} (hs : w.dstate = .subscribed)
    (he : p.error = false) (hsub : p.subscribe = false)
    (hsim : erase w.rep = erase rc.r) (hcp : rc.cp = w.rep.cp)
    (hnotx : ∀ o ∈ p.ops, isTx o.body = false)
    (hok : ExecOK rc.r (newForeignOps rc.cuid rc.cp p.cp p.ops)) (i : Nat) :
    erase (w.applyPack p).1.rep = erase (rc.receive ⟨i, p.ops, p.cp⟩).r ∧
    (rc.receive ⟨i, p.ops, p.cp⟩).cp = (w.applyPack p).1.rep.cp ∧
    (w.applyPack p).1.dstate = .subscribed ∧ (w.applyPack p).1.key = w.key ∧ (w.applyPack p).1.duid = w.duid ∧
    (w.applyPack p).2.2 = none := by
  have hcu : rc.cuid = w.rep.opId.cuid := by
    unfold RClient.cuid; rw [(erase_fields hsim).2.1]
  rw [hcu, hcp] at hok
  have hn : ∀ o ∈ newForeignOps w.rep.opId.cuid w.rep.cp p.cp p.ops, isTx o.body = false :=
    fun o ho => hnotx o (nfo_subset _ _ _ _ o ho)
  have hsim2 : erase rc.r = erase ({ w.rep with cp := ⟨max w.rep.cp.sseq p.cp.sseq, max w.rep.cp.cseq p.cp.cseq⟩ } : Replica) :=
    hsim.symm
  obtain ⟨r3, g1, g2, g3⟩ := receive_ok _ _ hn (execOK_sim _ hsim2 hok)
  rw [applyPack_subscribed w p hs he hsub, g1]
  simp only []
  refine ⟨?_, ?_, hs, trivial, trivial, trivial⟩
  · rw [g2]
    show _ = erase (execAll rc.r (newForeignOps rc.cuid rc.cp p.cp p.ops))
    rw [hcu, hcp]
    exact (execAll_sim _ hsim2.symm).1
  · rw [g3]
    show CheckPoint.mk (max rc.cp.sseq p.cp.sseq) (max rc.cp.cseq p.cp.cseq) = _
    rw [hcp]

/-! ## No transaction unit ever travels (`PNet` has no transaction calls) -/

theorem prepareDoc_noTx (d : Doc) (c : Call) {b : OpBody} {post : Ret → Ret} (h : c.prepareDoc d = .op b post) :
    isTx b = false := by
  cases c <;> simp only [Call.prepareDoc] at h <;> (repeat' split at h) <;>
    first
    | (simp only [Prep.op.injEq] at h; obtain ⟨rfl, _⟩ := h; rfl)
    | (simp at h)

theorem prepare_noTx (s : DState) (c : Call) {b : OpBody} {post : Ret → Ret} (h : c.prepare s = .op b post) :
    isTx b = false := by
  cases c <;> simp only [Call.prepare] at h <;> (repeat' split at h) <;>
    first
    | (simp only [Prep.op.injEq] at h; obtain ⟨rfl, _⟩ := h; rfl)
    | exact prepareDoc_noTx _ _ h
    | (simp at h)

theorem execLocal_noTx (s : DState) (ts : Ts) (b : OpBody) {s' : DState} {b' : OpBody} {ret : Ret}
    (h : execLocal s ts b = .ok (s', b', ret)) (hb : isTx b = false) : isTx b' = false := by
  unfold execLocal at h
  (repeat' split at h) <;>
    first
    | (simp only [Outcome.ok.injEq, Prod.mk.injEq] at h; obtain ⟨_, rfl, _⟩ := h; rfl)
    | (simp at h)

theorem wire_noTx (o : Op) (h : isTx o.body = false) : isTx o.wire.body = false := by
  unfold Op.wire OpBody.wire
  cases hb : o.body <;> simp_all [isTx]

/-- a public call queues no transaction unit -/
theorem call_noTx (r : Replica) (c : Call) : ∀ o ∈ (r.call c).1.buffer, o ∈ r.buffer ∨ isTx o.body = false := by
  obtain ⟨t, id, s, buf, cp, rid, rs, ro⟩ := r
  unfold Replica.call
  simp only []
  cases hp : c.prepare s with
  | done o => intro o ho; exact Or.inl ho
  | op b post =>
    have hb := prepare_noTx s c hp
    simp only []
    unfold Replica.callLocal Replica.execLocalBase
    simp only []
    by_cases hm : b.isMeta = true
    · simp only [hm, if_true]
      intro o ho
      rcases List.mem_append.1 ho with ho | ho
      · exact Or.inl ho
      · simp only [List.mem_singleton] at ho; subst ho; exact Or.inr (wire_noTx _ hb)
    · simp only [hm, Bool.false_eq_true, if_false]
      cases he : execLocal s id.next.ts b with
      | ok res =>
        obtain ⟨s2, b2, ret⟩ := res
        simp only []
        intro o ho
        rcases List.mem_append.1 ho with ho | ho
        · exact Or.inl ho
        · simp only [List.mem_singleton] at ho; subst ho; exact Or.inr (wire_noTx _ (execLocal_noTx _ _ _ he hb))
      | err e => intro o ho; exact Or.inl ho
      | panic w => intro o ho; exact Or.inl ho

/-- no buffer of a `PNet` state holds a transaction unit -/
def NoTxR (S : RSys) : Prop := ∀ cl ∈ S.clients, ∀ o ∈ cl.r.buffer, isTx o.body = false

theorem noTx_step {typ : DtType} {S S' : RSys} (h : NoTxR S) (s : RStep typ S S') : NoTxR S' := by
  cases s with
  | call i cl c hi hc =>
    intro cl' hcl' o ho
    rcases List.mem_or_eq_of_mem_set hcl' with hm | rfl
    · exact h cl' hm o ho
    · rcases call_noTx cl.r c o ho with h1 | h1
      · exact h cl (List.mem_of_getElem? hi) o h1
      · exact h1
  | send i cl hi => exact h
  | serve r cl cp2 docs hr hi hp => exact h
  | refuse r cl code hr hi hp => exact h
  | deliver p cl hp hi =>
    intro cl' hcl' o ho
    rcases List.mem_or_eq_of_mem_set hcl' with hm | rfl
    · exact h cl' hm o ho
    · have : (cl.receive p).r.buffer = cl.r.buffer := PNet.execAll_buffer _ _
      rw [this] at ho
      exact h cl (List.mem_of_getElem? hi) o ho

theorem noTx_reach {typ : DtType} {cuids : List String} {S : RSys} (h : RReach typ cuids S) : NoTxR S := by
  induction h with
  | init _ =>
    intro cl hcl o ho
    simp only [RSys.init, List.mem_map] at hcl
    obtain ⟨u, _, rfl⟩ := hcl
    cases ho
  | step _ s ih => exact noTx_step ih s

/-- … hence none is in the log, and none in any response ever produced -/
theorem log_noTx {typ : DtType} {cuids : List String} {S : RSys} (h : RReach typ cuids S) :
    ∀ o ∈ S.log, isTx o.body = false := by
  intro o ho
  obtain ⟨cl, hcl, hm⟩ := (log_is_exactly_issued (proj_reach h) o).1 ho
  obtain ⟨rc, hrc, rfl⟩ := List.mem_map.1 hcl
  exact noTx_reach h rc hrc o (List.mem_of_mem_take hm)

theorem resp_noTx {typ : DtType} {cuids : List String} {S : RSys} (h : RReach typ cuids S) {p : PResp} {cl : RClient}
    (hp : p ∈ S.resps) (hi : S.clients[p.i]? = some cl) : ∀ o ∈ p.ops, isTx o.body = false := by
  obtain ⟨e, sr, h1, _⟩ := (proto_inv (proj_reach h)).resp p hp cl.view (proj_get hi)
  intro o ho
  rw [h1] at ho
  exact log_noTx h o (List.mem_of_mem_take (List.mem_of_mem_drop ho))

/-! ## The whole system -/

/-- the whole system: the real store, wired clients (registered client record + wired datatype), the network -/
structure FSys where
  st : Store
  clients : List (ClientDoc × WDt)
  reqs : List (Nat × Pack)        -- every request ever sent (client index, pack)
  resps : List (Nat × Pack)       -- every response ever produced (error packs included)

inductive FStep (typ : DtType) (tg : Target) : FSys → FSys → Prop
  /-- client `i` issues a public call on its replica -/
  | call (F : FSys) (i : Nat) (cd : ClientDoc) (w : WDt) (c : Call) :
      F.clients[i]? = some (cd, w) → callOK typ c →
      FStep typ tg F { F with clients := F.clients.set i (cd, { w with rep := (w.rep.call c).1 }) }
  /-- client `i` sends the pack `WDt.createPack` builds -/
  | send (F : FSys) (i : Nat) (cd : ClientDoc) (w : WDt) :
      F.clients[i]? = some (cd, w) →
      FStep typ tg F { F with reqs := F.reqs ++ [(i, w.createPack)] }
  /-- ANY request ever sent is served (any number of times) by `processPack` for the sender's client record; the
      response pack — an error pack too — joins the responses -/
  | serve (F : FSys) (i : Nat) (p : Pack) (cd : ClientDoc) (w : WDt) :
      (i, p) ∈ F.reqs → F.clients[i]? = some (cd, w) →
      FStep typ tg F { F with st := (processPack F.st cd tg.col p).store,
                              resps := F.resps ++ [(i, (processPack F.st cd tg.col p).resp)] }
  /-- ANY response ever produced is applied by its client (any number of times, in any order) with `WDt.applyPack` -/
  | deliver (F : FSys) (i : Nat) (p : Pack) (cd : ClientDoc) (w : WDt) :
      (i, p) ∈ F.resps → F.clients[i]? = some (cd, w) →
      FStep typ tg F { F with clients := F.clients.set i (cd, (w.applyPack p).1) }
  /-- any pack of anybody answered for another datatype id -/
  | other (F : FSys) (cd : ClientDoc) (col : CollectionDoc) (p : Pack) :
      (processPack F.st cd col p).resp.duid ≠ tg.duid →
      FStep typ tg F { F with st := (processPack F.st cd col p).store }
  /-- anything that leaves the datatype and operation collections alone -/
  | frame (F : FSys) (st' : Store) :
      st'.datatypes = F.st.datatypes → st'.operations = F.st.operations → FStep typ tg F { F with st := st' }

inductive FRun (typ : DtType) (tg : Target) : FSys → FSys → Prop
  | refl (F : FSys) : FRun typ tg F F
  | step {F F' F'' : FSys} : FRun typ tg F F' → FStep typ tg F' F'' → FRun typ tg F F''

/-! ## The simulation relation -/

def reqOf (e : Nat × Pack) : PReq := ⟨e.1, e.2.cp.sseq, e.2.ops⟩
def respOf (e : Nat × Pack) : Option PResp := if e.2.error then none else some ⟨e.1, e.2.ops, e.2.cp⟩

/-- a wired client and its `PNet` client: the same replica up to `cp`/`rbOps`, the protocol checkpoint is the replica's
    `cp`; the wired datatype is subscribed to the target; its client record is the registered, non-volatile one -/
structure CRel (tg : Target) (cw : ClientDoc × WDt) (rc : RClient) : Prop where
  rep : erase cw.2.rep = erase rc.r
  cp : rc.cp = cw.2.rep.cp
  subscribed : cw.2.dstate = .subscribed
  key : cw.2.key = tg.key
  duid : cw.2.duid = tg.duid
  cuid : cw.1.cuid = cw.2.rep.opId.cuid
  notVolatile : cw.1.typ ≠ 2

theorem CRel.rcuid {tg : Target} {cw : ClientDoc × WDt} {rc : RClient} (h : CRel tg cw rc) : rc.cuid = cw.1.cuid := by
  unfold RClient.cuid; rw [h.cuid, (erase_fields h.rep).2.1]

/-- `Rel tg F S`: store abstraction as in `ServerRefine`, clients pairwise `CRel` (the ghost `applied` is whatever `S`
    says), requests = the packs' protocol content, responses = the non-error packs' protocol content -/
structure Rel (tg : Target) (F : FSys) (S : RSys) : Prop where
  good : SRef.Good tg ⟨F.st, [], [], []⟩
  log : S.log = absLog F.st tg.duid
  cps : S.cps = absCps F.st tg.duid
  len : F.clients.length = S.clients.length
  cli : ∀ (i : Nat) cw rc, F.clients[i]? = some cw → S.clients[i]? = some rc → CRel tg cw rc
  reqs : S.reqs = F.reqs.map reqOf
  reqsOk : ∀ e ∈ F.reqs, PackOf tg (reqOf e) e.2
  resps : S.resps = F.resps.filterMap respOf
  respsOk : ∀ e ∈ F.resps, e.2.subscribe = false

theorem Rel.partner {tg : Target} {F : FSys} {S : RSys} (h : Rel tg F S) {i : Nat} {cw : ClientDoc × WDt}
    (hi : F.clients[i]? = some cw) : ∃ rc, S.clients[i]? = some rc ∧ CRel tg cw rc := by
  have hlt : i < F.clients.length := (List.getElem?_eq_some_iff.1 hi).1
  have hlt' : i < S.clients.length := by rw [← h.len]; exact hlt
  exact ⟨S.clients[i], List.getElem?_eq_getElem hlt', h.cli i cw _ hi (List.getElem?_eq_getElem hlt')⟩

theorem cli_set {tg : Target} {fc : List (ClientDoc × WDt)} {sc : List RClient} (hlen : fc.length = sc.length)
    (hcli : ∀ (i : Nat) cw rc, fc[i]? = some cw → sc[i]? = some rc → CRel tg cw rc) (i : Nat)
    {cw' : ClientDoc × WDt} {rc' : RClient} (hnew : CRel tg cw' rc') :
    (fc.set i cw').length = (sc.set i rc').length ∧
    ∀ (j : Nat) cw rc, (fc.set i cw')[j]? = some cw → (sc.set i rc')[j]? = some rc → CRel tg cw rc := by
  refine ⟨by simp [hlen], ?_⟩
  intro j cw rc h1 h2
  rw [List.getElem?_set] at h1 h2
  by_cases hij : i = j
  · simp only [hij, if_true] at h1 h2
    split at h1
    · split at h2
      · cases h1; cases h2; exact hnew
      · cases h2
    · cases h1
  · simp only [hij, if_false] at h1 h2
    exact hcli j cw rc h1 h2

/-- **The pack of a subscribed wired datatype IS the protocol request**: `createPack` carries the replica's checkpoint
    sseq and its buffer beyond the acknowledged cseq (`PNet.RStep.send`'s request), as an ordinary pack for the target
    (`SRef.PackOf`).  `hbuf` (buffer numbered 1, 2, …) is `PR.CInv.bufOk`, an invariant of reachable states. -/
theorem createPack_is_send {tg : Target} {cw : ClientDoc × WDt} {rc : RClient} (h : CRel tg cw rc) (i : Nat)
    (hbuf : ∀ k (hk : k < rc.r.buffer.length), rc.r.buffer[k].id.seq = k + 1) :
    reqOf (i, cw.2.createPack) = ⟨i, rc.cp.sseq, rc.r.buffer.drop rc.cp.cseq⟩ ∧
    PackOf tg (reqOf (i, cw.2.createPack)) cw.2.createPack := by
  have hb : cw.2.rep.buffer = rc.r.buffer := (erase_fields h.rep).2.2.2
  have hbuf' : ∀ k (hk : k < cw.2.rep.buffer.length), cw.2.rep.buffer[k].id.seq = k + 1 := by
    rw [hb]; exact hbuf
  have hp := pending_eq_drop cw.2.rep hbuf'
  constructor
  · show PReq.mk i cw.2.rep.cp.sseq cw.2.rep.pending = _
    rw [hp, hb, h.cp]
  · exact packOf_createPack cw.2 i h.subscribed h.key h.duid

theorem ordinary_resp_subscribe {st : Store} {cl : ClientDoc} {col : CollectionDoc} {p : Pack} {d : DatatypeDoc}
    (h : Ordinary st cl col p d) : (processPack st cl col p).resp.subscribe = false := by
  rw [h.eq_finish]; unfold SL.finish; split <;> simp [SL.pushErrR, SL.okR, SL.resp1]

/-! ## Every step of the whole system is a step of `PNet` or invisible -/

theorem full_step_simulates {typ : DtType} {tg : Target} {cuids : List String} {F F' : FSys} {S : RSys}
    (h : Rel tg F S) (hr : RReach typ cuids S) (s : FStep typ tg F F') :
    ∃ S', Rel tg F' S' ∧ (RStep typ S S' ∨ S' = S) := by
  cases s with
  | call i cd w c hi hc =>
    obtain ⟨rc, hrc, cr⟩ := h.partner hi
    obtain ⟨c1, c2, c3⟩ := call_sim cr.rep c
    have hnew : CRel tg (cd, { w with rep := (w.rep.call c).1 }) { rc with r := (rc.r.call c).1 } :=
      ⟨c1, cr.cp.trans c2.symm, cr.subscribed, cr.key, cr.duid, cr.cuid.trans c3.symm, cr.notVolatile⟩
    obtain ⟨l1, l2⟩ := cli_set h.len h.cli i hnew
    exact ⟨{ S with clients := S.clients.set i { rc with r := (rc.r.call c).1 } },
      ⟨h.good, h.log, h.cps, l1, l2, h.reqs, h.reqsOk, h.resps, h.respsOk⟩, Or.inl (RStep.call S i rc c hrc hc)⟩
  | send i cd w hi =>
    obtain ⟨rc, hrc, cr⟩ := h.partner hi
    have hbuf : ∀ k (hk : k < rc.r.buffer.length), rc.r.buffer[k].id.seq = k + 1 :=
      fun k hk => (((proto_inv (proj_reach hr)).cli i rc.view (proj_get hrc)).bufOk k hk).1
    obtain ⟨e1, e2⟩ := createPack_is_send cr i hbuf
    refine ⟨{ S with reqs := S.reqs ++ [⟨i, rc.cp.sseq, rc.r.buffer.drop rc.cp.cseq⟩] },
      ⟨h.good, h.log, h.cps, h.len, h.cli, ?_, ?_, h.resps, h.respsOk⟩, Or.inl (RStep.send S i rc hrc)⟩
    · show S.reqs ++ _ = (F.reqs ++ [(i, w.createPack)]).map reqOf
      rw [List.map_append, ← h.reqs, List.map_singleton, e1]
    · intro e he
      rcases List.mem_append.1 he with he | he
      · exact h.reqsOk e he
      · simp only [List.mem_singleton] at he; subst he; exact e2
  | serve i p cd w hp hi =>
    obtain ⟨rc, hrc, cr⟩ := h.partner hi
    have hpk : PackOf tg (reqOf (i, p)) p := h.reqsOk (i, p) hp
    have hmem : reqOf (i, p) ∈ S.reqs := by rw [h.reqs]; exact List.mem_map.2 ⟨_, hp, rfl⟩
    obtain ⟨d, hord⟩ := h.good.ordinary (cd := cd) hpk cr.notVolatile
    have hsubf := ordinary_resp_subscribe hord
    have hrcu : rc.cuid = cd.cuid := cr.rcuid
    have hrec : S.recOf rc.cuid = absRec F.st tg.duid cd.cuid := by
      unfold RSys.recOf absRec; rw [h.cps, hrcu]
    have hrespsOk : ∀ e ∈ F.resps ++ [(i, (processPack F.st cd tg.col p).resp)], e.2.subscribe = false := by
      intro e he
      rcases List.mem_append.1 he with he | he
      · exact h.respsOk e he
      · simp only [List.mem_singleton] at he; subst he; exact hsubf
    cases hpush : pushOps pDuid pCol ⟨(absLog F.st p.duid).length, (absRec F.st p.duid cd.cuid).cseq⟩ p.ops [] with
    | ok res =>
      obtain ⟨cp2, docs⟩ := res
      have hs := processPack_is_serve h.good.inv hord hpush
      have hpush' : pushOps pDuid pCol ⟨S.log.length, (S.recOf rc.cuid).cseq⟩ (reqOf (i, p)).ops [] = .ok (cp2, docs) := by
        rw [h.log, hrec, ← hpk.duid]; exact hpush
      refine ⟨{ S with log := S.log ++ docs.map (·.op), cps := alSet rc.cuid cp2 S.cps,
                       resps := S.resps ++ [⟨(reqOf (i, p)).i, S.log.drop (reqOf (i, p)).s, cp2⟩] },
        ⟨⟨hs.inv, ?_⟩, ?_, ?_, h.len, h.cli, h.reqs, h.reqsOk, ?_, hrespsOk⟩,
        Or.inl (RStep.serve S (reqOf (i, p)) rc cp2 docs hmem hrc hpush')⟩
      · obtain ⟨d0, hd0, hc0, hk0, hb0⟩ := h.good.target
        have : d0 = d := by
          have := hord.found; rw [hpk.duid] at this
          exact Option.some.inj (hd0.symm.trans this)
        subst this
        obtain ⟨d', g1, g2, g3, g4⟩ := hord.doc_after
        exact ⟨d', by rw [← hpk.duid]; exact g1, g2.trans hc0, g3.trans hk0, by rw [g4]; exact hb0⟩
      · show S.log ++ _ = absLog (processPack F.st cd tg.col p).store tg.duid
        rw [h.log, ← hpk.duid]; exact hs.log.symm
      · show alSet rc.cuid cp2 S.cps = absCps (processPack F.st cd tg.col p).store tg.duid
        rw [h.cps, hrcu, ← hpk.duid]; exact hs.cps.symm
      · show S.resps ++ _ = (F.resps ++ [(i, (processPack F.st cd tg.col p).resp)]).filterMap respOf
        rw [List.filterMap_append, ← h.resps]
        have : respOf (i, (processPack F.st cd tg.col p).resp)
            = some ⟨i, (absLog F.st p.duid).drop p.cp.sseq, cp2⟩ := by
          unfold respOf
          simp only [hs.respOk.1, hs.respOps, hs.respCp]
          rfl
        simp only [List.filterMap_cons, List.filterMap_nil, this]
        rw [h.log, ← hpk.duid]
        rfl
    | error code =>
      obtain ⟨h1, h2, _⟩ := processPack_is_refuse h.good.inv hord hpush
      refine ⟨S, ⟨?_, ?_, ?_, h.len, h.cli, h.reqs, h.reqsOk, ?_, hrespsOk⟩, Or.inr rfl⟩
      · show SRef.Good tg ⟨(processPack F.st cd tg.col p).store, [], [], []⟩
        rw [h1]; exact h.good
      · show S.log = absLog (processPack F.st cd tg.col p).store tg.duid
        rw [h1]; exact h.log
      · show S.cps = absCps (processPack F.st cd tg.col p).store tg.duid
        rw [h1]; exact h.cps
      · show S.resps = (F.resps ++ [(i, (processPack F.st cd tg.col p).resp)]).filterMap respOf
        rw [List.filterMap_append, ← h.resps]
        have : respOf (i, (processPack F.st cd tg.col p).resp) = none := by
          unfold respOf; simp only [h2]; rfl
        simp [this]
  | deliver i p cd w hp hi =>
    obtain ⟨rc, hrc, cr⟩ := h.partner hi
    by_cases he : p.error = true
    · have hst := (applyPack_error_is_stutter w p he).1
      refine ⟨S, ⟨h.good, h.log, h.cps, ?_, ?_, h.reqs, h.reqsOk, h.resps, h.respsOk⟩, Or.inr rfl⟩
      · show (F.clients.set i (cd, (w.applyPack p).1)).length = _
        rw [hst, PNet.set_self hi]; exact h.len
      · show ∀ (j : Nat) cw rc, (F.clients.set i (cd, (w.applyPack p).1))[j]? = some cw → _
        rw [hst, PNet.set_self hi]; exact h.cli
    · have he' : p.error = false := by simpa using he
      have hsub := h.respsOk (i, p) hp
      have hmem : (⟨i, p.ops, p.cp⟩ : PResp) ∈ S.resps := by
        rw [h.resps]
        exact List.mem_filterMap.2 ⟨(i, p), hp, by simp [respOf, he']⟩
      have hnotx : ∀ o ∈ p.ops, isTx o.body = false := resp_noTx hr (p := ⟨i, p.ops, p.cp⟩) hmem hrc
      have hok : ExecOK rc.r (newForeignOps rc.cuid rc.cp p.cp p.ops) :=
        faults_deliveries_exact hr (p := ⟨i, p.ops, p.cp⟩) hmem hrc
      obtain ⟨a1, a2, a3, a4, a5, _⟩ := applyPack_is_receive cr.subscribed he' hsub cr.rep cr.cp hnotx hok i
      have hcu : cd.cuid = (w.applyPack p).1.rep.opId.cuid := by
        rw [(erase_fields a1).2.1]
        show _ = (execAll rc.r _).opId.cuid
        rw [PNet.execAll_cuid]
        exact cr.rcuid.symm
      have hnew : CRel tg (cd, (w.applyPack p).1) (rc.receive ⟨i, p.ops, p.cp⟩) :=
        ⟨a1, a2, a3, a4.trans cr.key, a5.trans cr.duid, hcu, cr.notVolatile⟩
      obtain ⟨l1, l2⟩ := cli_set h.len h.cli i hnew
      exact ⟨{ S with clients := S.clients.set i (rc.receive ⟨i, p.ops, p.cp⟩) },
        ⟨h.good, h.log, h.cps, l1, l2, h.reqs, h.reqsOk, h.resps, h.respsOk⟩,
        Or.inl (RStep.deliver S ⟨i, p.ops, p.cp⟩ rc hmem hrc)⟩
  | other cd col p hne =>
    obtain ⟨hd, ho⟩ := frame_other_datatypes F.st cd col p
    obtain ⟨h1, h2, h3⟩ := abs_of_frame (u := tg.duid) (fun e => hne e.symm) hd ho
    refine ⟨S, ⟨⟨logInv_processPack _ _ _ _ h.good.inv, ?_⟩, ?_, ?_, h.len, h.cli, h.reqs, h.reqsOk, h.resps,
      h.respsOk⟩, Or.inr rfl⟩
    · show ∃ d, (processPack F.st cd col p).store.getDatatype tg.duid = some d ∧ _
      rw [h1]; exact h.good.target
    · show S.log = absLog (processPack F.st cd col p).store tg.duid
      rw [h2]; exact h.log
    · show S.cps = absCps (processPack F.st cd col p).store tg.duid
      rw [h3]; exact h.cps
  | frame st' hd ho =>
    obtain ⟨h1, h2, h3⟩ := abs_of_same hd ho tg.duid
    refine ⟨S, ⟨⟨SL.logInv_congr hd ho h.good.inv, ?_⟩, ?_, ?_, h.len, h.cli, h.reqs, h.reqsOk, h.resps,
      h.respsOk⟩, Or.inr rfl⟩
    · show ∃ d, st'.getDatatype tg.duid = some d ∧ _
      rw [h1]; exact h.good.target
    · show S.log = absLog st' tg.duid
      rw [h2]; exact h.log
    · show S.cps = absCps st' tg.duid
      rw [h3]; exact h.cps

/-- **Runs.**  Every run of the whole system is matched by a run of `PNet`. -/
theorem full_run_simulates_pnet {typ : DtType} {tg : Target} {cuids : List String} {F0 F : FSys} {S0 : RSys}
    (h0 : Rel tg F0 S0) (hr0 : RReach typ cuids S0) (run : FRun typ tg F0 F) :
    ∃ S, Rel tg F S ∧ RReach typ cuids S := by
  induction run with
  | refl => exact ⟨S0, h0, hr0⟩
  | step _ s ih =>
    obtain ⟨S, h, hr⟩ := ih
    obtain ⟨S', h', hs⟩ := full_step_simulates h hr s
    refine ⟨S', h', ?_⟩
    rcases hs with hs | hs
    · exact RReach.step hr hs
    · rw [hs]; exact hr

/-! ## Convergence of the whole system -/

/-- quiescence read on the whole system: every wired client has seen the store's whole log of the target, and the
    store has recorded (= stored) everything the client issued -/
def FQuiescent (tg : Target) (F : FSys) : Prop :=
  ∀ cw ∈ F.clients, cw.2.rep.cp.sseq = (absLog F.st tg.duid).length ∧
    (absRec F.st tg.duid cw.2.rep.opId.cuid).cseq = cw.2.rep.buffer.length

theorem quiescent_of_rel {tg : Target} {F : FSys} {S : RSys} (h : Rel tg F S) (hq : FQuiescent tg F) : QuiescentR S := by
  intro cl hcl
  obtain ⟨i, hi⟩ := List.mem_iff_getElem?.1 hcl
  have hlt : i < S.clients.length := (List.getElem?_eq_some_iff.1 hi).1
  have hlt' : i < F.clients.length := by rw [h.len]; exact hlt
  have hf : F.clients[i]? = some F.clients[i] := List.getElem?_eq_getElem hlt'
  have cr := h.cli i _ cl hf hi
  obtain ⟨q1, q2⟩ := hq _ (List.getElem_mem hlt')
  obtain ⟨_, e2, _, e4⟩ := erase_fields cr.rep
  refine ⟨?_, ?_⟩
  · rw [cr.cp, h.log]; exact q1
  · have : S.recOf cl.cuid = absRec F.st tg.duid (F.clients[i]).2.rep.opId.cuid := by
      unfold RSys.recOf absRec RClient.cuid; rw [h.cps, e2]
    rw [this, ← e4]; exact q2

theorem state_of_rel {tg : Target} {F : FSys} {S : RSys} (h : Rel tg F S) (i : Nat) (hi : i < F.clients.length) :
    (F.clients[i]).2.rep.state = (S.clients[i]'(h.len ▸ hi)).r.state :=
  (erase_fields (h.cli i _ _ (List.getElem?_eq_getElem hi) (List.getElem?_eq_getElem (h.len ▸ hi))).rep).2.2.1

/-- **Lists**: at quiescence all wired clients hold the same list state — whatever the network duplicated, lost,
    delayed or reordered, with the store-level server and the wired client layer in between -/
theorem full_quiescent_converged_list {tg : Target} {cuids : List String} {F0 F : FSys} {S0 : RSys}
    (h0 : Rel tg F0 S0) (hr0 : RReach .list cuids S0) (run : FRun .list tg F0 F) (hq : FQuiescent tg F)
    (i j : Nat) (hi : i < F.clients.length) (hj : j < F.clients.length) :
    (F.clients[i]).2.rep.state = (F.clients[j]).2.rep.state := by
  obtain ⟨S, h, hr⟩ := full_run_simulates_pnet h0 hr0 run
  rw [state_of_rel h i hi, state_of_rel h j hj]
  exact faults_list_quiescent_converged S hr (quiescent_of_rel h hq) i j _ _

/-- **Counters**: the same value everywhere -/
theorem full_quiescent_converged_counter {tg : Target} {cuids : List String} {F0 F : FSys} {S0 : RSys}
    (h0 : Rel tg F0 S0) (hr0 : RReach .counter cuids S0) (run : FRun .counter tg F0 F) (hq : FQuiescent tg F)
    (i j : Nat) (hi : i < F.clients.length) (hj : j < F.clients.length) :
    (F.clients[i]).2.rep.state = (F.clients[j]).2.rep.state := by
  obtain ⟨S, h, hr⟩ := full_run_simulates_pnet h0 hr0 run
  rw [state_of_rel h i hi, state_of_rel h j hj]
  exact faults_counter_quiescent_converged S hr (quiescent_of_rel h hq) i j _ _

/-- **Maps**: all wired clients answer every read alike (get, Size, views) -/
theorem full_quiescent_converged_map {tg : Target} {cuids : List String} {F0 F : FSys} {S0 : RSys}
    (h0 : Rel tg F0 S0) (hr0 : RReach .map cuids S0) (run : FRun .map tg F0 F) (hq : FQuiescent tg F)
    (i j : Nat) (hi : i < F.clients.length) (hj : j < F.clients.length) (mi mj : LwwMap)
    (hsi : (F.clients[i]).2.rep.state = .map mi) (hsj : (F.clients[j]).2.rep.state = .map mj) : SameReads mi mj := by
  obtain ⟨S, h, hr⟩ := full_run_simulates_pnet h0 hr0 run
  rw [state_of_rel h i hi] at hsi
  rw [state_of_rel h j hj] at hsj
  exact faults_map_quiescent_converged S hr (quiescent_of_rel h hq) i j _ _ mi mj hsi hsj

/-- **Documents**: all wired clients hold `ASim`-equal documents with one JSON value -/
theorem full_quiescent_converged_document {tg : Target} {cuids : List String} {F0 F : FSys} {S0 : RSys}
    (h0 : Rel tg F0 S0) (hr0 : RReach .document cuids S0) (run : FRun .document tg F0 F) (hq : FQuiescent tg F)
    (i j : Nat) (hi : i < F.clients.length) (hj : j < F.clients.length) (di dj : Doc)
    (hsi : (F.clients[i]).2.rep.state = .doc di) (hsj : (F.clients[j]).2.rep.state = .doc dj) :
    DA.ASim di dj ∧ di.view.canon = dj.view.canon := by
  obtain ⟨S, h, hr⟩ := full_run_simulates_pnet h0 hr0 run
  rw [state_of_rel h i hi] at hsi
  rw [state_of_rel h j hj] at hsj
  exact faults_doc_quiescent_converged S hr (quiescent_of_rel h hq) i j _ _ di dj hsi hsj

/-! ## The initial state -/

/-- wired clients of fresh subscribers: registered non-volatile client records, replicas `Replica.new typ u false`,
    state `.subscribed`, the target's key and id -/
def initClients (typ : DtType) (tg : Target) (cds : List ClientDoc) : List (ClientDoc × WDt) :=
  cds.map (fun cd => (cd, ⟨Replica.new typ cd.cuid false, tg.key, tg.duid, .subscribed⟩))

def FSys.init (typ : DtType) (tg : Target) (st0 : Store) (cds : List ClientDoc) : FSys :=
  ⟨st0, initClients typ tg cds, [], []⟩

/-- the whole system started on a good store in which the target exists with an empty log and no recorded client is
    related to `PNet`'s initial state (entry phase — create / subscribe through `applyPack`'s other branches — out of
    scope here: see `ServerRefineJoin`) -/
theorem rel_init (typ : DtType) {tg : Target} {st0 : Store} {cds : List ClientDoc}
    (g : SRef.Good tg ⟨st0, [], [], []⟩) (hl : absLog st0 tg.duid = []) (hc : absCps st0 tg.duid = [])
    (hv : ∀ cd ∈ cds, cd.typ ≠ 2) :
    Rel tg (FSys.init typ tg st0 cds) (RSys.init typ (cds.map (·.cuid))) := by
  refine ⟨g, hl.symm, hc.symm, by simp [FSys.init, initClients, RSys.init], ?_, rfl, ?_, rfl, ?_⟩
  · intro i cw rc h1 h2
    simp only [FSys.init, initClients, RSys.init, List.getElem?_map] at h1 h2
    cases hq : cds[i]? with
    | none => simp [hq] at h1
    | some cd =>
      simp [hq] at h1 h2
      subst h1 h2
      exact ⟨rfl, rfl, rfl, rfl, rfl, rfl, hv cd (List.mem_of_getElem? hq)⟩
  · intro e he; cases he
  · intro e he; cases he

/-! ## Non-vacuity

`SRef.Ex`'s store `s2` (collection "c", clients "a" and "b" registered), the target "k"/"d1" created empty with nobody
recorded (a create pack without operations of a volatile client), two subscribed wired counter clients.  Then, through
the steps of the whole system: a calls `inc 5`, sends (`createPack`), is served (`processPack`), applies the answer
(`applyPack`); b sends, is served, applies the answer and executes a's operation.  Quiescent; both hold 5. -/
namespace Ex
open Orda.SRef.Ex

def tg : Target := ⟨col, "d1", "k"⟩
def st0 : Store :=
  (processPack s2 ⟨"v", "v", 1, 2, 0⟩ col
    { key := "k", duid := "d1", create := true, cp := ⟨0, 0⟩, typ := .counter, ops := [] }).store
def wA0 : WDt := ⟨Replica.new .counter "a" false, "k", "d1", .subscribed⟩
def wB0 : WDt := ⟨Replica.new .counter "b" false, "k", "d1", .subscribed⟩
def wA1 : WDt := { wA0 with rep := (wA0.rep.call (.inc 5)).1 }
def pA : Pack := wA1.createPack
def r1 : PPResult := processPack st0 cA col pA
def wA2 : WDt := (wA1.applyPack r1.resp).1
def pB : Pack := wB0.createPack
def r2 : PPResult := processPack r1.store cB col pB
def wB1 : WDt := (wB0.applyPack r2.resp).1

def F0 : FSys := FSys.init .counter tg st0 [cA, cB]
def F1 : FSys := ⟨st0, [(cA, wA1), (cB, wB0)], [], []⟩
def F2 : FSys := ⟨st0, [(cA, wA1), (cB, wB0)], [(0, pA)], []⟩
def F3 : FSys := ⟨r1.store, [(cA, wA1), (cB, wB0)], [(0, pA)], [(0, r1.resp)]⟩
def F4 : FSys := ⟨r1.store, [(cA, wA2), (cB, wB0)], [(0, pA)], [(0, r1.resp)]⟩
def F5 : FSys := ⟨r1.store, [(cA, wA2), (cB, wB0)], [(0, pA), (1, pB)], [(0, r1.resp)]⟩
def F6 : FSys := ⟨r2.store, [(cA, wA2), (cB, wB0)], [(0, pA), (1, pB)], [(0, r1.resp), (1, r2.resp)]⟩
def F7 : FSys := ⟨r2.store, [(cA, wA2), (cB, wB1)], [(0, pA), (1, pB)], [(0, r1.resp), (1, r2.resp)]⟩

example : F0 = ⟨st0, [(cA, wA0), (cB, wB0)], [], []⟩ := rfl

theorem run : FRun .counter tg F0 F7 := by
  have h1 : FRun .counter tg F0 F1 := .step (.refl _) (.call _ 0 cA wA0 (.inc 5) rfl trivial)
  have h2 : FRun .counter tg F0 F2 := .step h1 (.send _ 0 cA wA1 rfl)
  have h3 : FRun .counter tg F0 F3 := .step h2 (.serve _ 0 pA cA wA1 (by simp [F2]) rfl)
  have h4 : FRun .counter tg F0 F4 := .step h3 (.deliver _ 0 r1.resp cA wA1 (by simp [F3]) rfl)
  have h5 : FRun .counter tg F0 F5 := .step h4 (.send _ 1 cB wB0 rfl)
  have h6 : FRun .counter tg F0 F6 := .step h5 (.serve _ 1 pB cB wB0 (by simp [F5]) rfl)
  exact .step h6 (.deliver _ 1 r2.resp cB wB0 (by simp [F6]) rfl)

theorem inv0 : LogInv st0 := logInv_processPack _ _ _ _ inv2'
  where inv2' : LogInv s2 :=
    logInv_processClient _ _ _ _ (logInv_processClient _ _ _ _ (logInv_makeCollection _ _ logInv_empty))

theorem rel0 : Rel tg F0 (RSys.init .counter ["a", "b"]) :=
  rel_init .counter (cds := [cA, cB])
    ⟨inv0, ⟨"d1", "k", 1, .counter, 0, 0, 0, true, [], []⟩, rfl, rfl, rfl, by decide⟩ rfl rfl
    (by intro cd h; simp only [List.mem_cons, List.not_mem_nil, or_false] at h; rcases h with rfl | rfl <;> decide)

theorem quiescent7 : FQuiescent tg F7 := by
  intro cw h
  simp only [F7, List.mem_cons, List.not_mem_nil, or_false] at h
  rcases h with rfl | rfl <;> exact ⟨rfl, rfl⟩

/-- the run is matched by a `PNet` run … -/
example : ∃ S, Rel tg F7 S ∧ RReach .counter ["a", "b"] S :=
  full_run_simulates_pnet rel0 (.init (by decide)) run

/-- … both wired clients hold the same counter state, by the theorem, … -/
example : wA2.rep.state = wB1.rep.state :=
  full_quiescent_converged_counter rel0 (.init (by decide)) run quiescent7 0 1 (by decide) (by decide)

/-- … which is 5 (b executed a's operation through `applyPack` → `Replica.receive`); the store's log -/
example : wA2.rep.state = .counter 5 ∧ wB1.rep.state = .counter 5 ∧
    absLog r2.store "d1" = [⟨⟨0, 1, "a", 1⟩, .increase 5⟩] ∧
    absCps r2.store "d1" = [("a", ⟨1, 1⟩), ("b", ⟨1, 0⟩)] := ⟨rfl, rfl, rfl, rfl⟩

end Ex

end Orda.FullNet
