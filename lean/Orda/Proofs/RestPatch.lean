/-
C19 / C11: the REST patch endpoint (`Store.patchDocument`), end to end through the store.
All lemmas live in namespace `Orda.RestP`.

* 0. `patchDocument_eq` / `run`: normal form of the endpoint.
* 1./2. `patchDocument_answers_target`, `patchDocument_creates_target` (from `DPatch.patchByJSON_reaches_target`).
* 4. `patchDocument_refusal_changes_nothing`.   5. `patchDocument_same_is_silent` (`patchDocument_same_eq`).
* 3a. replica side: `patch_remote` — the buffer the patch leaves (one operation, or ONE transaction unit) carries the client
  sequence numbers 1, 2, … and `receive` of it on any replica holding the same document gives the patched document
  (`step_sim` from `DLR.local_call_core` + `DLR.execRemoteBase_is_applyD_weak`; needs `DLR.HistOK`).
* 3b. server side: `processPack_admin` — the volatile admin's push is ACCEPTED (proved, from checkpoint ⟨ver, 0⟩, no stored
  subscription of the admin id, sequence numbers 1, 2, …); `latest_pushed` — `Store.latest` after the push is the old latest
  state receiving the pushed operations.
* 3. `patchDocument_stores_target`.
* 6. `Ex`: a store reached by makeCollection / processClient / two processPushPull of a real client, all hypotheses of (1), (3)
  discharged; `Ex.emptyLog_not_stored`: why `hpos` is needed (answer OK, nothing stored, for a datatype with an empty log).
-/
import Orda.Model.Rest
import Orda.Proofs.DocPatch
import Orda.Proofs.DocTxNet
import Orda.Proofs.ServerLog
import Orda.Proofs.SnapReplay
namespace Orda.RestP
open Orda

/-! ## 0. normal form of the endpoint -/

/-- the JSON the endpoint answers with -/
def viewOf (r : Replica) : JVal := match r.state with | .doc dd => dd.view | _ => .null

/-- the part of `patchDocument` after the temporary replica is built -/
def run (st : Store) (col : CollectionDoc) (w : WDt) (target : JVal) :
    Store × Rpc JVal × List Notification × List (String × Nat) :=
  match w.rep.patchByJSON target with
  | (_, _, .err _) => (st, .rpcErr 3, [], [])
  | (_, _, .panic _) => (st, .rpcErr 13, [], [])
  | (r2, ops, .ok ()) =>
    if ops.isEmpty then (st, .ok (viewOf r2), [], [])
    else
      let res := processPack st ⟨patchApiCuid, "ordaPatchAPI", col.num, 2, 0⟩ col ({ w with rep := r2 }).createPack
      (res.store, .ok (viewOf r2), res.notif.toList, if res.pushed > 0 then [(res.resp.duid, col.num)] else [])

/-- the temporary replica of an existing document -/
def tmpRep (r0 : Replica) (ver : Nat) (tmpCuid : String) : Replica :=
  { r0 with opId := { r0.opId with cuid := tmpCuid }, cp := ⟨ver, 0⟩ }

theorem patchDocument_eq (st : Store) (colName key : String) (target : JVal) (tmpDuid tmpCuid : String) :
    st.patchDocument colName key target tmpDuid tmpCuid =
      match st.getCollection colName with
      | none => (st, .rpcErr 5, [], [])
      | some col =>
        match st.getDatatypeByKey col.num key with
        | some d =>
          if d.typ ≠ .document then (st, .rpcErr 3, [], [])
          else
            match st.latest d with
            | none => (st, .rpcErr 13, [], [])
            | some (r0, ver) =>
              run st col ⟨tmpRep r0 ver tmpCuid, key, d.duid, if ver > 0 then .subscribed else .dueToCreate⟩ target
        | none => run st col ⟨Replica.new .document tmpCuid true, key, tmpDuid, .dueToCreate⟩ target := by
  rfl

theorem run_ok {st : Store} {col : CollectionDoc} {w : WDt} {target : JVal}
    (h : (w.rep.patchByJSON target).2.2 = .ok ()) :
    (run st col w target).2.1 = .ok (viewOf (w.rep.patchByJSON target).1) := by
  unfold run
  rcases hp : w.rep.patchByJSON target with ⟨r2, ops, o⟩
  rw [hp] at h
  simp only at h
  subst h
  simp only
  split <;> rfl

theorem run_refusal {st : Store} {col : CollectionDoc} {w : WDt} {target : JVal} {code : Nat}
    (h : (run st col w target).2.1 = .rpcErr code) : (run st col w target).1 = st := by
  unfold run at h ⊢
  rcases hp : w.rep.patchByJSON target with ⟨r2, ops, o⟩
  rw [hp] at h
  cases o with
  | err c => rfl
  | panic s => rfl
  | ok u =>
    cases u
    simp only at h ⊢
    split at h <;> simp at h

theorem run_target (st : Store) (col : CollectionDoc) (w : WDt) (h : DP.DocInv w.rep)
    (tgt : List (String × JVal)) (hn : (JVal.obj tgt).hasNull = false) (hk : DC.JKeysND (.obj tgt)) :
    ∃ v, (run st col w (.obj tgt)).2.1 = .ok v ∧ v.canon = (JVal.obj tgt).canon := by
  obtain ⟨d, hs, _, _⟩ := id h
  obtain ⟨d', h1, h2, h3, _⟩ := DPatch.patchByJSON_reaches_target w.rep d hs h tgt hn hk
  refine ⟨_, run_ok h2, ?_⟩
  simp only [viewOf, h1]
  exact h3

/-! ## 1./2. the answer -/

/-- (1) the ANSWER: for an existing document whose latest state satisfies the replica invariant, and a target object without
    nulls and duplicate keys, the endpoint answers OK with (a value canonically equal to) the target -/
theorem patchDocument_answers_target
    (st : Store) (colName key tmpDuid tmpCuid : String) (col : CollectionDoc) (d : DatatypeDoc) (r0 : Replica) (ver : Nat)
    (hc : st.getCollection colName = some col) (hd : st.getDatatypeByKey col.num key = some d) (ht : d.typ = .document)
    (hl : st.latest d = some (r0, ver))
    (hinv : DP.DocInv { r0 with opId := { r0.opId with cuid := tmpCuid }, cp := ⟨ver, 0⟩ })
    (tgt : List (String × JVal)) (hn : (JVal.obj tgt).hasNull = false) (hk : DC.JKeysND (.obj tgt)) :
    ∃ v, (st.patchDocument colName key (.obj tgt) tmpDuid tmpCuid).2.1 = .ok v ∧ v.canon = (JVal.obj tgt).canon := by
  rw [patchDocument_eq]
  simp only [hc, hd, ht, hl, ne_eq, not_true_eq_false, if_false]
  exact run_target st col _ hinv tgt hn hk

/-- (2) … also when the key does not exist yet (the document is created) -/
theorem patchDocument_creates_target
    (st : Store) (colName key tmpDuid tmpCuid : String) (col : CollectionDoc)
    (hc : st.getCollection colName = some col) (hd : st.getDatatypeByKey col.num key = none)
    (tgt : List (String × JVal)) (hn : (JVal.obj tgt).hasNull = false) (hk : DC.JKeysND (.obj tgt)) :
    ∃ v, (st.patchDocument colName key (.obj tgt) tmpDuid tmpCuid).2.1 = .ok v ∧ v.canon = (JVal.obj tgt).canon := by
  rw [patchDocument_eq]
  simp only [hc, hd]
  exact run_target st col _ (DP.docInv_new tmpCuid true) tgt hn hk

/-! ## 4. refusals -/

/-- (4) refusals change nothing: unknown collection, a key of another type, a target the document refuses → the store is returned as is -/
theorem patchDocument_refusal_changes_nothing (st : Store) (colName key : String) (target : JVal) (tmpDuid tmpCuid : String)
    (code : Nat) (h : (st.patchDocument colName key target tmpDuid tmpCuid).2.1 = .rpcErr code) :
    (st.patchDocument colName key target tmpDuid tmpCuid).1 = st := by
  rw [patchDocument_eq] at h ⊢
  split
  · rfl
  · rename_i col hcol
    simp only [hcol] at h
    split
    · rename_i d hdd
      simp only [hdd] at h
      split
      · rfl
      · rename_i hty
        simp only [hty, if_false] at h
        split
        · rfl
        · rename_i r0 ver hl
          simp only [hl] at h
          exact run_refusal h
    · rename_i hdd
      simp only [hdd] at h
      exact run_refusal h

/-! ## 5. patching to the current value -/

/-- patching to the current value: the whole result -/
theorem patchDocument_same_eq
    (st : Store) (colName key tmpDuid tmpCuid : String) (col : CollectionDoc) (d : DatatypeDoc) (r0 : Replica) (ver : Nat)
    (dd : Doc)
    (hc : st.getCollection colName = some col) (hd : st.getDatatypeByKey col.num key = some d) (ht : d.typ = .document)
    (hl : st.latest d = some (r0, ver)) (hs : r0.state = .doc dd)
    (hinv : DP.DocInv { r0 with opId := { r0.opId with cuid := tmpCuid }, cp := ⟨ver, 0⟩ }) :
    st.patchDocument colName key dd.view tmpDuid tmpCuid = (st, .ok dd.view, [], []) := by
  rw [patchDocument_eq]
  simp only [hc, hd, ht, hl, ne_eq, not_true_eq_false, if_false]
  have hs1 : (tmpRep r0 ver tmpCuid).state = .doc dd := hs
  obtain ⟨h1, h2⟩ := DPatch.patchByJSON_same_is_noop (tmpRep r0 ver tmpCuid) dd hs1 hinv
  have h3 : ((tmpRep r0 ver tmpCuid).patchByJSON dd.view).2.2 = .ok () := by
    rw [DPatch.patchByJSON_eq hs1] at h2 ⊢
    simp only at h2 ⊢
    rw [h2, DPatch.patch_nil hs1]
  unfold run
  rcases hp : (tmpRep r0 ver tmpCuid).patchByJSON dd.view with ⟨r2, ops, o⟩
  rw [hp] at h1 h2 h3
  simp only at h1 h2 h3
  subst h1 h2 h3
  simp [viewOf, hs1]

/-- (5) patching to the current value (the JSON view `dd.view` of the latest state) stores nothing and announces nothing:
    the store is returned as it is, no notification, no snapshot job (and the answer is that value, `patchDocument_same_eq`) -/
theorem patchDocument_same_is_silent
    (st : Store) (colName key tmpDuid tmpCuid : String) (col : CollectionDoc) (d : DatatypeDoc) (r0 : Replica) (ver : Nat)
    (dd : Doc)
    (hc : st.getCollection colName = some col) (hd : st.getDatatypeByKey col.num key = some d) (ht : d.typ = .document)
    (hl : st.latest d = some (r0, ver)) (hs : r0.state = .doc dd)
    (hinv : DP.DocInv { r0 with opId := { r0.opId with cuid := tmpCuid }, cp := ⟨ver, 0⟩ }) :
    (st.patchDocument colName key dd.view tmpDuid tmpCuid).1 = st ∧
    (st.patchDocument colName key dd.view tmpDuid tmpCuid).2.2.1 = [] ∧
    (st.patchDocument colName key dd.view tmpDuid tmpCuid).2.2.2 = [] := by
  rw [patchDocument_same_eq st colName key tmpDuid tmpCuid col d r0 ver dd hc hd ht hl hs hinv]
  exact ⟨rfl, rfl, rfl⟩

/-! ## 3a. the replica side: what the patch emits, received by a replica in the same state, gives the same state -/

section replica
open Orda.DC Orda.DM Orda.DR
open Orda.DPatch (Carr GoodV callOf)

/-- `DPatch.op_step`, also telling that the call is mutating and admissible -/
theorem op_step2 {L : OpId} {d : Doc} (I : DP.DInv L 0 d) (hk : KeysND d) {op : PatchOp} {t' : JVal}
    (happ : applyAt op op.path d.view.canon = some t') (hgood : Carr GoodV op) :
    ∃ c b post d' bd ret' b', d.patchCall op = .ok (some c) ∧ DNet.CallOK c ∧ DP.isMutating c = true ∧
      c.prepare (.doc d) = .op b post ∧
      b.isMeta = false ∧ execLocal (.doc d) L.next.ts b = .ok (.doc d', bd, ret') ∧ d'.view.canon = t' ∧
      DP.DInv L b' d' ∧ KeysND d' := by
  rcases List.eq_nil_or_concat op.path with hnil | ⟨p, k, hpath⟩
  · rw [hnil] at happ
    simp [applyAt] at happ
  · rw [List.concat_eq_append] at hpath
    rw [hpath, PD.applyAt_append] at happ
    cases hg : PD.getAt p d.view.canon with
    | none => simp [hg] at happ
    | some c0 =>
      simp only [hg, Option.bind_some] at happ
      cases ha : applyAt op [k] c0 with
      | none => simp [ha] at happ
      | some c' =>
        simp only [ha, Option.bind_some] at happ
        obtain ⟨π, hd, hloc, hres, hview, hset⟩ := DPatch.resolve_root I hk p c0 hg
        rw [hset c'] at happ
        obtain ⟨hl, _⟩ := DP.loc_of I hk hloc
        have hsub := hl.sub
        rw [hview] at hsub
        obtain ⟨c, hcall, ⟨ret, hstep⟩, hh, hck, hm⟩ := DPatch.step_of_apply hd hsub ha happ hgood
        have hpc := DPatch.patchCall_eq I hk hpath hres (DPatch.alive_located I hloc) hview hcall hgood
        obtain ⟨b, post, d', bd, ret', b', q1, q2, q3, q4, q5, q6⟩ := DPatch.exec_step I hk hloc hh hck hm hstep
        exact ⟨c, b, post, d', bd, ret', b', hpc, ⟨hck, DTx.callOf_not_empty_insert hcall⟩, hm, q1, q2, q3, q4, q5, q6⟩

/-- ONE operation of the script: executed locally on `r`, and its wire form executed remotely on any `q` in the same state -/
theorem step_sim {r q : Replica} {d : Doc} (hs : r.state = .doc d) (hq : q.state = .doc d) (I : DP.DInv r.opId 0 d)
    (hk : KeysND d) (hh : DLR.HistOK d) {op : PatchOp} {t' : JVal}
    (happ : applyAt op op.path d.view.canon = some t') (hgood : Carr GoodV op) :
    ∃ c b post d' bd ret', d.patchCall op = .ok (some c) ∧ c.prepare (.doc d) = .op b post ∧ b.isMeta = false ∧
      bd.isMeta = false ∧
      execLocal (.doc d) r.opId.next.ts b = .ok (.doc d', bd, ret') ∧ d'.view.canon = t' ∧
      DP.DInv r.opId.next 0 d' ∧ KeysND d' ∧ DLR.HistOK d' ∧
      (q.execRemoteBase (Op.wire ⟨r.opId.next, bd⟩)).1.state = .doc d' ∧
      (q.execRemoteBase (Op.wire ⟨r.opId.next, bd⟩)).2 = none := by
  obtain ⟨c, b, post, d', bd, ret', b', hpc, hcok, hm, hprep, hmeta, hexec, hview, I', hk'⟩ := op_step2 I hk happ hgood
  have hinv : DP.DocInv r := ⟨d, hs, I, hk⟩
  have hprep' : c.prepare r.state = .op b post := by rw [hs]; exact hprep
  have hexec' : execLocal r.state r.opId.next.ts b = .ok (.doc d', bd, ret') := by rw [hs]; exact hexec
  have hcall := DP.call_of_ok hprep' hmeta hexec'
  obtain ⟨o, x, d'', h1, h2, h3, h4, h5, h6, h7, h8, h9, h10⟩ :=
    DLR.local_call_core r d hs hinv c hcok.1 hm (post ret') (by rw [hcall])
  rw [hcall] at h1 h3
  simp only [List.append_cancel_left_eq, List.cons.injEq, and_true] at h1
  simp only [DState.doc.injEq] at h3
  subst h1 h3
  have hn : DLR.NoHead d x := by
    cases x with
    | o y => trivial
    | a y =>
      cases y with
      | ins p a ts vs => exact DLR.histOK_noHeadSlots hh p
      | del p tgs ts => trivial
      | upd p ts tgs vs => trivial
  obtain ⟨e1, e2⟩ := DLR.execRemoteBase_is_applyD_weak q d hq _ x h4 h7
  rw [h8 hn] at e1
  have hh' : DLR.HistOK d' := DLR.histOK_call r d hs hinv hh c hcok.1 d' (by rw [hcall])
  exact ⟨c, b, post, d', bd, ret', hpc, hprep, hmeta, (execLocal_isMeta _ _ _ _ _ _ hexec).1, hexec, hview, I'.finish, hk',
    hh', e1, e2⟩

/-- consecutive client sequence numbers -/
def SeqFrom (s : Nat) (l : List Op) : Prop := l.map (·.id.seq) = List.range' s l.length

theorem seqFrom_nil (s : Nat) : SeqFrom s [] := rfl

theorem seqFrom_cons {s : Nat} {o : Op} {l : List Op} (h1 : o.id.seq = s) (h2 : SeqFrom (s + 1) l) : SeqFrom s (o :: l) := by
  unfold SeqFrom at *
  simp only [List.map_cons, List.length_cons, List.range'_succ, h1, h2]

/-- the body of a multi-operation patch on `r`, and the recorded operations applied by `applyUnit.go` on `q` -/
theorem body_sim : ∀ (ops : List PatchOp) (r q : Replica) (acc : List Op) (d : Doc) (tf : JVal),
    r.state = .doc d → q.state = .doc d → DP.DInv r.opId 0 d → KeysND d → DLR.HistOK d →
    applyPatch ops d.view.canon = some tf → (∀ op ∈ ops, Carr GoodV op) →
    ∃ r1 new d1 q1, Replica.patch.body r acc ops = (r1, acc ++ new, none) ∧ new.length = ops.length ∧
      r1.state = .doc d1 ∧ d1.view.canon = tf ∧ r1.buffer = r.buffer ∧ r1.cp = r.cp ∧
      SeqFrom (r.opId.seq + 1) (new.map Op.wire) ∧
      Replica.applyUnit.go q (new.map Op.wire) = (q1, .ok ()) ∧ q1.state = .doc d1 := by
  intro ops
  induction ops with
  | nil =>
    intro r q acc d tf hs hq I hk hh happ _
    simp only [applyPatch, Option.some.injEq] at happ
    exact ⟨r, [], d, q, by simp [Replica.patch.body], rfl, hs, happ, rfl, rfl, seqFrom_nil _, rfl, hq⟩
  | cons op rest ih =>
    intro r q acc d tf hs hq I hk hh happ hgood
    simp only [applyPatch] at happ
    cases h1 : applyAt op op.path d.view.canon with
    | none => simp [h1] at happ
    | some t1 =>
      simp only [h1, Option.bind_some] at happ
      obtain ⟨c, b, post, d', bd, ret', hpc, hprep, hmeta, hmeta', hexec, hview, I', hk', hh', e1, e2⟩ :=
        step_sim hs hq I hk hh h1 (hgood op (by simp))
      have hex : r.execLocalBase b =
          ({ r with opId := r.opId.next, state := .doc d' }, .ok (⟨r.opId.next, bd⟩, ret')) := by
        simp only [Replica.execLocalBase, hmeta, Bool.false_eq_true, if_false, hs, hexec]
      rw [← hview] at happ
      rcases hq' : q.execRemoteBase (Op.wire ⟨r.opId.next, bd⟩) with ⟨q', w⟩
      rw [hq'] at e1 e2
      simp only at e1 e2
      subst e2
      obtain ⟨r1, new, d1, q1, p1, p2, p3, p4, p5, p6, p7, p8, p9⟩ :=
        ih { r with opId := r.opId.next, state := .doc d' }
          { q' with rbOps := q'.rbOps ++ [Op.wire ⟨r.opId.next, bd⟩] } (acc ++ [⟨r.opId.next, bd⟩]) d' tf rfl e1 I' hk' hh'
          happ (fun o ho => hgood o (by simp [ho]))
      refine ⟨r1, ⟨r.opId.next, bd⟩ :: new, d1, q1, ?_, by simp [p2], p3, p4, p5, p6, ?_, ?_, p9⟩
      · rw [Replica.patch.body.eq_2]
        simp only [hs, hpc, hprep, hex]
        rw [p1]
        simp
      · rw [List.map_cons]
        exact seqFrom_cons rfl p7
      · rw [List.map_cons, applyUnit_go_cons, hq']
        exact p8

theorem wire_isMeta (b : OpBody) : b.wire.isMeta = b.isMeta := by
  cases b <;> rfl

theorem receive_single (q : Replica) (o : Op) (hm : o.body.isMeta = false) :
    q.receive [o] = match q.execRemoteBase o with
      | (q', none) => ({ q' with rbOps := q'.rbOps ++ [o] }, .ok ())
      | (q', some w) => (q', .panic w) := by
  rw [SN.receive_cons]
  have hb : o.badHeader [o].length = false := by
    unfold Op.badHeader; cases hbd : o.body <;> simp_all [OpBody.isMeta]
  have hu : o.unitLen = 1 := by
    unfold Op.unitLen; cases hbd : o.body <;> simp_all [OpBody.isMeta]
  rw [hb, hu]
  simp only [Bool.false_eq_true, if_false, List.take_succ_cons, List.take_zero, List.drop_succ_cons, List.drop_zero]
  show (match Replica.applyUnit.go q [o] with | (r', .ok ()) => r'.receive [] | (r', e) => (r', e)) = _
  rw [applyUnit_go_cons]
  rcases q.execRemoteBase o with ⟨q', (_ | w)⟩
  · rfl
  · rfl

theorem receive_unit (q : Replica) (id : OpId) (tag : String) (a : Op) (tl : List Op) :
    q.receive (⟨id, .transaction tag ((a :: tl).length + 1)⟩ :: a :: tl) =
      match Replica.applyUnit.go q (a :: tl) with
      | (q', .ok ()) => (q', .ok ())
      | (q', e) => (q', e) := by
  rw [SN.receive_cons]
  have hn : (((a :: tl).length : Int) + 1).toNat = tl.length + 2 := by
    simp only [List.length_cons]; omega
  have hb : Op.badHeader ⟨id, .transaction tag ((a :: tl).length + 1)⟩
      ((⟨id, .transaction tag ((a :: tl).length + 1)⟩ : Op) :: a :: tl).length = false := by
    simp only [Op.badHeader, List.length_cons]
    simp only [Bool.or_eq_false_iff, decide_eq_false_iff_not]
    omega
  have hu : Op.unitLen ⟨id, .transaction tag ((a :: tl).length + 1)⟩ = tl.length + 2 := by
    simp only [Op.unitLen, hn]
  rw [hb, hu]
  have ht : ((⟨id, .transaction tag ((a :: tl).length + 1)⟩ : Op) :: a :: tl).take (tl.length + 2) =
      (⟨id, .transaction tag ((a :: tl).length + 1)⟩ : Op) :: a :: tl := by
    apply List.take_of_length_le; simp
  have hd : ((⟨id, .transaction tag ((a :: tl).length + 1)⟩ : Op) :: a :: tl).drop (tl.length + 2) = [] := by
    apply List.drop_of_length_le; simp
  rw [ht, hd]
  simp only [Bool.false_eq_true, if_false]
  have hap : q.applyUnit ((⟨id, .transaction tag ((a :: tl).length + 1)⟩ : Op) :: a :: tl) =
      Replica.applyUnit.go q (a :: tl) := by
    simp only [Replica.applyUnit]
    rw [if_neg]
    · simp only [List.length_cons, ne_eq, not_not]; push_cast; omega
  rw [hap]
  rcases Replica.applyUnit.go q (a :: tl) with ⟨q', (_ | c | w)⟩ <;> rfl

/-- **what the patch emits, received by a replica in the same state**: the buffer of the patched replica (which was empty)
    carries consecutive client sequence numbers, and `receive` of it on `q` succeeds and gives the patched state -/
theorem patch_remote {r q : Replica} {d : Doc} (hs : r.state = .doc d) (hq : q.state = .doc d) (I : DP.DInv r.opId 0 d)
    (hk : KeysND d) (hh : DLR.HistOK d) (hbuf : r.buffer = []) {ops : List PatchOp} {tf : JVal}
    (happ : applyPatch ops d.view.canon = some tf) (hgood : ∀ op ∈ ops, Carr GoodV op) (hne : ops ≠ []) :
    ∃ d1 q1, (r.patch ops).2 = .ok () ∧ (r.patch ops).1.state = .doc d1 ∧ d1.view.canon = tf ∧
      SeqFrom (r.opId.seq + 1) (r.patch ops).1.buffer ∧ (r.patch ops).1.buffer ≠ [] ∧ (r.patch ops).1.cp = r.cp ∧
      q.receive (r.patch ops).1.buffer = (q1, .ok ()) ∧ q1.state = .doc d1 := by
  match ops, happ, hgood, hne with
  | [], _, _, hne => exact absurd rfl hne
  | [op], happ, hgood, _ =>
    simp only [applyPatch] at happ
    cases h1 : applyAt op op.path d.view.canon with
    | none => simp [h1] at happ
    | some t1 =>
      simp only [h1, Option.bind_some, Option.some.injEq] at happ
      subst happ
      obtain ⟨c, b, post, d', bd, ret', hpc, hprep, hmeta, hmeta', hexec, hview, I', hk', hh', e1, e2⟩ :=
        step_sim hs hq I hk hh h1 (hgood op (by simp))
      have hprep' : c.prepare r.state = .op b post := by rw [hs]; exact hprep
      have hexec' : execLocal r.state r.opId.next.ts b = .ok (.doc d', bd, ret') := by rw [hs]; exact hexec
      have hcall := DP.call_of_ok hprep' hmeta hexec'
      have hp : r.patch [op] = ({ r with opId := r.opId.next, state := .doc d', rbOps := r.rbOps ++ [⟨r.opId.next, bd⟩], buffer := r.buffer ++ [Op.wire ⟨r.opId.next, bd⟩] }, .ok ()) := by
        simp only [Replica.patch, hs, hpc, hcall]
      rw [hp, hbuf]
      rcases hq' : q.execRemoteBase (Op.wire ⟨r.opId.next, bd⟩) with ⟨q', w⟩
      rw [hq'] at e1 e2
      simp only at e1 e2
      subst e2
      refine ⟨d', { q' with rbOps := q'.rbOps ++ [Op.wire ⟨r.opId.next, bd⟩] }, rfl, rfl, hview, ?_, by simp, rfl, ?_, e1⟩
      · exact seqFrom_cons rfl (seqFrom_nil _)
      · simp only [List.nil_append]
        rw [receive_single _ _ (by show bd.wire.isMeta = false; rw [wire_isMeta]; exact hmeta'), hq']
  | o1 :: o2 :: rest, happ, hgood, _ =>
    obtain ⟨r1, new, d1, q1, p1, p2, p3, p4, p5, p6, p7, p8, p9⟩ :=
      body_sim (o1 :: o2 :: rest) { r with opId := r.opId.next } q [] d tf hs hq I.finish hk hh happ hgood
    simp only [List.nil_append] at p1
    have hp : r.patch (o1 :: o2 :: rest) =
        ({ r1 with
            rbOps := r1.rbOps ++ (⟨r.opId.next, .transaction (toString (o1 :: o2 :: rest).length ++ " patches") (new.length + 1)⟩ :: new),
            buffer := r1.buffer ++
              (⟨r.opId.next, .transaction (toString (o1 :: o2 :: rest).length ++ " patches") (new.length + 1)⟩ :: new).map Op.wire },
          .ok ()) := by
      rw [Replica.patch.eq_3 r (o1 :: o2 :: rest) d hs (by simp) (by intro op h; simp at h), p1]
    have p5' : r1.buffer = [] := by rw [p5]; exact hbuf
    rw [hp]
    refine ⟨d1, q1, rfl, p3, p4, ?_, ?_, p6, ?_, p9⟩
    · show SeqFrom _ (r1.buffer ++ _)
      rw [p5', List.nil_append, List.map_cons]
      exact seqFrom_cons rfl p7
    · show r1.buffer ++ _ ≠ []
      simp
    · show q.receive (r1.buffer ++ _) = _
      rw [p5', List.nil_append, List.map_cons]
      match new, p2, p8 with
      | a :: b :: tl, _, p8 =>
        have e : Op.wire ⟨r.opId.next, .transaction (toString (o1 :: o2 :: rest).length ++ " patches") (((a :: b :: tl).length : Int) + 1)⟩
            = ⟨r.opId.next, .transaction (toString (o1 :: o2 :: rest).length ++ " patches") (((a.wire :: (b :: tl).map Op.wire).length : Int) + 1)⟩ := by
          simp [Op.wire, OpBody.wire]
        rw [List.map_cons] at p8 ⊢
        rw [e, receive_unit, p8]

end replica

/-! ## 3b. the server side: the admin's push is accepted, and what `Store.latest` rebuilds afterwards -/

section server
open SL SN

/-- the operation documents `pushOps` writes for `ops` after end of log `s` -/
def mkDocs (duid : String) (colNum : Nat) : Nat → List Op → List OpDoc
  | _, [] => []
  | s, o :: os => ⟨duid, colNum, s + 1, o⟩ :: mkDocs duid colNum (s + 1) os

theorem mkDocs_ops (duid : String) (c : Nat) : ∀ (ops : List Op) (s : Nat), (mkDocs duid c s ops).map (·.op) = ops
  | [], _ => rfl
  | o :: os, s => by simp [mkDocs, mkDocs_ops duid c os]

theorem mkDocs_length (duid : String) (c : Nat) : ∀ (ops : List Op) (s : Nat), (mkDocs duid c s ops).length = ops.length
  | [], _ => rfl
  | o :: os, s => by simp [mkDocs, mkDocs_length duid c os]

theorem mkDocs_sseq (duid : String) (c : Nat) : ∀ (ops : List Op) (s : Nat),
    (mkDocs duid c s ops).map (·.sseq) = List.range' (s + 1) ops.length
  | [], _ => rfl
  | o :: os, s => by simp [mkDocs, mkDocs_sseq duid c os, List.range'_succ]

theorem mkDocs_mem (duid : String) (c : Nat) : ∀ (ops : List Op) (s : Nat), ∀ x ∈ mkDocs duid c s ops, x.duid = duid ∧ x.colNum = c
  | [], _ => by simp [mkDocs]
  | o :: os, s => by
    intro x hx
    simp only [mkDocs, List.mem_cons] at hx
    rcases hx with rfl | hx
    · exact ⟨rfl, rfl⟩
    · exact mkDocs_mem duid c os _ x hx

theorem pushOps_accept (duid : String) (c : Nat) : ∀ (ops : List Op) (cp : CheckPoint) (acc : List OpDoc),
    SeqFrom (cp.cseq + 1) ops →
    pushOps duid c cp ops acc = .ok (⟨cp.sseq + ops.length, cp.cseq + ops.length⟩, acc ++ mkDocs duid c cp.sseq ops) := by
  intro ops
  induction ops with
  | nil => intro cp acc _; simp [pushOps, mkDocs]
  | cons o os ih =>
    intro cp acc h
    unfold SeqFrom at h
    simp only [List.map_cons, List.length_cons, List.range'_succ, List.cons.injEq] at h
    obtain ⟨h1, h2⟩ := h
    unfold pushOps
    rw [if_pos h1.symm, ih ⟨cp.sseq + 1, o.id.seq⟩ _ (by unfold SeqFrom; simp only [h1]; exact h2)]
    simp only [mkDocs, List.length_cons, List.append_assoc, List.singleton_append, h1]
    congr 2
    · congr 1 <;> omega

theorem getDatatype_of_mem {st : Store} (hlog : LogInv st) {d : DatatypeDoc} (hd : d ∈ st.datatypes) :
    st.getDatatype d.duid = some d := by
  cases hg : st.getDatatype d.duid with
  | none => exact absurd rfl (getDatatype_none hg d hd)
  | some x =>
    obtain ⟨hx, hxd⟩ := getDatatype_some hg
    rw [eq_of_nodup_duid hlog.duidNodup hx hd hxd]

/-- the store after the volatile admin client pushed `p.ops` onto the existing datatype `d` -/
def pushed (st : Store) (col : CollectionDoc) (d : DatatypeDoc) (ops : List Op) : Store :=
  { st with operations := st.operations ++ mkDocs d.duid col.num d.sseqEnd ops,
            datatypes := upsertDatatype { d with sseqEnd := d.sseqEnd + ops.length } st.datatypes }

/-- **the push is accepted**: a pack of the admin client for an existing datatype (no create / subscribe bit), whose operations
    carry the client sequence numbers 1, 2, …, is served, all its operations are stored at the end of the log -/
theorem processPack_admin (st : Store) (col : CollectionDoc) (d : DatatypeDoc) (p : Pack) (hlog : LogInv st)
    (hd : d ∈ st.datatypes) (hcol : d.colNum = col.num) (hkey : d.key = p.key) (hduid : p.duid = d.duid)
    (hc : p.create = false) (hsu : p.subscribe = false) (hro : p.readOnly = false)
    (hadmin : d.sub patchApiCuid false = none) (hseq : SeqFrom 1 p.ops) :
    (processPack st ⟨patchApiCuid, "ordaPatchAPI", col.num, 2, 0⟩ col p).store = pushed st col d p.ops ∧
    (processPack st ⟨patchApiCuid, "ordaPatchAPI", col.num, 2, 0⟩ col p).pushed = p.ops.length := by
  have hget : st.getDatatype p.duid = some d := by rw [hduid]; exact getDatatype_of_mem hlog hd
  have hev : evalCase st col patchApiCuid p = (.usedDUID, some d) := by
    unfold evalCase
    simp [hc, hsu, hget, hcol, hkey]
  have hdsp : dsp st ⟨patchApiCuid, "ordaPatchAPI", col.num, 2, 0⟩ col p = .normal := by
    have hdis : dispatch PPCase.usedDUID false false true = .normal := by decide
    unfold dsp
    simp [hev, hc, hsu, sameDuid, hduid, hdis]
  have hpush : pushRes ⟨patchApiCuid, "ordaPatchAPI", col.num, 2, 0⟩ col p .normal d =
      .ok (⟨d.sseqEnd + p.ops.length, 0 + p.ops.length⟩, [] ++ mkDocs d.duid col.num d.sseqEnd p.ops) := by
    unfold pushRes
    simp only [hro, Bool.false_eq_true, if_false, opDuid, cp1, cp0, hadmin, reduceCtorEq, hduid]
    exact pushOps_accept d.duid col.num p.ops ⟨d.sseqEnd, 0⟩ [] hseq
  rw [processPack_eq]
  simp only [hro, Bool.false_and, Bool.false_eq_true, if_false, hdsp, hev, docOf, finish, hpush]
  constructor
  · simp only [okR, doc2, cp3, pulled, if_true, List.getLast?_nil, hro, Bool.false_eq_true, if_false, List.nil_append, pushed]
  · simp only [okR, List.nil_append, mkDocs_length]

theorem find_upsert {l : List DatatypeDoc} (hnd : (l.map (·.duid)).Nodup) {d d2 : DatatypeDoc} (n : Nat) (key : String)
    (hf : l.find? (fun x => x.colNum = n ∧ x.key = key) = some d) (h1 : d2.duid = d.duid) (h2 : d2.colNum = d.colNum)
    (h3 : d2.key = d.key) :
    (upsertDatatype d2 l).find? (fun x => x.colNum = n ∧ x.key = key) = some d2 := by
  induction l with
  | nil => simp at hf
  | cons x xs ih =>
    have hdm : d ∈ x :: xs := List.mem_of_find?_eq_some hf
    have hdp : d.colNum = n ∧ d.key = key := by simpa using List.find?_some hf
    unfold upsertDatatype
    by_cases hx : x.duid = d2.duid
    · rw [if_pos hx]
      simp [h2, h3, hdp]
    · rw [if_neg hx]
      have hxd : x ≠ d := by intro e; rw [e] at hx; exact hx h1.symm
      rw [List.find?_cons] at hf ⊢
      by_cases hpx : (x.colNum = n ∧ x.key = key)
      · simp only [hpx, and_self, decide_true] at hf
        simp only [Option.some.injEq] at hf
        exact absurd hf hxd
      · simp only [hpx, decide_false] at hf ⊢
        simp only [List.map_cons, List.nodup_cons] at hnd
        exact ih hnd.2 hf

theorem applyUnit_go_keeps (ops : List Op) : ∀ r : Replica,
    (Replica.applyUnit.go r ops).1.buffer = r.buffer ∧ (Replica.applyUnit.go r ops).1.opId.seq = r.opId.seq := by
  induction ops with
  | nil => intro r; exact ⟨rfl, rfl⟩
  | cons o os ih =>
    intro r
    rw [applyUnit_go_cons]
    obtain ⟨hid, hfr⟩ := execRemoteBase_fst r o
    obtain ⟨_, f2, _⟩ := frame_fields hfr
    have hsq : (r.execRemoteBase o).1.opId.seq = r.opId.seq := by rw [hid]; exact (syncLamport_fields _ _).2.1
    rcases he : r.execRemoteBase o with ⟨r', (_ | w)⟩ <;> rw [he] at f2 hsq <;> simp only at f2 hsq ⊢
    · obtain ⟨i1, i2⟩ := ih { r' with rbOps := r'.rbOps ++ [o] }
      exact ⟨i1.trans f2, i2.trans hsq⟩
    · exact ⟨f2, hsq⟩

theorem applyUnit_keeps (r : Replica) (unit : List Op) :
    (r.applyUnit unit).1.buffer = r.buffer ∧ (r.applyUnit unit).1.opId.seq = r.opId.seq := by
  rcases applyUnit_cases r unit with ⟨_, e⟩ | e | ⟨e, _⟩ | ⟨e, _⟩ <;> rw [e]
  · exact ⟨rfl, rfl⟩
  · exact ⟨rfl, rfl⟩
  · exact applyUnit_go_keeps _ _
  · exact applyUnit_go_keeps _ _

theorem receive_go_keeps (fuel : Nat) : ∀ (r : Replica) (ops : List Op),
    (Replica.receive.go fuel r ops).1.buffer = r.buffer ∧ (Replica.receive.go fuel r ops).1.opId.seq = r.opId.seq := by
  induction fuel with
  | zero => intro r ops; cases ops <;> exact ⟨rfl, rfl⟩
  | succ fuel ih =>
    intro r ops
    cases ops with
    | nil => exact ⟨rfl, rfl⟩
    | cons o rest =>
      rw [receive_go_succ]
      split
      · exact ⟨rfl, rfl⟩
      · have hk := applyUnit_keeps r ((o :: rest).take o.unitLen)
        rcases he : r.applyUnit ((o :: rest).take o.unitLen) with ⟨r', (_ | c | w)⟩ <;> rw [he] at hk <;> simp only at hk ⊢
        · obtain ⟨i1, i2⟩ := ih r' ((o :: rest).drop o.unitLen)
          exact ⟨i1.trans hk.1, i2.trans hk.2⟩
        · exact hk
        · exact hk

/-- `receive` touches neither the local buffer nor the client sequence number -/
theorem receive_keeps (r : Replica) (ops : List Op) :
    (r.receive ops).1.buffer = r.buffer ∧ (r.receive ops).1.opId.seq = r.opId.seq :=
  receive_go_keeps _ _ _

theorem base_fresh (st : Store) (doc : DatatypeDoc) : (base st doc).1.buffer = [] ∧ (base st doc).1.opId.seq = 0 := by
  unfold base baseOf
  split <;> exact ⟨rfl, rfl⟩

/-- what `Store.latest` gives: the rebuilt replica has an empty buffer and client sequence number 0 -/
theorem latest_fresh {st : Store} {doc : DatatypeDoc} {r0 : Replica} {ver : Nat} (hl : st.latest doc = some (r0, ver)) :
    r0.buffer = [] ∧ r0.opId.seq = 0 ∧
    (base st doc).1.receive ((st.getOperations doc.duid ((base st doc).2 + 1)).map (·.op)) = (r0, .ok ()) ∧
    ver = verOf (st.getOperations doc.duid ((base st doc).2 + 1)) (base st doc).2 := by
  rw [latest_eq] at hl
  have hk := receive_keeps (base st doc).1 ((st.getOperations doc.duid ((base st doc).2 + 1)).map (·.op))
  obtain ⟨b1, b2⟩ := base_fresh st doc
  rcases hr : (base st doc).1.receive ((st.getOperations doc.duid ((base st doc).2 + 1)).map (·.op)) with ⟨r, (_ | c | w)⟩ <;>
    rw [hr] at hl hk <;> simp only [Option.some.injEq, Prod.mk.injEq, reduceCtorEq] at hl hk
  obtain ⟨rfl, rfl⟩ := hl
  exact ⟨hk.1.trans b1, hk.2.trans b2, hr, rfl⟩

/-- **the latest state after the push**: with the latest state of `d` at the end of the log, the rebuild from the store after
    the admin's push is the old latest state receiving the pushed operations -/
theorem latest_pushed {st : Store} {col : CollectionDoc} {d : DatatypeDoc} {r0 : Replica} (hlog : LogInv st)
    (hd : d ∈ st.datatypes) (hl : st.latest d = some (r0, d.sseqEnd)) (ops : List Op) :
    (pushed st col d ops).latest { d with sseqEnd := d.sseqEnd + ops.length } =
      match r0.receive ops with
      | (r, .ok ()) => some (r, d.sseqEnd + ops.length)
      | _ => none := by
  obtain ⟨_, _, hrecv, hver⟩ := latest_fresh hl
  have gap := hlog.gapless d hd
  obtain ⟨hseq, hlen⟩ := isSeq_of_range gap
  have hget := getOperations_drop gap (base st d).2
  rw [hget] at hrecv hver
  have hseq0 : IsSeq ((st.opsOf d.duid).drop (base st d).2) ((base st d).2 + 1) := by
    have := hseq.drop (base st d).2
    rwa [Nat.add_comm] at this
  rw [hseq0.verOf, List.length_drop, hlen] at hver
  have hb : (base st d).2 ≤ d.sseqEnd := by omega
  -- the log of the new store
  have hops : (pushed st col d ops).opsOf d.duid = st.opsOf d.duid ++ mkDocs d.duid col.num d.sseqEnd ops := by
    unfold Store.opsOf pushed
    simp only [List.filter_append]
    congr 1
    exact List.filter_eq_self.2 (fun o ho => by simp [(mkDocs_mem _ _ _ _ o ho).1])
  have gap' : ((pushed st col d ops).opsOf d.duid).map (·.sseq) = List.range' 1 (d.sseqEnd + ops.length) := by
    rw [hops, List.map_append, gap, mkDocs_sseq]
    have := @List.range'_append 1 d.sseqEnd ops.length 1
    simp only [Nat.one_mul] at this
    rw [Nat.add_comm 1 d.sseqEnd] at this
    exact this
  have hget' := getOperations_drop gap' (base st d).2
  rw [hops, List.drop_append_of_le_length (by rw [hlen]; exact hb)] at hget'
  have hbase : base (pushed st col d ops) { d with sseqEnd := d.sseqEnd + ops.length } = base st d := rfl
  rw [latest_eq, hbase]
  show (match (base st d).1.receive (((pushed st col d ops).getOperations d.duid ((base st d).2 + 1)).map (·.op)) with
    | (r, .ok ()) => some (r, verOf ((pushed st col d ops).getOperations d.duid ((base st d).2 + 1)) (base st d).2)
    | _ => none) = _
  rw [hget', List.map_append, mkDocs_ops,
    receive_append_eq ops _ _ _ (Nat.le_refl _) (by rw [hrecv]), hrecv]
  have hseq1 : IsSeq ((st.opsOf d.duid).drop (base st d).2 ++ mkDocs d.duid col.num d.sseqEnd ops) ((base st d).2 + 1) := by
    rw [← hget']
    have := (isSeq_of_range gap').1.drop (base st d).2
    rw [Nat.add_comm] at this
    rw [getOperations_drop gap' (base st d).2]
    exact this
  rw [hseq1.verOf, List.length_append, List.length_drop, hlen, mkDocs_length]
  have : (base st d).2 + (d.sseqEnd - (base st d).2 + ops.length) = d.sseqEnd + ops.length := by omega
  rw [this]

end server

/-! ## 3. the store after the call -/

theorem run_store_nil {st : Store} {col : CollectionDoc} {w : WDt} {target : JVal}
    (hok : (w.rep.patchByJSON target).2.2 = .ok ()) (hnil : (w.rep.patchByJSON target).2.1 = []) :
    run st col w target = (st, .ok (viewOf (w.rep.patchByJSON target).1), [], []) := by
  unfold run
  rcases hp : w.rep.patchByJSON target with ⟨r2, ops, o⟩
  rw [hp] at hok hnil
  simp only at hok hnil
  subst hok hnil
  rfl

theorem run_store {st : Store} {col : CollectionDoc} {w : WDt} {target : JVal}
    (hok : (w.rep.patchByJSON target).2.2 = .ok ()) (hne : (w.rep.patchByJSON target).2.1 ≠ []) :
    (run st col w target).1 =
      (processPack st ⟨patchApiCuid, "ordaPatchAPI", col.num, 2, 0⟩ col
        ({ w with rep := (w.rep.patchByJSON target).1 }).createPack).store := by
  unfold run
  rcases hp : w.rep.patchByJSON target with ⟨r2, ops, o⟩
  rw [hp] at hok hne
  simp only at hok hne
  subst hok
  have : ops.isEmpty = false := by cases ops <;> simp_all
  simp only [this, Bool.false_eq_true, if_false]

theorem pending_eq {r : Replica} (hne : r.buffer ≠ []) (hseq : SeqFrom (0 + 1) r.buffer) (hcp : r.cp.cseq = 0) :
    r.pending = r.buffer := by
  unfold Replica.pending
  cases hb : r.buffer with
  | nil => exact absurd hb hne
  | cons first rest =>
    rw [hb] at hseq
    unfold SeqFrom at hseq
    simp only [List.map_cons, List.length_cons, List.range'_succ, List.cons.injEq] at hseq
    simp only [hcp, hseq.1]
    simp

theorem getDatatypeByKey_key {st : Store} {n : Nat} {key : String} {x : DatatypeDoc}
    (h : st.getDatatypeByKey n key = some x) : x.key = key := by
  unfold Store.getDatatypeByKey at h
  have := List.find?_some h
  simp at this
  exact this.2

/-- (3) the STORE: what the endpoint stored is what it answered — the latest state rebuilt from the store AFTER the call
    (`Store.latest` on the datatype record as stored afterwards) has the target as its value.
    Named hypotheses: `hlog` (the log invariant C06), `hend` (the latest state is at the end of the log), `hpos` (the log is
    not empty — see `emptyLog_not_stored` for what happens otherwise), `hadmin` (no subscription of the document is recorded
    under the admin's client id), `hhist` (the arrays of the latest state have causal insertion histories, `DLR.HistOK`:
    holds in every state reached by calls and deliveries, `DLR.histOK_life`, but is not part of `DP.DocInv`).
    That the push is ACCEPTED is proved (`processPack_admin`), not assumed; freshness of `tmpCuid` is only used through `hinv`. -/
theorem patchDocument_stores_target
    (st : Store) (colName key tmpDuid tmpCuid : String) (col : CollectionDoc) (d : DatatypeDoc) (r0 : Replica) (ver : Nat)
    (hc : st.getCollection colName = some col) (hd : st.getDatatypeByKey col.num key = some d) (ht : d.typ = .document)
    (hl : st.latest d = some (r0, ver))
    (hinv : DP.DocInv { r0 with opId := { r0.opId with cuid := tmpCuid }, cp := ⟨ver, 0⟩ })
    (hlog : LogInv st) (hend : ver = d.sseqEnd) (hpos : 0 < ver)
    (hadmin : d.sub patchApiCuid false = none)
    (hhist : ∀ d0, r0.state = .doc d0 → DLR.HistOK d0)
    (tgt : List (String × JVal)) (hn : (JVal.obj tgt).hasNull = false) (hk : DC.JKeysND (.obj tgt)) :
    ∃ d' r' ver', (st.patchDocument colName key (.obj tgt) tmpDuid tmpCuid).1.getDatatypeByKey col.num key = some d' ∧
      (st.patchDocument colName key (.obj tgt) tmpDuid tmpCuid).1.latest d' = some (r', ver') ∧
      (∃ dd, r'.state = .doc dd ∧ dd.view.canon = (JVal.obj tgt).canon) := by
  have _ := hk
  rw [patchDocument_eq]
  simp only [hc, hd, ht, hl, ne_eq, not_true_eq_false, if_false]
  obtain ⟨d0, hs, I, hkeys⟩ := id hinv
  have hs1 : (tmpRep r0 ver tmpCuid).state = .doc d0 := hs
  have hq : r0.state = .doc d0 := hs
  obtain ⟨happ, hgood⟩ := DPatch.script_ok I hkeys tgt hn
  have hpe := DPatch.patchByJSON_eq hs1 (.obj tgt)
  obtain ⟨hbuf0, hseq0, _, _⟩ := latest_fresh hl
  by_cases hnil : jsonDiff d0.view.canon (JVal.obj tgt).canon = []
  · -- nothing to do: the document has the target value already
    rw [hnil] at happ
    simp only [applyPatch, Option.some.injEq] at happ
    have h1 : ((tmpRep r0 ver tmpCuid).patchByJSON (.obj tgt)).2.2 = .ok () := by
      rw [hpe, hnil, DPatch.patch_nil hs1]
    have h2 : ((tmpRep r0 ver tmpCuid).patchByJSON (.obj tgt)).2.1 = [] := by rw [hpe, hnil]
    rw [run_store_nil h1 h2]
    exact ⟨d, r0, ver, hd, hl, d0, hq, happ⟩
  · obtain ⟨d1, q1, p1, p2, p3, p4, p5, p6, p7, p8⟩ :=
      patch_remote (q := r0) hs1 hq I hkeys (hhist d0 hq) hbuf0 happ hgood hnil
    have h1 : ((tmpRep r0 ver tmpCuid).patchByJSON (.obj tgt)).2.2 = .ok () := by rw [hpe]; exact p1
    have h2 : ((tmpRep r0 ver tmpCuid).patchByJSON (.obj tgt)).2.1 ≠ [] := by rw [hpe]; exact hnil
    rw [run_store h1 h2]
    have hr2 : ((tmpRep r0 ver tmpCuid).patchByJSON (.obj tgt)).1 =
        ((tmpRep r0 ver tmpCuid).patch (jsonDiff d0.view.canon (JVal.obj tgt).canon)).1 := by rw [hpe]
    rw [hr2]
    generalize ((tmpRep r0 ver tmpCuid).patch (jsonDiff d0.view.canon (JVal.obj tgt).canon)).1 = r2 at p2 p4 p5 p6 p7
    have hseq1 : SeqFrom (0 + 1) r2.buffer := by
      have : (tmpRep r0 ver tmpCuid).opId.seq = 0 := hseq0
      rw [this] at p4; exact p4
    have hpend : r2.pending = r2.buffer := pending_eq p5 hseq1 (by rw [p6]; rfl)
    obtain ⟨hdm, hcol⟩ := SL.getDatatypeByKey_some hd
    have hkey := getDatatypeByKey_key hd
    subst hend
    obtain ⟨hst, _⟩ := processPack_admin st col d
      ({ rep := r2, key := key, duid := d.duid, dstate := if d.sseqEnd > 0 then .subscribed else .dueToCreate } : WDt).createPack
      hlog hdm hcol hkey rfl (by simp [WDt.createPack, hpos]) (by simp [WDt.createPack, hpos]) rfl hadmin
      (by show SeqFrom 1 r2.pending; rw [hpend]; exact hseq1)
    rw [hst]
    have hops : (({ rep := r2, key := key, duid := d.duid, dstate := if d.sseqEnd > 0 then .subscribed else .dueToCreate } : WDt).createPack).ops = r2.buffer := hpend
    rw [hops]
    refine ⟨{ d with sseqEnd := d.sseqEnd + r2.buffer.length }, q1, d.sseqEnd + r2.buffer.length, ?_, ?_, d1, p8, p3⟩
    · exact find_upsert hlog.duidNodup col.num key hd rfl rfl rfl
    · rw [latest_pushed hlog hdm hl, p7]

/-! ## 6. non-vacuity: a store reached by the public requests, patched through the endpoint
(closed computations are checked by the kernel: `decide +kernel`) -/

instance : DecidableEq JVal := fun a b => decidable_of_iff _ (PD.beq_eq a b)
deriving instance DecidableEq for DKind
deriving instance DecidableEq for DNode
deriving instance DecidableEq for Doc
deriving instance DecidableEq for Rpc
deriving instance DecidableEq for Notification
deriving instance DecidableEq for CollectionDoc

/-- the invariant of the temporary replica from a replica with the same document and an older clock of the same era -/
theorem docInv_tmp (r0 rc : Replica) (tmpCuid : String) (ver : Nat) (hst : r0.state = rc.state)
    (he : r0.opId.era = rc.opId.era) (hle : rc.opId.lamport ≤ r0.opId.lamport) (h : DP.DocInv rc) :
    DP.DocInv { r0 with opId := { r0.opId with cuid := tmpCuid }, cp := ⟨ver, 0⟩ } := by
  obtain ⟨dd, hs, I, hk⟩ := h
  exact ⟨dd, hst.trans hs, DTx.dinv_clock he hle I, hk⟩

theorem docInv_tmp_state {r0 : Replica} {tmpCuid : String} {ver : Nat}
    (h : DP.DocInv { r0 with opId := { r0.opId with cuid := tmpCuid }, cp := ⟨ver, 0⟩ }) : ∃ dd, r0.state = .doc dd := by
  obtain ⟨dd, hs, _, _⟩ := h
  exact ⟨dd, hs⟩

namespace Ex

def c1 : Call := .dput Ts.oldest "a" (.arr [.num 1, .obj [("x", .num 5)]])
def c2 : Call := .dput Ts.oldest "k" (.str "v")

/-- collection "col", client "c1" registered -/
def st0 : Store := (({} : Store).makeCollection "col").1
def st1 : Store := (st0.processClient false "col" ⟨"c1", "alice", 0, 0, 0⟩).1
/-- the client creates the document "k" = `{"a": [1, {"x": 5}]}` and pushes its create pack (snapshot operation + put) -/
def w0 : WDt := ⟨((Replica.new .document "c1" true).call c1).1, "k", "duid1", .dueToCreate⟩
def st2 : Store := (st1.processPushPull "col" "c1" [w0.createPack]).1
def resp1 : Pack := match (st1.processPushPull "col" "c1" [w0.createPack]).2.1 with | .ok (p :: _) => p | _ => default
/-- … applies the answer, puts "k": "v", and pushes again -/
def w1 : WDt := (w0.applyPack resp1).1
def w2 : WDt := { w1 with rep := (w1.rep.call c2).1 }
def st3 : Store := (st2.processPushPull "col" "c1" [w2.createPack]).1

def col : CollectionDoc := ⟨"col", 1⟩
def d : DatatypeDoc := (st3.getDatatypeByKey 1 "k").getD default
abbrev r0 : Replica := ((st3.latest d).getD default).1
/-- the client's replica, as reached by its two calls -/
def rc : Replica := (((Replica.new .document "c1" true).call c1).1.call c2).1

/-- the target (keys not sorted): "k" changes, the object inside the array changes, the array grows -/
def tgt : List (String × JVal) := [("k", .str "w"), ("a", .arr [.num 1, .obj [("x", .num 6)], .num 3])]

theorem getD_of_isSome {α : Type} [Inhabited α] {o : Option α} (h : o.isSome = true) : o = some (o.getD default) := by
  cases o with
  | none => cases h
  | some x => rfl

theorem pair_of_isSome {α β : Type} [Inhabited α] [Inhabited β] {o : Option (α × β)} {n : β} (h1 : o.isSome = true)
    (h2 : (o.getD default).2 = n) : o = some ((o.getD default).1, n) := by
  cases o with
  | none => cases h1
  | some x => cases x; simp only [Option.getD_some] at h2 ⊢; rw [h2]

theorem hc : st3.getCollection "col" = some col := by decide +kernel
theorem hd : st3.getDatatypeByKey col.num "k" = some d := getD_of_isSome (by decide +kernel)
theorem ht : d.typ = .document := by decide +kernel
theorem three_ops : st3.operations.map (fun o => (o.sseq, o.op.id.cuid, o.op.id.seq)) = [(1, "c1", 1), (2, "c1", 2), (3, "c1", 3)] := by
  decide +kernel
theorem hl : st3.latest d = some (r0, 3) := pair_of_isSome (by decide +kernel) (by decide +kernel)
theorem life_rc : DR.Life "c1" true rc :=
  .step (.step .new (.call _ c1 (by simp [c1, DP.CallKeysND, DC.JKeysND, DC.JKeysNDList, DC.JKeysNDKvs])))
    (.call _ c2 (by simp [c2, DP.CallKeysND, DC.JKeysND]))

def docOf? : DState → Option Doc
  | .doc d => some d
  | _ => none

theorem docOf?_some {s : DState} {d : Doc} (h : docOf? s = some d) : s = .doc d := by
  cases s <;> simp [docOf?] at h
  rw [h]

/-- the server's rebuilt state is the client's document -/
theorem r0_doc : docOf? r0.state = docOf? rc.state := by decide +kernel

theorem r0_state : r0.state = rc.state := by
  obtain ⟨dd, hs, _, _⟩ := DR.docInv_life "c1" true rc life_rc
  have h := r0_doc
  rw [hs] at h ⊢
  exact docOf?_some h

theorem hinv : DP.DocInv { r0 with opId := { r0.opId with cuid := "tmp" }, cp := ⟨3, 0⟩ } :=
  docInv_tmp r0 rc "tmp" 3 r0_state (by decide +kernel) (by decide +kernel) (DR.docInv_life "c1" true rc life_rc)

theorem hlog : LogInv st3 :=
  logInv_processPushPull _ _ _ _ (logInv_processPushPull _ _ _ _
    (logInv_processClient _ _ _ _ (logInv_makeCollection _ _ logInv_empty)))

theorem hend : 3 = d.sseqEnd := by decide +kernel
theorem hadmin : d.sub patchApiCuid false = none := Option.isNone_iff_eq_none.1 (by decide +kernel)
theorem hhist : ∀ d0, r0.state = .doc d0 → DLR.HistOK d0 := by
  intro d0 h
  exact DLR.histOK_life "c1" true rc life_rc d0 (r0_state.symm.trans h)

theorem tgt_nonull : (JVal.obj tgt).hasNull = false := by decide +kernel
theorem tgt_keys : DC.JKeysND (.obj tgt) := by simp [tgt, DC.JKeysND, DC.JKeysNDKvs, DC.JKeysNDList]
/-- the target with its keys sorted: what the answer is canonically equal to -/
theorem tgt_canon : (JVal.obj tgt).canon = .obj [("a", .arr [.num 1, .obj [("x", .num 6)], .num 3]), ("k", .str "w")] := by
  decide +kernel

/-- (1) instantiated: the answer, shown -/
example : ∃ v, (st3.patchDocument "col" "k" (.obj tgt) "dX" "tmp").2.1 = .ok v ∧
    v.canon = .obj [("a", .arr [.num 1, .obj [("x", .num 6)], .num 3]), ("k", .str "w")] :=
  tgt_canon ▸ patchDocument_answers_target st3 "col" "k" "dX" "tmp" col d r0 3 hc hd ht hl hinv tgt tgt_nonull tgt_keys

/-- (3) instantiated: all hypotheses discharged -/
example : ∃ d' r' ver', (st3.patchDocument "col" "k" (.obj tgt) "dX" "tmp").1.getDatatypeByKey col.num "k" = some d' ∧
    (st3.patchDocument "col" "k" (.obj tgt) "dX" "tmp").1.latest d' = some (r', ver') ∧
    (∃ dd, r'.state = .doc dd ∧ dd.view.canon = (JVal.obj tgt).canon) :=
  patchDocument_stores_target st3 "col" "k" "dX" "tmp" col d r0 3 hc hd ht hl hinv hlog hend (by decide) hadmin hhist
    tgt tgt_nonull tgt_keys
/-- (2) instantiated: a key that does not exist yet -/
example : ∃ v, (st3.patchDocument "col" "new" (.obj tgt) "dX" "tmp").2.1 = .ok v ∧ v.canon = (JVal.obj tgt).canon :=
  patchDocument_creates_target st3 "col" "new" "dX" "tmp" col hc (Option.isNone_iff_eq_none.1 (by decide +kernel)) tgt tgt_nonull tgt_keys

/-- (5) instantiated: patching to the current value -/
example : ∃ dd, r0.state = .doc dd ∧ (st3.patchDocument "col" "k" dd.view "dX" "tmp").1 = st3 := by
  obtain ⟨dd, hs⟩ := docInv_tmp_state (r0 := r0) (tmpCuid := "tmp") (ver := 3) hinv
  exact ⟨dd, hs, (patchDocument_same_is_silent st3 "col" "k" "dX" "tmp" col d r0 3 dd hc hd ht hl hs hinv).1⟩

/-! ### why `hpos` is there: a datatype whose log is EMPTY (created by a create pack without operations — no real client sends
    one).  The endpoint takes version 0 for "to be created", its pack carries the create bit, the server refuses it
    (duplicate key, 302): the endpoint answers OK with the target, and NOTHING is stored. -/

def stE : Store := (st1.processPushPull "col" "c1"
  [{ key := "e", duid := "duidE", create := true, cp := ⟨0, 0⟩, typ := .document, ops := [] }]).1

theorem emptyLog_exists : (stE.getDatatypeByKey 1 "e").map (fun x => (x.duid, x.sseqEnd)) = some ("duidE", 0) := by
  decide +kernel

theorem emptyLog_not_stored :
    (stE.patchDocument "col" "e" (.obj tgt) "dX" "tmp").2.1 =
      .ok (.obj [("a", .arr [.num 1, .obj [("x", .num 6)], .num 3]), ("k", .str "w")]) ∧
    (stE.patchDocument "col" "e" (.obj tgt) "dX" "tmp").1.operations.length = 0 ∧
    (stE.patchDocument "col" "e" (.obj tgt) "dX" "tmp").1.datatypes.map (fun x => (x.duid, x.sseqEnd)) = [("duidE", 0)] := by
  decide +kernel

end Ex

end Orda.RestP
