import Orda.Model.TxLock
namespace Orda.TxLock

/-- the inductive invariant of the fixed protocol -/
structure Inv (n : Nat) (s : St) : Prop where
  crashed : s.crashed = false
  len : s.pcs.length = n
  noCU : ∀ i : Nat, s.pcs[i]? ≠ some .critUnlocked
  noRel : ∀ i : Nat, s.pcs[i]? ≠ some .released
  holder : ∀ i, s.pcs[i]? = some .critLocked ↔ s.mutex = some i
  flag : s.isLocked = true ↔ s.mutex.isSome = true
  ctx : s.txCtx = s.mutex
  nodup : s.queued.Nodup
  queued : ∀ i, i ∈ s.queued ↔ s.pcs[i]? = some .done

theorem lt_of_getElem?_eq_some {α} {l : List α} {i : Nat} {a : α} (h : l[i]? = some a) : i < l.length := by
  rcases Nat.lt_or_ge i l.length with hlt | hge
  · exact hlt
  · rw [List.getElem?_eq_none hge] at h; cases h

theorem getElem?_set_self' {α} {l : List α} {i : Nat} {a b : α} (h : l[i]? = some a) :
    (l.set i b)[i]? = some b := by
  rw [List.getElem?_set_self (lt_of_getElem?_eq_some h)]

theorem inv_init (n : Nat) : Inv n (init n) := by
  refine ⟨rfl, by simp [init], ?_, ?_, ?_, by simp [init], rfl, by simp [init], ?_⟩
  all_goals
    intro i
    simp only [init, List.getElem?_replicate]
    split <;> simp

theorem inv_step {n : Nat} {s s' : St} (hi : Inv n s) (st : Step true s s') : Inv n s' := by
  cases st with
  | beginReentrant i h hf hl hc => cases hf
  | finishLockedOld i h hf => cases hf
  | clearFlagOld i h => exact absurd h (hi.noRel i)
  | finishUnlocked i h => exact absurd h (hi.noCU i)
  | beginWant i h hn =>
    have hset : ∀ j, j ≠ i → (s.pcs.set i Pc.wantLock)[j]? = s.pcs[j]? := fun j hj =>
      List.getElem?_set_ne (Ne.symm hj)
    have hself := getElem?_set_self' (b := Pc.wantLock) h
    refine ⟨hi.crashed, by simp [St.setPc, hi.len], ?_, ?_, ?_, hi.flag, hi.ctx, hi.nodup, ?_⟩
    · intro j
      by_cases hj : j = i
      · subst hj; simp [St.setPc, hself]
      · simpa [St.setPc, hset j hj] using hi.noCU j
    · intro j
      by_cases hj : j = i
      · subst hj; simp [St.setPc, hself]
      · simpa [St.setPc, hset j hj] using hi.noRel j
    · intro j
      by_cases hj : j = i
      · subst hj
        have := hi.holder j
        simp [h] at this
        simp [St.setPc, hself, this]
      · simpa [St.setPc, hset j hj] using hi.holder j
    · intro j
      by_cases hj : j = i
      · subst hj
        have := hi.queued j
        simp [h] at this
        simp [St.setPc, hself, this]
      · simpa [St.setPc, hset j hj] using hi.queued j
  | lock i h hm =>
    have hset : ∀ j, j ≠ i → (s.pcs.set i Pc.critLocked)[j]? = s.pcs[j]? := fun j hj =>
      List.getElem?_set_ne (Ne.symm hj)
    have hself := getElem?_set_self' (b := Pc.critLocked) h
    refine ⟨hi.crashed, by simp [St.setPc, hi.len], ?_, ?_, ?_, by simp [St.setPc], rfl, hi.nodup, ?_⟩
    · intro j
      by_cases hj : j = i
      · subst hj; simp [St.setPc, hself]
      · simpa [St.setPc, hset j hj] using hi.noCU j
    · intro j
      by_cases hj : j = i
      · subst hj; simp [St.setPc, hself]
      · simpa [St.setPc, hset j hj] using hi.noRel j
    · intro j
      by_cases hj : j = i
      · subst hj; simp [St.setPc, hself]
      · have := hi.holder j
        simp [hm] at this
        simp [St.setPc, hset j hj, this, Ne.symm hj]
    · intro j
      by_cases hj : j = i
      · subst hj
        have := hi.queued j
        simp [h] at this
        simp [St.setPc, hself, this]
      · simpa [St.setPc, hset j hj] using hi.queued j
  | finishLockedFixed i h hf =>
    have hset : ∀ j, j ≠ i → (s.pcs.set i Pc.done)[j]? = s.pcs[j]? := fun j hj =>
      List.getElem?_set_ne (Ne.symm hj)
    have hself := getElem?_set_self' (b := Pc.done) h
    have hm : s.mutex = some i := (hi.holder i).1 h
    have hnq : i ∉ s.queued := by
      intro hq
      have := (hi.queued i).1 hq
      rw [h] at this; cases this
    refine ⟨hi.crashed, by simp [St.setPc, hi.len], ?_, ?_, ?_, by simp [St.setPc], rfl, ?_, ?_⟩
    · intro j
      by_cases hj : j = i
      · subst hj; simp [St.setPc, hself]
      · simpa [St.setPc, hset j hj] using hi.noCU j
    · intro j
      by_cases hj : j = i
      · subst hj; simp [St.setPc, hself]
      · simpa [St.setPc, hset j hj] using hi.noRel j
    · intro j
      by_cases hj : j = i
      · subst hj; simp [St.setPc, hself]
      · have := hi.holder j
        simp [hm, Ne.symm hj] at this
        simp [St.setPc, hset j hj, this]
    · show (s.queued ++ [i]).Nodup
      rw [List.nodup_append]
      refine ⟨hi.nodup, by simp, ?_⟩
      intro a ha b hb
      simp at hb
      subst hb
      intro hab
      subst hab
      exact hnq ha
    · intro j
      by_cases hj : j = i
      · subst hj; simp [St.setPc, hself]
      · have := hi.queued j
        simp [St.setPc, hset j hj, this, hj]

theorem inv_of_reach {n : Nat} {s : St} (h : Reach true n s) : Inv n s := by
  induction h with
  | init => exact inv_init n
  | step _ st ih => exact inv_step ih st

/-- C20 (fixed protocol), mutual exclusion, for ANY number of goroutines and ANY schedule: never two
    goroutines inside the critical section, nobody inside it without the mutex, the process never crashes,
    and the flags describe the mutex exactly -/
theorem fixed_mutual_exclusion (n : Nat) (s : St) (h : Reach true n s) :
    s.crashed = false ∧
    (∀ i : Nat, s.pcs[i]? ≠ some .critUnlocked) ∧ (∀ i : Nat, s.pcs[i]? ≠ some .released) ∧
    (∀ i j : Nat, s.pcs[i]? = some .critLocked → s.pcs[j]? = some .critLocked → i = j) ∧
    (∀ i, s.pcs[i]? = some .critLocked ↔ s.mutex = some i) ∧
    (s.isLocked = true ↔ s.mutex.isSome = true) ∧ (s.txCtx = s.mutex) ∧
    s.pcs.length = n := by
  have hi := inv_of_reach h
  refine ⟨hi.crashed, hi.noCU, hi.noRel, ?_, hi.holder, hi.flag, hi.ctx, hi.len⟩
  intro i j h1 h2
  have a := (hi.holder i).1 h1
  have b := (hi.holder j).1 h2
  rw [a] at b
  exact Option.some.inj b

/-- C20 (fixed protocol), no deadlock: as long as some goroutine is not done, some step is enabled -/
theorem fixed_no_deadlock (n : Nat) (s : St) (h : Reach true n s) (hnd : ∃ (i : Nat) (p : Pc), s.pcs[i]? = some p ∧ p ≠ .done) :
    ∃ s', Step true s s' := by
  have hi := inv_of_reach h
  obtain ⟨i, p, hp, hne⟩ := hnd
  cases p with
  | idle => exact ⟨_, Step.beginWant s i hp (Or.inl rfl)⟩
  | wantLock =>
    cases hm : s.mutex with
    | none => exact ⟨_, Step.lock s i hp hm⟩
    | some j => exact ⟨_, Step.finishLockedFixed s j ((hi.holder j).2 hm) rfl⟩
  | critLocked => exact ⟨_, Step.finishLockedFixed s i hp rfl⟩
  | critUnlocked => exact absurd hp (hi.noCU i)
  | released => exact absurd hp (hi.noRel i)
  | done => exact absurd rfl hne

/-- C20 (fixed protocol), every issued operation is queued exactly once: a goroutine's id is in `queued`
    iff it is done, and never twice -/
theorem fixed_queued_once (n : Nat) (s : St) (h : Reach true n s) :
    s.queued.Nodup ∧ ∀ i, i ∈ s.queued ↔ s.pcs[i]? = some .done :=
  ⟨(inv_of_reach h).nodup, (inv_of_reach h).queued⟩

/-- when everybody is done, exactly the n operations are queued -/
theorem fixed_all_done_all_queued (n : Nat) (s : St) (h : Reach true n s) (hd : ∀ i, i < n → s.pcs[i]? = some .done) :
    s.queued.length = n := by
  have hi := inv_of_reach h
  have hperm : s.queued.Perm (List.range n) := by
    rw [List.perm_ext_iff_of_nodup hi.nodup List.nodup_range]
    intro a
    rw [List.mem_range, hi.queued a]
    constructor
    · intro ha
      have := lt_of_getElem?_eq_some ha
      rw [hi.len] at this
      exact this
    · exact hd a
  rw [hperm.length_eq, List.length_range]

def o1 : St := ⟨none, false, none, [.wantLock, .idle], [], false⟩
def o2 : St := ⟨some 0, true, some 0, [.critLocked, .idle], [], false⟩
def o3 : St := ⟨none, true, none, [.released, .idle], [0], false⟩
def o4 : St := ⟨none, true, none, [.released, .critUnlocked], [0], false⟩
def o5 : St := ⟨none, true, none, [.released, .done], [0], true⟩

theorem reach_o4 : Reach false 2 o4 := by
  have r0 : Reach false 2 (init 2) := Reach.init
  have r1 : Reach false 2 o1 := Reach.step r0 (Step.beginWant (init 2) 0 rfl (Or.inr (by decide)))
  have r2 : Reach false 2 o2 := Reach.step r1 (Step.lock o1 0 rfl rfl)
  have r3 : Reach false 2 o3 := Reach.step r2 (Step.finishLockedOld o2 0 rfl rfl)
  exact Reach.step r3 (Step.beginReentrant o3 1 rfl rfl rfl rfl)

theorem reach_o5 : Reach false 2 o5 :=
  Reach.step reach_o4 (Step.finishUnlocked o4 1 rfl)

/-- the EARLIER protocol (mutex released before `isLocked := false`; re-entrant path for a nil context)
    is broken: with two goroutines there is a reachable state in which one of them is inside the critical
    section without holding the mutex, and a reachable crashed state -/
theorem old_protocol_broken :
    (∃ s, Reach false 2 s ∧ ∃ i : Nat, s.pcs[i]? = some .critUnlocked) ∧ (∃ s, Reach false 2 s ∧ s.crashed = true) :=
  ⟨⟨o4, reach_o4, 1, rfl⟩, ⟨o5, reach_o5, rfl⟩⟩

end Orda.TxLock

