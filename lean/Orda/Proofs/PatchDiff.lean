/-
C19 (pure half): the edit script that `jsonDiff` generates for (src, tgt) rewrites src into tgt.

* `beq_iff_eq`            : `JVal.beq` decides equality
* `canon_canonical`, `canon_of_canonical` : `canon` normalises, and is the identity on canonical values
* `apply_diff`            : applying the generated operations in order yields exactly the target
* `diff_nil_iff`          : no operation iff nothing changes
* `apply_diff_chain`      : chains of patches compose
* `diff_values_no_null`   : the values carried by the operations are null-free when the target is

Method: `Eff ops ptr s t` = "in every context tree whose subtree at `ptr` is `s`, applying `ops`
succeeds and the result is the same tree with the subtree at `ptr` replaced by `t`".  `Eff` composes
along `++`, a direct operation at `ptr ++ [k]` has an effect on the container at `ptr`, and an effect
at `ptr ++ [k]` is an effect on the container at `ptr`.  Simultaneous induction on the fuel for
`jdiff` / `jdiffArr` / `jdiffObj`.  No condition on the context tree is needed; the only place where
sortedness of keys matters is the object that is being merged.
-/
import Orda.Model.Patch
import Std.Data.String.ToNat
namespace Orda

mutual
/-- canonical JSON value: object keys strictly increasing (sorted, no duplicates), recursively -/
def JVal.Canonical : JVal → Prop
  | .arr l => JVal.CanonicalList l
  | .obj kvs => JVal.CanonicalKvs kvs ∧ (kvs.map (·.1)).Pairwise (· < ·)
  | _ => True
def JVal.CanonicalList : List JVal → Prop
  | [] => True
  | v :: vs => v.Canonical ∧ JVal.CanonicalList vs
def JVal.CanonicalKvs : List (String × JVal) → Prop
  | [] => True
  | (_, v) :: r => v.Canonical ∧ JVal.CanonicalKvs r
end

namespace PD

/-! ### `JVal.beq` -/

mutual
theorem beq_eq : ∀ (a b : JVal), JVal.beq a b = true ↔ a = b
  | .null, b => by cases b <;> simp [JVal.beq]
  | .bool x, b => by cases b <;> simp [JVal.beq]
  | .num x, b => by cases b <;> simp [JVal.beq]
  | .str x, b => by cases b <;> simp [JVal.beq]
  | .arr x, b => by
    cases b <;> simp [JVal.beq]
    exact beqList_eq x _
  | .obj x, b => by
    cases b <;> simp [JVal.beq]
    exact beqKvs_eq x _
theorem beqList_eq : ∀ (a b : List JVal), JVal.beqList a b = true ↔ a = b
  | [], [] => by simp [JVal.beqList]
  | [], _ :: _ => by simp [JVal.beqList]
  | _ :: _, [] => by simp [JVal.beqList]
  | x :: xs, y :: ys => by
    simp [JVal.beqList, beq_eq x y, beqList_eq xs ys]
theorem beqKvs_eq : ∀ (a b : List (String × JVal)), JVal.beqKvs a b = true ↔ a = b
  | [], [] => by simp [JVal.beqKvs]
  | [], _ :: _ => by simp [JVal.beqKvs]
  | _ :: _, [] => by simp [JVal.beqKvs]
  | (k, x) :: xs, (k', y) :: ys => by
    simp [JVal.beqKvs, beq_eq x y, beqKvs_eq xs ys, and_assoc]
end

/-! ### strings: decimal indices and the key order -/

theorem toString_toNat (i : Nat) : (toString i).toNat? = some i := Nat.toNat?_repr i

theorem str_lt_of_not {k k' : String} (h1 : ¬ k = k') (h2 : ¬ k < k') : k' < k := by
  have h3 : k' ≤ k := String.not_lt.mp h2
  apply Decidable.byContradiction
  intro h4
  exact h1 (String.le_antisymm (String.not_lt.mp h4) h3)

/-! ### association lists with `objPut` / `objDel` -/

theorem alFind_objPut_self (k : String) (v : JVal) : ∀ kvs, alFind k (objPut k v kvs) = some v
  | [] => by simp [objPut, alFind]
  | (k', v') :: r => by
    unfold objPut
    split
    · simp [alFind]
    · split
      · simp [alFind]
      · next h1 _ =>
        have : ¬ k' = k := fun h => h1 h.symm
        simp [alFind, this, alFind_objPut_self k v r]

theorem objPut_objPut (k : String) (v1 v2 : JVal) :
    ∀ kvs, objPut k v2 (objPut k v1 kvs) = objPut k v2 kvs
  | [] => by simp [objPut]
  | (k', v') :: r => by
    by_cases h1 : k = k'
    · simp [objPut, h1]
    · by_cases h2 : k < k'
      · simp [objPut, h1, h2]
      · simp [objPut, h1, h2, objPut_objPut k v1 v2 r]

/-- in front of a prefix of smaller keys `objPut` acts on the rest -/
theorem objPut_append (k : String) (v : JVal) (rest : List (String × JVal)) :
    ∀ pre : List (String × JVal), (∀ p ∈ pre, p.1 < k) → objPut k v (pre ++ rest) = pre ++ objPut k v rest
  | [], _ => rfl
  | (k', v') :: r, h => by
    have hk : k' < k := h (k', v') (by simp)
    have h1 : ¬ k = k' := fun e => String.ne_of_lt hk e.symm
    have h2 : ¬ k < k' := String.lt_asymm hk
    have ih := objPut_append k v rest r (fun p hp => h p (by simp [hp]))
    simp [objPut, h1, h2, ih]

theorem alFind_append (k : String) (rest : List (String × JVal)) :
    ∀ pre : List (String × JVal), (∀ p ∈ pre, p.1 < k) → alFind k (pre ++ rest) = alFind k rest
  | [], _ => rfl
  | (k', v') :: r, h => by
    have hk : k' < k := h (k', v') (by simp)
    have h1 : ¬ k' = k := String.ne_of_lt hk
    have ih := alFind_append k rest r (fun p hp => h p (by simp [hp]))
    simp [alFind, h1, ih]

theorem objDel_append (k : String) (rest : List (String × JVal)) :
    ∀ pre : List (String × JVal), (∀ p ∈ pre, p.1 < k) → objDel k (pre ++ rest) = pre ++ objDel k rest
  | [], _ => rfl
  | (k', v') :: r, h => by
    have hk : k' < k := h (k', v') (by simp)
    have h1 : ¬ k = k' := fun e => String.ne_of_lt hk e.symm
    have ih := objDel_append k rest r (fun p hp => h p (by simp [hp]))
    simp [objDel, h1, ih]

/-! ### arrays: replacing one element -/

theorem upd_eq_set (l : List JVal) (i : Nat) (c : JVal) (h : i < l.length) :
    l.take i ++ [c] ++ l.drop (i + 1) = l.set i c := by
  simp [List.set_eq_take_append_cons_drop, h]

theorem getElem?_lt {l : List JVal} {i : Nat} {c : JVal} (h : l[i]? = some c) : i < l.length := by
  have := List.getElem?_eq_some_iff.mp h
  exact this.1

/-! ### plain trees: subtree at a path, replacing the subtree at a path -/

def getAt : List String → JVal → Option JVal
  | [], v => some v
  | k :: rest, .obj kvs =>
    match alFind k kvs with
    | some c => getAt rest c
    | none => none
  | k :: rest, .arr l =>
    match k.toNat? with
    | some i =>
      match l[i]? with
      | some c => getAt rest c
      | none => none
    | none => none
  | _ :: _, _ => none

def setAt (new : JVal) : List String → JVal → Option JVal
  | [], _ => some new
  | k :: rest, .obj kvs =>
    match alFind k kvs with
    | some c => (setAt new rest c).map (fun c' => .obj (objPut k c' kvs))
    | none => none
  | k :: rest, .arr l =>
    match k.toNat? with
    | some i =>
      match l[i]? with
      | some c => (setAt new rest c).map (fun c' => .arr (l.take i ++ [c'] ++ l.drop (i + 1)))
      | none => none
    | none => none
  | _ :: _, _ => none

theorem setAt_isSome (new : JVal) : ∀ (p : List String) (root s : JVal), getAt p root = some s →
    ∃ r, setAt new p root = some r
  | [], _, _, _ => ⟨new, rfl⟩
  | k :: rest, .obj kvs, s, h => by
    simp only [getAt, setAt] at h ⊢
    split at h
    · next c hc =>
      obtain ⟨r, hr⟩ := setAt_isSome new rest c s h
      simp [hr]
    · cases h
  | k :: rest, .arr l, s, h => by
    simp only [getAt, setAt] at h ⊢
    split at h
    · next i hi =>
      split at h
      · next c hc =>
        obtain ⟨r, hr⟩ := setAt_isSome new rest c s h
        simp [hr]
      · cases h
    · cases h
  | _ :: _, .null, _, h => by simp [getAt] at h
  | _ :: _, .bool _, _, h => by simp [getAt] at h
  | _ :: _, .num _, _, h => by simp [getAt] at h
  | _ :: _, .str _, _, h => by simp [getAt] at h

theorem getAt_setAt (new : JVal) : ∀ (p : List String) (root r : JVal), setAt new p root = some r →
    getAt p r = some new
  | [], _, r, h => by simp [setAt] at h; simp [getAt, h]
  | k :: rest, .obj kvs, r, h => by
    simp only [setAt] at h
    split at h
    · next c hc =>
      cases hr : setAt new rest c with
      | none => simp [hr] at h
      | some c' =>
        simp [hr] at h
        subst h
        simp [getAt, alFind_objPut_self, getAt_setAt new rest c c' hr]
    · cases h
  | k :: rest, .arr l, r, h => by
    simp only [setAt] at h
    split at h
    · next i hi =>
      split at h
      · next c hc =>
        cases hr : setAt new rest c with
        | none => simp [hr] at h
        | some c' =>
          simp [hr] at h
          subst h
          have hl := getElem?_lt hc
          have := upd_eq_set l i c' hl
          simp only [List.append_assoc, List.singleton_append] at this
          simp [getAt, hi, this, List.getElem?_set_self hl, getAt_setAt new rest c c' hr]
      · cases h
    · cases h
  | _ :: _, .null, _, h => by simp [setAt] at h
  | _ :: _, .bool _, _, h => by simp [setAt] at h
  | _ :: _, .num _, _, h => by simp [setAt] at h
  | _ :: _, .str _, _, h => by simp [setAt] at h

theorem setAt_setAt (m t : JVal) : ∀ (p : List String) (root r : JVal), setAt m p root = some r →
    setAt t p r = setAt t p root
  | [], _, r, h => by simp [setAt]
  | k :: rest, .obj kvs, r, h => by
    simp only [setAt] at h
    split at h
    · next c hc =>
      cases hr : setAt m rest c with
      | none => simp [hr] at h
      | some c' =>
        simp [hr] at h
        subst h
        simp [setAt, alFind_objPut_self, hc, setAt_setAt m t rest c c' hr, objPut_objPut]
    · cases h
  | k :: rest, .arr l, r, h => by
    simp only [setAt] at h
    split at h
    · next i hi =>
      split at h
      · next c hc =>
        cases hr : setAt m rest c with
        | none => simp [hr] at h
        | some c' =>
          simp [hr] at h
          subst h
          have hl := getElem?_lt hc
          have h1 := upd_eq_set l i c' hl
          simp only [List.append_assoc, List.singleton_append] at h1
          have hl' : i < (l.set i c').length := by simpa using hl
          have h2 : ∀ c2, (l.set i c').take i ++ [c2] ++ (l.set i c').drop (i + 1) = l.take i ++ [c2] ++ l.drop (i + 1) := by
            intro c2
            rw [upd_eq_set _ _ _ hl', upd_eq_set _ _ _ hl, List.set_set]
          simp only [List.append_assoc, List.singleton_append] at h2
          simp [setAt, hi, h1, List.getElem?_set_self hl, hc, setAt_setAt m t rest c c' hr, h2]
      · cases h
    · cases h
  | _ :: _, .null, _, h => by simp [setAt] at h
  | _ :: _, .bool _, _, h => by simp [setAt] at h
  | _ :: _, .num _, _, h => by simp [setAt] at h
  | _ :: _, .str _, _, h => by simp [setAt] at h

theorem getAt_append (q : List String) : ∀ (p : List String) (root : JVal),
    getAt (p ++ q) root = (getAt p root).bind (getAt q)
  | [], _ => by simp [getAt]
  | k :: rest, .obj kvs => by
    simp only [List.cons_append, getAt]
    split
    · exact getAt_append q rest _
    · rfl
  | k :: rest, .arr l => by
    simp only [List.cons_append, getAt]
    split
    · split
      · exact getAt_append q rest _
      · rfl
    · rfl
  | _ :: _, .null => by simp [getAt]
  | _ :: _, .bool _ => by simp [getAt]
  | _ :: _, .num _ => by simp [getAt]
  | _ :: _, .str _ => by simp [getAt]

theorem setAt_append (new : JVal) (q : List String) : ∀ (p : List String) (root : JVal),
    setAt new (p ++ q) root =
      (getAt p root).bind (fun c => (setAt new q c).bind (fun c' => setAt c' p root))
  | [], _ => by simp [getAt, setAt]
  | k :: rest, .obj kvs => by
    simp only [List.cons_append, getAt, setAt]
    split
    · next c hc =>
      rw [setAt_append new q rest c]
      cases getAt rest c with
      | none => rfl
      | some d =>
        simp only [Option.bind_some]
        cases setAt new q d <;> rfl
    · rfl
  | k :: rest, .arr l => by
    simp only [List.cons_append, getAt, setAt]
    split
    · split
      · next c hc =>
        rw [setAt_append new q rest c]
        cases getAt rest c with
        | none => rfl
        | some d =>
          simp only [Option.bind_some]
          cases setAt new q d <;> rfl
      · rfl
    · rfl
  | _ :: _, .null => by simp [getAt, setAt]
  | _ :: _, .bool _ => by simp [getAt, setAt]
  | _ :: _, .num _ => by simp [getAt, setAt]
  | _ :: _, .str _ => by simp [getAt, setAt]

/-- an operation addressed at `p ++ [k]` acts on the container found at `p` -/
theorem applyAt_append (op : PatchOp) (k : String) : ∀ (p : List String) (root : JVal),
    applyAt op (p ++ [k]) root =
      (getAt p root).bind (fun c => (applyAt op [k] c).bind (fun c' => setAt c' p root))
  | [], _ => by simp [getAt, setAt]
  | a :: rest, .obj kvs => by
    have hne : rest ++ [k] = [] → False := by simp
    simp only [List.cons_append, getAt, setAt]
    rw [applyAt.eq_8 op a (rest ++ [k]) kvs hne]
    cases hc : alFind a kvs with
    | none => rfl
    | some c =>
      dsimp only
      rw [applyAt_append op k rest c]
      cases getAt rest c with
      | none => rfl
      | some d =>
        simp only [Option.bind_some]
        cases applyAt op [k] d <;> rfl
  | a :: rest, .arr l => by
    have hne : rest ++ [k] = [] → False := by simp
    simp only [List.cons_append, getAt, setAt]
    rw [applyAt.eq_9 op a (rest ++ [k]) l hne]
    cases hi : a.toNat? with
    | none => rfl
    | some i =>
      dsimp only
      cases hc : l[i]? with
      | none => rfl
      | some c =>
        dsimp only
        rw [applyAt_append op k rest c]
        cases getAt rest c with
        | none => rfl
        | some d =>
          simp only [Option.bind_some]
          cases applyAt op [k] d <;> rfl
  | _ :: _, .null => by simp [getAt, applyAt]
  | _ :: _, .bool _ => by simp [getAt, applyAt]
  | _ :: _, .num _ => by simp [getAt, applyAt]
  | _ :: _, .str _ => by simp [getAt, applyAt]

/-! ### effects of operation lists -/

theorem applyPatch_append (o1 o2 : List PatchOp) : ∀ root,
    applyPatch (o1 ++ o2) root = (applyPatch o1 root).bind (applyPatch o2) := by
  induction o1 with
  | nil => intro root; simp [applyPatch]
  | cons op ops ih =>
    intro root
    simp only [List.cons_append, applyPatch]
    cases applyAt op op.path root with
    | none => rfl
    | some r => simp [ih r]

/-- `root'` is `root` with the subtree at `p` replaced by `t` (nothing to do, or an explicit update) -/
def Upd (p : List String) (t root root' : JVal) : Prop :=
  (getAt p root = some t ∧ root' = root) ∨ setAt t p root = some root'

theorem Upd.getAt {p : List String} {t root root' : JVal} (h : Upd p t root root') :
    getAt p root' = some t := by
  rcases h with ⟨h1, h2⟩ | h
  · rw [h2]; exact h1
  · exact getAt_setAt t p root root' h

theorem Upd.trans {p : List String} {m t root r1 r2 : JVal}
    (h1 : Upd p m root r1) (h2 : Upd p t r1 r2) : Upd p t root r2 := by
  rcases h1 with ⟨g1, e1⟩ | s1
  · subst e1; exact h2
  · rcases h2 with ⟨g2, e2⟩ | s2
    · subst e2
      have := getAt_setAt m p root r2 s1
      rw [this] at g2
      cases g2
      exact Or.inr s1
    · rw [setAt_setAt m t p root r1 s1] at s2
      exact Or.inr s2

/-- in every context whose subtree at `p` is `s`, the operations succeed and replace it by `t` -/
def Eff (ops : List PatchOp) (p : List String) (s t : JVal) : Prop :=
  ∀ root, getAt p root = some s → ∃ root', applyPatch ops root = some root' ∧ Upd p t root root'

theorem Eff.nil (p : List String) (s : JVal) : Eff [] p s s :=
  fun root h => ⟨root, rfl, Or.inl ⟨h, rfl⟩⟩

theorem Eff.append {o1 o2 : List PatchOp} {p : List String} {s m t : JVal}
    (h1 : Eff o1 p s m) (h2 : Eff o2 p m t) : Eff (o1 ++ o2) p s t := by
  intro root h
  obtain ⟨r1, a1, u1⟩ := h1 root h
  obtain ⟨r2, a2, u2⟩ := h2 r1 u1.getAt
  exact ⟨r2, by simp [applyPatch_append, a1, a2], u1.trans u2⟩

theorem Eff.cons {op : PatchOp} {ops : List PatchOp} {p : List String} {s m t : JVal}
    (h1 : Eff [op] p s m) (h2 : Eff ops p m t) : Eff (op :: ops) p s t :=
  Eff.append (o1 := [op]) h1 h2

/-- a single operation addressed one step below `p` -/
theorem Eff.direct {op : PatchOp} {p : List String} {k : String} {c c' : JVal}
    (hp : op.path = p ++ [k]) (h : applyAt op [k] c = some c') : Eff [op] p c c' := by
  intro root hg
  obtain ⟨r, hr⟩ := setAt_isSome c' p root c hg
  refine ⟨r, ?_, Or.inr hr⟩
  simp [applyPatch, hp, applyAt_append, hg, h, hr]

/-- `replace` at a non-root path -/
theorem Eff.replace {p : List String} (hp : p ≠ []) (s t : JVal) : Eff [.replace p t] p s t := by
  obtain ⟨q, k, rfl⟩ : ∃ q k, p = q ++ [k] :=
    ⟨p.dropLast, p.getLast hp, (List.dropLast_concat_getLast hp).symm⟩
  intro root hg
  obtain ⟨r, hr⟩ := setAt_isSome t _ root s hg
  refine ⟨r, ?_, Or.inr hr⟩
  rw [getAt_append] at hg
  rw [setAt_append] at hr
  cases hc : getAt q root with
  | none => simp [hc] at hg
  | some c =>
    simp only [hc, Option.bind_some] at hg hr
    have key : applyAt (.replace (q ++ [k]) t) [k] c = setAt t [k] c := by
      cases c with
      | obj kvs =>
        simp only [getAt] at hg
        split at hg
        · next c0 h0 => simp [applyAt, setAt, h0]
        · cases hg
      | arr l =>
        simp only [getAt] at hg
        split at hg
        · next i hi =>
          split at hg
          · next c0 h0 => simp [applyAt, setAt, hi, getElem?_lt h0]
          · cases hg
        · cases hg
      | _ => simp [getAt] at hg
    simp [applyPatch, PatchOp.path, applyAt_append, hc, key, hr]

/-- an effect on the value under key `k` is an effect on the (sorted) object holding it -/
theorem Eff.down_obj {ops : List PatchOp} {p : List String} {k : String} {s t : JVal}
    (h : Eff ops (p ++ [k]) s t) (pre post : List (String × JVal)) (hpre : ∀ x ∈ pre, x.1 < k) :
    Eff ops p (.obj (pre ++ (k, s) :: post)) (.obj (pre ++ (k, t) :: post)) := by
  intro root hg
  have hf : alFind k (pre ++ (k, s) :: post) = some s := by
    rw [alFind_append k _ pre hpre]; simp [alFind]
  have hput : ∀ v, objPut k v (pre ++ (k, s) :: post) = pre ++ (k, v) :: post := by
    intro v; rw [objPut_append k v _ pre hpre]; simp [objPut]
  have hg' : getAt (p ++ [k]) root = some s := by
    rw [getAt_append, hg]; simp [getAt, hf]
  obtain ⟨r, ha, hu⟩ := h root hg'
  refine ⟨r, ha, ?_⟩
  rcases hu with ⟨g1, e1⟩ | s1
  · rw [hg'] at g1
    cases g1
    exact Or.inl ⟨hg, e1⟩
  · right
    rw [setAt_append, hg] at s1
    simpa [setAt, hf, hput] using s1

/-- an effect on the element at index `i` is an effect on the array holding it -/
theorem Eff.down_arr {ops : List PatchOp} {p : List String} {s t : JVal} (pre post : List JVal)
    (h : Eff ops (p ++ [toString pre.length]) s t) :
    Eff ops p (.arr (pre ++ s :: post)) (.arr (pre ++ t :: post)) := by
  intro root hg
  have hi := toString_toNat pre.length
  have hf : (pre ++ s :: post)[pre.length]? = some s := by simp
  have hg' : getAt (p ++ [toString pre.length]) root = some s := by
    rw [getAt_append, hg]; simp [getAt]
  obtain ⟨r, ha, hu⟩ := h root hg'
  refine ⟨r, ha, ?_⟩
  rcases hu with ⟨g1, e1⟩ | s1
  · rw [hg'] at g1
    cases g1
    exact Or.inl ⟨hg, e1⟩
  · right
    rw [setAt_append, hg] at s1
    simpa [setAt, hi] using s1

/-! ### the two uniform phases of the array comparison -/

theorem Eff.removes (p : List String) : ∀ (l2 l1 : List JVal),
    Eff (List.replicate l2.length (PatchOp.remove (p ++ [toString l1.length]))) p (.arr (l1 ++ l2)) (.arr l1)
  | [], l1 => by simpa using Eff.nil p (.arr l1)
  | x :: xs, l1 => by
    have hd : Eff [PatchOp.remove (p ++ [toString l1.length])] p (.arr (l1 ++ x :: xs)) (.arr (l1 ++ xs)) := by
      refine Eff.direct (k := toString l1.length) rfl ?_
      rw [applyAt.eq_7, toString_toNat]
      simp
    exact Eff.cons hd (Eff.removes p xs l1)

theorem Eff.appends (p : List String) : ∀ (l2 l1 : List JVal),
    Eff (l2.map (fun t => PatchOp.add (p ++ ["-"]) t)) p (.arr l1) (.arr (l1 ++ l2))
  | [], l1 => by simpa using Eff.nil p (.arr l1)
  | x :: xs, l1 => by
    have hd : Eff [PatchOp.add (p ++ ["-"]) x] p (.arr l1) (.arr (l1 ++ [x])) :=
      Eff.direct (k := "-") rfl (by simp [applyAt])
    have := Eff.cons hd (Eff.appends p xs (l1 ++ [x]))
    simpa using this

/-! ### sizes and canonicity of parts -/

theorem nodes_pos (v : JVal) : 1 ≤ v.nodes := by
  cases v <;> simp [JVal.nodes]

theorem nodesList_take (n : Nat) : ∀ l : List JVal, JVal.nodesList (l.take n) ≤ JVal.nodesList l := by
  induction n with
  | zero => intro l; simp [JVal.nodesList]
  | succ n ih =>
    intro l
    cases l with
    | nil => simp
    | cons x xs =>
      have := ih xs
      simp only [List.take_succ_cons, JVal.nodesList]
      omega

theorem canonicalList_iff : ∀ l : List JVal, JVal.CanonicalList l ↔ ∀ v ∈ l, v.Canonical
  | [] => by simp [JVal.CanonicalList]
  | x :: xs => by simp [JVal.CanonicalList, canonicalList_iff xs]

/-! ### the simultaneous induction -/

def M1 (fuel : Nat) : Prop :=
  ∀ (p : List String) (s t : JVal), p ≠ [] → s.Canonical → t.Canonical → s.nodes + t.nodes ≤ fuel →
    Eff (jdiff fuel p s t) p s t

def M2 (fuel : Nat) : Prop :=
  ∀ (p : List String) (pre ss ts : List JVal), ss.length = ts.length →
    (∀ v ∈ ss, v.Canonical) → (∀ v ∈ ts, v.Canonical) →
    JVal.nodesList ss + JVal.nodesList ts ≤ fuel →
    Eff (jdiffArr fuel p pre.length ss ts) p (.arr (pre ++ ss)) (.arr (pre ++ ts))

def M3 (fuel : Nat) : Prop :=
  ∀ (p : List String) (pre ss ts : List (String × JVal)),
    (∀ x ∈ pre, ∀ y ∈ ss, x.1 < y.1) → (∀ x ∈ pre, ∀ y ∈ ts, x.1 < y.1) →
    (ss.map (·.1)).Pairwise (· < ·) → (ts.map (·.1)).Pairwise (· < ·) →
    JVal.CanonicalKvs ss → JVal.CanonicalKvs ts →
    JVal.nodesKvs ss + JVal.nodesKvs ts ≤ fuel →
    Eff (jdiffObj fuel p ss ts) p (.obj (pre ++ ss)) (.obj (pre ++ ts))

theorem step_arr (fuel : Nat) (h2 : M2 fuel) (p : List String) (a b : List JVal)
    (ha : JVal.CanonicalList a) (hb : JVal.CanonicalList b)
    (hn : (JVal.arr a).nodes + (JVal.arr b).nodes ≤ fuel + 1) :
    Eff (jdiff (fuel + 1) p (.arr a) (.arr b)) p (.arr a) (.arr b) := by
  rw [jdiff.eq_2]
  split
  · next hb => rw [(beq_eq _ _).mp hb]; exact Eff.nil _ _
  · simp only [JVal.nodes] at hn
    have hla : (a.take (min a.length b.length)).length = min a.length b.length := by
      simp [List.length_take]
    have e1 := Eff.removes p (a.drop (min a.length b.length)) (a.take (min a.length b.length))
    rw [List.take_append_drop, List.length_drop, hla] at e1
    have e2 := h2 p [] (a.take (min a.length b.length)) (b.take (min a.length b.length))
      (by simp [List.length_take])
      (fun v hv => (canonicalList_iff a).mp ha v (List.mem_of_mem_take hv))
      (fun v hv => (canonicalList_iff b).mp hb v (List.mem_of_mem_take hv))
      (by have := nodesList_take (min a.length b.length) a
          have := nodesList_take (min a.length b.length) b
          omega)
    have e3 := Eff.appends p (b.drop (min a.length b.length)) (b.take (min a.length b.length))
    rw [List.take_append_drop] at e3
    exact Eff.append (Eff.append e1 (by simpa using e2)) e3

theorem step1 (fuel : Nat) (h2 : M2 fuel) (h3 : M3 fuel) : M1 (fuel + 1) := by
  intro p s t hp hs ht hn
  by_cases hA : ∃ a b, s = .arr a ∧ t = .arr b
  · obtain ⟨a, b, rfl, rfl⟩ := hA
    exact step_arr fuel h2 p a b hs ht hn
  by_cases hO : ∃ a b, s = .obj a ∧ t = .obj b
  · obtain ⟨a, b, rfl, rfl⟩ := hO
    rw [jdiff.eq_3]
    split
    · next hb => rw [(beq_eq _ _).mp hb]; exact Eff.nil _ _
    · simp only [JVal.nodes] at hn
      simp only [JVal.Canonical] at hs ht
      have := h3 p [] a b (by simp) (by simp) hs.2 ht.2 hs.1 ht.1 (by omega)
      simpa using this
  rw [jdiff.eq_4 p s t fuel (fun a b h1 h2 => hA ⟨a, b, h1, h2⟩) (fun a b h1 h2 => hO ⟨a, b, h1, h2⟩)]
  have hemp : p.isEmpty = false := by cases p <;> simp_all
  split
  · simp only [hemp]
    exact Eff.replace hp s t
  · split
    · next hb => rw [(beq_eq _ _).mp hb]; exact Eff.nil _ _
    · exact Eff.replace hp s t

theorem step2 (fuel : Nat) (h1 : M1 fuel) (h2 : M2 fuel) : M2 (fuel + 1) := by
  intro p pre ss ts hlen hcs hct hn
  cases ss with
  | nil =>
    cases ts with
    | nil => simpa [jdiffArr] using Eff.nil p (.arr pre)
    | cons t ts => simp at hlen
  | cons s ss =>
    cases ts with
    | nil => simp at hlen
    | cons t ts =>
      rw [jdiffArr.eq_2]
      simp only [JVal.nodesList] at hn
      have e1 := h1 (p ++ [toString pre.length]) s t (by simp) (hcs s (by simp)) (hct t (by simp)) (by omega)
      have e2 := h2 p (pre ++ [t]) ss ts (by simpa using hlen) (fun v hv => hcs v (by simp [hv]))
        (fun v hv => hct v (by simp [hv])) (by omega)
      have e1' := Eff.down_arr pre ss e1
      simp only [List.length_append, List.length_singleton, List.append_assoc, List.singleton_append] at e2
      exact Eff.append e1' e2

theorem step3 (fuel : Nat) (h1 : M1 fuel) (h3 : M3 fuel) : M3 (fuel + 1) := by
  intro p pre ss ts hA hB hC hD hcs hct hn
  match ss, ts with
  | [], [] => simpa [jdiffObj] using Eff.nil p (.obj pre)
  | [], (k, t) :: ts =>
    rw [jdiffObj.eq_3]
    simp only [JVal.nodesKvs, JVal.CanonicalKvs, List.map_cons, List.pairwise_cons] at hn hct hD
    have hk : ∀ x ∈ pre, x.1 < k := fun x hx => hB x hx (k, t) (by simp)
    have hd : Eff [PatchOp.add (p ++ [k]) t] p (.obj (pre ++ [])) (.obj (pre ++ [(k, t)])) := by
      refine Eff.direct (k := k) rfl ?_
      rw [applyAt.eq_2, objPut_append k t [] pre hk]; rfl
    have e2 := h3 p (pre ++ [(k, t)]) [] ts (by simp) (by
        intro x hx y hy
        rcases List.mem_append.mp hx with hx | hx
        · exact hB x hx y (by simp [hy])
        · simp only [List.mem_singleton] at hx; subst hx
          exact hD.1 y.1 (List.mem_map.mpr ⟨y, hy, rfl⟩))
      (by simp) hD.2 (by simp [JVal.CanonicalKvs]) hct.2 (by simp only [JVal.nodesKvs]; omega)
    simp only [List.append_assoc, List.singleton_append] at e2
    exact Eff.cons hd e2
  | (k, s) :: ss, [] =>
    rw [jdiffObj.eq_4]
    simp only [JVal.nodesKvs, JVal.CanonicalKvs, List.map_cons, List.pairwise_cons] at hn hcs hC
    have hk : ∀ x ∈ pre, x.1 < k := fun x hx => hA x hx (k, s) (by simp)
    have hd : Eff [PatchOp.remove (p ++ [k])] p (.obj (pre ++ (k, s) :: ss)) (.obj (pre ++ ss)) := by
      refine Eff.direct (k := k) rfl ?_
      rw [applyAt.eq_4, alFind_append k _ pre hk, objDel_append k _ pre hk]
      simp [alFind, objDel]
    have e2 := h3 p pre ss [] (fun x hx y hy => hA x hx y (by simp [hy])) (by simp) hC.2 (by simp)
      hcs.2 (by simp [JVal.CanonicalKvs]) (by simp only [JVal.nodesKvs]; omega)
    exact Eff.cons hd e2
  | (k, s) :: ss, (k', t) :: ts =>
    rw [jdiffObj.eq_5]
    simp only [JVal.nodesKvs, JVal.CanonicalKvs, List.map_cons, List.pairwise_cons] at hn hcs hct hC hD
    have hk : ∀ x ∈ pre, x.1 < k := fun x hx => hA x hx (k, s) (by simp)
    have hk' : ∀ x ∈ pre, x.1 < k' := fun x hx => hB x hx (k', t) (by simp)
    split
    · next heq =>
      subst heq
      have e1 := h1 (p ++ [k]) s t (by simp) hcs.1 hct.1 (by omega)
      have e1' := Eff.down_obj e1 pre ss hk
      have e2 := h3 p (pre ++ [(k, t)]) ss ts
        (by
          intro x hx y hy
          rcases List.mem_append.mp hx with hx | hx
          · exact hA x hx y (by simp [hy])
          · simp only [List.mem_singleton] at hx; subst hx
            exact hC.1 y.1 (List.mem_map.mpr ⟨y, hy, rfl⟩))
        (by
          intro x hx y hy
          rcases List.mem_append.mp hx with hx | hx
          · exact hB x hx y (by simp [hy])
          · simp only [List.mem_singleton] at hx; subst hx
            exact hD.1 y.1 (List.mem_map.mpr ⟨y, hy, rfl⟩))
        hC.2 hD.2 hcs.2 hct.2 (by omega)
      simp only [List.append_assoc, List.singleton_append] at e2
      exact Eff.append e1' e2
    · next hne =>
      split
      · next hlt =>
        have hd : Eff [PatchOp.remove (p ++ [k])] p (.obj (pre ++ (k, s) :: ss)) (.obj (pre ++ ss)) := by
          refine Eff.direct (k := k) rfl ?_
          rw [applyAt.eq_4, alFind_append k _ pre hk, objDel_append k _ pre hk]
          simp [alFind, objDel]
        have e2 := h3 p pre ss ((k', t) :: ts) (fun x hx y hy => hA x hx y (by simp [hy])) hB hC.2
          (by simpa [List.pairwise_cons] using hD) hcs.2 (by simpa [JVal.CanonicalKvs] using hct)
          (by simp only [JVal.nodesKvs]; omega)
        exact Eff.cons hd e2
      · next hnlt =>
        have hgt : k' < k := str_lt_of_not hne hnlt
        have hd : Eff [PatchOp.add (p ++ [k']) t] p (.obj (pre ++ (k, s) :: ss))
            (.obj (pre ++ (k', t) :: (k, s) :: ss)) := by
          refine Eff.direct (k := k') rfl ?_
          rw [applyAt.eq_2, objPut_append k' t _ pre hk']
          have h1 : ¬ k' = k := String.ne_of_lt hgt
          simp [objPut, h1, hgt]
        have e2 := h3 p (pre ++ [(k', t)]) ((k, s) :: ss) ts
          (by
            intro x hx y hy
            rcases List.mem_append.mp hx with hx | hx
            · exact hA x hx y hy
            · simp only [List.mem_singleton] at hx; subst hx
              rcases List.mem_cons.mp hy with hy | hy
              · subst hy; exact hgt
              · exact String.lt_trans hgt (hC.1 y.1 (List.mem_map.mpr ⟨y, hy, rfl⟩)))
          (by
            intro x hx y hy
            rcases List.mem_append.mp hx with hx | hx
            · exact hB x hx y (by simp [hy])
            · simp only [List.mem_singleton] at hx; subst hx
              exact hD.1 y.1 (List.mem_map.mpr ⟨y, hy, rfl⟩))
          (by simpa [List.pairwise_cons] using hC) hD.2 (by simpa [JVal.CanonicalKvs] using hcs) hct.2
          (by simp only [JVal.nodesKvs]; omega)
        simp only [List.append_assoc, List.singleton_append] at e2
        exact Eff.cons hd e2

theorem main : ∀ fuel, M1 fuel ∧ M2 fuel ∧ M3 fuel
  | 0 => by
    refine ⟨?_, ?_, ?_⟩
    · intro p s t _ _ _ hn
      have := nodes_pos s
      omega
    · intro p pre ss ts hlen _ _ hn
      cases ss with
      | nil =>
        cases ts with
        | nil => simpa [jdiffArr] using Eff.nil p (.arr pre)
        | cons t ts => simp at hlen
      | cons s ss => simp only [JVal.nodesList] at hn; omega
    · intro p pre ss ts _ _ _ _ _ _ hn
      match ss, ts with
      | [], [] => simpa [jdiffObj] using Eff.nil p (.obj pre)
      | [], (k, t) :: ts => simp only [JVal.nodesKvs] at hn; omega
      | (k, s) :: ss, _ => simp only [JVal.nodesKvs] at hn; omega
  | fuel + 1 => by
    obtain ⟨h1, h2, h3⟩ := main fuel
    exact ⟨step1 fuel h2 h3, step2 fuel h1 h2, step3 fuel h1 h3⟩

/-! ### `canon` -/

theorem mem_objPut {k : String} {v : JVal} {x : String × JVal} :
    ∀ {kvs : List (String × JVal)}, x ∈ objPut k v kvs → x = (k, v) ∨ x ∈ kvs
  | [], h => by simpa [objPut] using h
  | (k', v') :: r, h => by
    unfold objPut at h
    split at h
    · rcases List.mem_cons.mp h with h | h
      · exact Or.inl h
      · exact Or.inr (by simp [h])
    · split at h
      · rcases List.mem_cons.mp h with h | h
        · exact Or.inl h
        · exact Or.inr h
      · rcases List.mem_cons.mp h with h | h
        · exact Or.inr (by simp [h])
        · rcases mem_objPut h with h | h
          · exact Or.inl h
          · exact Or.inr (by simp [h])

theorem objPut_sorted (k : String) (v : JVal) : ∀ kvs : List (String × JVal),
    (kvs.map (·.1)).Pairwise (· < ·) → ((objPut k v kvs).map (·.1)).Pairwise (· < ·)
  | [], _ => by simp [objPut]
  | (k', v') :: r, h => by
    simp only [List.map_cons, List.pairwise_cons] at h
    unfold objPut
    split
    · next he => subst he; simpa [List.pairwise_cons] using h
    · split
      · next hlt =>
        simp only [List.map_cons, List.pairwise_cons]
        refine ⟨?_, h⟩
        intro a ha
        rcases List.mem_cons.mp ha with ha | ha
        · rw [ha]; exact hlt
        · exact String.lt_trans hlt (h.1 a ha)
      · next hne hnlt =>
        have hgt : k' < k := str_lt_of_not hne hnlt
        simp only [List.map_cons, List.pairwise_cons]
        refine ⟨?_, objPut_sorted k v r h.2⟩
        intro a ha
        obtain ⟨x, hx, rfl⟩ := List.mem_map.mp ha
        rcases mem_objPut hx with hx | hx
        · rw [hx]; exact hgt
        · exact h.1 x.1 (List.mem_map.mpr ⟨x, hx, rfl⟩)

theorem canonicalKvs_iff : ∀ kvs : List (String × JVal),
    JVal.CanonicalKvs kvs ↔ ∀ x ∈ kvs, x.2.Canonical
  | [] => by simp [JVal.CanonicalKvs]
  | (k, v) :: r => by simp [JVal.CanonicalKvs, canonicalKvs_iff r]

theorem objPut_canonicalKvs (k : String) (v : JVal) (kvs : List (String × JVal))
    (hv : v.Canonical) (h : JVal.CanonicalKvs kvs) : JVal.CanonicalKvs (objPut k v kvs) := by
  rw [canonicalKvs_iff] at h ⊢
  intro x hx
  rcases mem_objPut hx with hx | hx
  · rw [hx]; exact hv
  · exact h x hx

theorem objPut_head (k : String) (v : JVal) : ∀ r : List (String × JVal),
    (∀ a ∈ r.map (·.1), k < a) → objPut k v r = (k, v) :: r
  | [], _ => rfl
  | (k', v') :: r, h => by
    have hlt : k < k' := h k' (by simp)
    have hne : ¬ k = k' := String.ne_of_lt hlt
    simp [objPut, hne, hlt]

mutual
theorem canon_can : ∀ v : JVal, v.canon.Canonical
  | .null => by simp [JVal.canon, JVal.Canonical]
  | .bool _ => by simp [JVal.canon, JVal.Canonical]
  | .num _ => by simp [JVal.canon, JVal.Canonical]
  | .str _ => by simp [JVal.canon, JVal.Canonical]
  | .arr l => by
    simp only [JVal.canon, JVal.Canonical]
    exact canonList_can l
  | .obj kvs => by
    simp only [JVal.canon, JVal.Canonical]
    exact canonKvs_can kvs
theorem canonList_can : ∀ l : List JVal, JVal.CanonicalList (JVal.canonList l)
  | [] => by simp [JVal.canonList, JVal.CanonicalList]
  | v :: vs => by
    simp only [JVal.canonList, JVal.CanonicalList]
    exact ⟨canon_can v, canonList_can vs⟩
theorem canonKvs_can : ∀ kvs : List (String × JVal),
    JVal.CanonicalKvs (JVal.canonKvs kvs) ∧ ((JVal.canonKvs kvs).map (·.1)).Pairwise (· < ·)
  | [] => by simp [JVal.canonKvs, JVal.CanonicalKvs]
  | (k, v) :: r => by
    simp only [JVal.canonKvs]
    have ih := canonKvs_can r
    exact ⟨objPut_canonicalKvs k _ _ (canon_can v) ih.1, objPut_sorted k _ _ ih.2⟩
end

mutual
theorem canon_id : ∀ v : JVal, v.Canonical → v.canon = v
  | .null, _ => by simp [JVal.canon]
  | .bool _, _ => by simp [JVal.canon]
  | .num _, _ => by simp [JVal.canon]
  | .str _, _ => by simp [JVal.canon]
  | .arr l, h => by
    simp only [JVal.Canonical] at h
    simp only [JVal.canon, canonList_id l h]
  | .obj kvs, h => by
    simp only [JVal.Canonical] at h
    simp only [JVal.canon, canonKvs_id kvs h.1 h.2]
theorem canonList_id : ∀ l : List JVal, JVal.CanonicalList l → JVal.canonList l = l
  | [], _ => by simp [JVal.canonList]
  | v :: vs, h => by
    simp only [JVal.CanonicalList] at h
    simp only [JVal.canonList, canon_id v h.1, canonList_id vs h.2]
theorem canonKvs_id : ∀ kvs : List (String × JVal), JVal.CanonicalKvs kvs →
    (kvs.map (·.1)).Pairwise (· < ·) → JVal.canonKvs kvs = kvs
  | [], _, _ => by simp [JVal.canonKvs]
  | (k, v) :: r, h, hp => by
    simp only [JVal.CanonicalKvs] at h
    simp only [List.map_cons, List.pairwise_cons] at hp
    simp only [JVal.canonKvs, canon_id v h.1, canonKvs_id r h.2 hp.2]
    exact objPut_head k v r hp.1
end

/-! ### carried values -/

def Good (op : PatchOp) : Prop :=
  match op with
  | .add _ v => v.hasNull = false
  | .replace _ v => v.hasNull = false
  | .remove _ => True

theorem hasNullList_iff : ∀ l : List JVal, JVal.hasNullList l = false ↔ ∀ v ∈ l, v.hasNull = false
  | [] => by simp [JVal.hasNullList]
  | x :: xs => by simp [JVal.hasNullList, hasNullList_iff xs]

def V1 (fuel : Nat) : Prop :=
  ∀ (p : List String) (s t : JVal), t.hasNull = false → ∀ op ∈ jdiff fuel p s t, Good op
def V2 (fuel : Nat) : Prop :=
  ∀ (p : List String) (i : Nat) (ss ts : List JVal), JVal.hasNullList ts = false →
    ∀ op ∈ jdiffArr fuel p i ss ts, Good op
def V3 (fuel : Nat) : Prop :=
  ∀ (p : List String) (ss ts : List (String × JVal)), JVal.hasNullKvs ts = false →
    ∀ op ∈ jdiffObj fuel p ss ts, Good op

theorem vstep1 (fuel : Nat) (h2 : V2 fuel) (h3 : V3 fuel) : V1 (fuel + 1) := by
  intro p s t ht op hop
  by_cases hA : ∃ a b, s = .arr a ∧ t = .arr b
  · obtain ⟨a, b, rfl, rfl⟩ := hA
    rw [jdiff.eq_2] at hop
    simp only [JVal.hasNull] at ht
    have hb := (hasNullList_iff b).mp ht
    split at hop
    · cases hop
    · rcases List.mem_append.mp hop with hop | hop
      · rcases List.mem_append.mp hop with hop | hop
        · rw [List.eq_of_mem_replicate hop]; trivial
        · refine h2 p 0 _ _ ?_ op hop
          exact (hasNullList_iff _).mpr (fun v hv => hb v (List.mem_of_mem_take hv))
      · obtain ⟨v, hv, rfl⟩ := List.mem_map.mp hop
        exact hb v (List.mem_of_mem_drop hv)
  by_cases hO : ∃ a b, s = .obj a ∧ t = .obj b
  · obtain ⟨a, b, rfl, rfl⟩ := hO
    rw [jdiff.eq_3] at hop
    simp only [JVal.hasNull] at ht
    split at hop
    · cases hop
    · exact h3 p a b ht op hop
  rw [jdiff.eq_4 p s t fuel (fun a b h1 h2 => hA ⟨a, b, h1, h2⟩) (fun a b h1 h2 => hO ⟨a, b, h1, h2⟩)] at hop
  split at hop
  · split at hop
    · simp only [List.mem_singleton] at hop; subst hop; exact ht
    · simp only [List.mem_singleton] at hop; subst hop; exact ht
  · split at hop
    · cases hop
    · simp only [List.mem_singleton] at hop; subst hop; exact ht

theorem vstep2 (fuel : Nat) (h1 : V1 fuel) (h2 : V2 fuel) : V2 (fuel + 1) := by
  intro p i ss ts ht op hop
  match ss, ts with
  | s :: ss, t :: ts =>
    rw [jdiffArr.eq_2] at hop
    simp only [JVal.hasNullList, Bool.or_eq_false_iff] at ht
    rcases List.mem_append.mp hop with hop | hop
    · exact h1 _ s t ht.1 op hop
    · exact h2 p (i + 1) ss ts ht.2 op hop
  | [], _ => simp [jdiffArr] at hop
  | _ :: _, [] => simp [jdiffArr] at hop

theorem vstep3 (fuel : Nat) (h1 : V1 fuel) (h3 : V3 fuel) : V3 (fuel + 1) := by
  intro p ss ts ht op hop
  match ss, ts with
  | [], [] => simp [jdiffObj] at hop
  | [], (k, t) :: ts =>
    rw [jdiffObj.eq_3] at hop
    simp only [JVal.hasNullKvs, Bool.or_eq_false_iff] at ht
    rcases List.mem_cons.mp hop with hop | hop
    · subst hop; exact ht.1
    · exact h3 p [] ts ht.2 op hop
  | (k, s) :: ss, [] =>
    rw [jdiffObj.eq_4] at hop
    rcases List.mem_cons.mp hop with hop | hop
    · subst hop; trivial
    · exact h3 p ss [] ht op hop
  | (k, s) :: ss, (k', t) :: ts =>
    rw [jdiffObj.eq_5] at hop
    have ht' := ht
    simp only [JVal.hasNullKvs, Bool.or_eq_false_iff] at ht'
    split at hop
    · rcases List.mem_append.mp hop with hop | hop
      · exact h1 _ s t ht'.1 op hop
      · exact h3 p ss ts ht'.2 op hop
    · split at hop
      · rcases List.mem_cons.mp hop with hop | hop
        · subst hop; trivial
        · exact h3 p ss _ ht op hop
      · rcases List.mem_cons.mp hop with hop | hop
        · subst hop; exact ht'.1
        · exact h3 p _ ts ht'.2 op hop

theorem vmain : ∀ fuel, V1 fuel ∧ V2 fuel ∧ V3 fuel
  | 0 => by
    refine ⟨?_, ?_, ?_⟩
    · intro p s t _ op hop; simp [jdiff] at hop
    · intro p i ss ts _ op hop; simp [jdiffArr] at hop
    · intro p ss ts _ op hop; simp [jdiffObj] at hop
  | fuel + 1 => by
    obtain ⟨h1, h2, h3⟩ := vmain fuel
    exact ⟨vstep1 fuel h2 h3, vstep2 fuel h1 h2, vstep3 fuel h1 h3⟩

end PD

/-- `JVal.beq` decides equality -/
theorem beq_iff_eq (a b : JVal) : JVal.beq a b = true ↔ a = b := PD.beq_eq a b

/-- `canon` produces canonical values and is the identity on them -/
theorem canon_canonical (v : JVal) : v.canon.Canonical := PD.canon_can v
theorem canon_of_canonical (v : JVal) (h : v.Canonical) : v.canon = v := PD.canon_id v h

/-- C19 (pure half): the edit script generated for (src, tgt) rewrites src into tgt — for ANY canonical
    source and target OBJECTS (nested objects/arrays of primitives, type changes at any path, array
    growth and shrinkage, keys of any shape) -/
theorem apply_diff (src tgt : List (String × JVal)) (hs : (JVal.obj src).Canonical) (ht : (JVal.obj tgt).Canonical) :
    applyPatch (jsonDiff (.obj src) (.obj tgt)) (.obj src) = some (.obj tgt) := by
  unfold jsonDiff
  rw [jdiff.eq_3]
  split
  · next hb => rw [(PD.beq_eq _ _).mp hb]; rfl
  · simp only [JVal.Canonical] at hs ht
    have h3 := (PD.main ((JVal.obj src).nodes + (JVal.obj tgt).nodes)).2.2 [] [] src tgt
      (by simp) (by simp) hs.2 ht.2 hs.1 ht.1 (by simp only [JVal.nodes]; omega)
    obtain ⟨r, ha, hu⟩ := h3 (.obj src) rfl
    rw [ha]
    rcases hu with ⟨g, e⟩ | hset
    · simp only [PD.getAt, List.nil_append] at g
      rw [e]; exact g
    · simp only [PD.setAt, List.nil_append] at hset
      rw [← hset]

/-- no operation is generated when nothing changes, and only then -/
theorem diff_nil_iff (src tgt : List (String × JVal)) (hs : (JVal.obj src).Canonical) (ht : (JVal.obj tgt).Canonical) :
    jsonDiff (.obj src) (.obj tgt) = [] ↔ src = tgt := by
  constructor
  · intro h
    have := apply_diff src tgt hs ht
    rw [h] at this
    simp only [applyPatch, Option.some.injEq, JVal.obj.injEq] at this
    exact this
  · intro h
    subst h
    unfold jsonDiff
    rw [jdiff.eq_3]
    simp [(PD.beq_eq (.obj src) (.obj src)).mpr rfl]

/-- chains of patches compose -/
theorem apply_diff_chain (a b c : List (String × JVal)) (ha : (JVal.obj a).Canonical) (hb : (JVal.obj b).Canonical)
    (hc : (JVal.obj c).Canonical) :
    (applyPatch (jsonDiff (.obj a) (.obj b)) (.obj a)).bind (applyPatch (jsonDiff (.obj b) (.obj c))) = some (.obj c) := by
  rw [apply_diff a b ha hb]
  exact apply_diff b c hb hc

/-- the values carried by the generated operations are sub-values of the target: if the target has no
    null anywhere, no generated add/replace carries a null anywhere -/
theorem diff_values_no_null (src tgt : JVal) (h : tgt.hasNull = false) :
    ∀ op ∈ jsonDiff src tgt, match op with
      | .add _ v => v.hasNull = false
      | .replace _ v => v.hasNull = false
      | .remove _ => True :=
  fun op hop => (PD.vmain _).1 [] src tgt h op hop

end Orda
