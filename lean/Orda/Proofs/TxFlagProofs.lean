/-
The success flag of TransactionDatatype loses no update (C20 / C09): proofs over the small-step model
`Orda.Model.TxFlag` (invariant by induction over `Reach`), and explicit runs showing that each of the three other
placements of the reset is wrong.
-/
import Orda.Model.TxFlag
namespace Orda.TxFlag

/-- the inductive invariant for the facts of the current source (reset under the lock, nowhere else) -/
structure Inv (fails : Nat → Bool) (n : Nat) (s : St) : Prop where
  lenP : s.pcs.length = n
  lenO : s.outs.length = n
  free : s.mutex = none → s.success = true
  held : ∀ i, s.mutex = some i →
    (s.pcs[i]? = some .holding ∧ s.success = true) ∨
    (s.pcs[i]? = some .failed ∧ s.success = false ∧ fails i = true)
  holder : ∀ i, s.pcs[i]? = some .holding ∨ s.pcs[i]? = some .failed → s.mutex = some i
  done : ∀ i, s.pcs[i]? = some .done → s.outs[i]? = some (if fails i then .rolledBack else .committed)
  pend : ∀ i, s.pcs[i]? ≠ some .done → i < n → s.outs[i]? = some .pending

theorem lt_of_getElem?_eq_some {α} {l : List α} {i : Nat} {a : α} (h : l[i]? = some a) : i < l.length := by
  rcases Nat.lt_or_ge i l.length with hlt | hge
  · exact hlt
  · rw [List.getElem?_eq_none hge] at h; cases h

theorem getElem?_set_self' {α} {l : List α} {i : Nat} {a b : α} (h : l[i]? = some a) :
    (l.set i b)[i]? = some b := by
  rw [List.getElem?_set_self (lt_of_getElem?_eq_some h)]

theorem inv_init (fails : Nat → Bool) (n : Nat) : Inv fails n (init n) := by
  refine ⟨by simp [init], by simp [init], fun _ => rfl, ?_, ?_, ?_, ?_⟩
  · intro i h; cases h
  · intro i h
    simp only [init, List.getElem?_replicate] at h
    split at h <;> simp at h
  · intro i h
    simp only [init, List.getElem?_replicate] at h
    split at h <;> simp at h
  · intro i _ hlt
    simp [init, hlt]

/-- the holder of the mutex is `holding` or `failed` -/
theorem Inv.held_pc {fails n s} (hi : Inv fails n s) {j : Nat} (hm : s.mutex = some j) :
    s.pcs[j]? = some .holding ∨ s.pcs[j]? = some .failed := by
  rcases hi.held j hm with h | h
  · exact Or.inl h.1
  · exact Or.inr h.1

theorem inv_step {fails : Nat → Bool} {n : Nat} {s s' : St} (hi : Inv fails n s)
    (st : Step currentFacts fails s s') : Inv fails n s' := by
  cases st with
  | arrive i h =>
    have hset : ∀ j, j ≠ i → (s.pcs.set i Pc.waiting)[j]? = s.pcs[j]? := fun j hj =>
      List.getElem?_set_ne (Ne.symm hj)
    have hself := getElem?_set_self' (b := Pc.waiting) h
    have hne : ∀ j, s.mutex = some j → j ≠ i := by
      intro j hm hj
      subst hj
      rcases hi.held_pc hm with h' | h' <;> rw [h] at h' <;> cases h'
    refine ⟨by simp [St.setPc, hi.lenP], hi.lenO, ?_, ?_, ?_, ?_, ?_⟩
    · simpa [St.setPc, currentFacts] using hi.free
    · intro j hm
      have hm' : s.mutex = some j := hm
      have := hi.held j hm'
      simpa [St.setPc, currentFacts, hset j (hne j hm')] using this
    · intro j hj
      by_cases hji : j = i
      · subst hji; simp [St.setPc, hself] at hj
      · simp only [St.setPc, hset j hji] at hj
        exact hi.holder j hj
    · intro j hj
      by_cases hji : j = i
      · subst hji; simp [St.setPc, hself] at hj
      · simp only [St.setPc, hset j hji] at hj
        exact hi.done j hj
    · intro j hj hlt
      by_cases hji : j = i
      · subst hji
        exact hi.pend j (by rw [h]; simp) hlt
      · simp only [St.setPc, hset j hji] at hj
        exact hi.pend j hj hlt
  | lock i h hm =>
    have hset : ∀ j, j ≠ i → (s.pcs.set i Pc.holding)[j]? = s.pcs[j]? := fun j hj =>
      List.getElem?_set_ne (Ne.symm hj)
    have hself := getElem?_set_self' (b := Pc.holding) h
    have hsucc : s.success = true := hi.free hm
    refine ⟨by simp [St.setPc, hi.lenP], hi.lenO, ?_, ?_, ?_, ?_, ?_⟩
    · intro h'; simp [St.setPc] at h'
    · intro j hmj
      have : i = j := by simpa [St.setPc] using hmj
      subst this
      exact Or.inl ⟨by simpa [St.setPc] using hself, by simpa [St.setPc] using hsucc⟩
    · intro j hj
      by_cases hji : j = i
      · subst hji; simp [St.setPc]
      · simp only [St.setPc, hset j hji] at hj
        have := hi.holder j hj
        rw [hm] at this; cases this
    · intro j hj
      by_cases hji : j = i
      · subst hji; simp [St.setPc, hself] at hj
      · simp only [St.setPc, hset j hji] at hj
        exact hi.done j hj
    · intro j hj hlt
      by_cases hji : j = i
      · subst hji
        exact hi.pend j (by rw [h]; simp) hlt
      · simp only [St.setPc, hset j hji] at hj
        exact hi.pend j hj hlt
  | bodyFails i h hf =>
    have hset : ∀ j, j ≠ i → (s.pcs.set i Pc.failed)[j]? = s.pcs[j]? := fun j hj =>
      List.getElem?_set_ne (Ne.symm hj)
    have hself := getElem?_set_self' (b := Pc.failed) h
    have hm : s.mutex = some i := hi.holder i (Or.inl h)
    refine ⟨by simp [St.setPc, hi.lenP], hi.lenO, ?_, ?_, ?_, ?_, ?_⟩
    · intro h'
      have h'' : s.mutex = none := h'
      rw [hm] at h''; cases h''
    · intro j hmj
      have hmj' : s.mutex = some j := hmj
      have : i = j := by rw [hm] at hmj'; exact Option.some.inj hmj'
      subst this
      exact Or.inr ⟨by simpa [St.setPc] using hself, rfl, hf⟩
    · intro j hj
      by_cases hji : j = i
      · subst hji; exact hm
      · simp only [St.setPc, hset j hji] at hj
        exact hi.holder j hj
    · intro j hj
      by_cases hji : j = i
      · subst hji; simp [St.setPc, hself] at hj
      · simp only [St.setPc, hset j hji] at hj
        exact hi.done j hj
    · intro j hj hlt
      by_cases hji : j = i
      · subst hji
        exact hi.pend j (by rw [h]; simp) hlt
      · simp only [St.setPc, hset j hji] at hj
        exact hi.pend j hj hlt
  | finish i p h hp =>
    have hset : ∀ j, j ≠ i → (s.pcs.set i Pc.done)[j]? = s.pcs[j]? := fun j hj =>
      List.getElem?_set_ne (Ne.symm hj)
    have hself := getElem?_set_self' (b := Pc.done) h
    have hoset : ∀ (o : Out) j, j ≠ i → (s.outs.set i o)[j]? = s.outs[j]? := fun o j hj =>
      List.getElem?_set_ne (Ne.symm hj)
    have hm : s.mutex = some i := by
      rcases hp with ⟨rfl, _⟩ | rfl
      · exact hi.holder i (Or.inl h)
      · exact hi.holder i (Or.inr h)
    have hilt : i < s.outs.length := by
      rw [hi.lenO, ← hi.lenP]; exact lt_of_getElem?_eq_some h
    -- the flag read by EndTransaction is the goroutine's own outcome
    have hout : (if s.success = true then Out.committed else Out.rolledBack)
        = (if fails i = true then Out.rolledBack else Out.committed) := by
      rcases hi.held i hm with ⟨hp', hs⟩ | ⟨hp', hs, hf⟩
      · rw [h] at hp'
        have : p = Pc.holding := Option.some.inj hp'
        subst this
        rcases hp with ⟨_, hf⟩ | hp
        · simp [hs, hf]
        · cases hp
      · simp [hs, hf]
    refine ⟨by simp [St.setPc, hi.lenP], by simp [St.setPc, hi.lenO], ?_, ?_, ?_, ?_, ?_⟩
    · intro _; simp [St.setPc, currentFacts]
    · intro j hmj; simp [St.setPc] at hmj
    · intro j hj
      by_cases hji : j = i
      · subst hji; simp [St.setPc, hself] at hj
      · simp only [St.setPc, hset j hji] at hj
        have := hi.holder j hj
        rw [hm] at this
        exact absurd (Option.some.inj this).symm hji
    · intro j hj
      by_cases hji : j = i
      · subst hji
        show (s.outs.set j _)[j]? = _
        rw [List.getElem?_set_self hilt, hout]
      · simp only [St.setPc, hset j hji] at hj
        show (s.outs.set i _)[j]? = _
        rw [hoset _ j hji]
        exact hi.done j hj
    · intro j hj hlt
      by_cases hji : j = i
      · subst hji; simp [St.setPc, hself] at hj
      · simp only [St.setPc, hset j hji] at hj
        show (s.outs.set i _)[j]? = _
        rw [hoset _ j hji]
        exact hi.pend j hj hlt

theorem inv_of_reach {fails : Nat → Bool} {n : Nat} {s : St} (h : Reach currentFacts fails n s) :
    Inv fails n s := by
  induction h with
  | init => exact inv_init fails n
  | step _ st ih => exact inv_step ih st

/-- with the flag reset inside unlock() while the mutex is held (and nowhere else), every finished unit of work was
    committed iff its body reported no failure: no update is lost, no failed transaction is committed — for any number
    of goroutines, any assignment of failing bodies and any schedule -/
theorem flag_outcome_is_own (fails : Nat → Bool) (n : Nat) (s : St) (h : Reach currentFacts fails n s) (i : Nat)
    (hd : s.pcs[i]? = some .done) : s.outs[i]? = some (if fails i then .rolledBack else .committed) :=
  (inv_of_reach h).done i hd

/-- nothing is decided for a unit of work that is not finished, and the lists keep their length -/
theorem flag_shape (fails : Nat → Bool) (n : Nat) (s : St) (h : Reach currentFacts fails n s) :
    s.pcs.length = n ∧ s.outs.length = n ∧ ∀ i, s.pcs[i]? ≠ some .done → i < n → s.outs[i]? = some .pending :=
  ⟨(inv_of_reach h).lenP, (inv_of_reach h).lenO, (inv_of_reach h).pend⟩

/-- a goroutine that holds the mutex can always take a step -/
theorem holder_steps {fails : Nat → Bool} {n : Nat} {s : St} (hi : Inv fails n s) {j : Nat}
    (hm : s.mutex = some j) : ∃ s', Step currentFacts fails s s' := by
  rcases hi.held j hm with ⟨hp, _⟩ | ⟨hp, _, _⟩
  · cases hf : fails j with
    | true => exact ⟨_, Step.bodyFails s j hp hf⟩
    | false => exact ⟨_, Step.finish s j .holding hp (Or.inl ⟨rfl, hf⟩)⟩
  · exact ⟨_, Step.finish s j .failed hp (Or.inr rfl)⟩

/-- no deadlock: while some goroutine is not done, a step is enabled -/
theorem flag_progress (fails : Nat → Bool) (n : Nat) (s : St) (h : Reach currentFacts fails n s)
    (hnd : ∃ (i : Nat) (p : Pc), s.pcs[i]? = some p ∧ p ≠ .done) : ∃ s', Step currentFacts fails s s' := by
  have hi := inv_of_reach h
  obtain ⟨i, p, hp, hne⟩ := hnd
  cases p with
  | idle => exact ⟨_, Step.arrive s i hp⟩
  | waiting =>
    cases hm : s.mutex with
    | none => exact ⟨_, Step.lock s i hp hm⟩
    | some j => exact holder_steps hi hm
  | holding => exact holder_steps hi (hi.holder i (Or.inl hp))
  | failed => exact holder_steps hi (hi.holder i (Or.inr hp))
  | done => exact absurd rfl hne

/-! ### the three wrong placements of the reset: explicit runs with two goroutines, goroutine 0 fails -/

/-- goroutine 0 fails, goroutine 1 does not -/
def failsZero : Nat → Bool := fun i => i == 0

/-- reset before the lock only: 1 arrives (and waits), 0 runs a failing transaction to its end, then 1 gets the mutex
    and finds the flag still off -/
theorem reach_beforeLock : Reach ⟨false, true, true, true⟩ failsZero 2
    ⟨none, false, [.done, .done], [.rolledBack, .rolledBack]⟩ := by
  have r0 : Reach ⟨false, true, true, true⟩ failsZero 2 (init 2) := Reach.init
  have r1 : Reach ⟨false, true, true, true⟩ failsZero 2 ⟨none, true, [.idle, .waiting], [.pending, .pending]⟩ :=
    Reach.step r0 (Step.arrive (init 2) 1 rfl)
  have r2 : Reach ⟨false, true, true, true⟩ failsZero 2 ⟨none, true, [.waiting, .waiting], [.pending, .pending]⟩ :=
    Reach.step r1 (Step.arrive _ 0 rfl)
  have r3 : Reach ⟨false, true, true, true⟩ failsZero 2 ⟨some 0, true, [.holding, .waiting], [.pending, .pending]⟩ :=
    Reach.step r2 (Step.lock _ 0 rfl rfl)
  have r4 : Reach ⟨false, true, true, true⟩ failsZero 2 ⟨some 0, false, [.failed, .waiting], [.pending, .pending]⟩ :=
    Reach.step r3 (Step.bodyFails _ 0 rfl rfl)
  have r5 : Reach ⟨false, true, true, true⟩ failsZero 2 ⟨none, false, [.done, .waiting], [.rolledBack, .pending]⟩ :=
    Reach.step r4 (Step.finish _ 0 .failed rfl (Or.inr rfl))
  have r6 : Reach ⟨false, true, true, true⟩ failsZero 2 ⟨some 1, false, [.done, .holding], [.rolledBack, .pending]⟩ :=
    Reach.step r5 (Step.lock _ 1 rfl rfl)
  exact Reach.step r6 (Step.finish _ 1 .holding rfl (Or.inl ⟨rfl, rfl⟩))

/-- the reset is NEEDED where it is: a source that resets the flag before taking the mutex instead of under it
    (the facts ⟨false, true, _, _⟩) loses the update of a caller that waited behind a failing transaction … -/
theorem reset_before_lock_loses_update :
    ∃ (fails : Nat → Bool) (s : St), Reach ⟨false, true, true, true⟩ fails 2 s ∧
      ∃ i : Nat, fails i = false ∧ s.pcs[i]? = some .done ∧ s.outs[i]? = some .rolledBack :=
  ⟨failsZero, _, reach_beforeLock, 1, rfl, rfl, rfl⟩

/-- reset at both places: 0 fails, then 1 arrives and switches the flag back on, then 0 ends its transaction -/
theorem reach_both : Reach ⟨true, true, true, true⟩ failsZero 2
    ⟨none, true, [.done, .waiting], [.committed, .pending]⟩ := by
  have r0 : Reach ⟨true, true, true, true⟩ failsZero 2 (init 2) := Reach.init
  have r1 : Reach ⟨true, true, true, true⟩ failsZero 2 ⟨none, true, [.waiting, .idle], [.pending, .pending]⟩ :=
    Reach.step r0 (Step.arrive (init 2) 0 rfl)
  have r2 : Reach ⟨true, true, true, true⟩ failsZero 2 ⟨some 0, true, [.holding, .idle], [.pending, .pending]⟩ :=
    Reach.step r1 (Step.lock _ 0 rfl rfl)
  have r3 : Reach ⟨true, true, true, true⟩ failsZero 2 ⟨some 0, false, [.failed, .idle], [.pending, .pending]⟩ :=
    Reach.step r2 (Step.bodyFails _ 0 rfl rfl)
  have r4 : Reach ⟨true, true, true, true⟩ failsZero 2 ⟨some 0, true, [.failed, .waiting], [.pending, .pending]⟩ :=
    Reach.step r3 (Step.arrive _ 1 rfl)
  exact Reach.step r4 (Step.finish _ 0 .failed rfl (Or.inr rfl))

/-- … and a source that resets at both places commits a FAILED transaction (a caller arriving between the failure
    and EndTransaction switches the flag back on) -/
theorem reset_at_both_commits_failed :
    ∃ (fails : Nat → Bool) (s : St), Reach ⟨true, true, true, true⟩ fails 2 s ∧
      ∃ i : Nat, fails i = true ∧ s.pcs[i]? = some .done ∧ s.outs[i]? = some .committed :=
  ⟨failsZero, _, reach_both, 0, rfl, rfl, rfl⟩

/-- no reset at all: 0 fails and finishes, then 1 runs a successful body and is rolled back -/
theorem reach_noReset : Reach ⟨false, false, true, true⟩ failsZero 2
    ⟨none, false, [.done, .done], [.rolledBack, .rolledBack]⟩ := by
  have r0 : Reach ⟨false, false, true, true⟩ failsZero 2 (init 2) := Reach.init
  have r1 : Reach ⟨false, false, true, true⟩ failsZero 2 ⟨none, true, [.waiting, .idle], [.pending, .pending]⟩ :=
    Reach.step r0 (Step.arrive (init 2) 0 rfl)
  have r2 : Reach ⟨false, false, true, true⟩ failsZero 2 ⟨some 0, true, [.holding, .idle], [.pending, .pending]⟩ :=
    Reach.step r1 (Step.lock _ 0 rfl rfl)
  have r3 : Reach ⟨false, false, true, true⟩ failsZero 2 ⟨some 0, false, [.failed, .idle], [.pending, .pending]⟩ :=
    Reach.step r2 (Step.bodyFails _ 0 rfl rfl)
  have r4 : Reach ⟨false, false, true, true⟩ failsZero 2 ⟨none, false, [.done, .idle], [.rolledBack, .pending]⟩ :=
    Reach.step r3 (Step.finish _ 0 .failed rfl (Or.inr rfl))
  have r5 : Reach ⟨false, false, true, true⟩ failsZero 2 ⟨none, false, [.done, .waiting], [.rolledBack, .pending]⟩ :=
    Reach.step r4 (Step.arrive _ 1 rfl)
  have r6 : Reach ⟨false, false, true, true⟩ failsZero 2 ⟨some 1, false, [.done, .holding], [.rolledBack, .pending]⟩ :=
    Reach.step r5 (Step.lock _ 1 rfl rfl)
  exact Reach.step r6 (Step.finish _ 1 .holding rfl (Or.inl ⟨rfl, rfl⟩))

/-- without any reset the flag stays off after the first failure -/
theorem no_reset_loses_update :
    ∃ (fails : Nat → Bool) (s : St), Reach ⟨false, false, true, true⟩ fails 2 s ∧
      ∃ i : Nat, fails i = false ∧ s.pcs[i]? = some .done ∧ s.outs[i]? = some .rolledBack :=
  ⟨failsZero, _, reach_noReset, 1, rfl, rfl, rfl⟩

end Orda.TxFlag
