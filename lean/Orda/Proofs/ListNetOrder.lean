/-
List elements are never duplicated, lost, resurrected or reordered — END TO END (C04 over the server log).
Continues namespace `Orda.LNet` of `Proofs/ListNet.lean` (the system `Net`, `Step`, `Reach`, the invariant `Inv`); no
hypothesis beyond `Reach cuid n net` (distinct client identifiers), ANY public call allowed in the runs.

RESULTS
  * `step_node_applies` (§2): a step changes the list of a node by applying zero or one REMOTE list operation
    (`l' = l.applyAllL ops`): a call is the remote application of the operation it queues (`local_step`), a pull is
    `exec_toL`, a push changes no state.  Hence
    `lnet_step_only_adds` (old identity sequence is a sublist of the new one) and `lnet_step_keeps_tombstones`;
    along any continuation: `reaches_only_adds`, `reaches_keeps_tombstones` (`Reaches` = reflexive-transitive closure of `Step`);
  * `lnet_can_quiesce` (§3): push everything (`push_all`, measure `toPush`), then pull everything (`pull_all`, `toPull`);
  * `lnet_same_relative_order_everywhere` (§4): THE order theorem, at every moment, any two nodes — through the common
    duplicate-free list of a quiescent continuation (`sublist_order_iff`);
  * `lnet_ids_are_the_inserted` (§5): identities of node `i` = duplicate-free, exactly `insertedIds` of `appliedOps`;
    `lnet_deleted_iff_delete_applied` (node form) / `lnet_tomb_iff_delete_applied` (identity form): tombstone ⇔ an applied
    delete targets it (`deleteTargets`);
  * `lnet_local_insert_readable` (§6): after a successful `linsert pos vs` (`vs ≠ []`), `lgetMany pos vs.length` returns `vs`
    (`insertAtLive_live`: the live values become `pre ++ vs ++ post` with `pre.length = pos`);
  * §7: non-vacuity on the run `LNet.Ex`: `net7` (not quiescent; nodes 1 and 2 hold incomparable lists) and `midNet`.
-/
import Orda.Proofs.ListNet
set_option linter.unusedSimpArgs false
set_option linter.unusedVariables false
namespace Orda.LNet
open Orda Orda.RF

/-! ## 1. one remote list operation: identities are only added, tombstones stay -/

/-- `x` is a tombstone of the list `l` -/
def Tomb (l : Rga) (x : Ts) : Prop := ∃ nd ∈ l.nodes, nd.o = x ∧ nd.v = none

theorem applyL_ids_sublist (s : Rga) (p : LOp) : s.ids.Sublist (s.applyL p).ids := by
  cases p with
  | ins a ts vals => rw [applyL_ins]; exact applyIns_sublist s _
  | del tgs ts => rw [applyL_mod_ids s _ rfl]; exact List.Sublist.refl _
  | upd tgs vs ts => rw [applyL_mod_ids s _ rfl]; exact List.Sublist.refl _

theorem applyAllL_ids_sublist : ∀ (ops : List LOp) (s : Rga), s.ids.Sublist (s.applyAllL ops).ids
  | [], s => List.Sublist.refl _
  | p :: ops, s => (applyL_ids_sublist s p).trans (applyAllL_ids_sublist ops (s.applyL p))

theorem applyL_keeps_tomb (s : Rga) (p : LOp) (x : Ts) (h : Tomb s x) : Tomb (s.applyL p) x := by
  cases p with
  | ins a ts vals =>
    rw [applyL_ins]
    obtain ⟨nd, hnd, h1, h2⟩ := h
    refine ⟨nd, ?_, h1, h2⟩
    rw [applyIns_nodes]
    cases hi : insertAfterId RNode.o a (mkNodes ts vals) s.nodes with
    | none => exact hnd
    | some l' => exact (insertAfterId_sublist RNode.o a _ _ l' hi).subset hnd
  | del tgs ts => exact deleteRemote_keeps_tomb s tgs ts x h
  | upd tgs vs ts =>
    show Tomb (match s.updateRemote tgs vs ts with | .ok s' => s' | _ => s) x
    cases hu : s.updateRemote tgs vs ts with
    | ok s' => exact updateRemote_keeps_tomb s s' tgs vs ts x hu h
    | err c => exact h
    | panic w => exact h

theorem applyAllL_keeps_tomb : ∀ (ops : List LOp) (s : Rga) (x : Ts), Tomb s x → Tomb (s.applyAllL ops) x
  | [], s, x, h => h
  | p :: ops, s, x, h => applyAllL_keeps_tomb ops (s.applyL p) x (applyL_keeps_tomb s p x h)

/-! ## 2. what a step does to ONE node: it applies zero or one remote list operation -/

theorem node_state_of_map {nodes : List Node} {i : Nat} {l : Rga}
    (h : (nodes[i]?.map (·.r.state)) = some (.list l)) : ∃ nd, nodes[i]? = some nd ∧ nd.r.state = .list l := by
  obtain ⟨nd, h1, h2⟩ := Option.map_eq_some_iff.mp h
  exact ⟨nd, h1, h2⟩

theorem step_node_applies {cuid : Nat → String} {n : Nat} {net net' : Net} (hr : Reach cuid n net)
    (hs : Step net net') : ∀ (i : Nat) (l l' : Rga), (net.nodes[i]?.map (·.r.state)) = some (DState.list l) →
      (net'.nodes[i]?.map (·.r.state)) = some (DState.list l') → ∃ ops : List LOp, l' = l.applyAllL ops := by
  intro i l l' h1 h2
  obtain ⟨ap, I⟩ := inv_reach hr
  obtain ⟨nd1, hn1, hs1⟩ := node_state_of_map h1
  obtain ⟨nd2, hn2, hs2⟩ := node_state_of_map h2
  have same : nd2.r.state = nd1.r.state → ∃ ops : List LOp, l' = l.applyAllL ops := by
    intro e
    rw [hs1, hs2] at e
    injection e with e
    exact ⟨[], e⟩
  cases hs with
  | call k nd c hk =>
    rcases getElem?_set_some hn2 with ⟨rfl, rfl⟩ | ⟨hne, hj'⟩
    · rw [hn1] at hk
      injection hk with hk
      subst hk
      have N := I.node i nd1 hn1
      have hl : l = Rga.empty.applyAllL (den (ap i)) := by
        have := N.st; rw [hs1] at this; injection this
      rcases call_cases nd1.r l hs1 c with ⟨e, _⟩ | ⟨o, l'', hbuf, hid, hop, hst, hloc⟩
      · exact same e
      · have hts : o.id.ts = nd1.r.opId.next.ts := by rw [hid]
        have hnh : nd1.r.opId.next.ts.key ≠ Ts.oldest.key := by
          intro e0
          simp only [Ts.key, OpId.ts, OpId.next, Ts.oldest, Prod.mk.injEq] at e0
          omega
        rw [hl] at hloc
        obtain ⟨hl', _, _⟩ := local_step N.lc (ts := nd1.r.opId.next.ts) rfl hnh N.den_lt hts hloc
        refine ⟨(toL o).toList, ?_⟩
        have : (DState.list l') = .list l'' := by rw [← hs2, ← hst]
        injection this with this
        rw [this, hl', hl]
    · rw [hn1] at hj'
      injection hj' with hj'
      subst hj'
      exact same rfl
  | push k nd o hk ho =>
    rcases getElem?_set_some hn2 with ⟨rfl, rfl⟩ | ⟨hne, hj'⟩
    · rw [hn1] at hk
      injection hk with hk
      subst hk
      exact same rfl
    · rw [hn1] at hj'
      injection hj' with hj'
      subst hj'
      exact same rfl
  | pull k nd a o hk hl =>
    rcases getElem?_set_some hn2 with ⟨rfl, rfl⟩ | ⟨hne, hj'⟩
    · rw [hn1] at hk
      injection hk with hk
      subst hk
      by_cases ha : a = i
      · apply same
        show (if a = i then nd1.r else (nd1.r.execRemoteBase o).1).state = _
        rw [if_pos ha]
      · simp only [if_neg ha] at hs2
        obtain ⟨_, _, hent⟩ := I.deliver hn1 hl ha
        have := exec_toL nd1.r l o hs1 hent.2.2.2.2
        rw [hs2] at this
        injection this with this
        exact ⟨_, this⟩
    · rw [hn1] at hj'
      injection hj' with hj'
      subst hj'
      exact same rfl

/-- a step never removes or reorders identities on any node: the old identity sequence of node `i` is a sublist of the
    new one -/
theorem lnet_step_only_adds {cuid : Nat → String} {n : Nat} {net net' : Net} :
    Reach cuid n net → Step net net' → ∀ (i : Nat) (l l' : Rga), (net.nodes[i]?.map (·.r.state)) = some (DState.list l) →
    (net'.nodes[i]?.map (·.r.state)) = some (DState.list l') → l.ids.Sublist l'.ids := by
  intro hr hs i l l' h1 h2
  obtain ⟨ops, rfl⟩ := step_node_applies hr hs i l l' h1 h2
  exact applyAllL_ids_sublist ops l

/-- … and never resurrects: an element that is a tombstone on node `i` stays a tombstone on node `i` -/
theorem lnet_step_keeps_tombstones {cuid : Nat → String} {n : Nat} {net net' : Net} :
    Reach cuid n net → Step net net' → ∀ (i : Nat) (l l' : Rga) (x : Ts), (net.nodes[i]?.map (·.r.state)) = some (DState.list l) →
    (net'.nodes[i]?.map (·.r.state)) = some (DState.list l') →
    (∃ nd ∈ l.nodes, nd.o = x ∧ nd.v = none) → (∃ nd ∈ l'.nodes, nd.o = x ∧ nd.v = none) := by
  intro hr hs i l l' x h1 h2 ht
  obtain ⟨ops, rfl⟩ := step_node_applies hr hs i l l' h1 h2
  exact applyAllL_keeps_tomb ops l x ht

/-! ## 3. every reachable state can be continued to a quiescent one -/

/-- reflexive-transitive closure of `Step` -/
inductive Reaches : Net → Net → Prop
  | refl (net : Net) : Reaches net net
  | tail {a b c : Net} : Reaches a b → Step b c → Reaches a c

theorem Reaches.trans {a b c : Net} (h1 : Reaches a b) (h2 : Reaches b c) : Reaches a c := by
  induction h2 with
  | refl => exact h1
  | tail _ hs ih => exact .tail ih hs

theorem Reaches.head {a b c : Net} (hs : Step a b) (h : Reaches b c) : Reaches a c :=
  Reaches.trans (.tail (.refl a) hs) h

theorem reach_of_reaches {cuid : Nat → String} {n : Nat} {net net' : Net} (hr : Reach cuid n net)
    (h : Reaches net net') : Reach cuid n net' := by
  induction h with
  | refl => exact hr
  | tail _ hs ih => exact .step ih hs

theorem sum_map_set_lt {α : Type} (f : α → Nat) : ∀ (l : List α) (i : Nat) (a b : α), l[i]? = some a → f b < f a →
    ((l.set i b).map f).sum < (l.map f).sum
  | [], _, _, _, h, _ => by simp at h
  | x :: xs, 0, a, b, h, hlt => by
    simp only [List.getElem?_cons_zero, Option.some.injEq] at h
    subst h
    simp only [List.set_cons_zero, List.map_cons, List.sum_cons]
    omega
  | x :: xs, i + 1, a, b, h, hlt => by
    simp only [List.getElem?_cons_succ] at h
    have := sum_map_set_lt f xs i a b h hlt
    simp only [List.set_cons_succ, List.map_cons, List.sum_cons]
    omega

/-- what is still to be pushed / to be pulled -/
def toPush (net : Net) : Nat := (net.nodes.map fun nd => nd.r.buffer.length - nd.pushed).sum
def toPull (net : Net) : Nat := (net.nodes.map fun nd => net.log.length - nd.pulled).sum

def AllPushed (net : Net) : Prop := ∀ nd ∈ net.nodes, nd.pushed = nd.r.buffer.length

theorem push_one {cuid : Nat → String} {n : Nat} {net : Net} (hr : Reach cuid n net)
    (h : ∃ nd ∈ net.nodes, nd.pushed ≠ nd.r.buffer.length) : ∃ net', Step net net' ∧ toPush net' < toPush net := by
  obtain ⟨ap, I⟩ := inv_reach hr
  obtain ⟨nd, hnd, hne⟩ := h
  obtain ⟨i, hi⟩ := List.mem_iff_getElem?.mp hnd
  have N := I.node i nd hi
  have hlt : nd.pushed < nd.r.buffer.length := Nat.lt_of_le_of_ne N.pushed_le hne
  refine ⟨_, .push net i nd nd.r.buffer[nd.pushed] hi (List.getElem?_eq_getElem hlt), ?_⟩
  unfold toPush
  apply sum_map_set_lt _ _ i nd _ hi
  show nd.r.buffer.length - (nd.pushed + 1) < nd.r.buffer.length - nd.pushed
  omega

theorem push_all {cuid : Nat → String} {n : Nat} : ∀ (k : Nat) (net : Net), Reach cuid n net → toPush net ≤ k →
    ∃ net', Reaches net net' ∧ AllPushed net' := by
  intro k
  induction k with
  | zero =>
    intro net hr hk
    by_cases h : ∃ nd ∈ net.nodes, nd.pushed ≠ nd.r.buffer.length
    · obtain ⟨net1, _, hlt⟩ := push_one hr h
      omega
    · refine ⟨net, .refl net, ?_⟩
      intro nd hnd
      by_contra hne
      exact h ⟨nd, hnd, hne⟩
  | succ k ih =>
    intro net hr hk
    by_cases h : ∃ nd ∈ net.nodes, nd.pushed ≠ nd.r.buffer.length
    · obtain ⟨net1, hs, hlt⟩ := push_one hr h
      obtain ⟨net', h1, h2⟩ := ih net1 (.step hr hs) (by omega)
      exact ⟨net', .head hs h1, h2⟩
    · refine ⟨net, .refl net, ?_⟩
      intro nd hnd
      by_contra hne
      exact h ⟨nd, hnd, hne⟩

theorem pull_one {cuid : Nat → String} {n : Nat} {net : Net} (hr : Reach cuid n net) (hp : AllPushed net)
    (h : ∃ nd ∈ net.nodes, nd.pulled ≠ net.log.length) :
    ∃ net', Step net net' ∧ toPull net' < toPull net ∧ AllPushed net' := by
  obtain ⟨ap, I⟩ := inv_reach hr
  obtain ⟨nd, hnd, hne⟩ := h
  obtain ⟨i, hi⟩ := List.mem_iff_getElem?.mp hnd
  have N := I.node i nd hi
  have hlt : nd.pulled < net.log.length := Nat.lt_of_le_of_ne N.pulled_le hne
  have hl : net.log[nd.pulled]? = some (net.log[nd.pulled].1, net.log[nd.pulled].2) :=
    List.getElem?_eq_getElem hlt
  refine ⟨_, .pull net i nd _ _ hi hl, ?_, ?_⟩
  · unfold toPull
    apply sum_map_set_lt _ _ i nd _ hi
    show net.log.length - (nd.pulled + 1) < net.log.length - nd.pulled
    omega
  · intro nd' hnd'
    rcases List.mem_or_eq_of_mem_set hnd' with h' | rfl
    · exact hp nd' h'
    · show nd.pushed = (if net.log[nd.pulled].1 = i then nd.r else (nd.r.execRemoteBase net.log[nd.pulled].2).1).buffer.length
      split
      · exact hp nd hnd
      · rw [execRemoteBase_buffer]; exact hp nd hnd

theorem pull_all {cuid : Nat → String} {n : Nat} : ∀ (k : Nat) (net : Net), Reach cuid n net → AllPushed net →
    toPull net ≤ k → ∃ net', Reaches net net' ∧ Quiescent net' := by
  intro k
  induction k with
  | zero =>
    intro net hr hp hk
    by_cases h : ∃ nd ∈ net.nodes, nd.pulled ≠ net.log.length
    · obtain ⟨net1, _, hlt, _⟩ := pull_one hr hp h
      omega
    · refine ⟨net, .refl net, ?_⟩
      intro nd hnd
      refine ⟨hp nd hnd, ?_⟩
      by_contra hne
      exact h ⟨nd, hnd, hne⟩
  | succ k ih =>
    intro net hr hp hk
    by_cases h : ∃ nd ∈ net.nodes, nd.pulled ≠ net.log.length
    · obtain ⟨net1, hs, hlt, hp1⟩ := pull_one hr hp h
      obtain ⟨net', h1, h2⟩ := ih net1 (.step hr hs) hp1 (by omega)
      exact ⟨net', .head hs h1, h2⟩
    · refine ⟨net, .refl net, ?_⟩
      intro nd hnd
      refine ⟨hp nd hnd, ?_⟩
      by_contra hne
      exact h ⟨nd, hnd, hne⟩

/-- every reachable state can be continued to a quiescent one (push everything, then pull everything) -/
theorem lnet_can_quiesce {cuid : Nat → String} {n : Nat} {net : Net} :
    Reach cuid n net → ∃ net', Reaches net net' ∧ Quiescent net' := by
  intro hr
  obtain ⟨net1, h1, hp⟩ := push_all (toPush net) net hr (Nat.le_refl _)
  obtain ⟨net2, h2, hq⟩ := pull_all (toPull net1) net1 (reach_of_reaches hr h1) hp (Nat.le_refl _)
  exact ⟨net2, h1.trans h2, hq⟩

/-! ## 4. THE order theorem -/

theorem reach_len {cuid : Nat → String} {n : Nat} {net : Net} (hr : Reach cuid n net) : net.nodes.length = n := by
  obtain ⟨ap, I⟩ := inv_reach hr
  exact I.len

/-- every node of a reachable state holds a list, without repeated identities -/
theorem reach_node_list {cuid : Nat → String} {n : Nat} {net : Net} (hr : Reach cuid n net) {i : Nat} (hi : i < n) :
    ∃ l : Rga, (net.nodes[i]?.map (·.r.state)) = some (DState.list l) ∧ l.ids.Nodup := by
  obtain ⟨ap, I⟩ := inv_reach hr
  have hlt : i < net.nodes.length := by rw [I.len]; exact hi
  have hn := List.getElem?_eq_getElem hlt
  have N := I.node i _ hn
  exact ⟨_, by rw [hn, Option.map_some, N.st], ids_nodup N.lc⟩

theorem lt_of_node_map {cuid : Nat → String} {n : Nat} {net : Net} (hr : Reach cuid n net) {i : Nat} {l : Rga}
    (h : (net.nodes[i]?.map (·.r.state)) = some (DState.list l)) : i < n := by
  obtain ⟨nd, hn, _⟩ := node_state_of_map h
  have := (List.getElem?_eq_some_iff.mp hn).1
  rw [reach_len hr] at this
  exact this

/-- `lnet_step_only_adds` along any continuation -/
theorem reaches_only_adds {cuid : Nat → String} {n : Nat} {net net' : Net} (hr : Reach cuid n net)
    (h : Reaches net net') : ∀ (i : Nat) (l l' : Rga), (net.nodes[i]?.map (·.r.state)) = some (DState.list l) →
    (net'.nodes[i]?.map (·.r.state)) = some (DState.list l') → l.ids.Sublist l'.ids := by
  induction h with
  | refl =>
    intro i l l' h1 h2
    rw [h1] at h2
    injection h2 with h2
    injection h2 with h2
    rw [h2]
    exact List.Sublist.refl _
  | tail hab hs ih =>
    intro i l l' h1 h2
    have hrb := reach_of_reaches hr hab
    obtain ⟨lb, hb, _⟩ := reach_node_list hrb (lt_of_node_map hr h1)
    exact (ih i l lb h1 hb).trans (lnet_step_only_adds hrb hs i lb l' hb h2)

/-- `lnet_step_keeps_tombstones` along any continuation: once a tombstone on node `i`, a tombstone on node `i` for ever -/
theorem reaches_keeps_tombstones {cuid : Nat → String} {n : Nat} {net net' : Net} (hr : Reach cuid n net)
    (h : Reaches net net') : ∀ (i : Nat) (l l' : Rga) (x : Ts),
    (net.nodes[i]?.map (·.r.state)) = some (DState.list l) →
    (net'.nodes[i]?.map (·.r.state)) = some (DState.list l') → Tomb l x → Tomb l' x := by
  induction h with
  | refl =>
    intro i l l' x h1 h2 ht
    rw [h1] at h2
    injection h2 with h2
    injection h2 with h2
    rw [← h2]
    exact ht
  | tail hab hs ih =>
    intro i l l' x h1 h2 ht
    have hrb := reach_of_reaches hr hab
    obtain ⟨lb, hb, _⟩ := reach_node_list hrb (lt_of_node_map hr h1)
    exact lnet_step_keeps_tombstones hrb hs i lb l' x hb h2 (ih i l lb x h1 hb ht)

theorem pair_sublist_cons {α : Type} {x y a : α} {L : List α} (h : [x, y].Sublist (a :: L)) :
    [x, y].Sublist L ∨ (a = x ∧ y ∈ L) := by
  cases h with
  | cons _ h => exact Or.inl h
  | cons_cons _ h => exact Or.inr ⟨rfl, by simpa using h.subset⟩

/-- in a duplicate-free list two elements cannot appear in both orders -/
theorem nodup_pair_asymm {α : Type} : ∀ {L : List α} {x y : α}, L.Nodup → [x, y].Sublist L → [y, x].Sublist L → False
  | [], x, y, _, h, _ => by simp at h
  | a :: L, x, y, hnd, h1, h2 => by
    obtain ⟨ha, hnd'⟩ := List.nodup_cons.mp hnd
    rcases pair_sublist_cons h1 with h1 | ⟨rfl, hy⟩
    · rcases pair_sublist_cons h2 with h2 | ⟨rfl, hx⟩
      · exact nodup_pair_asymm hnd' h1 h2
      · exact ha (h1.subset (by simp))
    · rcases pair_sublist_cons h2 with h2 | ⟨rfl, hx⟩
      · exact ha (h2.subset (by simp))
      · exact ha hy

/-- two different members of a list appear in one of the two orders -/
theorem pair_sublist_total {α : Type} : ∀ {A : List α} {x y : α}, x ∈ A → y ∈ A → x ≠ y →
    [x, y].Sublist A ∨ [y, x].Sublist A
  | [], x, y, hx, _, _ => by simp at hx
  | a :: A, x, y, hx, hy, hne => by
    rcases List.mem_cons.mp hx with rfl | hx'
    · rcases List.mem_cons.mp hy with rfl | hy'
      · exact absurd rfl hne
      · exact Or.inl (List.Sublist.cons_cons _ (List.singleton_sublist.mpr hy'))
    · rcases List.mem_cons.mp hy with rfl | hy'
      · exact Or.inr (List.Sublist.cons_cons _ (List.singleton_sublist.mpr hx'))
      · rcases pair_sublist_total hx' hy' hne with h | h
        · exact Or.inl (h.cons _)
        · exact Or.inr (h.cons _)

/-- a sublist of a duplicate-free list orders its elements as the whole list does -/
theorem sublist_order_iff {α : Type} {A L : List α} {x y : α} (hnd : L.Nodup) (hs : A.Sublist L) (hx : x ∈ A)
    (hy : y ∈ A) : [x, y].Sublist A ↔ [x, y].Sublist L := by
  constructor
  · exact fun h => h.trans hs
  · intro h
    by_cases hxy : x = y
    · subst hxy
      have : [x, x].Nodup := h.nodup hnd
      simp at this
    · rcases pair_sublist_total hx hy hxy with h' | h'
      · exact h'
      · exact absurd (nodup_pair_asymm hnd h (h'.trans hs)) id

/-- THE order theorem: at EVERY moment, on ANY two nodes, any two elements present on both appear in the same relative
    order -/
theorem lnet_same_relative_order_everywhere {cuid : Nat → String} {n : Nat} {net : Net} :
    Reach cuid n net → ∀ (i j : Nat) (li lj : Rga) (x y : Ts),
    (net.nodes[i]?.map (·.r.state)) = some (DState.list li) → (net.nodes[j]?.map (·.r.state)) = some (DState.list lj) →
    x ∈ li.ids → y ∈ li.ids → x ∈ lj.ids → y ∈ lj.ids → ([x, y].Sublist li.ids ↔ [x, y].Sublist lj.ids) := by
  intro hr i j li lj x y hi hj hxi hyi hxj hyj
  obtain ⟨net', hrs, hq⟩ := lnet_can_quiesce hr
  have hr' := reach_of_reaches hr hrs
  have hin := lt_of_node_map hr hi
  have hjn := lt_of_node_map hr hj
  obtain ⟨si, hsi, hndi⟩ := reach_node_list hr' hin
  obtain ⟨sj, hsj, _⟩ := reach_node_list hr' hjn
  have hli : i < net'.nodes.length := by rw [reach_len hr']; exact hin
  have hlj : j < net'.nodes.length := by rw [reach_len hr']; exact hjn
  have hc := lnet_quiescent_converged net' hr' hq i j hli hlj
  have e : si = sj := by
    rw [List.getElem?_eq_getElem hli, Option.map_some] at hsi
    rw [List.getElem?_eq_getElem hlj, Option.map_some] at hsj
    injection hsi with hsi
    injection hsj with hsj
    rw [hsi, hsj] at hc
    injection hc
  subst e
  have h1 := reaches_only_adds hr hrs i li si hi hsi
  have h2 := reaches_only_adds hr hrs j lj si hj hsj
  rw [sublist_order_iff hndi h1 hxi hyi, sublist_order_iff hndi h2 hxj hyj]

/-! ## 5. identities = what the applied inserts created; tombstone = an applied delete targets it -/

/-- the identities a wire operation inserts: one per value, the operation's timestamp with delimiters 0, 1, … -/
def insertedIds (o : Op) : List Ts :=
  match o.body with
  | .insert _ _ vs => delimSeq o.id.ts vs.length
  | _ => []

/-- the identities a wire operation deletes -/
def deleteTargets (o : Op) : List Ts :=
  match o.body with
  | .delete _ _ tg => tg
  | _ => []

theorem mem_insertedIds {o : Op} (hb : ListBody o.body) {x : Ts} :
    x ∈ insertedIds o ↔ ∃ q, toL o = some q ∧ x ∈ q.insIds := by
  rcases o with ⟨id, body⟩
  rcases hb with ⟨p, a, vs, rfl⟩ | ⟨p, n, tg, rfl⟩ | ⟨p, tg, vs, rfl⟩
  · cases vs with
    | nil => simp [insertedIds, toL, delimSeq]
    | cons v vs => simp [insertedIds, toL, LOp.insIds]
  · simp [insertedIds, toL, LOp.insIds]
  · simp [insertedIds, toL, LOp.insIds]

theorem toL_del_iff {o : Op} {tgs : List Ts} {ts : Ts} :
    toL o = some (.del tgs ts) ↔ (∃ p n, o.body = .delete p n tgs) ∧ ts = o.id.ts := by
  rcases o with ⟨id, body⟩
  unfold toL
  constructor
  · intro h
    split at h <;> simp only [Option.some.injEq, reduceCtorEq, LOp.del.injEq] at h
    next p n tg hb =>
      obtain ⟨rfl, rfl⟩ := h
      exact ⟨⟨p, n, hb⟩, rfl⟩
  · rintro ⟨⟨p, n, hb⟩, rfl⟩
    simp only at hb
    subst hb
    rfl

/-- every identity of the state was created by an insert of the sequence, and conversely -/
theorem ids_mem_iff {ops : List LOp} (hc : LCausal ops) {x : Ts} :
    x ∈ (Rga.empty.applyAllL ops).ids ↔ ∃ q ∈ ops, x ∈ q.insIds := by
  constructor
  · exact ids_mem hc
  · rintro ⟨q, hq, hx⟩
    rw [applyAllL_ids]
    obtain ⟨_, _, _, _, hmem, _⟩ := rinv_all _ hc.ins
    exact (hmem x).mpr (insIds_mem_insOps hq hx)

namespace Inv
variable {cuid : Nat → String} {n : Nat} {net : Net} {ap : Nat → List LEnt}

/-- every operation a node has is a list operation -/
theorem applied_listBody (I : Inv cuid n net ap) {i : Nat} {nd : Node} (hi : net.nodes[i]? = some nd) {o : Op}
    (ho : o ∈ appliedOps net.log i nd) : ListBody o.body := by
  have N := I.node i nd hi
  unfold appliedOps at ho
  rcases List.mem_append.mp ho with h | h
  · exact (N.ent_ok _ (N.buf_mem h)).2.2.2.2
  · obtain ⟨e, he, rfl⟩ := List.mem_map.mp h
    rw [← N.oth_eq] at he
    exact (N.ent_ok e (mem_oth.mp he).1).2.2.2.2

end Inv

/-- present exactly once where its insert was received: the identities of node `i` are exactly (without repetition) the
    identities inserted by the operations node `i` has applied -/
theorem lnet_ids_are_the_inserted {cuid : Nat → String} {n : Nat} {net : Net} :
    Reach cuid n net → ∀ (i : Nat) (nd : Node) (l : Rga), net.nodes[i]? = some nd → nd.r.state = .list l →
    l.ids.Nodup ∧ ∀ x, x ∈ l.ids ↔ ∃ o ∈ appliedOps net.log i nd, x ∈ insertedIds o := by
  intro hr i nd l hi hs
  obtain ⟨ap, I⟩ := inv_reach hr
  have N := I.node i nd hi
  have hl : l = Rga.empty.applyAllL (den (ap i)) := by
    have := N.st; rw [hs] at this; injection this
  subst hl
  refine ⟨ids_nodup N.lc, ?_⟩
  intro x
  rw [ids_mem_iff N.lc]
  have hp := I.den_perm hi
  constructor
  · rintro ⟨q, hq, hx⟩
    obtain ⟨o, ho, hoq⟩ := List.mem_filterMap.mp (hp.subset hq)
    exact ⟨o, ho, (mem_insertedIds (I.applied_listBody hi ho)).mpr ⟨q, hoq, hx⟩⟩
  · rintro ⟨o, ho, hx⟩
    obtain ⟨q, hoq, hx⟩ := (mem_insertedIds (I.applied_listBody hi ho)).mp hx
    exact ⟨q, hp.symm.subset (List.mem_filterMap.mpr ⟨o, ho, hoq⟩), hx⟩

/-- never visible after its delete was received: an element is a tombstone on node `i` iff node `i` has applied a delete
    targeting it -/
theorem lnet_deleted_iff_delete_applied {cuid : Nat → String} {n : Nat} {net : Net} :
    Reach cuid n net → ∀ (i : Nat) (nd : Node) (l : Rga), net.nodes[i]? = some nd → nd.r.state = .list l →
    ∀ e ∈ l.nodes, (e.v = none ↔ ∃ o ∈ appliedOps net.log i nd, e.o ∈ deleteTargets o) := by
  intro hr i nd l hi hs e he
  obtain ⟨ap, I⟩ := inv_reach hr
  have N := I.node i nd hi
  have hl : l = Rga.empty.applyAllL (den (ap i)) := by
    have := N.st; rw [hs] at this; injection this
  subst hl
  rw [rga_tombstone_iff _ N.lc e he]
  have hp := I.den_perm hi
  constructor
  · rintro ⟨tgs, ts, hd, hx⟩
    obtain ⟨o, ho, hoq⟩ := List.mem_filterMap.mp (hp.subset hd)
    obtain ⟨⟨p, k, hb⟩, _⟩ := toL_del_iff.mp hoq
    exact ⟨o, ho, by simp [deleteTargets, hb, hx]⟩
  · rintro ⟨o, ho, hx⟩
    unfold deleteTargets at hx
    split at hx
    next p k tg hb =>
      exact ⟨tg, o.id.ts, hp.symm.subset (List.mem_filterMap.mpr ⟨o, ho, toL_del_iff.mpr ⟨⟨p, k, hb⟩, rfl⟩⟩), hx⟩
    next => simp at hx


/-- the same, about the identity: `x` (an element of node `i`) is a tombstone there iff node `i` has applied a delete
    targeting `x` -/
theorem lnet_tomb_iff_delete_applied {cuid : Nat → String} {n : Nat} {net : Net} :
    Reach cuid n net → ∀ (i : Nat) (nd : Node) (l : Rga), net.nodes[i]? = some nd → nd.r.state = .list l →
    ∀ x ∈ l.ids, (Tomb l x ↔ ∃ o ∈ appliedOps net.log i nd, x ∈ deleteTargets o) := by
  intro hr i nd l hi hs x hx
  have key := lnet_deleted_iff_delete_applied hr i nd l hi hs
  constructor
  · rintro ⟨e, he, rfl, hv⟩
    exact (key e he).mp hv
  · intro h
    obtain ⟨e, he, rfl⟩ := List.mem_map.mp hx
    exact ⟨e, he, rfl, (key e he).mpr h⟩

/-! ## 6. a local insert at index `pos` is immediately readable at index `pos` -/

theorem insertAtLive_live (ns : List RNode) : ∀ (p : Nat) (l l' : List RNode),
    insertAtLive RNode.isLive ns p l = some l' →
    ∃ pre post, l.filterMap (·.v) = pre ++ post ∧ pre.length = p ∧
      l'.filterMap (·.v) = pre ++ ns.filterMap (·.v) ++ post
  | 0, l, l', h => by
    simp only [insertAtLive, Option.some.injEq] at h
    subst h
    exact ⟨[], l.filterMap (·.v), rfl, rfl, by simp⟩
  | p + 1, [], l', h => by simp [insertAtLive] at h
  | p + 1, x :: xs, l', h => by
    unfold insertAtLive at h
    cases hv : x.v with
    | none =>
      have hl : x.isLive = false := by simp [RNode.isLive, hv]
      simp only [hl, Bool.false_eq_true, if_false] at h
      cases hr : insertAtLive RNode.isLive ns (p + 1) xs with
      | none => rw [hr] at h; cases h
      | some l'' =>
        rw [hr] at h
        simp only [Option.map_some, Option.some.injEq] at h
        subst h
        obtain ⟨pre, post, h1, h2, h3⟩ := insertAtLive_live ns (p + 1) xs l'' hr
        exact ⟨pre, post, by simp [hv, h1], h2, by simp [hv, h3]⟩
    | some w =>
      have hl : x.isLive = true := by simp [RNode.isLive, hv]
      simp only [hl, if_true] at h
      by_cases hp : p = 0
      · subst hp
        simp only [if_true, Option.some.injEq] at h
        subst h
        exact ⟨[w], xs.filterMap (·.v), by simp [hv], rfl, by simp [hv]⟩
      · simp only [hp, if_false] at h
        cases hr : insertAtLive RNode.isLive ns p xs with
        | none => rw [hr] at h; cases h
        | some l'' =>
          rw [hr] at h
          simp only [Option.map_some, Option.some.injEq] at h
          subst h
          obtain ⟨pre, post, h1, h2, h3⟩ := insertAtLive_live ns p xs l'' hr
          exact ⟨w :: pre, post, by simp [hv, h1], by simp [h2], by simp [hv, h3]⟩

theorem mkNodes_live (ts : Ts) (vs : List JVal) : (mkNodes ts vs).filterMap (·.v) = vs := by
  unfold mkNodes
  rw [List.filterMap_map]
  have : ((fun n : RNode => n.v) ∘ fun x : JVal × Ts => (⟨x.2, some x.1, x.2⟩ : RNode)) = fun x => some x.1 := by
    funext x; rfl
  rw [this, List.filterMap_eq_map']
  exact List.map_fst_zip (by rw [delimSeq_length]; exact Nat.le_refl _)


theorem call_linsert_ok (r : Replica) (pos : Int) (vs : List JVal)
    (h : (r.call (.linsert pos vs)).2 = .ok (.vals vs)) :
    ∃ l l' a, r.state = .list l ∧ l.validateInsert pos = none ∧
      l.insertLocal pos.toNat r.opId.next.ts vs = .ok (l', a) ∧ (r.call (.linsert pos vs)).1.state = .list l' := by
  unfold Replica.call at h ⊢
  cases hs : r.state with
  | list l =>
    simp only [hs, Call.prepare] at h ⊢
    cases hv : l.validateInsert pos with
    | some c => simp [hv] at h
    | none =>
      simp only [hv] at h ⊢
      by_cases hn : vs.any JVal.isNull = true
      · simp [hn] at h
      · simp only [hn, if_false] at h ⊢
        unfold Replica.callLocal Replica.execLocalBase at h ⊢
        simp only [OpBody.isMeta, Bool.false_eq_true, if_false, hs, execLocal] at h ⊢
        cases hi : l.insertLocal pos.toNat r.opId.next.ts vs with
        | ok res =>
          obtain ⟨l', a⟩ := res
          exact ⟨l, l', a, rfl, hv, hi, by simp [hi]⟩
        | err c => simp [hi, mapOut] at h
        | panic w => simp [hi, mapOut] at h
  | counter v => simp [hs, Call.prepare] at h
  | map m => simp [hs, Call.prepare] at h
  | doc d => simp [hs, Call.prepare] at h

theorem insertLocal_ok {l l' : Rga} {p : Nat} {ts a : Ts} {vs : List JVal} (h : l.insertLocal p ts vs = .ok (l', a)) :
    l'.size = l.size + vs.length ∧ insertAtLive RNode.isLive (mkNodes ts vs) p l.nodes = some l'.nodes := by
  unfold Rga.insertLocal at h
  cases ha : l.anchorAt p with
  | none => rw [ha] at h; simp at h
  | some a' =>
    cases hi : insertAtLive RNode.isLive (mkNodes ts vs) p l.nodes with
    | none => rw [ha, hi] at h; simp at h
    | some nl =>
      rw [ha, hi] at h
      simp only [Outcome.ok.injEq, Prod.mk.injEq] at h
      obtain ⟨rfl, _⟩ := h
      exact ⟨rfl, rfl⟩

theorem validateInsert_none {l : Rga} {pos : Int} (h : l.validateInsert pos = none) : 0 ≤ pos ∧ pos ≤ l.size := by
  unfold Rga.validateInsert at h
  split at h
  · cases h
  · split at h
    · cases h
    · omega

theorem lnet_local_insert_readable {cuid : Nat → String} {n : Nat} {net : Net} :
    Reach cuid n net → ∀ (i : Nat) (nd : Node) (pos : Int) (vs : List JVal), net.nodes[i]? = some nd → vs ≠ [] →
    (nd.r.call (.linsert pos vs)).2 = .ok (.vals vs) →
    ((nd.r.call (.linsert pos vs)).1.call (.lgetMany pos vs.length)).2 = .ok (.vals vs) := by
  intro _ i nd pos vs _ hne h
  obtain ⟨l, l', a, hs, hv, hi, hs'⟩ := call_linsert_ok nd.r pos vs h
  generalize (nd.r.call (.linsert pos vs)).1 = r' at hs'
  obtain ⟨hsz, hnl⟩ := insertLocal_ok hi
  obtain ⟨hp0, hps⟩ := validateInsert_none hv
  have hlen : 1 ≤ vs.length := by
    cases vs with
    | nil => exact absurd rfl hne
    | cons v vs => simp
  have hr : l'.validateRange pos vs.length = none := by
    unfold Rga.validateRange
    rw [hsz]
    have h1 : ¬ pos < 0 := by omega
    have h2 : ¬ ((vs.length : Int) < 1) := by omega
    have h3 : ¬ (l.size + (vs.length : Int) - 1 < pos) := by omega
    have h4 : ¬ (pos + (vs.length : Int) > l.size + (vs.length : Int)) := by omega
    simp [h1, h2, h3, h4]
  unfold Replica.call
  simp only [Call.prepare, hs', hr]
  obtain ⟨pre, post, _, h2, h3⟩ := insertAtLive_live _ _ _ _ hnl
  rw [mkNodes_live] at h3
  have : liveSlice l' pos.toNat ((vs.length : Int)).toNat = vs := by
    unfold liveSlice Rga.live
    rw [h3, Int.toNat_natCast, List.append_assoc, ← h2, List.drop_left, List.take_left]
  rw [this]


/-! ## 7. non-vacuity: NON-quiescent states of the run `LNet.Ex` in which two nodes hold different lists -/
namespace Ex

/-- after the first seven actions: node 0's insert `[1, 2]` is everywhere; nodes 1 and 2 have CONCURRENTLY inserted `"b"` and
    `"c"` after the first element and pushed nothing -/
def net7 : Net := ((Net.init cu 3).run (acts.take 7)).getD ⟨[], []⟩
theorem net7_isSome : ((Net.init cu 3).run (acts.take 7)).isSome = true := by decide
theorem run_net7 : (Net.init cu 3).run (acts.take 7) = some net7 := by
  have h := net7_isSome
  unfold net7
  cases hr : (Net.init cu 3).run (acts.take 7) with
  | none => rw [hr] at h; cases h
  | some x => rfl
theorem reach_net7 : Reach cu 3 net7 := reach_run (acts.take 7) (.init cu_distinct) run_net7

example : ¬ Quiescent net7 := by
  unfold Quiescent
  decide

def idB : Ts := ⟨0, 2, "b", 0⟩
def idC : Ts := ⟨0, 2, "c", 0⟩
def l1 : Rga := ⟨[⟨a0, some (.num 1), a0⟩, ⟨idB, some (.str "b"), idB⟩, ⟨a1, some (.num 2), a1⟩], 3⟩
def l2 : Rga := ⟨[⟨a0, some (.num 1), a0⟩, ⟨idC, some (.str "c"), idC⟩, ⟨a1, some (.num 2), a1⟩], 3⟩

theorem net7_node1 : (net7.nodes[1]?.map (·.r.state)) = some (DState.list l1) := by rfl
theorem net7_node2 : (net7.nodes[2]?.map (·.r.state)) = some (DState.list l2) := by rfl

/-- the two lists differ: each holds an element the other has not received -/
theorem l1_ids : l1.ids = [a0, idB, a1] := rfl
theorem l2_ids : l2.ids = [a0, idC, a1] := rfl
example : idB ∈ l1.ids ∧ idB ∉ l2.ids ∧ idC ∈ l2.ids ∧ idC ∉ l1.ids := by
  simp [l1_ids, l2_ids, idB, idC, a0, a1]

/-- `lnet_same_relative_order_everywhere` instantiated: the two elements present on both nodes are in the same order … -/
example : [a0, a1].Sublist l1.ids ↔ [a0, a1].Sublist l2.ids :=
  lnet_same_relative_order_everywhere reach_net7 1 2 l1 l2 a0 a1 net7_node1 net7_node2
    (by simp [l1_ids]) (by simp [l1_ids]) (by simp [l2_ids]) (by simp [l2_ids])
/-- … and that order is `a0` before `a1`, on both -/
example : [a0, a1].Sublist l1.ids ∧ [a0, a1].Sublist l2.ids ∧ ¬ [a1, a0].Sublist l1.ids := by
  rw [l1_ids, l2_ids]; decide

/-- `lnet_can_quiesce` instantiated -/
example : ∃ net', Reaches net7 net' ∧ Quiescent net' := lnet_can_quiesce reach_net7

/-- the state `midNet` of ListNet.lean (not quiescent): node 0 holds the common final list (two tombstones), node 2 has not
    seen the second round -/
def l0mid : Rga :=
  ⟨[⟨a0, none, ⟨0, 3, "b", 0⟩⟩, ⟨idC, some (.str "c"), idC⟩, ⟨idB, some (.str "b"), idB⟩, ⟨a1, none, ⟨0, 2, "a", 0⟩⟩], 2⟩
def l2mid : Rga := ⟨[⟨a0, some (.str "u"), ⟨0, 3, "c", 0⟩⟩, ⟨idC, some (.str "c"), idC⟩, ⟨a1, some (.num 2), a1⟩], 3⟩
theorem l0mid_ids : l0mid.ids = [a0, idC, idB, a1] := rfl
theorem l2mid_ids : l2mid.ids = [a0, idC, a1] := rfl
theorem mid_node0 : (midNet.nodes[0]?.map (·.r.state)) = some (DState.list l0mid) := by rfl
theorem mid_node2 : (midNet.nodes[2]?.map (·.r.state)) = some (DState.list l2mid) := by rfl

example : [idC, a1].Sublist l0mid.ids ↔ [idC, a1].Sublist l2mid.ids :=
  lnet_same_relative_order_everywhere reach_mid 0 2 l0mid l2mid idC a1 mid_node0 mid_node2
    (by simp [l0mid_ids]) (by simp [l0mid_ids]) (by simp [l2mid_ids]) (by simp [l2mid_ids])

/-- `lnet_ids_are_the_inserted` / `lnet_deleted_iff_delete_applied` instantiated on node 0 of `midNet` -/
example : l0mid.ids.Nodup ∧
    ∀ x, x ∈ l0mid.ids ↔ ∃ o ∈ appliedOps midNet.log 0 (midNet.nodes[0]'(by rw [len_mid]; decide)), x ∈ insertedIds o :=
  lnet_ids_are_the_inserted reach_mid 0 _ l0mid (List.getElem?_eq_getElem (by rw [len_mid]; decide)) (by rfl)
example : ∀ e ∈ l0mid.nodes,
    (e.v = none ↔ ∃ o ∈ appliedOps midNet.log 0 (midNet.nodes[0]'(by rw [len_mid]; decide)), e.o ∈ deleteTargets o) :=
  lnet_deleted_iff_delete_applied reach_mid 0 _ l0mid (List.getElem?_eq_getElem (by rw [len_mid]; decide)) (by rfl)

/-- `lnet_local_insert_readable` instantiated: node 1 of `net7` inserts two values at index 2 and reads them back there -/
example : (((net7.nodes[1]'(by decide)).r.call (.linsert 2 [.str "x", .str "y"])).1.call (.lgetMany 2 2)).2 =
    .ok (.vals [.str "x", .str "y"]) :=
  lnet_local_insert_readable reach_net7 1 _ 2 [.str "x", .str "y"] (List.getElem?_eq_getElem (by decide)) (by simp)
    (by rfl)

end Ex

end Orda.LNet
