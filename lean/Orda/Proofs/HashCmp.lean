/-
Identifier key (Timestamp.Hash) and Timestamp.Compare.

* a *well-separated* format (every `%d` immediately followed by literal text that starts with a
  non-digit, `%s` of the client id last, every field present) renders distinct timestamps to
  distinct keys; the format found in the source is re-checked on every build;
* the old format `"%d%d%d%s"` collides;
* `Ts.cmp` is a strict total order on `Ts.key` (era, lamport, cuid), ignoring the delimiter;
* the wrap-faithful `Ts.cmp64` agrees with `Ts.cmp` under `NoWrap`, and is not transitive outside.

Core Lean only (no Mathlib import needed).
-/
import Orda.Model.Basic
namespace Orda

/-! ### decimal rendering -/

theorem digitChar_inj {a b : Nat} (ha : a < 10) (hb : b < 10) (h : a.digitChar = b.digitChar) :
    a = b := by
  have h1 := Nat.toNat_digitChar_sub_48_of_lt_ten ha
  have h2 := Nat.toNat_digitChar_sub_48_of_lt_ten hb
  rw [h] at h1; omega

theorem toDigits_length_ge_two {n : Nat} (h : 10 ≤ n) : 2 ≤ (Nat.toDigits 10 n).length := by
  rw [Nat.toDigits_of_base_le (by decide) h]
  have := @Nat.length_toDigits_pos 10 (n / 10)
  simp; omega

theorem toDigits_inj : ∀ (n m : Nat), Nat.toDigits 10 n = Nat.toDigits 10 m → n = m := by
  intro n
  induction n using Nat.strongRecOn with
  | ind n ih =>
    intro m h
    by_cases hn : n < 10
    · by_cases hm : m < 10
      · rw [Nat.toDigits_of_lt_base hn, Nat.toDigits_of_lt_base hm] at h
        exact digitChar_inj hn hm (by simpa using h)
      · have := toDigits_length_ge_two (n := m) (by omega)
        rw [← h, Nat.toDigits_of_lt_base hn] at this
        simp at this
    · by_cases hm : m < 10
      · have := toDigits_length_ge_two (n := n) (by omega)
        rw [h, Nat.toDigits_of_lt_base hm] at this
        simp at this
      · rw [Nat.toDigits_of_base_le (by decide) (by omega : 10 ≤ n),
            Nat.toDigits_of_base_le (by decide) (by omega : 10 ≤ m)] at h
        have h' := List.append_inj' h rfl
        have hq := ih (n / 10) (by omega) (m / 10) h'.1
        have hr : n % 10 = m % 10 :=
          digitChar_inj (Nat.mod_lt _ (by decide)) (Nat.mod_lt _ (by decide)) (by simpa using h'.2)
        omega

theorem natStr_inj {n m : Nat} (h : natStr n = natStr m) : n = m := toDigits_inj n m h

theorem natStr_isDigit {n : Nat} : ∀ c ∈ natStr n, c.isDigit = true := fun _ hc =>
  Nat.isDigit_of_mem_toDigits (b := 10) (by decide) (by decide) hc

/-- two digit runs, each followed by a non-digit, are split at the same place -/
theorem digit_split : ∀ {a a' r r' : List Char} {s s' : Char},
    (∀ c ∈ a, c.isDigit = true) → (∀ c ∈ a', c.isDigit = true) →
    s.isDigit = false → s'.isDigit = false →
    a ++ s :: r = a' ++ s' :: r' → a = a' ∧ s :: r = s' :: r'
  | [], [], _, _, _, _, _, _, _, _, h => by simpa using h
  | [], y :: ys, _, _, s, _, _, h2, hs, _, h => by
      simp at h
      have := h2 y (by simp)
      rw [← h.1, hs] at this; cases this
  | x :: xs, [], _, _, _, s', h1, _, _, hs', h => by
      simp at h
      have := h1 x (by simp)
      rw [h.1, hs'] at this; cases this
  | x :: xs, y :: ys, _, _, _, _, h1, h2, hs, hs', h => by
      simp at h
      obtain ⟨hxy, ht⟩ := h
      have := digit_split (a := xs) (a' := ys) (fun c hc => h1 c (by simp [hc]))
        (fun c hc => h2 c (by simp [hc])) hs hs' ht
      exact ⟨by rw [hxy, this.1], this.2⟩

/-! ### well-separated formats -/

def HSeg.isNum : HSeg → Bool
  | .era | .lamport | .delim => true
  | _ => false

def HSeg.startsNonDigit : HSeg → Bool
  | .lit s => match s.toList with
    | c :: _ => !c.isDigit
    | [] => false
  | _ => false

/-- every numeric field is immediately followed by a literal starting with a non-digit;
    the client id occurs only as the last segment -/
def wellSepAux : List HSeg → Bool
  | [] => true
  | [.cuid] => true
  | .cuid :: _ => false
  | .lit _ :: rest => wellSepAux rest
  | n :: rest =>            -- n is numeric here
    (match rest with
     | l :: _ => l.startsNonDigit
     | [] => false) && wellSepAux rest

def WellSeparated (fmt : List HSeg) : Bool :=
  wellSepAux fmt && fmt.contains .era && fmt.contains .lamport && fmt.contains .delim && fmt.contains .cuid

theorem renderHash_nil (t : Ts) : renderHash [] t = [] := rfl

theorem renderHash_cons (s : HSeg) (rest : List HSeg) (t : Ts) :
    renderHash (s :: rest) t = s.render t ++ renderHash rest t := by
  simp [renderHash]

/-- a literal starting with a non-digit: its rendering is `c :: cs` with `c` not a digit -/
theorem startsNonDigit_render {l : HSeg} (h : l.startsNonDigit = true) :
    ∃ c cs, c.isDigit = false ∧ ∀ t : Ts, l.render t = c :: cs := by
  cases l with
  | lit s =>
    simp only [HSeg.startsNonDigit] at h
    split at h
    · next c cs hs =>
      refine ⟨c, cs, by simpa using h, fun t => ?_⟩
      simp [HSeg.render, hs]
    · cases h
  | _ => simp [HSeg.startsNonDigit] at h

/-- a numeric field in front of a non-digit literal can be read back -/
theorem num_step (a b : Ts) (x y : Nat) (l : HSeg) (rest : List HSeg)
    (hl : l.startsNonDigit = true)
    (h : natStr x ++ renderHash (l :: rest) a = natStr y ++ renderHash (l :: rest) b) :
    natStr x = natStr y ∧ renderHash (l :: rest) a = renderHash (l :: rest) b := by
  obtain ⟨c, cs, hc, hr⟩ := startsNonDigit_render hl
  rw [renderHash_cons, renderHash_cons, hr a, hr b] at h ⊢
  simp only [List.cons_append] at h ⊢
  exact digit_split natStr_isDigit natStr_isDigit hc hc h

theorem wellSepAux_num_inv {n : HSeg} {rest : List HSeg} (hn : n.isNum = true)
    (h : wellSepAux (n :: rest) = true) :
    ∃ l rest', rest = l :: rest' ∧ l.startsNonDigit = true ∧ wellSepAux rest = true := by
  cases rest with
  | nil => cases n <;> simp [wellSepAux, HSeg.isNum] at h hn
  | cons l rest' =>
    refine ⟨l, rest', rfl, ?_⟩
    cases n <;> simp [wellSepAux, HSeg.isNum] at h hn <;> exact h

/-- equal renderings under a well-separated format agree segment by segment -/
theorem render_eq_of_wellSep (a b : Ts) : ∀ fmt : List HSeg, wellSepAux fmt = true →
    renderHash fmt a = renderHash fmt b → ∀ seg ∈ fmt, seg.render a = seg.render b := by
  intro fmt
  induction fmt with
  | nil => intro _ _ seg hseg; cases hseg
  | cons s rest ih =>
    intro hw h seg hseg
    have hnum : ∀ (f : Ts → Nat), s.isNum = true → (∀ t, s.render t = natStr (f t)) →
        seg.render a = seg.render b := by
      intro f hs hf
      obtain ⟨l, rest', rfl, hl, hw'⟩ := wellSepAux_num_inv hs hw
      rw [renderHash_cons s _ a, renderHash_cons s _ b, hf a, hf b] at h
      obtain ⟨h1, h2⟩ := num_step a b (f a) (f b) l rest' hl h
      rcases List.mem_cons.mp hseg with rfl | hm
      · rw [hf a, hf b, h1]
      · exact ih hw' h2 seg hm
    cases s with
    | lit str =>
      have hw' : wellSepAux rest = true := by simpa [wellSepAux] using hw
      rw [renderHash_cons _ _ a, renderHash_cons _ _ b] at h
      simp only [HSeg.render] at h
      have h2 := List.append_cancel_left h
      rcases List.mem_cons.mp hseg with rfl | hm
      · rfl
      · exact ih hw' h2 seg hm
    | cuid =>
      cases rest with
      | nil =>
        simp only [List.mem_singleton] at hseg
        subst hseg
        simpa [renderHash] using h
      | cons r rs => simp [wellSepAux] at hw
    | era => exact hnum (·.era) rfl (fun _ => rfl)
    | lamport => exact hnum (·.lamport) rfl (fun _ => rfl)
    | delim => exact hnum (·.delim) rfl (fun _ => rfl)

/-- generic: a well-separated format renders distinct timestamps to distinct keys -/
theorem renderHash_injective (fmt : List HSeg) (h : WellSeparated fmt = true) :
    ∀ a b : Ts, renderHash fmt a = renderHash fmt b → a = b := by
  intro a b hab
  simp only [WellSeparated, Bool.and_eq_true, List.contains_iff_mem] at h
  obtain ⟨⟨⟨⟨hw, he⟩, hl⟩, hd⟩, hc⟩ := h
  have key := render_eq_of_wellSep a b fmt hw hab
  have h1 : a.era = b.era := natStr_inj (key _ he)
  have h2 : a.lamport = b.lamport := natStr_inj (key _ hl)
  have h3 : a.delim = b.delim := natStr_inj (key _ hd)
  have h4 : a.cuid = b.cuid := String.toList_inj.mp (key _ hc)
  cases a; cases b; simp_all

/-- the format found in the source is well separated (re-checked against the generated file on every build) -/
theorem hashFormat_wellSeparated : WellSeparated Gen.hashFormat = true := by decide

theorem hashKey_injective : ∀ a b : Ts, hashKey a = hashKey b → a = b :=
  renderHash_injective Gen.hashFormat hashFormat_wellSeparated

/-- the old format (no separators) is NOT injective: smallest witness -/
theorem concat_format_collides :
    renderHash [.era, .lamport, .delim, .cuid] ⟨0, 1, "c", 10⟩ = renderHash [.era, .lamport, .delim, .cuid] ⟨0, 11, "c", 0⟩ := by
  decide

/-! ### Timestamp.Compare -/

/-- the part of a timestamp that Compare looks at -/
def Ts.key (t : Ts) : Nat × Nat × String := (t.era, t.lamport, t.cuid)

theorem cmp_lt_iff (a b : Ts) : a.cmp b = .lt ↔
    a.era < b.era ∨ (a.era = b.era ∧ (a.lamport < b.lamport ∨
      (a.lamport = b.lamport ∧ compare a.cuid b.cuid = .lt))) := by
  unfold Ts.cmp strCmp
  split
  · simp; omega
  · split
    · simp; omega
    · split
      · simp; omega
      · split
        · simp; omega
        · have : a.era = b.era := by omega
          have : a.lamport = b.lamport := by omega
          simp [*]

theorem cmp_eq_iff (a b : Ts) : a.cmp b = .eq ↔ a.key = b.key := by
  unfold Ts.cmp strCmp Ts.key
  split
  · simp; omega
  · split
    · simp; omega
    · split
      · simp; omega
      · split
        · simp; omega
        · have : a.era = b.era := by omega
          have : a.lamport = b.lamport := by omega
          simp [*, Std.LawfulEqCmp.compare_eq_iff_eq]

theorem cmp_gt_iff_lt (a b : Ts) : a.cmp b = .gt ↔ b.cmp a = .lt := by
  rw [cmp_lt_iff]
  unfold Ts.cmp strCmp
  by_cases c1 : b.era < a.era
  · simp [c1]
  · by_cases c2 : a.era < b.era
    · simp [c1, c2]; omega
    · have e : a.era = b.era := by omega
      by_cases c3 : b.lamport < a.lamport
      · simp [e, c3]
      · by_cases c4 : a.lamport < b.lamport
        · simp [e, c3, c4]; omega
        · have l : a.lamport = b.lamport := by omega
          simp only [e, l, Nat.lt_irrefl, if_false, false_or, true_and]
          exact Std.OrientedCmp.gt_iff_lt

theorem cmp_lt_trans (a b c : Ts) : a.cmp b = .lt → b.cmp c = .lt → a.cmp c = .lt := by
  simp only [cmp_lt_iff]
  intro h1 h2
  rcases h1 with h1 | ⟨e1, h1 | ⟨l1, s1⟩⟩ <;> rcases h2 with h2 | ⟨e2, h2 | ⟨l2, s2⟩⟩
  · left; omega
  · left; omega
  · left; omega
  · left; omega
  · right; exact ⟨by omega, Or.inl (by omega)⟩
  · right; exact ⟨by omega, Or.inl (by omega)⟩
  · left; omega
  · right; exact ⟨by omega, Or.inl (by omega)⟩
  · right; exact ⟨by omega, Or.inr ⟨by omega, Std.TransCmp.lt_trans s1 s2⟩⟩

theorem cmp_lt_irrefl (a : Ts) : a.cmp a ≠ .lt := by
  have : a.cmp a = .eq := (cmp_eq_iff a a).mpr rfl
  rw [this]; decide

/-- Compare ignores the delimiter -/
theorem cmp_congr_key (a a' b b' : Ts) (ha : a.key = a'.key) (hb : b.key = b'.key) : a.cmp b = a'.cmp b' := by
  simp only [Ts.key, Prod.mk.injEq] at ha hb
  obtain ⟨ha1, ha2, ha3⟩ := ha
  obtain ⟨hb1, hb2, hb3⟩ := hb
  unfold Ts.cmp
  rw [ha1, ha2, ha3, hb1, hb2, hb3]

/-- lamport dominates within an era -/
theorem cmp_lt_of_lamport_lt (a b : Ts) (he : a.era = b.era) (hl : a.lamport < b.lamport) : a.cmp b = .lt :=
  (cmp_lt_iff a b).mpr (Or.inr ⟨he, Or.inl hl⟩)

/-! ### the wrap-faithful comparison -/

/-- the generated comparison shape is the expected one (bridge; fails to build if the source changes shape) -/
theorem tsCompare_shape : Gen.tsCompare = ⟨[⟨.era, 32, 1, -1⟩, ⟨.lamport, 64, 1, -1⟩], .cuid, true⟩ := rfl
theorem opidCompare_shape : Gen.opidCompare = ⟨[⟨.era, 32, 1, -1⟩, ⟨.lamport, 64, 1, -1⟩], .cuid, true⟩ := rfl

/-- no-wrap guard under which the Go code's `int32(a-b)` / `int64(a-b)` agree with the mathematical order -/
def NoWrap (a b : Ts) : Prop := a.era < 2^31 ∧ b.era < 2^31 ∧ a.lamport < 2^63 ∧ b.lamport < 2^63

theorem toInt_sub32 (x y : Nat) (hx : x < 2^31) (hy : y < 2^31) :
    (BitVec.ofNat 32 x - BitVec.ofNat 32 y).toInt = (x : Int) - y := by
  rw [BitVec.toInt_sub, BitVec.toInt_ofNat', BitVec.toInt_ofNat']
  simp only [Int.bmod]
  omega

theorem toInt_sub64 (x y : Nat) (hx : x < 2^63) (hy : y < 2^63) :
    (BitVec.ofNat 64 x - BitVec.ofNat 64 y).toInt = (x : Int) - y := by
  rw [BitVec.toInt_sub, BitVec.toInt_ofNat', BitVec.toInt_ofNat']
  simp only [Int.bmod]
  omega

theorem cmp64_eq_cmp (a b : Ts) (h : NoWrap a b) : a.cmp64 b = a.cmp b := by
  obtain ⟨h1, h2, h3, h4⟩ := h
  unfold Ts.cmp64 Ts.cmp
  rw [tsCompare_shape]
  simp only [evalCmpSteps, Ts.numField, Ts.strField, if_true,
    toInt_sub32 _ _ h1 h2, toInt_sub64 _ _ h3 h4]
  by_cases c1 : b.era < a.era
  · simp [c1, intOrd]
  · by_cases c2 : a.era < b.era
    · have n2 : (a.era : Int) - b.era < 0 := by omega
      simp [c1, c2, n2, intOrd]
    · have n2 : ¬ (a.era : Int) - b.era < 0 := by omega
      by_cases c3 : b.lamport < a.lamport
      · simp [c1, c2, c3, n2, intOrd]
      · by_cases c4 : a.lamport < b.lamport
        · have m2 : (a.lamport : Int) - b.lamport < 0 := by omega
          simp [c1, c2, c3, c4, n2, m2, intOrd]
        · have m2 : ¬ (a.lamport : Int) - b.lamport < 0 := by omega
          simp [c1, c2, c3, c4, n2, m2]

/-- outside the guard the wrap-faithful comparison is not transitive (documented, out of range for real histories) -/
theorem cmp64_not_transitive : ∃ a b c : Ts, a.cmp64 b = .lt ∧ b.cmp64 c = .lt ∧ a.cmp64 c = .gt :=
  ⟨⟨0, 0, "", 0⟩, ⟨0, 2^62, "", 0⟩, ⟨0, 2^63 + 1, "", 0⟩, by decide⟩

end Orda
