/-
C15 (operation numbering, Lamport clock) and C10 (a replica restored from a snapshot is
indistinguishable from the original under every continuation).  Core Lean only.
-/
import Orda.Proofs.Replay
namespace Orda

/-- C15: a client's queued operations are numbered base+1, base+2, … without gaps, all carry its
    client id, and the next id continues the numbering -/
def Replica.SeqInv (base : Nat) (r : Replica) : Prop :=
  r.buffer.map (·.id.seq) = List.range' (base + 1) r.buffer.length ∧
  r.opId.seq = base + r.buffer.length ∧
  ∀ o ∈ r.buffer, o.id.cuid = r.opId.cuid

theorem seqInv_new (typ : DtType) (cuid : String) (create : Bool) : (Replica.new typ cuid create).SeqInv 0 := by
  cases create <;> simp [Replica.new, Replica.SeqInv, OpId.new, OpId.next]

theorem seqInv_import (src : Replica) : (Replica.importFrom src).SeqInv src.opId.seq := by
  simp [Replica.importFrom, Replica.SeqInv]

/-- a public call, spelled out over `execLocalBase` -/
theorem call_eq (r : Replica) (c : Call) : r.call c =
    match c.prepare r.state with
    | .done o => (r, o)
    | .op b post =>
      match r.execLocalBase b with
      | (r', .ok (op, ret)) =>
        ({ r' with rbOps := r'.rbOps ++ [op], buffer := r'.buffer ++ [op.wire] }, .ok (post ret))
      | (r', .err c) => (r', .err c)
      | (r', .panic w) => (r', .panic w) := by
  unfold Replica.call Replica.callLocal
  cases c.prepare r.state with
  | done o => rfl
  | op b post =>
    dsimp only
    rcases r.execLocalBase b with ⟨r', (⟨op, ret⟩ | c | w)⟩ <;> rfl

/-- appending the next operations keeps the numbering -/
theorem seqInv_append {base : Nat} {r r' : Replica} {unit : List Op} (h : r.SeqInv base)
    (hb : r'.buffer = r.buffer ++ unit)
    (hs : unit.map (·.id.seq) = List.range' (r.opId.seq + 1) unit.length)
    (hi : r'.opId.seq = r.opId.seq + unit.length) (hc : r'.opId.cuid = r.opId.cuid)
    (hu : ∀ o ∈ unit, o.id.cuid = r.opId.cuid) : r'.SeqInv base := by
  obtain ⟨h1, h2, h3⟩ := h
  refine ⟨?_, ?_, ?_⟩
  · rw [hb, List.map_append, List.length_append, h1, hs, h2,
      show base + r.buffer.length + 1 = base + 1 + r.buffer.length by omega, List.range'_append_1]
  · rw [hi, hb, h2, List.length_append]; omega
  · intro o ho
    rw [hb, List.mem_append] at ho
    rw [hc]
    rcases ho with ho | ho
    · exact h3 o ho
    · exact hu o ho

theorem seqInv_call (base : Nat) (r : Replica) (c : Call) (h : r.SeqInv base)
    (hp : (r.call c).2.isPanic = false) : (r.call c).1.SeqInv base := by
  rw [call_eq] at hp ⊢
  split
  · exact h
  · rename_i b post hprep
    rw [hprep] at hp
    simp only [] at hp
    rcases he : r.execLocalBase b with ⟨r1, (⟨op, ret⟩ | c | w)⟩ <;> rw [he] at hp <;> simp only [] at hp ⊢
    · obtain ⟨hid, hop, hf⟩ := execLocalBase_ok he
      obtain ⟨_, f2, _⟩ := frame_fields hf
      refine seqInv_append (unit := [op.wire]) h (by simp [f2]) (by simp [wire_id, hop, OpId.next])
        (by simp [hid, OpId.next]) (by simp [hid, OpId.next]) (by simp [wire_id, hop, OpId.next])
    · rw [execLocalBase_err he]; exact h
    · simp [Outcome.isPanic] at hp

theorem seqInv_txCalls (base : Nat) (r : Replica) (tag : String) (calls : List Call) (stop fail : Bool)
    (h : r.SeqInv base) (hr : r.RbInv) (hp : (r.txCalls tag calls stop fail).2.2.isPanic = false) :
    (r.txCalls tag calls stop fail).1.SeqInv base := by
  obtain ⟨r1, ops, outs, stopped, pan, hb, hc⟩ := txCalls_cases r tag calls stop fail
  rcases hc with ⟨w, _, e⟩ | ⟨hpan, _, e⟩ | ⟨hpan, _, e⟩
  · rw [e] at hp; simp [Outcome.isPanic] at hp
  · subst hpan
    have hf : r1.frame r = r1 := (body_ok _ _ _ _ _ hb).frame
    obtain ⟨r2, hr2, g1, _, g3, _⟩ := rollback_of_rbInv hr hf
    rw [e, hr2]
    exact seqInv_append (unit := []) h (by simp [g3]) rfl (by simp [g1]) (by simp [g1]) (by simp)
  · subst hpan
    obtain ⟨hf, new, hnew, _, hseq, hid, hcu⟩ := body_ok _ _ _ _ _ hb
    obtain ⟨_, f2, _⟩ := frame_fields hf
    simp only [List.nil_append] at hnew
    subst hnew
    rw [e]
    refine seqInv_append
      (unit := (⟨r.opId.next, .transaction tag (ops.length + 1)⟩ :: ops).map Op.wire) h (by simp [f2]) ?_
      (by simp [hid, OpId.next]; omega) (by simp [hid, OpId.next]) ?_
    · simp only [List.map_map, List.length_map, List.length_cons, List.map_cons, List.range'_succ]
      congr 1
    · intro o ho
      simp only [List.map_cons, List.mem_cons, List.mem_map] at ho
      rcases ho with rfl | ⟨o', ho', rfl⟩
      · rfl
      · exact hcu o' ho'

/-! ### what `receive` preserves -/

theorem applyUnit_go_preserves (P : Replica → Prop) (hexec : ∀ r o, P r → P (r.execRemoteBase o).1)
    (hrb : ∀ (r : Replica) l, P r → P { r with rbOps := l }) (ops : List Op) :
    ∀ r, P r → P (Replica.applyUnit.go r ops).1 := by
  induction ops with
  | nil => intro r h; exact h
  | cons o os ih =>
    intro r h
    rw [applyUnit_go_cons]
    have := hexec r o h
    revert this
    rcases r.execRemoteBase o with ⟨r', (_ | w)⟩ <;> intro this
    · exact ih _ (hrb _ _ this)
    · exact this

theorem applyUnit_preserves (P : Replica → Prop) (hexec : ∀ r o, P r → P (r.execRemoteBase o).1)
    (hrb : ∀ (r : Replica) l, P r → P { r with rbOps := l }) (unit : List Op) (r : Replica) (h : P r) :
    P (r.applyUnit unit).1 := by
  rcases applyUnit_cases r unit with ⟨_, e⟩ | e | ⟨e, _⟩ | ⟨e, _⟩ <;> rw [e]
  · exact h
  · exact h
  · exact applyUnit_go_preserves P hexec hrb _ _ h
  · exact applyUnit_go_preserves P hexec hrb _ _ h

theorem receive_go_preserves (P : Replica → Prop) (hexec : ∀ r o, P r → P (r.execRemoteBase o).1)
    (hrb : ∀ (r : Replica) l, P r → P { r with rbOps := l }) (fuel : Nat) :
    ∀ r ops, P r → P (Replica.receive.go fuel r ops).1 := by
  induction fuel with
  | zero => intro r ops h; cases ops <;> exact h
  | succ fuel ih =>
    intro r ops h
    cases ops with
    | nil => exact h
    | cons o rest =>
      rw [receive_go_succ]
      split
      · exact h
      · have := applyUnit_preserves P hexec hrb ((o :: rest).take o.unitLen) r h
        revert this
        rcases r.applyUnit ((o :: rest).take o.unitLen) with ⟨r', (_ | c | w)⟩ <;> intro this
        · exact ih _ _ this
        · exact this
        · exact this

theorem receive_preserves (P : Replica → Prop) (hexec : ∀ r o, P r → P (r.execRemoteBase o).1)
    (hrb : ∀ (r : Replica) l, P r → P { r with rbOps := l }) (r : Replica) (ops : List Op) (h : P r) :
    P (r.receive ops).1 :=
  receive_go_preserves P hexec hrb _ _ _ h

/-- receiving never touches the queue, the sequence number, the client id or the checkpoint -/
theorem receive_fields (r : Replica) (ops : List Op) :
    (r.receive ops).1.buffer = r.buffer ∧ (r.receive ops).1.opId.seq = r.opId.seq ∧
      (r.receive ops).1.opId.cuid = r.opId.cuid ∧ (r.receive ops).1.cp = r.cp := by
  refine receive_preserves (fun r' => r'.buffer = r.buffer ∧ r'.opId.seq = r.opId.seq ∧
      r'.opId.cuid = r.opId.cuid ∧ r'.cp = r.cp) ?_ ?_ r ops ⟨rfl, rfl, rfl, rfl⟩
  · intro r' o ⟨h1, h2, h3, h4⟩
    obtain ⟨hid, hf⟩ := execRemoteBase_fst r' o
    obtain ⟨_, f2, f3, _⟩ := frame_fields hf
    obtain ⟨s1, s2, _⟩ := syncLamport_fields r'.opId o.id.lamport
    exact ⟨f2.trans h1, by rw [hid, s2, h2], by rw [hid, s1, h3], f3.trans h4⟩
  · intro r' l h; exact h

theorem seqInv_receive (base : Nat) (r : Replica) (ops : List Op) (h : r.SeqInv base) :
    (r.receive ops).1.SeqInv base := by
  obtain ⟨g1, g2, g3, _⟩ := receive_fields r ops
  exact seqInv_append (unit := []) h (by simp [g1]) rfl (by simp [g2]) g3 (by simp)

/-! ### the Lamport clock -/

/-- C15: the clock never goes back … -/
theorem lamport_mono_call (r : Replica) (c : Call) : r.opId.lamport ≤ (r.call c).1.opId.lamport := by
  rw [call_eq]
  split
  · exact Nat.le_refl _
  · rename_i b post hprep
    rcases he : r.execLocalBase b with ⟨r1, (⟨op, ret⟩ | c | w)⟩ <;> simp only []
    · rw [(execLocalBase_ok he).1]; simp [OpId.next]
    · rw [execLocalBase_err he]; exact Nat.le_refl _
    · rw [execLocalBase_panic he]; simp [OpId.next]

theorem execRemoteBase_lamport (r : Replica) (o : Op) :
    r.opId.lamport ≤ (r.execRemoteBase o).1.opId.lamport ∧ o.id.lamport ≤ (r.execRemoteBase o).1.opId.lamport := by
  rw [(execRemoteBase_fst r o).1]
  exact ⟨(syncLamport_fields _ _).2.2.2.1, (syncLamport_fields _ _).2.2.2.2⟩

theorem applyUnit_go_lamport_mono (r : Replica) (ops : List Op) :
    r.opId.lamport ≤ (Replica.applyUnit.go r ops).1.opId.lamport :=
  applyUnit_go_preserves (fun r' => r.opId.lamport ≤ r'.opId.lamport)
    (fun r' o h => Nat.le_trans h (execRemoteBase_lamport r' o).1) (fun _ _ h => h) ops r (Nat.le_refl _)

theorem receive_go_lamport_mono (fuel : Nat) (r : Replica) (ops : List Op) :
    r.opId.lamport ≤ (Replica.receive.go fuel r ops).1.opId.lamport :=
  receive_go_preserves (fun r' => r.opId.lamport ≤ r'.opId.lamport)
    (fun r' o h => Nat.le_trans h (execRemoteBase_lamport r' o).1) (fun _ _ h => h) fuel r ops (Nat.le_refl _)

theorem lamport_mono_receive (r : Replica) (ops : List Op) : r.opId.lamport ≤ (r.receive ops).1.opId.lamport :=
  receive_go_lamport_mono _ r ops

/-- every operation a call emits is stamped strictly later than the clock before the call -/
theorem call_emits_newer (r : Replica) (c : Call) :
    ∀ o ∈ (r.call c).1.buffer.drop r.buffer.length, r.opId.lamport < o.id.lamport := by
  rw [call_eq]
  split
  · simp
  · rename_i b post hprep
    rcases he : r.execLocalBase b with ⟨r1, (⟨op, ret⟩ | c | w)⟩ <;> simp only []
    · obtain ⟨_, hop, hf⟩ := execLocalBase_ok he
      obtain ⟨_, f2, _⟩ := frame_fields hf
      simp [f2, wire_id, hop, OpId.next]
    · rw [execLocalBase_err he]; simp
    · rw [execLocalBase_panic he]; simp

/-! ### the clock dominates what was applied

`receive_lamport_ge` as first stated (for EVERY `o ∈ ops`) is false: the header of a unit of two or
more operations is only checked against the unit's length, it is never executed
(`applyUnit` runs `tl`), so its clock is not merged.  `receive_lamport_ge_counterexample` is a
concrete instance; `receive_lamport_ge_partial` is the statement for every operation that is
executed, i.e. every operation that is not a transaction header announcing more than itself. -/

theorem receive_lamport_ge_counterexample :
    ∃ (r : Replica) (ops : List Op), (r.receive ops).2 = .ok () ∧
      ∃ o ∈ ops, ¬ o.id.lamport ≤ (r.receive ops).1.opId.lamport :=
  ⟨Replica.new .counter "a" false,
   [⟨⟨0, 1000, "b", 1⟩, .transaction "t" 2⟩, ⟨⟨0, 1, "b", 2⟩, .increase 1⟩],
   rfl, _, List.mem_cons_self .., by decide⟩

theorem applyUnit_go_lamport_ge (ops : List Op) : ∀ (r : Replica),
    (Replica.applyUnit.go r ops).2 = .ok () →
    ∀ o ∈ ops, o.id.lamport ≤ (Replica.applyUnit.go r ops).1.opId.lamport := by
  induction ops with
  | nil => intro r _ o ho; simp at ho
  | cons x xs ih =>
    intro r h o ho
    have hx := (execRemoteBase_lamport r x).2
    rw [applyUnit_go_cons] at h ⊢
    revert hx h
    rcases r.execRemoteBase x with ⟨r', (_ | w)⟩ <;> intro h hx <;> simp only [] at h hx ⊢
    · rcases List.mem_cons.1 ho with rfl | ho
      · exact Nat.le_trans hx (applyUnit_go_lamport_mono ({ r' with rbOps := r'.rbOps ++ [o] } : Replica) xs)
      · exact ih _ h o ho
    · simp at h

/-- the operations of a unit that are executed: all of a one-operation unit, all but the header otherwise -/
theorem applyUnit_lamport_ge (r : Replica) (unit : List Op) (h : (r.applyUnit unit).2 = .ok ()) :
    ∀ o ∈ unit, (unit.length = 1 ∨ o ∈ unit.tail) → o.id.lamport ≤ (r.applyUnit unit).1.opId.lamport := by
  intro o ho hc
  rcases applyUnit_cases r unit with ⟨hu, e⟩ | e | ⟨e, _⟩ | ⟨e, h2⟩
  · subst hu; simp at ho
  · rw [e] at h; simp at h
  · rw [e] at h ⊢; exact applyUnit_go_lamport_ge _ _ h o ho
  · rw [e] at h ⊢
    rcases hc with hc | hc
    · omega
    · exact applyUnit_go_lamport_ge _ _ h o hc

/-- an operation that `receive` executes wherever it stands: not a header announcing more than itself -/
def Op.executed (o : Op) : Prop := ∀ tag n, o.body = .transaction tag n → n = 1

theorem unitLen_of_executed {o : Op} (h : o.executed) : o.unitLen = 1 := by
  unfold Op.unitLen
  split
  · rename_i tag n hb; rw [h tag n hb]; rfl
  · rfl

theorem unitLen_pos {o : Op} {k : Nat} (h : o.badHeader k = false) : 1 ≤ o.unitLen := by
  unfold Op.badHeader at h
  unfold Op.unitLen
  split
  · rename_i tag n hb
    rw [hb] at h
    simp at h
    omega
  · exact Nat.le_refl _

theorem receive_go_lamport_ge (fuel : Nat) : ∀ (r : Replica) (ops : List Op),
    (Replica.receive.go fuel r ops).2 = .ok () →
    ∀ o ∈ ops, o.executed → o.id.lamport ≤ (Replica.receive.go fuel r ops).1.opId.lamport := by
  induction fuel with
  | zero =>
    intro r ops h o ho
    cases ops with
    | nil => simp at ho
    | cons x xs => rw [receive_go_zero] at h; simp at h
  | succ fuel ih =>
    intro r ops h o ho hex
    cases ops with
    | nil => simp at ho
    | cons x xs =>
      rw [receive_go_succ] at h ⊢
      split at h
      · simp at h
      · rename_i hbad
        have hbad' : x.badHeader (x :: xs).length = false := by simpa using hbad
        rw [if_neg hbad]
        have hpos := unitLen_pos hbad'
        have hunit := applyUnit_lamport_ge r ((x :: xs).take x.unitLen)
        revert hunit h
        rcases r.applyUnit ((x :: xs).take x.unitLen) with ⟨r', (_ | c | w)⟩ <;> intro h hunit <;>
          simp only [] at h hunit ⊢
        · rw [← List.take_append_drop x.unitLen (x :: xs), List.mem_append] at ho
          rcases ho with ho | ho
          · refine Nat.le_trans (hunit trivial o ho ?_) (receive_go_lamport_mono _ _ _)
            obtain ⟨k, hk⟩ : ∃ k, x.unitLen = k + 1 := ⟨x.unitLen - 1, by omega⟩
            rw [hk, List.take_succ_cons] at ho ⊢
            rcases List.mem_cons.1 ho with rfl | ho
            · left
              have := unitLen_of_executed hex
              have : k = 0 := by omega
              subst this; simp
            · right; exact ho
          · exact ih _ _ h o ho hex
        · simp at h
        · simp at h

/-- C15 (closest true form of `receive_lamport_ge`): after a successful receive the clock is at least the
    clock of every operation that was executed — every operation except the headers of units of two
    or more operations, which are only checked, not executed -/
theorem receive_lamport_ge_partial (r : Replica) (ops : List Op) (h : (r.receive ops).2 = .ok ()) :
    ∀ o ∈ ops, (∀ tag n, o.body = .transaction tag n → n = 1) →
      o.id.lamport ≤ (r.receive ops).1.opId.lamport :=
  receive_go_lamport_ge _ r ops h

/-- … hence of EVERY received operation as soon as each such header is no newer than some executed
    operation of the batch (true of the units `txCalls` emits: the header carries the smallest clock) -/
theorem receive_lamport_ge_of_headers_dominated (r : Replica) (ops : List Op)
    (h : (r.receive ops).2 = .ok ())
    (hdom : ∀ o ∈ ops, ¬ o.executed → ∃ o' ∈ ops, o'.executed ∧ o.id.lamport ≤ o'.id.lamport) :
    ∀ o ∈ ops, o.id.lamport ≤ (r.receive ops).1.opId.lamport := by
  intro o ho
  by_cases hex : o.executed
  · exact receive_lamport_ge_partial r ops h o ho hex
  · obtain ⟨o', ho', hex', hle⟩ := hdom o ho hex
    exact Nat.le_trans hle (receive_lamport_ge_partial r ops h o' ho' hex')

/-! ### C10: a restored copy -/

/-- C10: what a replica's reaction to any step depends on -/
def Replica.core (r : Replica) : OpId × DState := (r.opId, r.state)

theorem import_core (src : Replica) : (Replica.importFrom src).core = src.core := rfl

theorem import_rbInv (src : Replica) : (Replica.importFrom src).RbInv :=
  rbInv_of_rb_eq rfl rfl rfl

/-- the steps of C10's continuation histories -/
inductive Step where
  | call (c : Call)
  | tx (tag : String) (calls : List Call) (stop fail : Bool)
  | recv (ops : List Op)

/-- what a step lets the outside observe: results, emitted operations -/
structure StepObs where
  outs : List (Outcome Ret)
  final : Outcome Unit
  emitted : List Op

def Replica.step (r : Replica) : Step → Replica × StepObs
  | .call c => let (r', o) := r.call c
               (r', ⟨[o], .ok (), r'.buffer.drop r.buffer.length⟩)
  | .tx tag calls stop fail =>
      let (r', outs, o) := r.txCalls tag calls stop fail
      (r', ⟨outs, o, r'.buffer.drop r.buffer.length⟩)
  | .recv ops => let (r', o) := r.receive ops
                 (r', ⟨[], o, r'.buffer.drop r.buffer.length⟩)

def StepObs.noPanic (o : StepObs) : Bool := !o.final.isPanic && o.outs.all (fun x => !x.isPanic)

theorem core_eq_iff {r1 r2 : Replica} : r1.core = r2.core ↔ r1.opId = r2.opId ∧ r1.state = r2.state := by
  simp [Replica.core]

/-- two replicas with the same core: the second is the first one's core in its own frame -/
theorem exists_frame {r1 r2 : Replica} (hc : r1.core = r2.core) : r2 = r1.frame r2 := by
  rw [core_eq_iff] at hc
  exact (frame_of_core hc.1 hc.2).symm

/-! #### calls depend on the core only -/

theorem call_frame (r f : Replica) (c : Call) :
    ((r.frame f).call c).2 = (r.call c).2 ∧ ((r.frame f).call c).1.core = (r.call c).1.core ∧
      ((r.frame f).call c).1.buffer.drop f.buffer.length = (r.call c).1.buffer.drop r.buffer.length := by
  rw [call_eq, call_eq]
  simp only [frame_state, execLocalBase_frame]
  cases c.prepare r.state with
  | done o => simp [Replica.core]
  | op b post =>
    dsimp only
    rcases he : r.execLocalBase b with ⟨r1, (⟨op, ret⟩ | e | w)⟩ <;> dsimp only
    · obtain ⟨_, _, hf⟩ := execLocalBase_ok he
      obtain ⟨_, f2, _⟩ := frame_fields hf
      simp [Replica.core, f2]
    · rw [execLocalBase_err he]; simp [Replica.core]
    · rw [execLocalBase_panic he]; simp [Replica.core]

/-! #### remote units depend on the core only -/

theorem applyUnit_go_core (ops : List Op) : ∀ (r1 r2 : Replica), r1.core = r2.core →
    (Replica.applyUnit.go r1 ops).2 = (Replica.applyUnit.go r2 ops).2 ∧
      (Replica.applyUnit.go r1 ops).1.core = (Replica.applyUnit.go r2 ops).1.core := by
  induction ops with
  | nil => intro r1 r2 hc; exact ⟨rfl, hc⟩
  | cons o os ih =>
    intro r1 r2 hc
    rw [exists_frame hc, applyUnit_go_cons, applyUnit_go_cons, execRemoteBase_frame]
    rcases r1.execRemoteBase o with ⟨r', (_ | w)⟩ <;> dsimp only
    · exact ih _ _ rfl
    · exact ⟨rfl, rfl⟩

theorem applyUnit_core (unit : List Op) (r1 r2 : Replica) (hc : r1.core = r2.core) :
    (r1.applyUnit unit).2 = (r2.applyUnit unit).2 ∧ (r1.applyUnit unit).1.core = (r2.applyUnit unit).1.core := by
  rcases applyUnit_shape unit with ⟨_, e⟩ | e | ⟨_, e⟩ | ⟨_, e⟩ <;> rw [e r1, e r2]
  · exact ⟨rfl, hc⟩
  · exact ⟨rfl, hc⟩
  · exact applyUnit_go_core _ _ _ hc
  · exact applyUnit_go_core _ _ _ hc

theorem receive_go_core (fuel : Nat) : ∀ (r1 r2 : Replica) (ops : List Op), r1.core = r2.core →
    (Replica.receive.go fuel r1 ops).2 = (Replica.receive.go fuel r2 ops).2 ∧
      (Replica.receive.go fuel r1 ops).1.core = (Replica.receive.go fuel r2 ops).1.core := by
  induction fuel with
  | zero => intro r1 r2 ops hc; cases ops <;> exact ⟨rfl, hc⟩
  | succ fuel ih =>
    intro r1 r2 ops hc
    cases ops with
    | nil => exact ⟨rfl, hc⟩
    | cons o rest =>
      rw [receive_go_succ, receive_go_succ]
      split
      · exact ⟨rfl, hc⟩
      · have := applyUnit_core ((o :: rest).take o.unitLen) r1 r2 hc
        revert this
        rcases r1.applyUnit ((o :: rest).take o.unitLen) with ⟨a1, o1⟩
        rcases r2.applyUnit ((o :: rest).take o.unitLen) with ⟨a2, o2⟩
        rintro ⟨h1, h2⟩
        dsimp only at h1 h2
        subst h1
        rcases o1 with _ | c | w <;> dsimp only
        · exact ih _ _ _ h2
        · exact ⟨rfl, h2⟩
        · exact ⟨rfl, h2⟩

theorem receive_core (r1 r2 : Replica) (ops : List Op) (hc : r1.core = r2.core) :
    (r1.receive ops).2 = (r2.receive ops).2 ∧ (r1.receive ops).1.core = (r2.receive ops).1.core :=
  receive_go_core _ _ _ _ hc

/-! #### transactions depend on the core only (given sound rollback data) -/

theorem txCalls_frame (r f : Replica) (tag : String) (calls : List Call) (stop fail : Bool)
    (h1 : r.RbInv) (h2 : (r.frame f).RbInv) (hp : (r.txCalls tag calls stop fail).2.2.isPanic = false) :
    ((r.frame f).txCalls tag calls stop fail).2 = (r.txCalls tag calls stop fail).2 ∧
      ((r.frame f).txCalls tag calls stop fail).1.core = (r.txCalls tag calls stop fail).1.core ∧
      ((r.frame f).txCalls tag calls stop fail).1.buffer.drop f.buffer.length =
        (r.txCalls tag calls stop fail).1.buffer.drop r.buffer.length := by
  obtain ⟨r1, ops, outs, stopped, pan, hb, hc⟩ := txCalls_cases r tag calls stop fail
  obtain ⟨r1', ops', outs', stopped', pan', hb', hc'⟩ := txCalls_cases (r.frame f) tag calls stop fail
  have hfr : ({ r.frame f with opId := (r.frame f).opId.next } : Replica) =
      ({ r with opId := r.opId.next } : Replica).frame f := rfl
  rw [hfr, body_frame, hb] at hb'
  simp only [Prod.mk.injEq] at hb'
  obtain ⟨e1, e2, e3, e4, e5⟩ := hb'
  subst e1 e2 e3 e4 e5
  rcases hc with ⟨w, _, e⟩ | ⟨hpan, hs, e⟩ | ⟨hpan, hs, e⟩
  · rw [e] at hp; simp [Outcome.isPanic] at hp
  · subst hpan
    rcases hc' with ⟨w, hw, _⟩ | ⟨_, _, e'⟩ | ⟨_, hs', _⟩
    · simp at hw
    · have hf : r1.frame r = r1 := (body_ok _ _ _ _ _ hb).frame
      obtain ⟨r2, hr2, g1, g2, g3, _⟩ := rollback_of_rbInv h1 hf
      have hf' : (r1.frame f).frame (r.frame f) = r1.frame f := rfl
      obtain ⟨r2', hr2', g1', g2', g3', _⟩ := rollback_of_rbInv h2 hf'
      rw [e, e', hr2, hr2']
      simp [Replica.core, g1, g2, g3, g1', g2', g3']
    · rw [hs] at hs'; simp at hs'
  · subst hpan
    rcases hc' with ⟨w, hw, _⟩ | ⟨_, hs', _⟩ | ⟨_, _, e'⟩
    · simp at hw
    · rw [hs] at hs'; simp at hs'
    · obtain ⟨hf, _⟩ := body_ok _ _ _ _ _ hb
      obtain ⟨_, f2, _⟩ := frame_fields hf
      rw [e, e']
      simp [Replica.core, f2]

/-! #### one step, any continuation -/

theorem step_call (r : Replica) (c : Call) : r.step (.call c) =
    ((r.call c).1, ⟨[(r.call c).2], .ok (), (r.call c).1.buffer.drop r.buffer.length⟩) := rfl

theorem step_tx (r : Replica) (tag : String) (calls : List Call) (stop fail : Bool) :
    r.step (.tx tag calls stop fail) =
      ((r.txCalls tag calls stop fail).1,
        ⟨(r.txCalls tag calls stop fail).2.1, (r.txCalls tag calls stop fail).2.2,
          (r.txCalls tag calls stop fail).1.buffer.drop r.buffer.length⟩) := rfl

theorem step_recv (r : Replica) (ops : List Op) : r.step (.recv ops) =
    ((r.receive ops).1, ⟨[], (r.receive ops).2, (r.receive ops).1.buffer.drop r.buffer.length⟩) := rfl

/-- one step: replicas with the same core (and sound rollback data) react identically and stay so -/
theorem step_bisim (r1 r2 : Replica) (st : Step) (hc : r1.core = r2.core) (h1 : r1.RbInv) (h2 : r2.RbInv)
    (hf : ∀ ops, st = .recv ops → ∀ o ∈ ops, o.id.cuid ≠ r1.opId.cuid)
    (hp : (r1.step st).2.noPanic = true) :
    (r1.step st).2 = (r2.step st).2 ∧ (r1.step st).1.core = (r2.step st).1.core ∧
    (r1.step st).1.RbInv ∧ (r2.step st).1.RbInv := by
  have hid : r1.opId = r2.opId := (core_eq_iff.1 hc).1
  have e2 := exists_frame hc
  cases st with
  | call c =>
    simp only [step_call, StepObs.noPanic, Bool.and_eq_true, Bool.not_eq_true', List.all_cons,
      List.all_nil, Bool.and_true] at hp ⊢
    obtain ⟨a, b, d⟩ := call_frame r1 r2 c
    rw [← e2] at a b d
    refine ⟨by rw [a, d], b.symm, rbInv_call r1 c h1 hp.2, rbInv_call r2 c h2 (by rw [a]; exact hp.2)⟩
  | tx tag calls stop fail =>
    simp only [step_tx, StepObs.noPanic, Bool.and_eq_true, Bool.not_eq_true'] at hp ⊢
    have h2' : (r1.frame r2).RbInv := by rw [← e2]; exact h2
    obtain ⟨a, b, d⟩ := txCalls_frame r1 r2 tag calls stop fail h1 h2' hp.1
    rw [← e2] at a b d
    refine ⟨by rw [a, d], b.symm, rbInv_txCalls r1 tag calls stop fail h1 hp.1,
      rbInv_txCalls r2 tag calls stop fail h2 (by rw [a]; exact hp.1)⟩
  | recv ops =>
    simp only [step_recv, StepObs.noPanic, Bool.not_eq_true', List.all_nil, Bool.and_true] at hp ⊢
    obtain ⟨a, b⟩ := receive_core r1 r2 ops hc
    have hfo := hf ops rfl
    refine ⟨?_, b, rbInv_receive r1 ops h1 hfo hp,
      rbInv_receive r2 ops h2 (by rw [← hid]; exact hfo) (by rw [← a]; exact hp)⟩
    rw [a, (receive_fields r1 ops).1, (receive_fields r2 ops).1]
    simp

def Replica.run (r : Replica) : List Step → Replica × List StepObs
  | [] => (r, [])
  | st :: rest => let (r', o) := r.step st
                  let (r'', os) := r'.run rest
                  (r'', o :: os)

theorem run_cons (r : Replica) (st : Step) (rest : List Step) : r.run (st :: rest) =
    (((r.step st).1.run rest).1, (r.step st).2 :: ((r.step st).1.run rest).2) := rfl

/-- a step that does not panic keeps the client id (under the rollback invariant) -/
theorem step_cuid (r : Replica) (st : Step) (h : r.RbInv) (hp : (r.step st).2.noPanic = true) :
    (r.step st).1.opId.cuid = r.opId.cuid := by
  cases st with
  | call c =>
    rw [step_call, call_eq]
    cases c.prepare r.state with
    | done o => rfl
    | op b post =>
      dsimp only
      rcases he : r.execLocalBase b with ⟨r1, (⟨op, ret⟩ | e | w)⟩ <;> dsimp only
      · rw [(execLocalBase_ok he).1]; rfl
      · rw [execLocalBase_err he]
      · rw [execLocalBase_panic he]; rfl
  | tx tag calls stop fail =>
    simp only [step_tx, StepObs.noPanic, Bool.and_eq_true, Bool.not_eq_true'] at hp ⊢
    obtain ⟨r1, ops, outs, stopped, pan, hb, hc⟩ := txCalls_cases r tag calls stop fail
    rcases hc with ⟨w, _, e⟩ | ⟨hpan, hs, e⟩ | ⟨hpan, hs, e⟩
    · rw [e] at hp; simp [Outcome.isPanic] at hp
    · subst hpan
      have hf : r1.frame r = r1 := (body_ok _ _ _ _ _ hb).frame
      obtain ⟨r2, hr2, g1, _⟩ := rollback_of_rbInv h hf
      rw [e, hr2]; simp [g1]
    · subst hpan
      obtain ⟨_, new, _, _, _, hid, _⟩ := body_ok _ _ _ _ _ hb
      rw [e]; simp [hid, OpId.next]
  | recv ops => exact (receive_fields r ops).2.2.1

theorem run_bisim (steps : List Step) : ∀ (r1 r2 : Replica), r1.core = r2.core → r1.RbInv → r2.RbInv →
    (∀ st ∈ steps, ∀ ops, st = .recv ops → ∀ o ∈ ops, o.id.cuid ≠ r1.opId.cuid) →
    (∀ o ∈ (r1.run steps).2, o.noPanic = true) →
    (r2.run steps).2 = (r1.run steps).2 ∧ (r2.run steps).1.core = (r1.run steps).1.core := by
  induction steps with
  | nil => intro r1 r2 hc _ _ _ _; exact ⟨rfl, hc.symm⟩
  | cons st rest ih =>
    intro r1 r2 hc h1 h2 hf hp
    rw [run_cons] at hp ⊢
    rw [run_cons]
    have hp1 : (r1.step st).2.noPanic = true := hp _ (List.mem_cons_self ..)
    obtain ⟨a, b, c, d⟩ := step_bisim r1 r2 st hc h1 h2 (fun ops hst => hf st (List.mem_cons_self ..) ops hst) hp1
    have hcu := step_cuid r1 st h1 hp1
    obtain ⟨x, y⟩ := ih _ _ b c d
      (fun st' hst' ops e o ho => by rw [hcu]; exact hf st' (List.mem_cons_of_mem _ hst') ops e o ho)
      (fun o ho => hp o (List.mem_cons_of_mem _ ho))
    exact ⟨by rw [x, a], y⟩

/-- C10: a restored copy is indistinguishable from the original under EVERY continuation -/
theorem restored_indistinguishable (r : Replica) (h : r.RbInv) (steps : List Step)
    (hf : ∀ st ∈ steps, ∀ ops, st = .recv ops → ∀ o ∈ ops, o.id.cuid ≠ r.opId.cuid)
    (hp : ∀ o ∈ (r.run steps).2, o.noPanic = true) :
    ((Replica.importFrom r).run steps).2 = (r.run steps).2 ∧
    ((Replica.importFrom r).run steps).1.core = (r.run steps).1.core :=
  run_bisim steps r (Replica.importFrom r) (import_core r).symm h (import_rbInv r) hf hp

end Orda
