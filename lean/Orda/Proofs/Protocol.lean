/-
The push-pull protocol of one datatype as a labelled transition system over the MODEL'S OWN functions
`pushOps` (server: which pushed operations are accepted) and `newForeignOps` (client: which pulled
operations are applied), under an adversarial network: any request ever sent may be served any number
of times, any response ever produced may be delivered any number of times, in any order, or never.

Main results: `proto_inv` (inductive invariant J1–J3), `log_is_exactly_issued`, `log_nodup`,
`checkpoint_monotone`, `quiescent_converged`, `as_if_once`, and a concrete lost-response scenario.
Core Lean only.
-/
import Orda.Proofs.ServerLog
namespace Orda

/-! ## The protocol LTS -/

structure PClient where
  cuid : String
  buf : List Op            -- own operations issued so far
  cp : CheckPoint          -- (last server seq seen, last own seq acknowledged)
  applied : List Op        -- foreign operations applied, in application order

structure PReq where
  i : Nat                  -- index of the sending client
  s : Nat                  -- the sseq of the client's checkpoint when the request was made
  ops : List Op            -- its unacknowledged operations at that time

structure PResp where
  i : Nat
  ops : List Op            -- pulled operations
  cp : CheckPoint          -- (end of log after the push, the client's cseq after the push)

structure PSys where
  clients : List PClient
  log : List Op                          -- the server log; position + 1 = sseq
  cps : List (String × CheckPoint)       -- the server's record per client id
  reqs : List PReq                       -- requests ever sent
  resps : List PResp                     -- responses ever produced

/-- the server's record for client id `u` (`cp0` of `processPack`: ⟨0,0⟩ when absent) -/
def PSys.recOf (S : PSys) (u : String) : CheckPoint := (alFind u S.cps).getD ⟨0, 0⟩

/-- the datatype id / collection number under which the single modelled datatype is stored -/
def pDuid : String := "d"
def pCol : Nat := 1

/-- what a client does with a response (`WDt.applyPack`, success branch): apply `newForeignOps`, merge
    the checkpoint with `max` -/
def PClient.receive (cl : PClient) (p : PResp) : PClient :=
  { cl with applied := cl.applied ++ newForeignOps cl.cuid cl.cp p.cp p.ops,
            cp := ⟨max cl.cp.sseq p.cp.sseq, max cl.cp.cseq p.cp.cseq⟩ }

inductive PStep : PSys → PSys → Prop
  /-- client `i` issues an operation: its id, next seq; any body, any lamport/era -/
  | localOp (S : PSys) (i : Nat) (cl : PClient) (o : Op) :
      S.clients[i]? = some cl → o.id.cuid = cl.cuid → o.id.seq = cl.buf.length + 1 →
      PStep S { S with clients := S.clients.set i { cl with buf := cl.buf ++ [o] } }
  /-- client `i` sends its current request -/
  | send (S : PSys) (i : Nat) (cl : PClient) :
      S.clients[i]? = some cl →
      PStep S { S with reqs := S.reqs ++ [⟨i, cl.cp.sseq, cl.buf.drop cl.cp.cseq⟩] }
  /-- the server serves any request ever sent (`processPack`, success shape): `pushOps` runs from
      `cp1 = ⟨end of log, recorded cseq⟩`; the accepted operations are appended; the pulled operations
      are the OLD log after the request's sseq; the answer's and the recorded checkpoint is `pushOps`'
      result `cp2` = (end of log after the push, cseq after the push) (`cp3` of `processPack` equals it
      on a gapless log, see `SL.cp3_spec`) -/
  | serve (S : PSys) (r : PReq) (cl : PClient) (cp2 : CheckPoint) (docs : List OpDoc) :
      r ∈ S.reqs → S.clients[r.i]? = some cl →
      pushOps pDuid pCol ⟨S.log.length, (S.recOf cl.cuid).cseq⟩ r.ops [] = .ok (cp2, docs) →
      PStep S { S with log := S.log ++ docs.map (·.op),
                       cps := alSet cl.cuid cp2 S.cps,
                       resps := S.resps ++ [⟨r.i, S.log.drop r.s, cp2⟩] }
  /-- `pushOps` refuses: nothing changes -/
  | refuse (S : PSys) (r : PReq) (cl : PClient) (code : Nat) :
      r ∈ S.reqs → S.clients[r.i]? = some cl →
      pushOps pDuid pCol ⟨S.log.length, (S.recOf cl.cuid).cseq⟩ r.ops [] = .error code →
      PStep S S
  /-- any response ever produced is delivered to its client -/
  | deliver (S : PSys) (p : PResp) (cl : PClient) :
      p ∈ S.resps → S.clients[p.i]? = some cl →
      PStep S { S with clients := S.clients.set p.i (cl.receive p) }

def PSys.init (cuids : List String) : PSys :=
  { clients := cuids.map (fun u => ⟨u, [], ⟨0, 0⟩, []⟩), log := [], cps := [], reqs := [], resps := [] }

/-- states reachable from the initial state with distinct client ids -/
inductive PReach (cuids : List String) : PSys → Prop
  | init : cuids.Nodup → PReach cuids (PSys.init cuids)
  | step {S S' : PSys} : PReach cuids S → PStep S S' → PReach cuids S'

namespace PR

/-! ## List facts -/

/-- the operations of client `u` in `l` -/
def own (u : String) (l : List Op) : List Op := l.filter (fun o => o.id.cuid = u)
/-- the operations of the other clients in `l` (the very filter of `newForeignOps`) -/
def frn (u : String) (l : List Op) : List Op := l.filter (fun o => o.id.cuid ≠ u)

@[simp] theorem own_nil (u : String) : own u [] = [] := rfl
@[simp] theorem frn_nil (u : String) : frn u [] = [] := rfl
theorem own_append (u : String) (a b : List Op) : own u (a ++ b) = own u a ++ own u b := by simp [own]
theorem frn_append (u : String) (a b : List Op) : frn u (a ++ b) = frn u a ++ frn u b := by simp [frn]

theorem own_frn_length (u : String) (l : List Op) : (own u l).length + (frn u l).length = l.length := by
  induction l with
  | nil => rfl
  | cons x xs ih =>
    by_cases h : x.id.cuid = u
    · simp [own, frn, h] at ih ⊢; omega
    · simp [own, frn, h] at ih ⊢; omega

theorem own_all {u : String} {l : List Op} (h : ∀ o ∈ l, o.id.cuid = u) : own u l = l := by
  unfold own; exact List.filter_eq_self.2 (fun o ho => by simp [h o ho])
theorem frn_of_all_own {u : String} {l : List Op} (h : ∀ o ∈ l, o.id.cuid = u) : frn u l = [] := by
  unfold frn; exact List.filter_eq_nil_iff.2 (fun o ho => by simp [h o ho])
theorem own_of_all_frn {u : String} {l : List Op} (h : ∀ o ∈ l, o.id.cuid ≠ u) : own u l = [] := by
  unfold own; exact List.filter_eq_nil_iff.2 (fun o ho => by simp [h o ho])

theorem alFind_alSet_ne {α : Type} {k k' : String} (v : α) (l : List (String × α)) (h : k' ≠ k) :
    alFind k' (alSet k v l) = alFind k' l := by
  induction l with
  | nil => simp [alSet, alFind, h.symm]
  | cons x xs ih =>
    obtain ⟨k0, e0⟩ := x
    unfold alSet
    split
    · next hk => subst hk; simp [alFind, h.symm]
    · next hk =>
      by_cases h0 : k0 = k'
      · simp [alFind, h0]
      · simp [alFind, h0, ih]

/-! ## `pushOps` on a request cut out of a well-numbered buffer -/

/-- If the pushed operations carry consecutive seqs `c0+1, c0+2, …` and the server's record is at least
    `c0`, then `pushOps` accepts exactly the operations beyond its record — those and no others, in
    order — and moves its record to the last of them. -/
theorem pushOps_consec (duid : String) (colNum : Nat) (ops : List Op) :
    ∀ (c0 : Nat) (cp : CheckPoint) (acc : List OpDoc) (cp2 : CheckPoint) (nd : List OpDoc),
      (∀ k (h : k < ops.length), ops[k].id.seq = c0 + k + 1) → c0 ≤ cp.cseq →
      pushOps duid colNum cp ops acc = .ok (cp2, nd) →
      nd.map (·.op) = acc.map (·.op) ++ ops.drop (cp.cseq - c0) ∧
      cp2.cseq = max cp.cseq (c0 + ops.length) ∧
      cp2.sseq = cp.sseq + (ops.drop (cp.cseq - c0)).length := by
  induction ops with
  | nil =>
    intro c0 cp acc cp2 nd _ hc h
    simp [pushOps] at h
    obtain ⟨h1, h2⟩ := h
    subst h1 h2
    simp; omega
  | cons o os ih =>
    intro c0 cp acc cp2 nd hseq hc h
    have h0 : o.id.seq = c0 + 1 := hseq 0 (Nat.zero_lt_succ _)
    have hrest : ∀ k (hk : k < os.length), os[k].id.seq = (c0 + 1) + k + 1 := by
      intro k hk
      have := hseq (k + 1) (by simp; omega)
      simp at this; omega
    unfold pushOps at h
    split at h
    · next hs =>
      have hcc : cp.cseq = c0 := by omega
      obtain ⟨h1, h2, h3⟩ := ih (c0 + 1) _ _ _ _ hrest (by simp [h0]) h
      simp only [h0, Nat.sub_self, List.drop_zero] at h1 h2 h3
      refine ⟨?_, ?_, ?_⟩
      · rw [h1, hcc]; simp
      · rw [h2, hcc]; simp; omega
      · rw [h3, hcc]; simp; omega
    · split at h
      · next hs hle =>
        obtain ⟨h1, h2, h3⟩ := ih (c0 + 1) _ _ _ _ hrest (by omega) h
        have hd : cp.cseq - c0 = (cp.cseq - (c0 + 1)) + 1 := by omega
        refine ⟨?_, ?_, ?_⟩
        · rw [h1, hd]; simp
        · rw [h2]; simp; omega
        · rw [h3, hd]; simp
      · cases h

/-- under the same hypotheses `pushOps` never refuses (a retry is always served) -/
theorem pushOps_consec_ok (duid : String) (colNum : Nat) (ops : List Op) :
    ∀ (c0 : Nat) (cp : CheckPoint) (acc : List OpDoc),
      (∀ k (h : k < ops.length), ops[k].id.seq = c0 + k + 1) → c0 ≤ cp.cseq →
      ∃ cp2 nd, pushOps duid colNum cp ops acc = .ok (cp2, nd) := by
  induction ops with
  | nil => intro c0 cp acc _ _; exact ⟨cp, acc, rfl⟩
  | cons o os ih =>
    intro c0 cp acc hseq hc
    have h0 : o.id.seq = c0 + 1 := hseq 0 (Nat.zero_lt_succ _)
    have hrest : ∀ k (hk : k < os.length), os[k].id.seq = (c0 + 1) + k + 1 := by
      intro k hk
      have := hseq (k + 1) (by simp; omega)
      simp at this; omega
    unfold pushOps
    split
    · exact ih (c0 + 1) _ _ hrest (by simp [h0])
    · split
      · exact ih (c0 + 1) _ _ hrest (by omega)
      · omega

/-! ## `newForeignOps` against a log -/

theorem nfo_eq (u : String) (cur new : CheckPoint) (ops A B : List Op) (hF : frn u ops = A ++ B)
    (hk : ((new.sseq : Int) - cur.sseq) - ((new.cseq : Int) - cur.cseq) = B.length) :
    newForeignOps u cur new ops = B := by
  unfold newForeignOps
  simp only []
  have hF' : List.filter (fun o => decide (o.id.cuid ≠ u)) ops = A ++ B := hF
  rw [hF', hk]
  have : ¬ ((B.length : Int) < 0) := by omega
  simp only [this, if_false, Int.toNat_natCast, List.length_append, Nat.add_sub_cancel]
  exact List.drop_left

theorem nfo_nil (u : String) (cur new : CheckPoint) (ops : List Op)
    (hk : ((new.sseq : Int) - cur.sseq) - ((new.cseq : Int) - cur.cseq) ≤ 0) :
    newForeignOps u cur new ops = [] := by
  unfold newForeignOps
  simp only []
  split
  · simp
  · next h =>
    have : ((new.sseq : Int) - cur.sseq) - ((new.cseq : Int) - cur.cseq) = 0 := by omega
    rw [this]; simp

theorem own_take_add (u : String) (T : List Op) (s : Nat) :
    (own u T).length = (own u (T.take s)).length + (own u (T.drop s)).length := by
  conv => lhs; rw [← List.take_append_drop s T]
  rw [own_append, List.length_append]

/-- forward case: the response's checkpoint is `T.length` where `T` is the log prefix it stands for;
    positions after `e` in `T` are the client's own operations pushed by the very request; the client
    has seen `s ≥ sr` of it.  Then what the client applies is exactly the foreign part of `T` after `s`. -/
theorem nfo_forward (u : String) (T : List Op) (s c c' e sr : Nat) (hs : s ≤ T.length) (hsr : sr ≤ s)
    (hc : (own u (T.take s)).length = c) (hc' : (own u T).length = c')
    (hown : ∀ o ∈ T.drop e, o.id.cuid = u) :
    newForeignOps u ⟨s, c⟩ ⟨T.length, c'⟩ ((T.take e).drop sr) = frn u (T.drop s) := by
  have hB : frn u (T.drop s) = frn u ((T.take e).drop s) := by
    conv => lhs; rw [← List.take_append_drop e T]
    rw [List.drop_append, frn_append,
      frn_of_all_own (l := List.drop _ (T.drop e)) (fun o ho => hown o (List.mem_of_mem_drop ho)),
      List.append_nil]
  have hsplit : (T.take e).drop sr = ((T.take e).drop sr).take (s - sr) ++ (T.take e).drop s := by
    have := (List.take_append_drop (s - sr) ((T.take e).drop sr)).symm
    rw [List.drop_drop] at this
    have h2 : sr + (s - sr) = s := by omega
    rw [h2] at this
    exact this
  apply nfo_eq u _ _ _ (frn u (((T.take e).drop sr).take (s - sr)))
  · rw [hB, ← frn_append, ← hsplit]
  · have h1 := own_take_add u T s
    have h2 := own_frn_length u (T.drop s)
    have h3 : (T.drop s).length = T.length - s := List.length_drop
    simp only []
    omega

/-- backward case: a stale response (its checkpoint is behind the client's) makes the client apply nothing -/
theorem nfo_backward (u : String) (T : List Op) (s' c c' : Nat) (ops : List Op) (hs : s' ≤ T.length)
    (hc : (own u T).length = c) (hc' : (own u (T.take s')).length = c') :
    newForeignOps u ⟨T.length, c⟩ ⟨s', c'⟩ ops = [] := by
  apply nfo_nil
  have h1 := own_take_add u T s'
  have h2 := own_frn_length u (T.drop s')
  have h3 : (T.drop s').length = T.length - s' := List.length_drop
  simp only []
  omega

/-- `pull_count`: for a client at checkpoint `(s, c)` of log `L` and a response standing for the log
    prefix of length `s'` (pulled operations = positions `(sr, e]`, `sr ≤ s`, positions `(e, s']` own),
    the operations applied are exactly the foreign ones in positions `(s, s']` — none if `s' ≤ s`. -/
theorem pull_count (u : String) (L : List Op) (s c s' c' e sr : Nat)
    (hs : s ≤ L.length) (hs' : s' ≤ L.length) (he : e ≤ s') (hsr : sr ≤ s)
    (hc : (own u (L.take s)).length = c) (hc' : (own u (L.take s')).length = c')
    (hown : ∀ o ∈ (L.take s').drop e, o.id.cuid = u) :
    newForeignOps u ⟨s, c⟩ ⟨s', c'⟩ ((L.take e).drop sr) = frn u ((L.take s').drop s) := by
  by_cases hle : s ≤ s'
  · have hT : (L.take s').length = s' := by simp; omega
    have h1 : (L.take s').take s = L.take s := by rw [List.take_take]; congr 1; omega
    have h2 : (L.take s').take e = L.take e := by rw [List.take_take]; congr 1; omega
    have := nfo_forward u (L.take s') s c c' e sr (by omega) hsr (by rw [h1]; exact hc) hc' hown
    rw [hT, h2] at this
    exact this
  · have hT : (L.take s).length = s := by simp; omega
    have h1 : (L.take s).take s' = L.take s' := by rw [List.take_take]; congr 1; omega
    have := nfo_backward u (L.take s) s' c c' ((L.take e).drop sr) (by omega) hc (by rw [h1]; exact hc')
    rw [hT] at this
    rw [this]
    have : (L.take s').drop s = [] := by
      apply List.drop_eq_nil_of_le; simp; omega
    rw [this]; rfl

/-- the client side of a delivery: J2 and J3 move from `s` to `max s s'` -/
theorem deliver_j3 (u : String) (L : List Op) (s c s' c' e sr : Nat)
    (hs : s ≤ L.length) (hs' : s' ≤ L.length) (he : e ≤ s') (hsr : sr ≤ s)
    (hc : (own u (L.take s)).length = c) (hc' : (own u (L.take s')).length = c')
    (hown : ∀ o ∈ (L.take s').drop e, o.id.cuid = u) :
    frn u (L.take s) ++ newForeignOps u ⟨s, c⟩ ⟨s', c'⟩ ((L.take e).drop sr) = frn u (L.take (max s s')) ∧
    (own u (L.take (max s s'))).length = max c c' := by
  rw [pull_count u L s c s' c' e sr hs hs' he hsr hc hc' hown]
  by_cases hle : s ≤ s'
  · have hm : max s s' = s' := by omega
    have h1 : (L.take s').take s = L.take s := by rw [List.take_take]; congr 1; omega
    have hsp : L.take s' = L.take s ++ (L.take s').drop s := by
      conv => lhs; rw [← List.take_append_drop s (L.take s'), h1]
    have hcc : c ≤ c' := by
      have := own_take_add u (L.take s') s
      rw [h1] at this; omega
    rw [hm]
    refine ⟨?_, ?_⟩
    · rw [← frn_append, ← hsp]
    · rw [hc']; omega
  · have hm : max s s' = s := by omega
    have h1 : (L.take s).take s' = L.take s' := by rw [List.take_take]; congr 1; omega
    have hcc : c' ≤ c := by
      have := own_take_add u (L.take s) s'
      rw [h1] at this; omega
    have : (L.take s').drop s = [] := by
      apply List.drop_eq_nil_of_le; simp; omega
    rw [hm, this]
    refine ⟨by simp, ?_⟩
    rw [hc]; omega

/-! ## The invariant -/

/-- per client, against log `L` and the server's recorded cseq `rc` for it -/
structure CInv (L : List Op) (rc : Nat) (cl : PClient) : Prop where
  /-- the k-th own operation carries seq k and the client's id -/
  bufOk : ∀ k (h : k < cl.buf.length), cl.buf[k].id.seq = k + 1 ∧ cl.buf[k].id.cuid = cl.cuid
  /-- J1: the own operations in the log are exactly the acknowledged prefix of the buffer, in order -/
  j1 : own cl.cuid L = cl.buf.take rc
  rcLe : rc ≤ cl.buf.length
  /-- J2 -/
  sLe : cl.cp.sseq ≤ L.length
  j2 : (own cl.cuid (L.take cl.cp.sseq)).length = cl.cp.cseq
  /-- J3: exactly once, in log order -/
  j3 : cl.applied = frn cl.cuid (L.take cl.cp.sseq)

/-- a request ever sent is a segment of the client's buffer starting no later than the server's record -/
def ReqInv (rc : Nat) (cl : PClient) (r : PReq) : Prop :=
  ∃ n c0, n ≤ cl.buf.length ∧ c0 ≤ rc ∧ r.ops = (cl.buf.take n).drop c0 ∧ r.s ≤ cl.cp.sseq

/-- a response ever produced: made when the log had length `e`, pulled from `sr` (not beyond what the
    client has seen by now), positions `(e, s']` are the client's operations stored by that very
    request, and `c'` counts the client's operations up to `s'` -/
def RespInv (L : List Op) (cl : PClient) (p : PResp) : Prop :=
  ∃ e sr, p.ops = (L.take e).drop sr ∧ sr ≤ cl.cp.sseq ∧ e ≤ p.cp.sseq ∧ p.cp.sseq ≤ L.length ∧
    (∀ o ∈ (L.take p.cp.sseq).drop e, o.id.cuid = cl.cuid) ∧
    p.cp.cseq = (own cl.cuid (L.take p.cp.sseq)).length

end PR
open PR

structure PInv (S : PSys) : Prop where
  nodup : (S.clients.map (·.cuid)).Nodup
  cli : ∀ (i : Nat) (cl : PClient), S.clients[i]? = some cl → CInv S.log (S.recOf cl.cuid).cseq cl
  logCuid : ∀ o ∈ S.log, ∃ (i : Nat) (cl : PClient), S.clients[i]? = some cl ∧ cl.cuid = o.id.cuid
  recS : ∀ u, (S.recOf u).sseq ≤ S.log.length
  req : ∀ r ∈ S.reqs, ∀ cl, S.clients[r.i]? = some cl → ReqInv (S.recOf cl.cuid).cseq cl r
  resp : ∀ p ∈ S.resps, ∀ cl, S.clients[p.i]? = some cl → RespInv S.log cl p

namespace PR

theorem CInv.cLe {L : List Op} {rc : Nat} {cl : PClient} (h : CInv L rc cl) : cl.cp.cseq ≤ rc := by
  have h1 := own_take_add cl.cuid L cl.cp.sseq
  rw [h.j1, h.j2] at h1
  have : (cl.buf.take rc).length ≤ rc := by simp; omega
  omega

theorem take_append_drop_take {α : Type} (l : List α) (rc n : Nat) :
    l.take rc ++ (l.take n).drop rc = l.take (max rc n) := by
  by_cases h : n ≤ rc
  · have : (l.take n).drop rc = [] := by apply List.drop_eq_nil_of_le; simp; omega
    rw [this, List.append_nil]; congr 1; omega
  · have h1 : l.take rc = (l.take n).take rc := by rw [List.take_take]; congr 1; omega
    rw [h1, List.take_append_drop]; congr 1; omega

theorem mem_buf_cuid {L : List Op} {rc : Nat} {cl : PClient} (h : CInv L rc cl) {o : Op} (ho : o ∈ cl.buf) :
    o.id.cuid = cl.cuid := by
  obtain ⟨k, hk, rfl⟩ := List.mem_iff_getElem.1 ho
  exact (h.bufOk k hk).2

/-- the log grows by `acc`; `rc'` is the record afterwards -/
theorem CInv.append {L : List Op} {rc : Nat} {cl : PClient} (h : CInv L rc cl) (acc : List Op) (rc' : Nat)
    (hj1 : own cl.cuid (L ++ acc) = cl.buf.take rc') (hle : rc' ≤ cl.buf.length) : CInv (L ++ acc) rc' cl := by
  have ht : (L ++ acc).take cl.cp.sseq = L.take cl.cp.sseq := List.take_append_of_le_length h.sLe
  refine ⟨h.bufOk, hj1, hle, ?_, ?_, ?_⟩
  · have := h.sLe; simp; omega
  · rw [ht]; exact h.j2
  · rw [ht]; exact h.j3

theorem CInv.append_other {L : List Op} {rc : Nat} {cl : PClient} (h : CInv L rc cl) (acc : List Op)
    (hacc : ∀ o ∈ acc, o.id.cuid ≠ cl.cuid) : CInv (L ++ acc) rc cl := by
  apply h.append acc rc _ h.rcLe
  rw [own_append, own_of_all_frn hacc, List.append_nil]; exact h.j1

theorem CInv.append_own {L : List Op} {rc : Nat} {cl : PClient} (h : CInv L rc cl) (n : Nat)
    (hn : n ≤ cl.buf.length) : CInv (L ++ (cl.buf.take n).drop rc) (max rc n) cl := by
  apply h.append _ _ _ (by have := h.rcLe; omega)
  rw [own_append, h.j1, own_all, take_append_drop_take]
  intro o ho
  exact mem_buf_cuid h (List.mem_of_mem_take (List.mem_of_mem_drop ho))

theorem CInv.localOp {L : List Op} {rc : Nat} {cl : PClient} (h : CInv L rc cl) (o : Op)
    (hu : o.id.cuid = cl.cuid) (hs : o.id.seq = cl.buf.length + 1) :
    CInv L rc { cl with buf := cl.buf ++ [o] } := by
  refine ⟨?_, ?_, ?_, h.sLe, h.j2, h.j3⟩
  · intro k hk
    simp only [List.length_append, List.length_singleton] at hk
    by_cases hlt : k < cl.buf.length
    · have : (cl.buf ++ [o])[k] = cl.buf[k] := List.getElem_append_left hlt
      simp only [this]; exact h.bufOk k hlt
    · have hk' : k = cl.buf.length := by omega
      subst hk'
      have : (cl.buf ++ [o])[cl.buf.length] = o := by simp
      simp only [this]; exact ⟨hs, hu⟩
  · show own cl.cuid L = (cl.buf ++ [o]).take rc
    rw [List.take_append_of_le_length h.rcLe]; exact h.j1
  · have := h.rcLe; simp; omega

theorem CInv.receive {L : List Op} {rc : Nat} {cl : PClient} (h : CInv L rc cl) {p : PResp}
    (hp : RespInv L cl p) : CInv L rc (cl.receive p) := by
  obtain ⟨e, sr, h1, h2, h3, h4, h5, h6⟩ := hp
  have hd := deliver_j3 cl.cuid L cl.cp.sseq cl.cp.cseq p.cp.sseq p.cp.cseq e sr h.sLe h4 h3 h2 h.j2 h6.symm h5
  refine ⟨h.bufOk, h.j1, h.rcLe, ?_, ?_, ?_⟩
  · show max cl.cp.sseq p.cp.sseq ≤ L.length
    have := h.sLe; omega
  · exact hd.2
  · show cl.applied ++ newForeignOps cl.cuid cl.cp p.cp p.ops = _
    rw [h.j3, h1]; exact hd.1

theorem RespInv.append {L : List Op} {cl : PClient} {p : PResp} (h : RespInv L cl p) (acc : List Op) :
    RespInv (L ++ acc) cl p := by
  obtain ⟨e, sr, h1, h2, h3, h4, h5, h6⟩ := h
  have t1 : (L ++ acc).take e = L.take e := List.take_append_of_le_length (by omega)
  have t2 : (L ++ acc).take p.cp.sseq = L.take p.cp.sseq := List.take_append_of_le_length h4
  refine ⟨e, sr, by rw [t1]; exact h1, h2, h3, by simp; omega, by rw [t2]; exact h5, by rw [t2]; exact h6⟩

theorem RespInv.mono {L : List Op} {cl cl' : PClient} {p : PResp} (h : RespInv L cl p)
    (hu : cl'.cuid = cl.cuid) (hs : cl.cp.sseq ≤ cl'.cp.sseq) : RespInv L cl' p := by
  obtain ⟨e, sr, h1, h2, h3, h4, h5, h6⟩ := h
  exact ⟨e, sr, h1, by omega, h3, h4, by rw [hu]; exact h5, by rw [hu]; exact h6⟩

theorem ReqInv.mono {rc rc' : Nat} {cl cl' : PClient} {r : PReq} (h : ReqInv rc cl r) (hrc : rc ≤ rc')
    (x : List Op) (hb : cl'.buf = cl.buf ++ x) (hs : cl.cp.sseq ≤ cl'.cp.sseq) : ReqInv rc' cl' r := by
  obtain ⟨n, c0, h1, h2, h3, h4⟩ := h
  refine ⟨n, c0, by rw [hb]; simp; omega, by omega, ?_, by omega⟩
  rw [hb, List.take_append_of_le_length h1]; exact h3

/-! ## client indices -/

theorem idx_unique {l : List PClient} (hnd : (l.map (·.cuid)).Nodup) :
    ∀ {i j : Nat} {a b : PClient}, l[i]? = some a → l[j]? = some b → a.cuid = b.cuid → i = j := by
  induction l with
  | nil => intro i j a b hi; simp at hi
  | cons x xs ih =>
    simp only [List.map_cons, List.nodup_cons] at hnd
    intro i j a b hi hj hab
    cases i with
    | zero =>
      cases j with
      | zero => rfl
      | succ j =>
        simp at hi hj; subst hi
        exact absurd (List.mem_map.2 ⟨b, List.mem_of_getElem? hj, hab.symm⟩) hnd.1
    | succ i =>
      cases j with
      | zero =>
        simp at hi hj; subst hj
        exact absurd (List.mem_map.2 ⟨a, List.mem_of_getElem? hi, hab⟩) hnd.1
      | succ j =>
        simp at hi hj
        rw [ih hnd.2 hi hj hab]

theorem set_lookup {l : List PClient} {i j : Nat} {a b : PClient} (h : (l.set i a)[j]? = some b) :
    (j = i ∧ b = a) ∨ (j ≠ i ∧ l[j]? = some b) := by
  rw [List.getElem?_set] at h
  split at h
  · next hij =>
    split at h
    · simp at h; exact Or.inl ⟨hij.symm, h.symm⟩
    · cases h
  · next hij => exact Or.inr ⟨fun h' => hij h'.symm, h⟩

theorem map_cuid_set {l : List PClient} {i : Nat} {a b : PClient} (hi : l[i]? = some a) (hu : b.cuid = a.cuid) :
    (l.set i b).map (·.cuid) = l.map (·.cuid) := by
  apply List.ext_getElem?
  intro j
  rw [List.getElem?_map, List.getElem?_map, List.getElem?_set]
  split
  · next hij =>
    subst hij
    obtain ⟨hlt, hv⟩ := List.getElem?_eq_some_iff.1 hi
    simp [hlt, hu, hv]
  · rfl

/-! ## Preservation -/

theorem recOf_alSet_self (S : PSys) (u : String) (cp : CheckPoint) (l : List Op) (rs : List PResp) :
    ({ S with log := l, cps := alSet u cp S.cps, resps := rs } : PSys).recOf u = cp := by
  simp [PSys.recOf, SL.alFind_alSet]

theorem recOf_alSet_ne (S : PSys) {u v : String} (cp : CheckPoint) (l : List Op) (rs : List PResp) (h : v ≠ u) :
    ({ S with log := l, cps := alSet u cp S.cps, resps := rs } : PSys).recOf v = S.recOf v := by
  simp [PSys.recOf, alFind_alSet_ne _ _ h]

/-- a client changes (same id, buffer extended, checkpoint not decreased) and keeps its own invariant -/
theorem pinv_update {S : PSys} (h : PInv S) {i : Nat} {cl cl' : PClient} (hi : S.clients[i]? = some cl)
    (hu : cl'.cuid = cl.cuid) (hc : CInv S.log (S.recOf cl.cuid).cseq cl') (x : List Op)
    (hb : cl'.buf = cl.buf ++ x) (hs : cl.cp.sseq ≤ cl'.cp.sseq) :
    PInv { S with clients := S.clients.set i cl' } := by
  have hlt : i < S.clients.length := (List.getElem?_eq_some_iff.1 hi).1
  refine ⟨?_, ?_, ?_, h.recS, ?_, ?_⟩
  · show ((S.clients.set i cl').map (·.cuid)).Nodup
    rw [map_cuid_set hi hu]; exact h.nodup
  · intro j b hj
    show CInv S.log (S.recOf b.cuid).cseq b
    rcases set_lookup hj with ⟨_, hb'⟩ | ⟨_, hj'⟩
    · subst hb'; rw [hu]; exact hc
    · exact h.cli j b hj'
  · intro o ho
    obtain ⟨j, b, hj, hbo⟩ := h.logCuid o ho
    by_cases hji : j = i
    · subst hji
      rw [hi] at hj; cases hj
      exact ⟨j, cl', List.getElem?_set_self hlt, hu.trans hbo⟩
    · exact ⟨j, b, by show (S.clients.set i cl')[j]? = some b; rw [List.getElem?_set_ne (Ne.symm hji)]; exact hj, hbo⟩
  · intro r hr b hj
    show ReqInv (S.recOf b.cuid).cseq b r
    rcases set_lookup hj with ⟨hri, hb'⟩ | ⟨_, hj'⟩
    · subst hb'
      rw [hu]
      exact (h.req r hr cl (by rw [hri]; exact hi)).mono (Nat.le_refl _) x hb hs
    · exact h.req r hr b hj'
  · intro p hp b hj
    show RespInv S.log b p
    rcases set_lookup hj with ⟨hpi, hb'⟩ | ⟨_, hj'⟩
    · subst hb'
      exact (h.resp p hp cl (by rw [hpi]; exact hi)).mono hu hs
    · exact h.resp p hp b hj'

theorem pinv_localOp {S : PSys} (h : PInv S) {i : Nat} {cl : PClient} {o : Op} (hi : S.clients[i]? = some cl)
    (hu : o.id.cuid = cl.cuid) (hs : o.id.seq = cl.buf.length + 1) :
    PInv { S with clients := S.clients.set i { cl with buf := cl.buf ++ [o] } } :=
  pinv_update h hi rfl ((h.cli i cl hi).localOp o hu hs) [o] rfl (Nat.le_refl _)

theorem pinv_deliver {S : PSys} (h : PInv S) {p : PResp} {cl : PClient} (hp : p ∈ S.resps)
    (hi : S.clients[p.i]? = some cl) :
    PInv { S with clients := S.clients.set p.i (cl.receive p) } :=
  pinv_update h hi rfl ((h.cli p.i cl hi).receive (h.resp p hp cl hi)) [] (by simp [PClient.receive])
    (by show cl.cp.sseq ≤ max cl.cp.sseq p.cp.sseq; omega)

theorem pinv_send {S : PSys} (h : PInv S) {i : Nat} {cl : PClient} (hi : S.clients[i]? = some cl) :
    PInv { S with reqs := S.reqs ++ [⟨i, cl.cp.sseq, cl.buf.drop cl.cp.cseq⟩] } := by
  refine ⟨h.nodup, h.cli, h.logCuid, h.recS, ?_, h.resp⟩
  intro r hr b hj
  show ReqInv (S.recOf b.cuid).cseq b r
  rcases List.mem_append.1 hr with hr | hr
  · exact h.req r hr b hj
  · simp only [List.mem_singleton] at hr
    subst hr
    have hj' : S.clients[i]? = some b := hj
    rw [hi] at hj'; cases hj'
    exact ⟨cl.buf.length, cl.cp.cseq, Nat.le_refl _, (h.cli i cl hi).cLe, by simp, Nat.le_refl _⟩

/-- what `pushOps` does with a request ever sent, under the invariant -/
theorem serve_facts {L : List Op} {rc : Nat} {cl : PClient} {r : PReq} (hc : CInv L rc cl) (hr : ReqInv rc cl r)
    {s0 : Nat} {cp2 : CheckPoint} {docs : List OpDoc}
    (hp : pushOps pDuid pCol ⟨s0, rc⟩ r.ops [] = .ok (cp2, docs)) :
    ∃ n, n ≤ cl.buf.length ∧ docs.map (·.op) = (cl.buf.take n).drop rc ∧ cp2.cseq = max rc n ∧
      cp2.sseq = s0 + (docs.map (·.op)).length ∧ r.s ≤ cl.cp.sseq := by
  obtain ⟨n, c0, h1, h2, h3, h4⟩ := hr
  rw [h3] at hp
  have hseq : ∀ k (hk : k < ((cl.buf.take n).drop c0).length), ((cl.buf.take n).drop c0)[k].id.seq = c0 + k + 1 := by
    intro k hk
    simp only [List.getElem_drop, List.getElem_take]
    simp only [List.length_drop, List.length_take] at hk
    exact (hc.bufOk (c0 + k) (by omega)).1
  obtain ⟨g1, g2, g3⟩ := pushOps_consec _ _ _ c0 _ _ _ _ hseq h2 hp
  simp only [List.map_nil, List.nil_append, List.drop_drop] at g1 g3
  have hcc : c0 + (rc - c0) = rc := by omega
  rw [hcc] at g1 g3
  refine ⟨n, h1, g1, ?_, ?_, h4⟩
  · rw [g2]; simp only [List.length_drop, List.length_take]; omega
  · rw [g3, g1]

/-- a served request never is refused (hence a retry after a lost response always goes through) -/
theorem serve_never_refused {L : List Op} {rc : Nat} {cl : PClient} {r : PReq} (hc : CInv L rc cl)
    (hr : ReqInv rc cl r) (s0 : Nat) : ∃ cp2 docs, pushOps pDuid pCol ⟨s0, rc⟩ r.ops [] = .ok (cp2, docs) := by
  obtain ⟨n, c0, h1, h2, h3, h4⟩ := hr
  rw [h3]
  apply pushOps_consec_ok _ _ _ c0 _ _ _ h2
  intro k hk
  simp only [List.getElem_drop, List.getElem_take]
  simp only [List.length_drop, List.length_take] at hk
  exact (hc.bufOk (c0 + k) (by omega)).1

theorem pinv_serve {S : PSys} (h : PInv S) {r : PReq} {cl : PClient} {cp2 : CheckPoint} {docs : List OpDoc}
    (hr : r ∈ S.reqs) (hi : S.clients[r.i]? = some cl)
    (hp : pushOps pDuid pCol ⟨S.log.length, (S.recOf cl.cuid).cseq⟩ r.ops [] = .ok (cp2, docs)) :
    PInv { S with log := S.log ++ docs.map (·.op), cps := alSet cl.cuid cp2 S.cps,
                  resps := S.resps ++ [⟨r.i, S.log.drop r.s, cp2⟩] } := by
  have hc := h.cli r.i cl hi
  obtain ⟨n, hn, hacc, hcs, hss, hrs⟩ := serve_facts hc (h.req r hr cl hi) hp
  have hown : ∀ o ∈ docs.map (·.op), o.id.cuid = cl.cuid := by
    intro o ho; rw [hacc] at ho
    exact mem_buf_cuid hc (List.mem_of_mem_take (List.mem_of_mem_drop ho))
  -- the own client after the step
  have hcl : CInv (S.log ++ docs.map (·.op)) cp2.cseq cl := by
    rw [hacc, hcs]; exact hc.append_own n hn
  refine ⟨h.nodup, ?_, ?_, ?_, ?_, ?_⟩
  · intro j b hj
    have hj' : S.clients[j]? = some b := hj
    by_cases hb : b.cuid = cl.cuid
    · have := idx_unique h.nodup hj' hi hb
      subst this
      rw [hi] at hj'; cases hj'
      rw [recOf_alSet_self]; exact hcl
    · rw [recOf_alSet_ne _ _ _ _ hb]
      exact (h.cli j b hj').append_other _ (fun o ho => by rw [hown o ho]; exact fun e => hb e.symm)
  · intro o ho
    rcases List.mem_append.1 ho with ho | ho
    · exact h.logCuid o ho
    · exact ⟨r.i, cl, hi, (hown o ho).symm⟩
  · intro v
    show _ ≤ (S.log ++ docs.map (·.op)).length
    by_cases hv : v = cl.cuid
    · subst hv; rw [recOf_alSet_self, hss]; simp
    · rw [recOf_alSet_ne _ _ _ _ hv]; have := h.recS v; simp; omega
  · intro r' hr' b hj
    have hj' : S.clients[r'.i]? = some b := hj
    have hold := h.req r' hr' b hj'
    by_cases hb : b.cuid = cl.cuid
    · rw [hb, recOf_alSet_self]
      rw [hb] at hold
      exact hold.mono (by omega) [] (by simp) (Nat.le_refl _)
    · rw [recOf_alSet_ne _ _ _ _ hb]; exact hold
  · intro p hp' b hj
    show RespInv (S.log ++ docs.map (·.op)) b p
    rcases List.mem_append.1 hp' with hp' | hp'
    · exact (h.resp p hp' b hj).append _
    · simp only [List.mem_singleton] at hp'
      subst hp'
      have hj' : S.clients[r.i]? = some b := hj
      rw [hi] at hj'; cases hj'
      refine ⟨S.log.length, r.s, ?_, hrs, ?_, ?_, ?_, ?_⟩
      · show S.log.drop r.s = _
        rw [List.take_left]
      · show S.log.length ≤ cp2.sseq
        omega
      · show cp2.sseq ≤ _
        rw [hss]; simp
      · show ∀ o ∈ ((S.log ++ docs.map (·.op)).take cp2.sseq).drop S.log.length, _
        have : (S.log ++ docs.map (·.op)).take cp2.sseq = S.log ++ docs.map (·.op) :=
          List.take_of_length_le (by rw [hss]; simp)
        rw [this, List.drop_left]; exact hown
      · show cp2.cseq = (own cl.cuid ((S.log ++ docs.map (·.op)).take cp2.sseq)).length
        have : (S.log ++ docs.map (·.op)).take cp2.sseq = S.log ++ docs.map (·.op) :=
          List.take_of_length_le (by rw [hss]; simp)
        rw [this, hcl.j1]
        have := hcl.rcLe
        simp; omega

theorem pinv_step {S S' : PSys} (h : PInv S) (st : PStep S S') : PInv S' := by
  cases st with
  | localOp i cl o hi hu hs => exact pinv_localOp h hi hu hs
  | send i cl hi => exact pinv_send h hi
  | serve r cl cp2 docs hr hi hp => exact pinv_serve h hr hi hp
  | refuse r cl code hr hi hp => exact h
  | deliver p cl hp hi => exact pinv_deliver h hp hi

theorem pinv_init {cuids : List String} (hnd : cuids.Nodup) : PInv (PSys.init cuids) := by
  refine ⟨?_, ?_, ?_, ?_, ?_, ?_⟩
  · simp [PSys.init, List.map_map, Function.comp_def]; exact hnd
  · intro i cl hi
    simp only [PSys.init, List.getElem?_map] at hi
    cases hq : cuids[i]? with
    | none => simp [hq] at hi
    | some u =>
      simp [hq] at hi; subst hi
      exact ⟨by intro k hk; simp at hk, by simp [PSys.init], by simp [PSys.init, PSys.recOf, alFind],
             by simp [PSys.init], by simp [PSys.init], by simp [PSys.init]⟩
  · intro o ho; simp [PSys.init] at ho
  · intro u; simp [PSys.init, PSys.recOf, alFind]
  · intro r hr; simp [PSys.init] at hr
  · intro p hp; simp [PSys.init] at hp

end PR
open PR

/-- **The protocol invariant** holds in every reachable state, under any interleaving, duplication,
    loss and delay of requests and responses. -/
theorem proto_inv {cuids : List String} {S : PSys} (h : PReach cuids S) : PInv S := by
  induction h with
  | init hnd => exact pinv_init hnd
  | step _ st ih => exact pinv_step ih st

/-- J1–J3 spelled out for every client of a reachable state -/
theorem proto_inv_client {cuids : List String} {S : PSys} (h : PReach cuids S) : ∀ cl ∈ S.clients,
    -- J1
    S.log.filter (fun o => o.id.cuid = cl.cuid) = cl.buf.take (S.recOf cl.cuid).cseq ∧
    -- J2
    cl.cp.sseq ≤ S.log.length ∧
    ((S.log.take cl.cp.sseq).filter (fun o => o.id.cuid = cl.cuid)).length = cl.cp.cseq ∧
    cl.cp.cseq ≤ (S.recOf cl.cuid).cseq ∧ (S.recOf cl.cuid).cseq ≤ cl.buf.length ∧
    -- J3: exactly once, in log order
    cl.applied = (S.log.take cl.cp.sseq).filter (fun o => o.id.cuid ≠ cl.cuid) := by
  intro cl hcl
  obtain ⟨i, hi⟩ := List.mem_iff_getElem?.1 hcl
  have c := (proto_inv h).cli i cl hi
  exact ⟨c.j1, c.sLe, c.j2, c.cLe, c.rcLe, c.j3⟩

/-- liveness side of the retry: in a reachable state the server never refuses a request ever sent -/
theorem never_refused {cuids : List String} {S : PSys} (h : PReach cuids S) {r : PReq} {cl : PClient}
    (hr : r ∈ S.reqs) (hi : S.clients[r.i]? = some cl) :
    ∃ cp2 docs, pushOps pDuid pCol ⟨S.log.length, (S.recOf cl.cuid).cseq⟩ r.ops [] = .ok (cp2, docs) :=
  serve_never_refused ((proto_inv h).cli r.i cl hi) ((proto_inv h).req r hr cl hi) _

/-! ## The log holds exactly the issued-and-accepted operations, each once -/

theorem log_is_exactly_issued {cuids : List String} {S : PSys} (h : PReach cuids S) :
    ∀ o, o ∈ S.log ↔ ∃ cl ∈ S.clients, o ∈ cl.buf.take (S.recOf cl.cuid).cseq := by
  have inv := proto_inv h
  intro o
  constructor
  · intro ho
    obtain ⟨i, cl, hi, hu⟩ := inv.logCuid o ho
    refine ⟨cl, List.mem_of_getElem? hi, ?_⟩
    rw [← (inv.cli i cl hi).j1]
    exact List.mem_filter.2 ⟨ho, by simp [hu]⟩
  · rintro ⟨cl, hcl, ho⟩
    obtain ⟨i, hi⟩ := List.mem_iff_getElem?.1 hcl
    rw [← (inv.cli i cl hi).j1] at ho
    exact (List.mem_filter.1 ho).1

namespace PR

theorem nodup_of_classes (l : List Op) (h : ∀ u, ((own u l).map (·.id.seq)).Nodup) :
    (l.map (fun o => (o.id.cuid, o.id.seq))).Nodup := by
  induction l with
  | nil => simp
  | cons x xs ih =>
    simp only [List.map_cons, List.nodup_cons]
    constructor
    · intro hm
      obtain ⟨y, hy, hyx⟩ := List.mem_map.1 hm
      simp only [Prod.mk.injEq] at hyx
      have := h x.id.cuid
      simp only [own, List.filter_cons, decide_true, if_true, List.map_cons, List.nodup_cons] at this
      exact this.1 (List.mem_map.2 ⟨y, List.mem_filter.2 ⟨hy, by simp [hyx.1]⟩, hyx.2⟩)
    · apply ih
      intro u
      have := h u
      simp only [own, List.filter_cons] at this
      split at this
      · simp only [List.map_cons, List.nodup_cons] at this; exact this.2
      · exact this

theorem seq_nodup {L : List Op} {rc : Nat} {cl : PClient} (h : CInv L rc cl) :
    ((cl.buf.take rc).map (·.id.seq)).Nodup := by
  rw [List.Nodup, List.pairwise_iff_getElem]
  intro i j hi hj hij
  simp only [List.getElem_map, List.getElem_take]
  simp only [List.length_map, List.length_take] at hi hj
  rw [(h.bufOk i (by omega)).1, (h.bufOk j (by omega)).1]
  omega

end PR

/-- each accepted operation is stored exactly once: no (client, seq) pair occurs twice in the log -/
theorem log_ids_nodup {cuids : List String} {S : PSys} (h : PReach cuids S) :
    (S.log.map (fun o => (o.id.cuid, o.id.seq))).Nodup := by
  have inv := proto_inv h
  apply nodup_of_classes
  intro u
  by_cases hex : ∃ (i : Nat) (cl : PClient), S.clients[i]? = some cl ∧ cl.cuid = u
  · obtain ⟨i, cl, hi, hu⟩ := hex
    subst hu
    rw [(inv.cli i cl hi).j1]
    exact seq_nodup (inv.cli i cl hi)
  · have : own u S.log = [] := by
      apply own_of_all_frn
      intro o ho hou
      obtain ⟨i, cl, hi, hu⟩ := inv.logCuid o ho
      exact hex ⟨i, cl, hi, hu.trans hou⟩
    rw [this]; simp

theorem log_nodup {cuids : List String} {S : PSys} (h : PReach cuids S) : S.log.Nodup :=
  List.Pairwise.of_map (fun o => (o.id.cuid, o.id.seq)) (fun a b hab e => hab (by rw [e])) (log_ids_nodup h)

/-! ## Monotonicity -/

/-- a client's checkpoint never moves backwards, whatever is delivered in whatever order -/
theorem checkpoint_monotone {S S' : PSys} (st : PStep S S') :
    ∀ (i : Nat) (cl : PClient), S.clients[i]? = some cl →
      ∃ cl', S'.clients[i]? = some cl' ∧ cl'.cuid = cl.cuid ∧
        cl.cp.sseq ≤ cl'.cp.sseq ∧ cl.cp.cseq ≤ cl'.cp.cseq := by
  intro i cl hi
  have hlt : i < S.clients.length := (List.getElem?_eq_some_iff.1 hi).1
  have same : ∃ cl', S.clients[i]? = some cl' ∧ cl'.cuid = cl.cuid ∧
      cl.cp.sseq ≤ cl'.cp.sseq ∧ cl.cp.cseq ≤ cl'.cp.cseq := ⟨cl, hi, rfl, Nat.le_refl _, Nat.le_refl _⟩
  cases st with
  | localOp j cl0 o hj hu hs =>
    show ∃ cl', (S.clients.set j _)[i]? = some cl' ∧ _
    by_cases hji : j = i
    · subst hji
      rw [hi] at hj; cases hj
      exact ⟨_, List.getElem?_set_self hlt, rfl, Nat.le_refl _, Nat.le_refl _⟩
    · rw [List.getElem?_set_ne hji]; exact same
  | send j cl0 hj => exact same
  | serve r cl0 cp2 docs hr hj hp => exact same
  | refuse r cl0 code hr hj hp => exact same
  | deliver p cl0 hp hj =>
    show ∃ cl', (S.clients.set p.i _)[i]? = some cl' ∧ _
    by_cases hji : p.i = i
    · rw [hji] at hj ⊢
      rw [hi] at hj; cases hj
      refine ⟨_, List.getElem?_set_self hlt, rfl, ?_, ?_⟩
      · show cl.cp.sseq ≤ max cl.cp.sseq p.cp.sseq; omega
      · show cl.cp.cseq ≤ max cl.cp.cseq p.cp.cseq; omega
    · rw [List.getElem?_set_ne hji]; exact same

/-- the server's records never move backwards, and the log only grows by appending -/
theorem server_monotone {S S' : PSys} (inv : PInv S) (st : PStep S S') :
    (∀ u, (S.recOf u).sseq ≤ (S'.recOf u).sseq ∧ (S.recOf u).cseq ≤ (S'.recOf u).cseq) ∧
    ∃ acc, S'.log = S.log ++ acc := by
  have same : (∀ u, (S.recOf u).sseq ≤ (S.recOf u).sseq ∧ (S.recOf u).cseq ≤ (S.recOf u).cseq) ∧
      ∃ acc, S.log = S.log ++ acc := ⟨fun u => ⟨Nat.le_refl _, Nat.le_refl _⟩, [], by simp⟩
  cases st with
  | localOp j cl0 o hj hu hs => exact same
  | send j cl0 hj => exact same
  | refuse r cl0 code hr hj hp => exact same
  | deliver p cl0 hp hj => exact same
  | serve r cl0 cp2 docs hr hj hp =>
    refine ⟨?_, _, rfl⟩
    intro u
    by_cases hu : u = cl0.cuid
    · subst hu
      rw [recOf_alSet_self]
      obtain ⟨add, _, _, _, h4, _, h6⟩ := SL.pushOps_spec _ _ _ _ _ _ _ hp
      have := inv.recS cl0.cuid
      simp only [] at h4 h6
      exact ⟨by omega, h6⟩
    · rw [recOf_alSet_ne _ _ _ _ hu]; exact ⟨Nat.le_refl _, Nat.le_refl _⟩

/-! ## Convergence -/

theorem frn_eq_not (u : String) (l : List Op) :
    PR.frn u l = l.filter (fun o => !(decide (o.id.cuid = u))) := by
  unfold PR.frn; congr 1; funext o; simp

/-- at quiescence (every client has seen the whole log and has everything acknowledged) every client
    holds every operation exactly once: its own ones and each foreign one -/
theorem quiescent_converged {cuids : List String} {S : PSys} (h : PReach cuids S)
    (hq : ∀ cl ∈ S.clients, cl.cp.sseq = S.log.length ∧ cl.cp.cseq = cl.buf.length) :
    ∀ cl ∈ S.clients, (cl.applied ++ cl.buf).Perm S.log := by
  intro cl hcl
  obtain ⟨i, hi⟩ := List.mem_iff_getElem?.1 hcl
  have c := (proto_inv h).cli i cl hi
  obtain ⟨q1, q2⟩ := hq cl hcl
  have happ : cl.applied = frn cl.cuid S.log := by
    rw [c.j3, q1, List.take_length]
  have hbuf : cl.buf = own cl.cuid S.log := by
    have := c.cLe; have := c.rcLe
    rw [c.j1, List.take_of_length_le (by omega)]
  rw [happ, hbuf, frn_eq_not]
  exact List.perm_append_comm.trans (List.filter_append_perm _ _)

/-- … and in the same order everywhere: what it applied is the foreign subsequence of the log, in log
    order, and its buffer is the own subsequence of the log -/
theorem quiescent_converged_order {cuids : List String} {S : PSys} (h : PReach cuids S)
    (hq : ∀ cl ∈ S.clients, cl.cp.sseq = S.log.length ∧ cl.cp.cseq = cl.buf.length) :
    ∀ cl ∈ S.clients, cl.applied = S.log.filter (fun o => o.id.cuid ≠ cl.cuid) ∧
      cl.buf = S.log.filter (fun o => o.id.cuid = cl.cuid) := by
  intro cl hcl
  obtain ⟨i, hi⟩ := List.mem_iff_getElem?.1 hcl
  have c := (proto_inv h).cli i cl hi
  obtain ⟨q1, q2⟩ := hq cl hcl
  constructor
  · have := c.j3; rw [q1, List.take_length] at this; exact this
  · have := c.cLe; have := c.rcLe
    have h1 := c.j1
    rw [List.take_of_length_le (by omega)] at h1
    exact h1.symm

/-! ## C07: duplicates, losses and delays leave no trace -/

/-- What a client has applied (and what it counts as acknowledged) is a function of the log prefix it
    has seen: any two reachable states — reached through whatever different histories of duplicated,
    lost, delayed, reordered requests and responses — that agree on that prefix agree on `applied`. -/
theorem as_if_once {cuids₁ cuids₂ : List String} {S₁ S₂ : PSys} (h₁ : PReach cuids₁ S₁) (h₂ : PReach cuids₂ S₂)
    {cl₁ cl₂ : PClient} (m₁ : cl₁ ∈ S₁.clients) (m₂ : cl₂ ∈ S₂.clients) (hu : cl₁.cuid = cl₂.cuid)
    (hlog : S₁.log.take cl₁.cp.sseq = S₂.log.take cl₂.cp.sseq) :
    cl₁.applied = cl₂.applied ∧ cl₁.cp.cseq = cl₂.cp.cseq := by
  obtain ⟨i, hi⟩ := List.mem_iff_getElem?.1 m₁
  obtain ⟨j, hj⟩ := List.mem_iff_getElem?.1 m₂
  have c₁ := (proto_inv h₁).cli i cl₁ hi
  have c₂ := (proto_inv h₂).cli j cl₂ hj
  refine ⟨?_, ?_⟩
  · rw [c₁.j3, c₂.j3, hlog, hu]
  · rw [← c₁.j2, ← c₂.j2, hlog, hu]

/-- the same for whole states: same log and same sseq per client ⇒ same applied operations, same cseq,
    and the same acknowledged part of the buffer -/
theorem as_if_once_states {cuids₁ cuids₂ : List String} {S₁ S₂ : PSys} (h₁ : PReach cuids₁ S₁)
    (h₂ : PReach cuids₂ S₂) (hlog : S₁.log = S₂.log)
    {cl₁ cl₂ : PClient} (m₁ : cl₁ ∈ S₁.clients) (m₂ : cl₂ ∈ S₂.clients) (hu : cl₁.cuid = cl₂.cuid)
    (hs : cl₁.cp.sseq = cl₂.cp.sseq) :
    cl₁.applied = cl₂.applied ∧ cl₁.cp.cseq = cl₂.cp.cseq ∧
      cl₁.buf.take (S₁.recOf cl₁.cuid).cseq = cl₂.buf.take (S₂.recOf cl₂.cuid).cseq := by
  have := as_if_once h₁ h₂ m₁ m₂ hu (by rw [hlog, hs])
  refine ⟨this.1, this.2, ?_⟩
  obtain ⟨i, hi⟩ := List.mem_iff_getElem?.1 m₁
  obtain ⟨j, hj⟩ := List.mem_iff_getElem?.1 m₂
  rw [← ((proto_inv h₁).cli i cl₁ hi).j1, ← ((proto_inv h₂).cli j cl₂ hj).j1, hlog, hu]

/-! ## Non-vacuity: the classic failure scenario

Client `a` pushes `a1`; the response is lost.  Client `b` pushes `b1` in between.  `a` issues `a2` and
retries with `[a1, a2]` from its old checkpoint: the server skips `a1` as a duplicate, stores `a2`, and
answers with the old log `[a1, b1]` and checkpoint (3, 2); `a` applies exactly `[b1]`.  Then the lost
response arrives after all, the first request is delivered to the server a second time, and its answer
is delivered too: nothing changes. -/
namespace PEx

def a1 : Op := ⟨⟨0, 1, "a", 1⟩, .increase 1⟩
def a2 : Op := ⟨⟨0, 2, "a", 2⟩, .increase 2⟩
def b1 : Op := ⟨⟨0, 1, "b", 1⟩, .increase 5⟩

def A (buf : List Op) (cp : CheckPoint) (applied : List Op) : PClient := ⟨"a", buf, cp, applied⟩
def B (buf : List Op) (cp : CheckPoint) (applied : List Op) : PClient := ⟨"b", buf, cp, applied⟩

def reqA0 : PReq := ⟨0, 0, [a1]⟩          -- first request of a
def reqB0 : PReq := ⟨1, 0, [b1]⟩
def reqA1 : PReq := ⟨0, 0, [a1, a2]⟩      -- the retry, from the same checkpoint
def respA0 : PResp := ⟨0, [], ⟨1, 1⟩⟩     -- LOST (delivered only at the very end)
def respB0 : PResp := ⟨1, [a1], ⟨2, 1⟩⟩
def respA1 : PResp := ⟨0, [a1, b1], ⟨3, 2⟩⟩
def respA2 : PResp := ⟨0, [a1, b1, a2], ⟨3, 2⟩⟩   -- answer to the duplicate delivery of reqA0

def E1 : PSys := ⟨[A [a1] ⟨0,0⟩ [], B [] ⟨0,0⟩ []], [], [], [], []⟩
def E2 : PSys := ⟨[A [a1] ⟨0,0⟩ [], B [] ⟨0,0⟩ []], [], [], [reqA0], []⟩
def E3 : PSys := ⟨[A [a1] ⟨0,0⟩ [], B [] ⟨0,0⟩ []], [a1], [("a", ⟨1,1⟩)], [reqA0], [respA0]⟩
def E4 : PSys := ⟨[A [a1] ⟨0,0⟩ [], B [b1] ⟨0,0⟩ []], [a1], [("a", ⟨1,1⟩)], [reqA0], [respA0]⟩
def E5 : PSys := ⟨[A [a1] ⟨0,0⟩ [], B [b1] ⟨0,0⟩ []], [a1], [("a", ⟨1,1⟩)], [reqA0, reqB0], [respA0]⟩
def E6 : PSys := ⟨[A [a1] ⟨0,0⟩ [], B [b1] ⟨0,0⟩ []], [a1, b1], [("a", ⟨1,1⟩), ("b", ⟨2,1⟩)],
                  [reqA0, reqB0], [respA0, respB0]⟩
def E7 : PSys := ⟨[A [a1, a2] ⟨0,0⟩ [], B [b1] ⟨0,0⟩ []], [a1, b1], [("a", ⟨1,1⟩), ("b", ⟨2,1⟩)],
                  [reqA0, reqB0], [respA0, respB0]⟩
def E8 : PSys := ⟨[A [a1, a2] ⟨0,0⟩ [], B [b1] ⟨0,0⟩ []], [a1, b1], [("a", ⟨1,1⟩), ("b", ⟨2,1⟩)],
                  [reqA0, reqB0, reqA1], [respA0, respB0]⟩
def E9 : PSys := ⟨[A [a1, a2] ⟨0,0⟩ [], B [b1] ⟨0,0⟩ []], [a1, b1, a2], [("a", ⟨3,2⟩), ("b", ⟨2,1⟩)],
                  [reqA0, reqB0, reqA1], [respA0, respB0, respA1]⟩
def E10 : PSys := ⟨[A [a1, a2] ⟨3,2⟩ [b1], B [b1] ⟨0,0⟩ []], [a1, b1, a2], [("a", ⟨3,2⟩), ("b", ⟨2,1⟩)],
                  [reqA0, reqB0, reqA1], [respA0, respB0, respA1]⟩
-- E10 → E10 : the lost response respA0 arrives late; nothing changes
def E12 : PSys := ⟨[A [a1, a2] ⟨3,2⟩ [b1], B [b1] ⟨2,1⟩ [a1]], [a1, b1, a2], [("a", ⟨3,2⟩), ("b", ⟨2,1⟩)],
                  [reqA0, reqB0, reqA1], [respA0, respB0, respA1]⟩
def E13 : PSys := ⟨[A [a1, a2] ⟨3,2⟩ [b1], B [b1] ⟨2,1⟩ [a1]], [a1, b1, a2], [("a", ⟨3,2⟩), ("b", ⟨2,1⟩)],
                  [reqA0, reqB0, reqA1], [respA0, respB0, respA1, respA2]⟩
-- E13 → E13 : respA2 is delivered; nothing changes

theorem reach : PReach ["a", "b"] E13 := by
  have h0 : PReach ["a", "b"] (PSys.init ["a", "b"]) := .init (by decide)
  have h1 : PReach ["a", "b"] E1 := .step h0 (.localOp _ 0 (A [] ⟨0,0⟩ []) a1 rfl rfl rfl)
  have h2 : PReach ["a", "b"] E2 := .step h1 (.send _ 0 (A [a1] ⟨0,0⟩ []) rfl)
  have h3 : PReach ["a", "b"] E3 :=
    .step h2 (.serve _ reqA0 (A [a1] ⟨0,0⟩ []) ⟨1,1⟩ [⟨pDuid, pCol, 1, a1⟩] (by simp [E2]) rfl rfl)
  have h4 : PReach ["a", "b"] E4 := .step h3 (.localOp _ 1 (B [] ⟨0,0⟩ []) b1 rfl rfl rfl)
  have h5 : PReach ["a", "b"] E5 := .step h4 (.send _ 1 (B [b1] ⟨0,0⟩ []) rfl)
  have h6 : PReach ["a", "b"] E6 :=
    .step h5 (.serve _ reqB0 (B [b1] ⟨0,0⟩ []) ⟨2,1⟩ [⟨pDuid, pCol, 2, b1⟩] (by simp [E5]) rfl rfl)
  have h7 : PReach ["a", "b"] E7 := .step h6 (.localOp _ 0 (A [a1] ⟨0,0⟩ []) a2 rfl rfl rfl)
  have h8 : PReach ["a", "b"] E8 := .step h7 (.send _ 0 (A [a1, a2] ⟨0,0⟩ []) rfl)
  -- the retry is served: a1 skipped as a duplicate, a2 stored
  have h9 : PReach ["a", "b"] E9 :=
    .step h8 (.serve _ reqA1 (A [a1, a2] ⟨0,0⟩ []) ⟨3,2⟩ [⟨pDuid, pCol, 3, a2⟩] (by simp [E8]) rfl rfl)
  have h10 : PReach ["a", "b"] E10 := .step h9 (.deliver _ respA1 (A [a1, a2] ⟨0,0⟩ []) (by simp [E9]) rfl)
  -- the lost response shows up late
  have h11 : PReach ["a", "b"] E10 := .step h10 (.deliver _ respA0 (A [a1, a2] ⟨3,2⟩ [b1]) (by simp [E10]) rfl)
  have h12 : PReach ["a", "b"] E12 := .step h11 (.deliver _ respB0 (B [b1] ⟨0,0⟩ []) (by simp [E10]) rfl)
  -- the very first request is delivered to the server once more
  have h13 : PReach ["a", "b"] E13 :=
    .step h12 (.serve _ reqA0 (A [a1, a2] ⟨3,2⟩ [b1]) ⟨3,2⟩ [] (by simp [E12]) rfl rfl)
  exact .step h13 (.deliver _ respA2 (A [a1, a2] ⟨3,2⟩ [b1]) (by simp [E13]) rfl)

/-- J3 in that state, from the theorem … -/
example : ∀ cl ∈ E13.clients, cl.applied = (E13.log.take cl.cp.sseq).filter (fun o => o.id.cuid ≠ cl.cuid) :=
  fun cl hcl => (proto_inv_client reach cl hcl).2.2.2.2.2

/-- … and by evaluation: `a` applied exactly `[b1]`, `b` exactly `[a1]`, the log is `[a1, b1, a2]` -/
example : E13.log = [a1, b1, a2] ∧ E13.clients.map (·.applied) = [[b1], [a1]] ∧
    (E13.log.take 3).filter (fun o => o.id.cuid ≠ "a") = [b1] ∧
    (E13.log.take 2).filter (fun o => o.id.cuid ≠ "b") = [a1] := ⟨rfl, rfl, rfl, rfl⟩

/-- the hypotheses of `quiescent_converged` are satisfiable: one more round of `b` brings the system to rest -/
def reqB1 : PReq := ⟨1, 2, []⟩
def respB1 : PResp := ⟨1, [a2], ⟨3, 1⟩⟩
def E16 : PSys := ⟨[A [a1, a2] ⟨3,2⟩ [b1], B [b1] ⟨3,1⟩ [a1, a2]], [a1, b1, a2], [("a", ⟨3,2⟩), ("b", ⟨3,1⟩)],
                  [reqA0, reqB0, reqA1, reqB1], [respA0, respB0, respA1, respA2, respB1]⟩

theorem reach16 : PReach ["a", "b"] E16 := by
  have h14 : PReach ["a", "b"] (⟨E13.clients, E13.log, E13.cps, E13.reqs ++ [reqB1], E13.resps⟩ : PSys) :=
    .step reach (.send _ 1 (B [b1] ⟨2,1⟩ [a1]) rfl)
  have h15 : PReach ["a", "b"]
      (⟨E13.clients, E13.log, [("a", ⟨3,2⟩), ("b", ⟨3,1⟩)], E13.reqs ++ [reqB1], E13.resps ++ [respB1]⟩ : PSys) :=
    .step h14 (.serve _ reqB1 (B [b1] ⟨2,1⟩ [a1]) ⟨3,1⟩ [] (by simp [E13]) rfl rfl)
  exact .step h15 (.deliver _ respB1 (B [b1] ⟨2,1⟩ [a1]) (by simp [E13]) rfl)

example : ∀ cl ∈ E16.clients, (cl.applied ++ cl.buf).Perm E16.log :=
  quiescent_converged reach16 (by
    intro cl hcl
    simp only [E16, List.mem_cons, List.not_mem_nil, or_false] at hcl
    rcases hcl with rfl | rfl <;> exact ⟨rfl, rfl⟩)

end PEx

end Orda
