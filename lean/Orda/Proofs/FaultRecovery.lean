/-
C08 on the server model with storage faults (Model/Fault): the datatype document is the commit point
of a push.  A fault before the first write leaves the store untouched, a fault between the two writes
leaves only uncommitted operation documents that `committedView` hides, and nothing committed is ever
lost.  Core Lean only; builds on the normal form of `processPack` in Proofs/ServerLog.
-/
import Orda.Model.Fault
import Orda.Proofs.ServerLog
namespace Orda

namespace FR
open SL

/-- the leftover test of `committedView` -/
def isLeft (st : Store) (o : OpDoc) : Bool :=
  match st.getDatatype o.duid with
  | some d => decide (d.sseqEnd < o.sseq)
  | none => true

theorem committedView_eq (st : Store) :
    st.committedView =
      ({ st with operations := st.operations.filter (fun o => !isLeft st o) }, st.operations.filter (isLeft st)) := rfl

/-- the leftover test only reads the datatype documents -/
theorem isLeft_ops (st : Store) (ops : List OpDoc) : isLeft { st with operations := ops } = isLeft st := rfl

/-- under the log invariant no stored operation is a leftover -/
theorem isLeft_old {st : Store} (h : LogInv st) {o : OpDoc} (ho : o ∈ st.operations) : isLeft st o = false := by
  unfold isLeft
  cases hg : st.getDatatype o.duid with
  | none =>
    obtain ⟨d, hd, hdo⟩ := h.noOrphan o ho
    exact absurd hdo (getDatatype_none hg d hd)
  | some d' =>
    obtain ⟨hm, hduid⟩ := getDatatype_some hg
    have hlog := h.gapless d' hm
    have hmem : o.sseq ∈ (st.opsOf d'.duid).map (·.sseq) := by
      refine List.mem_map.2 ⟨o, ?_, rfl⟩
      unfold Store.opsOf
      exact List.mem_filter.2 ⟨ho, by simp [hduid]⟩
    rw [hlog, List.mem_range'_1] at hmem
    simp only [decide_eq_false_iff_not]
    omega

/-- the lookup by id finds the document with that id -/
theorem getDatatype_of_mem {st : Store} (h : LogInv st) {doc : DatatypeDoc} (hm : doc ∈ st.datatypes) :
    st.getDatatype doc.duid = some doc := by
  cases hg : st.getDatatype doc.duid with
  | none => exact absurd rfl (getDatatype_none hg doc hm)
  | some d' =>
    obtain ⟨hm', hduid⟩ := getDatatype_some hg
    rw [eq_of_nodup_duid h.duidNodup hm' hm hduid]

/-- the operation documents written by a served request lie beyond the end of log recorded in the
    store before the request (or have no datatype document there): they are leftovers until the
    datatype document is written -/
theorem isLeft_new {st : Store} {cl : ClientDoc} {col : CollectionDoc} {p : Pack} {d : Dispatch} {doc : DatatypeDoc}
    {cp2 : CheckPoint} {nd : List OpDoc} (h : LogInv st) (hs : Served st col p d doc)
    (hp : pushRes cl col p d doc = .ok (cp2, nd)) {o : OpDoc} (ho : o ∈ nd) : isLeft st o = true := by
  obtain ⟨hn1, hn2, _⟩ := pushRes_spec hs hp
  have hduid := (hn1 o ho).1
  have hseq : o.sseq ∈ nd.map (·.sseq) := List.mem_map.2 ⟨o, ho, rfl⟩
  rw [hn2, List.mem_range'_1] at hseq
  unfold isLeft
  rw [hduid]
  rcases hs.src with ⟨hf, _⟩ | hm
  · have : st.getDatatype doc.duid = none := by
      unfold Store.getDatatype
      exact List.find?_eq_none.2 (fun y hy => by simpa using hf y hy)
    rw [this]
  · rw [getDatatype_of_mem h hm]
    simp only [decide_eq_true_eq]
    omega

theorem filter_old {st : Store} (h : LogInv st) :
    st.operations.filter (fun o => !isLeft st o) = st.operations :=
  List.filter_eq_self.2 (fun o ho => by simp [isLeft_old h ho])

/-- the committed view after only the first write of the request `p` is the store before it -/
theorem cv_first_write (st : Store) (cl : ClientDoc) (col : CollectionDoc) (p : Pack) (h : LogInv st) :
    ({ st with operations := (processPack st cl col p).store.operations } : Store).committedView.1 = st := by
  rw [committedView_eq]
  simp only [isLeft_ops]
  rcases processPack_shape st cl col p with ⟨resp, he, _⟩ | ⟨d, doc, cp2, nd, he, hp, hs⟩
  · rw [he]
    simp only [filter_old h]
  · rw [he]
    simp only [okR, List.filter_append, filter_old h]
    have : nd.filter (fun o => !isLeft st o) = [] :=
      List.filter_eq_nil_iff.2 (fun o ho => by simp [isLeft_new h hs hp ho])
    rw [this, List.append_nil]

/-- the request prefix shared with `processPushPull`: collection and client checks -/
def pre (st : Store) (colName cuid : String)
    (k : ClientDoc → CollectionDoc → Store × FaultReply × List Notification) : Store × FaultReply × List Notification :=
  match st.getCollection colName with
  | none => (st, .rpcErr 5, [])
  | some col =>
    match st.getClient cuid with
    | none => (st, .rpcErr 5, [])
    | some cl => if cl.colNum ≠ col.num then (st, .rpcErr 16, []) else k cl col

/-- the store after a faulted request is the old store, the store of the fault-free request, or the
    old store plus the operation documents of the fault-free request -/
inductive Outcome (st : Store) (p : Pack) (f : FaultAt) (s : Store) : Prop where
  | same (h : s = st)
  | done (cl : ClientDoc) (col : CollectionDoc) (h : s = (processPack st cl col p).store)
      (herr : f = .updateDatatypes → (processPack st cl col p).resp.error = true)
  | half (cl : ClientDoc) (col : CollectionDoc) (hf : f = .updateDatatypes)
      (h : s = { st with operations := (processPack st cl col p).store.operations })

theorem outcome (st : Store) (colName cuid : String) (p : Pack) (f : FaultAt) :
    Outcome st p f (st.processPushPullFault colName cuid p f).1 := by
  cases f <;> simp only [Store.processPushPullFault]
  all_goals first
    | exact .same rfl
    | (split
       · exact .same rfl
       · split
         · exact .same rfl
         · split
           · exact .same rfl
           · simp only [reduceCtorEq, if_false, if_true]
             repeat' split
             all_goals first
               | exact .same rfl
               | exact .half _ _ rfl rfl
               | (refine .done _ _ rfl ?_
                  first
                    | (intro _; assumption)
                    | (intro hf; cases hf)))

end FR

open SL FR

/-- in a state satisfying the log invariant there are no leftovers: the committed view is the store itself -/
theorem committedView_of_logInv (st : Store) (h : LogInv st) : st.committedView = (st, []) := by
  rw [committedView_eq, filter_old h]
  have : st.operations.filter (isLeft st) = [] :=
    List.filter_eq_nil_iff.2 (fun o ho => by simp [isLeft_old h ho])
  rw [this]

/-- the committed view satisfies … itself: taking it twice changes nothing -/
theorem committedView_idem (st : Store) : (st.committedView.1).committedView.1 = st.committedView.1 := by
  simp only [committedView_eq, isLeft_ops, List.filter_filter, Bool.and_self]

/-- C08: a fault at any command BEFORE the first write leaves the store exactly as it was, and the
    client gets an error: an RPC error, an error pack, or a refusal pack (clean form) -/
theorem fault_before_write_unchanged' (st : Store) (colName cuid : String) (p : Pack) (f : FaultAt)
    (hf : f = .findCollections ∨ f = .findClients ∨ f = .findDatatypes ∨ f = .findOperations) :
    (st.processPushPullFault colName cuid p f).1 = st ∧
    ((∃ code, (st.processPushPullFault colName cuid p f).2.1 = .rpcErr code) ∨
     (∃ code, (st.processPushPullFault colName cuid p f).2.1 = .errPack code) ∨
     (∃ rp, (st.processPushPullFault colName cuid p f).2.1 = .normal rp ∧ rp.error = true)) := by
  rcases hf with hf | hf | hf | hf <;> subst hf <;> simp only [Store.processPushPullFault]
  · exact ⟨trivial, Or.inl ⟨_, rfl⟩⟩
  · exact ⟨trivial, Or.inl ⟨_, rfl⟩⟩
  · split
    · exact ⟨rfl, Or.inl ⟨_, rfl⟩⟩
    · split
      · exact ⟨rfl, Or.inl ⟨_, rfl⟩⟩
      · split
        · exact ⟨rfl, Or.inl ⟨_, rfl⟩⟩
        · exact ⟨rfl, Or.inr (Or.inl ⟨_, rfl⟩)⟩
  · split
    · exact ⟨rfl, Or.inl ⟨_, rfl⟩⟩
    · split
      · exact ⟨rfl, Or.inl ⟨_, rfl⟩⟩
      · split
        · exact ⟨rfl, Or.inl ⟨_, rfl⟩⟩
        · simp only [reduceCtorEq, if_false]
          split
          · next herr => exact ⟨refused_store_unchanged _ _ _ _ herr, Or.inr (Or.inr ⟨_, rfl, herr⟩)⟩
          · exact ⟨rfl, Or.inr (Or.inl ⟨_, rfl⟩)⟩

/-- C08: a fault at any command BEFORE the first write (reads, the leftover clean-up, the insert itself)
    leaves the store exactly as it was, and the client gets an error (RPC error or error pack), never silence -/
theorem fault_before_write_unchanged (st : Store) (colName cuid : String) (p : Pack) (f : FaultAt)
    (hf : f = .findCollections ∨ f = .findClients ∨ f = .findDatatypes ∨ f = .findOperations) :
    (st.processPushPullFault colName cuid p f).1 = st ∧
    (∃ code, (st.processPushPullFault colName cuid p f).2.1 = .rpcErr code) ∨
    ((st.processPushPullFault colName cuid p f).1 = st ∧
      ((∃ code, (st.processPushPullFault colName cuid p f).2.1 = .errPack code) ∨
       (∃ rp, (st.processPushPullFault colName cuid p f).2.1 = .normal rp ∧ rp.error = true))) := by
  obtain ⟨h1, h2 | h2⟩ := fault_before_write_unchanged' st colName cuid p f hf
  · exact Or.inl ⟨h1, h2⟩
  · exact Or.inr ⟨h1, h2⟩

/-- C08, the window between the two writes: when the datatype-document update fails, the only change
    is that operation documents were appended; nothing else moved -/
theorem fault_between_writes_shape (st : Store) (colName cuid : String) (p : Pack) :
    let st' := (st.processPushPullFault colName cuid p .updateDatatypes).1
    st'.datatypes = st.datatypes ∧ st'.clients = st.clients ∧ st'.collections = st.collections ∧
    st'.snapshots = st.snapshots ∧ st'.userDocs = st.userDocs ∧ st'.counter = st.counter ∧
    ∃ extra, st'.operations = st.operations ++ extra := by
  intro st'
  have hsame : ∀ s : Store, s = st → s.datatypes = st.datatypes ∧ s.clients = st.clients ∧
      s.collections = st.collections ∧ s.snapshots = st.snapshots ∧ s.userDocs = st.userDocs ∧
      s.counter = st.counter ∧ ∃ extra, s.operations = st.operations ++ extra := by
    intro s hs; subst hs; exact ⟨rfl, rfl, rfl, rfl, rfl, rfl, [], by simp⟩
  rcases outcome st colName cuid p .updateDatatypes with h | ⟨cl, col, h, herr⟩ | ⟨cl, col, _, h⟩
  · exact hsame _ h
  · exact hsame _ (h.trans (refused_store_unchanged _ _ _ _ (herr rfl)))
  · have : st' = _ := h
    rw [this]
    obtain ⟨nd, hnd, _⟩ := processPack_appends st cl col p
    exact ⟨rfl, rfl, rfl, rfl, rfl, rfl, nd, hnd⟩

/-- C08, recoverability: after that fault the COMMITTED view of the store is exactly the committed view
    before the request — the failed push is invisible to every later request and the retry starts from
    the state before it (so it behaves as if the failed request had never happened) -/
theorem fault_between_writes_invisible (st : Store) (colName cuid : String) (p : Pack) (h : LogInv st) :
    ((st.processPushPullFault colName cuid p .updateDatatypes).1).committedView.1 = st := by
  rcases outcome st colName cuid p .updateDatatypes with he | ⟨cl, col, he, herr⟩ | ⟨cl, col, _, he⟩
  · rw [he, committedView_of_logInv st h]
  · rw [he, refused_store_unchanged _ _ _ _ (herr rfl), committedView_of_logInv st h]
  · rw [he]; exact cv_first_write st cl col p h

/-- C08: nothing that was acknowledged is lost — a fault never removes or rewrites a committed
    operation document nor moves a datatype document backwards: the committed view only grows -/
theorem fault_keeps_committed (st : Store) (colName cuid : String) (p : Pack) (f : FaultAt) (h : LogInv st) :
    ∃ extra, ((st.processPushPullFault colName cuid p f).1).committedView.1.operations = st.operations ++ extra := by
  rcases outcome st colName cuid p f with he | ⟨cl, col, he, _⟩ | ⟨cl, col, _, he⟩
  · rw [he, committedView_of_logInv st h]; exact ⟨[], by simp⟩
  · rw [he, committedView_of_logInv _ (logInv_processPack st cl col p h)]
    obtain ⟨nd, hnd, _⟩ := processPack_appends st cl col p
    exact ⟨nd, hnd⟩
  · rw [he, cv_first_write st cl col p h]; exact ⟨[], by simp⟩

/-- C08: the committed view after ANY faulted request satisfies the log invariant -/
theorem logInv_after_fault (st : Store) (colName cuid : String) (p : Pack) (f : FaultAt) (h : LogInv st) :
    LogInv ((st.processPushPullFault colName cuid p f).1).committedView.1 := by
  rcases outcome st colName cuid p f with he | ⟨cl, col, he, _⟩ | ⟨cl, col, _, he⟩
  · rw [he, committedView_of_logInv st h]; exact h
  · rw [he, committedView_of_logInv _ (logInv_processPack st cl col p h)]
    exact logInv_processPack st cl col p h
  · rw [he, cv_first_write st cl col p h]; exact h

/-- a fault during the post-response snapshot update does not touch what the request committed -/
theorem background_fault_commits (st : Store) (colName cuid : String) (p : Pack) (col : CollectionDoc) (cl : ClientDoc)
    (hcol : st.getCollection colName = some col) (hcl : st.getClient cuid = some cl) (hnum : cl.colNum = col.num)
    (f : FaultAt) (hf : f = .background ∨ f = .bgUserDoc) :
    (st.processPushPullFault colName cuid p f).1 = (processPack st cl col p).store := by
  rcases hf with hf | hf <;> subst hf <;>
    simp only [Store.processPushPullFault, hcol, hcl, hnum, ne_eq, not_true_eq_false, if_false, reduceCtorEq] <;>
    split <;> rfl

end Orda
