import Orda.Proofs.ListNetOrder
import Orda.Proofs.SeqSnap
set_option linter.unusedSimpArgs false
set_option linter.unusedVariables false
namespace Orda.LTx
open Orda Orda.RF Orda.LNet

/-! ## 0. list operations never panic where the system uses them -/

/-! ### local walks succeed when the position is inside the live elements -/

theorem liveCount_nonneg (l : List RNode) : 0 ≤ liveCount l := by
  unfold liveCount; omega

theorem liveCount_nil : liveCount [] = 0 := rfl

theorem insertAtLive_some (ns : List RNode) : ∀ (p : Nat) (l : List RNode), (p : Int) ≤ liveCount l →
    ∃ l', insertAtLive RNode.isLive ns p l = some l'
  | 0, l, _ => ⟨ns ++ l, by simp [insertAtLive]⟩
  | p + 1, [], h => by rw [liveCount_nil] at h; omega
  | p + 1, x :: xs, h => by
    rw [liveCount_cons] at h
    unfold insertAtLive
    by_cases hl : x.isLive = true
    · simp only [hl, if_true] at h ⊢
      by_cases hp : p = 0
      · simp [hp]
      · simp only [hp, if_false]
        obtain ⟨l', h'⟩ := insertAtLive_some ns p xs (by omega)
        exact ⟨_, by rw [h']; rfl⟩
    · have hl' : x.isLive = false := by simpa using hl
      simp only [hl', Bool.false_eq_true, if_false] at h ⊢
      obtain ⟨l', h'⟩ := insertAtLive_some ns (p + 1) xs (by omega)
      exact ⟨_, by rw [h']; rfl⟩

theorem nthLive_some : ∀ (l : List RNode) (p : Nat), (p : Int) < liveCount l →
    ∃ x, nthLive RNode.isLive p l = some x
  | [], p, h => by rw [liveCount_nil] at h; omega
  | x :: xs, p, h => by
    rw [liveCount_cons] at h
    unfold nthLive
    by_cases hl : x.isLive = true
    · simp only [hl, if_true] at h ⊢
      by_cases hp : p = 0
      · simp [hp]
      · simp only [hp, if_false]
        exact nthLive_some xs (p - 1) (by omega)
    · have hl' : x.isLive = false := by simpa using hl
      simp only [hl', Bool.false_eq_true, if_false] at h ⊢
      exact nthLive_some xs p (by omega)

theorem mapLiveFrom_some (f : RNode → Ts → RNode) : ∀ (l : List RNode) (p : Nat) (ts : List Ts),
    ((p + ts.length : Nat) : Int) ≤ liveCount l → ∃ res, mapLiveFrom f p ts l = some res
  | l, p, [], _ => ⟨_, by unfold mapLiveFrom; rfl⟩
  | [], p, t :: ts, h => by rw [liveCount_nil] at h; simp at h; omega
  | x :: xs, p, t :: ts, h => by
    rw [liveCount_cons] at h
    unfold mapLiveFrom
    by_cases hl : x.isLive = true
    · simp only [hl, if_true] at h ⊢
      by_cases hp : p = 0
      · simp only [hp, if_true]
        obtain ⟨res, h'⟩ := mapLiveFrom_some f xs 0 ts (by simp at h ⊢; omega)
        exact ⟨_, by rw [h']; rfl⟩
      · simp only [hp, if_false]
        obtain ⟨res, h'⟩ := mapLiveFrom_some f xs (p - 1) (t :: ts) (by simp at h ⊢; omega)
        exact ⟨_, by rw [h']; rfl⟩
    · have hl' : x.isLive = false := by simpa using hl
      simp only [hl', Bool.false_eq_true, if_false] at h ⊢
      obtain ⟨res, h'⟩ := mapLiveFrom_some f xs p (t :: ts) (by simp at h ⊢; omega)
      exact ⟨_, by rw [h']; rfl⟩

theorem updGo_some : ∀ (l : List RNode) (p : Nat) (st : List (Ts × JVal)),
    ((p + st.length : Nat) : Int) ≤ liveCount l → ∃ res, Rga.updateLocal.go p st l = some res
  | l, p, [], _ => ⟨_, by unfold Rga.updateLocal.go; rfl⟩
  | [], p, tv :: st, h => by rw [liveCount_nil] at h; simp at h; omega
  | x :: xs, p, (t, v) :: st, h => by
    rw [liveCount_cons] at h
    unfold Rga.updateLocal.go
    by_cases hl : x.isLive = true
    · simp only [hl, if_true] at h ⊢
      by_cases hp : p = 0
      · simp only [hp, if_true]
        obtain ⟨res, h'⟩ := updGo_some xs 0 st (by simp at h ⊢; omega)
        exact ⟨_, by rw [h']; rfl⟩
      · simp only [hp, if_false]
        obtain ⟨res, h'⟩ := updGo_some xs (p - 1) ((t, v) :: st) (by simp at h ⊢; omega)
        exact ⟨_, by rw [h']; rfl⟩
    · have hl' : x.isLive = false := by simpa using hl
      simp only [hl', Bool.false_eq_true, if_false] at h ⊢
      obtain ⟨res, h'⟩ := updGo_some xs p ((t, v) :: st) (by simp at h ⊢; omega)
      exact ⟨_, by rw [h']; rfl⟩

/-- the touched nodes of a local update are as many as the values -/
theorem updGo_length : ∀ (l : List RNode) (p : Nat) (st : List (Ts × JVal)) (l' tc : List RNode),
    Rga.updateLocal.go p st l = some (l', tc) → tc.length = st.length
  | l, p, [], l', tc, h => by
    unfold Rga.updateLocal.go at h
    simp only [Option.some.injEq, Prod.mk.injEq] at h
    rw [← h.2]; rfl
  | [], p, tv :: st, l', tc, h => by unfold Rga.updateLocal.go at h; cases h
  | x :: xs, p, (t, v) :: st, l', tc, h => by
    unfold Rga.updateLocal.go at h
    split at h
    · split at h
      · cases hr : Rga.updateLocal.go 0 st xs with
        | none => rw [hr] at h; cases h
        | some res =>
          obtain ⟨l'', tc'⟩ := res
          rw [hr] at h
          simp only [Option.map_some, Option.some.injEq, Prod.mk.injEq] at h
          rw [← h.2]
          simp [updGo_length xs 0 st l'' tc' hr]
      · cases hr : Rga.updateLocal.go (p - 1) ((t, v) :: st) xs with
        | none => rw [hr] at h; cases h
        | some res =>
          obtain ⟨l'', tc'⟩ := res
          rw [hr] at h
          simp only [Option.map_some, Option.some.injEq, Prod.mk.injEq] at h
          rw [← h.2]
          exact updGo_length xs (p - 1) _ l'' tc' hr
    · cases hr : Rga.updateLocal.go p ((t, v) :: st) xs with
      | none => rw [hr] at h; cases h
      | some res =>
        obtain ⟨l'', tc'⟩ := res
        rw [hr] at h
        simp only [Option.map_some, Option.some.injEq, Prod.mk.injEq] at h
        rw [← h.2]
        exact updGo_length xs p _ l'' tc' hr

theorem validateRange_none {l : Rga} {pos num : Int} (h : l.validateRange pos num = none) :
    0 ≤ pos ∧ 1 ≤ num ∧ pos + num ≤ l.size := by
  unfold Rga.validateRange at h
  split at h
  · cases h
  · split at h
    · cases h
    · split at h
      · cases h
      · rename_i h1 h2 h3
        simp only [Bool.or_eq_true, decide_eq_true_eq, not_or] at h3
        omega

end Orda.LTx
