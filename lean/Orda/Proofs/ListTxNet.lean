/-
Transactions over the server log are all-or-nothing on every replica (C09 end to end, List datatype).
Namespace `Orda.LTx`.  Reuses `LNet.Node`, `LNet.Net`, `LNet.Net.init`, `LNet.CuidsDistinct`, `LNet.SameOps`, `LNet.Quiescent`.

THE SYSTEM (§1).  `Step`:
  * `call i c`      — ANY public call: `r := (r.call c).1`;
  * `tx i tag calls stopOnErr failAtEnd` — a user transaction with ANY body: `r := (r.txCalls tag calls stopOnErr failAtEnd).1`;
  * `pushAll i`     — ALL unpushed operations of node `i`'s buffer go to the end of the log, in buffer order;
  * `pullAll i`     — node `i` consumes the whole rest of the log: the entries of the others (`pullOps`), in log order, go
                      through ONE `Replica.receive`; `pulled := log.length`.
`Reach cuid n net`: reachable from `n` fresh subscribers; `Reach.init` carries `CuidsDistinct cuid n`.  No step has a side
condition.  `act`/`run`: executable form.  `IsUnit u`: `u = [o]`, `o` not a header, or
`u = ⟨id, .transaction tag (k+1)⟩ :: ops` with `ops.length = k` and no header in `ops` (`k = 0`: the lone header of an empty
transaction).  `Applied net i e`: entry `e` is among the foreign entries node `i` has consumed (`oth i (log.take pulled)`).

RESULTS (§7), no hypothesis beyond `Reach`:
  * `ltx_failed_tx_is_noop` (+ `_net`): a transaction that ends with an error leaves identifier, state, buffer, checkpoint
    as they were (`net' = net` itself is FALSE: the rollback re-bases `rbOps`/`rbSnap`, see `Ex`);
    `ltx_tx_never_panics`: in reachable states a transaction ends `.ok ()` or `.err _`;
  * `ltx_committed_tx_is_one_unit`: `.ok ()` ⇒ the buffer grew by exactly `header :: ops`, an `IsUnit`;
  * `ltx_log_is_units`: the log is a concatenation of units;
  * `ltx_all_or_nothing`: ONE decomposition of the log such that every node has applied all or none of every foreign unit
    (`ltx_all_or_nothing_pos`: `pulled` never sits inside a unit; `ltx_log_nodup`); `ltx_receive_ok`: `receive` returns
    `.ok ()` on what a node pulls, always; `ltx_nodes_applied_ops`: ties `pulled` to the state;
  * `ltx_same_operations_same_state`, `ltx_quiescent_converged` (`sameOps_of_caught_up`, `sameOps_of_quiescent`),
    `ltx_can_quiesce` (quiescence is reachable from every state).

HOW (convergence): NOT by redoing `ListNet`, and not by a step-for-step simulation into `LNet.Reach` either (impossible as
stated: a header consumes an operation identifier, so the replicas of the two systems would stamp their operations
differently).  Instead `ListNet`'s INVARIANT `LNet.Inv` is reused as a black box on the header-erased state:
`TInv.sim : ∃ net0 ap, LNet.Inv cuid n net0 ap ∧ Abs net net0` (`ltx_erased_satisfies_lnet_inv`), where `Abs` says `net0` has
the same states and clocks, the buffers / log without headers, and the counters of the non-header entries.  `LNet.Inv` is
closed under `ListNet`'s steps from ANY state satisfying it (`Inv.call`, `Inv.push`, `Inv.pull`) and under clock bumps
(`nodeInv_noop`: the invariant bounds clocks only from below).  A call is `Inv.call`; `pushAll` is `inv_pushes`; a
committed transaction is a clock bump (the header) followed by the `call`s of its successful operations (`body_sim`, on an
abstract replica with the same state and clock); a failed one changes nothing (`tx_cases`); `pullAll` is `inv_pulls`
followed by a clock bump (`recv_sim`: `receive` applies every unit, executes a lone header — clock only —, skips the others).
§0: validated local list operations never panic when Size = number of live elements (`execLocal_prepared_no_panic`), remote
ones never when the body is `RemoteSafe` — needed because a panic in a transaction body would leave operations in the state
that are not in the buffer.
-/
import Orda.Proofs.ListNetOrder
import Orda.Proofs.SeqSnap
set_option linter.unusedSimpArgs false
set_option linter.unusedVariables false
namespace Orda.LTx
open Orda Orda.RF Orda.LNet

/-! ## 0. list operations never panic where the system uses them -/

/-! ### local walks succeed when the position is inside the live elements -/

theorem liveCount_nonneg (l : List RNode) : 0 ≤ liveCount l := by
  unfold liveCount; omega

theorem liveCount_nil : liveCount [] = 0 := rfl

theorem insertAtLive_some (ns : List RNode) : ∀ (p : Nat) (l : List RNode), (p : Int) ≤ liveCount l →
    ∃ l', insertAtLive RNode.isLive ns p l = some l'
  | 0, l, _ => ⟨ns ++ l, by simp [insertAtLive]⟩
  | p + 1, [], h => by rw [liveCount_nil] at h; omega
  | p + 1, x :: xs, h => by
    rw [liveCount_cons] at h
    unfold insertAtLive
    by_cases hl : x.isLive = true
    · simp only [hl, if_true] at h ⊢
      by_cases hp : p = 0
      · simp [hp]
      · simp only [hp, if_false]
        obtain ⟨l', h'⟩ := insertAtLive_some ns p xs (by omega)
        exact ⟨_, by rw [h']; rfl⟩
    · have hl' : x.isLive = false := by simpa using hl
      simp only [hl', Bool.false_eq_true, if_false] at h ⊢
      obtain ⟨l', h'⟩ := insertAtLive_some ns (p + 1) xs (by omega)
      exact ⟨_, by rw [h']; rfl⟩

theorem nthLive_some : ∀ (l : List RNode) (p : Nat), (p : Int) < liveCount l →
    ∃ x, nthLive RNode.isLive p l = some x
  | [], p, h => by rw [liveCount_nil] at h; omega
  | x :: xs, p, h => by
    rw [liveCount_cons] at h
    unfold nthLive
    by_cases hl : x.isLive = true
    · simp only [hl, if_true] at h ⊢
      by_cases hp : p = 0
      · simp [hp]
      · simp only [hp, if_false]
        exact nthLive_some xs (p - 1) (by omega)
    · have hl' : x.isLive = false := by simpa using hl
      simp only [hl', Bool.false_eq_true, if_false] at h ⊢
      exact nthLive_some xs p (by omega)

theorem mapLiveFrom_some (f : RNode → Ts → RNode) : ∀ (l : List RNode) (p : Nat) (ts : List Ts),
    ((p + ts.length : Nat) : Int) ≤ liveCount l → ∃ res, mapLiveFrom f p ts l = some res
  | l, p, [], _ => ⟨_, by unfold mapLiveFrom; rfl⟩
  | [], p, t :: ts, h => by rw [liveCount_nil] at h; simp at h; omega
  | x :: xs, p, t :: ts, h => by
    rw [liveCount_cons] at h
    unfold mapLiveFrom
    by_cases hl : x.isLive = true
    · simp only [hl, if_true] at h ⊢
      by_cases hp : p = 0
      · simp only [hp, if_true]
        obtain ⟨res, h'⟩ := mapLiveFrom_some f xs 0 ts (by simp at h ⊢; omega)
        exact ⟨_, by rw [h']; rfl⟩
      · simp only [hp, if_false]
        obtain ⟨res, h'⟩ := mapLiveFrom_some f xs (p - 1) (t :: ts) (by simp at h ⊢; omega)
        exact ⟨_, by rw [h']; rfl⟩
    · have hl' : x.isLive = false := by simpa using hl
      simp only [hl', Bool.false_eq_true, if_false] at h ⊢
      obtain ⟨res, h'⟩ := mapLiveFrom_some f xs p (t :: ts) (by simp at h ⊢; omega)
      exact ⟨_, by rw [h']; rfl⟩

theorem updGo_some : ∀ (l : List RNode) (p : Nat) (st : List (Ts × JVal)),
    ((p + st.length : Nat) : Int) ≤ liveCount l → ∃ res, Rga.updateLocal.go p st l = some res
  | l, p, [], _ => ⟨_, by unfold Rga.updateLocal.go; rfl⟩
  | [], p, tv :: st, h => by rw [liveCount_nil] at h; simp at h; omega
  | x :: xs, p, (t, v) :: st, h => by
    rw [liveCount_cons] at h
    unfold Rga.updateLocal.go
    by_cases hl : x.isLive = true
    · simp only [hl, if_true] at h ⊢
      by_cases hp : p = 0
      · simp only [hp, if_true]
        obtain ⟨res, h'⟩ := updGo_some xs 0 st (by simp at h ⊢; omega)
        exact ⟨_, by rw [h']; rfl⟩
      · simp only [hp, if_false]
        obtain ⟨res, h'⟩ := updGo_some xs (p - 1) ((t, v) :: st) (by simp at h ⊢; omega)
        exact ⟨_, by rw [h']; rfl⟩
    · have hl' : x.isLive = false := by simpa using hl
      simp only [hl', Bool.false_eq_true, if_false] at h ⊢
      obtain ⟨res, h'⟩ := updGo_some xs p ((t, v) :: st) (by simp at h ⊢; omega)
      exact ⟨_, by rw [h']; rfl⟩

/-- the touched nodes of a local update are as many as the values -/
theorem updGo_length : ∀ (l : List RNode) (p : Nat) (st : List (Ts × JVal)) (l' tc : List RNode),
    Rga.updateLocal.go p st l = some (l', tc) → tc.length = st.length
  | l, p, [], l', tc, h => by
    unfold Rga.updateLocal.go at h
    simp only [Option.some.injEq, Prod.mk.injEq] at h
    rw [← h.2]; rfl
  | [], p, tv :: st, l', tc, h => by unfold Rga.updateLocal.go at h; cases h
  | x :: xs, p, (t, v) :: st, l', tc, h => by
    unfold Rga.updateLocal.go at h
    split at h
    · split at h
      · cases hr : Rga.updateLocal.go 0 st xs with
        | none => rw [hr] at h; cases h
        | some res =>
          obtain ⟨l'', tc'⟩ := res
          rw [hr] at h
          simp only [Option.map_some, Option.some.injEq, Prod.mk.injEq] at h
          rw [← h.2]
          simp [updGo_length xs 0 st l'' tc' hr]
      · cases hr : Rga.updateLocal.go (p - 1) ((t, v) :: st) xs with
        | none => rw [hr] at h; cases h
        | some res =>
          obtain ⟨l'', tc'⟩ := res
          rw [hr] at h
          simp only [Option.map_some, Option.some.injEq, Prod.mk.injEq] at h
          rw [← h.2]
          exact updGo_length xs (p - 1) _ l'' tc' hr
    · cases hr : Rga.updateLocal.go p ((t, v) :: st) xs with
      | none => rw [hr] at h; cases h
      | some res =>
        obtain ⟨l'', tc'⟩ := res
        rw [hr] at h
        simp only [Option.map_some, Option.some.injEq, Prod.mk.injEq] at h
        rw [← h.2]
        exact updGo_length xs p _ l'' tc' hr

theorem validateRange_none {l : Rga} {pos num : Int} (h : l.validateRange pos num = none) :
    0 ≤ pos ∧ 1 ≤ num ∧ pos + num ≤ l.size := by
  unfold Rga.validateRange at h
  split at h
  · cases h
  · split at h
    · cases h
    · split at h
      · cases h
      · rename_i h1 h2 h3
        simp only [Bool.or_eq_true, decide_eq_true_eq, not_or] at h3
        omega


/-- what a call on a list returns without executing anything is never a panic -/
theorem prepare_list_done {l : Rga} {c : Call} {o : Outcome Ret} (h : c.prepare (.list l) = .done o) :
    o.isPanic = false := by
  cases c <;> simp only [Call.prepare] at h
  all_goals (try split at h) <;> (try split at h) <;>
    first
      | (cases h; done)
      | (simp only [Prep.done.injEq] at h; subst h; rfl)

theorem anchorAt_some (l : Rga) (p : Nat) (h : (p : Int) ≤ liveCount l.nodes) : ∃ a, l.anchorAt p = some a := by
  unfold Rga.anchorAt
  by_cases hp : p = 0
  · simp [hp]
  · simp only [hp, if_false]
    obtain ⟨x, hx⟩ := nthLive_some l.nodes (p - 1) (by omega)
    exact ⟨_, by rw [hx]; rfl⟩

/-- **a validated local list operation never panics** when the stored Size is the number of live elements -/
theorem execLocal_prepared_no_panic {l : Rga} (hsz : l.size = liveCount l.nodes) {c : Call} {b : OpBody}
    {post : Ret → Ret} (h : c.prepare (.list l) = .op b post) (ts : Ts) (w : String) :
    execLocal (.list l) ts b ≠ .panic w := by
  cases c with
  | linsert pos vs =>
    simp only [Call.prepare] at h
    cases hv : l.validateInsert pos with
    | some c => rw [hv] at h; cases h
    | none =>
      rw [hv] at h
      simp only at h
      split at h
      · cases h
      · simp only [Prep.op.injEq] at h
        obtain ⟨rfl, _⟩ := h
        obtain ⟨h0, h1⟩ := validateInsert_none hv
        obtain ⟨a, ha⟩ := anchorAt_some l pos.toNat (by omega)
        obtain ⟨l', hl'⟩ := insertAtLive_some (mkNodes ts vs) pos.toNat l.nodes (by omega)
        simp [execLocal, Rga.insertLocal, ha, hl']
  | ldelete pos =>
    simp only [Call.prepare] at h
    cases hv : l.validateRange pos 1 with
    | some c => rw [hv] at h; cases h
    | none =>
      rw [hv] at h
      simp only [Prep.op.injEq] at h
      obtain ⟨rfl, _⟩ := h
      obtain ⟨h0, h1, h2⟩ := validateRange_none hv
      obtain ⟨res, hr⟩ := mapLiveFrom_some (fun x t => { x with v := none, t := t }) l.nodes pos.toNat
        (delimSeq ts 1) (by rw [delimSeq_length]; omega)
      simp [execLocal, Rga.deleteLocal, hr]
  | ldeleteMany pos n =>
    simp only [Call.prepare] at h
    cases hv : l.validateRange pos n with
    | some c => rw [hv] at h; cases h
    | none =>
      rw [hv] at h
      simp only [Prep.op.injEq] at h
      obtain ⟨rfl, _⟩ := h
      obtain ⟨h0, h1, h2⟩ := validateRange_none hv
      obtain ⟨res, hr⟩ := mapLiveFrom_some (fun x t => { x with v := none, t := t }) l.nodes pos.toNat
        (delimSeq ts n.toNat) (by rw [delimSeq_length]; omega)
      simp [execLocal, Rga.deleteLocal, hr]
  | lupdate pos vs =>
    simp only [Call.prepare] at h
    cases hv : l.validateRange pos vs.length with
    | some c => rw [hv] at h; cases h
    | none =>
      rw [hv] at h
      simp only at h
      split at h
      · cases h
      · simp only [Prep.op.injEq] at h
        obtain ⟨rfl, _⟩ := h
        obtain ⟨h0, h1, h2⟩ := validateRange_none hv
        obtain ⟨res, hr⟩ := updGo_some l.nodes pos.toNat ((delimSeq ts vs.length).zip vs)
          (by rw [List.length_zip, delimSeq_length]; simp; omega)
        simp [execLocal, Rga.updateLocal, hr]
  | inc d =>
    simp only [Call.prepare, Prep.op.injEq] at h
    obtain ⟨rfl, _⟩ := h
    simp [execLocal]
  | mput k v =>
    simp only [Call.prepare] at h
    split at h
    · cases h
    · simp only [Prep.op.injEq] at h
      obtain ⟨rfl, _⟩ := h
      simp [execLocal]
  | mremove k =>
    simp only [Call.prepare] at h
    split at h
    · cases h
    · simp only [Prep.op.injEq] at h
      obtain ⟨rfl, _⟩ := h
      simp [execLocal]
  | _ => simp only [Call.prepare] at h; first | cases h | (split at h <;> cases h)

/-! ### remote executions -/

theorem updateRemote_go_some : ∀ (tgs : List Ts) (vs : List JVal) (t : Ts) (l : List RNode),
    tgs.length ≤ vs.length → ∃ l', Rga.updateRemote.go tgs vs t l = some l'
  | [], vs, t, l, _ => ⟨l, by unfold Rga.updateRemote.go; rfl⟩
  | tg :: tgs, [], t, l, h => by simp at h
  | tg :: tgs, v :: vs, t, l, h => by
    unfold Rga.updateRemote.go
    exact updateRemote_go_some tgs vs _ _ (by simpa using h)

/-- the wire bodies whose remote execution on a list cannot panic: no insert without anchor, no update with fewer
    values than targets (transaction headers and every other body included) -/
def RemoteSafe (b : OpBody) : Prop :=
  (∀ p vs, b ≠ .insert p none vs) ∧ (∀ p tg vs, b = .update p tg vs → tg.length ≤ vs.length)

theorem execRemote_list_safe (l : Rga) (ts : Ts) (b : OpBody) (h : RemoteSafe b) :
    ∃ l', execRemote (.list l) ts b = .ok (.list l') := by
  cases b with
  | snapshot s => cases s <;> exact ⟨_, rfl⟩
  | insert p t vs =>
    cases t with
    | none => exact absurd rfl (h.1 p vs)
    | some a =>
      simp only [execRemote]
      unfold Rga.insertRemote
      cases insertAfterId RNode.o a (mkNodes ts vs) l.nodes <;> exact ⟨_, rfl⟩
  | update p tg vs =>
    simp only [execRemote]
    unfold Rga.updateRemote
    obtain ⟨l', hl'⟩ := updateRemote_go_some tg vs ts l.nodes (h.2 p tg vs rfl)
    simp only [hl']
    exact ⟨_, rfl⟩
  | delete p k tg => exact ⟨_, rfl⟩
  | _ => exact ⟨_, rfl⟩

theorem execRemoteBase_safe (r : Replica) (l : Rga) (hs : r.state = .list l) (o : Op) (h : RemoteSafe o.body) :
    (r.execRemoteBase o).2 = none ∧ ∃ l', (r.execRemoteBase o).1.state = .list l' := by
  obtain ⟨l', hl'⟩ := execRemote_list_safe l o.id.ts o.body h
  simp [Replica.execRemoteBase, hs, hl']

/-- what a local list execution queues is safe to execute remotely -/
theorem localOp_safe {l l' : Rga} {ts : Ts} {b : OpBody} (h : LocalOp l ts b l') :
    RemoteSafe b ∧ b.isMeta = false ∧ (∀ tag k, b ≠ .transaction tag k) := by
  rcases h with ⟨pos, a, vs, rfl, _⟩ | ⟨pos, num, tg, old, rfl, _⟩ | ⟨pos, tg, vs, old, rfl, hl⟩
  · exact ⟨⟨fun p vs' e => (by cases e), fun p tg vs' e => (by cases e)⟩, rfl, fun _ _ e => (by cases e)⟩
  · exact ⟨⟨fun p vs' e => (by cases e), fun p tg vs' e => (by cases e)⟩, rfl, fun _ _ e => (by cases e)⟩
  · refine ⟨⟨fun p vs' e => (by cases e), ?_⟩, rfl, fun _ _ e => (by cases e)⟩
    intro p tg' vs' e
    simp only [OpBody.update.injEq] at e
    obtain ⟨_, rfl, rfl⟩ := e
    unfold Rga.updateLocal at hl
    simp only at hl
    cases hr : Rga.updateLocal.go pos ((delimSeq ts vs.length).zip vs) l.nodes with
    | none => rw [hr] at hl; cases hl
    | some res =>
      obtain ⟨l'', tc⟩ := res
      rw [hr] at hl
      simp only [Outcome.ok.injEq, Prod.mk.injEq] at hl
      obtain ⟨_, rfl, _⟩ := hl
      have := updGo_length _ _ _ _ _ hr
      rw [List.length_zip, delimSeq_length] at this
      simp [this]


/-! ## 1. the system: list replicas with transactions around ONE server log, whole-buffer pushes, whole-log pulls -/

/-- a transaction header -/
def isHdr (o : Op) : Bool :=
  match o.body with
  | .transaction _ _ => true
  | _ => false

/-- a unit of the log: ONE plain operation, or a header announcing `k + 1` followed by `k` plain operations -/
def IsUnit (u : List Op) : Prop :=
  (∃ o, u = [o] ∧ isHdr o = false) ∨
  (∃ id tag ops, u = ⟨id, .transaction tag ((ops.length : Int) + 1)⟩ :: ops ∧ ∀ o ∈ ops, isHdr o = false)

/-- the log entries a list of (author, unit) stands for -/
def flatU (units : List (Nat × List Op)) : List LEnt := units.flatMap (fun au => au.2.map (fun o => (au.1, o)))

/-- what node `i` hands to `receive` when it pulls: the operations of the others in the rest of the log, in log order -/
def pullOps (log : List LEnt) (i : Nat) (nd : Node) : List Op := (oth i (log.drop nd.pulled)).map (·.2)

inductive Step : Net → Net → Prop
  /-- node `i` issues the public call `c` — ANY `Call` -/
  | call (net : Net) (i : Nat) (nd : Node) (c : Call) (hi : net.nodes[i]? = some nd) :
      Step net ⟨net.nodes.set i { nd with r := (nd.r.call c).1 }, net.log⟩
  /-- node `i` runs the user transaction `tag` whose body issues `calls` (ANY calls; `stopOnErr`: the body returns at
      the first refused call; `failAtEnd`: the user function returns an error) -/
  | tx (net : Net) (i : Nat) (nd : Node) (tag : String) (calls : List Call) (stopOnErr failAtEnd : Bool)
      (hi : net.nodes[i]? = some nd) :
      Step net ⟨net.nodes.set i { nd with r := (nd.r.txCalls tag calls stopOnErr failAtEnd).1 }, net.log⟩
  /-- ALL unpushed operations of node `i`'s buffer are appended to the log, in buffer order (one request) -/
  | pushAll (net : Net) (i : Nat) (nd : Node) (hi : net.nodes[i]? = some nd) :
      Step net ⟨net.nodes.set i { nd with pushed := nd.r.buffer.length },
                net.log ++ (nd.r.buffer.drop nd.pushed).map (fun o => (i, o))⟩
  /-- node `i` consumes the whole rest of the log: the entries of the others go through ONE `Replica.receive` -/
  | pullAll (net : Net) (i : Nat) (nd : Node) (hi : net.nodes[i]? = some nd) :
      Step net ⟨net.nodes.set i { nd with r := (nd.r.receive (pullOps net.log i nd)).1, pulled := net.log.length },
                net.log⟩

/-- reachable from `n` fresh subscribers `Replica.new .list (cuid i) false` with pairwise distinct client identifiers -/
inductive Reach (cuid : Nat → String) (n : Nat) : Net → Prop
  | init (hc : CuidsDistinct cuid n) : Reach cuid n (Net.init cuid n)
  | step {net net' : Net} : Reach cuid n net → Step net net' → Reach cuid n net'

/-! ### the executable form -/

inductive Act where
  | call (i : Nat) (c : Call)
  | tx (i : Nat) (tag : String) (calls : List Call) (stopOnErr failAtEnd : Bool)
  | pushAll (i : Nat)
  | pullAll (i : Nat)

def act (net : Net) : Act → Option Net
  | .call i c =>
    match net.nodes[i]? with
    | some nd => some ⟨net.nodes.set i { nd with r := (nd.r.call c).1 }, net.log⟩
    | none => none
  | .tx i tag calls s f =>
    match net.nodes[i]? with
    | some nd => some ⟨net.nodes.set i { nd with r := (nd.r.txCalls tag calls s f).1 }, net.log⟩
    | none => none
  | .pushAll i =>
    match net.nodes[i]? with
    | some nd => some ⟨net.nodes.set i { nd with pushed := nd.r.buffer.length },
        net.log ++ (nd.r.buffer.drop nd.pushed).map (fun o => (i, o))⟩
    | none => none
  | .pullAll i =>
    match net.nodes[i]? with
    | some nd => some ⟨net.nodes.set i { nd with r := (nd.r.receive (pullOps net.log i nd)).1,
                                                  pulled := net.log.length }, net.log⟩
    | none => none

def run (net : Net) : List Act → Option Net
  | [] => some net
  | a :: as => match act net a with
    | some net' => run net' as
    | none => none

theorem step_of_act {net net' : Net} {a : Act} (h : act net a = some net') : Step net net' := by
  cases a with
  | call i c =>
    simp only [act] at h
    cases hn : net.nodes[i]? with
    | none => rw [hn] at h; cases h
    | some nd =>
      rw [hn] at h
      simp only [Option.some.injEq] at h
      subst h
      exact .call net i nd c hn
  | tx i tag calls s f =>
    simp only [act] at h
    cases hn : net.nodes[i]? with
    | none => rw [hn] at h; cases h
    | some nd =>
      rw [hn] at h
      simp only [Option.some.injEq] at h
      subst h
      exact .tx net i nd tag calls s f hn
  | pushAll i =>
    simp only [act] at h
    cases hn : net.nodes[i]? with
    | none => rw [hn] at h; cases h
    | some nd =>
      rw [hn] at h
      simp only [Option.some.injEq] at h
      subst h
      exact .pushAll net i nd hn
  | pullAll i =>
    simp only [act] at h
    cases hn : net.nodes[i]? with
    | none => rw [hn] at h; cases h
    | some nd =>
      rw [hn] at h
      simp only [Option.some.injEq] at h
      subst h
      exact .pullAll net i nd hn

theorem reach_run {cuid : Nat → String} {n : Nat} : ∀ (as : List Act) {net net' : Net}, Reach cuid n net →
    run net as = some net' → Reach cuid n net'
  | [], _, _, hr, h => by
    simp only [run, Option.some.injEq] at h
    exact h ▸ hr
  | a :: as, net, net', hr, h => by
    simp only [run] at h
    cases ha : act net a with
    | none => rw [ha] at h; cases h
    | some net1 =>
      rw [ha] at h
      exact reach_run as (.step hr (step_of_act ha)) h

/-! ## 2. the invariant of `ListNet` under clock bumps, node replacement, many pushes, many pulls -/

/-- `ListNet`'s node invariant only reads state, buffer and clock of the replica, and the clock only from below -/
theorem nodeInv_noop {cuid : Nat → String} {n : Nat} {log : List LEnt} {i : Nat} {nd : Node} {A : List LEnt}
    (N : NodeInv cuid n log i nd A) {r' : Replica} (h : Noop nd.r r') : NodeInv cuid n log i { nd with r := r' } A := by
  obtain ⟨h1, h2, h3, h4, h5⟩ := h
  exact {
    st := by show r'.state = _; rw [h1]; exact N.st
    lc := N.lc
    pushed_le := by show nd.pushed ≤ r'.buffer.length; rw [h2]; exact N.pushed_le
    pulled_le := N.pulled_le
    own_eq := by show own i A = r'.buffer.map _; rw [h2]; exact N.own_eq
    oth_eq := N.oth_eq
    log_own := by show own i log = (r'.buffer.take nd.pushed).map _; rw [h2]; exact N.log_own
    clock_cuid := by show r'.opId.cuid = _; rw [h3]; exact N.clock_cuid
    clock_era := by show r'.opId.era = _; rw [h4]; exact N.clock_era
    lam_le := by
      intro e he
      show _ ≤ r'.opId.lamport
      exact Nat.le_trans (N.lam_le e he) h5
    ent_ok := N.ent_ok
    buf_sorted := by show r'.buffer.Pairwise _; rw [h2]; exact N.buf_sorted
    keys := N.keys
    causal := N.causal }

theorem inv_replace {cuid : Nat → String} {n : Nat} {net : Net} {ap : Nat → List LEnt} (I : Inv cuid n net ap)
    {i : Nat} {nd nd' : Node} {A' : List LEnt} (hi : net.nodes[i]? = some nd)
    (N' : NodeInv cuid n net.log i nd' A') :
    Inv cuid n ⟨net.nodes.set i nd', net.log⟩ (Function.update ap i A') := by
  refine ⟨I.distinct, by simp [I.len], ?_, I.log_auth, I.log_keys⟩
  intro j nd'' hj
  rcases getElem?_set_some hj with ⟨rfl, rfl⟩ | ⟨hne, hj'⟩
  · rw [Function.update_self]; exact N'
  · rw [Function.update_of_ne hne]; exact I.node j nd'' hj'

theorem inv_noop {cuid : Nat → String} {n : Nat} {net : Net} {ap : Nat → List LEnt} (I : Inv cuid n net ap)
    {i : Nat} {nd : Node} {r' : Replica} (hi : net.nodes[i]? = some nd) (h : Noop nd.r r') :
    ∃ ap', Inv cuid n ⟨net.nodes.set i { nd with r := r' }, net.log⟩ ap' :=
  ⟨_, inv_replace I hi (nodeInv_noop (I.node i nd hi) h)⟩

theorem set_self {α : Type} {l : List α} {i : Nat} {a : α} (h : l[i]? = some a) : l.set i a = l := by
  apply List.ext_getElem?
  intro j
  rw [List.getElem?_set]
  by_cases hij : i = j
  · subst hij
    obtain ⟨hlt, _⟩ := List.getElem?_eq_some_iff.mp h
    rw [if_pos rfl, if_pos hlt, h]
  · simp [hij]

theorem getElem?_set_self' {α : Type} {l : List α} {i : Nat} {a b : α} (h : l[i]? = some a) :
    (l.set i b)[i]? = some b := by
  obtain ⟨hlt, _⟩ := List.getElem?_eq_some_iff.mp h
  simp [hlt]

/-- what one pull of `ListNet` does to the replica of node `i` -/
def pullF (i : Nat) (r : Replica) (e : LEnt) : Replica := if e.1 = i then r else (r.execRemoteBase e.2).1

/-- MANY pulls of `ListNet` in a row -/
theorem inv_pulls {cuid : Nat → String} {n : Nat} {i : Nat} : ∀ (es : List LEnt) (net : Net) (ap : Nat → List LEnt)
    (nd : Node), Inv cuid n net ap → net.nodes[i]? = some nd →
    (∀ k (hk : k < es.length), net.log[nd.pulled + k]? = some es[k]) →
    ∃ ap', Inv cuid n ⟨net.nodes.set i { nd with r := es.foldl (pullF i) nd.r, pulled := nd.pulled + es.length },
      net.log⟩ ap'
  | [], net, ap, nd, I, hi, _ => by
    refine ⟨ap, ?_⟩
    have : ({ nd with r := ([] : List LEnt).foldl (pullF i) nd.r, pulled := nd.pulled + ([] : List LEnt).length } : Node)
        = nd := rfl
    rw [this, set_self hi]
    exact I
  | e :: es, net, ap, nd, I, hi, hl => by
    obtain ⟨a, o⟩ := e
    have h0 : net.log[nd.pulled]? = some (a, o) := by
      have := hl 0 (Nat.succ_pos _)
      rw [Nat.add_zero] at this
      exact this
    obtain ⟨ap1, I1⟩ := I.pull hi h0
    have hi1 : ∀ nd1 : Node, (net.nodes.set i nd1)[i]? = some nd1 := fun nd1 => getElem?_set_self' hi
    obtain ⟨ap2, I2⟩ := inv_pulls es _ ap1 _ I1 (hi1 _) (by
      intro k hk
      have := hl (k + 1) (by simp; omega)
      simp only [List.getElem_cons_succ] at this
      rw [← this]
      show net.log[nd.pulled + 1 + k]? = net.log[nd.pulled + (k + 1)]?
      rw [Nat.add_assoc, Nat.add_comm 1 k])
    refine ⟨ap2, ?_⟩
    simp only [List.set_set] at I2
    have e1 : nd.pulled + 1 + es.length = nd.pulled + ((a, o) :: es).length := by simp; omega
    rw [e1] at I2
    exact I2

/-- MANY pushes of `ListNet` in a row: the whole rest of the buffer -/
theorem inv_pushes {cuid : Nat → String} {n : Nat} {i : Nat} {ap : Nat → List LEnt} : ∀ (k : Nat) (net : Net)
    (nd : Node), Inv cuid n net ap → net.nodes[i]? = some nd → nd.pushed + k = nd.r.buffer.length →
    Inv cuid n ⟨net.nodes.set i { nd with pushed := nd.r.buffer.length },
      net.log ++ (nd.r.buffer.drop nd.pushed).map (fun o => (i, o))⟩ ap
  | 0, net, nd, I, hi, hk => by
    have e1 : ({ nd with pushed := nd.r.buffer.length } : Node) = nd := by
      have : nd.pushed = nd.r.buffer.length := by omega
      cases nd
      simp only at this
      subst this
      rfl
    have e2 : nd.r.buffer.drop nd.pushed = [] := List.drop_eq_nil_of_le (by omega)
    rw [e1, e2, set_self hi]
    simpa using I
  | k + 1, net, nd, I, hi, hk => by
    have hp : nd.pushed < nd.r.buffer.length := by omega
    have ho : nd.r.buffer[nd.pushed]? = some nd.r.buffer[nd.pushed] := List.getElem?_eq_getElem hp
    have I1 := I.push hi ho
    have hi1 : ∀ nd1 : Node, (net.nodes.set i nd1)[i]? = some nd1 := fun nd1 => getElem?_set_self' hi
    have I2 := inv_pushes k _ _ I1 (hi1 _) (by show nd.pushed + 1 + k = nd.r.buffer.length; omega)
    rw [List.set_set] at I2
    have e : nd.r.buffer.drop nd.pushed = nd.r.buffer[nd.pushed] :: nd.r.buffer.drop (nd.pushed + 1) :=
      (List.drop_eq_getElem_cons hp)
    rw [e, List.map_cons, List.append_cons]
    exact I2


/-! ## 3. erasing the headers: the abstraction to a state of `ListNet` -/

/-- not a header -/
def nh (o : Op) : Bool := !isHdr o
def eraseB (b : List Op) : List Op := b.filter nh
def eraseL (l : List LEnt) : List LEnt := l.filter (fun e => nh e.2)

theorem eraseB_append (a b : List Op) : eraseB (a ++ b) = eraseB a ++ eraseB b := by simp [eraseB]
theorem eraseL_append (a b : List LEnt) : eraseL (a ++ b) = eraseL a ++ eraseL b := by simp [eraseL]

theorem eraseL_map (i : Nat) (b : List Op) :
    eraseL (b.map (fun o => ((i, o) : LEnt))) = (eraseB b).map (fun o => (i, o)) := by
  induction b with
  | nil => rfl
  | cons o os ih =>
    simp only [List.map_cons, eraseL, eraseB, List.filter_cons] at ih ⊢
    split <;> simp [ih]

theorem filter_drop_len {α : Type} (p : α → Bool) (l : List α) (k : Nat) :
    (l.filter p).drop ((l.take k).filter p).length = (l.drop k).filter p := by
  have h : l.filter p = (l.take k).filter p ++ (l.drop k).filter p := by
    rw [← List.filter_append, List.take_append_drop]
  rw [h, List.drop_left]

theorem filter_take_len {α : Type} (p : α → Bool) (l : List α) (k : Nat) :
    (l.filter p).take ((l.take k).filter p).length = (l.take k).filter p := by
  have h : l.filter p = (l.take k).filter p ++ (l.drop k).filter p := by
    rw [← List.filter_append, List.take_append_drop]
  rw [h, List.take_left]

theorem eraseB_all {b : List Op} (h : ∀ o ∈ b, isHdr o = false) : eraseB b = b := by
  unfold eraseB
  rw [List.filter_eq_self]
  intro o ho
  simp [nh, h o ho]

theorem toL_hdr {o : Op} (h : isHdr o = true) : toL o = none := by
  unfold isHdr at h
  unfold toL
  split at h
  · rename_i tag k hb; rw [hb]
  · cases h

theorem filterMap_toL_eraseB (b : List Op) : (eraseB b).filterMap toL = b.filterMap toL := by
  induction b with
  | nil => rfl
  | cons o os ih =>
    unfold eraseB at ih ⊢
    rw [List.filter_cons]
    cases h : isHdr o
    · simp only [nh, h, Bool.not_false, if_true, List.filterMap_cons, ih]
    · simp only [nh, h, Bool.not_true, Bool.false_eq_true, if_false, List.filterMap_cons, toL_hdr h, ih]

theorem oth_eraseL (i : Nat) (l : List LEnt) : oth i (eraseL l) = eraseL (oth i l) := by
  unfold oth eraseL
  rw [List.filter_filter, List.filter_filter]
  congr 1
  funext e
  exact Bool.and_comm _ _

theorem eraseL_snd (l : List LEnt) : (eraseL l).map (·.2) = eraseB (l.map (·.2)) := by
  induction l with
  | nil => rfl
  | cons e es ih =>
    simp only [eraseL, eraseB, List.filter_cons, List.map_cons] at ih ⊢
    split <;> simp [ih]

/-- node `nd0` of `ListNet` is node `nd` of this system with the headers erased -/
structure AbsNode (log : List LEnt) (nd nd0 : Node) : Prop where
  st : nd0.r.state = nd.r.state
  id : nd0.r.opId = nd.r.opId
  buf : nd0.r.buffer = eraseB nd.r.buffer
  pushed : nd0.pushed = (eraseB (nd.r.buffer.take nd.pushed)).length
  pulled : nd0.pulled = (eraseL (log.take nd.pulled)).length

/-- `net0` is `net` with the headers erased from log and buffers -/
structure Abs (net net0 : Net) : Prop where
  log : net0.log = eraseL net.log
  len : net0.nodes.length = net.nodes.length
  node : ∀ (i : Nat) (nd : Node), net.nodes[i]? = some nd → ∃ nd0, net0.nodes[i]? = some nd0 ∧ AbsNode net.log nd nd0

theorem abs_set {net net0 : Net} (h : Abs net net0) {i : Nat} {nd' nd0' : Node} (hn : AbsNode net.log nd' nd0') :
    Abs ⟨net.nodes.set i nd', net.log⟩ ⟨net0.nodes.set i nd0', net0.log⟩ := by
  refine ⟨h.log, by simp [h.len], ?_⟩
  intro j nd hj
  rcases getElem?_set_some hj with ⟨rfl, rfl⟩ | ⟨hne, hj'⟩
  · have hlt : j < net.nodes.length := by
      have := (List.getElem?_eq_some_iff.mp hj).1
      simpa using this
    refine ⟨nd0', ?_, hn⟩
    show (net0.nodes.set j nd0')[j]? = some nd0'
    rw [List.getElem?_set_self (by rw [h.len]; exact hlt)]
  · obtain ⟨nd0, h1, h2⟩ := h.node j nd hj'
    refine ⟨nd0, ?_, h2⟩
    show (net0.nodes.set i nd0')[j]? = some nd0
    rw [List.getElem?_set_ne (fun e => hne e.symm)]
    exact h1

/-! ### units -/

/-- a concatenation of units -/
def UnitsB (l : List Op) : Prop := ∃ us : List (List Op), l = us.flatten ∧ ∀ u ∈ us, IsUnit u
def UnitsL (l : List LEnt) : Prop := ∃ units : List (Nat × List Op), l = flatU units ∧ ∀ au ∈ units, IsUnit au.2

theorem unitsB_nil : UnitsB [] := ⟨[], rfl, by simp⟩
theorem unitsL_nil : UnitsL [] := ⟨[], rfl, by simp⟩

theorem unitsB_snoc {l u : List Op} (h : UnitsB l) (hu : IsUnit u) : UnitsB (l ++ u) := by
  obtain ⟨us, rfl, h2⟩ := h
  refine ⟨us ++ [u], by simp, ?_⟩
  intro v hv
  rcases List.mem_append.mp hv with h | h
  · exact h2 v h
  · simp only [List.mem_singleton] at h
    exact h ▸ hu

theorem flatU_append (a b : List (Nat × List Op)) : flatU (a ++ b) = flatU a ++ flatU b := by
  simp [flatU]

theorem flatU_cons (au : Nat × List Op) (b : List (Nat × List Op)) :
    flatU (au :: b) = au.2.map (fun o => (au.1, o)) ++ flatU b := by
  simp [flatU]

theorem unitsL_append {a b : List LEnt} (ha : UnitsL a) (hb : UnitsL b) : UnitsL (a ++ b) := by
  obtain ⟨ua, rfl, h1⟩ := ha
  obtain ⟨ub, rfl, h2⟩ := hb
  refine ⟨ua ++ ub, (flatU_append _ _).symm, ?_⟩
  intro v hv
  rcases List.mem_append.mp hv with h | h
  · exact h1 v h
  · exact h2 v h

theorem flatU_map_author (i : Nat) (us : List (List Op)) :
    flatU (us.map (fun u => (i, u))) = us.flatten.map (fun o => ((i, o) : LEnt)) := by
  induction us with
  | nil => rfl
  | cons u us ih => rw [List.flatten_cons, List.map_append, List.map_cons, flatU_cons, ih]

theorem unitsL_of_B (i : Nat) {l : List Op} (h : UnitsB l) : UnitsL (l.map (fun o => ((i, o) : LEnt))) := by
  obtain ⟨us, rfl, h2⟩ := h
  refine ⟨us.map (fun u => (i, u)), (flatU_map_author i us).symm, ?_⟩
  · intro au hau
    obtain ⟨u, hu, rfl⟩ := List.mem_map.mp hau
    exact h2 u hu


/-! ## 4. calls and transaction bodies only read state and clock -/

theorem call_frame_view (r f : Replica) (c : Call) :
    ((r.frame f).call c).1.state = (r.call c).1.state ∧ ((r.frame f).call c).1.opId = (r.call c).1.opId ∧
    ∃ new, ((r.frame f).call c).1.buffer = f.buffer ++ new ∧ (r.call c).1.buffer = r.buffer ++ new := by
  rw [call_eq, call_eq]
  simp only [frame_state, execLocalBase_frame]
  cases c.prepare r.state with
  | done o => exact ⟨rfl, rfl, [], by simp, by simp⟩
  | op b post =>
    dsimp only
    rcases he : r.execLocalBase b with ⟨r1, (⟨op, ret⟩ | e | w)⟩ <;> dsimp only
    · obtain ⟨_, _, hf⟩ := execLocalBase_ok he
      obtain ⟨_, f2, _⟩ := frame_fields hf
      exact ⟨rfl, rfl, [op.wire], by simp, by simp [f2]⟩
    · rw [execLocalBase_err he]; exact ⟨rfl, rfl, [], by simp, by simp⟩
    · rw [execLocalBase_panic he]; exact ⟨rfl, rfl, [], by simp, by simp⟩

/-- two replicas with the same state and clock react to a call in the same way -/
theorem call_view (r r0 : Replica) (c : Call) (hs : r0.state = r.state) (hid : r0.opId = r.opId) :
    (r0.call c).1.state = (r.call c).1.state ∧ (r0.call c).1.opId = (r.call c).1.opId ∧
    ∃ new, (r0.call c).1.buffer = r0.buffer ++ new ∧ (r.call c).1.buffer = r.buffer ++ new := by
  have e : r.frame r0 = r0 := frame_of_core hid.symm hs.symm
  have := call_frame_view r r0 c
  rw [e] at this
  exact this

theorem execLocalBase_no_panic {r : Replica} {l : Rga} (hs : r.state = .list l) (hsz : l.size = liveCount l.nodes)
    {c : Call} {b : OpBody} {post : Ret → Ret} (hp : c.prepare r.state = .op b post) {r' : Replica} {w : String}
    (he : r.execLocalBase b = (r', .panic w)) : False := by
  rw [execLocalBase_eq] at he
  rw [hs] at hp he
  split at he
  · simp at he
  · have := execLocal_prepared_no_panic hsz hp r.opId.next.ts
    split at he
    · simp at he
    · simp at he
    · rename_i w' hw
      exact this w' hw

/-- a public call on a list whose stored Size is its number of live elements never panics -/
theorem call_no_panic (r : Replica) (l : Rga) (hs : r.state = .list l) (hsz : l.size = liveCount l.nodes) (c : Call) :
    (r.call c).2.isPanic = false := by
  rw [call_eq]
  cases hp : c.prepare r.state with
  | done o =>
    rw [hs] at hp
    exact prepare_list_done hp
  | op b post =>
    dsimp only
    rcases he : r.execLocalBase b with ⟨r1, (⟨op, ret⟩ | e | w)⟩ <;> dsimp only
    · rfl
    · rfl
    · exact (execLocalBase_no_panic hs hsz hp he).elim

theorem isHdr_false_of {o : Op} (h : ∀ tag k, o.body ≠ .transaction tag k) : isHdr o = false := by
  unfold isHdr
  split
  · rename_i tag k hb; exact absurd hb (h tag k)
  · rfl

/-- an operation node `i` queues: not a header, safe to execute remotely, carries the client identifier of `i` -/
structure GoodOp (cuid : Nat → String) (i : Nat) (o : Op) : Prop where
  nh : isHdr o = false
  safe : RemoteSafe o.body
  cu : o.id.cuid = cuid i

/-- what a call queues, from `ListNet`'s case analysis -/
theorem call_new_good {cuid : Nat → String} {n : Nat} {log : List LEnt} {i : Nat} {nd : Node} {A : List LEnt}
    (N : NodeInv cuid n log i nd A) (c : Call) {new : List Op} (hb : (nd.r.call c).1.buffer = nd.r.buffer ++ new) :
    nd.r.opId.lamport ≤ (nd.r.call c).1.opId.lamport ∧
    (new = [] ∨ ∃ o, new = [o] ∧ GoodOp cuid i o ∧ o.id.lamport = nd.r.opId.lamport + 1 ∧
      (nd.r.call c).1.opId.lamport = nd.r.opId.lamport + 1) := by
  rcases call_cases nd.r _ N.st c with ⟨h1, h2, h3, h4, h5⟩ | ⟨o, l', hbuf, hid, hop, hst, hloc⟩
  · refine ⟨h5, Or.inl ?_⟩
    rw [h2] at hb
    have := congrArg List.length hb
    simp only [List.length_append] at this
    exact List.eq_nil_of_length_eq_zero (by omega)
  · rw [hbuf] at hb
    have hn : new = [o] := (List.append_cancel_left hb).symm
    obtain ⟨s1, s2, s3⟩ := localOp_safe hloc
    refine ⟨by rw [hop]; simp [OpId.next], Or.inr ⟨o, hn, ⟨isHdr_false_of s3, s1, ?_⟩, by rw [hid]; rfl, by rw [hop]; rfl⟩⟩
    rw [hid]
    exact N.clock_cuid

theorem call_of_exec_ok {r ar : Replica} (hs : ar.state = r.state) (hid : ar.opId = r.opId) {c : Call} {b : OpBody}
    {post : Ret → Ret} (hp : c.prepare r.state = .op b post) {r' : Replica} {op : Op} {ret : Ret}
    (he : r.execLocalBase b = (r', .ok (op, ret))) :
    (ar.call c).1.state = r'.state ∧ (ar.call c).1.opId = r'.opId ∧ (ar.call c).1.buffer = ar.buffer ++ [op.wire] := by
  have e : r.frame ar = ar := frame_of_core hid.symm hs.symm
  rw [← e, call_eq]
  simp [hp, execLocalBase_frame, he]

/-- **the body of a transaction, seen from `ListNet`**: an abstract replica `ar` (same state and clock, the buffer
    of `ListNet`) that issues the successful operations as plain calls stays in `ListNet`'s node invariant; the body never
    panics; the operations it records are good and newer than the clock at the start -/
theorem body_sim {cuid : Nat → String} {n : Nat} {log0 : List LEnt} {i pu pl : Nat} (hin : i < n) (stop : Bool) :
    ∀ (calls : List Call) (r : Replica) (acc : List Op) (outs : List (Outcome Ret)) (ar : Replica) (A : List LEnt),
    ar.state = r.state → ar.opId = r.opId → NodeInv cuid n log0 i ⟨ar, pu, pl⟩ A →
    ∀ {r1 ops outs' stopped pan}, Replica.txCalls.body stop r acc outs calls = (r1, ops, outs', stopped, pan) →
    pan = none ∧ ∃ ar1 A1 new, ops = acc ++ new ∧ ar1.state = r1.state ∧ ar1.opId = r1.opId ∧
      ar1.buffer = ar.buffer ++ new.map Op.wire ∧ NodeInv cuid n log0 i ⟨ar1, pu, pl⟩ A1 ∧
      (∀ o ∈ new, GoodOp cuid i o.wire ∧ ar.opId.lamport < o.id.lamport) ∧
      ar.opId.lamport ≤ ar1.opId.lamport := by
  intro calls
  induction calls with
  | nil =>
    intro r acc outs ar A hs hid N r1 ops outs' stopped pan h
    simp only [Replica.txCalls.body, Prod.mk.injEq] at h
    obtain ⟨h1, h2, _, _, h5⟩ := h
    subst h1 h2 h5
    exact ⟨rfl, ar, A, [], by simp, hs, hid, by simp, N, by simp, Nat.le_refl _⟩
  | cons c cs ih =>
    intro r acc outs ar A hs hid N r1 ops outs' stopped pan h
    have stay : ∀ {r1' ops' outs'' stopped' pan'}, (r1', ops', outs'', stopped', pan') = (r1, ops, outs', stopped, pan) →
        r1' = r → ops' = acc → pan' = none →
        pan = none ∧ ∃ ar1 A1 new, ops = acc ++ new ∧ ar1.state = r1.state ∧ ar1.opId = r1.opId ∧
          ar1.buffer = ar.buffer ++ new.map Op.wire ∧ NodeInv cuid n log0 i ⟨ar1, pu, pl⟩ A1 ∧
          (∀ o ∈ new, GoodOp cuid i o.wire ∧ ar.opId.lamport < o.id.lamport) ∧
          ar.opId.lamport ≤ ar1.opId.lamport := by
      intro r1' ops' outs'' stopped' pan' e e1 e2 e3
      simp only [Prod.mk.injEq] at e
      obtain ⟨h1, h2, _, _, h5⟩ := e
      subst e1 e2 e3 h1 h2
      exact ⟨h5.symm, ar, A, [], by simp, hs, hid, by simp, N, by simp, Nat.le_refl _⟩
    have hsl : r.state = .list _ := hs ▸ N.st
    have hsz := size_eq_liveCount _ N.lc
    rw [Replica.txCalls.body] at h
    split at h
    · exact ih _ _ _ _ _ hs hid N h
    · split at h
      · exact stay h rfl rfl rfl
      · exact ih _ _ _ _ _ hs hid N h
    · rename_i w hprep
      rw [hsl] at hprep
      have := prepare_list_done hprep
      simp [Outcome.isPanic] at this
    · rename_i b post hprep
      rcases he : r.execLocalBase b with ⟨r', (⟨op, ret⟩ | e | w)⟩ <;> rw [he] at h <;> simp only [] at h
      · obtain ⟨c1, c2, c3⟩ := call_of_exec_ok hs hid hprep he
        obtain ⟨A', N'⟩ := N.call hin c
        obtain ⟨hmono, hnew⟩ := call_new_good N c (new := [op.wire]) c3
        have hgood : GoodOp cuid i op.wire ∧ op.wire.id.lamport = ar.opId.lamport + 1 ∧
            (ar.call c).1.opId.lamport = ar.opId.lamport + 1 := by
          rcases hnew with h0 | ⟨o, h0, g, g1, g2⟩
          · cases h0
          · simp only [List.cons.injEq, and_true] at h0
            subst h0
            exact ⟨g, g1, g2⟩
        obtain ⟨hp, ar1, A1, new, e1, e2, e3, e4, N1, e5, e6⟩ := ih r' (acc ++ [op]) _ (ar.call c).1 A' c1 c2 N' h
        refine ⟨hp, ar1, A1, op :: new, by simp [e1], e2, e3, by simp [e4, c3], N1, ?_, ?_⟩
        · intro o ho
          rcases List.mem_cons.mp ho with rfl | ho
          · exact ⟨hgood.1, by have := hgood.2.1; rw [wire_id] at this; omega⟩
          · obtain ⟨g1, g2⟩ := e5 o ho
            exact ⟨g1, by have := hgood.2.2; omega⟩
        · have := hgood.2.2; omega
      · have := execLocalBase_err he
        subst this
        split at h
        · exact stay h rfl rfl rfl
        · exact ih _ _ _ _ _ hs hid N h
      · exact (execLocalBase_no_panic hsl hsz hprep he).elim


/-! ## 5. `receive` of a sequence of units, seen from `ListNet` -/

/-- `S` (a replica of `ListNet`) is `R` (the replica of this system) up to a clock that is not ahead -/
structure Le (S R : Replica) : Prop where
  st : S.state = R.state
  cu : S.opId.cuid = R.opId.cuid
  era : S.opId.era = R.opId.era
  lam : S.opId.lamport ≤ R.opId.lamport

/-- remote execution, replica only -/
def exS (r : Replica) (o : Op) : Replica := (r.execRemoteBase o).1

theorem sync_mono {a b : OpId} (k : Nat) (h : a.lamport ≤ b.lamport) :
    (a.syncLamport k).lamport ≤ (b.syncLamport k).lamport := by
  unfold OpId.syncLamport
  split <;> split <;> simp <;> omega

theorem exS_state (r : Replica) (o : Op) :
    (exS r o).state = (match execRemote r.state o.id.ts o.body with | .ok s' => s' | _ => r.state) := by
  unfold exS Replica.execRemoteBase
  split <;> simp_all

theorem le_exec {S R : Replica} (h : Le S R) (o : Op) (x : List Op) :
    Le (exS S o) { exS R o with rbOps := x } := by
  refine ⟨?_, ?_, ?_, ?_⟩
  · show (exS S o).state = (exS R o).state
    rw [exS_state, exS_state, h.st]
  · show (exS S o).opId.cuid = (exS R o).opId.cuid
    unfold exS
    rw [execRemoteBase_opId, execRemoteBase_opId, sync_cuid, sync_cuid]; exact h.cu
  · show (exS S o).opId.era = (exS R o).opId.era
    unfold exS
    rw [execRemoteBase_opId, execRemoteBase_opId, sync_era, sync_era]; exact h.era
  · show (exS S o).opId.lamport ≤ (exS R o).opId.lamport
    unfold exS
    rw [execRemoteBase_opId, execRemoteBase_opId]; exact sync_mono _ h.lam

theorem execRemote_hdr (l : Rga) (ts : Ts) {o : Op} (ho : isHdr o = true) :
    execRemote (.list l) ts o.body = .ok (.list l) := by
  unfold isHdr at ho
  split at ho
  · rename_i tag k hb; rw [hb]; rfl
  · cases ho

theorem le_hdr {S R : Replica} (h : Le S R) {l : Rga} (hs : R.state = .list l) {o : Op} (ho : isHdr o = true)
    (x : List Op) : Le S { exS R o with rbOps := x } := by
  refine ⟨?_, ?_, ?_, ?_⟩
  · show S.state = (exS R o).state
    rw [exS_state, hs, execRemote_hdr l _ ho, h.st, hs]
  · show S.opId.cuid = (exS R o).opId.cuid
    unfold exS
    rw [execRemoteBase_opId, sync_cuid]; exact h.cu
  · show S.opId.era = (exS R o).opId.era
    unfold exS
    rw [execRemoteBase_opId, sync_era]; exact h.era
  · show S.opId.lamport ≤ (exS R o).opId.lamport
    unfold exS
    rw [execRemoteBase_opId]; exact Nat.le_trans h.lam (sync_lam _ _).1

theorem hdr_safe {o : Op} (ho : isHdr o = true) : RemoteSafe o.body := by
  unfold isHdr at ho
  split at ho
  · rename_i tag k hb
    rw [hb]
    exact ⟨fun _ _ e => (by cases e), fun _ _ _ e => (by cases e)⟩
  · cases ho

/-- the operations of a unit are executed one after the other, none panics -/
theorem go_sim : ∀ (ops : List Op) (S R : Replica) (l : Rga), Le S R → R.state = .list l →
    (∀ o ∈ ops, RemoteSafe o.body) →
    ∃ R' l', Replica.applyUnit.go R ops = (R', .ok ()) ∧ Le (ops.foldl exS S) R' ∧ R'.state = .list l'
  | [], S, R, l, h, hs, _ => ⟨R, l, by unfold Replica.applyUnit.go; rfl, h, hs⟩
  | o :: os, S, R, l, h, hs, hsafe => by
    obtain ⟨h1, l1, h2⟩ := execRemoteBase_safe R l hs o (hsafe o List.mem_cons_self)
    rw [applyUnit_go_cons]
    have e : R.execRemoteBase o = (exS R o, none) := by
      unfold exS
      rw [← h1]
    rw [e]
    simp only []
    exact go_sim os (exS S o) _ l1 (le_exec h o _) h2 (fun o' ho' => hsafe o' (List.mem_cons_of_mem _ ho'))

theorem go_single_hdr {S R : Replica} {l : Rga} (h : Le S R) (hs : R.state = .list l) {o : Op}
    (ho : isHdr o = true) :
    ∃ R' l', Replica.applyUnit.go R [o] = (R', .ok ()) ∧ Le S R' ∧ R'.state = .list l' := by
  obtain ⟨h1, l1, h2⟩ := execRemoteBase_safe R l hs o (hdr_safe ho)
  have e : R.execRemoteBase o = (exS R o, none) := by
    unfold exS
    rw [← h1]
  refine ⟨{ exS R o with rbOps := (exS R o).rbOps ++ [o] }, l1, ?_, le_hdr h hs ho _, h2⟩
  rw [applyUnit_go_cons, e]
  simp only []
  unfold Replica.applyUnit.go
  rfl

theorem applyUnit_single (r : Replica) (o : Op) : r.applyUnit [o] = Replica.applyUnit.go r [o] := rfl

theorem applyUnit_hdr (r : Replica) (id : OpId) (tag : String) (o : Op) (ops : List Op) :
    r.applyUnit (⟨id, .transaction tag (((o :: ops).length : Int) + 1)⟩ :: o :: ops) =
      Replica.applyUnit.go r (o :: ops) := by
  simp only [Replica.applyUnit]
  rw [if_neg (by simp)]

/-- **one unit**: applied completely, never refused, never a panic; on the `ListNet` side: its plain operations -/
theorem unit_sim {u : List Op} (hu : IsUnit u) (hsafe : ∀ o ∈ u, RemoteSafe o.body) {S R : Replica} {l : Rga}
    (h : Le S R) (hs : R.state = .list l) :
    ∃ R' l', R.applyUnit u = (R', .ok ()) ∧ Le ((eraseB u).foldl exS S) R' ∧ R'.state = .list l' := by
  rcases hu with ⟨o, rfl, ho⟩ | ⟨id, tag, ops, rfl, hops⟩
  · rw [applyUnit_single, eraseB_all (by simpa using ho)]
    exact go_sim [o] S R l h hs hsafe
  · cases ops with
    | nil =>
      rw [applyUnit_single]
      have hh : isHdr (⟨id, .transaction tag ((([] : List Op).length : Int) + 1)⟩ : Op) = true := rfl
      have : eraseB [(⟨id, .transaction tag ((([] : List Op).length : Int) + 1)⟩ : Op)] = [] := rfl
      rw [this]
      exact go_single_hdr h hs hh
    | cons o ops =>
      rw [applyUnit_hdr]
      have : eraseB ((⟨id, .transaction tag (((o :: ops).length : Int) + 1)⟩ : Op) :: o :: ops) = o :: ops := by
        have hh : isHdr (⟨id, .transaction tag (((o :: ops).length : Int) + 1)⟩ : Op) = true := rfl
        show List.filter nh _ = _
        rw [List.filter_cons]
        simp only [nh, hh, Bool.not_true, Bool.false_eq_true, if_false]
        exact eraseB_all hops
      rw [this]
      exact go_sim (o :: ops) S R l h hs (fun o' ho' => hsafe o' (List.mem_cons_of_mem _ ho'))

/-- the first operation of a unit announces the unit's length correctly -/
theorem unit_head {u : List Op} (hu : IsUnit u) :
    ∃ o tl, u = o :: tl ∧ o.unitLen = u.length ∧ ∀ k, u.length ≤ k → o.badHeader k = false := by
  rcases hu with ⟨o, rfl, ho⟩ | ⟨id, tag, ops, rfl, hops⟩
  · refine ⟨o, [], rfl, ?_, ?_⟩
    · unfold isHdr at ho
      unfold Op.unitLen
      split
      · rename_i tag k hb; rw [hb] at ho; cases ho
      · rfl
    · intro k _
      unfold isHdr at ho
      unfold Op.badHeader
      split
      · rename_i tag k hb; rw [hb] at ho; cases ho
      · rfl
  · refine ⟨_, ops, rfl, ?_, ?_⟩
    · simp [Op.unitLen]
    · intro k hk
      simp only [List.length_cons] at hk
      simp [Op.badHeader]
      omega

theorem oth_map_self (i : Nat) (u : List Op) : oth i (u.map (fun o => ((i, o) : LEnt))) = [] := by
  simp [oth]

theorem oth_map_ne {i a : Nat} (h : a ≠ i) (u : List Op) :
    oth i (u.map (fun o => ((a, o) : LEnt))) = u.map (fun o => (a, o)) := by
  unfold oth
  rw [List.filter_eq_self]
  intro e he
  obtain ⟨o, _, rfl⟩ := List.mem_map.mp he
  simp [h]

theorem foldl_pullF_own (i : Nat) : ∀ (b : List Op) (S : Replica),
    (b.map (fun o => ((i, o) : LEnt))).foldl (pullF i) S = S
  | [], S => rfl
  | o :: os, S => by
    simp only [List.map_cons, List.foldl_cons, pullF, if_true]
    exact foldl_pullF_own i os S

theorem foldl_pullF_other {i a : Nat} (h : a ≠ i) : ∀ (b : List Op) (S : Replica),
    (b.map (fun o => ((a, o) : LEnt))).foldl (pullF i) S = b.foldl exS S
  | [], S => rfl
  | o :: os, S => by
    simp only [List.map_cons, List.foldl_cons, pullF, if_neg h]
    exact foldl_pullF_other h os _

/-- **`receive` of the foreign units of a stretch of the log**: every unit is applied, the result is `.ok ()`; on the
    `ListNet` side the plain entries of the stretch are pulled one by one (own entries skipped) -/
theorem recv_sim (i : Nat) : ∀ (units : List (Nat × List Op)),
    (∀ au ∈ units, IsUnit au.2 ∧ ∀ o ∈ au.2, RemoteSafe o.body) →
    ∀ (fuel : Nat) (S R : Replica) (l : Rga), Le S R → R.state = .list l →
    ((oth i (flatU units)).map (·.2)).length ≤ fuel →
    ∃ R' l', Replica.receive.go fuel R ((oth i (flatU units)).map (·.2)) = (R', .ok ()) ∧
      Le ((eraseL (flatU units)).foldl (pullF i) S) R' ∧ R'.state = .list l'
  | [], _, fuel, S, R, l, h, hs, _ => ⟨R, l, by simp [flatU, oth, receive_go_nil], h, hs⟩
  | (a, u) :: units, hall, fuel, S, R, l, h, hs, hf => by
    have hall' : ∀ au ∈ units, IsUnit au.2 ∧ ∀ o ∈ au.2, RemoteSafe o.body :=
      fun au hau => hall au (List.mem_cons_of_mem _ hau)
    obtain ⟨hu, hsafe⟩ := hall (a, u) List.mem_cons_self
    simp only at hu hsafe
    rw [flatU_cons, oth_append, eraseL_append, List.foldl_append, eraseL_map] at *
    by_cases ha : a = i
    · subst ha
      simp only [oth_map_self, List.nil_append, foldl_pullF_own] at hf ⊢
      exact recv_sim a units hall' fuel S R l h hs hf
    · simp only [oth_map_ne ha, foldl_pullF_other ha, List.map_append, List.map_map] at hf ⊢
      have em : (u.map ((fun e : LEnt => e.2) ∘ fun o => ((a, o) : LEnt))) = u := by
        simp [Function.comp_def]
      rw [em] at hf ⊢
      obtain ⟨o, tl, rfl, hlen, hbad⟩ := unit_head hu
      cases fuel with
      | zero => simp at hf
      | succ fuel =>
        rw [List.cons_append, receive_go_succ, ← List.cons_append]
        rw [hbad _ (by simp)]
        simp only [Bool.false_eq_true, if_false, hlen, List.take_left', List.drop_left']
        obtain ⟨R1, l1, g1, g2, g3⟩ := unit_sim hu hsafe h hs
        rw [g1]
        simp only []
        exact recv_sim i units hall' fuel _ R1 l1 g2 g3 (by simp at hf ⊢; omega)

theorem foldl_pullF_buffer (i : Nat) : ∀ (es : List LEnt) (S : Replica), (es.foldl (pullF i) S).buffer = S.buffer
  | [], S => rfl
  | e :: es, S => by
    rw [List.foldl_cons, foldl_pullF_buffer i es]
    unfold pullF
    split
    · rfl
    · exact execRemoteBase_buffer _ _


/-! ## 6. the invariant of the system -/

/-- what is known about a node beyond its `ListNet` image -/
structure NodeOK (cuid : Nat → String) (log : List LEnt) (i : Nat) (nd : Node) : Prop where
  rb : nd.r.RbInv
  pushed_le : nd.pushed ≤ nd.r.buffer.length
  pulled_le : nd.pulled ≤ log.length
  /-- the unpushed rest of the buffer is a concatenation of units -/
  rest_units : UnitsB (nd.r.buffer.drop nd.pushed)
  /-- `pulled` sits at a unit boundary: the unconsumed rest of the log is a concatenation of units -/
  pull_units : UnitsL (log.drop nd.pulled)
  buf_ok : ∀ o ∈ nd.r.buffer, o.id.cuid = cuid i ∧ RemoteSafe o.body
  log_own : own i log = (nd.r.buffer.take nd.pushed).map (fun o => (i, o))
  buf_sorted : nd.r.buffer.Pairwise (fun o o' => o.id.lamport < o'.id.lamport)
  buf_lam : ∀ o ∈ nd.r.buffer, o.id.lamport ≤ nd.r.opId.lamport

structure TInv (cuid : Nat → String) (n : Nat) (net : Net) : Prop where
  /-- erasing the headers gives a state that satisfies `ListNet`'s invariant -/
  sim : ∃ net0 ap, Inv cuid n net0 ap ∧ Abs net net0
  node : ∀ (i : Nat) (nd : Node), net.nodes[i]? = some nd → NodeOK cuid net.log i nd
  /-- ONE decomposition of the log into units, and every `pulled` sits at one of ITS boundaries -/
  log_units : ∃ units : List (Nat × List Op), net.log = flatU units ∧ (∀ au ∈ units, IsUnit au.2) ∧
    ∀ (i : Nat) (nd : Node), net.nodes[i]? = some nd → ∃ k, nd.pulled = (flatU (units.take k)).length
  log_ok : ∀ e ∈ net.log, e.1 < n ∧ e.2.id.cuid = cuid e.1 ∧ RemoteSafe e.2.body
  /-- headers included: no two entries of the log carry the same (lamport, client) -/
  log_keys : net.log.Pairwise (fun e e' => lkey e ≠ lkey e')

theorem AbsNode.extend {log : List LEnt} {nd nd0 : Node} (An : AbsNode log nd nd0)
    (hp : nd.pushed ≤ nd.r.buffer.length) {r' r0' : Replica} {u : List Op}
    (hs : r0'.state = r'.state) (hid : r0'.opId = r'.opId) (hb : r'.buffer = nd.r.buffer ++ u)
    (hb0 : r0'.buffer = nd0.r.buffer ++ eraseB u) :
    AbsNode log { nd with r := r' } { nd0 with r := r0' } where
  st := hs
  id := hid
  buf := by
    show r0'.buffer = eraseB r'.buffer
    rw [hb0, hb, eraseB_append, An.buf]
  pushed := by
    show nd0.pushed = (eraseB (r'.buffer.take nd.pushed)).length
    rw [hb, List.take_append_of_le_length hp]
    exact An.pushed
  pulled := An.pulled

theorem NodeOK.extend {cuid : Nat → String} {log : List LEnt} {i : Nat} {nd : Node} (K : NodeOK cuid log i nd)
    {r' : Replica} {u : List Op} (hb : r'.buffer = nd.r.buffer ++ u) (hu : u = [] ∨ IsUnit u) (hrb : r'.RbInv)
    (hgood : ∀ o ∈ u, o.id.cuid = cuid i ∧ RemoteSafe o.body ∧ nd.r.opId.lamport < o.id.lamport ∧
      o.id.lamport ≤ r'.opId.lamport)
    (hsorted : u.Pairwise (fun o o' => o.id.lamport < o'.id.lamport))
    (hmono : nd.r.opId.lamport ≤ r'.opId.lamport) : NodeOK cuid log i { nd with r := r' } where
  rb := hrb
  pushed_le := by
    show nd.pushed ≤ r'.buffer.length
    rw [hb, List.length_append]
    exact Nat.le_trans K.pushed_le (Nat.le_add_right _ _)
  pulled_le := K.pulled_le
  rest_units := by
    show UnitsB (r'.buffer.drop nd.pushed)
    rw [hb, List.drop_append_of_le_length K.pushed_le]
    rcases hu with rfl | hu
    · simpa using K.rest_units
    · exact unitsB_snoc K.rest_units hu
  pull_units := K.pull_units
  buf_ok := by
    intro o ho
    change o ∈ r'.buffer at ho
    rw [hb] at ho
    rcases List.mem_append.mp ho with h | h
    · exact K.buf_ok o h
    · exact ⟨(hgood o h).1, (hgood o h).2.1⟩
  log_own := by
    show own i log = (r'.buffer.take nd.pushed).map _
    rw [hb, List.take_append_of_le_length K.pushed_le]
    exact K.log_own
  buf_sorted := by
    show r'.buffer.Pairwise _
    rw [hb]
    refine List.pairwise_append.mpr ⟨K.buf_sorted, hsorted, ?_⟩
    intro a ha b hb'
    have := K.buf_lam a ha
    have := (hgood b hb').2.2.1
    omega
  buf_lam := by
    intro o ho
    change o ∈ r'.buffer at ho
    show _ ≤ r'.opId.lamport
    rw [hb] at ho
    rcases List.mem_append.mp ho with h | h
    · exact Nat.le_trans (K.buf_lam o h) hmono
    · exact (hgood o h).2.2.2

namespace TInv
variable {cuid : Nat → String} {n : Nat} {net : Net}

theorem at_node (T : TInv cuid n net) {i : Nat} {nd : Node} (hi : net.nodes[i]? = some nd) :
    ∃ net0 ap nd0, Inv cuid n net0 ap ∧ Abs net net0 ∧ net0.nodes[i]? = some nd0 ∧ AbsNode net.log nd nd0 ∧ i < n := by
  obtain ⟨net0, ap, I, Ab⟩ := T.sim
  obtain ⟨nd0, h0, An⟩ := Ab.node i nd hi
  exact ⟨net0, ap, nd0, I, Ab, h0, An, I.lt_of_node h0⟩

theorem set_node (T : TInv cuid n net) {i : Nat} {nd nd' : Node} {net0' : Net} {ap' : Nat → List LEnt}
    (hi : net.nodes[i]? = some nd) (hpl : nd'.pulled = nd.pulled ∨ nd'.pulled = net.log.length)
    (I : Inv cuid n net0' ap') (A : Abs ⟨net.nodes.set i nd', net.log⟩ net0') (K : NodeOK cuid net.log i nd') :
    TInv cuid n ⟨net.nodes.set i nd', net.log⟩ where
  sim := ⟨net0', ap', I, A⟩
  node := by
    intro j nd hj
    rcases getElem?_set_some hj with ⟨rfl, rfl⟩ | ⟨hne, hj'⟩
    · exact K
    · exact T.node j nd hj'
  log_units := by
    obtain ⟨units, h1, h2, h3⟩ := T.log_units
    refine ⟨units, h1, h2, ?_⟩
    intro j ndj hj
    rcases getElem?_set_some hj with ⟨rfl, rfl⟩ | ⟨hne, hj'⟩
    · rcases hpl with h | h
      · obtain ⟨k, hk⟩ := h3 j nd hi
        exact ⟨k, h.trans hk⟩
      · exact ⟨units.length, by rw [h, List.take_length, ← h1]⟩
    · exact h3 j ndj hj'
  log_ok := T.log_ok
  log_keys := T.log_keys

end TInv

theorem net_eta (net : Net) : (⟨net.nodes, net.log⟩ : Net) = net := rfl

/-! ### the steps -/

namespace TInv
variable {cuid : Nat → String} {n : Nat} {net : Net}

/-- a public call -/
theorem call (T : TInv cuid n net) {i : Nat} {nd : Node} (hi : net.nodes[i]? = some nd) (c : Call) :
    TInv cuid n ⟨net.nodes.set i { nd with r := (nd.r.call c).1 }, net.log⟩ := by
  obtain ⟨net0, ap, nd0, I, Ab, h0, An, hin⟩ := T.at_node hi
  have N0 := I.node i nd0 h0
  have K := T.node i nd hi
  obtain ⟨v1, v2, new, v3, v4⟩ := call_view nd.r nd0.r c An.st An.id
  obtain ⟨hmono, hnew⟩ := call_new_good N0 c v3
  obtain ⟨ap', I'⟩ := I.call c h0
  have hsl : nd.r.state = .list _ := An.st ▸ N0.st
  have hnp := call_no_panic nd.r _ hsl (size_eq_liveCount _ N0.lc) c
  have hnh : ∀ o ∈ new, isHdr o = false := by
    intro o ho
    rcases hnew with rfl | ⟨o', rfl, g, _⟩
    · cases ho
    · simp only [List.mem_singleton] at ho; subst ho; exact g.nh
  refine T.set_node hi (Or.inl rfl) I' (abs_set Ab ?_) ?_
  · exact An.extend K.pushed_le v1 v2 v4 (by rw [v3, eraseB_all hnh])
  · refine K.extend v4 ?_ (rbInv_call nd.r c K.rb hnp) ?_ ?_ ?_
    · rcases hnew with rfl | ⟨o', rfl, g, _⟩
      · exact Or.inl rfl
      · exact Or.inr (Or.inl ⟨o', rfl, g.nh⟩)
    · intro o ho
      rcases hnew with rfl | ⟨o', rfl, g, g1, g2⟩
      · cases ho
      · simp only [List.mem_singleton] at ho
        subst ho
        rw [← v2, ← An.id]
        exact ⟨g.cu, g.safe, by omega, by omega⟩
    · rcases hnew with rfl | ⟨o', rfl, _⟩
      · exact List.Pairwise.nil
      · exact List.pairwise_singleton _ _
    · rw [← v2, ← An.id]; exact hmono

end TInv


theorem wire_hdr (id : OpId) (tag : String) (k : Int) :
    Op.wire ⟨id, .transaction tag k⟩ = ⟨id, .transaction tag k⟩ := rfl

/-- what a transaction does to a replica of a reachable node (`nd0`, `N0`: its `ListNet` image): either NOTHING
    (state, clock, buffer, checkpoint as before: the body failed and the rollback restored everything) or ONE unit
    `header :: ops` is appended; it never panics -/
theorem tx_cases {cuid : Nat → String} {n : Nat} {log0 : List LEnt} {i : Nat} {nd0 : Node} {A : List LEnt}
    (N0 : NodeInv cuid n log0 i nd0 A) (hin : i < n) (r : Replica) (hs : nd0.r.state = r.state)
    (hid : nd0.r.opId = r.opId) (hrb : r.RbInv) (tag : String) (calls : List Call) (s f : Bool) :
    let r' := (r.txCalls tag calls s f).1
    r'.RbInv ∧
    ((∃ c, (r.txCalls tag calls s f).2.2 = .err c ∧ r'.opId = r.opId ∧ r'.state = r.state ∧ r'.buffer = r.buffer ∧
        r'.cp = r.cp) ∨
     ((r.txCalls tag calls s f).2.2 = .ok () ∧
      ∃ (ops : List Op) (ar1 : Replica) (A1 : List LEnt),
        r'.buffer = r.buffer ++ (⟨r.opId.next, .transaction tag ((ops.length : Int) + 1)⟩ :: ops) ∧
        ar1.state = r'.state ∧ ar1.opId = r'.opId ∧ ar1.buffer = nd0.r.buffer ++ ops ∧
        NodeInv cuid n log0 i ⟨ar1, nd0.pushed, nd0.pulled⟩ A1 ∧
        (∀ o ∈ ops, GoodOp cuid i o ∧ r.opId.lamport + 1 < o.id.lamport) ∧
        r.opId.lamport + 1 ≤ r'.opId.lamport)) := by
  intro r'
  have Nb : NodeInv cuid n log0 i ⟨{ nd0.r with opId := nd0.r.opId.next }, nd0.pushed, nd0.pulled⟩ A :=
    nodeInv_noop N0 (r' := { nd0.r with opId := nd0.r.opId.next }) ⟨rfl, rfl, rfl, rfl, by simp [OpId.next]⟩
  obtain ⟨r1, ops, outs, stopped, pan, hb, hc⟩ := txCalls_cases r tag calls s f
  obtain ⟨hpan, ar1, A1, new, e1, e2, e3, e4, N1, e5, e6⟩ :=
    body_sim hin s calls { r with opId := r.opId.next } [] [] { nd0.r with opId := nd0.r.opId.next } A hs
      (by show nd0.r.opId.next = r.opId.next; rw [hid]) Nb hb
  subst hpan
  simp only [List.nil_append] at e1
  subst e1
  have hbo := body_ok _ _ _ _ _ hb
  have hf : r1.frame r = r1 := hbo.frame
  rcases hc with ⟨w, hw, _⟩ | ⟨_, hst, e⟩ | ⟨_, hst, e⟩
  · cases hw
  · obtain ⟨r2, hr, g1, g2, g3, g4, g5, g6, g7⟩ := rollback_of_rbInv hrb hf
    rw [hr] at e
    simp only at e
    have er : r' = r2 := by show (r.txCalls tag calls s f).1 = r2; rw [e]
    rw [er]
    refine ⟨rbInv_of_rb_eq (by rw [g5, g1]) (by rw [g6, g2]) g7, Or.inl ⟨Err.transaction, by rw [e], g1, g2, g3, g4⟩⟩
  · have hp : (r.txCalls tag calls s f).2.2.isPanic = false := by rw [e]; rfl
    have hrb' := rbInv_txCalls r tag calls s f hrb hp
    obtain ⟨_, f2, _⟩ := frame_fields hf
    have er : r' =
        { r1 with
          rbOps := r1.rbOps ++ (⟨r.opId.next, .transaction tag (ops.length + 1)⟩ :: ops),
          buffer := r1.buffer ++ (⟨r.opId.next, .transaction tag (ops.length + 1)⟩ :: ops).map Op.wire } := by
      show (r.txCalls tag calls s f).1 = _; rw [e]
    refine ⟨hrb', Or.inr ⟨by rw [e], ops.map Op.wire, ar1, A1, ?_, ?_, ?_, e4, N1, ?_, ?_⟩⟩
    · rw [er]
      show r1.buffer ++ _ = _
      rw [f2, List.map_cons, wire_hdr, List.length_map]
    · rw [er]; exact e2
    · rw [er]; exact e3
    · intro o ho
      obtain ⟨o', ho', rfl⟩ := List.mem_map.mp ho
      obtain ⟨g1, g2⟩ := e5 o' ho'
      refine ⟨g1, ?_⟩
      rw [wire_id]
      have : ({ nd0.r with opId := nd0.r.opId.next } : Replica).opId.lamport = r.opId.lamport + 1 := by
        show nd0.r.opId.next.lamport = _; rw [hid]; rfl
      omega
    · rw [er]
      show r.opId.lamport + 1 ≤ r1.opId.lamport
      rw [← e3]
      have : ({ nd0.r with opId := nd0.r.opId.next } : Replica).opId.lamport = r.opId.lamport + 1 := by
        show nd0.r.opId.next.lamport = _; rw [hid]; rfl
      omega

namespace TInv
variable {cuid : Nat → String} {n : Nat} {net : Net}

/-- a user transaction -/
theorem tx (T : TInv cuid n net) {i : Nat} {nd : Node} (hi : net.nodes[i]? = some nd) (tag : String)
    (calls : List Call) (s f : Bool) :
    TInv cuid n ⟨net.nodes.set i { nd with r := (nd.r.txCalls tag calls s f).1 }, net.log⟩ := by
  obtain ⟨net0, ap, nd0, I, Ab, h0, An, hin⟩ := T.at_node hi
  have N0 := I.node i nd0 h0
  have K := T.node i nd hi
  obtain ⟨hrb', hc⟩ := tx_cases N0 hin nd.r An.st An.id K.rb tag calls s f
  rcases hc with ⟨c, _, g1, g2, g3, _⟩ | ⟨_, ops, ar1, A1, hb, e2, e3, e4, N1, e5, e6⟩
  · -- nothing happened
    have I' : Inv cuid n ⟨net0.nodes.set i nd0, net0.log⟩ ap := by rw [set_self h0]; exact I
    refine T.set_node hi (Or.inl rfl) I' (abs_set Ab ?_) ?_
    · have := An.extend (u := []) K.pushed_le (r' := (nd.r.txCalls tag calls s f).1) (r0' := nd0.r)
        (An.st.trans g2.symm) (An.id.trans g1.symm) (by rw [g3]; simp) (by simp [eraseB])
      exact this
    · exact K.extend (u := []) (by rw [g3]; simp) (Or.inl rfl) hrb' (by simp) List.Pairwise.nil (by rw [g1]; exact Nat.le_refl _)
  · -- one unit
    have I' := inv_replace I h0 N1
    have hnh : ∀ o ∈ ops, isHdr o = false := fun o ho => (e5 o ho).1.nh
    have hcu : nd.r.opId.cuid = cuid i := by rw [← An.id]; exact N0.clock_cuid
    refine T.set_node hi (Or.inl rfl) I' (abs_set Ab ?_) ?_
    · refine An.extend (r0' := ar1) K.pushed_le e2 e3 hb ?_
      rw [e4]
      congr 1
      show _ = List.filter nh _
      rw [List.filter_cons]
      have hh : isHdr (⟨nd.r.opId.next, .transaction tag ((ops.length : Int) + 1)⟩ : Op) = true := rfl
      simp only [nh, hh, Bool.not_true, Bool.false_eq_true, if_false]
      exact (eraseB_all hnh).symm
    · have hlam : ∀ o ∈ ops, o.id.lamport ≤ (nd.r.txCalls tag calls s f).1.opId.lamport := by
        intro o ho
        rw [← e3]
        exact N1.buf_lam (show o ∈ ar1.buffer by rw [e4]; exact List.mem_append_right _ ho)
      refine K.extend hb (Or.inr (Or.inr ⟨_, _, ops, rfl, hnh⟩)) hrb' ?_ ?_ (by omega)
      · intro o ho
        rcases List.mem_cons.mp ho with rfl | ho
        · exact ⟨hcu, hdr_safe rfl, by simp [OpId.next], by simp only [OpId.next]; omega⟩
        · exact ⟨(e5 o ho).1.cu, (e5 o ho).1.safe, by have := (e5 o ho).2; omega, hlam o ho⟩
      · refine List.pairwise_cons.mpr ⟨?_, ?_⟩
        · intro o ho
          have := (e5 o ho).2
          simp only [OpId.next]
          omega
        · have := N1.buf_sorted
          change ar1.buffer.Pairwise _ at this
          rw [e4] at this
          exact (List.pairwise_append.mp this).2.1

end TInv


theorem own_map_self (i : Nat) (u : List Op) :
    own i (u.map (fun o => ((i, o) : LEnt))) = u.map (fun o => (i, o)) := by
  unfold own
  rw [List.filter_eq_self]
  intro e he
  obtain ⟨o, _, rfl⟩ := List.mem_map.mp he
  simp

theorem own_map_ne {i a : Nat} (h : a ≠ i) (u : List Op) : own i (u.map (fun o => ((a, o) : LEnt))) = [] := by
  unfold own
  rw [List.filter_eq_nil_iff]
  intro e he
  obtain ⟨o, _, rfl⟩ := List.mem_map.mp he
  simp [h]

theorem NodeOK.log_append {cuid : Nat → String} {log : List LEnt} {j : Nat} {nd : Node} (K : NodeOK cuid log j nd)
    {i : Nat} (hne : j ≠ i) {x : List Op} (hx : UnitsB x) :
    NodeOK cuid (log ++ x.map (fun o => ((i, o) : LEnt))) j nd where
  rb := K.rb
  pushed_le := K.pushed_le
  pulled_le := by rw [List.length_append]; exact Nat.le_trans K.pulled_le (Nat.le_add_right _ _)
  rest_units := K.rest_units
  pull_units := by
    rw [List.drop_append_of_le_length K.pulled_le]
    exact unitsL_append K.pull_units (unitsL_of_B i hx)
  buf_ok := K.buf_ok
  log_own := by rw [own_append, own_map_ne (fun e => hne e.symm), List.append_nil]; exact K.log_own
  buf_sorted := K.buf_sorted
  buf_lam := K.buf_lam

theorem AbsNode.log_append {log : List LEnt} {nd nd0 : Node} (An : AbsNode log nd nd0) (hp : nd.pulled ≤ log.length)
    (x : List LEnt) : AbsNode (log ++ x) nd nd0 where
  st := An.st
  id := An.id
  buf := An.buf
  pushed := An.pushed
  pulled := by rw [List.take_append_of_le_length hp]; exact An.pulled

namespace TInv
variable {cuid : Nat → String} {n : Nat} {net : Net}

/-- the whole unpushed rest of the buffer goes to the log -/
theorem pushAll (T : TInv cuid n net) {i : Nat} {nd : Node} (hi : net.nodes[i]? = some nd) :
    TInv cuid n ⟨net.nodes.set i { nd with pushed := nd.r.buffer.length },
      net.log ++ (nd.r.buffer.drop nd.pushed).map (fun o => (i, o))⟩ := by
  obtain ⟨net0, ap, nd0, I, Ab, h0, An, hin⟩ := T.at_node hi
  have N0 := I.node i nd0 h0
  have K := T.node i nd hi
  have I' := inv_pushes (nd0.r.buffer.length - nd0.pushed) net0 nd0 I h0 (by have := N0.pushed_le; omega)
  have hdrop : eraseB (nd.r.buffer.drop nd.pushed) = nd0.r.buffer.drop nd0.pushed := by
    rw [An.buf, An.pushed]
    exact (filter_drop_len nh nd.r.buffer nd.pushed).symm
  refine ⟨⟨_, ap, I', ?_⟩, ?_, ?_, ?_, ?_⟩
  · refine ⟨?_, by simp [Ab.len], ?_⟩
    · show net0.log ++ _ = eraseL (net.log ++ _)
      rw [eraseL_append, eraseL_map, Ab.log, hdrop]
    · intro j ndj hj
      rcases getElem?_set_some hj with ⟨rfl, rfl⟩ | ⟨hne, hj'⟩
      · refine ⟨{ nd0 with pushed := nd0.r.buffer.length }, getElem?_set_self' h0, ?_⟩
        have A1 := An.log_append K.pulled_le ((nd.r.buffer.drop nd.pushed).map (fun o => ((j, o) : LEnt)))
        exact {
          st := A1.st
          id := A1.id
          buf := A1.buf
          pushed := by
            show nd0.r.buffer.length = (eraseB (nd.r.buffer.take nd.r.buffer.length)).length
            rw [List.take_length, An.buf]
          pulled := A1.pulled }
      · obtain ⟨ndj0, g1, g2⟩ := Ab.node j ndj hj'
        refine ⟨ndj0, ?_, g2.log_append (T.node j ndj hj').pulled_le _⟩
        show (net0.nodes.set i _)[j]? = some ndj0
        rw [List.getElem?_set_ne (fun e => hne e.symm)]
        exact g1
  · intro j ndj hj
    rcases getElem?_set_some hj with ⟨rfl, rfl⟩ | ⟨hne, hj'⟩
    · exact {
        rb := K.rb
        pushed_le := Nat.le_refl _
        pulled_le := by
          show nd.pulled ≤ (net.log ++ _).length
          rw [List.length_append]; exact Nat.le_trans K.pulled_le (Nat.le_add_right _ _)
        rest_units := by
          show UnitsB (nd.r.buffer.drop nd.r.buffer.length)
          rw [List.drop_length]; exact unitsB_nil
        pull_units := by
          show UnitsL ((net.log ++ _).drop nd.pulled)
          rw [List.drop_append_of_le_length K.pulled_le]
          exact unitsL_append K.pull_units (unitsL_of_B j K.rest_units)
        buf_ok := K.buf_ok
        log_own := by
          show own j (net.log ++ _) = (nd.r.buffer.take nd.r.buffer.length).map _
          rw [own_append, own_map_self, K.log_own, ← List.map_append, List.take_append_drop, List.take_length]
        buf_sorted := K.buf_sorted
        buf_lam := K.buf_lam }
    · exact (T.node j ndj hj').log_append hne K.rest_units
  · obtain ⟨units, h1, h2, h3⟩ := T.log_units
    obtain ⟨us, hus, hall⟩ := K.rest_units
    refine ⟨units ++ us.map (fun u => (i, u)), ?_, ?_, ?_⟩
    · show net.log ++ _ = _
      rw [flatU_append, flatU_map_author, ← hus, h1]
    · intro au hau
      rcases List.mem_append.mp hau with h | h
      · exact h2 au h
      · obtain ⟨u, hu, rfl⟩ := List.mem_map.mp h
        exact hall u hu
    · intro j ndj hj
      have hk : ∃ k, ndj.pulled = (flatU (units.take k)).length := by
        rcases getElem?_set_some hj with ⟨rfl, rfl⟩ | ⟨hne, hj'⟩
        · exact h3 j nd hi
        · exact h3 j ndj hj'
      obtain ⟨k, hk⟩ := hk
      by_cases hle : k ≤ units.length
      · exact ⟨k, by rw [List.take_append_of_le_length hle]; exact hk⟩
      · refine ⟨units.length, ?_⟩
        rw [List.take_append_of_le_length (Nat.le_refl _), List.take_length, hk,
          List.take_of_length_le (by omega)]
  · intro e he
    rcases List.mem_append.mp he with h | h
    · exact T.log_ok e h
    · obtain ⟨o, ho, rfl⟩ := List.mem_map.mp h
      have := K.buf_ok o (List.mem_of_mem_drop ho)
      exact ⟨hin, this.1, this.2⟩
  · have hsplit : (nd.r.buffer.take nd.pushed ++ nd.r.buffer.drop nd.pushed).Pairwise
        (fun o o' => o.id.lamport < o'.id.lamport) := by
      rw [List.take_append_drop]; exact K.buf_sorted
    obtain ⟨_, hs2, hs3⟩ := List.pairwise_append.mp hsplit
    refine List.pairwise_append.mpr ⟨T.log_keys, ?_, ?_⟩
    · rw [List.pairwise_map]
      refine hs2.imp ?_
      intro a b hab e0
      simp only [lkey, Prod.mk.injEq] at e0
      omega
    · intro e he e' he'
      obtain ⟨o, ho, rfl⟩ := List.mem_map.mp he'
      intro e0
      simp only [lkey, Prod.mk.injEq] at e0
      by_cases hei : e.1 = i
      · obtain ⟨a, oe⟩ := e
        simp only at hei
        subst hei
        have : (a, oe) ∈ own a net.log := mem_own.mpr ⟨he, rfl⟩
        rw [K.log_own] at this
        obtain ⟨o', ho', h2⟩ := List.mem_map.mp this
        simp only [Prod.mk.injEq, true_and] at h2
        subst h2
        have := hs3 o' ho' o ho
        simp only at e0
        omega
      · obtain ⟨g1, g2, _⟩ := T.log_ok e he
        have := (K.buf_ok o (List.mem_of_mem_drop ho)).1
        rw [g2, this] at e0
        exact hei (I.distinct e.1 i g1 hin e0.2)

/-- what `receive` does with the rest of the log: every foreign unit is applied, the result is `.ok ()` -/
theorem recv (T : TInv cuid n net) {i : Nat} {nd : Node} (hi : net.nodes[i]? = some nd) {nd0 : Node}
    (An : AbsNode net.log nd nd0) {l : Rga} (hs : nd.r.state = .list l) :
    ∃ R' l', nd.r.receive (pullOps net.log i nd) = (R', .ok ()) ∧
      Le ((eraseL (net.log.drop nd.pulled)).foldl (pullF i) nd0.r) R' ∧ R'.state = .list l' := by
  have K := T.node i nd hi
  obtain ⟨units, hu, hall⟩ := K.pull_units
  have hsafe : ∀ au ∈ units, IsUnit au.2 ∧ ∀ o ∈ au.2, RemoteSafe o.body := by
    intro au hau
    refine ⟨hall au hau, ?_⟩
    intro o ho
    have hm : (au.1, o) ∈ net.log := by
      apply List.mem_of_mem_drop (i := nd.pulled)
      rw [hu]
      unfold flatU
      exact List.mem_flatMap.mpr ⟨au, hau, List.mem_map.mpr ⟨o, ho, rfl⟩⟩
    exact (T.log_ok _ hm).2.2
  have hle : Le nd0.r nd.r := ⟨An.st, by rw [An.id], by rw [An.id], by rw [An.id]; exact Nat.le_refl _⟩
  unfold pullOps Replica.receive
  rw [hu]
  exact recv_sim i units hsafe _ nd0.r nd.r l hle hs (Nat.le_refl _)

/-- the whole rest of the log is consumed -/
theorem pullAll (T : TInv cuid n net) {i : Nat} {nd : Node} (hi : net.nodes[i]? = some nd) :
    TInv cuid n ⟨net.nodes.set i { nd with r := (nd.r.receive (pullOps net.log i nd)).1, pulled := net.log.length },
      net.log⟩ := by
  obtain ⟨net0, ap, nd0, I, Ab, h0, An, hin⟩ := T.at_node hi
  have N0 := I.node i nd0 h0
  have K := T.node i nd hi
  have hsl : nd.r.state = .list _ := An.st ▸ N0.st
  obtain ⟨R', l', hrecv, hle, hst'⟩ := T.recv hi An hsl
  have hes : eraseL (net.log.drop nd.pulled) = net0.log.drop nd0.pulled := by
    rw [Ab.log, An.pulled]
    exact (filter_drop_len _ net.log nd.pulled).symm
  rw [hes] at hle
  -- the pulls of `ListNet`
  obtain ⟨ap1, I1⟩ := inv_pulls (net0.log.drop nd0.pulled) net0 ap nd0 I h0 (by
    intro k hk
    rw [List.getElem_drop, List.getElem?_eq_getElem])
  -- … then the clock is bumped to the clock of the real replica
  have hi1 : ∀ nd1 : Node, (net0.nodes.set i nd1)[i]? = some nd1 := fun nd1 => getElem?_set_self' h0
  obtain ⟨ap2, I2⟩ := inv_noop I1 (hi1 _)
    (r' := { (net0.log.drop nd0.pulled).foldl (pullF i) nd0.r with opId := R'.opId })
    ⟨rfl, rfl, hle.cu.symm, hle.era.symm, hle.lam⟩
  simp only [List.set_set] at I2
  have hfld := receive_fields nd.r (pullOps net.log i nd)
  rw [hrecv] at hfld
  obtain ⟨f1, _, f3, _⟩ := hfld
  simp only at f1 f3
  have er : (nd.r.receive (pullOps net.log i nd)).1 = R' := by rw [hrecv]
  rw [er]
  have hcu : nd.r.opId.cuid = cuid i := by rw [← An.id]; exact N0.clock_cuid
  refine T.set_node hi (Or.inr rfl) I2 (abs_set Ab ?_) ?_
  · exact {
      st := hle.st
      id := rfl
      buf := by
        show ((net0.log.drop nd0.pulled).foldl (pullF i) nd0.r).buffer = eraseB R'.buffer
        rw [foldl_pullF_buffer, f1, An.buf]
      pushed := by
        show nd0.pushed = (eraseB (R'.buffer.take nd.pushed)).length
        rw [f1]; exact An.pushed
      pulled := by
        show nd0.pulled + (net0.log.drop nd0.pulled).length = (eraseL (net.log.take net.log.length)).length
        rw [List.take_length, ← Ab.log, List.length_drop]
        have := N0.pulled_le
        omega }
  · have hp : (nd.r.receive (pullOps net.log i nd)).2.isPanic = false := by rw [hrecv]; rfl
    have hforeign : ∀ o ∈ pullOps net.log i nd, o.id.cuid ≠ nd.r.opId.cuid := by
      intro o ho
      unfold pullOps at ho
      obtain ⟨e, he, rfl⟩ := List.mem_map.mp ho
      obtain ⟨he1, he2⟩ := mem_oth.mp he
      obtain ⟨g1, g2, _⟩ := T.log_ok e (List.mem_of_mem_drop he1)
      rw [g2, hcu]
      intro e0
      exact he2 (I.distinct e.1 i g1 hin e0)
    have hrb := rbInv_receive nd.r _ K.rb hforeign hp
    rw [er] at hrb
    have hmono := lamport_mono_receive nd.r (pullOps net.log i nd)
    rw [er] at hmono
    exact {
      rb := hrb
      pushed_le := by show nd.pushed ≤ R'.buffer.length; rw [f1]; exact K.pushed_le
      pulled_le := Nat.le_refl _
      rest_units := by show UnitsB (R'.buffer.drop nd.pushed); rw [f1]; exact K.rest_units
      pull_units := by
        show UnitsL (net.log.drop net.log.length)
        rw [List.drop_length]; exact unitsL_nil
      buf_ok := by
        intro o ho
        change o ∈ R'.buffer at ho
        rw [f1] at ho
        exact K.buf_ok o ho
      log_own := by
        show own i net.log = (R'.buffer.take nd.pushed).map _
        rw [f1]; exact K.log_own
      buf_sorted := by show R'.buffer.Pairwise _; rw [f1]; exact K.buf_sorted
      buf_lam := by
        intro o ho
        change o ∈ R'.buffer at ho
        show _ ≤ R'.opId.lamport
        rw [f1] at ho
        exact Nat.le_trans (K.buf_lam o ho) hmono }

theorem step (T : TInv cuid n net) {net' : Net} (h : Step net net') : TInv cuid n net' := by
  cases h with
  | call i nd c hi => exact T.call hi c
  | tx i nd tag calls s f hi => exact T.tx hi tag calls s f
  | pushAll i nd hi => exact T.pushAll hi
  | pullAll i nd hi => exact T.pullAll hi

end TInv

theorem init_node {cuid : Nat → String} {n i : Nat} {nd : Node} (hi : (Net.init cuid n).nodes[i]? = some nd) :
    nd = ⟨Replica.new .list (cuid i) false, 0, 0⟩ ∧ i < n := by
  simp only [Net.init, List.getElem?_map] at hi
  cases hr : (List.range n)[i]? with
  | none => rw [hr] at hi; cases hi
  | some k =>
    rw [hr] at hi
    obtain ⟨hlt, hk⟩ := List.getElem?_eq_some_iff.mp hr
    simp only [List.getElem_range] at hk
    subst hk
    simp only [Option.map_some, Option.some.injEq] at hi
    exact ⟨hi.symm, by simpa using hlt⟩

theorem tinv_init {cuid : Nat → String} {n : Nat} (hc : CuidsDistinct cuid n) : TInv cuid n (Net.init cuid n) where
  sim := by
    refine ⟨Net.init cuid n, _, inv_init hc, rfl, rfl, ?_⟩
    intro i nd hi
    refine ⟨nd, hi, ?_⟩
    obtain ⟨rfl, _⟩ := init_node hi
    exact ⟨rfl, rfl, rfl, rfl, rfl⟩
  node := by
    intro i nd hi
    obtain ⟨rfl, _⟩ := init_node hi
    exact {
      rb := rbInv_new _ _ _
      pushed_le := Nat.le_refl _
      pulled_le := Nat.le_refl _
      rest_units := unitsB_nil
      pull_units := unitsL_nil
      buf_ok := by intro o ho; cases ho
      log_own := rfl
      buf_sorted := List.Pairwise.nil
      buf_lam := by intro o ho; cases ho }
  log_units := by
    refine ⟨[], rfl, by simp, ?_⟩
    intro i nd hi
    obtain ⟨rfl, _⟩ := init_node hi
    exact ⟨0, rfl⟩
  log_ok := by intro e he; cases he
  log_keys := List.Pairwise.nil

/-- **the invariant holds in every reachable state** -/
theorem tinv_reach {cuid : Nat → String} {n : Nat} {net : Net} (h : Reach cuid n net) : TInv cuid n net := by
  induction h with
  | init hc => exact tinv_init hc
  | step _ hs ih => exact ih.step hs


/-! ## 7. the theorems -/

section theorems
variable {cuid : Nat → String} {n : Nat} {net : Net}

/-- in a reachable state a transaction (ANY body) never panics: it ends with `.ok ()` or with an error -/
theorem ltx_tx_never_panics (h : Reach cuid n net) {i : Nat} {nd : Node} (hi : net.nodes[i]? = some nd)
    (tag : String) (calls : List Call) (stopOnErr failAtEnd : Bool) :
    (nd.r.txCalls tag calls stopOnErr failAtEnd).2.2 = .ok () ∨
      ∃ c, (nd.r.txCalls tag calls stopOnErr failAtEnd).2.2 = .err c := by
  have T := tinv_reach h
  obtain ⟨net0, ap, nd0, I, Ab, h0, An, hin⟩ := T.at_node hi
  obtain ⟨_, hc⟩ := tx_cases (I.node i nd0 h0) hin nd.r An.st An.id (T.node i nd hi).rb tag calls stopOnErr failAtEnd
  rcases hc with ⟨c, hc, _⟩ | ⟨hok, _⟩
  · exact Or.inr ⟨c, hc⟩
  · exact Or.inl hok

/-- **a failing transaction changes nothing on its node**: operation identifier, state, buffer, checkpoint are what they
    were (whatever the body did before it failed: valid and refused calls, reads, early return, failing user function) -/
theorem ltx_failed_tx_is_noop (h : Reach cuid n net) {i : Nat} {nd : Node} (hi : net.nodes[i]? = some nd)
    (tag : String) (calls : List Call) (stopOnErr failAtEnd : Bool) (c : Nat)
    (herr : (nd.r.txCalls tag calls stopOnErr failAtEnd).2.2 = .err c) :
    let r' := (nd.r.txCalls tag calls stopOnErr failAtEnd).1
    r'.opId = nd.r.opId ∧ r'.state = nd.r.state ∧ r'.buffer = nd.r.buffer ∧ r'.cp = nd.r.cp :=
  txCalls_fail_restores nd.r ((tinv_reach h).node i nd hi).rb tag calls stopOnErr failAtEnd c herr

/-- … stated for the system: after the `tx` step of a failing transaction the log is the same and every node has the same
    state, operation identifier, buffer, checkpoint and counters as before -/
theorem ltx_failed_tx_is_noop_net (h : Reach cuid n net) {i : Nat} {nd : Node} (hi : net.nodes[i]? = some nd)
    (tag : String) (calls : List Call) (stopOnErr failAtEnd : Bool) (c : Nat)
    (herr : (nd.r.txCalls tag calls stopOnErr failAtEnd).2.2 = .err c) {net' : Net}
    (hnet : net' = ⟨net.nodes.set i { nd with r := (nd.r.txCalls tag calls stopOnErr failAtEnd).1 }, net.log⟩) :
    Step net net' ∧ net'.log = net.log ∧ ∀ (j : Nat) (nd' : Node), net'.nodes[j]? = some nd' →
      ∃ ndj, net.nodes[j]? = some ndj ∧ nd'.r.opId = ndj.r.opId ∧ nd'.r.state = ndj.r.state ∧
        nd'.r.buffer = ndj.r.buffer ∧ nd'.r.cp = ndj.r.cp ∧ nd'.pushed = ndj.pushed ∧ nd'.pulled = ndj.pulled := by
  subst hnet
  refine ⟨.tx net i nd tag calls stopOnErr failAtEnd hi, rfl, ?_⟩
  intro j nd' hj
  rcases getElem?_set_some hj with ⟨rfl, rfl⟩ | ⟨hne, hj'⟩
  · obtain ⟨g1, g2, g3, g4⟩ := ltx_failed_tx_is_noop h hi tag calls stopOnErr failAtEnd c herr
    exact ⟨nd, hi, g1, g2, g3, g4, rfl, rfl⟩
  · exact ⟨nd', hj', rfl, rfl, rfl, rfl, rfl, rfl⟩

/-- **a committed transaction appends exactly ONE unit** `header :: ops` to the buffer; the header carries the first
    identifier of the transaction and announces the unit's length; `ops` (the operations of the successful calls of the
    body) contains no header, and every operation is safe to execute remotely and carries the node's client identifier -/
theorem ltx_committed_tx_is_one_unit (h : Reach cuid n net) {i : Nat} {nd : Node} (hi : net.nodes[i]? = some nd)
    (tag : String) (calls : List Call) (stopOnErr failAtEnd : Bool)
    (hok : (nd.r.txCalls tag calls stopOnErr failAtEnd).2.2 = .ok ()) :
    let r' := (nd.r.txCalls tag calls stopOnErr failAtEnd).1
    ∃ ops : List Op,
      r'.buffer = nd.r.buffer ++ (⟨nd.r.opId.next, .transaction tag ((ops.length : Int) + 1)⟩ :: ops) ∧
      IsUnit (⟨nd.r.opId.next, .transaction tag ((ops.length : Int) + 1)⟩ :: ops) ∧
      ∀ o ∈ ops, isHdr o = false ∧ RemoteSafe o.body ∧ o.id.cuid = cuid i ∧ nd.r.opId.lamport + 1 < o.id.lamport := by
  intro r'
  have T := tinv_reach h
  obtain ⟨net0, ap, nd0, I, Ab, h0, An, hin⟩ := T.at_node hi
  obtain ⟨_, hc⟩ := tx_cases (I.node i nd0 h0) hin nd.r An.st An.id (T.node i nd hi).rb tag calls stopOnErr failAtEnd
  rcases hc with ⟨c, hc, _⟩ | ⟨_, ops, ar1, A1, hb, _, _, _, _, e5, _⟩
  · rw [hok] at hc; cases hc
  · refine ⟨ops, hb, Or.inr ⟨_, _, ops, rfl, fun o ho => (e5 o ho).1.nh⟩, ?_⟩
    intro o ho
    exact ⟨(e5 o ho).1.nh, (e5 o ho).1.safe, (e5 o ho).1.cu, (e5 o ho).2⟩

/-- **units are contiguous in the log**, in every reachable state: the log is a concatenation of units -/
theorem ltx_log_is_units (h : Reach cuid n net) : ∃ units : List (Nat × List Op),
    net.log = units.flatMap (fun (a, u) => u.map (a, ·)) ∧ ∀ au ∈ units, IsUnit au.2 := by
  obtain ⟨units, h1, h2, _⟩ := (tinv_reach h).log_units
  exact ⟨units, h1, h2⟩

/-- **`receive` never refuses and never panics in the system**: what a node hands to `receive` when it pulls is accepted -/
theorem ltx_receive_ok (h : Reach cuid n net) {i : Nat} {nd : Node} (hi : net.nodes[i]? = some nd) :
    (nd.r.receive (pullOps net.log i nd)).2 = .ok () := by
  have T := tinv_reach h
  obtain ⟨net0, ap, nd0, I, Ab, h0, An, hin⟩ := T.at_node hi
  have hsl : nd.r.state = .list _ := An.st ▸ (I.node i nd0 h0).st
  obtain ⟨R', l', hrecv, _⟩ := T.recv hi An hsl
  rw [hrecv]

/-- where unit `j` of a decomposition starts in the log -/
def unitStart (units : List (Nat × List Op)) (j : Nat) : Nat := (flatU (units.take j)).length

theorem unitStart_mono (units : List (Nat × List Op)) {j k : Nat} (h : j ≤ k) : unitStart units j ≤ unitStart units k := by
  unfold unitStart
  obtain ⟨t, ht⟩ := List.take_prefix_take_left (l := units) h
  rw [← ht, flatU_append, List.length_append]
  exact Nat.le_add_right _ _

/-- **ALL OR NOTHING, by log position**: there is ONE decomposition of the log into units such that every node, at every
    moment, has consumed (`p < pulled`) either ALL positions of a unit or NONE of them — `pulled` never sits inside a unit.
    (`ltx_nodes_applied_ops` ties `pulled` to the state: the state of a node is the application of its own operations and
    of the foreign entries among the first `pulled` ones.) -/
theorem ltx_all_or_nothing_pos (h : Reach cuid n net) : ∃ units : List (Nat × List Op),
    net.log = flatU units ∧ (∀ au ∈ units, IsUnit au.2) ∧
    ∀ (i : Nat) (nd : Node), net.nodes[i]? = some nd → ∀ j, j < units.length →
      (∀ p, unitStart units j ≤ p → p < unitStart units (j + 1) → p < nd.pulled) ∨
      (∀ p, unitStart units j ≤ p → p < unitStart units (j + 1) → ¬ p < nd.pulled) := by
  obtain ⟨units, h1, h2, h3⟩ := (tinv_reach h).log_units
  refine ⟨units, h1, h2, ?_⟩
  intro i nd hi j _
  obtain ⟨k, hk⟩ := h3 i nd hi
  by_cases hjk : j + 1 ≤ k
  · left
    intro p _ hp
    have := unitStart_mono units hjk
    unfold unitStart at this hp
    omega
  · right
    intro p hp _
    have := unitStart_mono units (show k ≤ j by omega)
    unfold unitStart at this hp
    omega

/-- node `i` has applied the log entry `e` of another node: `e` is among the entries `i` has consumed -/
def Applied (net : Net) (i : Nat) (e : LEnt) : Prop :=
  ∃ nd, net.nodes[i]? = some nd ∧ e ∈ oth i (net.log.take nd.pulled)

/-- no two entries of the log are equal (headers included) -/
theorem ltx_log_nodup (h : Reach cuid n net) : net.log.Nodup := nodup_of_keys (tinv_reach h).log_keys

/-- **ALL OR NOTHING**: in every reachable state every node has applied, of every unit of the log authored by another
    node, either ALL operations or NONE -/
theorem ltx_all_or_nothing (h : Reach cuid n net) : ∃ units : List (Nat × List Op),
    net.log = units.flatMap (fun (a, u) => u.map (a, ·)) ∧ (∀ au ∈ units, IsUnit au.2) ∧
    ∀ (i : Nat) (nd : Node), net.nodes[i]? = some nd → ∀ au ∈ units, au.1 ≠ i →
      (∀ o ∈ au.2, Applied net i (au.1, o)) ∨ (∀ o ∈ au.2, ¬ Applied net i (au.1, o)) := by
  have T := tinv_reach h
  obtain ⟨units, h1, h2, h3⟩ := T.log_units
  refine ⟨units, h1, h2, ?_⟩
  intro i nd hi au hau hne
  obtain ⟨k, hk⟩ := h3 i nd hi
  have hsplit : net.log = flatU (units.take k) ++ flatU (units.drop k) := by
    rw [← flatU_append, List.take_append_drop]; exact h1
  have htake : net.log.take nd.pulled = flatU (units.take k) := by
    rw [hsplit, hk, List.take_left]
  have hdrop : net.log.drop nd.pulled = flatU (units.drop k) := by
    rw [hsplit, hk, List.drop_left]
  have hmem : ∀ (us : List (Nat × List Op)), au ∈ us → ∀ o ∈ au.2, (au.1, o) ∈ flatU us := by
    intro us hus o ho
    unfold flatU
    exact List.mem_flatMap.mpr ⟨au, hus, List.mem_map.mpr ⟨o, ho, rfl⟩⟩
  rw [← List.take_append_drop k units] at hau
  rcases List.mem_append.mp hau with hin | hin
  · left
    intro o ho
    exact ⟨nd, hi, mem_oth.mpr ⟨by rw [htake]; exact hmem _ hin o ho, hne⟩⟩
  · right
    intro o ho ⟨nd', hi', hm⟩
    rw [hi] at hi'
    simp only [Option.some.injEq] at hi'
    subst hi'
    have h1' := (mem_oth.mp hm).1
    have h2' : (au.1, o) ∈ net.log.drop nd.pulled := by rw [hdrop]; exact hmem _ hin o ho
    have hnd := ltx_log_nodup h
    rw [← List.take_append_drop nd.pulled net.log] at hnd
    exact (List.nodup_append.mp hnd).2.2 _ h1' _ h2' rfl

/-! ### convergence -/

/-- HOW convergence is obtained: erasing the headers from log and buffers (`Abs`) turns every reachable state into a
    state that satisfies the invariant `LNet.Inv` of `ListNet` — every step of this system is a sequence of `ListNet` steps
    (`Inv.call`, `Inv.push`, `Inv.pull`) and clock bumps (`nodeInv_noop`), under which that invariant is closed -/
theorem ltx_erased_satisfies_lnet_inv {cuid : Nat → String} {n : Nat} {net : Net} (h : Reach cuid n net) :
    ∃ net0 ap, Inv cuid n net0 ap ∧ Abs net net0 := (tinv_reach h).sim

theorem appliedOps_abs {net net0 : Net} (Ab : Abs net net0) {i : Nat} {nd nd0 : Node} (An : AbsNode net.log nd nd0) :
    (appliedOps net0.log i nd0).filterMap toL = (appliedOps net.log i nd).filterMap toL := by
  unfold appliedOps
  have e1 : net0.log.take nd0.pulled = eraseL (net.log.take nd.pulled) := by
    rw [Ab.log, An.pulled]
    exact filter_take_len _ net.log nd.pulled
  rw [e1, An.buf, oth_eraseL, eraseL_snd, ← eraseB_append, filterMap_toL_eraseB]

/-- every node's state IS the remote application of a causal sequence that is a permutation of what the operations the
    node has (own buffer, foreign entries among the first `pulled` of the log; headers denote nothing) denote -/
theorem ltx_nodes_applied_ops (h : Reach cuid n net) : ∃ applied : Nat → List LOp,
    ∀ (i : Nat) (nd : Node), net.nodes[i]? = some nd →
      nd.r.state = .list (Rga.empty.applyAllL (applied i)) ∧ LCausal (applied i) ∧
      (applied i).Perm ((appliedOps net.log i nd).filterMap toL) := by
  obtain ⟨net0, ap, I, Ab⟩ := (tinv_reach h).sim
  refine ⟨fun i => den (ap i), ?_⟩
  intro i nd hi
  obtain ⟨nd0, h0, An⟩ := Ab.node i nd hi
  have N0 := I.node i nd0 h0
  refine ⟨An.st ▸ N0.st, N0.lc, ?_⟩
  rw [← appliedOps_abs Ab An]
  exact I.den_perm h0

/-- **convergence survives**: two nodes that have the same operations (`LNet.SameOps`: own buffer ++ consumed foreign log
    entries, as multisets — headers included) hold the SAME list state -/
theorem ltx_same_operations_same_state (h : Reach cuid n net) (i j : Nat) (hi : i < net.nodes.length)
    (hj : j < net.nodes.length) (hsame : SameOps net i j) : net.nodes[i].r.state = net.nodes[j].r.state := by
  obtain ⟨net0, ap, I, Ab⟩ := (tinv_reach h).sim
  have hi' := List.getElem?_eq_getElem hi
  have hj' := List.getElem?_eq_getElem hj
  obtain ⟨ni, nj, hni, hnj, hperm⟩ := hsame
  rw [hi'] at hni
  rw [hj'] at hnj
  simp only [Option.some.injEq] at hni hnj
  subst hni hnj
  obtain ⟨ni0, hi0, Ai⟩ := Ab.node i _ hi'
  obtain ⟨nj0, hj0, Aj⟩ := Ab.node j _ hj'
  have Ni := I.node i ni0 hi0
  have Nj := I.node j nj0 hj0
  have hp : (den (ap i)).Perm (den (ap j)) := by
    refine ((I.den_perm hi0).trans ?_).trans (I.den_perm hj0).symm
    rw [appliedOps_abs Ab Ai, appliedOps_abs Ab Aj]
    exact hperm.filterMap toL
  rw [← Ai.st, ← Aj.st, Ni.st, Nj.st, rga_full_converge_state _ _ hp Ni.lc Nj.lc]

/-- a node that has pushed its whole buffer and consumed the whole log has exactly the operations of the log -/
theorem appliedOps_caught_up (h : Reach cuid n net) {k : Nat} (hk : k < net.nodes.length)
    (q1 : net.nodes[k].pushed = net.nodes[k].r.buffer.length) (q2 : net.nodes[k].pulled = net.log.length) :
    (appliedOps net.log k net.nodes[k]).Perm (net.log.map (·.2)) := by
  have K := (tinv_reach h).node k _ (List.getElem?_eq_getElem hk)
  have h1 : (own k net.log ++ oth k net.log).Perm net.log := List.filter_append_perm _ _
  have h2 := h1.map (·.2)
  rw [K.log_own, q1, List.take_length] at h2
  have e : appliedOps net.log k net.nodes[k] =
      (net.nodes[k].r.buffer.map (fun o => (k, o)) ++ oth k net.log).map (·.2) := by
    simp only [appliedOps, q2, List.take_length, List.map_append, map_snd_pair]
  rw [e]
  exact h2

theorem sameOps_of_caught_up (h : Reach cuid n net) {i j : Nat} (hi : i < net.nodes.length) (hj : j < net.nodes.length)
    (pi : net.nodes[i].pushed = net.nodes[i].r.buffer.length) (li : net.nodes[i].pulled = net.log.length)
    (pj : net.nodes[j].pushed = net.nodes[j].r.buffer.length) (lj : net.nodes[j].pulled = net.log.length) :
    SameOps net i j :=
  ⟨_, _, List.getElem?_eq_getElem hi, List.getElem?_eq_getElem hj,
    (appliedOps_caught_up h hi pi li).trans (appliedOps_caught_up h hj pj lj).symm⟩

theorem sameOps_of_quiescent (h : Reach cuid n net) (hq : Quiescent net) {i j : Nat} (hi : i < net.nodes.length)
    (hj : j < net.nodes.length) : SameOps net i j := by
  obtain ⟨a1, a2⟩ := hq _ (List.getElem_mem hi)
  obtain ⟨b1, b2⟩ := hq _ (List.getElem_mem hj)
  exact sameOps_of_caught_up h hi hj a1 a2 b1 b2

/-- at quiescence (`LNet.Quiescent`: every buffer completely pushed, every node has consumed the whole log) all nodes
    hold the same list state -/
theorem ltx_quiescent_converged (h : Reach cuid n net) (hq : Quiescent net) (i j : Nat) (hi : i < net.nodes.length)
    (hj : j < net.nodes.length) : net.nodes[i].r.state = net.nodes[j].r.state :=
  ltx_same_operations_same_state h i j hi hj (sameOps_of_quiescent h hq hi hj)

/-! ### quiescence is reachable from every state -/

/-- zero or more steps -/
inductive Reaches : Net → Net → Prop
  | refl (net : Net) : Reaches net net
  | tail {a b c : Net} : Reaches a b → Step b c → Reaches a c

theorem reach_of_reaches {net' : Net} (hr : Reach cuid n net) (h : Reaches net net') : Reach cuid n net' := by
  induction h with
  | refl => exact hr
  | tail _ hs ih => exact .step ih hs

theorem Reaches.trans {a b c : Net} (h1 : Reaches a b) (h2 : Reaches b c) : Reaches a c := by
  induction h2 with
  | refl => exact h1
  | tail _ hs ih => exact .tail ih hs

/-- every node pushes its whole buffer, one after the other -/
theorem push_sweep (net : Net) : ∀ k, k ≤ net.nodes.length → ∃ net', Reaches net net' ∧
    net'.nodes.length = net.nodes.length ∧
    ∀ (j : Nat) (nd : Node), j < k → net'.nodes[j]? = some nd → nd.pushed = nd.r.buffer.length
  | 0, _ => ⟨net, .refl net, rfl, fun j nd hj => absurd hj (Nat.not_lt_zero _)⟩
  | k + 1, hk => by
    obtain ⟨net', h1, h2, h3⟩ := push_sweep net k (by omega)
    have hlt : k < net'.nodes.length := by omega
    have hi := List.getElem?_eq_getElem hlt
    refine ⟨_, .tail h1 (.pushAll net' k _ hi), by simp [h2], ?_⟩
    intro j nd hj hnd
    rcases getElem?_set_some hnd with ⟨rfl, rfl⟩ | ⟨hne, hj'⟩
    · rfl
    · exact h3 j nd (by omega) hj'

/-- then every node pulls the whole log, one after the other -/
theorem pull_sweep (net : Net) (hp : ∀ nd ∈ net.nodes, nd.pushed = nd.r.buffer.length) :
    ∀ k, k ≤ net.nodes.length → ∃ net', Reaches net net' ∧
    net'.nodes.length = net.nodes.length ∧ net'.log = net.log ∧
    (∀ nd ∈ net'.nodes, nd.pushed = nd.r.buffer.length) ∧
    ∀ (j : Nat) (nd : Node), j < k → net'.nodes[j]? = some nd → nd.pulled = net.log.length
  | 0, _ => ⟨net, .refl net, rfl, rfl, hp, fun j nd hj => absurd hj (Nat.not_lt_zero _)⟩
  | k + 1, hk => by
    obtain ⟨net', h1, h2, h3, h4, h5⟩ := pull_sweep net hp k (by omega)
    have hlt : k < net'.nodes.length := by omega
    have hi := List.getElem?_eq_getElem hlt
    refine ⟨_, .tail h1 (.pullAll net' k _ hi), by simp [h2], h3, ?_, ?_⟩
    · intro nd hnd
      obtain ⟨j, hj⟩ := List.mem_iff_getElem?.mp hnd
      rcases getElem?_set_some hj with ⟨rfl, rfl⟩ | ⟨hne, hj'⟩
      · show net'.nodes[j].pushed = (net'.nodes[j].r.receive _).1.buffer.length
        rw [(receive_fields _ _).1]
        exact h4 _ (List.getElem_mem hlt)
      · exact h4 nd (List.mem_of_getElem? hj')
    · intro j nd hj hnd
      rcases getElem?_set_some hnd with ⟨rfl, rfl⟩ | ⟨hne, hj'⟩
      · exact congrArg List.length h3
      · exact h5 j nd (by omega) hj'

/-- **quiescence is reachable**: from every state, `pushAll` by every node followed by `pullAll` by every node (every
    `receive` succeeds by `ltx_receive_ok`) ends in a quiescent state -/
theorem ltx_can_quiesce (net : Net) : ∃ net', Reaches net net' ∧ Quiescent net' := by
  obtain ⟨net1, r1, l1, p1⟩ := push_sweep net net.nodes.length (Nat.le_refl _)
  have hp1 : ∀ nd ∈ net1.nodes, nd.pushed = nd.r.buffer.length := by
    intro nd hnd
    obtain ⟨j, hj⟩ := List.mem_iff_getElem?.mp hnd
    have := (List.getElem?_eq_some_iff.mp hj).1
    exact p1 j nd (by omega) hj
  obtain ⟨net2, r2, l2, g2, p2, q2⟩ := pull_sweep net1 hp1 net1.nodes.length (Nat.le_refl _)
  refine ⟨net2, r1.trans r2, ?_⟩
  intro nd hnd
  obtain ⟨j, hj⟩ := List.mem_iff_getElem?.mp hnd
  have := (List.getElem?_eq_some_iff.mp hj).1
  exact ⟨p2 nd hnd, by rw [g2]; exact q2 j nd (by omega) hj⟩

end theorems

/-! ## 8. non-vacuity: three nodes, transactions (committed, failing, empty), concurrent plain calls, a run to quiescence

Node 0 inserts `[1, 2]` (plain call), pushes; everybody pulls.  Then, CONCURRENTLY:
  * node 1 commits the transaction `"t1"` whose body inserts `"b"` at 1, deletes element 0, reads, updates element 0 — a unit
    of FOUR log entries (header + three operations; the read queues nothing);
  * node 2 runs `"t2"` (insert, then an insert out of range; the body stops at the refused call): rolled back;
  * node 2 runs `"t3"` (insert, delete; the user function fails at the end): rolled back;
  * node 0 commits the EMPTY transaction `"t4"`: a unit that is a lone header announcing 1;
  * node 2 inserts `"c"` at 1 and node 0 deletes element 1 (plain calls).
Everybody pushes (2, 1, 0); node 0 pulls (`midNet`: NOT quiescent — node 0 has applied ALL of `"t1"`, nodes 1 and 2 are
behind); then 1 and 2 pull (`finalNet`: quiescent). -/
namespace Ex

def cu : Nat → String
  | 0 => "a" | 1 => "b" | _ => "c"

def acts : List Act := [
  .call 0 (.linsert 0 [.num 1, .num 2]),
  .pushAll 0, .pullAll 0, .pullAll 1, .pullAll 2,
  .tx 1 "t1" [.linsert 1 [.str "b"], .ldelete 0, .lget 0, .lupdate 0 [.str "u"]] false false,
  .tx 2 "t2" [.linsert 1 [.str "x"], .linsert 7 [.str "y"]] true false,
  .tx 2 "t3" [.linsert 1 [.str "z"], .ldelete 0] false true,
  .tx 0 "t4" [] false false,
  .call 2 (.linsert 1 [.str "c"]),
  .call 0 (.ldelete 1),
  .pushAll 2, .pushAll 1, .pushAll 0,
  .pullAll 0, .pullAll 1, .pullAll 2]

def finalNet : Net := (run (Net.init cu 3) acts).getD ⟨[], []⟩
def midNet : Net := (run (Net.init cu 3) (acts.take 15)).getD ⟨[], []⟩

theorem run_final : run (Net.init cu 3) acts = some finalNet := by
  have h : (run (Net.init cu 3) acts).isSome = true := by decide
  unfold finalNet
  cases hr : run (Net.init cu 3) acts with
  | none => rw [hr] at h; cases h
  | some x => rfl

theorem run_mid : run (Net.init cu 3) (acts.take 15) = some midNet := by
  have h : (run (Net.init cu 3) (acts.take 15)).isSome = true := by decide
  unfold midNet
  cases hr : run (Net.init cu 3) (acts.take 15) with
  | none => rw [hr] at h; cases h
  | some x => rfl

theorem cu_distinct : CuidsDistinct cu 3 := by
  intro i j hi hj h
  have h1 : i = 0 ∨ i = 1 ∨ i = 2 := by omega
  have h2 : j = 0 ∨ j = 1 ∨ j = 2 := by omega
  rcases h1 with rfl | rfl | rfl <;> rcases h2 with rfl | rfl | rfl <;> first | rfl | (exact absurd h (by decide))

theorem reach_final : Reach cu 3 finalNet := reach_run acts (.init cu_distinct) run_final
theorem reach_mid : Reach cu 3 midNet := reach_run (acts.take 15) (.init cu_distinct) run_mid

theorem quiescent_final : Quiescent finalNet := by
  unfold Quiescent
  decide

theorem len_final : finalNet.nodes.length = 3 := by decide
theorem len_mid : midNet.nodes.length = 3 := by decide

/-- eight entries went through the log: the plain insert, node 2's plain insert, the unit of `"t1"` (header announcing 4 and
    three operations), the lone header of `"t4"`, node 0's plain delete; the two failed transactions left nothing -/
example : finalNet.log.map (·.1) = [0, 2, 1, 1, 1, 1, 0, 0] ∧
    finalNet.log.map (fun e => isHdr e.2) = [false, false, true, false, false, false, true, false] := by decide

/-- the failing transactions returned an error and changed neither state nor buffer (here: `"t2"` on the replica of node 2
    as it stood after the first round) -/
example : ∃ nd, (((run (Net.init cu 3) (acts.take 6)).getD ⟨[], []⟩).nodes[2]? = some nd) ∧
    (nd.r.txCalls "t2" [.linsert 1 [.str "x"], .linsert 7 [.str "y"]] true false).2.2 = .err Err.transaction ∧
    (nd.r.txCalls "t2" [.linsert 1 [.str "x"], .linsert 7 [.str "y"]] true false).1.buffer = nd.r.buffer := by
  refine ⟨_, rfl, ?_, ?_⟩ <;> rfl

/-- why `ltx_failed_tx_is_noop` is about identifier, state, buffer and checkpoint and NOT `net' = net`: the rollback
    re-bases the rollback data (here the rollback operations of node 2, which held the insert it had pulled, are emptied) -/
example : ∃ nd, (((run (Net.init cu 3) (acts.take 6)).getD ⟨[], []⟩).nodes[2]? = some nd) ∧
    nd.r.rbOps.length = 1 ∧
    (nd.r.txCalls "t2" [.linsert 1 [.str "x"], .linsert 7 [.str "y"]] true false).1.rbOps.length = 0 := by
  refine ⟨_, rfl, ?_, ?_⟩ <;> rfl

/-- `ltx_quiescent_converged` instantiated -/
example : (finalNet.nodes[0]'(by rw [len_final]; decide)).r.state = (finalNet.nodes[1]'(by rw [len_final]; decide)).r.state :=
  ltx_quiescent_converged reach_final quiescent_final 0 1 (by decide) (by decide)
example : (finalNet.nodes[1]'(by rw [len_final]; decide)).r.state = (finalNet.nodes[2]'(by rw [len_final]; decide)).r.state :=
  ltx_quiescent_converged reach_final quiescent_final 1 2 (by decide) (by decide)

def a0 : Ts := ⟨0, 1, "a", 0⟩
def a1 : Ts := ⟨0, 1, "a", 1⟩

/-- … and the common state -/
def common : DState := .list
  ⟨[⟨a0, none, ⟨0, 4, "b", 0⟩⟩, ⟨⟨0, 3, "b", 0⟩, some (.str "u"), ⟨0, 5, "b", 0⟩⟩,
    ⟨⟨0, 2, "c", 0⟩, some (.str "c"), ⟨0, 2, "c", 0⟩⟩, ⟨a1, none, ⟨0, 3, "a", 0⟩⟩], 2⟩

/-- a decidable rendering of a list state: (identity, live?, value timestamp) per node, the stored Size, and whether the
    live values are `["u", "c"]` -/
def render : DState → Option (List (Ts × Bool × Ts) × Int × Bool)
  | .list l => some (l.nodes.map (fun nd => (nd.o, nd.v.isSome, nd.t)), l.size, l.live == [.str "u", .str "c"])
  | _ => none

/-- all three nodes hold `common` (kernel evaluation of the run) -/
theorem final_states : finalNet.nodes.map (fun nd => render nd.r.state) = List.replicate 3 (render common) := by
  decide +kernel

/-- `ltx_all_or_nothing` instantiated in the NON-quiescent state `midNet`, and both alternatives occur there for the unit
    of `"t1"` (log positions 2–5, written by node 1): node 0 has consumed all of it, node 2 none of it -/
example : ∃ units : List (Nat × List Op), midNet.log = units.flatMap (fun (a, u) => u.map (a, ·)) ∧
    (∀ au ∈ units, IsUnit au.2) ∧
    ∀ (i : Nat) (nd : Node), midNet.nodes[i]? = some nd → ∀ au ∈ units, au.1 ≠ i →
      (∀ o ∈ au.2, Applied midNet i (au.1, o)) ∨ (∀ o ∈ au.2, ¬ Applied midNet i (au.1, o)) :=
  ltx_all_or_nothing reach_mid

example : ¬ Quiescent midNet := by
  unfold Quiescent
  decide

example : (midNet.nodes.map (·.pulled)) = [8, 1, 1] ∧ midNet.log.length = 8 := by decide

/-- `receive` accepted what node 2 is about to pull in `midNet` (seven entries, among them the unit of four) -/
example : ∃ nd, midNet.nodes[2]? = some nd ∧ (nd.r.receive (pullOps midNet.log 2 nd)).2 = .ok () :=
  ⟨_, rfl, ltx_receive_ok reach_mid rfl⟩

end Ex

end Orda.LTx
