/-
Rollback / replay: the rollback data of a replica (`rbOpId`, `rbSnap`, `rbOps`) always reproduces the
current operation id and state (`RbInv`); consequences for transactions (C09): a failed transaction
restores the replica, a committed one is queued as one unit, a remote unit is applied all-or-nothing.
Core Lean only.
-/
import Orda.Model.Api
namespace Orda

/-- what Rollback would compute: replay of rbOps from the rollback snapshot -/
def Replica.rbResult (r : Replica) : Replica × Outcome Unit :=
  ({ r with opId := r.rbOpId, state := r.rbSnap }).replayAll r.rbOps

/-- rollback invariant: replaying the rollback operations on the rollback snapshot succeeds and
    yields exactly the current operation id and state -/
def Replica.RbInv (r : Replica) : Prop :=
  ∃ r', r.rbResult = (r', .ok ()) ∧ r'.opId = r.opId ∧ r'.state = r.state

def Outcome.isPanic {α} : Outcome α → Bool
  | .panic _ => true
  | _ => false

/-! ### local execution with targets already filled in -/

/-- re-executing a local operation whose targets were already filled in gives the same result -/
theorem execLocal_refill (s : DState) (ts : Ts) (b b' : OpBody) (s' : DState) (ret : Ret)
    (h : execLocal s ts b = .ok (s', b', ret)) : execLocal s ts b' = .ok (s', b', ret) := by
  unfold execLocal at h
  split at h
  all_goals first
    | (split at h <;> simp at h
       obtain ⟨h1, h2, h3⟩ := h
       subst h1 h2 h3
       simp [execLocal, *])
    | (simp at h
       obtain ⟨h1, h2, h3⟩ := h
       subst h1 h2 h3
       simp [execLocal, *])
    | simp at h

/-- a successful local execution is of a non-meta operation and records a non-meta operation -/
theorem execLocal_isMeta (s : DState) (ts : Ts) (b b' : OpBody) (s' : DState) (ret : Ret)
    (h : execLocal s ts b = .ok (s', b', ret)) : b'.isMeta = false ∧ b.isMeta = false := by
  unfold execLocal at h
  split at h
  all_goals first
    | (split at h <;> simp at h
       obtain ⟨h1, h2, h3⟩ := h
       subst h1 h2 h3
       simp [OpBody.isMeta])
    | (simp at h
       obtain ⟨h1, h2, h3⟩ := h
       subst h1 h2 h3
       simp [OpBody.isMeta])
    | simp at h
/-! ### frames: the core (id, state) of one replica inside the other fields of another -/

/-- core (id, state) of `r`, every other field of `f` -/
def Replica.frame (r f : Replica) : Replica := { f with opId := r.opId, state := r.state }

@[simp] theorem frame_self (r : Replica) : r.frame r = r := rfl
@[simp] theorem frame_opId (r f : Replica) : (r.frame f).opId = r.opId := rfl
@[simp] theorem frame_state (r f : Replica) : (r.frame f).state = r.state := rfl
@[simp] theorem frame_rbOps (r f : Replica) : (r.frame f).rbOps = f.rbOps := rfl
@[simp] theorem frame_rbSnap (r f : Replica) : (r.frame f).rbSnap = f.rbSnap := rfl
@[simp] theorem frame_rbOpId (r f : Replica) : (r.frame f).rbOpId = f.rbOpId := rfl
@[simp] theorem frame_buffer (r f : Replica) : (r.frame f).buffer = f.buffer := rfl
@[simp] theorem frame_cp (r f : Replica) : (r.frame f).cp = f.cp := rfl
@[simp] theorem frame_typ (r f : Replica) : (r.frame f).typ = f.typ := rfl
@[simp] theorem frame_frame (r f g : Replica) : (r.frame f).frame g = r.frame g := rfl

theorem frame_of_core {r f : Replica} (h1 : r.opId = f.opId) (h2 : r.state = f.state) : r.frame f = f := by
  cases f; cases r; simp_all [Replica.frame]

theorem execLocalBase_frame (r f : Replica) (b : OpBody) :
    (r.frame f).execLocalBase b = ((r.execLocalBase b).1.frame f, (r.execLocalBase b).2) := by
  unfold Replica.execLocalBase
  simp only [frame_opId, frame_state]
  split
  · rfl
  · split <;> rfl

theorem execRemoteBase_frame (r f : Replica) (o : Op) :
    (r.frame f).execRemoteBase o = ((r.execRemoteBase o).1.frame f, (r.execRemoteBase o).2) := by
  unfold Replica.execRemoteBase
  simp only [frame_opId, frame_state]
  split <;> rfl

theorem replay_frame (r f : Replica) (o : Op) :
    (r.frame f).replay o = ((r.replay o).1.frame f, (r.replay o).2) := by
  unfold Replica.replay
  simp only [frame_opId, execLocalBase_frame, execRemoteBase_frame]
  split
  · rcases h : r.execLocalBase o.body with ⟨r', (_ | _ | _)⟩ <;> simp
  · rcases h : r.execRemoteBase o with ⟨r', (_ | _)⟩ <;> simp

theorem replayAll_frame (r f : Replica) (ops : List Op) :
    (r.frame f).replayAll ops = ((r.replayAll ops).1.frame f, (r.replayAll ops).2) := by
  induction ops generalizing r with
  | nil => rfl
  | cons o os ih =>
    simp only [Replica.replayAll, replay_frame]
    rcases h : r.replay o with ⟨r', (_ | _ | _)⟩ <;> simp [ih]
/-! ### replay chains on cores -/

def mkR (i : OpId) (s : DState) : Replica := ⟨.counter, i, s, [], ⟨0, 0⟩, i, s, []⟩

/-- replaying `ops` from core `(i, s)` succeeds and ends in core `(i', s')` -/
def Replays (i : OpId) (s : DState) (ops : List Op) (i' : OpId) (s' : DState) : Prop :=
  ∃ r', (mkR i s).replayAll ops = (r', .ok ()) ∧ r'.opId = i' ∧ r'.state = s'

theorem replayAll_of_core (r : Replica) (ops : List Op) :
    r.replayAll ops = (((mkR r.opId r.state).replayAll ops).1.frame r, ((mkR r.opId r.state).replayAll ops).2) := by
  have := replayAll_frame (mkR r.opId r.state) r ops
  rwa [frame_of_core (r := mkR r.opId r.state) (f := r) rfl rfl] at this

theorem replays_iff (r : Replica) (ops : List Op) (i' : OpId) (s' : DState) :
    Replays r.opId r.state ops i' s' ↔
      ∃ r', r.replayAll ops = (r', .ok ()) ∧ r'.opId = i' ∧ r'.state = s' := by
  rw [replayAll_of_core r ops]
  unfold Replays
  constructor
  · rintro ⟨r', h, h1, h2⟩
    exact ⟨r'.frame r, by simp [h], by simp [h1], by simp [h2]⟩
  · rintro ⟨r', h, h1, h2⟩
    simp only [Prod.mk.injEq] at h
    refine ⟨((mkR r.opId r.state).replayAll ops).1, ?_, ?_, ?_⟩
    · rw [← h.2]
    · rw [← h1, ← h.1]; rfl
    · rw [← h2, ← h.1]; rfl

theorem replays_nil (i : OpId) (s : DState) : Replays i s [] i s := ⟨_, rfl, rfl, rfl⟩

theorem replayAll_append (r : Replica) (l1 l2 : List Op) :
    r.replayAll (l1 ++ l2) =
      match r.replayAll l1 with
      | (r', .ok ()) => r'.replayAll l2
      | (r', e) => (r', e) := by
  induction l1 generalizing r with
  | nil => simp [Replica.replayAll]
  | cons o os ih =>
    simp only [List.cons_append, Replica.replayAll]
    rcases h : r.replay o with ⟨r', (_ | _ | _)⟩ <;> simp [ih]

theorem replays_append {i s l1 i1 s1 l2 i2 s2} (h1 : Replays i s l1 i1 s1) (h2 : Replays i1 s1 l2 i2 s2) :
    Replays i s (l1 ++ l2) i2 s2 := by
  obtain ⟨r1, e1, a1, b1⟩ := h1
  subst a1 b1
  rw [replays_iff] at h2
  obtain ⟨r2, e2, a2, b2⟩ := h2
  exact ⟨r2, by rw [replayAll_append, e1]; simpa using e2, a2, b2⟩

theorem RbInv_iff (r : Replica) : r.RbInv ↔ Replays r.rbOpId r.rbSnap r.rbOps r.opId r.state := by
  unfold Replica.RbInv Replica.rbResult
  exact (replays_iff { r with opId := r.rbOpId, state := r.rbSnap } r.rbOps r.opId r.state).symm

theorem next_rollBack (o : OpId) : o.next.rollBack = o := by
  cases o; simp [OpId.next, OpId.rollBack]

theorem execLocalBase_eq (r : Replica) (b : OpBody) : r.execLocalBase b =
    if b.isMeta then ({ r with opId := r.opId.next }, .ok (⟨r.opId.next, b⟩, .none)) else
    match execLocal r.state r.opId.next.ts b with
    | .ok (s', b', ret) => ({ r with opId := r.opId.next, state := s' }, .ok (⟨r.opId.next, b'⟩, ret))
    | .err c => (r, .err c)
    | .panic w => ({ r with opId := r.opId.next }, .panic w) := by
  unfold Replica.execLocalBase
  simp only [next_rollBack]
  split
  · rfl
  · rcases execLocal r.state r.opId.next.ts b with ⟨s', b', ret⟩ | c | w <;> rfl

/-- replaying one own operation as recorded by `execLocalBase` reproduces its effect -/
theorem replays_local (r r1 : Replica) (b : OpBody) (op : Op) (ret : Ret)
    (h : r.execLocalBase b = (r1, .ok (op, ret))) :
    Replays r.opId r.state [op] r1.opId r1.state := by
  rw [replays_iff]
  rw [execLocalBase_eq] at h
  split at h
  · simp only [Prod.mk.injEq, Outcome.ok.injEq] at h
    obtain ⟨h1, h2, h3⟩ := h
    subst h1 h2
    simp [Replica.replayAll, Replica.replay, execLocalBase_eq, OpId.next, *]
  · rename_i hm
    split at h <;> simp only [Prod.mk.injEq, Outcome.ok.injEq, reduceCtorEq, and_false] at h
    rename_i s' b' ret' he
    obtain ⟨h1, h2, h3⟩ := h
    subst h1 h2
    have hm' := (execLocal_isMeta _ _ _ _ _ _ he).1
    have he' := execLocal_refill _ _ _ _ _ _ he
    have hc : r.opId.cuid = r.opId.next.cuid := rfl
    simp [Replica.replayAll, Replica.replay, execLocalBase_eq, hm', he', ← hc]

theorem replays_meta (i : OpId) (s : DState) (b : OpBody) (hb : b.isMeta = true) :
    Replays i s [⟨i.next, b⟩] i.next s := by
  have hc : i.cuid = i.next.cuid := rfl
  refine ⟨{ mkR i s with opId := i.next }, ?_, rfl, rfl⟩
  simp [mkR, Replica.replayAll, Replica.replay, execLocalBase_eq, hb, ← hc]

/-! ### what `execLocalBase` / `execRemoteBase` do to a replica -/

theorem execLocalBase_ok {r r1 : Replica} {b : OpBody} {op : Op} {ret : Ret}
    (h : r.execLocalBase b = (r1, .ok (op, ret))) :
    r1.opId = r.opId.next ∧ op.id = r.opId.next ∧ r1.frame r = r1 := by
  rw [execLocalBase_eq] at h
  split at h
  · simp only [Prod.mk.injEq, Outcome.ok.injEq] at h
    obtain ⟨h1, h2, _⟩ := h
    subst h1 h2
    exact ⟨rfl, rfl, rfl⟩
  · split at h <;> simp only [Prod.mk.injEq, Outcome.ok.injEq, reduceCtorEq, and_false] at h
    obtain ⟨h1, h2, _⟩ := h
    subst h1 h2
    exact ⟨rfl, rfl, rfl⟩

theorem execLocalBase_err {r r1 : Replica} {b : OpBody} {c : Nat}
    (h : r.execLocalBase b = (r1, .err c)) : r1 = r := by
  rw [execLocalBase_eq] at h
  split at h
  · simp at h
  · split at h <;> simp only [Prod.mk.injEq, reduceCtorEq, and_false] at h
    exact h.1.symm

theorem execLocalBase_panic {r r1 : Replica} {b : OpBody} {w : String}
    (h : r.execLocalBase b = (r1, .panic w)) : r1 = { r with opId := r.opId.next } := by
  rw [execLocalBase_eq] at h
  split at h
  · simp at h
  · split at h <;> simp only [Prod.mk.injEq, reduceCtorEq, and_false] at h
    exact h.1.symm

theorem frame_fields {r1 r : Replica} (h : r1.frame r = r1) :
    r1.typ = r.typ ∧ r1.buffer = r.buffer ∧ r1.cp = r.cp ∧ r1.rbOpId = r.rbOpId ∧
      r1.rbSnap = r.rbSnap ∧ r1.rbOps = r.rbOps := by
  rw [← h]; simp

theorem execRemoteBase_fst (r : Replica) (o : Op) :
    (r.execRemoteBase o).1.opId = r.opId.syncLamport o.id.lamport ∧
      (r.execRemoteBase o).1.frame r = (r.execRemoteBase o).1 := by
  unfold Replica.execRemoteBase
  split <;> exact ⟨rfl, rfl⟩

theorem syncLamport_fields (o : OpId) (n : Nat) :
    (o.syncLamport n).cuid = o.cuid ∧ (o.syncLamport n).seq = o.seq ∧ (o.syncLamport n).era = o.era ∧
      o.lamport ≤ (o.syncLamport n).lamport ∧ n ≤ (o.syncLamport n).lamport := by
  unfold OpId.syncLamport
  split <;> simp <;> omega

/-- replaying a foreign operation is its remote execution -/
theorem replays_remote {r r1 : Replica} {o : Op} (hc : o.id.cuid ≠ r.opId.cuid)
    (h : r.execRemoteBase o = (r1, none)) : Replays r.opId r.state [o] r1.opId r1.state := by
  rw [replays_iff]
  refine ⟨r1, ?_, rfl, rfl⟩
  simp [Replica.replayAll, Replica.replay, Ne.symm hc, h]

/-! ### the invariant along the public steps -/

theorem rbInv_new (typ : DtType) (cuid : String) (create : Bool) : (Replica.new typ cuid create).RbInv := by
  rw [RbInv_iff]
  cases create
  · exact replays_nil _ _
  · exact replays_meta _ _ _ rfl

/-- the rollback data extended by one own operation, after executing it -/
theorem rbInv_snoc {r r1 r2 : Replica} {b : OpBody} {op : Op} {ret : Ret} (h : r.RbInv)
    (he : r.execLocalBase b = (r1, .ok (op, ret)))
    (h1 : r2.opId = r1.opId) (h2 : r2.state = r1.state) (h3 : r2.rbOpId = r.rbOpId)
    (h4 : r2.rbSnap = r.rbSnap) (h5 : r2.rbOps = r.rbOps ++ [op]) : r2.RbInv := by
  rw [RbInv_iff] at h ⊢
  rw [h1, h2, h3, h4, h5]
  exact replays_append h (replays_local _ _ _ _ _ he)

theorem mapOut_isPanic {α β} (f : α → β) (o : Outcome α) : (mapOut f o).isPanic = o.isPanic := by
  cases o <;> rfl

theorem rbInv_call (r : Replica) (c : Call) (h : r.RbInv) (hp : (r.call c).2.isPanic = false) :
    (r.call c).1.RbInv := by
  unfold Replica.call at hp ⊢
  split
  · exact h
  · rename_i b post hprep
    rw [hprep] at hp
    simp only [mapOut_isPanic] at hp ⊢
    unfold Replica.callLocal at hp ⊢
    rcases he : r.execLocalBase b with ⟨r1, (⟨op, ret⟩ | c | w)⟩
    · obtain ⟨_, _, hf⟩ := execLocalBase_ok he
      obtain ⟨_, _, _, f4, f5, f6⟩ := frame_fields hf
      exact rbInv_snoc h he rfl rfl f4 f5 (by simp [f6])
    · rw [execLocalBase_err he]; exact h
    · rw [he] at hp; simp [Outcome.isPanic] at hp

/-! ### transactions -/

theorem txCalls_eq (r : Replica) (tag : String) (calls : List Call) (stop fail : Bool) :
    r.txCalls tag calls stop fail =
      match Replica.txCalls.body stop { r with opId := r.opId.next } [] [] calls with
      | (r1, ops, outs, stopped, pan) =>
        match pan with
        | some w => (r1, outs, .panic w)
        | none =>
          if stopped || fail then
            match r1.rollback with
            | (r2, .ok ()) => (r2, outs, .err Err.transaction)
            | (r2, .err c) => (r2, outs, .err c)
            | (r2, .panic w) => (r2, outs, .panic w)
          else
            ({ r1 with rbOps := r1.rbOps ++ (⟨r.opId.next, .transaction tag (ops.length + 1)⟩ :: ops),
                       buffer := r1.buffer ++
                         (⟨r.opId.next, .transaction tag (ops.length + 1)⟩ :: ops).map Op.wire },
              outs, .ok ()) := rfl

/-- what the body of a transaction has done when it did not panic -/
structure BodyOk (r r1 : Replica) (acc ops : List Op) : Prop where
  frame : r1.frame r = r1
  new : ∃ new : List Op, ops = acc ++ new ∧ Replays r.opId r.state new r1.opId r1.state ∧
    new.map (·.id.seq) = List.range' (r.opId.seq + 1) new.length ∧
    r1.opId = { r.opId with lamport := r.opId.lamport + new.length, seq := r.opId.seq + new.length } ∧
    ∀ o ∈ new, o.id.cuid = r.opId.cuid

theorem bodyOk_refl (r : Replica) (acc : List Op) : BodyOk r r acc acc :=
  ⟨rfl, [], by simp, replays_nil _ _, rfl, rfl, by simp⟩

theorem body_ok (stop : Bool) (calls : List Call) : ∀ (r : Replica) (acc : List Op) (outs : List (Outcome Ret))
    {r1 ops outs' stopped}, Replica.txCalls.body stop r acc outs calls = (r1, ops, outs', stopped, none) →
    BodyOk r r1 acc ops := by
  induction calls with
  | nil =>
    intro r acc outs r1 ops outs' stopped h
    simp only [Replica.txCalls.body, Prod.mk.injEq] at h
    obtain ⟨h1, h2, _⟩ := h
    subst h1 h2
    exact bodyOk_refl _ _
  | cons c cs ih =>
    intro r acc outs r1 ops outs' stopped h
    rw [Replica.txCalls.body] at h
    split at h
    · exact ih _ _ _ h
    · split at h
      · simp only [Prod.mk.injEq] at h
        obtain ⟨h1, h2, _⟩ := h
        subst h1 h2
        exact bodyOk_refl _ _
      · exact ih _ _ _ h
    · simp at h
    · rename_i b post hprep
      rcases he : r.execLocalBase b with ⟨r', (⟨op, ret⟩ | e | w)⟩ <;> rw [he] at h <;> simp only [] at h
      · obtain ⟨hid, hop, hfr⟩ := execLocalBase_ok he
        obtain ⟨hfr', new, hnew, hrep, hseq, hid', hcu⟩ := ih _ _ _ h
        refine ⟨by rw [← hfr'] ; rw [← hfr]; rfl, op :: new, by simp [hnew], ?_, ?_, ?_, ?_⟩
        · exact replays_append (replays_local _ _ _ _ _ he) hrep
        · simp [hseq, hop, hid, OpId.next, List.range'_succ]
        · rw [hid', hid]; simp [OpId.next]; omega
        · intro o ho
          simp only [List.mem_cons] at ho
          rcases ho with rfl | ho
          · rw [hop]; rfl
          · rw [hcu o ho, hid]; rfl
      · have := execLocalBase_err he
        subst this
        split at h
        · simp only [Prod.mk.injEq] at h
          obtain ⟨h1, h2, _⟩ := h
          subst h1 h2
          exact bodyOk_refl _ _
        · exact ih _ _ _ h
      · simp at h

/-- the body reports a panic only together with a panicking result of one of its calls -/
theorem body_panic (stop : Bool) (calls : List Call) : ∀ (r : Replica) (acc : List Op) (outs : List (Outcome Ret))
    {r1 ops outs' stopped w}, Replica.txCalls.body stop r acc outs calls = (r1, ops, outs', stopped, some w) →
    ∃ o ∈ outs', o.isPanic = true := by
  induction calls with
  | nil => intro r acc outs r1 ops outs' stopped w h; simp [Replica.txCalls.body] at h
  | cons c cs ih =>
    intro r acc outs r1 ops outs' stopped w h
    rw [Replica.txCalls.body] at h
    split at h
    · exact ih _ _ _ h
    · split at h
      · simp at h
      · exact ih _ _ _ h
    · simp only [Prod.mk.injEq] at h
      obtain ⟨_, _, h3, _⟩ := h
      subst h3
      exact ⟨_, List.mem_append_right _ (List.mem_singleton.2 rfl), rfl⟩
    · rename_i b post hprep
      rcases he : r.execLocalBase b with ⟨r', (⟨op, ret⟩ | e | w')⟩ <;> rw [he] at h <;> simp only [] at h
      · exact ih _ _ _ h
      · split at h
        · simp at h
        · exact ih _ _ _ h
      · simp only [Prod.mk.injEq] at h
        obtain ⟨_, _, h3, _⟩ := h
        subst h3
        exact ⟨_, List.mem_append_right _ (List.mem_singleton.2 rfl), rfl⟩

/-- the body of a transaction only reads and writes the core -/
theorem body_frame (stop : Bool) (f : Replica) (calls : List Call) : ∀ (r : Replica) (acc : List Op)
    (outs : List (Outcome Ret)),
    Replica.txCalls.body stop (r.frame f) acc outs calls =
      ((Replica.txCalls.body stop r acc outs calls).1.frame f, (Replica.txCalls.body stop r acc outs calls).2) := by
  induction calls with
  | nil => intro r acc outs; rfl
  | cons c cs ih =>
    intro r acc outs
    rw [Replica.txCalls.body, Replica.txCalls.body]
    simp only [frame_state, execLocalBase_frame]
    split
    · exact ih _ _ _
    · split
      · rfl
      · exact ih _ _ _
    · rfl
    · rcases he : r.execLocalBase _ with ⟨r', (⟨op, ret⟩ | e | w')⟩ <;> simp only []
      · exact ih _ _ _
      · split
        · rfl
        · exact ih _ _ _

/-- under the invariant, Rollback on a replica that still carries `r`'s rollback data returns to `r`'s core -/
theorem rollback_of_rbInv {r r1 : Replica} (h : r.RbInv) (hf : r1.frame r = r1) :
    ∃ r2, r1.rollback = (r2, .ok ()) ∧ r2.opId = r.opId ∧ r2.state = r.state ∧ r2.buffer = r.buffer ∧
      r2.cp = r.cp ∧ r2.rbOpId = r.opId ∧ r2.rbSnap = r.state ∧ r2.rbOps = [] := by
  obtain ⟨f1, f2, f3, f4, f5, f6⟩ := frame_fields hf
  obtain ⟨x, hx, hx1, hx2⟩ := h
  have key : ({ r1 with opId := r1.rbOpId, state := r1.rbSnap } : Replica).replayAll r1.rbOps =
      (x.frame r1, .ok ()) := by
    have e : ({ r1 with opId := r1.rbOpId, state := r1.rbSnap } : Replica) =
        ({ r with opId := r.rbOpId, state := r.rbSnap } : Replica).frame r1 := by
      simp [Replica.frame, f4, f5]
    unfold Replica.rbResult at hx
    rw [e, f6, replayAll_frame, hx]
  unfold Replica.rollback
  simp only [key]
  exact ⟨_, rfl, hx1, hx2, f2, f3, hx1, hx2, rfl⟩

theorem rbInv_of_rb_eq {r : Replica} (h1 : r.rbOpId = r.opId) (h2 : r.rbSnap = r.state) (h3 : r.rbOps = []) :
    r.RbInv := by
  rw [RbInv_iff, h1, h2, h3]; exact replays_nil _ _

/-- the three ways a transaction ends -/
theorem txCalls_cases (r : Replica) (tag : String) (calls : List Call) (stop fail : Bool) :
    ∃ r1 ops outs stopped pan,
      Replica.txCalls.body stop { r with opId := r.opId.next } [] [] calls = (r1, ops, outs, stopped, pan) ∧
      ((∃ w, pan = some w ∧ r.txCalls tag calls stop fail = (r1, outs, .panic w)) ∨
       (pan = none ∧ (stopped || fail) = true ∧
          r.txCalls tag calls stop fail =
            (match r1.rollback with
             | (r2, .ok ()) => (r2, outs, .err Err.transaction)
             | (r2, .err c) => (r2, outs, .err c)
             | (r2, .panic w) => (r2, outs, .panic w))) ∨
       (pan = none ∧ (stopped || fail) = false ∧
          r.txCalls tag calls stop fail =
            ({ r1 with rbOps := r1.rbOps ++ (⟨r.opId.next, .transaction tag (ops.length + 1)⟩ :: ops),
                       buffer := r1.buffer ++
                         (⟨r.opId.next, .transaction tag (ops.length + 1)⟩ :: ops).map Op.wire },
              outs, .ok ()))) := by
  rw [txCalls_eq]
  rcases hb : Replica.txCalls.body stop { r with opId := r.opId.next } [] [] calls with ⟨r1, ops, outs, stopped, pan⟩
  refine ⟨r1, ops, outs, stopped, pan, rfl, ?_⟩
  cases pan with
  | some w => exact Or.inl ⟨w, rfl, rfl⟩
  | none =>
    cases hs : (stopped || fail)
    · exact Or.inr (Or.inr ⟨rfl, rfl, by simp [hs]⟩)
    · exact Or.inr (Or.inl ⟨rfl, rfl, by simp [hs]⟩)

theorem rbInv_txCalls (r : Replica) (tag : String) (calls : List Call) (stop fail : Bool) (h : r.RbInv)
    (hp : (r.txCalls tag calls stop fail).2.2.isPanic = false) :
    (r.txCalls tag calls stop fail).1.RbInv := by
  obtain ⟨r1, ops, outs, stopped, pan, hb, hc⟩ := txCalls_cases r tag calls stop fail
  rcases hc with ⟨w, _, e⟩ | ⟨hpan, _, e⟩ | ⟨hpan, _, e⟩
  · rw [e] at hp; simp [Outcome.isPanic] at hp
  · subst hpan
    have hf : r1.frame r = r1 := (body_ok _ _ _ _ _ hb).frame
    obtain ⟨r2, hr, _, _, _, _, g1, g2, g3⟩ := rollback_of_rbInv h hf
    rw [e, hr]
    exact rbInv_of_rb_eq (by simp [*]) (by simp [*]) g3
  · subst hpan
    obtain ⟨hf, new, hnew, hrep, _, _, _⟩ := body_ok _ _ _ _ _ hb
    obtain ⟨_, _, _, f4, f5, f6⟩ := frame_fields hf
    rw [e, RbInv_iff]
    simp only [List.nil_append] at hnew
    subst hnew
    simp only [f4, f5, f6]
    rw [RbInv_iff] at h
    exact replays_append h (replays_append (l1 := [_]) (replays_meta _ _ _ rfl) hrep)

/-- C09, local half: a transaction that ends with an error leaves id, state, pending operations and
    checkpoint exactly as they were (for ANY body: valid and invalid calls, reads, early return) -/
theorem txCalls_fail_restores (r : Replica) (h : r.RbInv) (tag : String) (calls : List Call)
    (stop fail : Bool) (c : Nat) (herr : (r.txCalls tag calls stop fail).2.2 = .err c) :
    let r' := (r.txCalls tag calls stop fail).1
    r'.opId = r.opId ∧ r'.state = r.state ∧ r'.buffer = r.buffer ∧ r'.cp = r.cp := by
  obtain ⟨r1, ops, outs, stopped, pan, hb, hc⟩ := txCalls_cases r tag calls stop fail
  rcases hc with ⟨w, _, e⟩ | ⟨hpan, _, e⟩ | ⟨hpan, _, e⟩
  · rw [e] at herr; simp at herr
  · subst hpan
    have hf : r1.frame r = r1 := (body_ok _ _ _ _ _ hb).frame
    obtain ⟨r2, hr, g1, g2, g3, g4, _⟩ := rollback_of_rbInv h hf
    rw [hr] at e
    simp only [e]
    exact ⟨g1, g2, g3, g4⟩
  · rw [e] at herr; simp at herr

/-- under the rollback invariant a transaction never ends in a panic unless one of its own calls panicked -/
theorem txCalls_panic_only_from_body (r : Replica) (h : r.RbInv) (tag : String) (calls : List Call)
    (stop fail : Bool) (w : String) (hpan : (r.txCalls tag calls stop fail).2.2 = .panic w) :
    ∃ o ∈ (r.txCalls tag calls stop fail).2.1, o.isPanic = true := by
  obtain ⟨r1, ops, outs, stopped, pan, hb, hc⟩ := txCalls_cases r tag calls stop fail
  rcases hc with ⟨w', hw, e⟩ | ⟨hpan', _, e⟩ | ⟨hpan', _, e⟩
  · subst hw
    rw [e]
    exact body_panic _ _ _ _ _ hb
  · subst hpan'
    have hf : r1.frame r = r1 := (body_ok _ _ _ _ _ hb).frame
    obtain ⟨r2, hr, _⟩ := rollback_of_rbInv h hf
    rw [hr] at e
    rw [e] at hpan; simp at hpan
  · rw [e] at hpan; simp at hpan

theorem wire_id (o : Op) : o.wire.id = o.id := rfl

/-- C09: a committed transaction is queued as ONE contiguous unit that announces its own length -/
theorem txCalls_commit_unit (r : Replica) (tag : String) (calls : List Call) (stop fail : Bool)
    (hok : (r.txCalls tag calls stop fail).2.2 = .ok ()) :
    let r' := (r.txCalls tag calls stop fail).1
    ∃ unit : List Op, r'.buffer = r.buffer ++ unit ∧
      (unit.head?.map (·.body)) = some (.transaction tag unit.length) ∧
      unit.map (·.id.seq) = List.range' (r.opId.seq + 1) unit.length ∧
      r'.opId.seq = r.opId.seq + unit.length := by
  obtain ⟨r1, ops, outs, stopped, pan, hb, hc⟩ := txCalls_cases r tag calls stop fail
  rcases hc with ⟨w', hw, e⟩ | ⟨hpan', _, e⟩ | ⟨hpan', _, e⟩
  · rw [e] at hok; simp at hok
  · rw [e] at hok
    rcases hr : r1.rollback with ⟨r2, (_ | _ | _)⟩ <;> rw [hr] at hok <;> simp at hok
  · subst hpan'
    obtain ⟨hf, new, hnew, hrep, hseq, hid, _⟩ := body_ok _ _ _ _ _ hb
    obtain ⟨_, f2, _⟩ := frame_fields hf
    simp only [List.nil_append] at hnew
    subst hnew
    simp only [e]
    refine ⟨(⟨r.opId.next, .transaction tag (ops.length + 1)⟩ :: ops).map Op.wire, by rw [f2], ?_, ?_, ?_⟩
    · simp [Op.wire, OpBody.wire]
    · simp only [List.map_map, List.length_map, List.length_cons, List.map_cons, List.range'_succ]
      congr 1
    · rw [hid]; simp [OpId.next]; omega

/-! ### remote units -/

theorem applyUnit_go_cons (r : Replica) (o : Op) (os : List Op) :
    Replica.applyUnit.go r (o :: os) =
      match r.execRemoteBase o with
      | (r', none) => Replica.applyUnit.go { r' with rbOps := r'.rbOps ++ [o] } os
      | (r', some w) => (r', .panic w) := by
  rw [Replica.applyUnit.go]
  rfl

/-- applying a unit, uniformly in the replica: nothing to do, refused unchanged, or all its operations
    (without the header) are executed -/
theorem applyUnit_shape (unit : List Op) :
    (unit = [] ∧ ∀ r : Replica, r.applyUnit unit = (r, .ok ())) ∨
      (∀ r : Replica, r.applyUnit unit = (r, .err Err.transaction)) ∨
      (unit.length = 1 ∧ ∀ r : Replica, r.applyUnit unit = Replica.applyUnit.go r unit) ∨
      (2 ≤ unit.length ∧ ∀ r : Replica, r.applyUnit unit = Replica.applyUnit.go r unit.tail) := by
  match unit with
  | [] => exact Or.inl ⟨rfl, fun _ => rfl⟩
  | [o] => exact Or.inr (Or.inr (Or.inl ⟨rfl, fun _ => rfl⟩))
  | hd :: a :: tl =>
    cases hb : hd.body
    case transaction tag n =>
      by_cases hn : n ≠ ((hd :: a :: tl).length : Int)
      · exact Or.inr (Or.inl fun r => by simp only [Replica.applyUnit, hb]; rw [if_pos hn])
      · exact Or.inr (Or.inr (Or.inr ⟨by simp, fun r => by simp only [Replica.applyUnit, hb]; rw [if_neg hn]; rfl⟩))
    all_goals exact Or.inr (Or.inl fun r => by simp only [Replica.applyUnit, hb])

theorem applyUnit_cases (r : Replica) (unit : List Op) :
    (unit = [] ∧ r.applyUnit unit = (r, .ok ())) ∨ r.applyUnit unit = (r, .err Err.transaction) ∨
      (r.applyUnit unit = Replica.applyUnit.go r unit ∧ unit.length = 1) ∨
      (r.applyUnit unit = Replica.applyUnit.go r unit.tail ∧ 2 ≤ unit.length) := by
  rcases applyUnit_shape unit with ⟨h, e⟩ | e | ⟨h, e⟩ | ⟨h, e⟩
  · exact Or.inl ⟨h, e r⟩
  · exact Or.inr (Or.inl (e r))
  · exact Or.inr (Or.inr (Or.inl ⟨e r, h⟩))
  · exact Or.inr (Or.inr (Or.inr ⟨e r, h⟩))

theorem applyUnit_go_not_err (ops : List Op) : ∀ (r : Replica) (c : Nat), (Replica.applyUnit.go r ops).2 ≠ .err c := by
  induction ops with
  | nil => intro r c; simp [Replica.applyUnit.go]
  | cons o os ih =>
    intro r c
    rw [applyUnit_go_cons]
    rcases r.execRemoteBase o with ⟨r', (_ | w)⟩
    · exact ih _ _
    · simp

/-- C09, remote half: one announced unit is applied completely or not at all: if `applyUnit` reports
    an error the replica is unchanged -/
theorem applyUnit_err_unchanged (r : Replica) (unit : List Op) (c : Nat)
    (h : (r.applyUnit unit).2 = .err c) : (r.applyUnit unit).1 = r := by
  rcases applyUnit_cases r unit with ⟨_, e⟩ | e | ⟨e, _⟩ | ⟨e, _⟩
  · rw [e]
  · rw [e]
  · rw [e] at h; exact absurd h (applyUnit_go_not_err _ _ _)
  · rw [e] at h; exact absurd h (applyUnit_go_not_err _ _ _)

theorem applyUnit_go_rbInv (ops : List Op) : ∀ (r : Replica), r.RbInv →
    (∀ o ∈ ops, o.id.cuid ≠ r.opId.cuid) → (Replica.applyUnit.go r ops).2.isPanic = false →
    (Replica.applyUnit.go r ops).1.RbInv ∧ (Replica.applyUnit.go r ops).1.opId.cuid = r.opId.cuid := by
  induction ops with
  | nil => intro r h _ _; exact ⟨h, rfl⟩
  | cons o os ih =>
    intro r h hf hp
    rw [applyUnit_go_cons] at hp ⊢
    rcases he : r.execRemoteBase o with ⟨r', (_ | w)⟩ <;> rw [he] at hp <;> simp only [] at hp ⊢
    · have hfst := execRemoteBase_fst r o
      rw [he] at hfst
      obtain ⟨hid, hfr⟩ := hfst
      simp only at hid hfr
      obtain ⟨_, _, _, f4, f5, f6⟩ := frame_fields hfr
      have hcu : r'.opId.cuid = r.opId.cuid := by rw [hid]; exact (syncLamport_fields _ _).1
      have hinv : ({ r' with rbOps := r'.rbOps ++ [o] } : Replica).RbInv := by
        rw [RbInv_iff] at h ⊢
        simp only [f4, f5, f6]
        exact replays_append h (replays_remote (hf o (List.mem_cons_self ..)) he)
      have := ih _ hinv (fun o' ho' => by
        have := hf o' (List.mem_cons_of_mem _ ho'); simpa [hcu] using this) hp
      exact ⟨this.1, this.2.trans hcu⟩
    · simp [Outcome.isPanic] at hp

theorem applyUnit_rbInv (r : Replica) (unit : List Op) (h : r.RbInv)
    (hf : ∀ o ∈ unit, o.id.cuid ≠ r.opId.cuid) (hp : (r.applyUnit unit).2.isPanic = false) :
    (r.applyUnit unit).1.RbInv ∧ (r.applyUnit unit).1.opId.cuid = r.opId.cuid := by
  rcases applyUnit_cases r unit with ⟨_, e⟩ | e | ⟨e, _⟩ | ⟨e, _⟩
  · rw [e]; exact ⟨h, rfl⟩
  · rw [e]; exact ⟨h, rfl⟩
  · rw [e] at hp ⊢; exact applyUnit_go_rbInv _ _ h hf hp
  · rw [e] at hp ⊢
    exact applyUnit_go_rbInv _ _ h (fun o ho => hf o (List.mem_of_mem_tail ho)) hp

/-- the length of the unit that starts with `o` -/
def Op.unitLen (o : Op) : Nat :=
  match o.body with
  | .transaction _ n => n.toNat
  | _ => 1

/-- the header check of `receive` -/
def Op.badHeader (o : Op) (avail : Nat) : Bool :=
  match o.body with
  | .transaction _ n => n < 1 || n.toNat > avail
  | _ => false

theorem receive_go_succ (fuel : Nat) (r : Replica) (o : Op) (rest : List Op) :
    Replica.receive.go (fuel + 1) r (o :: rest) =
      if o.badHeader (o :: rest).length then (r, .err Err.transaction)
      else
        match r.applyUnit ((o :: rest).take o.unitLen) with
        | (r', .ok ()) => Replica.receive.go fuel r' ((o :: rest).drop o.unitLen)
        | (r', e) => (r', e) := by
  rw [Replica.receive.go]
  unfold Op.badHeader Op.unitLen
  cases o.body <;> simp <;> rfl

theorem receive_go_nil (fuel : Nat) (r : Replica) : Replica.receive.go fuel r [] = (r, .ok ()) := by
  cases fuel <;> rfl

theorem receive_go_zero (r : Replica) (o : Op) (rest : List Op) :
    Replica.receive.go 0 r (o :: rest) = (r, .panic "fuel") := rfl

theorem receive_go_rbInv (fuel : Nat) : ∀ (r : Replica) (ops : List Op), r.RbInv →
    (∀ o ∈ ops, o.id.cuid ≠ r.opId.cuid) → (Replica.receive.go fuel r ops).2.isPanic = false →
    (Replica.receive.go fuel r ops).1.RbInv := by
  induction fuel with
  | zero =>
    intro r ops h _ hp
    cases ops with
    | nil => exact h
    | cons o rest => exact h
  | succ fuel ih =>
    intro r ops h hf hp
    cases ops with
    | nil => exact h
    | cons o rest =>
      rw [receive_go_succ] at hp ⊢
      split
      · exact h
      · rename_i hb
        simp only [hb] at hp
        rcases he : r.applyUnit ((o :: rest).take o.unitLen) with ⟨r', (_ | c | w)⟩ <;>
          rw [he] at hp <;> simp only [] at hp ⊢
        · have := applyUnit_rbInv r _ h (fun o' ho' => hf o' (List.mem_of_mem_take ho')) (by rw [he]; rfl)
          rw [he] at this
          exact ih _ _ this.1 (fun o' ho' => by
            rw [this.2]; exact hf o' (List.mem_of_mem_drop ho')) hp
        · have := applyUnit_err_unchanged r _ c (by rw [he])
          rw [he] at this
          simp only at this
          rw [this]; exact h
        · simp [Outcome.isPanic] at hp

/-- remote operations come from other clients -/
theorem rbInv_receive (r : Replica) (ops : List Op) (h : r.RbInv)
    (hforeign : ∀ o ∈ ops, o.id.cuid ≠ r.opId.cuid)
    (hp : (r.receive ops).2.isPanic = false) : (r.receive ops).1.RbInv :=
  receive_go_rbInv _ _ _ h hforeign hp

/-- a unit whose header announces a length that is not positive or exceeds what was received is refused
    before anything of it is applied (and never loops or panics) -/
theorem receive_bad_header (r : Replica) (hd : Op) (rest : List Op) (tag : String) (n : Int)
    (hb : hd.body = .transaction tag n) (hbad : n < 1 ∨ n.toNat > (hd :: rest).length) :
    r.receive (hd :: rest) = (r, .err Err.transaction) := by
  have : hd.badHeader (hd :: rest).length = true := by
    unfold Op.badHeader
    rw [hb]
    simpa using hbad
  show Replica.receive.go (rest.length + 1) r (hd :: rest) = _
  rw [receive_go_succ, if_pos this]

end Orda
